"""Texts of MANIFEST.json, per property."""
HOOK_COMMITS = ["cb2d936", "4e2c805"]
NOTES = ("Every check: regenerate Gen/*.lean from /repo, lake build the property's theorems, audit axioms, rebuild the Go harness from "
         "/repo's working tree, run corpus + generated cases, diff Go vs Lean model vs Lean specification. "
         "Known findings: known_findings.json. Design: DESIGN.md.")
NOT_CLAIMED = {}
_EXPL = ("No theorem of this property is finished yet: the check is a three-way differential run (real Go code / executable Lean model of the "
         "code / executable Lean specification 'exact result rounded once' over rationals) on generated and constructed cases. ")
_NOTE = ("Trusted: the Lean specification (lean/DecimalModel/Spec), the Go harness and line protocol, the compiled Lean driver, GMP, the Go "
         "toolchain. The Lean model is hand-written; its agreement with the code is what the run samples.")
def _t(design, extra=""):
    return {"category": "exploration", "text": _EXPL + extra, "design_ref": design, "note": _NOTE,
            "technique": "Lean 4 executable specification + model, differential correspondence run (proofs in progress)"}
_PNOTE = ("Trusted: Lean 4.33 kernel; axioms propext/Classical.choice/Quot.sound only (audited per theorem every run); the Lean specification "
          "(lean/DecimalModel/Spec); the hand-written Lean model of the Go methods (lean/DecimalModel), whose agreement with /repo is what the "
          "correspondence run of the same check samples on every run (Go harness + compiled Lean driver + line protocol); tools/gen for the regenerated parts.")
def _p(design, text, technique="Lean 4 theorems (kernel-checked, axioms audited) about a model tied to the code by a per-run correspondence check"):
    return {"category": "proof", "text": text, "design_ref": design, "note": _PNOTE, "technique": technique}
TEXT = {}

def _set(pid, entry):
    assert pid not in TEXT, 'duplicate manifest text for ' + pid
    TEXT[pid] = entry

_set('C01', {
    'category': 'proof',
    'design_ref': '8/C01',
    'technique': 'Lean 4 theorems (kernel-checked, axioms audited) about a model tied to the code by a per-run correspondence check',
    'note': 'Trusted: Lean 4.33 kernel; axioms propext/Classical.choice/Quot.sound only (audited per theorem every run); the Lean specification (lean/DecimalModel/Spec); the hand-written Lean model of the Go methods (lean/DecimalModel), whose agreement with /repo is what the correspondence run of the same check samples on every run (Go harness + compiled Lean driver + line protocol); tools/gen for the regenerated parts.',
    'text': "Theorems (Properties/C01.lean, 23; Proofs/Round RoundSpec Canonical Arith ArithOps AddFar): round_correct - the model's round equals the exact magnitude rounded once (all modes, signs, carries, exponent-range ends); add_correct, sub_correct, mul_correct, quo_correct - for ALL canonical finite operands, every receiver precision >= 1 (or 0: largest operand precision) and mode, the receiver holds exactly Spec.addSV/subSV/mulSV/quoSV = the infinitely precise result rounded once, value AND accuracy, including exact cancellation (sign of zero), underflow to a zero and overflow to an infinity; uquo always has prec+1 quotient digits so remainder = sticky is sound; set_correct, setPrec_correct, neg_correct, abs_correct (round, then change the sign); addForRound_sound - the far-apart shortcut of the executable oracle equals the plain exact sum. The L1 model replaces dec.add/sub/shl/mul/div by arithmetic, which Properties/C06 proves about the word-level code for all sizes. Word level (Properties/C01W.lean, 43; DecimalModel/L0Decimal.lean = decimal.go's round/uadd/usub/umul/uquo/ucmp/Set/SetPrec/Add/Sub/Mul/Quo transcribed at the granularity of the dec-level calls, on base-10^19 word lists through the L0 kernels of C06): round_refines, uadd_refines, usub_refines, umul_refines, uquo_refines (both division paths), ucmp_refines, set/setPrec/add/sub/mul/quo_refines - the abstraction (natOf of the words, length) of the word-level result IS the L1 result, no error on well-formed operands, well-formedness preserved; mul/quo/add/sub_correct_words - composed with the L1 theorems: the WORDS left in the receiver denote the exact result rounded once. The driver runs the word-level model on the pre-state words of every Add/Sub/Mul/Quo step and compares with the words Go left.",
})

_set('C02', {
    'category': 'proof',
    'design_ref': '8/C02',
    'technique': 'Lean 4 theorems (kernel-checked, axioms audited) about a model tied to the code by a per-run correspondence check',
    'note': 'Trusted: Lean 4.33 kernel; axioms propext/Classical.choice/Quot.sound only (audited per theorem every run); the Lean specification (lean/DecimalModel/Spec); the hand-written Lean model of the Go methods (lean/DecimalModel), whose agreement with /repo is what the correspondence run of the same check samples on every run (Go harness + compiled Lean driver + line protocol); tools/gen for the regenerated parts.',
    'text': 'Theorems (Properties/C02.lean, 15): about the specification itself - for a finite result of Spec.round the coefficient has exactly p digits, acc = Exact iff stored = exact, Above iff stored > exact, Below iff stored < exact (signed), |stored - exact| < 1 ulp, directed modes pick the mandated neighbour, nearest modes are within ulp/2, underflow/overflow accuracies; and about the operations - add_acc, sub_acc, mul_acc, quo_acc, set_acc: the accuracy left in the receiver is the sign of (stored - exact). Setters SetInt SetInt64 SetUint64 NewDecimal SetMantExp: Properties/C14, C20 (accuracy is part of Spec.agrees there). FMA: C03. Base-10 Parse: C12.',
})

_set('C03', {
    'category': 'proof',
    'design_ref': '8/C03',
    'technique': 'Lean 4 theorems (kernel-checked, axioms audited) about a model tied to the code by a per-run correspondence check',
    'note': 'Trusted: Lean 4.33 kernel; axioms propext/Classical.choice/Quot.sound only (audited per theorem every run); the Lean specification (lean/DecimalModel/Spec); the hand-written Lean model of the Go methods (lean/DecimalModel), whose agreement with /repo is what the correspondence run of the same check samples on every run (Go harness + compiled Lean driver + line protocol); tools/gen for the regenerated parts.',
    'text': "Theorems (Properties/C03.lean, 6): fma_correct - for canonical finite x y u the receiver holds Spec.fmaSV = x*y+u rounded ONCE (value and accuracy), under two explicit hypotheses: 19*(len x + len y) <= MaxPrec (the scratch precision MaxPrec must hold the full product) and the exact product's decimal exponent within [MinExp, MaxExp] (outside it the code flushes the product first: the recorded known finding); fma_zero_sum_sign. Aliasing of the receiver with x, y or u: Properties/C10 (fma_alias_indep). The run adds cancellation, far-above/far-below addends, all 15 aliasing partitions and measures how often the fused result differs from Mul-then-Add.",
})

_set('C04', {
    'category': 'proof',
    'design_ref': '8/C04',
    'technique': 'Lean 4 theorems (kernel-checked, axioms audited) about a model tied to the code by a per-run correspondence check',
    'note': 'Trusted: Lean 4.33 kernel; axioms propext/Classical.choice/Quot.sound only (audited per theorem every run); the Lean specification (lean/DecimalModel/Spec); the hand-written Lean model of the Go methods (lean/DecimalModel), whose agreement with /repo is what the correspondence run of the same check samples on every run (Go harness + compiled Lean driver + line protocol); tools/gen for the regenerated parts.',
    'text': 'Theorems (Properties/C04.lean, 26): for every class of operands with at least one zero or infinity and every mode, the model of Add Sub Mul Quo FMA returns exactly the IEEE-754 result of Spec/IEEE.lean, panics with ErrNaN exactly for the invalid forms, leaves a valid receiver after a NaN, product/quotient signs are XOR, zero sums follow the sign rule. The finite+zero sub-cases (which round) and FMA with a finite product are stated with the rounding lemma as hypothesis / as _partial; they are closed by the C01/C03 theorems. The exhaustive class product x 6 modes is also executed on the real code every run and compared with model and specification.',
})

_set('C05', {
    'category': 'proof',
    'design_ref': '8/C05',
    'technique': 'Lean 4 theorems (kernel-checked, axioms audited) about a model tied to the code by a per-run correspondence check',
    'note': 'Trusted: Lean 4.33 kernel; axioms propext/Classical.choice/Quot.sound only (audited per theorem every run); the Lean specification (lean/DecimalModel/Spec); the hand-written Lean model of the Go methods (lean/DecimalModel), whose agreement with /repo is what the correspondence run of the same check samples on every run (Go harness + compiled Lean driver + line protocol); tools/gen for the regenerated parts.',
    'text': "Theorems (Properties/C05.lean 27 + Properties/C05Lit.lean 32; Proofs/Sqrt.lean 970 lines): sqrt_correct - for every canonical finite x >= 0, every effective precision p >= 1 and mode, the model's Sqrt returns the value Spec.sqrtSV prescribes (the integer bracket N^2 <= X < (N+1)^2 of the real root, given by Nat.sqrt with a sticky flag, rounded once), with the receiver's precision and mode preserved; sqrtSpec_bracket/unique/eq_round tie that specification to 'the real root rounded once' without real numbers; midpoint_round - rounding the midpoint N*10+5 equals rounding any value strictly inside (N, N+1) in all six modes (the repaired code's final step); perfect squares give the exact root in every mode; specials, NaN iff negative, aliasing. That model abstracts sqrtInverse by the exit condition of its loops. Properties/C05Lit.lean (32; DecimalModel/SqrtLit.lean, Proofs/SqrtLit*.lean 3500 lines) closes the abstraction with a LITERAL model of sqrtInverse (the Newton iteration with the Go precisions and uint32 arithmetic, s = x*t truncated, both correction loops with the ulp recomputed each pass, the midpoint step, Set) whose float64 seed is a universally quantified parameter: loops_partial_correct - from ANY starting s (zero or any positive float of any decade) if the two loops exit, s is exactly the bracket candidate (decade crossings included); loop1_terminates / loop2_terminates with explicit pass bounds; sqrtLit_equiv_sqrt - for EVERY seed (any value, sign or form) and every fuel, whatever the literal model returns equals the abstract model's result (up to zero-word padding of the mantissa), hence sqrtLit_correct: correctly rounded; newton_never_panics; sqrtLit_goodSeed - for a seed within about 20 percent of 1/sqrt(x) the Newton iterates stay positive (error analysis of the five roundings) and the literal Sqrt terminates with the correctly rounded root; sqrtLit_total_noNewton (p <= 15, every seed). Findings of the termination analysis, not reachable with the float64 seed: a seed with x*t0^2 > 3 makes Newton diverge to a negative t and the loops never exit. Not proved: that the float64 seed is within 20 percent (math.Sqrt is outside the model) and the 'at most 2 passes' performance claim. The driver runs the literal model (17-digit seed computed in Lean) beside the abstract one on every Sqrt step.",
})

_set('C06', {
    'category': 'proof',
    'design_ref': '8/C06',
    'technique': 'Lean 4 theorems (induction over word lists, all sizes, thresholds as parameters) + kernel-level correspondence under random tuning',
    'note': 'Trusted: Lean 4.33 kernel; axioms propext/Classical.choice/Quot.sound only (audited per theorem every run); the Lean specification (lean/DecimalModel/Spec); the hand-written Lean model of the Go methods (lean/DecimalModel), whose agreement with /repo is what the correspondence run of the same check samples on every run (Go harness + compiled Lean driver + line protocol); tools/gen for the regenerated parts.',
    'text': 'Theorems (Properties/C06.lean, 29; Proofs/Vec DecOps Mul Div DivRec DivRecLeaf DivRecArith, 4700 lines) about the L0 word-list model of dec.go built on the word functions regenerated from the Go source, for ALL lengths and ALL thresholds: every vector kernel equals its arithmetic definition; add sub cmp shl shr mulAddWW divW basicMul; karatsuba_spec (any threshold, incl. the |x1-x0|*|y0-y1| sign handling), mul_spec, basicSqr/karatsubaSqr/sqr_spec, threshold independence as equality of word lists; Knuth algorithm D: divBasic_spec (the q-hat estimate, multiply-subtract, add-back WITH the decimal carry), divLarge, div_total: quotient and remainder exact, normalised, and no error outcome on valid operands. Recursive division (Burnikel-Ziegler, divisors >= divRecursiveThreshold; DecimalModel/DivRec.lean models divRecursive/divRecursiveStep literally: temps depths, un-normalised qhatv in cmp, padded slices, the three panic("impossible") sites and the slice-bounds panics as explicit errors): bz_lower/bz_upper (the block estimate is at most 2 too large), divBasic_gen (leaf calls with any destination length), divRecStep_total/_spec/_no_error - for any threshold >= 4 every step returns the exact block quotient and remainder and NONE of the error sites is reachable (this is the theorem the pre-c1e3f63 code fails: its model returns "impossible" on a 13-word input), divRecursive_total, divLargeRec_total/_spec, divFull_total/_spec/_no_error, divFull_eq_div (same word lists as the schoolbook path), divFull_production (thresholds 100/30). The run: dec.mul/sqr/div through the hooks under random thresholds vs the L0 model (same thresholds) vs arithmetic; Mul/Quo through the public API.',
})

_set('C07', {
    'category': 'proof',
    'design_ref': '8/C07',
    'technique': 'Lean 4 theorems over code REGENERATED from the Go source and from the amd64 assembly by tools/gen + kernel-level correspondence (CPU vs portable Go vs Lean-executed translated assembly vs L0 model vs arithmetic)',
    'note': _PNOTE + ' Additionally trusted for C07: the hand-written meaning of ~30 amd64 mnemonics in tools/gen/asm.go and lean/DecimalModel/AsmSem.lean, validated on every run by executing the translated routines in Lean on the same inputs as the CPU.',
    'text': "Theorems (Properties/C07.lean 27 + Properties/C07b.lean 20) over definitions REGENERATED on every run. (a) Portable Go: div10W_g (Granlund-Montgomery) mul10WW_g div10WW_g add10WWW_g sub10WWW_g equal their mathematical definition for all inputs in the precondition; all 18 rows of pow10DivTab64 divide every 64-bit word exactly; decDigits64, nlz10, trailingZeroDigits, tables, constants. The vector loops around them are proved for all lengths in Properties/C06 (Proofs/Vec). (b) Assembly (dec_arith_amd64.s translated to one SSA let-chain per basic block): tier A - mul10WW, div10WW, div10W equal the definition and the portable kernel for all inputs; tier B - 74 block lemmas, every block of every routine (single-step bodies = the Go word step, 4x-unrolled bodies = four steps, table row fetch incl. the 16-bit load + RORW, copy loops); tier C - whole-routine theorems for every length n < 2^60 at memory level (termination, result words, carry, all other memory untouched, destination may equal the source) for ALL nine vector routines: add10VV, sub10VV, mulAdd10VWW, addMul10VVW, div10VWW (C07) and add10VW, sub10VW (first-word carry, early exit into the shared copy loop or immediate return when in place, 4x-unrolled loop, tail), shl10VU, shr10VU (table-driven magic division, every 64-bit word, the shifted-overlap shapes dec.shl and dec.shr use) plus the copy routines decCpy/decCpyInv (C07b); wrapper-level corollaries asm_<routine>_eq: the translated routine called with the Go ABI frame returns exactly the list-level kernel of Proofs/Vec, hence the arithmetic value. (c)/(d)/(e) on the real thing every run: each kernel on the CPU vs portable Go vs the Lean-executed translated assembly vs the L0 model vs arithmetic, lengths 0..70/400, all shifts, in-place and shifted-overlap destinations as dec.shl/dec.shr/dnorm use them; identical public-API transcripts under the default, decimal_pure_go and math_big_pure_go builds.",
})

_set('C08', {
    'category': 'proof',
    'design_ref': '8/C08',
    'technique': 'Lean 4 theorems (kernel-checked, axioms audited) about a model tied to the code by a per-run correspondence check',
    'note': 'Trusted: Lean 4.33 kernel; axioms propext/Classical.choice/Quot.sound only (audited per theorem every run); the Lean specification (lean/DecimalModel/Spec); the hand-written Lean model of the Go methods (lean/DecimalModel), whose agreement with /repo is what the correspondence run of the same check samples on every run (Go harness + compiled Lean driver + line protocol); tools/gen for the regenerated parts.',
    'text': 'Theorems (Properties/C08.lean, 30): round/setExpAndRound/setNormAndRound produce canonical values (normalised mantissa, words of digits beyond the precision zero, exponent in [MinExp, MaxExp], carry to Inf only at MaxExp); every L1 operation (Add Sub Mul Quo FMA Sqrt Set Neg Abs Copy SetPrec SetMode SetInf SetInt64/Uint64 SetInt SetBitsExp SetMantExp MantExp, GobDecode of ANY accepted payload, the Context wrappers) preserves Canonical for every aliasing flag combination; reachable_canonical: by induction over arbitrary operation sequences of the L2 program model every variable stays canonical; canonical_unique: equal canonical values have identical digits and exponent. On the real code the same invariant is monitored after every step of generated programs (incl. failed parses, hostile gob payloads, raw mantissa input).',
})

_set('C09', {
    'category': 'proof',
    'design_ref': '8/C09',
    'technique': 'Lean 4 theorems (kernel-checked, axioms audited) about a model tied to the code by a per-run correspondence check',
    'note': 'Trusted: Lean 4.33 kernel; axioms propext/Classical.choice/Quot.sound only (audited per theorem every run); the Lean specification (lean/DecimalModel/Spec); the hand-written Lean model of the Go methods (lean/DecimalModel), whose agreement with /repo is what the correspondence run of the same check samples on every run (Go harness + compiled Lean driver + line protocol); tools/gen for the regenerated parts.',
    'text': "Theorems (Properties/C09.lean, 46): for every operation of the model and every aliasing flag combination the receiver's mode is unchanged and its precision is prec if non-zero else the documented value (max of operand precisions; x.prec for Set/Neg/Abs; 34 or digit count for integer setters); Copy/SetMantExp/MantExp copy exactly prec and mode of the source. Operands-unmodified is the value semantics of the model; on the real code it is checked every run by before/after snapshots of every variable including backing arrays up to capacity.",
})

_set('C10', {
    'category': 'proof',
    'design_ref': '8/C10',
    'technique': 'Lean 4 theorems (kernel-checked, axioms audited) about a model tied to the code by a per-run correspondence check',
    'note': 'Trusted: Lean 4.33 kernel; axioms propext/Classical.choice/Quot.sound only (audited per theorem every run); the Lean specification (lean/DecimalModel/Spec); the hand-written Lean model of the Go methods (lean/DecimalModel), whose agreement with /repo is what the correspondence run of the same check samples on every run (Go harness + compiled Lean driver + line protocol); tools/gen for the regenerated parts.',
    'text': "Theorems (Properties/C10.lean, 39): for Add Sub Mul Quo FMA Set Neg Abs Copy SetMantExp MantExp and every combination of 'operand is the receiver' flags, the model's result equals the result with the operand passed as a separate variable holding the same value (FMA up to unobservable stale storage); the result depends on the receiver only through its precision and mode (observational equality). Buffer-level aliasing (dec.mul/sqr/div/shl/shr/add/sub with nil, stale and operand-aliasing receivers, poisoned pool buffers) is decided by the kernel-level correspondence run.",
})

_set('C11', {
    'category': 'proof',
    'design_ref': '8/C11',
    'technique': 'Lean 4 theorems (kernel-checked, axioms audited) about a model tied to the code by a per-run correspondence check',
    'note': 'Trusted: Lean 4.33 kernel; axioms propext/Classical.choice/Quot.sound only (audited per theorem every run); the Lean specification (lean/DecimalModel/Spec); the hand-written Lean model of the Go methods (lean/DecimalModel), whose agreement with /repo is what the correspondence run of the same check samples on every run (Go harness + compiled Lean driver + line protocol); tools/gen for the regenerated parts.',
    'text': "Theorems (Properties/C11.lean 3 + Properties/C11b.lean 25; Proofs/TextRT TextRT2 Scan Scan2, DecimalModel/Marsh.lean = literal MarshalText/UnmarshalText/SetString wrappers): natDigits_readback; text_shortest_digits - for every canonical finite x, Text(x,'e',-1) is the rendering of a literal whose digit string has exactly MinPrec(x) digits (last one non-zero) and whose value is exactly x; parse_text_roundtrip_e - parsing that string (base 10 or 0) into any receiver with precision >= MinPrec returns exactly x's value and sign with accuracy Exact. C11b: text_shortest for ALL of e E f g G (the output is the rendering of a literal whose significant digits are exactly MinPrec(x) digits, first and last non-zero, plus layout zeros in the %f style only, and whose value is exactly x; 'g' with no precision is exactly the 'e' text when exp-1 < -4 or exp-1 >= 6 and exactly the 'f' text otherwise - append_g_shortest_eq), parse_text_roundtrip (formats e E f g G, base 10 and 0, any receiver whose precision - 34 if 0 - is at least MinPrec(x): value, sign, Exact, no error), parse_text_trailing, text_zero/parse_text_zero, text_inf/parse_inf (six spellings)/parse_text_inf, unmarshal_marshal (+ zero, inf, trailing), parse10_correct_E (the parser theorem of C12 for the 'E' marker). Finding recorded in DESIGN: 'precision 0' of the receiver means 34 digits, so the round trip into a zero-value receiver is exact only for MinPrec(x) <= 34 - the theorem states exactly that. The formats p and b and JSON are decided by the run: output read by an independent reader must denote exactly x with exactly MinPrec digits, then Parse and Cmp on the real code.",
})

_set('C12', {
    'category': 'proof',
    'design_ref': '8/C12',
    'technique': 'Lean 4 theorems (kernel-checked, axioms audited) about a model tied to the code by a per-run correspondence check',
    'note': 'Trusted: Lean 4.33 kernel; axioms propext/Classical.choice/Quot.sound only (audited per theorem every run); the Lean specification (lean/DecimalModel/Spec); the hand-written Lean model of the Go methods (lean/DecimalModel), whose agreement with /repo is what the correspondence run of the same check samples on every run (Go harness + compiled Lean driver + line protocol); tools/gen for the regenerated parts.',
    'text': "Theorems (Properties/C12.lean, 24; Proofs/Scan 1100 lines): parse10_correct - for EVERY well-formed base-10 literal [sign] digits [. digits] [e [sign] digits] (given as structured data and rendered), base 10 or 0, Parse stores the literal's exact value rounded once to the receiver's precision (34 if 0) and mode with truthful accuracy; a zero coefficient gives a signed zero; an exponent outside the range gives an error; rejection for ALL strings of each shape: empty, lone sign, no mantissa digits, trailing or doubled '_', exponent marker without digits, exponent beyond int64, trailing bytes after a complete number; parse_total - the model's Parse is a total function into ok/error (the scanner is structurally recursive on the input: Lean checks termination), invalid base arguments being the documented panic outside the domain. 'E' exponents: parse10_correct_E in Properties/C11b.lean. Not at theorem level: 'p' exponents and bases 2/8/16 (exact when representable / within one ulp), acceptance set = math/big's - decided by the run three ways (Go, Lean scanner, math/big Float.Parse).",
})

_set('C13', {
    'category': 'proof',
    'design_ref': '8/C13',
    'technique': 'Lean 4 theorems (kernel-checked, axioms audited) about a model tied to the code by a per-run correspondence check',
    'note': 'Trusted: Lean 4.33 kernel; axioms propext/Classical.choice/Quot.sound only (audited per theorem every run); the Lean specification (lean/DecimalModel/Spec); the hand-written Lean model of the Go methods (lean/DecimalModel), whose agreement with /repo is what the correspondence run of the same check samples on every run (Go harness + compiled Lean driver + line protocol); tools/gen for the regenerated parts.',
    'text': "Theorems (Properties/C13.lean, 14; Proofs/Format 1450 lines) about the model of Append/Text/Format (DecimalModel/Text.lean): format_flags - for EVERY x, flag set, width and supported verb the output is sign ++ zero-padding ++ body, body ++ spaces, or spaces ++ sign ++ body exactly as fmt prescribes ('-' wins over '0', no zero padding of infinities, '+' / space rule, width is a minimum), format_badVerb; append_inf / append_zero - +-Inf and +-0 in every format and precision, whatever the zero's stale exponent; roundBelowQuantum_spec - below the quantum of %.<p>f the result is 0 or one quantum decided by the full value under x's mode (strict / non-strict half for the two nearest modes); rounded_copy - the digits printed are those of x rounded ONCE to n significant digits under x's own mode (via set_correct); append_e_digits / append_e_value (one digit, '.', exactly p digits, exponent of at least two digits; the printed literal denotes the rounded value), append_f_layout / append_f_below_quantum (integer digits, exactly p fraction digits, value = x rounded at the 10^-p place), append_g_choice / append_g_choice_shortest (the %e / %f switch at X < -4 or X >= eprec with strconv's eprec rule, trailing zeros removed). Hypothesis of the digit theorems: the rounded copy stays finite (always when x.exp < MaxExp); at x.exp = MaxExp with a carry the real code prints 0.00e+00 - the known finding text-rounding-carries-past-MaxExp, reported by class. Not at theorem level: the 'p' and 'b' formats and the byte-for-byte comparison with strconv/math/big on fmt layouts, decided by the run (Go's fmt on float64 / big.Float as a third voice).",
})

_set('C14', {
    'category': 'proof',
    'design_ref': '8/C14',
    'technique': 'Lean 4 theorems (kernel-checked, axioms audited) about a model tied to the code by a per-run correspondence check',
    'note': 'Trusted: Lean 4.33 kernel; axioms propext/Classical.choice/Quot.sound only (audited per theorem every run); the Lean specification (lean/DecimalModel/Spec); the hand-written Lean model of the Go methods (lean/DecimalModel), whose agreement with /repo is what the correspondence run of the same check samples on every run (Go harness + compiled Lean driver + line protocol); tools/gen for the regenerated parts.',
    'text': 'Theorems (Properties/C14.lean, 42): for canonical x - intMant = floor|x|, minPrec/isInt characterised by divisibility and by the exact value, Int = truncation with accuracy Exact iff integer else Below/Above by sign, Int64/Uint64 = truncation when it fits else the documented saturation, agreement with the executable spec (truncSV); setters as corollaries of round_correct: SetInt64/SetUint64/NewDecimal/SetInt store the argument rounded once (exactly, with the documented precision, when the precision was 0). SetRat and Rat (math/big rationals) and the binary<->decimal radix loops decToNat/setNat are decided by the run only.',
})

_set('C15', {
    'category': 'proof',
    'design_ref': '8/C15',
    'technique': 'Lean 4 theorems (kernel-checked, axioms audited) about a model tied to the code by a per-run correspondence check',
    'note': 'Trusted: Lean 4.33 kernel; axioms propext/Classical.choice/Quot.sound only (audited per theorem every run); the Lean specification (lean/DecimalModel/Spec); the hand-written Lean model of the Go methods (lean/DecimalModel), whose agreement with /repo is what the correspondence run of the same check samples on every run (Go harness + compiled Lean driver + line protocol); tools/gen for the regenerated parts.',
    'text': "Theorems (Properties/C15.lean, 23; Proofs/Binary, Proofs/SetFloat64): the binary specification is pinned down - floorLog2_spec, nearestBin_grid / _nearest / _tie_even / _acc / nearest_id_on_grid / _inf_iff (IEEE overflow threshold): Spec.nearestBin IS round-to-nearest-even onto the p-bit grid with subnormals and overflow, with truthful accuracy; pow2_exact - the model of pow2 (square-and-multiply at 800 digits) returns exactly 2^n for every n <= 1126; setFloat64_correct - for EVERY finite non-zero float64 bit pattern and EVERY receiver, SetFloat64 stores the exact binary value rounded once to the receiver's precision (17 if 0) and mode with truthful accuracy, setFloat64_exact_when_fits (exact whenever the decimal expansion fits), float64_expansion (every finite float64 has at most 767 digits - why 800 suffices), setFloat64_special (+-0, +-Inf, NaN -> ErrNaN with the receiver's value untouched), setFloat64_prec_mode, setFloat64_canonical. Not at theorem level, decided by the run against the exact oracle: Float64/Float32 (go through math/big's Float, not modelled; the pinned TestDecimalFloat64 encodes a double rounding - four known-finding classes), SetFloat and Float (math/big operands; 'naive' error bound checked numerically).",
})

_set('C16', {
    'category': 'proof',
    'design_ref': '8/C16',
    'technique': 'Lean 4 theorems (kernel-checked, axioms audited) about a model tied to the code by a per-run correspondence check',
    'note': 'Trusted: Lean 4.33 kernel; axioms propext/Classical.choice/Quot.sound only (audited per theorem every run); the Lean specification (lean/DecimalModel/Spec); the hand-written Lean model of the Go methods (lean/DecimalModel), whose agreement with /repo is what the correspondence run of the same check samples on every run (Go harness + compiled Lean driver + line protocol); tools/gen for the regenerated parts.',
    'text': 'Theorems (Properties/C16.lean, 19): cmp_spec - for canonical operands Cmp equals the order of the exact rational values with -Inf < finite < +Inf and -0 = +0 (Spec.cmpSV), independent of precision, mode, accuracy and mantissa length; reflexive, antisymmetric, transitive; consistent with Sign/zero/infinity classification. Nothing partial.',
})

_set('C17', {
    'category': 'proof',
    'design_ref': '8/C17',
    'technique': 'Lean 4 theorems (kernel-checked, axioms audited) about a model tied to the code by a per-run correspondence check',
    'note': 'Trusted: Lean 4.33 kernel; axioms propext/Classical.choice/Quot.sound only (audited per theorem every run); the Lean specification (lean/DecimalModel/Spec); the hand-written Lean model of the Go methods (lean/DecimalModel), whose agreement with /repo is what the correspondence run of the same check samples on every run (Go harness + compiled Lean driver + line protocol); tools/gen for the regenerated parts.',
    'text': 'Theorems (Properties/C17.lean, 18; Proofs/GobRT.lean): gob_roundtrip - for every canonical x decoding the encoding into a zero value gives back form, sign, precision, mode, accuracy, exponent and digits (low zero words beyond the precision are not transmitted: gob_roundtrip_words, gob_roundtrip_exact); every byte of an encoding is < 256; gob_decode_safe - any payload accepted into a fresh receiver yields a canonical value (with gobDecode_canonical of C08 for arbitrary receivers); decoding is total by construction (no panic outcome in the model). Decoding into a receiver with its own precision is SetPrec of the decoded value (C01 rounding).',
})

_set('C18', {
    'category': 'proof',
    'design_ref': '8/C18',
    'technique': 'Lean 4 theorem over all interleavings of an abstract ownership model; premises tied by deterministic pool-poisoning and snapshot runs',
    'note': 'Trusted: Lean 4.33 kernel; axioms propext/Classical.choice/Quot.sound only (audited per theorem every run); the Lean specification (lean/DecimalModel/Spec); the hand-written Lean model of the Go methods (lean/DecimalModel), whose agreement with /repo is what the correspondence run of the same check samples on every run (Go harness + compiled Lean driver + line protocol); tools/gen for the regenerated parts.',
    'text': "Partial by nature (the Go memory model and the scheduler are not modelled). Theorems (Properties/C18.lean, 8) about an abstract event model (DecimalModel/Pool.lean): for ANY number of goroutines and EVERY interleaving that respects the discipline P1-P4 (writes only to private or currently-held pool buffers; reads only of shared operands, private buffers, or held pool buffers after own write; get/put exclusive), no two accesses of different goroutines to one address conflict without a put/get hand-over between them (no_conflict), every read returns the initial shared value or the goroutine's own last write (read_value_local), and the projection onto one goroutine is a valid sequential run with the same read values (interleaving_noninterference). The premises are tied to the code by the run: operand snapshots incl. backing arrays, pool poisoning on get AND put with an outstanding-set under -tags verif (use-after-put, double put, reliance on zeroed scratch change results), and k in {2,4,8,16} goroutines on shared operands compared with the sequential result (support).",
})

_set('C19', {
    'category': 'proof',
    'design_ref': '8/C19',
    'technique': 'Lean 4 theorems (kernel-checked, axioms audited) about a model tied to the code by a per-run correspondence check',
    'note': 'Trusted: Lean 4.33 kernel; axioms propext/Classical.choice/Quot.sound only (audited per theorem every run); the Lean specification (lean/DecimalModel/Spec); the hand-written Lean model of the Go methods (lean/DecimalModel), whose agreement with /repo is what the correspondence run of the same check samples on every run (Go harness + compiled Lean driver + line protocol); tools/gen for the regenerated parts.',
    'text': "Theorems (Properties/C19.lean, 19) over the L2 program model, by induction over operation sequences: while an error is latched every context operation returns its receiver and leaves all variables and the context untouched (ctx_latch_noop, ctx_first_error_wins, ctx_err_monotone); Err() returns the recorded error exactly once and re-arms (ctx_Err_once); a NaN never reaches the caller as a panic and is latched iff the underlying method raises ErrNaN (ctx_no_panic_on_nan, ctx_latch_iff); other panics propagate unchanged and do not latch; after a non-latched operation the receiver has the context's precision and mode whatever it had before, and the result is the underlying method applied to apply(z) (ctx_apply_attrs, ctx_step_result, ctx_rounds with the C01 correctness statement as hypothesis; ctx_*_fresh for receivers distinct from operands). The run drives the real Context through sequences with NaN-producing operands, Err() calls and a nil operand (non-NaN panic).",
})

_set('C20', {
    'category': 'proof',
    'design_ref': '8/C20',
    'technique': 'Lean 4 theorems (kernel-checked, axioms audited) about a model tied to the code by a per-run correspondence check',
    'note': 'Trusted: Lean 4.33 kernel; axioms propext/Classical.choice/Quot.sound only (audited per theorem every run); the Lean specification (lean/DecimalModel/Spec); the hand-written Lean model of the Go methods (lean/DecimalModel), whose agreement with /repo is what the correspondence run of the same check samples on every run (Go harness + compiled Lean driver + line protocol); tools/gen for the regenerated parts.',
    'text': "Theorems (Properties/C20.lean, 10): setBitsExp_correct - for ANY word slice with words < 10^19 (leading zero words/digits included) SetBitsExp stores the positive value natOf(ws) x 10^(e - 19 len) rounded once (0 for an all-zero slice), with the documented precision when it was 0; mantExp_spec; setMantExp_mantExp - SetMantExp(MantExp(x)) has exactly x's value, sign, precision, mode; setMantExp_range - the result is +-0 / +-Inf exactly when m.exp + e leaves [MinExp, MaxExp] (unbounded integers in the model: the int64 saturation of the repaired code is tied by the run at the int64 extremes).",
})

