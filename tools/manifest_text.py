"""Texts of MANIFEST.json, per property."""
HOOK_COMMITS = ["cb2d936", "4e2c805"]
NOTES = ("Every check: regenerate Gen/*.lean from /repo, lake build the property's theorems, audit axioms, rebuild the Go harness from "
         "/repo's working tree, run corpus + generated cases, diff Go vs Lean model vs Lean specification. "
         "Known findings: known_findings.json. Design: DESIGN.md.")
NOT_CLAIMED = {}
_EXPL = ("No theorem of this property is finished yet: the check is a three-way differential run (real Go code / executable Lean model of the "
         "code / executable Lean specification 'exact result rounded once' over rationals) on generated and constructed cases. ")
_NOTE = ("Trusted: the Lean specification (lean/DecimalModel/Spec), the Go harness and line protocol, the compiled Lean driver, GMP, the Go "
         "toolchain. The Lean model is hand-written; its agreement with the code is what the run samples.")
def _t(design, extra=""):
    return {"category": "exploration", "text": _EXPL + extra, "design_ref": design, "note": _NOTE,
            "technique": "Lean 4 executable specification + model, differential correspondence run (proofs in progress)"}
_PNOTE = ("Trusted: Lean 4.33 kernel; axioms propext/Classical.choice/Quot.sound only (audited per theorem every run); the Lean specification "
          "(lean/DecimalModel/Spec); the hand-written Lean model of the Go methods (lean/DecimalModel), whose agreement with /repo is what the "
          "correspondence run of the same check samples on every run (Go harness + compiled Lean driver + line protocol); tools/gen for the regenerated parts.")
def _p(design, text, technique="Lean 4 theorems (kernel-checked, axioms audited) about a model tied to the code by a per-run correspondence check"):
    return {"category": "proof", "text": text, "design_ref": design, "note": _PNOTE, "technique": technique}
TEXT = {
    "C04": _p("8/C04", "Theorems (Properties/C04.lean, 26): for every class of operands with at least one zero or infinity and every mode, the model of Add Sub Mul Quo FMA returns exactly the IEEE-754 result of Spec/IEEE.lean, panics with ErrNaN exactly for the invalid forms, leaves a valid receiver after a NaN, product/quotient signs are XOR, zero sums follow the sign rule. The finite+zero sub-cases (which round) and FMA with a finite product are stated with the rounding lemma as hypothesis / as _partial; they are closed by the C01/C03 theorems. The exhaustive class product x 6 modes is also executed on the real code every run and compared with model and specification."),
    "C07": _p("8/C07", "Theorems (Properties/C07.lean) over definitions REGENERATED from the Go source on every run: div10W_g (Granlund-Montgomery) mul10WW_g div10WW_g add10WWW_g sub10WWW_g equal their mathematical definition for all inputs within the precondition; all 18 rows of pow10DivTab64 divide every 64-bit word exactly; decDigits64, nlz10, trailingZeroDigits, pow10tab, pow5tab, constants. Assembly: not yet at theorem level (translator in progress) - decided by the run: each of the 12 kernels, assembly vs portable Go vs L0 Lean model vs definition, in-place and shifted-overlap destinations, plus identical public-API transcripts under the default, decimal_pure_go and math_big_pure_go builds.",
              "Lean 4 theorems over code regenerated from the Go source by tools/gen + kernel-level correspondence (asm vs Go vs Lean model vs arithmetic)"),
    "C09": _p("8/C09", "Theorems (Properties/C09.lean, 46): for every operation of the model and every aliasing flag combination the receiver's mode is unchanged and its precision is prec if non-zero else the documented value (max of operand precisions; x.prec for Set/Neg/Abs; 34 or digit count for integer setters); Copy/SetMantExp/MantExp copy exactly prec and mode of the source. Operands-unmodified is the value semantics of the model; on the real code it is checked every run by before/after snapshots of every variable including backing arrays up to capacity."),
    "C10": _p("8/C10", "Theorems (Properties/C10.lean, 39): for Add Sub Mul Quo FMA Set Neg Abs Copy SetMantExp MantExp and every combination of 'operand is the receiver' flags, the model's result equals the result with the operand passed as a separate variable holding the same value (FMA up to unobservable stale storage); the result depends on the receiver only through its precision and mode (observational equality). Buffer-level aliasing (dec.mul/sqr/div/shl/shr/add/sub with nil, stale and operand-aliasing receivers, poisoned pool buffers) is decided by the kernel-level correspondence run."),
    "C16": _p("8/C16", "Theorems (Properties/C16.lean, 19): cmp_spec - for canonical operands Cmp equals the order of the exact rational values with -Inf < finite < +Inf and -0 = +0 (Spec.cmpSV), independent of precision, mode, accuracy and mantissa length; reflexive, antisymmetric, transitive; consistent with Sign/zero/infinity classification. Nothing partial."),
    "C01": _t("8/C01"), "C02": _t("8/C02"), "C03": _t("8/C03"), 
    "C05": _t("8/C05"), "C14": _t("8/C14"), "C19": _t("8/C19"), "C20": _t("8/C20"),
    "C15": _t("8/C15", "Partial by nature: math/big (SetFloat, Float) is not modelled; its error bounds are decided by the run against the exact oracle only."), "C11": _t("8/C11"), "C12": _t("8/C12"), "C13": _t("8/C13"), "C17": _t("8/C17"), "C06": _t("8/C06"), "C18": _t("8/C18"),
    "C08": _t("8/C08"),
}
