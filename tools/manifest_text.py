"""Texts of MANIFEST.json, per property."""
HOOK_COMMITS = ["cb2d936", "4e2c805"]
NOTES = ("Every check: regenerate Gen/*.lean from /repo, lake build the property's theorems, audit axioms, rebuild the Go harness from "
         "/repo's working tree, run corpus + generated cases, diff Go vs Lean model vs Lean specification. "
         "Known findings: known_findings.json. Design: DESIGN.md.")
NOT_CLAIMED = {}
_EXPL = ("No theorem of this property is finished yet: the check is a three-way differential run (real Go code / executable Lean model of the "
         "code / executable Lean specification 'exact result rounded once' over rationals) on generated and constructed cases. ")
_NOTE = ("Trusted: the Lean specification (lean/DecimalModel/Spec), the Go harness and line protocol, the compiled Lean driver, GMP, the Go "
         "toolchain. The Lean model is hand-written; its agreement with the code is what the run samples.")
def _t(design, extra=""):
    return {"category": "exploration", "text": _EXPL + extra, "design_ref": design, "note": _NOTE,
            "technique": "Lean 4 executable specification + model, differential correspondence run (proofs in progress)"}
TEXT = {
    "C01": _t("8/C01"), "C02": _t("8/C02"), "C03": _t("8/C03"), "C04": _t("8/C04", "The special-value class product is enumerated exhaustively each run."),
    "C05": _t("8/C05"), "C14": _t("8/C14"), "C19": _t("8/C19"), "C20": _t("8/C20"),
    "C17": _t("8/C17"), "C06": _t("8/C06"), "C07": _t("8/C07"), "C18": _t("8/C18"),
    "C08": _t("8/C08"), "C09": _t("8/C09"), "C10": _t("8/C10"), "C16": _t("8/C16"),
}
