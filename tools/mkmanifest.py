#!/usr/bin/env python3
"""Regenerate MANIFEST.json from tools/props.py and tools/manifest_text.py."""
import json, os, sys
ROOT = os.path.dirname(os.path.dirname(os.path.abspath(__file__)))
sys.path.insert(0, os.path.join(ROOT, "tools"))
import props as P
import manifest_text as T

ALL = ["C%02d" % i for i in range(1, 21)]
checks = []
for pid in ALL:
    if pid not in P.PROPS:
        continue
    t = dict(T.TEXT[pid])
    # the category follows the existence of theorems for the property (same rule as ./check uses for the evidence level)
    has_module = os.path.exists(os.path.join(ROOT, "lean", "Properties", pid + ".lean"))
    if has_module and t["category"] != "proof":
        raise SystemExit(f"{pid}: lean/Properties/{pid}.lean exists but manifest_text.py still describes an exploration-level check")
    if not has_module and t["category"] == "proof":
        raise SystemExit(f"{pid}: manifest_text.py claims proof level but lean/Properties/{pid}.lean does not exist")
    checks.append({
        "property_id": pid,
        "quick_cmd": f"./check {pid} quick",
        "thorough_cmd": f"./check {pid} thorough",
        "evidence_file": f"/verif/evidence/{pid}.json",
        "replay_cmd_template": f"./check {pid} --replay {{path}}",
        "engine": "lean-proof+correspondence",
        "level_claimed": {"category": t["category"], "text": t["text"], "design_ref": t["design_ref"]},
        "level_note": t["note"],
        "technique": t["technique"],
    })
man = {
    "version": 1,
    "setup_cmd": "./setup.sh",
    "hooks": {
        "guard": "verif",
        "enable": "go build -tags verif (only harness/kern uses hooks; harness/api is built without any tag)",
        "baseline_off_cmd": "cd /repo && go test -json -vet=off -count=1 -timeout 25m ./...",
        "source_commits": T.HOOK_COMMITS,
        "add_only": True,
    },
    "engines": [
        {"name": "lean-proof+correspondence", "path": "/verif/check",
         "serves_properties": [c["property_id"] for c in checks],
         "kind_free_text": "Lean 4 theorems about a model of the code (lean/), re-checked by lake build and an axiom audit on every run; "
                           "model tied to /repo by (a) tools/gen regenerating tables/word functions/asm blocks as Lean definitions and "
                           "(b) a correspondence run: Go harness executes generated operations on the real package, the compiled Lean driver runs the "
                           "model and the specification on the same transcript and diffs."},
    ],
    "checks": checks,
    "not_applicable": [{"property_id": pid, "reason": T.NOT_CLAIMED.get(pid, "check not built yet; see DESIGN.md section 12")}
                       for pid in ALL if pid not in P.PROPS],
    "notes": T.NOTES,
}
json.dump(man, open(os.path.join(ROOT, "MANIFEST.json"), "w"), indent=1)
print("MANIFEST.json:", len(checks), "checks,", len(man["not_applicable"]), "not claimed")
