"""Per-property configuration of ./check."""

TRUSTED_BASE = [
    "Lean 4.33.0 kernel (lake build; leanchecker in the thorough tier)",
    "axioms allowed in property theorems: propext, Classical.choice, Quot.sound (audited per theorem by lean/Audit.lean)",
    "the specifications in lean/DecimalModel/Spec (what 'correct' means)",
    "hand-written model lean/DecimalModel/*.lean: tied to /repo by the correspondence run of this check, not verified",
    "tools/gen translator (Go constants/tables/word functions/amd64 -> Lean), validated per run against the real functions",
    "Go harness (harness/), line protocol, compiled Lean driver (Lean compiler, runtime, GMP)",
    "Go compiler/runtime, math/big, math/bits, strconv, fmt, encoding/*, sync.Pool",
]

ASSUMPTIONS = [
    "64-bit words only (_W = 64, _DW = 19); 32-bit tables and non-amd64 assembly are out of scope",
    "operands whose exponents are so far apart that aligning them needs more than ~6000 digits are not generated (the library would allocate gigabytes)",
]

ARITH_RULE = ("programs generated from one PRNG (seed*1000+shard); an evaluation is one operation executed on the real "
              "package and compared three ways (Go / Lean model / Lean specification on the exact rational result); "
              "distinct = hash of (operation line, state of every variable before it); ")

PROPS = {
    "C01": {
        "gens": [{"name": "C01", "quick": 2500, "thorough": 12000}],
        "nontrivial": {"inexact", "range"},
        "rule": ARITH_RULE + "non-trivial = the exact result is not representable (rounding happens) or leaves the exponent range",
        "level": "proof",
    },
    "C02": {
        "gens": [{"name": "C02", "quick": 2500, "thorough": 12000}],
        "nontrivial": {"inexact", "range"},
        "rule": ARITH_RULE + "non-trivial = accuracy must be Below or Above",
        "level": "proof",
    },
    "C03": {
        "gens": [{"name": "C03", "quick": 2500, "thorough": 10000}],
        "nontrivial": {"inexact", "range", "fused-differs", "alias"},
        "rule": ARITH_RULE + "non-trivial = inexact, out of range, differs from Mul-then-Add, or aliased arguments",
        "level": "proof",
    },
    "C04": {
        "gens": [{"name": "C04", "quick": 600, "thorough": 6000}],
        "nontrivial": {"special", "nan"},
        "rule": ARITH_RULE + "the full class product {-Inf,-fin,-0,+0,+fin,+Inf}^k x 6 modes for Add Sub Mul Quo FMA is enumerated every run; non-trivial = at least one operand is a zero or an infinity",
        "level": "proof",
    },
    "C08": {
        "gens": [{"name": "C08", "quick": 250, "thorough": 1500}],
        "nontrivial": {"inexact", "range", "alias", "special"},
        "rule": ARITH_RULE + "every variable of every program state goes through the canonical-form monitor; non-trivial = step that rounds, leaves the range, aliases or involves a special value",
        "level": "proof",
    },
    "C09": {
        "gens": [{"name": "C09", "quick": 250, "thorough": 1500}],
        "nontrivial": {"inexact", "range", "alias", "special"},
        "rule": ARITH_RULE + "frame rule checked on Go's states and on the backing arrays up to capacity",
        "level": "proof",
    },
    "C10": {
        "gens": [{"name": "C10", "quick": 250, "thorough": 1500}],
        "nontrivial": {"alias"},
        "rule": ARITH_RULE + "non-trivial = two argument positions are the same variable",
        "level": "proof",
    },
    "C16": {
        "gens": [{"name": "C16", "quick": 2000, "thorough": 15000}],
        "nontrivial": {"ne", "difflen", "special"},
        "rule": ARITH_RULE + "non-trivial = operands differ, have different mantissa lengths at equal exponent, or are special",
        "level": "proof",
    },
}
