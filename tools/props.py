"""Per-property configuration of ./check."""

TRUSTED_BASE = [
    "Lean 4.33.0 kernel (lake build; leanchecker in the thorough tier)",
    "axioms allowed in property theorems: propext, Classical.choice, Quot.sound (audited per theorem by lean/Audit.lean)",
    "the specifications in lean/DecimalModel/Spec (what 'correct' means)",
    "hand-written model lean/DecimalModel/*.lean: tied to /repo by the correspondence run of this check, not verified",
    "tools/gen translator (Go constants/tables/word functions/amd64 -> Lean), validated per run against the real functions",
    "Go harness (harness/), line protocol, compiled Lean driver (Lean compiler, runtime, GMP)",
    "Go compiler/runtime, math/big, math/bits, strconv, fmt, encoding/*, sync.Pool",
]

ASSUMPTIONS = [
    "64-bit words only (_W = 64, _DW = 19); 32-bit tables and non-amd64 assembly are out of scope",
    "operands whose exponents are so far apart that aligning them needs more than ~6000 digits are not generated (the library would allocate gigabytes)",
]

ARITH_RULE = ("programs generated from one PRNG (seed*1000+shard); an evaluation is one operation executed on the real "
              "package and compared three ways (Go / Lean model / Lean specification on the exact rational result); "
              "distinct = hash of (operation line, state of every variable before it); ")

PROPS = {
    "C01": {
        "extra_modules": ["C01W", "CGen", "CGenK"],
        "gens": [{"name": "mix", "quick": 900, "thorough": 4000}, {"name": "C01", "quick": 3000, "thorough": 12000}, {"name": "muldiv", "harness": "kernharness", "quick": 1500, "thorough": 6000}],
        "needs": ["apiharness"],
        "nontrivial": {"inexact", "range"},
        "rule": ARITH_RULE + "non-trivial = the exact result is not representable (rounding happens) or leaves the exponent range",
        "level": "proof",
        "lean_targets": ["Proofs.GenWordOps", "Proofs.GenTables"],
    },
    "C02": {
        "extra_modules": ["CGen", "CGenK"],
        "gens": [{"name": "mix", "quick": 900, "thorough": 4000}, {"name": "C02", "quick": 2500, "thorough": 12000}, {"name": "setters", "quick": 800, "thorough": 5000},
                 {"name": "C08", "quick": 150, "thorough": 1000}, {"name": "C03", "quick": 500, "thorough": 3000}],
        "nontrivial": {"inexact", "range"},
        "rule": ARITH_RULE + "non-trivial = accuracy must be Below or Above",
        "level": "proof",
        "lean_targets": ["Proofs.GenWordOps", "Proofs.GenTables"],
    },
    "C03": {
        "extra_modules": ["C03b", "CGenK"],
        "gens": [{"name": "mix", "quick": 900, "thorough": 4000}, {"name": "C03", "quick": 2500, "thorough": 10000}],
        "nontrivial": {"inexact", "range", "fused-differs", "alias"},
        "rule": ARITH_RULE + "non-trivial = inexact, out of range, differs from Mul-then-Add, or aliased arguments",
        "level": "proof",
        "lean_targets": ["Proofs.GenWordOps", "Proofs.GenTables"],
    },
    "C04": {
        "extra_modules": ["C04b", "CGen", "CGenK"],
        "gens": [{"name": "mix", "quick": 900, "thorough": 4000}, {"name": "C04", "quick": 600, "thorough": 6000},
                 {"name": "divrec", "harness": "kernharness", "quick": 500, "thorough": 3000}],
        "needs": ["apiharness", "kernharness"],
        "nontrivial": {"special", "nan", "recursive"},
        "rule": ARITH_RULE + "the full class product {-Inf,-fin,-0,+0,+fin,+Inf}^k x 6 modes for Add Sub Mul Quo FMA is enumerated every run; 'no other panic on valid operands' also on the recursive division (divisors of 100 to 360 words, maximal partial remainders, all-nines divisors, exact multiples) through the hooks; non-trivial = at least one operand is a zero or an infinity, or a divisor of at least 100 words",
        "level": "proof",
        "lean_targets": ["Proofs.GenWordOps", "Proofs.GenTables"],
    },
    "C06": {
        "extra_modules": ["CGenK"],
        "gens": [{"name": "mix", "quick": 900, "thorough": 4000}, {"name": "muldiv", "harness": "kernharness", "quick": 2500, "thorough": 9000},
                 {"name": "dec", "harness": "kernharness", "quick": 1500, "thorough": 6000},
                 {"name": "divrec", "harness": "kernharness", "quick": 400, "thorough": 3000},
                 {"name": "C01", "quick": 1200, "thorough": 6000}],
        "needs": ["apiharness", "kernharness"],
        "nontrivial": {"karatsuba", "karatsubaSqr", "basicSqr", "long", "recursive", "inexact"},
        "rule": ("dec.mul/sqr/div/divW/shl/shr/add/sub called through the verif hooks with the three thresholds set to random values "
                 "(2..40, 1..60, 1..60) per case, receivers nil/stale/aliased, adversarial words (0, 1, B/2, B-1, 10^k±1), constructed "
                 "q̂ over-estimates and exact multiples; results compared with natOf arithmetic and with the L0 Lean model run under the same "
                 "thresholds; plus Mul/Quo through the public API. distinct = hash of the case line; non-trivial = an operand at or above "
                 "the active threshold, a multi-word divisor, or (API) an inexact result"),
        "lean_targets": ["Proofs.GenWordOps", "Proofs.GenTables"],
    },
    "C07": {
        "extra_modules": ["C07b", "C07c"],
        "gens": [{"name": "mix", "quick": 900, "thorough": 4000}, {"name": "ww", "harness": "kernharness", "quick": 3000, "thorough": 20000},
                 {"name": "vec", "harness": "kernharness", "quick": 4000, "thorough": 30000},
                 {"name": "dec", "harness": "kernharness", "quick": 1200, "thorough": 5000},
                 {"name": "C01", "quick": 1500, "thorough": 6000}],
        "needs": ["apiharness", "kernharness"],
        "nontrivial": {"unrolled", "inexact", "long", "karatsuba", "shape=inplace", "shape=up", "shape=down", "ww", "len%4=1", "len%4=2", "len%4=3"},
        "rule": ("each of the 12 decimal kernels: assembly vs portable Go vs L0 Lean model (built on the REGENERATED word functions) vs the "
                 "mathematical definition; lengths 0..70 (quick) / 0..400 (thorough), all shift counts 0..18, edge words, separate / in-place / "
                 "shifted-overlap destinations as dec.shl, dec.shr and dnorm use them. distinct = hash of the case line; non-trivial = word kernel, "
                 "length not a multiple of 4, length >= 4 (unrolled loop), or overlapping destination"),
        "lean_targets": ["Proofs.GenWordOps", "Proofs.GenTables"],
        "build_configs": True,
    },
    "C18": {
        "known_ok": ["fma-product-exponent-out-of-range"],
        "gens": [{"name": "mix", "quick": 900, "thorough": 4000}, {"name": "shared", "harness": "kernharness", "quick": 40, "thorough": 300},
                 {"name": "decpoison", "harness": "kernharness", "quick": 1500, "thorough": 6000},
                 {"name": "C09", "quick": 150, "thorough": 1000},
                 {"name": "C14", "quick": 400, "thorough": 2500}, {"name": "C11", "quick": 600, "thorough": 3000}],
        "needs": ["apiharness", "kernharness"],
        "nontrivial": {"shared", "karatsuba", "karatsubaSqr", "long", "alias", "inexact"},
        "rule": ("premises P1-P4 of the interleaving theorem tied deterministically: operand snapshots incl. backing arrays (API programs), pool "
                 "poisoning on get and put with an outstanding-set (dec operations above the thresholds), and k in {2,4,8,16} goroutines running "
                 "Mul Quo Add Sqrt FMA Cmp Text GobEncode Int on shared operands compared with the sequential result (support, not proof)"),
        "lean_targets": ["Proofs.GenWordOps", "Proofs.GenTables"],
    },
    "C08": {
        "extra_modules": ["CGenK"],
        "known_ok": ["fma-product-exponent-out-of-range"],
        "gens": [{"name": "mix", "quick": 900, "thorough": 4000}, {"name": "C08", "quick": 250, "thorough": 1500}, {"name": "C12", "quick": 1500, "thorough": 6000}, {"name": "C17", "quick": 600, "thorough": 3000},
                 {"name": "C20", "quick": 500, "thorough": 3000}, {"name": "setters", "quick": 800, "thorough": 3000},
                 {"name": "C15", "quick": 600, "thorough": 3000}],
        "nontrivial": {"inexact", "range", "alias", "special"},
        "rule": ARITH_RULE + "every variable of every program state goes through the canonical-form monitor; non-trivial = step that rounds, leaves the range, aliases or involves a special value",
        "level": "proof",
        "lean_targets": ["Proofs.GenWordOps", "Proofs.GenTables"],
    },
    "C09": {
        "extra_modules": ["CGenK"],
        "known_ok": ["fma-product-exponent-out-of-range", "float64-double-rounding-near-tie", "float64-accuracy-near-representable", "float32-double-rounding-near-tie", "float32-accuracy-near-representable"],
        "gens": [{"name": "mix", "quick": 900, "thorough": 4000}, {"name": "C09", "quick": 250, "thorough": 1500}, {"name": "setters", "quick": 600, "thorough": 4000}, {"name": "C20", "quick": 400, "thorough": 3000},
                 {"name": "C17", "quick": 800, "thorough": 4000}, {"name": "C05", "quick": 400, "thorough": 2000}, {"name": "C12", "quick": 500, "thorough": 3000},
                 {"name": "C03", "quick": 400, "thorough": 2000}, {"name": "C14", "quick": 500, "thorough": 3000},
                 {"name": "C15", "quick": 600, "thorough": 3000}],
        "nontrivial": {"inexact", "range", "alias", "special"},
        "rule": ARITH_RULE + "frame rule checked on Go's states and on the backing arrays up to capacity",
        "level": "proof",
        "lean_targets": ["Proofs.GenWordOps", "Proofs.GenTables"],
    },
    "C10": {
        "extra_modules": ["CGenK"],
        "gens": [{"name": "mix", "quick": 900, "thorough": 4000}, {"name": "C10", "quick": 250, "thorough": 1500}, {"name": "decpoison", "harness": "kernharness", "quick": 1200, "thorough": 5000},
                 {"name": "C03", "quick": 600, "thorough": 3000}, {"name": "setters", "quick": 600, "thorough": 3000}],
        "needs": ["apiharness", "kernharness"],
        "known_ok": ["fma-product-exponent-out-of-range"],
        "nontrivial": {"alias", "karatsuba", "karatsubaSqr", "long"},
        "rule": ARITH_RULE + "every aliasing shape and stale receivers; dec operations with receivers nil/stale/aliasing an operand and poisoned pool buffers; non-trivial = two argument positions are the same variable, or a dec operation above a threshold",
        "level": "proof",
        "lean_targets": ["Proofs.GenWordOps", "Proofs.GenTables"],
    },
    "C05": {
        "extra_modules": ["C05Lit", "CGenK"],
        "gens": [{"name": "mix", "quick": 900, "thorough": 4000}, {"name": "C05", "quick": 5000, "thorough": 20000}, {"name": "sqrtenum", "quick": 10000, "thorough": 10000, "single_shard": True}],
        "nontrivial": {"inexact", "perfect-square", "special", "nan"},
        "rule": ARITH_RULE + "specification = Nat.sqrt of the scaled operand + sticky, rounded once; non-trivial = inexact root, perfect square, special operand or negative operand",
        "lean_targets": ["Proofs.GenWordOps", "Proofs.GenTables"],
    },
    "C11": {
        "extra_modules": ["C11b", "CGenT"],
        "gens": [{"name": "mix", "quick": 900, "thorough": 4000}, {"name": "C11", "quick": 1500, "thorough": 8000},
                 {"name": "shared", "harness": "kernharness", "quick": 30, "thorough": 200}],
        "needs": ["apiharness", "kernharness"],
        "nontrivial": {"shortest", "base10", "low-zero-word", "special", "shared"},
        "rule": ARITH_RULE + "Text(x, fmt, -1) for fmt in e E f g G p b and MarshalText, checked (a) to denote exactly x and to contain exactly MinPrec digits, then (b) parsed back into a receiver of precision >= MinPrec with base 10 or 0 and compared with x by Cmp and sign; values: dyadic, low zero words, specials, extreme exponents for exponent formats",
        "lean_targets": ["Proofs.GenWordOps", "Proofs.GenTables"],
    },
    "C12": {
        "extra_modules": ["C12b"],
        "gens": [{"name": "mix", "quick": 900, "thorough": 4000}, {"name": "C12", "quick": 3000, "thorough": 15000}, {"name": "C11", "quick": 500, "thorough": 3000}],
        "nontrivial": {"rejected", "inexact", "underscore", "nondecimal-or-inf", "base10"},
        "rule": ARITH_RULE + "literals: well-formed base-10 (to thousands of digits, point anywhere, '_' in base 0, exponents at the int32 limits and beyond int64), base 2/8/16 with and without prefix and 'p' exponent, Inf spellings, mutated valid literals and random strings over the alphabet 0-9a-fA-FxXoOpP_.+-eEinfIN; compared three ways: Go Parse / Lean model of scan / math/big Float.Parse for acceptance and base; base-10 values against the exact literal value rounded once",
        "lean_targets": ["Proofs.GenWordOps", "Proofs.GenTables"],
    },
    "C13": {
        "extra_modules": ["CGenT"],
        "gens": [{"name": "mix", "quick": 900, "thorough": 4000}, {"name": "C13", "quick": 2500, "thorough": 12000}],
        "nontrivial": {"inexact", "above-leading-digit", "flags", "width", "special"},
        "rule": ARITH_RULE + "Text/Append with explicit precision 0..24 and fmt.Sprintf with verbs e E f F g G v, flags + space 0 -, width and precision, six modes; oracles: the printed value must be x rounded once at the requested position (Lean Spec), and for values that are exactly float64 in ToNearestEven the string must equal strconv.FormatFloat / fmt.Sprintf of that float64",
        "lean_targets": ["Proofs.GenWordOps", "Proofs.GenTables"],
    },
    "C14": {
        "extra_modules": ["C14b", "C14c", "CGenK"],
        "gens": [{"name": "mix", "quick": 900, "thorough": 4000}, {"name": "C14", "quick": 2500, "thorough": 12000}],
        "nontrivial": {"inexact", "edge", "setint", "setrat", "newdec", "range"},
        "rule": ARITH_RULE + "conversions Int Int64 Uint64 Rat IsInt MinPrec Sign and setters SetInt SetInt64 SetUint64 SetRat NewDecimal; non-trivial = truncation happened, value within the 2^63/2^64/10^19 edge band, or a big-integer/rational setter",
        "lean_targets": ["Proofs.GenWordOps", "Proofs.GenTables"],
    },
    "C15": {
        "gens": [{"name": "mix", "quick": 900, "thorough": 4000}, {"name": "C15", "quick": 2500, "thorough": 12000},
                 {"name": "floatmin", "quick": 3, "thorough": 14, "single_shard": True}],
        "nontrivial": {"inexact", "subnormal", "near-tie", "near-representable", "exact-fit", "setfloat", "float", "nan", "min-exponent"},
        "rule": ARITH_RULE + "SetFloat64 on float64 bit patterns (normals, subnormals, extremes, powers of ten and neighbours, NaN) compared with the model and with 'exact when it fits / within 1 ulp of the correctly rounded value'; Float64/Float32 on exact float64 values, exact midpoints and values perturbed in the 20th-320th digit, compared with the nearest binary value computed in Lean with rationals (ties to even, subnormals, overflow); SetFloat/Float with big.Float of 1-2000 bits within 64 ulps and exact when representable; 53-bit integers (the binade where SetFloat64 needs no scaling) at small precisions; SetFloat at the smallest big.Float exponents (2^-2147483648, two-step scaling) checked by integer cross-multiplication",
        "lean_targets": ["Proofs.GenWordOps", "Proofs.GenTables"],
    },
    "C17": {
        "extra_modules": ["CGenK"],
        "gens": [{"name": "mix", "quick": 900, "thorough": 4000}, {"name": "C17", "quick": 2500, "thorough": 12000}],
        "nontrivial": {"rejected", "accepted", "into-nonzero-prec", "acc", "mode", "inexact"},
        "rule": ARITH_RULE + "GobEncode/GobDecode directly and through encoding/gob; hostile payloads: valid encodings truncated at a random length, one bit/byte flipped, extended, attribute byte replaced, a word >= 10^19, zero top word, precision below the digits sent, random bytes; non-trivial = a mutated payload (accepted or rejected), a non-default attribute, or decoding into a receiver with its own precision",
        "lean_targets": ["Proofs.GenWordOps", "Proofs.GenTables"],
    },
    "C19": {
        "extra_modules": ["C19b"],
        "gens": [{"name": "mix", "quick": 900, "thorough": 4000}, {"name": "C19", "quick": 200, "thorough": 1200}],
        "nontrivial": {"nan", "latched", "had-error", "propagates", "inexact"},
        "rule": ARITH_RULE + "sequences of 3-40 context operations incl. NaN-producing operands, Err() calls and a nil operand (non-NaN panic); non-trivial = step that produces a NaN, runs while an error is latched, reads a recorded error, propagates a foreign panic, or rounds",
        "lean_targets": ["Proofs.GenWordOps", "Proofs.GenTables"],
    },
    "C20": {
        "extra_modules": ["C20b", "CGen"],
        "gens": [{"name": "mix", "quick": 900, "thorough": 4000}, {"name": "C20", "quick": 1500, "thorough": 8000}],
        "nontrivial": {"leading-zero-words", "leading-zero-digits", "prec0", "range", "inexact", "mantexp", "setmantexp"},
        "rule": ARITH_RULE + "SetBitsExp on arbitrary word slices (leading zero words/digits, all exponent classes incl. int64 extremes), MantExp/SetMantExp round trips and range edges",
        "lean_targets": ["Proofs.GenWordOps", "Proofs.GenTables"],
    },
    "C16": {
        "extra_modules": ["CGen"],
        "gens": [{"name": "mix", "quick": 900, "thorough": 4000}, {"name": "C16", "quick": 2000, "thorough": 15000}],
        "nontrivial": {"ne", "difflen", "special"},
        "rule": ARITH_RULE + "non-trivial = operands differ, have different mantissa lengths at equal exponent, or are special",
        "level": "proof",
        "lean_targets": ["Proofs.GenWordOps", "Proofs.GenTables"],
    },
}
