#!/bin/bash
# Unchanged-tree sweep: every check, several seeds; prints any non-zero exit.
cd "$(dirname "$0")/.."
./setup.sh >/dev/null 2>&1
for seed in "$@"; do
  for p in C01 C02 C03 C04 C05 C06 C07 C08 C09 C10 C11 C12 C13 C14 C15 C16 C17 C18 C19 C20; do
    out=$(VERIF_SEED=$seed ./check $p ${TIER:-quick} 2>&1); rc=$?
    if [ $rc -ne 0 ]; then echo "seed=$seed $p rc=$rc"; echo "$out" | tail -4; fi
  done
  echo "seed $seed done"
done
