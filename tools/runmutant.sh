#!/bin/bash
# runmutant.sh <mutant-dir> [tier]   — evaluate one seeded defect:
#   applies <dir>/patch.diff to a scratch worktree of /repo, confirms it builds and passes the
#   existing tests, confirms the demonstration fails with it (and passes without it), then runs
#   ./check <property> against the mutated tree (VERIF_REPO) and prints the verdict.
set -u
D=$(realpath "$1"); TIER=${2:-quick}
ROOT=$(cd "$(dirname "$0")/.." && pwd)
PID=$(python3 -c "import json,sys; print(json.load(open('$D/meta.json'))['property'])")
export GOFLAGS=-mod=mod GOPROXY=off GOSUMDB=off GOTOOLCHAIN=local
WT=/tmp/mutrepo_$$
git -C /repo worktree add -q --detach $WT HEAD || exit 2
cleanup() { git -C /repo worktree remove --force $WT >/dev/null 2>&1; git -C $ROOT checkout -- harness/go.mod 2>/dev/null; }
trap cleanup EXIT
demo_target=$WT
grep -q '"context"' "$D/meta.json" 2>/dev/null
if grep -q "^package context" "$D"/demo_test.go 2>/dev/null; then demo_target=$WT/context; fi
# demo on the clean tree
cp "$D"/demo_test.go $demo_target/zz_demo_test.go
(cd $demo_target && go test -vet=off -count=1 -run TestSeededDemo . >/tmp/mut_clean_$$.log 2>&1); clean_rc=$?
rm -f $demo_target/zz_demo_test.go
if ! git -C $WT apply "$D/patch.diff"; then echo "RESULT $PID $(basename $D): patch does not apply"; exit 3; fi
(cd $WT && go build ./... && go build -tags verif ./... && go build -tags decimal_pure_go ./...) >/tmp/mut_build_$$.log 2>&1; build_rc=$?
(cd $WT && go test -vet=off -count=1 ./... >/tmp/mut_tests_$$.log 2>&1); tests_rc=$?
cp "$D"/demo_test.go $demo_target/zz_demo_test.go
(cd $demo_target && go test -vet=off -count=1 -run TestSeededDemo . >/tmp/mut_demo_$$.log 2>&1); demo_rc=$?
rm -f $demo_target/zz_demo_test.go
echo "mutant $(basename $D): property=$PID demo_on_clean_rc=$clean_rc build_rc=$build_rc existing_tests_rc=$tests_rc demo_on_mutant_rc=$demo_rc"
cd $ROOT
out=$(VERIF_REPO=$WT ./check $PID $TIER 2>&1); rc=$?
echo "$out" | tail -4 | cut -c1-400
echo "RESULT $PID $(basename $D): valid=$([ $clean_rc -eq 0 -a $build_rc -eq 0 -a $tests_rc -eq 0 -a $demo_rc -ne 0 ] && echo yes || echo no) check_rc=$rc tier=$TIER"
rm -f /tmp/mut_*_$$.log
