package main

// Translation of the constants and of the small decision functions of decimal.go / stdlib.go
// into lean/DecimalModel/Gen/Facts.lean (namespace Decimal.Gen.Facts, core Lean, no proofs).
//
// Every declaration is looked up BY NAME in the type-checked package; anything missing or of a
// shape the translator does not understand is a hard failure ("gen facts: …", exit status 1):
// nothing is skipped silently. The theorems of lean/Proofs/GenFacts.lean tie each generated
// definition to the hand-written model for all arguments, so a one-token change of the Go
// source (comparison operator, constant, enum order, swapped case) breaks a proof.
//
// Value model: bool -> Bool; unsigned integers (and the byte enums form/RoundingMode) -> Nat
// with + - * reduced modulo 2^bits; signed integers (int, int32, int64, Accuracy) -> Int with
// + - * and negation reduced by wrapI<bits> (two's complement). Constant expressions are folded
// by go/types. A Go expression listed in a fact's parameter table (a receiver field such as
// `z.mode`, a function parameter, or an opaque sub-expression such as `z.mant.digit(ntz)&1 != 0`)
// becomes a parameter of the Lean function.
//
// Statements are translated in continuation style: the code following an `if`/`switch` is
// duplicated into every branch, assignments become shadowing `let`s. For methods with effects
// on the receiver ("stateful" facts) the scalar receiver fields are variables; the result is a
// record of their final values plus `outcome` (0 return, 1 panic(ErrNaN), 2 other panic) and
// `tail` (which opaque kernel call, if any, was reached; the fields are those at the call unless
// the fact declares which of them the call overwrites, those are then parameters).

import (
	"fmt"
	"go/ast"
	"go/constant"
	"go/token"
	"go/types"
	"path/filepath"
	"regexp"
	"sort"
	"strings"
)

type fkind int

const (
	kBool fkind = iota
	kNat
	kInt
)

type ftype struct {
	k    fkind
	bits int
}

func (t ftype) lean() string {
	switch t.k {
	case kBool:
		return "Bool"
	case kNat:
		return "Nat"
	}
	return "Int"
}

func (t ftype) zero() string {
	switch t.k {
	case kBool:
		return "false"
	case kNat:
		return "(0 : Nat)"
	}
	return "(0 : Int)"
}

func pow2(bits int) string {
	return constant.Shift(constant.MakeInt64(1), token.SHL, uint(bits)).ExactString()
}

type fparam struct {
	name  string // Lean parameter name
	src   string // Go expression it stands for (types.ExprString form)
	state bool   // scalar receiver field that the function may assign (stateful facts)
	// filled in during translation
	typ   ftype
	typed bool
	used  bool
}

type feffect struct {
	src   string      // the call, e.g. "z.umul(x, y)"
	code  int         // recorded in `tail`
	havoc [][2]string // {field src, parameter name}: fields overwritten by the call
	// capture > 0: the (capture-1)-th argument of the call is an integer expression (the exponent
	// handed to setExpAndRound) translated into the output field `arg`
	capture int
	// capture2 > 0: likewise, the (capture2-1)-th argument (signed or unsigned) into `arg2`
	capture2 int
	// cont: the function goes on after the call although no field is declared overwritten
	cont bool
	// result: the call's value is used (`b := x.MantExp(z)`); it is this declared parameter
	result string
	// capAll: every argument of the call (bool as 0/1, unsigned through Int.ofNat) into `args : List Int`
	capAll bool
	seen   bool
}

// fmop: a mantissa statement (matched by its source text) that is recorded in the output field
// `mtrace : List (Nat × List Int)` as (code, values of the listed integer sub-expressions).
type fmop struct {
	src  string
	code int
	args []string // Go sub-expressions of the statement (types.ExprString form), integers
	// rebind: opaque expressions whose value changes with this statement (`x = x.roundBelowQuantum(prec)` changes
	// `x.MinPrec()`): from here on `e` stands for the parameter declared with source `e'`
	rebind []string
	seen   bool
}

type fact struct {
	// alias: a local pointer that is either the receiver (`z0 := z`) or a fresh Decimal (`z0 = new(Decimal)`);
	// `z0.f` then means the receiver's field, or a scratch field (listed in scratch) that starts at its zero value
	alias, aliasOf string
	scratch        []string
	// join: an if/switch all of whose branches fall through binds the variables they assign as one tuple
	// (`let (a, b) := if c then … (a, b) else … (a, b)`) instead of duplicating the code that follows into each branch
	join bool
	// anyReturn: the Go function returns a non-scalar value (a mantissa); `return v` is outcome 0
	anyReturn bool
	// errResult: the Go method returns `error`; `return nil` is outcome 0, `return <call>` outcome 3
	errResult bool
	// rangeConds: the range loops of the function, in order: each must have the shape `for … { if c { return … } }`
	// and is translated as `if <parameter> { return … }` (the parameter says whether some element satisfies c)
	rangeConds []string
	rangeText  []string
	rangeSeen  int
	mops       []*fmop
	lean       string
	fn         string // key in pkgInfo.funcs
	doc        string
	params     []*fparam
	stateful   bool
	stop       bool // stateful: return the state at the first opaque call (ignore what follows it)
	effects    []*feffect
	skip       []string // statements dropped (mantissa traffic); each must occur
	skipSeen   map[string]bool
	locate     func(ft *ftr, fd *ast.FuncDecl) ([]ast.Stmt, ast.Expr, error)
	resultVar  string // fragment facts: the local returned when the fragment falls through
}

type ftr struct {
	p        *pkgInfo
	f        *fact
	problems []string
	mayPanic bool
	results  []ftype // Go result types (pure facts)
	all      map[string]*fact
}

type fctx struct {
	locals map[string]ftype
	sealed bool // an opaque kernel call without declared effects was made: nothing may follow
	fresh  bool // the alias local points to a fresh Decimal on this path
	// rebound opaque expressions (copy on write); poisoned: rebound in some branches of a joined if/switch only
	rebound  map[string]bool
	poisoned map[string]bool
	indent   string
}

func (c fctx) in() fctx { c.indent += "  "; return c }

func (c fctx) with(name string, t ftype) fctx {
	m := make(map[string]ftype, len(c.locals)+1)
	for k, v := range c.locals {
		m[k] = v
	}
	m[name] = t
	c.locals = m
	return c
}

func (t *ftr) fail(n ast.Node, format string, a ...interface{}) string {
	pos := ""
	if n != nil {
		ps := t.p.fset.Position(n.Pos())
		pos = fmt.Sprintf(" at %s:%d", filepath.Base(ps.Filename), ps.Line)
	}
	t.problems = append(t.problems, fmt.Sprintf("%s (Go %s): %s%s", t.f.lean, t.f.fn, fmt.Sprintf(format, a...), pos))
	return "sorry"
}

func basicFtype(T types.Type) (ftype, bool) {
	b, ok := T.Underlying().(*types.Basic)
	if !ok {
		return ftype{}, false
	}
	if b.Info()&types.IsBoolean != 0 {
		return ftype{k: kBool}, true
	}
	if b.Info()&types.IsInteger == 0 {
		return ftype{}, false
	}
	bits := 64
	switch b.Kind() {
	case types.Int8, types.Uint8:
		bits = 8
	case types.Int16, types.Uint16:
		bits = 16
	case types.Int32, types.Uint32:
		bits = 32
	case types.UntypedInt, types.UntypedRune:
		return ftype{}, false
	}
	if b.Info()&types.IsUnsigned != 0 {
		return ftype{k: kNat, bits: bits}, true
	}
	return ftype{k: kInt, bits: bits}, true
}

func (t *ftr) typeOf(e ast.Expr) (ftype, bool) {
	tv, ok := t.p.info.Types[e]
	if !ok || tv.Type == nil {
		return ftype{}, false
	}
	return basicFtype(tv.Type)
}

func unparen(e ast.Expr) ast.Expr {
	for {
		p, ok := e.(*ast.ParenExpr)
		if !ok {
			return e
		}
		e = p.X
	}
}

func (t *ftr) isAliasField(src string) bool {
	return t.f.alias != "" && strings.HasPrefix(src, t.f.alias+".")
}

func (t *ftr) param(src string) *fparam {
	for _, p := range t.f.params {
		if p.src == src {
			return p
		}
	}
	return nil
}

func (t *ftr) effect(ce *ast.CallExpr) *feffect {
	src, fun := types.ExprString(ce), types.ExprString(ce.Fun)
	for _, e := range t.f.effects {
		if e.src == src {
			return e
		}
	}
	for _, e := range t.f.effects {
		if e.src == fun {
			return e
		}
	}
	return nil
}

func (t *ftr) captures() bool {
	for _, e := range t.f.effects {
		if e.capture > 0 {
			return true
		}
	}
	return false
}

func (t *ftr) capturesAll() bool {
	for _, e := range t.f.effects {
		if e.capAll {
			return true
		}
	}
	return false
}

func (t *ftr) captures2() bool {
	for _, e := range t.f.effects {
		if e.capture2 > 0 {
			return true
		}
	}
	return false
}

// captureArg renders `let arg : Int := …` for an effect that captures an argument.
func (t *ftr) captureArg(ef *feffect, ce *ast.CallExpr, c fctx) string {
	if ef.capAll {
		var vals []string
		for _, a := range ce.Args {
			ty, ok := t.typeOf(unparen(a))
			if !ok {
				continue // a slice, string or pointer argument: not part of the scalar record
			}
			v := t.ex(a, c)
			switch ty.k {
			case kBool:
				v = "(if " + v + " then (1 : Int) else (0 : Int))"
			case kNat:
				v = "(Int.ofNat " + v + ")"
			}
			vals = append(vals, v)
		}
		return fmt.Sprintf("%slet args : List Int := [%s]\n", c.indent, strings.Join(vals, ", "))
	}
	if ef.capture == 0 {
		return ""
	}
	if ef.capture > len(ce.Args) {
		return c.indent + t.fail(ce, "captured argument missing") + "\n"
	}
	a := ce.Args[ef.capture-1]
	if ty, ok := t.typeOf(unparen(a)); !ok || ty.k != kInt {
		return c.indent + t.fail(a, "captured argument is not a signed integer") + "\n"
	}
	out := fmt.Sprintf("%slet arg : Int := %s\n", c.indent, t.ex(a, c))
	if ef.capture2 > 0 {
		if ef.capture2 > len(ce.Args) {
			return c.indent + t.fail(ce, "second captured argument missing") + "\n"
		}
		b := ce.Args[ef.capture2-1]
		ty, ok := t.typeOf(unparen(b))
		if !ok || ty.k == kBool {
			return c.indent + t.fail(b, "second captured argument is not an integer") + "\n"
		}
		v := t.ex(b, c)
		if ty.k == kNat {
			v = "(Int.ofNat " + v + ")"
		}
		out += fmt.Sprintf("%slet arg2 : Int := %s\n", c.indent, v)
	}
	return out
}

func (t *ftr) noteType(p *fparam, e ast.Expr) {
	ty, ok := t.typeOf(e)
	if !ok {
		t.fail(e, "parameter %s: Go expression %s has no scalar type", p.name, p.src)
		return
	}
	if p.typed && p.typ != ty {
		t.fail(e, "parameter %s: inconsistent types", p.name)
	}
	p.typ, p.typed = ty, true
}

func wrapInt(bits int, s string) string { return fmt.Sprintf("(wrapI%d (%s))", bits, s) }

func lit(ty ftype, v constant.Value) (string, bool) {
	switch ty.k {
	case kBool:
		if v.Kind() != constant.Bool {
			return "", false
		}
		if constant.BoolVal(v) {
			return "true", true
		}
		return "false", true
	case kNat, kInt:
		iv := constant.ToInt(v)
		if iv.Kind() != constant.Int {
			return "", false
		}
		s := iv.ExactString()
		if ty.k == kNat {
			if strings.HasPrefix(s, "-") {
				return "", false
			}
			return "(" + s + " : Nat)", true
		}
		return "(" + s + " : Int)", true
	}
	return "", false
}

// ex translates a scalar expression; the Lean term has the type of typeOf(e).
func (t *ftr) ex(e ast.Expr, c fctx) string {
	e = unparen(e)
	src := types.ExprString(e)
	if c.poisoned[src] {
		return t.fail(e, "%s is read after a joined branch that rebinds it on some paths only", src)
	}
	if c.rebound[src] {
		src += "'"
	}
	if t.isAliasField(src) {
		if c.fresh {
			if _, ok := c.locals[src]; ok {
				return leanName(src)
			}
			return t.fail(e, "scratch field %s is not initialised (list it under scratch)", src)
		}
		src = t.f.aliasOf + src[len(t.f.alias):]
	}
	if p := t.param(src); p != nil {
		if c.sealed {
			return t.fail(e, "%s is read after an opaque call that may have changed it", src)
		}
		p.used = true
		t.noteType(p, e)
		return p.name
	}
	ty, ok := t.typeOf(e)
	if tv := t.p.info.Types[e]; tv.Value != nil {
		if !ok {
			return t.fail(e, "constant %s of unsupported type", src)
		}
		s, ok := lit(ty, tv.Value)
		if !ok {
			return t.fail(e, "constant %s does not fit its type", src)
		}
		return s
	}
	if !ok {
		return t.fail(e, "expression %s has no scalar type (declare it as a parameter?)", src)
	}
	switch x := e.(type) {
	case *ast.Ident:
		if lt, ok := c.locals[x.Name]; ok {
			if lt != ty {
				return t.fail(e, "local %s changes type", x.Name)
			}
			return leanName(x.Name)
		}
		return t.fail(e, "free variable %s (not a declared parameter)", x.Name)
	case *ast.UnaryExpr:
		a := t.ex(x.X, c)
		switch {
		case x.Op == token.NOT && ty.k == kBool:
			return "(!" + a + ")"
		case x.Op == token.SUB && ty.k == kInt:
			return wrapInt(ty.bits, "-"+a)
		case x.Op == token.SUB && ty.k == kNat:
			return fmt.Sprintf("((%s - %s) %% %s)", pow2(ty.bits), a, pow2(ty.bits))
		case x.Op == token.ADD:
			return a
		}
		return t.fail(e, "unary operator %s", x.Op)
	case *ast.BinaryExpr:
		switch x.Op {
		case token.LAND, token.LOR:
			op := "&&"
			if x.Op == token.LOR {
				op = "||"
			}
			return "(" + t.ex(x.X, c) + " " + op + " " + t.ex(x.Y, c) + ")"
		case token.EQL, token.NEQ, token.LSS, token.LEQ, token.GTR, token.GEQ:
			ta, oka := t.typeOf(unparen(x.X))
			tb, okb := t.typeOf(unparen(x.Y))
			if !oka || !okb || ta.k != tb.k {
				return t.fail(e, "comparison %s of non-scalar or mixed operands", src)
			}
			a, b := t.ex(x.X, c), t.ex(x.Y, c)
			if ta.k == kBool {
				switch x.Op {
				case token.EQL:
					return "(" + a + " == " + b + ")"
				case token.NEQ:
					return "(" + a + " != " + b + ")"
				}
				return t.fail(e, "ordering of booleans")
			}
			op := map[token.Token]string{token.EQL: "=", token.NEQ: "≠", token.LSS: "<", token.LEQ: "≤", token.GTR: ">", token.GEQ: "≥"}[x.Op]
			return fmt.Sprintf("(decide (%s %s %s))", a, op, b)
		}
		var a, b string
		if tvy := t.p.info.Types[unparen(x.Y)]; (x.Op == token.SHL || x.Op == token.SHR) && tvy.Value != nil {
			// shift by a constant: the count is an untyped constant
			a, b = t.ex(x.X, c), constant.ToInt(tvy.Value).ExactString()
		} else {
			a, b = t.ex(x.X, c), t.ex(x.Y, c)
		}
		if ty.k == kInt {
			switch x.Op {
			case token.ADD:
				return wrapInt(ty.bits, a+" + "+b)
			case token.SUB:
				return wrapInt(ty.bits, a+" - "+b)
			case token.MUL:
				return wrapInt(ty.bits, a+" * "+b)
			case token.QUO:
				// Go: truncated toward zero (MinInt / -1 wraps)
				return wrapInt(ty.bits, "Int.tdiv "+a+" "+b)
			case token.REM:
				return "(Int.tmod " + a + " " + b + ")"
			case token.AND:
				// two's complement: a & (2^k - 1) is a mod 2^k for every integer a
				if tvy := t.p.info.Types[unparen(x.Y)]; tvy.Value != nil {
					if m, ok := constant.Int64Val(constant.ToInt(tvy.Value)); ok && m > 0 && (m+1)&m == 0 {
						return fmt.Sprintf("(%s %% %d)", a, m+1)
					}
				}
			}
			return t.fail(e, "signed operator %s", x.Op)
		}
		if ty.k == kNat {
			m := pow2(ty.bits)
			switch x.Op {
			case token.ADD:
				return fmt.Sprintf("((%s + %s) %% %s)", a, b, m)
			case token.SUB:
				return fmt.Sprintf("((%s + %s - %s) %% %s)", a, m, b, m)
			case token.MUL:
				return fmt.Sprintf("((%s * %s) %% %s)", a, b, m)
			case token.QUO:
				return fmt.Sprintf("(%s / %s)", a, b)
			case token.REM:
				return fmt.Sprintf("(%s %% %s)", a, b)
			case token.AND:
				return fmt.Sprintf("(%s &&& %s)", a, b)
			case token.OR:
				return fmt.Sprintf("(%s ||| %s)", a, b)
			case token.XOR:
				return fmt.Sprintf("(%s ^^^ %s)", a, b)
			case token.SHR:
				return fmt.Sprintf("(%s >>> %s)", a, b)
			case token.SHL:
				return fmt.Sprintf("((%s <<< %s) %% %s)", a, b, m)
			}
			return t.fail(e, "unsigned operator %s", x.Op)
		}
		return t.fail(e, "operator %s", x.Op)
	case *ast.CallExpr:
		// conversion between integer types
		if tv, ok := t.p.info.Types[x.Fun]; ok && tv.IsType() && len(x.Args) == 1 {
			from, okf := t.typeOf(unparen(x.Args[0]))
			if !okf || from.k == kBool || ty.k == kBool {
				return t.fail(e, "conversion %s", src)
			}
			a := t.ex(x.Args[0], c)
			switch {
			case from.k == kNat && ty.k == kNat:
				if ty.bits < from.bits {
					return fmt.Sprintf("(%s %% %s)", a, pow2(ty.bits))
				}
				return a
			case from.k == kNat && ty.k == kInt:
				if from.bits < ty.bits {
					return "(Int.ofNat " + a + ")"
				}
				return wrapInt(ty.bits, "Int.ofNat "+a)
			case from.k == kInt && ty.k == kInt:
				if ty.bits < from.bits {
					return wrapInt(ty.bits, a)
				}
				return a
			default: // Int -> Nat
				return fmt.Sprintf("(Int.toNat (%s %% %s))", a, pow2(ty.bits))
			}
		}
		return t.call(x, c)
	}
	return t.fail(e, "expression %s (%T)", src, e)
}

// call translates a call of another translated fact: a plain function `f(a, b)` or a method
// `r.m(a)` whose receiver fields are parameters of the callee.
func (t *ftr) call(x *ast.CallExpr, c fctx) string {
	src := types.ExprString(x)
	var callee *fact
	recv := ""
	switch f := x.Fun.(type) {
	case *ast.Ident:
		callee = t.all[f.Name]
	case *ast.SelectorExpr:
		if tv, ok := t.p.info.Types[f.X]; ok {
			tn := tv.Type.String()
			tn = strings.TrimPrefix(tn[strings.LastIndex(tn, ".")+1:], "*")
			callee = t.all[tn+"."+f.Sel.Name]
			recv = types.ExprString(f.X)
		}
	}
	if id, ok := x.Fun.(*ast.Ident); ok && (id.Name == "max" || id.Name == "min") && len(x.Args) == 2 {
		if _, isBuiltin := t.p.info.Uses[id].(*types.Builtin); isBuiltin {
			return "(" + id.Name + " " + t.ex(x.Args[0], c) + " " + t.ex(x.Args[1], c) + ")"
		}
	}
	if callee == nil || callee.stateful || callee.locate != nil {
		return t.fail(x, "call %s is neither a translated pure function nor a declared parameter", src)
	}
	fd := t.p.lookupFunc(callee.fn)
	if fd == nil {
		return t.fail(x, "callee %s not found", callee.fn)
	}
	// map the callee's parameter sources to argument expressions
	crecv := ""
	if fd.Recv != nil && len(fd.Recv.List) == 1 && len(fd.Recv.List[0].Names) == 1 {
		crecv = fd.Recv.List[0].Names[0].Name
	}
	var formals []string
	for _, fl := range fd.Type.Params.List {
		for _, n := range fl.Names {
			formals = append(formals, n.Name)
		}
	}
	if len(formals) != len(x.Args) {
		return t.fail(x, "call %s: arity", src)
	}
	var args []string
	for _, cp := range callee.params {
		done := false
		for i, fn := range formals {
			if cp.src == fn {
				args = append(args, t.ex(x.Args[i], c))
				done = true
			}
		}
		if done {
			continue
		}
		if crecv != "" && strings.HasPrefix(cp.src, crecv+".") && recv != "" {
			want := recv + strings.TrimPrefix(cp.src, crecv)
			p := t.param(want)
			if p == nil {
				return t.fail(x, "call %s needs %s, which is not a declared parameter", src, want)
			}
			if c.sealed {
				return t.fail(x, "%s is read after an opaque call", want)
			}
			p.used = true
			if !p.typed && cp.typed {
				p.typ, p.typed = cp.typ, true
			}
			args = append(args, p.name)
			continue
		}
		return t.fail(x, "call %s: cannot supply the callee's parameter %s", src, cp.src)
	}
	return "(" + callee.lean + " " + strings.Join(args, " ") + ")"
}

// ret renders the value returned at a return point.
func (t *ftr) ret(vals []string, outcome int, c fctx) string {
	if t.f.stateful {
		var fs []string
		fs = append(fs, fmt.Sprintf("outcome := %d", outcome), "tail := tail")
		if t.captures() {
			fs = append(fs, "arg := arg")
		}
		if t.captures2() {
			fs = append(fs, "arg2 := arg2")
		}
		if t.capturesAll() {
			fs = append(fs, "args := args")
		}
		if len(t.f.mops) > 0 {
			fs = append(fs, "mtrace := mtrace")
		}
		for _, p := range t.f.params {
			if p.state {
				fs = append(fs, fmt.Sprintf("%s := %s", p.name, p.name))
			}
		}
		if t.f.alias != "" {
			fs = append(fs, fmt.Sprintf("fresh := %v", c.fresh))
			for _, fld := range t.f.scratch {
				val := ""
				if c.fresh {
					val = leanName(t.f.alias + "." + fld)
				} else if prm := t.param(t.f.aliasOf + "." + fld); prm != nil {
					val = prm.name
				}
				fs = append(fs, fmt.Sprintf("%s := %s", leanName(t.f.alias+"."+fld), val))
			}
		}
		return c.indent + "{ " + strings.Join(fs, ", ") + " }\n"
	}
	if outcome != 0 {
		return c.indent + "none\n"
	}
	v := strings.Join(vals, ", ")
	if len(vals) != 1 {
		v = "(" + v + ")"
	}
	if t.mayPanic {
		return c.indent + "some " + v + "\n"
	}
	return c.indent + v + "\n"
}

func (t *ftr) isPanic(s ast.Stmt) (*ast.CallExpr, bool) {
	es, ok := s.(*ast.ExprStmt)
	if !ok {
		return nil, false
	}
	ce, ok := es.X.(*ast.CallExpr)
	if !ok {
		return nil, false
	}
	id, ok := ce.Fun.(*ast.Ident)
	if !ok || id.Name != "panic" {
		return nil, false
	}
	if _, isBuiltin := t.p.info.Uses[id].(*types.Builtin); !isBuiltin {
		return nil, false
	}
	return ce, true
}

func (t *ftr) constBool(e ast.Expr) (bool, bool) {
	tv := t.p.info.Types[unparen(e)]
	if tv.Value != nil && tv.Value.Kind() == constant.Bool {
		return constant.BoolVal(tv.Value), true
	}
	return false, false
}

// scanPanics reports whether live code of the fragment contains a panic.
func (t *ftr) scanPanics(stmts []ast.Stmt) bool {
	found := false
	var walk func(n ast.Node) bool
	walk = func(n ast.Node) bool {
		if is, ok := n.(*ast.IfStmt); ok {
			if v, isConst := t.constBool(is.Cond); isConst && !v && is.Else == nil {
				return false
			}
		}
		if s, ok := n.(ast.Stmt); ok {
			if _, isP := t.isPanic(s); isP {
				found = true
			}
		}
		return true
	}
	for _, s := range stmts {
		ast.Inspect(s, walk)
	}
	return found
}

// assign renders `let name : T := rhs` for a local, a state field, or fails.
func (t *ftr) assign(lhs ast.Expr, rhs func(ftype) string, define bool, c fctx) (string, fctx) {
	lhs = unparen(lhs)
	src := types.ExprString(lhs)
	if t.isAliasField(src) {
		if c.fresh {
			ty, ok := c.locals[src]
			if !ok {
				t.fail(lhs, "scratch field %s is not initialised (list it under scratch)", src)
				return "", c
			}
			return fmt.Sprintf("%slet %s : %s := %s\n", c.indent, leanName(src), ty.lean(), rhs(ty)), c
		}
		src = t.f.aliasOf + src[len(t.f.alias):]
	}
	if p := t.param(src); p != nil {
		if !p.state && strings.ContainsAny(src, ".( ") {
			t.fail(lhs, "assignment to %s, which is declared as a read-only parameter", src)
			return "", c
		}
		if c.sealed {
			t.fail(lhs, "%s is assigned after an opaque call", src)
		}
		t.noteType(p, lhs)
		return fmt.Sprintf("%slet %s : %s := %s\n", c.indent, p.name, p.typ.lean(), rhs(p.typ)), c
	}
	id, ok := lhs.(*ast.Ident)
	if !ok {
		t.fail(lhs, "assignment target %s (declare it as a state field or list the statement under skip)", src)
		return "", c
	}
	var ty ftype
	if define {
		obj := t.p.info.Defs[id]
		if obj == nil {
			t.fail(lhs, "redeclaration of %s in a multi-assignment", id.Name)
			return "", c
		}
		var ok bool
		ty, ok = basicFtype(obj.Type())
		if !ok {
			t.fail(lhs, "local %s has no scalar type", id.Name)
			return "", c
		}
		if _, dup := c.locals[id.Name]; dup {
			t.fail(lhs, "local %s shadows another local", id.Name)
		}
		for _, p := range t.f.params {
			if p.name == leanName(id.Name) {
				t.fail(lhs, "local %s collides with parameter %s", id.Name, p.name)
			}
		}
		c = c.with(id.Name, ty)
	} else {
		var ok bool
		ty, ok = c.locals[id.Name]
		if !ok {
			t.fail(lhs, "assignment to %s, which is neither a local nor a state field", id.Name)
			return "", c
		}
	}
	return fmt.Sprintf("%slet %s : %s := %s\n", c.indent, leanName(id.Name), ty.lean(), rhs(ty)), c
}

// stmts translates a statement list; k renders what follows the list.
func (t *ftr) stmts(list []ast.Stmt, c fctx, k func(c fctx) string) string {
	if len(list) == 0 {
		return k(c)
	}
	s, rest := list[0], list[1:]
	next := func(c fctx) string { return t.stmts(rest, c, k) }
	if t.f.alias != "" {
		switch stmtString(t.p, s) {
		case t.f.alias + " := " + t.f.aliasOf:
			c.fresh = false
			return fmt.Sprintf("%s-- %s := %s (same object)\n", c.indent, t.f.alias, t.f.aliasOf) + next(c)
		case t.f.alias + " = new(Decimal)":
			c.fresh = true
			out := fmt.Sprintf("%s-- %s = new(Decimal)\n", c.indent, t.f.alias)
			for _, fld := range t.f.scratch {
				prm := t.param(t.f.aliasOf + "." + fld)
				if prm == nil || !prm.typed {
					return c.indent + t.fail(s, "scratch field %s has no typed counterpart %s.%s among the parameters", fld, t.f.aliasOf, fld) + "\n"
				}
				key := t.f.alias + "." + fld
				c = c.with(key, prm.typ)
				out += fmt.Sprintf("%slet %s : %s := %s\n", c.indent, leanName(key), prm.typ.lean(), prm.typ.zero())
			}
			return out + next(c)
		}
	}
	for _, mo := range t.f.mops {
		if stmtString(t.p, s) == mo.src {
			mo.seen = true
			if c.sealed {
				return c.indent + t.fail(s, "mantissa statement after an opaque call") + "\n"
			}
			var vals []string
			for _, a := range mo.args {
				node := findSubExpr(s, a)
				if node == nil {
					return c.indent + t.fail(s, "recorded sub-expression %s does not occur in %s", a, mo.src) + "\n"
				}
				ty, ok := t.typeOf(unparen(node))
				if !ok || ty.k == kBool {
					return c.indent + t.fail(node, "recorded sub-expression %s is not an integer", a) + "\n"
				}
				v := t.ex(node, c)
				if ty.k == kNat {
					v = "(Int.ofNat " + v + ")"
				}
				vals = append(vals, v)
			}
			if len(mo.rebind) > 0 {
				nb := map[string]bool{}
				for k := range c.rebound {
					nb[k] = true
				}
				for _, r := range mo.rebind {
					nb[r] = true
				}
				c.rebound = nb
			}
			return fmt.Sprintf("%s-- (mantissa) %s\n%slet mtrace : List (Nat × List Int) := mtrace ++ [(%d, [%s])]\n", c.indent, mo.src, c.indent, mo.code, strings.Join(vals, ", ")) + next(c)
		}
	}
	for _, sk := range t.f.skip {
		if stmtString(t.p, s) == sk {
			t.f.skipSeen[sk] = true
			return fmt.Sprintf("%s-- (mantissa) %s\n", c.indent, sk) + next(c)
		}
	}
	switch x := s.(type) {
	case *ast.EmptyStmt:
		return next(c)
	case *ast.BlockStmt:
		return t.stmts(x.List, c, next)
	case *ast.AssignStmt:
		if len(x.Lhs) == 2 && len(x.Rhs) == 1 && x.Tok == token.DEFINE {
			// `a, b := opaque()`: both results are declared parameters `<call>#0`, `<call>#1`
			rs := types.ExprString(x.Rhs[0])
			p0, p1 := t.param(rs+"#0"), t.param(rs+"#1")
			if p0 != nil && p1 != nil {
				out := ""
				for i, prm := range []*fparam{p0, p1} {
					id, ok := x.Lhs[i].(*ast.Ident)
					if !ok {
						return c.indent + t.fail(x, "tuple assignment target") + "\n"
					}
					obj := t.p.info.Defs[id]
					if obj == nil {
						return c.indent + t.fail(x, "tuple assignment redeclares %s", id.Name) + "\n"
					}
					ty, ok := basicFtype(obj.Type())
					if !ok {
						return c.indent + t.fail(x, "local %s has no scalar type", id.Name) + "\n"
					}
					if c.sealed {
						return c.indent + t.fail(x, "opaque tuple read after an opaque call") + "\n"
					}
					prm.used, prm.typ, prm.typed = true, ty, true
					if _, dup := c.locals[id.Name]; dup {
						return c.indent + t.fail(x, "local %s shadows another local", id.Name) + "\n"
					}
					c = c.with(id.Name, ty)
					if leanName(id.Name) != prm.name {
						out += fmt.Sprintf("%slet %s : %s := %s\n", c.indent, leanName(id.Name), ty.lean(), prm.name)
					}
				}
				return out + next(c)
			}
		}
		if len(x.Lhs) == 1 && len(x.Rhs) == 1 && x.Tok == token.ASSIGN && t.f.stateful {
			// `*z = Decimal{}`: every scalar field of the receiver gets its zero value
			if st, ok := x.Lhs[0].(*ast.StarExpr); ok {
				id, isId := st.X.(*ast.Ident)
				cl, isCl := x.Rhs[0].(*ast.CompositeLit)
				if isId && isCl && t.isReceiver(id) && len(cl.Elts) == 0 {
					out := fmt.Sprintf("%s-- *%s = Decimal{}\n", c.indent, id.Name)
					for _, prm := range t.f.params {
						if prm.state && prm.typed {
							out += fmt.Sprintf("%slet %s : %s := %s\n", c.indent, prm.name, prm.typ.lean(), prm.typ.zero())
						}
					}
					return out + next(c)
				}
			}
		}
		if len(x.Lhs) == 2 && len(x.Rhs) == 2 && (x.Tok == token.DEFINE || x.Tok == token.ASSIGN) {
			// parallel assignment of scalars: both right-hand sides are evaluated first
			r0, r1 := t.ex(x.Rhs[0], c), t.ex(x.Rhs[1], c)
			o0, c1 := t.assign(x.Lhs[0], func(ftype) string { return r0 }, x.Tok == token.DEFINE, c)
			o1, c2 := t.assign(x.Lhs[1], func(ftype) string { return r1 }, x.Tok == token.DEFINE, c1)
			// the first `let` must not shadow a name the second right-hand side reads
			if f := strings.Fields(strings.TrimSpace(o0)); len(f) > 1 && containsWord(r1, f[1]) {
				return c.indent + t.fail(x, "parallel assignment whose second value reads the first target") + "\n"
			}
			return o0 + o1 + next(c2)
		}
		if len(x.Lhs) == 1 && len(x.Rhs) == 1 && t.f.stateful {
			if ce, ok := unparen(x.Rhs[0]).(*ast.CallExpr); ok {
				if ef := t.effect(ce); ef != nil && ef.result != "" {
					out, c2, done := t.applyEffect(ef, ce, x, c)
					if done {
						return out
					}
					rp := t.param(ef.result)
					if rp == nil {
						return c.indent + t.fail(x, "effect result %s is not a declared parameter", ef.result) + "\n"
					}
					rp.used = true
					o, c3 := t.assign(x.Lhs[0], func(ty ftype) string {
						if !rp.typed {
							rp.typ, rp.typed = ty, true
						}
						return rp.name
					}, x.Tok == token.DEFINE, c2)
					return out + o + next(c3)
				}
			}
		}
		if len(x.Lhs) != 1 || len(x.Rhs) != 1 {
			return c.indent + t.fail(x, "multiple assignment") + "\n"
		}
		switch x.Tok {
		case token.DEFINE, token.ASSIGN:
			out, c2 := t.assign(x.Lhs[0], func(ftype) string { return t.ex(x.Rhs[0], c) }, x.Tok == token.DEFINE, c)
			return out + next(c2)
		}
		if op, ok := map[token.Token]token.Token{token.ADD_ASSIGN: token.ADD, token.SUB_ASSIGN: token.SUB, token.OR_ASSIGN: token.OR,
			token.AND_ASSIGN: token.AND, token.MUL_ASSIGN: token.MUL}[x.Tok]; ok {
			lty, okT := t.typeOf(unparen(x.Lhs[0]))
			if okT && lty.k != kBool {
				a, b := t.ex(x.Lhs[0], c), t.ex(x.Rhs[0], c)
				var val string
				m := pow2(lty.bits)
				switch {
				case lty.k == kInt && (op == token.ADD || op == token.SUB || op == token.MUL):
					val = wrapInt(lty.bits, a+" "+op.String()+" "+b)
				case lty.k == kNat && op == token.ADD:
					val = fmt.Sprintf("((%s + %s) %% %s)", a, b, m)
				case lty.k == kNat && op == token.SUB:
					val = fmt.Sprintf("((%s + %s - %s) %% %s)", a, m, b, m)
				case lty.k == kNat && op == token.MUL:
					val = fmt.Sprintf("((%s * %s) %% %s)", a, b, m)
				case lty.k == kNat && op == token.OR:
					val = fmt.Sprintf("(%s ||| %s)", a, b)
				case lty.k == kNat && op == token.AND:
					val = fmt.Sprintf("(%s &&& %s)", a, b)
				}
				if val != "" {
					out, c2 := t.assign(x.Lhs[0], func(ftype) string { return val }, false, c)
					return out + next(c2)
				}
			}
		}
		return c.indent + t.fail(x, "assignment operator %s", x.Tok) + "\n"
	case *ast.RangeStmt:
		if t.f.rangeSeen >= len(t.f.rangeConds) {
			return c.indent + t.fail(x, "range loop without a declared condition parameter") + "\n"
		}
		prm := t.param(t.f.rangeConds[t.f.rangeSeen])
		t.f.rangeSeen++
		var inner *ast.IfStmt
		if len(x.Body.List) == 1 {
			inner, _ = x.Body.List[0].(*ast.IfStmt)
		}
		if prm == nil || inner == nil || inner.Else != nil || inner.Init != nil || len(inner.Body.List) == 0 {
			return c.indent + t.fail(x, "range loop of unsupported shape") + "\n"
		}
		if _, ok := inner.Body.List[len(inner.Body.List)-1].(*ast.ReturnStmt); !ok {
			return c.indent + t.fail(x, "range loop whose body does not end in return") + "\n"
		}
		// the loop is abstracted into one boolean, so its text is pinned: "<key>, <value> := range <X> | <cond>"
		if want := t.f.rangeText[t.f.rangeSeen-1]; true {
			k, v := "_", "_"
			if x.Key != nil {
				k = types.ExprString(x.Key)
			}
			if x.Value != nil {
				v = types.ExprString(x.Value)
			}
			got := fmt.Sprintf("%s, %s := range %s | %s", k, v, types.ExprString(x.X), types.ExprString(inner.Cond))
			if got != want {
				return c.indent + t.fail(x, "range loop reads %q, expected %q", got, want) + "\n"
			}
		}
		prm.used, prm.typ, prm.typed = true, ftype{k: kBool}, true
		outer := c.locals
		back := func(ci fctx) string { ci.locals = restrict(ci.locals, outer); return next(ci) }
		return fmt.Sprintf("%s-- range loop: %s\n%sif %s then\n%s%selse\n%s", c.indent, prm.src, c.indent, prm.name,
			t.stmts(inner.Body.List, c.in(), back), c.indent, back(c.in()))
	case *ast.IncDecStmt:
		out, c2 := t.assign(x.X, func(ty ftype) string {
			a := t.ex(x.X, c)
			d := "+"
			if x.Tok == token.DEC {
				d = "-"
			}
			if ty.k == kInt {
				return wrapInt(ty.bits, a+" "+d+" 1")
			}
			if x.Tok == token.DEC {
				return fmt.Sprintf("((%s + %s - 1) %% %s)", a, pow2(ty.bits), pow2(ty.bits))
			}
			return fmt.Sprintf("((%s + 1) %% %s)", a, pow2(ty.bits))
		}, false, c)
		return out + next(c2)
	case *ast.DeclStmt:
		gd, ok := x.Decl.(*ast.GenDecl)
		if !ok || gd.Tok != token.VAR {
			return c.indent + t.fail(x, "declaration") + "\n"
		}
		out := ""
		for _, sp := range gd.Specs {
			vs := sp.(*ast.ValueSpec)
			for j, n := range vs.Names {
				var o string
				j := j
				o, c = t.assign(n, func(ty ftype) string {
					if j < len(vs.Values) {
						return t.ex(vs.Values[j], c)
					}
					return ty.zero()
				}, true, c)
				out += o
			}
		}
		return out + next(c)
	case *ast.IfStmt:
		if x.Init != nil {
			// `if init; cond {…}`: the init statement, then the plain `if`, in a scope of their own
			plain := *x
			plain.Init = nil
			outer := c.locals
			back := func(ci fctx) string { ci.locals = restrict(ci.locals, outer); return next(ci) }
			return t.stmts([]ast.Stmt{x.Init, &plain}, c, back)
		}
		if v, isConst := t.constBool(x.Cond); isConst {
			if !v && x.Else == nil {
				return next(c) // dead branch (debugDecimal)
			}
			return c.indent + t.fail(x, "constant condition with live code") + "\n"
		}
		cond := t.ex(x.Cond, c)
		var els []ast.Stmt
		switch e := x.Else.(type) {
		case nil:
		case *ast.BlockStmt:
			els = e.List
		case *ast.IfStmt:
			els = []ast.Stmt{e}
		default:
			return c.indent + t.fail(x, "else branch") + "\n"
		}
		if t.f.join {
			if out, ok := t.joinBranches([]string{cond}, [][]ast.Stmt{x.Body.List, els}, c, next); ok {
				return out
			}
		}
		// an `if` whose branches contain nothing but skipped (mantissa / buffer) statements does not split the path
		if b1, ok1 := t.probeNoop(x.Body.List, c); ok1 {
			if b2, ok2 := t.probeNoop(els, c); ok2 {
				return fmt.Sprintf("%s-- if %s (no scalar effect in either branch)\n", c.indent, types.ExprString(x.Cond)) + b1 + b2 + next(c)
			}
		}
		// locals declared inside a branch go out of scope: restore the outer table
		outer := c.locals
		back := func(ci fctx) string { ci.locals = restrict(ci.locals, outer); return next(ci) }
		return fmt.Sprintf("%sif %s then\n%s%selse\n%s", c.indent, cond, t.stmts(x.Body.List, c.in(), back), c.indent, t.stmts(els, c.in(), back))
	case *ast.SwitchStmt:
		if x.Init != nil {
			return c.indent + t.fail(x, "switch with init statement") + "\n"
		}
		tag := ""
		var tagT ftype
		if x.Tag != nil {
			var ok bool
			tagT, ok = t.typeOf(unparen(x.Tag))
			if !ok || tagT.k == kBool {
				return c.indent + t.fail(x, "switch tag") + "\n"
			}
			tag = t.ex(x.Tag, c)
		}
		outer := c.locals
		var deflt *ast.CaseClause
		var clauses []*ast.CaseClause
		for _, cs := range x.Body.List {
			cc := cs.(*ast.CaseClause)
			if cc.List == nil {
				if deflt != nil {
					return c.indent + t.fail(x, "two default clauses") + "\n"
				}
				deflt = cc
			} else {
				clauses = append(clauses, cc)
			}
			for _, bs := range cc.Body {
				if br, ok := bs.(*ast.BranchStmt); ok {
					return c.indent + t.fail(br, "%s in switch", br.Tok) + "\n"
				}
			}
		}
		if t.f.join {
			var conds []string
			var bodies [][]ast.Stmt
			for _, cc := range clauses {
				var alts []string
				for _, v := range cc.List {
					if tag == "" {
						alts = append(alts, t.ex(v, c))
					} else {
						alts = append(alts, fmt.Sprintf("(decide (%s = %s))", tag, t.ex(v, c)))
					}
				}
				cond := strings.Join(alts, " || ")
				if len(alts) > 1 {
					cond = "(" + cond + ")"
				}
				conds = append(conds, cond)
				bodies = append(bodies, cc.Body)
			}
			if deflt != nil {
				bodies = append(bodies, deflt.Body)
			} else {
				bodies = append(bodies, nil)
			}
			if out, ok := t.joinBranches(conds, bodies, c, next); ok {
				return out
			}
		}
		var sb strings.Builder
		ci := c
		for _, cc := range clauses {
			var alts []string
			for _, v := range cc.List {
				if tag == "" {
					alts = append(alts, t.ex(v, c))
				} else {
					alts = append(alts, fmt.Sprintf("(decide (%s = %s))", tag, t.ex(v, c)))
				}
			}
			cond := strings.Join(alts, " || ")
			if len(alts) > 1 {
				cond = "(" + cond + ")"
			}
			inner := ci.in()
			back := func(cb fctx) string { cb.locals = restrict(cb.locals, outer); return next(cb) }
			fmt.Fprintf(&sb, "%sif %s then\n%s%selse\n", ci.indent, cond, t.stmts(cc.Body, inner, back), ci.indent)
			ci = inner
		}
		back := func(cb fctx) string { cb.locals = restrict(cb.locals, outer); return next(cb) }
		if deflt != nil {
			sb.WriteString(t.stmts(deflt.Body, ci, back))
		} else {
			sb.WriteString(back(ci))
		}
		return sb.String()
	case *ast.ReturnStmt:
		if t.f.stateful {
			switch len(x.Results) {
			case 0:
				return t.ret(nil, 0, c)
			case 1:
				r := unparen(x.Results[0])
				if ce, ok := r.(*ast.CallExpr); ok {
					if ef := t.effect(ce); ef != nil {
						ef.seen = true
						if c.sealed {
							return c.indent + t.fail(x, "second opaque call") + "\n"
						}
						return fmt.Sprintf("%slet tail : Nat := %d\n", c.indent, ef.code) + t.captureArg(ef, ce, c) + t.ret(nil, 0, c)
					}
				}
				if id, ok := r.(*ast.Ident); ok && t.isReceiver(id) {
					return t.ret(nil, 0, c)
				}
				if t.f.errResult {
					// a method returning `error`: nil = outcome 0, anything else (fmt.Errorf(…)) = outcome 3
					if id, ok := r.(*ast.Ident); ok && id.Name == "nil" {
						return t.ret(nil, 0, c)
					}
					if _, ok := r.(*ast.CallExpr); ok {
						return t.ret(nil, 3, c)
					}
				}
			}
			if t.f.anyReturn && len(x.Results) == 1 {
				if _, scalar := t.typeOf(unparen(x.Results[0])); !scalar {
					return t.ret(nil, 0, c) // the value returned is a mantissa: see mtrace
				}
			}
			if t.f.errResult && len(x.Results) == 2 {
				// `return v, nil` = outcome 0 (the value is mantissa/buffer traffic); `return nil, err` = outcome 3
				if id, ok := unparen(x.Results[1]).(*ast.Ident); ok && id.Name == "nil" {
					return t.ret(nil, 0, c)
				}
				return t.ret(nil, 3, c)
			}
			return c.indent + t.fail(x, "return value of a stateful method must be the receiver or a declared opaque call") + "\n"
		}
		if len(x.Results) == 0 {
			return c.indent + t.fail(x, "naked return") + "\n"
		}
		var vals []string
		for _, r := range x.Results {
			vals = append(vals, t.ex(r, c))
		}
		return t.ret(vals, 0, c)
	case *ast.ExprStmt:
		if ce, ok := t.isPanic(x); ok {
			outcome := 2
			if len(ce.Args) == 1 {
				if tv, ok := t.p.info.Types[ce.Args[0]]; ok && strings.HasSuffix(tv.Type.String(), ".ErrNaN") {
					outcome = 1
				}
			}
			return t.ret(nil, outcome, c)
		}
		if ce, ok := x.X.(*ast.CallExpr); ok && t.f.stateful {
			if ef := t.effect(ce); ef != nil {
				out, c2, done := t.applyEffect(ef, ce, x, c)
				if done {
					return out
				}
				return out + next(c2)
			}
		}
		return c.indent + t.fail(x, "statement %s", stmtString(t.p, x)) + "\n"
	}
	return c.indent + t.fail(s, "statement %T", s) + "\n"
}

var letLine = regexp.MustCompile(`^\s*let ([A-Za-z_][A-Za-z0-9_']*) : (.+?) := `)

// joinBranches translates a conditional all of whose branches fall through as one tuple binding. conds[i] guards
// bodies[i]; the last body is the else branch (possibly empty). ok = false: not joinable (a branch returns, panics,
// makes an opaque call that ends the function, or the paths differ in translation state) — nothing was emitted.
func (t *ftr) joinBranches(conds []string, bodies [][]ast.Stmt, c fctx, next func(fctx) string) (string, bool) {
	const marker = "\x00J\x00"
	nProblems, nRange := len(t.problems), t.f.rangeSeen
	fail := func() (string, bool) {
		t.problems, t.f.rangeSeen = t.problems[:nProblems], nRange
		return "", false
	}
	visible := map[string]bool{"tail": true, "arg": true, "arg2": true, "args": true, "mtrace": true}
	for k := range c.locals {
		visible[leanName(k)] = true
	}
	for _, prm := range t.f.params {
		if prm.state || !strings.ContainsAny(prm.src, ".( <") {
			visible[prm.name] = true // receiver fields and plain function parameters can be assigned
		}
	}
	depth := len(bodies)
	var outs []string
	var names []string
	types_ := map[string]string{}
	rebound := map[string]bool{}
	poisoned := map[string]bool{}
	for k := range c.rebound {
		rebound[k] = true
	}
	for k := range c.poisoned {
		poisoned[k] = true
	}
	for i, body := range bodies {
		bc := c
		// indentation of the branch body: under `let … :=` / `if … then`, one level per else
		lvl := i
		if i == depth-1 && i > 0 {
			lvl = i - 1
		}
		bc.indent = c.indent + strings.Repeat("  ", 2+lvl)
		var final fctx
		got := false
		out := t.stmts(body, bc, func(ci fctx) string { final, got = ci, true; return marker })
		if !got || strings.Count(out, marker) != 1 || !strings.HasSuffix(out, marker) || len(t.problems) != nProblems {
			return fail()
		}
		if final.sealed != c.sealed || final.fresh != c.fresh {
			return fail()
		}
		for k := range final.rebound {
			if !c.rebound[k] {
				rebound[k] = true
			}
		}
		out = strings.TrimSuffix(out, marker)
		for _, ln := range strings.Split(out, "\n") {
			if m := letLine.FindStringSubmatch(ln); m != nil && visible[m[1]] {
				if _, seen := types_[m[1]]; !seen {
					names = append(names, m[1])
					types_[m[1]] = m[2]
				} else if types_[m[1]] != m[2] {
					return fail()
				}
			}
		}
		outs = append(outs, out)
	}
	// an expression rebound on some paths only must not be read afterwards
	for k := range rebound {
		if c.rebound[k] {
			continue
		}
		all := true
		_ = all
		poisoned[k] = true
	}
	c2 := c
	c2.rebound, c2.poisoned = c.rebound, poisoned
	if len(names) == 0 {
		for _, o := range outs {
			for _, ln := range strings.Split(o, "\n") {
				if tr := strings.TrimSpace(ln); tr != "" && !strings.HasPrefix(tr, "--") {
					return fail() // binds something that is not visible outside: keep the plain translation
				}
			}
		}
		return strings.Join(outs, "") + next(c2), true
	}
	tuple := names[0]
	ttype := types_[names[0]]
	if len(names) > 1 {
		tuple = "(" + strings.Join(names, ", ") + ")"
		var ts []string
		for _, n := range names {
			ts = append(ts, types_[n])
		}
		ttype = strings.Join(ts, " × ")
	}
	var sb strings.Builder
	fmt.Fprintf(&sb, "%slet %s : %s :=\n", c.indent, tuple, ttype)
	ind := c.indent + "  "
	for i := range bodies {
		if i < len(conds) {
			fmt.Fprintf(&sb, "%sif %s then\n%s%s  %s\n", ind, conds[i], outs[i], ind, tuple)
			if i+1 < len(bodies) {
				fmt.Fprintf(&sb, "%selse\n", ind)
				if i+1 < len(conds) {
					ind += "  "
				}
			}
		} else {
			fmt.Fprintf(&sb, "%s%s  %s\n", outs[i], ind, tuple)
		}
	}
	return sb.String() + next(c2), true
}

// probeNoop translates a statement list with a marker continuation and reports whether it produced nothing but
// comments and left the translation state untouched; the comments are returned.
func (t *ftr) probeNoop(list []ast.Stmt, c fctx) (string, bool) {
	const marker = "\x00K\x00"
	nProblems, nRange := len(t.problems), t.f.rangeSeen
	changed := false
	out := t.stmts(list, c.in(), func(ci fctx) string {
		if ci.sealed != c.sealed || ci.fresh != c.fresh || len(ci.locals) != len(c.locals) || len(ci.rebound) != len(c.rebound) {
			changed = true
		}
		return marker
	})
	ok := !changed && len(t.problems) == nProblems && strings.Count(out, marker) == 1 && strings.HasSuffix(out, marker)
	body := strings.TrimSuffix(out, marker)
	if ok {
		for _, ln := range strings.Split(body, "\n") {
			if tr := strings.TrimSpace(ln); tr != "" && !strings.HasPrefix(tr, "--") {
				ok = false
			}
		}
	}
	if !ok {
		t.problems, t.f.rangeSeen = t.problems[:nProblems], nRange
		return "", false
	}
	return body, true
}

// applyEffect renders an opaque call: tail code, captured arguments, then either the end of the function (stop
// facts; done = true) or the declared havoc of receiver fields.
func (t *ftr) applyEffect(ef *feffect, ce *ast.CallExpr, x ast.Node, c fctx) (string, fctx, bool) {
	{
		{
			{
				ef.seen = true
				if c.sealed {
					return c.indent + t.fail(x, "second opaque call") + "\n", c, true
				}
				out := fmt.Sprintf("%slet tail : Nat := %d\n", c.indent, ef.code) + t.captureArg(ef, ce, c)
				if t.f.stop {
					return out + t.ret(nil, 0, c), c, true
				}
				if len(ef.havoc) == 0 && ef.result == "" && !ef.cont {
					c.sealed = true
				}
				for _, h := range ef.havoc {
					if t.isAliasField(h[0]) && c.fresh {
						src := t.param(h[1])
						ty, ok := c.locals[h[0]]
						if src == nil || !ok {
							return c.indent + t.fail(x, "bad havoc declaration %v", h) + "\n", c, true
						}
						src.used = true
						if !src.typed {
							src.typ, src.typed = ty, true
						}
						out += fmt.Sprintf("%slet %s : %s := %s\n", c.indent, leanName(h[0]), ty.lean(), src.name)
						continue
					}
					h0 := h[0]
					if t.isAliasField(h0) {
						h0 = t.f.aliasOf + h0[len(t.f.alias):]
					}
					field, src := t.param(h0), t.param(h[1])
					if field == nil || !field.state || src == nil {
						return c.indent + t.fail(x, "bad havoc declaration %v", h) + "\n", c, true
					}
					src.used = true
					if !src.typed {
						src.typ, src.typed = field.typ, field.typed
					}
					out += fmt.Sprintf("%slet %s : %s := %s\n", c.indent, field.name, field.typ.lean(), src.name)
				}
				return out, c, false
			}
		}
	}
}

// containsWord reports whether identifier w occurs in the Lean text s as a whole word.
func containsWord(s, w string) bool {
	for i := 0; i+len(w) <= len(s); i++ {
		if s[i:i+len(w)] != w {
			continue
		}
		isId := func(b byte) bool {
			return b == '_' || b == '\'' || b >= '0' && b <= '9' || b >= 'a' && b <= 'z' || b >= 'A' && b <= 'Z'
		}
		if (i == 0 || !isId(s[i-1])) && (i+len(w) == len(s) || !isId(s[i+len(w)])) {
			return true
		}
	}
	return false
}

// findSubExpr returns the first sub-expression of n whose source text is src.
func findSubExpr(n ast.Node, src string) ast.Expr {
	var found ast.Expr
	ast.Inspect(n, func(m ast.Node) bool {
		if found != nil {
			return false
		}
		if e, ok := m.(ast.Expr); ok && types.ExprString(e) == src {
			found = e
			return false
		}
		return true
	})
	return found
}

func restrict(m, outer map[string]ftype) map[string]ftype {
	r := make(map[string]ftype, len(outer))
	for k, v := range m {
		if _, ok := outer[k]; ok || strings.Contains(k, ".") {
			r[k] = v
		}
	}
	return r
}

func (t *ftr) isReceiver(id *ast.Ident) bool {
	fd := t.p.lookupFunc(t.f.fn)
	if fd == nil || fd.Recv == nil || len(fd.Recv.List) != 1 || len(fd.Recv.List[0].Names) != 1 {
		return false
	}
	return t.p.info.Uses[id] == t.p.info.Defs[fd.Recv.List[0].Names[0]]
}

func stmtString(p *pkgInfo, s ast.Stmt) string {
	switch x := s.(type) {
	case *ast.AssignStmt:
		var l, r []string
		for _, e := range x.Lhs {
			l = append(l, types.ExprString(e))
		}
		for _, e := range x.Rhs {
			r = append(r, types.ExprString(e))
		}
		return strings.Join(l, ", ") + " " + x.Tok.String() + " " + strings.Join(r, ", ")
	case *ast.ExprStmt:
		return types.ExprString(x.X)
	case *ast.ReturnStmt:
		var r []string
		for _, e := range x.Results {
			r = append(r, types.ExprString(e))
		}
		return strings.TrimSpace("return " + strings.Join(r, ", "))
	case *ast.DeclStmt:
		// `var a, b T` without initial values
		if gd, ok := x.Decl.(*ast.GenDecl); ok && gd.Tok == token.VAR && len(gd.Specs) == 1 {
			if vs, ok := gd.Specs[0].(*ast.ValueSpec); ok && len(vs.Values) == 0 && vs.Type != nil {
				var n []string
				for _, id := range vs.Names {
					n = append(n, id.Name)
				}
				return "var " + strings.Join(n, ", ") + " " + types.ExprString(vs.Type)
			}
		}
	}
	return fmt.Sprintf("%T", s)
}

// ---------------------------------------------------------------------------------------------
// fragment locators for (*Decimal).round

func isFieldOf(e ast.Expr, recv, field string) bool {
	return types.ExprString(unparen(e)) == recv+"."+field
}

// roundSwitch finds `inc := false; switch z.mode {…}; z.acc = makeAcc(…)` and the enclosing if.
func roundSwitch(fd *ast.FuncDecl) (encl *ast.IfStmt, init *ast.AssignStmt, sw *ast.SwitchStmt, after ast.Stmt, err error) {
	count := 0
	ast.Inspect(fd.Body, func(n ast.Node) bool {
		is, ok := n.(*ast.IfStmt)
		if !ok {
			return true
		}
		for i, s := range is.Body.List {
			ss, ok := s.(*ast.SwitchStmt)
			if !ok || ss.Tag == nil || !isFieldOf(ss.Tag, "z", "mode") {
				continue
			}
			count++
			encl, sw = is, ss
			if i > 0 {
				init, _ = is.Body.List[i-1].(*ast.AssignStmt)
			}
			if i+1 < len(is.Body.List) {
				after = is.Body.List[i+1]
			}
		}
		return true
	})
	switch {
	case count != 1:
		err = fmt.Errorf("expected exactly one `switch z.mode` inside an if of round, found %d", count)
	case init == nil || init.Tok != token.DEFINE || len(init.Lhs) != 1 || types.ExprString(init.Lhs[0]) != "inc":
		err = fmt.Errorf("the statement before `switch z.mode` is not `inc := …`")
	case after == nil:
		err = fmt.Errorf("nothing follows `switch z.mode`")
	}
	return
}

func locIncDecision(ft *ftr, fd *ast.FuncDecl) ([]ast.Stmt, ast.Expr, error) {
	_, init, sw, _, err := roundSwitch(fd)
	if err != nil {
		return nil, nil, err
	}
	return []ast.Stmt{init, sw}, nil, nil
}

func locRoundInexact(ft *ftr, fd *ast.FuncDecl) ([]ast.Stmt, ast.Expr, error) {
	encl, _, _, _, err := roundSwitch(fd)
	if err != nil {
		return nil, nil, err
	}
	return nil, encl.Cond, nil
}

func locRoundAccAbove(ft *ftr, fd *ast.FuncDecl) ([]ast.Stmt, ast.Expr, error) {
	_, _, _, after, err := roundSwitch(fd)
	if err != nil {
		return nil, nil, err
	}
	as, ok := after.(*ast.AssignStmt)
	if ok && as.Tok == token.ASSIGN && len(as.Lhs) == 1 && len(as.Rhs) == 1 && isFieldOf(as.Lhs[0], "z", "acc") {
		if ce, ok := as.Rhs[0].(*ast.CallExpr); ok && types.ExprString(ce.Fun) == "makeAcc" && len(ce.Args) == 1 {
			return nil, ce.Args[0], nil
		}
	}
	return nil, nil, fmt.Errorf("the statement after `switch z.mode` is not `z.acc = makeAcc(…)`")
}

// ifWhoseBody finds the unique if statement of fd whose body starts with the given statement.
func ifWhoseBody(ft *ftr, fd *ast.FuncDecl, first string, only bool) (*ast.IfStmt, error) {
	var found []*ast.IfStmt
	ast.Inspect(fd.Body, func(n ast.Node) bool {
		if is, ok := n.(*ast.IfStmt); ok && len(is.Body.List) > 0 && stmtString(ft.p, is.Body.List[0]) == first {
			if !only || len(is.Body.List) == 1 {
				found = append(found, is)
			}
		}
		return true
	})
	if len(found) != 1 {
		return nil, fmt.Errorf("expected exactly one `if … { %s … }`, found %d", first, len(found))
	}
	return found[0], nil
}

func locIfCond(first string, only bool) func(*ftr, *ast.FuncDecl) ([]ast.Stmt, ast.Expr, error) {
	return func(ft *ftr, fd *ast.FuncDecl) ([]ast.Stmt, ast.Expr, error) {
		is, err := ifWhoseBody(ft, fd, first, only)
		if err != nil {
			return nil, nil, err
		}
		return nil, is.Cond, nil
	}
}

// locIfAfter: the condition of the `if … { return }` that follows the given top-level statement.
func locIfAfter(prev string) func(*ftr, *ast.FuncDecl) ([]ast.Stmt, ast.Expr, error) {
	return func(ft *ftr, fd *ast.FuncDecl) ([]ast.Stmt, ast.Expr, error) {
		for i, s := range fd.Body.List {
			if stmtString(ft.p, s) != prev || i+1 >= len(fd.Body.List) {
				continue
			}
			if is, ok := fd.Body.List[i+1].(*ast.IfStmt); ok && len(is.Body.List) == 1 && stmtString(ft.p, is.Body.List[0]) == "return" && is.Else == nil {
				return nil, is.Cond, nil
			}
		}
		return nil, nil, fmt.Errorf("`%s; if … { return }` not found", prev)
	}
}

// locFitsCond: the `if digits <= z.prec { return }` that follows `digits := …`.
func locFitsCond(ft *ftr, fd *ast.FuncDecl) ([]ast.Stmt, ast.Expr, error) {
	for i, s := range fd.Body.List {
		as, ok := s.(*ast.AssignStmt)
		if !ok || as.Tok != token.DEFINE || len(as.Lhs) != 1 || types.ExprString(as.Lhs[0]) != "digits" {
			continue
		}
		if i+1 < len(fd.Body.List) {
			if is, ok := fd.Body.List[i+1].(*ast.IfStmt); ok && len(is.Body.List) == 1 && stmtString(ft.p, is.Body.List[0]) == "return" && is.Else == nil {
				return nil, is.Cond, nil
			}
		}
	}
	return nil, nil, fmt.Errorf("`digits := …; if … { return }` not found")
}

// locDefine: the right-hand side of the unique top-level-or-nested `name := …`.
func locDefine(name string) func(*ftr, *ast.FuncDecl) ([]ast.Stmt, ast.Expr, error) {
	return func(ft *ftr, fd *ast.FuncDecl) ([]ast.Stmt, ast.Expr, error) {
		var found []ast.Expr
		ast.Inspect(fd.Body, func(n ast.Node) bool {
			if as, ok := n.(*ast.AssignStmt); ok && as.Tok == token.DEFINE && len(as.Lhs) == 1 && len(as.Rhs) == 1 && types.ExprString(as.Lhs[0]) == name {
				found = append(found, as.Rhs[0])
			}
			return true
		})
		if len(found) != 1 {
			return nil, nil, fmt.Errorf("expected exactly one `%s := …`, found %d", name, len(found))
		}
		return nil, found[0], nil
	}
}

// ---------------------------------------------------------------------------------------------
// the facts

func ps(pairs ...string) []*fparam {
	var r []*fparam
	for i := 0; i+1 < len(pairs); i += 2 {
		r = append(r, &fparam{name: pairs[i], src: pairs[i+1]})
	}
	return r
}

func st(pairs ...string) []*fparam {
	r := ps(pairs...)
	for _, p := range r {
		p.state = true
	}
	return r
}

type factConst struct {
	name, lean, typ string
}

var factConsts = []factConst{
	{"MaxExp", "MaxExp", "Int"}, {"MinExp", "MinExp", "Int"}, {"MaxPrec", "MaxPrec", "Nat"},
	{"DefaultDecimalPrec", "DefaultDecimalPrec", "Nat"},
	{"_W", "W", "Nat"}, {"_DW", "DW", "Nat"}, {"_DB", "DB", "Nat"}, {"_DMax", "DMax", "Nat"},
	{"DigitsPerWord", "DigitsPerWord", "Nat"}, {"DecimalBase", "DecimalBase", "Nat"},
	{"ToNearestEven", "ToNearestEven", "Nat"}, {"ToNearestAway", "ToNearestAway", "Nat"}, {"ToZero", "ToZero", "Nat"},
	{"AwayFromZero", "AwayFromZero", "Nat"}, {"ToNegativeInf", "ToNegativeInf", "Nat"}, {"ToPositiveInf", "ToPositiveInf", "Nat"},
	{"zero", "zero", "Nat"}, {"finite", "finite", "Nat"}, {"inf", "inf", "Nat"},
	{"Below", "Below", "Int"}, {"Exact", "Exact", "Int"}, {"Above", "Above", "Int"},
	{"divRecursiveThreshold", "divRecursiveThreshold", "Nat"},
}

var factVars = []string{"decKaratsubaThreshold", "decBasicSqrThreshold", "decKaratsubaSqrThreshold"}

// fields that the kernels uadd/usub leave behind (usub clears the sign of an exact zero)
var kernelHavoc = [][2]string{{"z.form", "<kernel form>"}, {"z.acc", "<kernel acc>"}, {"z.neg", "<kernel neg>"}}

func allFacts() []*fact {
	fs := baseFacts()
	// AddPre / SubPre: the receiver state at the kernel call (or at the return / panic)
	for _, f := range baseFacts() {
		if f.lean != "Add" && f.lean != "Sub" && f.lean != "FMA" && f.lean != "Sqrt" {
			continue
		}
		f.lean += "Pre"
		f.stop = true
		f.doc = "state of the receiver at the kernel call (tail ≠ 0), at the return or at the panic"
		var keep []*fparam
		for _, prm := range f.params {
			if !strings.HasPrefix(prm.src, "<") {
				keep = append(keep, prm)
			}
		}
		f.params = keep
		for _, ef := range f.effects {
			ef.havoc = nil
		}
		fs = append(fs, f)
	}
	return fs
}

func baseFacts() []*fact {
	return []*fact{
		{lean: "makeAcc", fn: "makeAcc", params: ps("above", "above")},
		{lean: "umax32", fn: "umax32", params: ps("x", "x", "y", "y")},
		{lean: "addExp", fn: "addExp", params: ps("a", "a", "b", "b")},
		{lean: "goMax", fn: "max", params: ps("x", "x", "y", "y")},
		{lean: "goMin", fn: "min", params: ps("x", "x", "y", "y")},
		{lean: "ord", fn: "Decimal.ord", params: ps("form", "x.form", "neg", "x.neg")},
		{lean: "Sign", fn: "Decimal.Sign", params: ps("form", "x.form", "neg", "x.neg")},
		{lean: "Signbit", fn: "Decimal.Signbit", params: ps("neg", "x.neg")},
		{lean: "IsInf", fn: "Decimal.IsInf", params: ps("form", "x.form")},
		{lean: "IsZero", fn: "Decimal.IsZero", params: ps("form", "x.form")},
		{lean: "IsInt", fn: "Decimal.IsInt", params: ps("form", "x.form", "exp", "x.exp", "prec", "x.prec", "minPrec", "x.MinPrec()")},
		{lean: "Acc", fn: "Decimal.Acc", params: ps("acc", "x.acc")},
		{lean: "Mode", fn: "Decimal.Mode", params: ps("mode", "x.mode")},
		{lean: "Prec", fn: "Decimal.Prec", params: ps("prec", "x.prec")},
		{lean: "Cmp", fn: "Decimal.Cmp", params: ps("xForm", "x.form", "xNeg", "x.neg", "yForm", "y.form", "yNeg", "y.neg",
			"ucmpXY", "x.ucmp(y)", "ucmpYX", "y.ucmp(x)")},
		// (*Decimal).round: the increment decision and the other one-token decisions around it
		{lean: "incDecision", fn: "Decimal.round", locate: locIncDecision, resultVar: "inc",
			doc:    "the `switch z.mode` of round: `inc`; none = panic(\"unreachable\")",
			params: ps("mode", "z.mode", "neg", "z.neg", "rdigit", "rdigit", "sbit", "sbit", "odd", "z.mant.digit(ntz) & 1 != 0")},
		{lean: "roundInexact", fn: "Decimal.round", locate: locRoundInexact,
			doc:    "condition of the `if` that contains the rounding decision",
			params: ps("rdigit", "rdigit", "sbit", "sbit")},
		{lean: "roundAccAbove", fn: "Decimal.round", locate: locRoundAccAbove,
			doc:    "argument of `z.acc = makeAcc(…)` after the rounding decision",
			params: ps("inc", "inc", "neg", "z.neg")},
		{lean: "roundNeedSticky", fn: "Decimal.round", locate: locIfCond("sbit = z.mant.sticky(r)", true),
			doc:    "condition under which round computes the sticky bit itself",
			params: ps("sbit", "sbit", "rdigit", "rdigit", "mode", "z.mode")},
		{lean: "roundExpOverflow", fn: "Decimal.round", locate: locIfCond("z.form = inf", false),
			doc:    "condition of the exponent overflow after a mantissa carry",
			params: ps("exp", "z.exp")},
		{lean: "roundEarlyOut", fn: "Decimal.round", locate: locIfAfter("z.acc = Exact"),
			doc:    "condition of the first early return of round (nothing to round for ±0, ±Inf)",
			params: ps("form", "z.form")},
		{lean: "roundFits", fn: "Decimal.round", locate: locFitsCond,
			doc:    "condition `mantissa fits`",
			params: ps("digits", "digits", "prec", "z.prec")},
		{lean: "roundDigits", fn: "Decimal.round", locate: locDefine("digits"), params: ps("m", "m")},
		{lean: "roundR", fn: "Decimal.round", locate: locDefine("r"), params: ps("digits", "digits", "prec", "z.prec")},
		{lean: "roundN", fn: "Decimal.round", locate: locDefine("n"), params: ps("prec", "z.prec")},
		{lean: "roundNtz", fn: "Decimal.round", locate: locDefine("ntz"), params: ps("n", "n", "prec", "z.prec")},
		// stateful methods
		{lean: "setExpAndRound", fn: "Decimal.setExpAndRound", stateful: true,
			params:  append(ps("e", "exp", "zNeg", "z.neg"), st("acc", "z.acc", "form", "z.form", "exp", "z.exp")...),
			effects: []*feffect{{src: "z.round(sbit)", code: 1}}},
		{lean: "SetMode", fn: "Decimal.SetMode", stateful: true,
			params: append(ps("m", "mode"), st("mode", "z.mode", "acc", "z.acc")...)},
		{lean: "SetInf", fn: "Decimal.SetInf", stateful: true,
			params: append(ps("signbit", "signbit"), st("acc", "z.acc", "form", "z.form", "neg", "z.neg")...)},
		{lean: "SetPrec", fn: "Decimal.SetPrec", stateful: true,
			params:  append(ps("p", "prec", "neg", "z.neg"), st("acc", "z.acc", "prec", "z.prec", "form", "z.form")...),
			effects: []*feffect{{src: "z.round(0)", code: 1}}},
		{lean: "Set", fn: "Decimal.Set", stateful: true,
			params: append(ps("zIsNotX", "z != x", "xForm", "x.form", "xNeg", "x.neg", "xExp", "x.exp", "xPrec", "x.prec"),
				st("zAcc", "z.acc", "zForm", "z.form", "zNeg", "z.neg", "zExp", "z.exp", "zPrec", "z.prec")...),
			skip:    []string{"z.mant = z.mant.set(x.mant)"},
			effects: []*feffect{{src: "z.round(0)", code: 1}}},
		{lean: "Copy", fn: "Decimal.Copy", stateful: true,
			params: append(ps("zIsNotX", "z != x", "xPrec", "x.prec", "xMode", "x.mode", "xAcc", "x.acc", "xForm", "x.form", "xNeg", "x.neg", "xExp", "x.exp"),
				st("zPrec", "z.prec", "zMode", "z.mode", "zAcc", "z.acc", "zForm", "z.form", "zNeg", "z.neg", "zExp", "z.exp")...),
			skip: []string{"z.mant = z.mant.set(x.mant)"}},
		{lean: "Neg", fn: "Decimal.Neg", stateful: true,
			doc:     "the sign flip after z.Set(x) (sneg = sign left by Set)",
			params:  append(ps("sneg", "<sign after Set>"), st("zNeg", "z.neg")...),
			effects: []*feffect{{src: "z.Set(x)", code: 1, havoc: [][2]string{{"z.neg", "<sign after Set>"}}}}},
		{lean: "setBits64", fn: "Decimal.setBits64", stateful: true,
			params: append(ps("neg", "neg", "x", "x", "e", "exp", "lenMant", "len(z.mant)", "dnorm", "dnorm(z.mant)"),
				st("zPrec", "z.prec", "zAcc", "z.acc", "zNeg", "z.neg", "zForm", "z.form")...),
			skip:    []string{"z.mant = z.mant.setUint64(x)"},
			effects: []*feffect{{src: "z.setExpAndRound", code: 1, capture: 1}}},
		{lean: "SetMantExp", fn: "Decimal.SetMantExp", stateful: true,
			doc: "cform, cexp = form and exponent left by z.Copy(mant)",
			params: append(ps("e", "exp", "cform", "<form after Copy>", "cexp", "<exp after Copy>"),
				st("zForm", "z.form", "zExp", "z.exp")...),
			effects: []*feffect{
				{src: "z.Copy(mant)", code: 2, havoc: [][2]string{{"z.form", "<form after Copy>"}, {"z.exp", "<exp after Copy>"}}},
				{src: "z.setExpAndRound", code: 1, capture: 1}}},
		{lean: "SetBitsExp", fn: "Decimal.SetBitsExp", stateful: true,
			params: append(ps("e", "exp", "lenZ", "len(z.mant)", "lenRaw", "len(mant)", "dnorm", "dnorm(z.mant)"),
				st("zNeg", "z.neg", "zPrec", "z.prec", "zAcc", "z.acc", "zForm", "z.form", "zExp", "z.exp")...),
			skip:    []string{"z.mant = dec(mant).norm()"},
			effects: []*feffect{{src: "z.setExpAndRound", code: 1, capture: 1}}},
		{lean: "Mul", fn: "Decimal.Mul", stateful: true,
			params: append(ps("xForm", "x.form", "xNeg", "x.neg", "xPrec", "x.prec", "yForm", "y.form", "yNeg", "y.neg", "yPrec", "y.prec"),
				st("zPrec", "z.prec", "zNeg", "z.neg", "zAcc", "z.acc", "zForm", "z.form")...),
			effects: []*feffect{{src: "z.umul(x, y)", code: 1}}},
		{lean: "Quo", fn: "Decimal.Quo", stateful: true,
			params: append(ps("xForm", "x.form", "xNeg", "x.neg", "xPrec", "x.prec", "yForm", "y.form", "yNeg", "y.neg", "yPrec", "y.prec"),
				st("zPrec", "z.prec", "zNeg", "z.neg", "zAcc", "z.acc", "zForm", "z.form")...),
			effects: []*feffect{{src: "z.uquo(x, y)", code: 1}}},
		{lean: "Add", fn: "Decimal.Add", stateful: true,
			params: append(ps("mode", "z.mode", "xForm", "x.form", "xNeg", "x.neg", "xPrec", "x.prec", "yForm", "y.form", "yNeg", "y.neg", "yPrec", "y.prec",
				"ucmpXY", "x.ucmp(y)", "kform", "<kernel form>", "kacc", "<kernel acc>", "kneg", "<kernel neg>"),
				st("zPrec", "z.prec", "zNeg", "z.neg", "zAcc", "z.acc", "zForm", "z.form")...),
			effects: []*feffect{
				{src: "z.uadd(x, y)", code: 1, havoc: kernelHavoc},
				{src: "z.usub(x, y)", code: 2, havoc: kernelHavoc},
				{src: "z.usub(y, x)", code: 3, havoc: kernelHavoc},
				{src: "z.Set(x)", code: 4}, {src: "z.Set(y)", code: 5}}},
		// conversions with saturation
		{lean: "Int64", fn: "Decimal.Int64", params: ps("form", "x.form", "neg", "x.neg", "exp", "x.exp", "minPrec", "x.MinPrec()",
			"tv", "x.intMant().toUint64()#0", "tok", "x.intMant().toUint64()#1")},
		{lean: "Uint64", fn: "Decimal.Uint64", params: ps("form", "x.form", "neg", "x.neg", "exp", "x.exp", "minPrec", "x.MinPrec()",
			"rv", "x.intMant().toUint64()#0", "rok", "x.intMant().toUint64()#1")},
		{lean: "FMA", fn: "Decimal.FMA", stateful: true, alias: "z0", aliasOf: "z", scratch: []string{"prec", "mode", "neg", "acc", "form"},
			doc: "z0 is the receiver or a fresh scratch Decimal (fresh); kform/kacc = form and accuracy left in z0 by umul",
			params: append(ps("zIsU", "z == u", "aliasZU", "alias(z.mant, u.mant)", "xForm", "x.form", "xNeg", "x.neg", "xPrec", "x.prec",
				"yForm", "y.form", "yNeg", "y.neg", "yPrec", "y.prec", "uForm", "u.form", "uPrec", "u.prec",
				"kform", "<form after umul>", "kacc", "<acc after umul>"),
				st("zPrec", "z.prec", "zMode", "z.mode", "zNeg", "z.neg", "zAcc", "z.acc", "zForm", "z.form")...),
			effects: []*feffect{
				{src: "z.Mul(x, y)", code: 1},
				{src: "z0.umul(x, y)", code: 3, havoc: [][2]string{{"z0.form", "<form after umul>"}, {"z0.acc", "<acc after umul>"}}},
				{src: "z.Add(z0, u)", code: 2}}},
		{lean: "Append", fn: "Decimal.Append", stateful: true, join: true,
			doc: "digits/exp = x.MinPrec(), x.MantExp(nil) of the operand; digitsR/expR = the same of the rounded copy (after mtrace code 1 or 2); args = the scalar arguments of the formatter reached",
			params: ps("capBuf", "cap(buf)", "xNeg", "x.neg", "xForm", "x.form", "f", "fmt", "p", "prec",
				"digits0", "x.MinPrec()", "exp0", "x.MantExp(nil)", "digitsR", "x.MinPrec()'", "expR", "x.MantExp(nil)'"),
			skip: []string{"buf = make([]byte, 0, x.bufSizeForFmt(fmt, prec))", "buf = append(buf, '-')", "buf = append(buf, '+')", "buf = buf[:len(buf) - 1]"},
			mops: []*fmop{
				{src: "x = x.roundBelowQuantum(prec)", code: 1, args: []string{"prec"}, rebind: []string{"x.MinPrec()", "x.MantExp(nil)"}},
				{src: "x = new(Decimal).SetMode(x.mode).SetPrec(uint(rnd)).Set(x)", code: 2, args: []string{"uint(rnd)"}, rebind: []string{"x.MinPrec()", "x.MantExp(nil)"}}},
			effects: []*feffect{
				{src: "append(buf, \"Inf\"...)", code: 1, capAll: true},
				{src: "x.fmtB(buf)", code: 2, capAll: true},
				{src: "x.fmtP(buf)", code: 3, capAll: true},
				{src: "x.fmtE", code: 4, capAll: true},
				{src: "x.fmtF", code: 5, capAll: true},
				{src: "append(buf, '%', fmt)", code: 6, capAll: true}}},
		{lean: "MinPrec", fn: "Decimal.MinPrec", params: ps("form", "x.form", "lenMant", "len(x.mant)", "tz", "x.mant.trailingZeroDigits()")},
		{lean: "GobEncode", fn: "Decimal.GobEncode", stateful: true, errResult: true, join: true,
			doc:    "mtrace: 1 = the buffer size, 2 = the version byte, 3 = the attribute byte, 4 = the precision field, 5 = the exponent field, 6 = index of the first mantissa word encoded",
			params: ps("xNil", "x == nil", "form", "x.form", "prec", "x.prec", "lenMant", "len(x.mant)", "mode", "x.mode", "acc", "x.acc", "neg", "x.neg", "exp", "x.exp"),
			mops: []*fmop{
				{src: "buf := make([]byte, sz)", code: 1, args: []string{"sz"}},
				{src: "buf[0] = decimalGobVersion", code: 2, args: []string{"decimalGobVersion"}},
				{src: "buf[1] = b", code: 3, args: []string{"b"}},
				{src: "binary.BigEndian.PutUint32(buf[2:], x.prec)", code: 4, args: []string{"x.prec"}},
				{src: "binary.BigEndian.PutUint32(buf[6:], uint32(x.exp))", code: 5, args: []string{"uint32(x.exp)"}},
				{src: "x.mant[len(x.mant) - n:].bytes(buf[10:])", code: 6, args: []string{"len(x.mant) - n"}}}},
		{lean: "GobDecode", fn: "Decimal.GobDecode", stateful: true, errResult: true, rangeConds: []string{"<some word >= _DB>"}, rangeText: []string{"_, w := range mant | w >= _DB"},
			doc: "outcome 3 = an error is returned; hdr = buf[1], precU = the precision field, expU = the exponent field, topWord = mant[len(mant)-1], anyBig = some decoded word >= _DB, tz = mant.trailingZeroDigits()",
			params: append(ps("lenBuf", "len(buf)", "ver", "buf[0]", "hdr", "buf[1]", "precU", "binary.BigEndian.Uint32(buf[2:])",
				"expU", "binary.BigEndian.Uint32(buf[6:])", "lenMant", "len(mant)", "topWord", "mant[len(mant) - 1]",
				"anyBig", "<some word >= _DB>", "tz", "mant.trailingZeroDigits()"),
				st("zPrec", "z.prec", "zMode", "z.mode", "zAcc", "z.acc", "zForm", "z.form", "zNeg", "z.neg", "zExp", "z.exp")...),
			skip:    []string{"var mant dec", "mant = mant.setBytes(buf[10:])", "z.mant = z.mant.set(mant)"},
			effects: []*feffect{{src: "z.SetPrec", code: 1, capAll: true}}},
		{lean: "Sqrt", fn: "Decimal.Sqrt", stateful: true,
			doc: "b = value of x.MantExp(z); m* = the receiver fields MantExp leaves (it copies x); the exponent adjusted by the parity of b is in zExp, arg = b/2",
			params: append(ps("xForm", "x.form", "xNeg", "x.neg", "xPrec", "x.prec", "bv", "<MantExp result>",
				"mprec", "<prec after MantExp>", "mmode", "<mode after MantExp>", "macc", "<acc after MantExp>", "mform", "<form after MantExp>",
				"mneg", "<neg after MantExp>", "mexp", "<exp after MantExp>"),
				st("zPrec", "z.prec", "zMode", "z.mode", "zAcc", "z.acc", "zForm", "z.form", "zNeg", "z.neg", "zExp", "z.exp")...),
			effects: []*feffect{
				{src: "x.MantExp(z)", code: 1, result: "<MantExp result>", havoc: [][2]string{{"z.prec", "<prec after MantExp>"}, {"z.mode", "<mode after MantExp>"},
					{"z.acc", "<acc after MantExp>"}, {"z.form", "<form after MantExp>"}, {"z.neg", "<neg after MantExp>"}, {"z.exp", "<exp after MantExp>"}}},
				{src: "z.sqrtInverse(z)", code: 2, cont: true},
				{src: "z.SetMantExp", code: 3, capture: 2}}},
		{lean: "SetInt64", fn: "Decimal.SetInt64", stateful: true, params: ps("x", "x"),
			doc:     "args = the (neg, |x| as uint64, exp) handed to setBits64",
			effects: []*feffect{{src: "z.setBits64", code: 1, capAll: true}}},
		{lean: "SetUint64", fn: "Decimal.SetUint64", stateful: true, params: ps("x", "x"),
			effects: []*feffect{{src: "z.setBits64", code: 1, capAll: true}}},
		{lean: "NewDecimal", fn: "NewDecimal", stateful: true, params: ps("x", "x", "e", "exp"),
			effects: []*feffect{{src: "new(Decimal).setBits64", code: 1, capAll: true}}},
		{lean: "Abs", fn: "Decimal.Abs", stateful: true,
			doc:     "the sign after z.Set(x) (sneg = sign left by Set)",
			params:  append(ps("sneg", "<sign after Set>"), st("zNeg", "z.neg")...),
			effects: []*feffect{{src: "z.Set(x)", code: 1, havoc: [][2]string{{"z.neg", "<sign after Set>"}}}}},
		// the unsigned kernels: exponent arithmetic, branch selection and the shift/extension amounts; the
		// mantissa statements are recorded in `mtrace` (code, integer arguments) in execution order
		{lean: "uadd", fn: "Decimal.uadd", stateful: true,
			params: ps("xExp", "x.exp", "lenX", "len(x.mant)", "yExp", "y.exp", "lenY", "len(y.mant)",
				"sameZX", "same(z.mant, x.mant)", "sameZY", "same(z.mant, y.mant)", "lenZ", "len(z.mant)", "dn", "dnorm(z.mant)"),
			mops: []*fmop{
				{src: "t := dec(nil).shl(y.mant, uint(ey - ex))", code: 1, args: []string{"uint(ey - ex)"}},
				{src: "z.mant = z.mant.add(x.mant, t)", code: 2},
				{src: "z.mant = z.mant.shl(y.mant, uint(ey - ex))", code: 3, args: []string{"uint(ey - ex)"}},
				{src: "z.mant = z.mant.add(x.mant, z.mant)", code: 4},
				{src: "z.mant = z.mant.add(x.mant, y.mant)", code: 5},
				{src: "t := dec(nil).shl(x.mant, uint(ex - ey))", code: 6, args: []string{"uint(ex - ey)"}},
				{src: "z.mant = z.mant.add(t, y.mant)", code: 7},
				{src: "z.mant = z.mant.shl(x.mant, uint(ex - ey))", code: 8, args: []string{"uint(ex - ey)"}},
				{src: "z.mant = z.mant.add(z.mant, y.mant)", code: 9}},
			effects: []*feffect{{src: "z.setExpAndRound", code: 1, capture: 1, capture2: 2}}},
		{lean: "usub", fn: "Decimal.usub", stateful: true,
			params: append(ps("xExp", "x.exp", "lenX", "len(x.mant)", "yExp", "y.exp", "lenY", "len(y.mant)",
				"sameZX", "same(z.mant, x.mant)", "sameZY", "same(z.mant, y.mant)", "lenZ", "len(z.mant)", "dn", "dnorm(z.mant)"),
				st("zAcc", "z.acc", "zForm", "z.form", "zNeg", "z.neg")...),
			mops: []*fmop{
				{src: "t := dec(nil).shl(y.mant, uint(ey - ex))", code: 1, args: []string{"uint(ey - ex)"}},
				{src: "z.mant = t.sub(x.mant, t)", code: 2},
				{src: "z.mant = z.mant.shl(y.mant, uint(ey - ex))", code: 3, args: []string{"uint(ey - ex)"}},
				{src: "z.mant = z.mant.sub(x.mant, z.mant)", code: 4},
				{src: "z.mant = z.mant.sub(x.mant, y.mant)", code: 5},
				{src: "t := dec(nil).shl(x.mant, uint(ex - ey))", code: 6, args: []string{"uint(ex - ey)"}},
				{src: "z.mant = t.sub(t, y.mant)", code: 7},
				{src: "z.mant = z.mant.shl(x.mant, uint(ex - ey))", code: 8, args: []string{"uint(ex - ey)"}},
				{src: "z.mant = z.mant.sub(z.mant, y.mant)", code: 9}},
			effects: []*feffect{{src: "z.setExpAndRound", code: 1, capture: 1, capture2: 2}}},
		{lean: "umul", fn: "Decimal.umul", stateful: true,
			params: ps("xExp", "x.exp", "yExp", "y.exp", "xIsY", "x == y", "dn", "dnorm(z.mant)"),
			mops: []*fmop{
				{src: "z.mant = z.mant.sqr(x.mant)", code: 1},
				{src: "z.mant = z.mant.mul(x.mant, y.mant)", code: 2}},
			effects: []*feffect{{src: "z.setExpAndRound", code: 1, capture: 1, capture2: 2}}},
		{lean: "uquo", fn: "Decimal.uquo", stateful: true,
			params: ps("zPrec", "z.prec", "xExp", "x.exp", "lenX", "len(x.mant)", "yExp", "y.exp", "lenY", "len(y.mant)",
				"lenXadj", "len(xadj)", "lenZ", "len(z.mant)", "lenR", "len(r)", "dn", "dnorm(z.mant)"),
			mops: []*fmop{
				{src: "xadj := x.mant", code: 1},
				{src: "xadj = make(dec, len(x.mant) + d)", code: 2, args: []string{"len(x.mant) + d"}},
				{src: "copy(xadj[d:], x.mant)", code: 3, args: []string{"d"}},
				{src: "var r dec", code: 4},
				{src: "z.mant, r = z.mant.div(nil, xadj, y.mant)", code: 5}},
			effects: []*feffect{{src: "z.setExpAndRound", code: 1, capture: 1, capture2: 2}}},
		{lean: "Sub", fn: "Decimal.Sub", stateful: true,
			params: append(ps("mode", "z.mode", "zIsNotY", "z != y", "xForm", "x.form", "xNeg", "x.neg", "xPrec", "x.prec",
				"yForm", "y.form", "yNeg", "y.neg", "yPrec", "y.prec", "yExp", "y.exp",
				"ucmpXY", "x.ucmp(y)", "kform", "<kernel form>", "kacc", "<kernel acc>", "kneg", "<kernel neg>"),
				st("zPrec", "z.prec", "zNeg", "z.neg", "zAcc", "z.acc", "zForm", "z.form", "zExp", "z.exp")...),
			skip: []string{"z.mant = z.mant.set(y.mant)"},
			effects: []*feffect{
				{src: "z.uadd(x, y)", code: 1, havoc: kernelHavoc},
				{src: "z.usub(x, y)", code: 2, havoc: kernelHavoc},
				{src: "z.usub(y, x)", code: 3, havoc: kernelHavoc},
				{src: "z.Set(x)", code: 4}, {src: "z.round(0)", code: 6}}},
	}
}

const factsPrelude = `/- GENERATED by tools/gen (facts.go) from decimal.go / stdlib.go of db47h/decimal. Do not edit.

   Constants, enumerations and the small decision functions of decimal.go, translated on every
   run. bool -> Bool; unsigned integers and the byte enumerations -> Nat (+ - * modulo 2^bits);
   signed integers -> Int (+ - * and negation reduced by wrapI<bits>). A receiver field or an
   opaque sub-expression of the Go code is a parameter (listed in each doc comment).
   Stateful methods return a record: outcome 0 = return, 1 = panic(ErrNaN{…}), 2 = other panic;
   tail = code of the opaque kernel call that was reached (0 = none); the remaining fields are
   the scalar receiver fields when the method returns, panics, or makes a tail kernel call.
   The theorems tying these definitions to the model are in Proofs/GenFacts.lean. -/

set_option linter.unusedVariables false

namespace Decimal.Gen.Facts

/-- two's-complement reduction to int8 / int16 / int32 / int64 (literal first: the kernel unfolds x + literal
    on a symbolic x successor by successor) -/
def wrapI8 (n : Int) : Int := (128 + n) % 256 - 128
def wrapI16 (n : Int) : Int := (32768 + n) % 65536 - 32768
def wrapI32 (n : Int) : Int := (2147483648 + n) % 4294967296 - 2147483648
def wrapI64 (n : Int) : Int := (9223372036854775808 + n) % 18446744073709551616 - 9223372036854775808

`

func genFacts(p *pkgInfo) (string, []string) {
	var sb strings.Builder
	var problems []string
	sb.WriteString(factsPrelude)
	sb.WriteString("/-! ### constants -/\n\n")
	for _, c := range factConsts {
		v, err := p.constVal(c.name)
		if err != nil {
			problems = append(problems, err.Error())
			continue
		}
		if c.typ == "Nat" && strings.HasPrefix(v, "-") {
			problems = append(problems, fmt.Sprintf("constant %s is negative (%s) but expected to be a Nat", c.name, v))
			continue
		}
		fmt.Fprintf(&sb, "def %s : %s := %s\n", c.lean, c.typ, v)
	}
	for _, v := range factVars {
		init := p.findVarInit(v)
		if init == nil {
			problems = append(problems, "variable "+v+" not found")
			continue
		}
		s, err := p.exprInt(init)
		if err != nil || strings.HasPrefix(s, "-") {
			problems = append(problems, fmt.Sprintf("variable %s: initialiser is not a non-negative integer constant", v))
			continue
		}
		fmt.Fprintf(&sb, "def %s : Nat := %s\n", v, s)
	}
	// the enumerations must be declared in one const block each, in this order (iota)
	sb.WriteString("\n/-- declaration order of the RoundingMode / form / Accuracy constants in the source -/\n")
	for _, en := range []struct{ lean, typ string }{{"roundingModeOrder", "RoundingMode"}, {"formOrder", "form"}, {"accuracyOrder", "Accuracy"}} {
		names, err := p.enumOrder(en.typ)
		if err != nil {
			problems = append(problems, err.Error())
			continue
		}
		var q []string
		for _, n := range names {
			q = append(q, `"`+n+`"`)
		}
		fmt.Fprintf(&sb, "def %s : List String := [%s]\n", en.lean, strings.Join(q, ", "))
	}
	sb.WriteString("\n/-! ### functions -/\n\n")

	facts := allFacts()
	all := map[string]*fact{}
	for _, f := range facts {
		if f.locate == nil {
			all[f.fn] = f
		}
	}
	for _, f := range facts {
		fd := p.lookupFunc(f.fn)
		if fd == nil || fd.Body == nil {
			problems = append(problems, fmt.Sprintf("%s: Go function %s not found", f.lean, f.fn))
			continue
		}
		t := &ftr{p: p, f: f, all: all}
		f.skipSeen = map[string]bool{}
		body := fd.Body.List
		var expr ast.Expr
		if f.locate != nil {
			var err error
			body, expr, err = f.locate(t, fd)
			if err != nil {
				problems = append(problems, fmt.Sprintf("%s (Go %s): %v", f.lean, f.fn, err))
				continue
			}
		}
		// type every declared parameter from its occurrences in the function
		ast.Inspect(fd, func(n ast.Node) bool {
			if e, ok := n.(ast.Expr); ok {
				if prm := t.param(types.ExprString(unparen(e))); prm != nil && !prm.typed {
					if ty, ok := t.typeOf(unparen(e)); ok {
						prm.typ, prm.typed = ty, true
					}
				}
			}
			return true
		})
		for _, ef := range f.effects {
			for _, h := range ef.havoc {
				if field, src := t.param(h[0]), t.param(h[1]); field != nil && src != nil && field.typed {
					src.typ, src.typed = field.typ, true
				}
			}
		}
		c := fctx{locals: map[string]ftype{}, indent: "  "}
		var text, rtype string
		if expr != nil {
			ty, ok := t.typeOf(unparen(expr))
			if !ok {
				t.fail(expr, "located expression has no scalar type")
			}
			rtype = ty.lean()
			text = c.indent + t.ex(expr, c) + "\n"
		} else {
			t.mayPanic = t.scanPanics(body)
			end := func(c fctx) string { return c.indent + t.fail(fd, "control reaches the end of the function") + "\n" }
			switch {
			case f.stateful:
				end = func(c fctx) string { return t.ret(nil, 0, c) }
				rtype = f.lean + "Out"
			case f.resultVar != "":
				end = func(c fctx) string {
					ty, ok := c.locals[f.resultVar]
					if !ok {
						return c.indent + t.fail(fd, "result variable %s not in scope", f.resultVar) + "\n"
					}
					_ = ty
					return t.ret([]string{leanName(f.resultVar)}, 0, c)
				}
			}
			if f.stateful {
				text = "  let tail : Nat := 0\n"
				if t.captures() {
					text += "  let arg : Int := 0\n"
				}
				if t.captures2() {
					text += "  let arg2 : Int := 0\n"
				}
				if t.capturesAll() {
					text += "  let args : List Int := []\n"
				}
				if len(f.mops) > 0 {
					text += "  let mtrace : List (Nat × List Int) := []\n"
				}
			}
			text += t.stmts(body, c, end)
			if !f.stateful {
				var rts []string
				if f.resultVar != "" {
					// type of the result variable: found from its definition
					rts = append(rts, t.localType(body, f.resultVar))
				} else if fd.Type.Results != nil {
					for _, fl := range fd.Type.Results.List {
						n := len(fl.Names)
						if n == 0 {
							n = 1
						}
						for i := 0; i < n; i++ {
							ty, ok := basicFtype(p.info.Types[fl.Type].Type)
							if !ok {
								t.fail(fl.Type, "result type")
							}
							rts = append(rts, ty.lean())
						}
					}
				}
				if len(rts) == 0 {
					t.fail(fd, "pure fact without a result")
				}
				rtype = strings.Join(rts, " × ")
				if t.mayPanic {
					if len(rts) > 1 {
						rtype = "(" + rtype + ")"
					}
					rtype = "Option " + rtype
				}
			}
		}
		var sig, docp []string
		for _, prm := range f.params {
			if !prm.typed {
				t.fail(fd, "parameter %s (Go %s) does not occur", prm.name, prm.src)
				continue
			}
			if !prm.used && !prm.state {
				t.fail(fd, "parameter %s (Go %s) is never read", prm.name, prm.src)
			}
			sig = append(sig, fmt.Sprintf("(%s : %s)", prm.name, prm.typ.lean()))
			docp = append(docp, fmt.Sprintf("%s = %s", prm.name, prm.src))
		}
		for _, ef := range f.effects {
			if !ef.seen && !f.stop {
				t.fail(fd, "opaque call %s does not occur", ef.src)
			}
		}
		for _, sk := range f.skip {
			if !f.skipSeen[sk] {
				t.fail(fd, "statement %s does not occur", sk)
			}
		}
		for _, mo := range f.mops {
			if !mo.seen {
				t.fail(fd, "mantissa statement %s does not occur", mo.src)
			}
		}
		problems = append(problems, t.problems...)
		if f.stateful {
			fmt.Fprintf(&sb, "structure %sOut where\n  outcome : Nat\n  tail : Nat\n", f.lean)
			if t.captures() {
				sb.WriteString("  arg : Int\n")
			}
			if t.captures2() {
				sb.WriteString("  arg2 : Int\n")
			}
			if t.capturesAll() {
				sb.WriteString("  args : List Int\n")
			}
			if len(f.mops) > 0 {
				sb.WriteString("  mtrace : List (Nat × List Int)\n")
			}
			for _, prm := range f.params {
				if prm.state && prm.typed {
					fmt.Fprintf(&sb, "  %s : %s\n", prm.name, prm.typ.lean())
				}
			}
			if f.alias != "" {
				sb.WriteString("  fresh : Bool\n")
				for _, fld := range f.scratch {
					if prm := t.param(f.aliasOf + "." + fld); prm != nil && prm.typed {
						fmt.Fprintf(&sb, "  %s : %s\n", leanName(f.alias+"."+fld), prm.typ.lean())
					}
				}
			}
			sb.WriteString("  deriving DecidableEq, Repr\n\n")
		}
		pos := p.fset.Position(fd.Pos())
		doc := f.doc
		if doc != "" {
			doc = ": " + doc
		}
		extra := ""
		if len(f.effects) > 0 {
			var es []string
			for _, ef := range f.effects {
				s := fmt.Sprintf("tail %d = %s", ef.code, ef.src)
				if ef.capture > 0 {
					s += fmt.Sprintf(" (arg = its argument %d)", ef.capture)
				}
				if ef.capture2 > 0 {
					s += fmt.Sprintf(" (arg2 = its argument %d)", ef.capture2)
				}
				es = append(es, s)
			}
			extra = "; " + strings.Join(es, ", ")
		}
		if len(f.mops) > 0 {
			var ms []string
			for _, mo := range f.mops {
				ms = append(ms, fmt.Sprintf("%d = `%s`", mo.code, mo.src))
			}
			extra += "; mtrace codes: " + strings.Join(ms, ", ")
		}
		fmt.Fprintf(&sb, "/-- %s (%s)%s. Parameters: %s%s -/\ndef %s %s : %s :=\n%s\n", f.fn, filepath.Base(pos.Filename), doc,
			strings.Join(docp, ", "), extra, f.lean, strings.Join(sig, " "), rtype, text)
	}
	sb.WriteString("end Decimal.Gen.Facts\n")
	sort.Strings(problems)
	return sb.String(), problems
}

// lookupFunc finds a function "f" or a method "T.m" (value or pointer receiver) by name; nil if
// absent or declared more than once.
func (p *pkgInfo) lookupFunc(key string) *ast.FuncDecl {
	var found []*ast.FuncDecl
	for _, f := range p.files {
		for _, d := range f.Decls {
			fd, ok := d.(*ast.FuncDecl)
			if !ok {
				continue
			}
			name := fd.Name.Name
			if fd.Recv != nil && len(fd.Recv.List) == 1 {
				rt := fd.Recv.List[0].Type
				if st, ok := rt.(*ast.StarExpr); ok {
					rt = st.X
				}
				id, ok := rt.(*ast.Ident)
				if !ok {
					continue
				}
				name = id.Name + "." + name
			}
			if name == key {
				found = append(found, fd)
			}
		}
	}
	if len(found) != 1 {
		return nil
	}
	return found[0]
}

// localType finds the scalar type of a local defined in the fragment.
func (t *ftr) localType(body []ast.Stmt, name string) string {
	res := ""
	for _, s := range body {
		ast.Inspect(s, func(n ast.Node) bool {
			if id, ok := n.(*ast.Ident); ok && id.Name == name {
				if obj := t.p.info.Defs[id]; obj != nil {
					if ty, ok := basicFtype(obj.Type()); ok {
						res = ty.lean()
					}
				}
			}
			return true
		})
	}
	if res == "" {
		t.fail(nil, "type of %s unknown", name)
		return "Bool"
	}
	return res
}

// enumOrder returns the names of the constants of the given named type in declaration order,
// requiring that they form one const block.
func (p *pkgInfo) enumOrder(typ string) ([]string, error) {
	var names []string
	blocks := 0
	for _, f := range p.files {
		for _, d := range f.Decls {
			gd, ok := d.(*ast.GenDecl)
			if !ok || gd.Tok != token.CONST {
				continue
			}
			hit := false
			for _, s := range gd.Specs {
				vs := s.(*ast.ValueSpec)
				for _, n := range vs.Names {
					if c, ok := p.info.Defs[n].(*types.Const); ok {
						if nt, ok := c.Type().(*types.Named); ok && nt.Obj().Name() == typ && nt.Obj().Pkg() == p.pkg {
							names = append(names, n.Name)
							hit = true
						}
					}
				}
			}
			if hit {
				blocks++
			}
		}
	}
	if blocks != 1 {
		return nil, fmt.Errorf("constants of type %s: expected one const block, found %d", typ, blocks)
	}
	return names, nil
}
