package main

// genAsm translates dec_arith_amd64.s into Lean (Gen/Asm.lean). Placeholder until the
// assembly translator lands: returns "" (no file written).
func genAsm(repo string) (string, error) { return "", nil }
