package main

// genAsm translates dec_arith_amd64.s into Lean (Gen/Asm.lean); genAsmBig translates the routines
// of arith_amd64.s that the library uses (`divWVW`) into Gen/AsmBig.lean, same scheme.
//
// Scheme (see ASM_NOTES.md): the file is parsed line by line (Plan-9 amd64 syntax, the subset
// listed in `semantics` below), every TEXT routine is split into basic blocks, and every basic
// block becomes ONE Lean function `blk_<routine>_<label> : St → St × Next Lbl` written as an SSA
// let-chain: one `let` per instruction result (plus one per live flag), registers are Nat < 2^64
// with explicit `% W`, CF is a Nat (0/1), ZF/SF/OF are Bool, memory is threaded through
// `Mem.rd`/`Mem.wr` in program order with the symbolic byte address of every access.
// The x86 meaning of each mnemonic is the hand-written, trusted part of this file.
//
// Anything outside the subset is an error naming routine and line; nothing is skipped silently.

import (
	"fmt"
	"math/big"
	"os"
	"path/filepath"
	"sort"
	"strconv"
	"strings"
)

type opKind int

const (
	opImm opKind = iota
	opReg
	opFrame // name+off(FP)
	opMem   // disp(base)(index*scale)
	opSym   // name(SB)
	opLabel
)

type operand struct {
	kind  opKind
	imm   *big.Int // opImm, already reduced mod 2^64
	reg   string   // opReg
	off   int64    // opFrame offset / opMem displacement
	base  string   // opMem ("" = none)
	index string   // opMem ("" = none)
	scale int64
	name  string // opFrame / opSym / opLabel
	text  string
}

type instr struct {
	line int
	mn   string
	ops  []operand
	text string
}

type asmBlock struct {
	name   string // label part: entry, U1, U1_1 ...
	instrs []instr
	// terminator
	term    string // "cond", "jmp", "ret", "fall"
	cc      string // condition mnemonic for "cond"
	target  string // full Lbl name of jump target
	fall    string // full Lbl name of fallthrough successor
	termIns *instr
}

type routine struct {
	name   string
	line   int
	blocks []*asmBlock
}

var regNames = map[string]string{
	"AX": "ax", "BX": "bx", "CX": "cx", "DX": "dx", "SI": "si", "DI": "di", "BP": "bp",
	"R8": "r8", "R9": "r9", "R10": "r10", "R11": "r11", "R12": "r12", "R13": "r13", "R14": "r14", "R15": "r15",
}

var regOrder = []string{"ax", "bx", "cx", "dx", "si", "di", "bp", "r8", "r9", "r10", "r11", "r12", "r13", "r14", "r15"}

var flagOrder = []string{"cf", "zf", "sf", "of"}

// condition codes: Lean Bool expression over the flag expressions, and the flags read
var condCodes = map[string]struct {
	expr  func(f map[string]string) string
	reads []string
}{
	"JL":  {func(f map[string]string) string { return fmt.Sprintf("(%s != %s)", f["sf"], f["of"]) }, []string{"sf", "of"}},
	"JLT": {func(f map[string]string) string { return fmt.Sprintf("(%s != %s)", f["sf"], f["of"]) }, []string{"sf", "of"}},
	"JGE": {func(f map[string]string) string { return fmt.Sprintf("(%s == %s)", f["sf"], f["of"]) }, []string{"sf", "of"}},
	"JLE": {func(f map[string]string) string { return fmt.Sprintf("(%s || (%s != %s))", f["zf"], f["sf"], f["of"]) }, []string{"zf", "sf", "of"}},
	"JG":  {func(f map[string]string) string { return fmt.Sprintf("(!%s && (%s == %s))", f["zf"], f["sf"], f["of"]) }, []string{"zf", "sf", "of"}},
	"JGT": {func(f map[string]string) string { return fmt.Sprintf("(!%s && (%s == %s))", f["zf"], f["sf"], f["of"]) }, []string{"zf", "sf", "of"}},
	"JEQ": {func(f map[string]string) string { return f["zf"] }, []string{"zf"}},
	"JNE": {func(f map[string]string) string { return fmt.Sprintf("(!%s)", f["zf"]) }, []string{"zf"}},
	"JCC": {func(f map[string]string) string { return fmt.Sprintf("decide (%s = 0)", f["cf"]) }, []string{"cf"}},
	"JCS": {func(f map[string]string) string { return fmt.Sprintf("decide (%s = 1)", f["cf"]) }, []string{"cf"}},
	"JHI": {func(f map[string]string) string { return fmt.Sprintf("(decide (%s = 0) && !%s)", f["cf"], f["zf"]) }, []string{"cf", "zf"}},
	"JLS": {func(f map[string]string) string { return fmt.Sprintf("(decide (%s = 1) || %s)", f["cf"], f["zf"]) }, []string{"cf", "zf"}},
	"JMI": {func(f map[string]string) string { return f["sf"] }, []string{"sf"}},
	"JPL": {func(f map[string]string) string { return fmt.Sprintf("(!%s)", f["sf"]) }, []string{"sf"}},
}

// flag effect of each mnemonic: which flags it reads, which it defines, which it leaves undefined.
type flagFx struct {
	reads, defs, undef []string
}

var all4 = []string{"cf", "zf", "sf", "of"}

var semantics = map[string]flagFx{
	"MOVQ":    {},
	"MOVWLZX": {},
	"LEAQ":    {},
	"NOTQ":    {},
	"ADDQ":    {defs: all4},
	"ADCQ":    {reads: []string{"cf"}, defs: all4},
	"SUBQ":    {defs: all4},
	"SBBQ":    {reads: []string{"cf"}, defs: all4},
	"CMPQ":    {defs: all4},
	"NEGQ":    {defs: all4},
	"ANDQ":    {defs: all4},
	"ORQ":     {defs: all4},
	"XORQ":    {defs: all4},
	"TESTQ":   {defs: all4},
	"INCQ":    {defs: []string{"zf", "sf", "of"}},
	"DECQ":    {defs: []string{"zf", "sf", "of"}},
	"MULQ":    {defs: []string{"cf", "of"}, undef: []string{"zf", "sf"}},
	"DIVQ":    {undef: all4},
	// shifts and rotates: with a zero count the flags are unchanged, with a non-zero count some
	// are undefined; the translator treats all four as undefined afterwards (reading one is an error).
	"SHRQ": {undef: all4},
	"SHLQ": {undef: all4},
	"SARQ": {undef: all4},
	"RORW": {undef: all4},
}

type asmErr struct {
	routine string
	line    int
	msg     string
}

func (e *asmErr) Error() string {
	return fmt.Sprintf("untranslatable: routine %s line %d: %s", e.routine, e.line, e.msg)
}

var two64 = new(big.Int).Lsh(big.NewInt(1), 64)

func parseImm(s string, defines map[string]string) (*big.Int, bool) {
	s = strings.TrimSpace(s)
	neg := false
	if strings.HasPrefix(s, "-") {
		neg = true
		s = s[1:]
	}
	if v, ok := defines[s]; ok {
		s = v
	}
	z := new(big.Int)
	var ok bool
	if strings.HasPrefix(s, "0x") || strings.HasPrefix(s, "0X") {
		_, ok = z.SetString(s[2:], 16)
	} else {
		_, ok = z.SetString(s, 10)
	}
	if !ok {
		return nil, false
	}
	if neg {
		z.Neg(z)
	}
	z.Mod(z, two64)
	return z, true
}

func parseOperand(s string, defines map[string]string, isJump bool) (operand, error) {
	s = strings.TrimSpace(s)
	o := operand{text: s}
	if s == "" {
		return o, fmt.Errorf("empty operand")
	}
	if strings.HasPrefix(s, "$") {
		v, ok := parseImm(s[1:], defines)
		if !ok {
			return o, fmt.Errorf("bad immediate %q", s)
		}
		o.kind, o.imm = opImm, v
		return o, nil
	}
	if r, ok := regNames[s]; ok {
		o.kind, o.reg = opReg, r
		return o, nil
	}
	if strings.HasSuffix(s, "(SB)") {
		o.kind = opSym
		o.name = strings.TrimPrefix(strings.TrimSuffix(s, "(SB)"), "·")
		if strings.ContainsAny(o.name, "+-<>") {
			return o, fmt.Errorf("unsupported symbol reference %q", s)
		}
		return o, nil
	}
	if strings.HasSuffix(s, "(FP)") {
		body := strings.TrimSuffix(s, "(FP)")
		i := strings.LastIndexAny(body, "+-")
		if i <= 0 {
			return o, fmt.Errorf("bad FP operand %q", s)
		}
		off, err := strconv.ParseInt(body[i:], 10, 64)
		if err != nil || off < 0 || off%8 != 0 {
			return o, fmt.Errorf("bad FP offset in %q", s)
		}
		o.kind, o.name, o.off = opFrame, body[:i], off
		return o, nil
	}
	if i := strings.Index(s, "("); i >= 0 {
		// disp(base)(index*scale) | disp(base) | (base)(index*scale) | (base)
		disp := strings.TrimSpace(s[:i])
		if disp != "" {
			v, err := strconv.ParseInt(disp, 0, 64)
			if err != nil {
				if d, ok := defines[disp]; ok {
					v, err = strconv.ParseInt(d, 0, 64)
				}
				if err != nil {
					return o, fmt.Errorf("bad displacement in %q", s)
				}
			}
			o.off = v
		}
		rest := s[i:]
		var parts []string
		for rest != "" {
			if rest[0] != '(' {
				return o, fmt.Errorf("bad memory operand %q", s)
			}
			j := strings.Index(rest, ")")
			if j < 0 {
				return o, fmt.Errorf("bad memory operand %q", s)
			}
			parts = append(parts, rest[1:j])
			rest = rest[j+1:]
		}
		if len(parts) < 1 || len(parts) > 2 {
			return o, fmt.Errorf("bad memory operand %q", s)
		}
		b, ok := regNames[strings.TrimSpace(parts[0])]
		if !ok {
			return o, fmt.Errorf("unsupported base register in %q", s)
		}
		o.kind, o.base = opMem, b
		if len(parts) == 2 {
			is := strings.Split(parts[1], "*")
			if len(is) != 2 {
				return o, fmt.Errorf("bad index in %q", s)
			}
			ix, ok := regNames[strings.TrimSpace(is[0])]
			if !ok {
				return o, fmt.Errorf("unsupported index register in %q", s)
			}
			sc, err := strconv.ParseInt(strings.TrimSpace(is[1]), 10, 64)
			if err != nil || (sc != 1 && sc != 2 && sc != 4 && sc != 8) {
				return o, fmt.Errorf("bad scale in %q", s)
			}
			o.index, o.scale = ix, sc
		}
		return o, nil
	}
	if isJump {
		o.kind, o.name = opLabel, s
		return o, nil
	}
	return o, fmt.Errorf("unsupported operand %q", s)
}

func isIdent(s string) bool {
	if s == "" {
		return false
	}
	for i, c := range s {
		if !(c == '_' || (c >= 'A' && c <= 'Z') || (c >= 'a' && c <= 'z') || (i > 0 && c >= '0' && c <= '9')) {
			return false
		}
	}
	return true
}

// parseAsm reads the file into routines of basic blocks. With only != nil, the TEXT routines that
// are not in the set are passed over (their names are returned in skipped, nothing of their bodies
// is looked at, and their mnemonics are not recorded in used).
func parseAsm(src string, only map[string]bool) ([]*routine, map[string]bool, []string, error) {
	defines := map[string]string{}
	used := map[string]bool{}
	var skipped []string
	skipping := false
	type item struct {
		label string
		ins   *instr
	}
	var routines []*routine
	var cur *routine
	var items []item
	flush := func() error {
		if cur == nil {
			return nil
		}
		// split items into blocks
		labelOf := "entry"
		sub := 0
		var blk *asmBlock
		labels := map[string]bool{}
		newBlock := func(name string) {
			blk = &asmBlock{name: name}
			cur.blocks = append(cur.blocks, blk)
		}
		newBlock("entry")
		ended := false // previous block ended with a terminator; next instruction starts a new block
		for _, it := range items {
			if it.label != "" {
				if labels[it.label] {
					return &asmErr{cur.name, 0, "duplicate label " + it.label}
				}
				labels[it.label] = true
				if it.label == "entry" {
					return &asmErr{cur.name, 0, "label named entry"}
				}
				if !ended && blk.term == "" {
					blk.term = "fall"
				}
				labelOf, sub = it.label, 0
				newBlock(it.label)
				ended = false
				continue
			}
			in := it.ins
			if ended {
				if blk.term == "jmp" || blk.term == "ret" {
					return &asmErr{cur.name, in.line, "unreachable code after " + blk.term}
				}
				sub++
				newBlock(fmt.Sprintf("%s_%d", labelOf, sub))
				ended = false
			}
			switch {
			case in.mn == "RET":
				if len(in.ops) != 0 {
					return &asmErr{cur.name, in.line, "RET with operands"}
				}
				blk.term, blk.termIns, ended = "ret", in, true
			case in.mn == "JMP":
				if len(in.ops) != 1 || (in.ops[0].kind != opLabel && in.ops[0].kind != opSym) {
					return &asmErr{cur.name, in.line, "unsupported JMP operand"}
				}
				blk.term, blk.termIns, ended = "jmp", in, true
			case strings.HasPrefix(in.mn, "J"):
				if _, ok := condCodes[in.mn]; !ok {
					return &asmErr{cur.name, in.line, "unsupported mnemonic " + in.mn}
				}
				if len(in.ops) != 1 || in.ops[0].kind != opLabel {
					return &asmErr{cur.name, in.line, "conditional jump needs a label"}
				}
				blk.term, blk.cc, blk.termIns, ended = "cond", in.mn, in, true
			default:
				if _, ok := semantics[in.mn]; !ok {
					return &asmErr{cur.name, in.line, "unsupported mnemonic " + in.mn}
				}
				blk.instrs = append(blk.instrs, *in)
			}
		}
		last := cur.blocks[len(cur.blocks)-1]
		if last.term == "" || last.term == "fall" || last.term == "cond" {
			return &asmErr{cur.name, cur.line, "control falls off the end of the routine"}
		}
		// resolve successors
		for i, b := range cur.blocks {
			next := ""
			if i+1 < len(cur.blocks) {
				next = cur.name + "_" + cur.blocks[i+1].name
			}
			switch b.term {
			case "fall":
				b.fall = next
			case "cond":
				t := b.termIns.ops[0].name
				if !labels[t] {
					return &asmErr{cur.name, b.termIns.line, "jump to unknown label " + t}
				}
				b.target, b.fall = cur.name+"_"+t, next
			case "jmp":
				o := b.termIns.ops[0]
				if o.kind == opLabel {
					if !labels[o.name] {
						return &asmErr{cur.name, b.termIns.line, "jump to unknown label " + o.name}
					}
					b.target = cur.name + "_" + o.name
				} else {
					b.target = "@" + o.name // tail call, resolved later
				}
			}
		}
		routines = append(routines, cur)
		cur, items = nil, nil
		return nil
	}

	for ln, raw := range strings.Split(src, "\n") {
		line := raw
		if i := strings.Index(line, "//"); i >= 0 {
			line = line[:i]
		}
		line = strings.TrimSpace(line)
		if line == "" {
			continue
		}
		lineNo := ln + 1
		if strings.HasPrefix(line, "#") {
			f := strings.Fields(line)
			switch f[0] {
			case "#include":
			case "#define":
				if len(f) != 3 {
					return nil, nil, nil, &asmErr{"-", lineNo, "unsupported #define"}
				}
				defines[f[1]] = f[2]
			default:
				return nil, nil, nil, &asmErr{"-", lineNo, "unsupported preprocessor line " + f[0]}
			}
			continue
		}
		if strings.HasPrefix(line, "TEXT") {
			if err := flush(); err != nil {
				return nil, nil, nil, err
			}
			f := strings.Split(strings.TrimSpace(line[4:]), ",")
			sym := strings.TrimSpace(f[0])
			if !strings.HasSuffix(sym, "(SB)") {
				return nil, nil, nil, &asmErr{"-", lineNo, "bad TEXT line"}
			}
			name := strings.TrimPrefix(strings.TrimSuffix(sym, "(SB)"), "·")
			if !isIdent(name) {
				return nil, nil, nil, &asmErr{name, lineNo, "bad routine name"}
			}
			if only != nil && !only[name] {
				skipped = append(skipped, name)
				skipping = true
				continue
			}
			skipping = false
			// frame size must be $0 (no locals): SP-relative addressing is not modelled
			fs := strings.TrimSpace(f[len(f)-1])
			if !(fs == "$0" || strings.HasPrefix(fs, "$0-")) {
				return nil, nil, nil, &asmErr{name, lineNo, "non-zero frame size " + fs}
			}
			cur = &routine{name: name, line: lineNo}
			used["TEXT"] = true
			continue
		}
		if skipping {
			continue
		}
		if cur == nil {
			return nil, nil, nil, &asmErr{"-", lineNo, "instruction outside TEXT: " + line}
		}
		// label?
		if i := strings.Index(line, ":"); i > 0 && isIdent(strings.TrimSpace(line[:i])) {
			items = append(items, item{label: strings.TrimSpace(line[:i])})
			line = strings.TrimSpace(line[i+1:])
			if line == "" {
				continue
			}
		}
		mn := line
		rest := ""
		if i := strings.IndexAny(line, " \t"); i >= 0 {
			mn, rest = line[:i], strings.TrimSpace(line[i:])
		}
		in := &instr{line: lineNo, mn: mn, text: strings.Join(strings.Fields(line), " ")}
		used[mn] = true
		if rest != "" {
			for _, os := range strings.Split(rest, ",") {
				o, err := parseOperand(os, defines, strings.HasPrefix(mn, "J"))
				if err != nil {
					return nil, nil, nil, &asmErr{cur.name, lineNo, err.Error()}
				}
				in.ops = append(in.ops, o)
			}
		}
		items = append(items, item{ins: in})
	}
	if err := flush(); err != nil {
		return nil, nil, nil, err
	}
	// resolve tail calls
	byName := map[string]*routine{}
	for _, r := range routines {
		if byName[r.name] != nil {
			return nil, nil, nil, &asmErr{r.name, r.line, "duplicate routine"}
		}
		byName[r.name] = r
	}
	for _, r := range routines {
		for _, b := range r.blocks {
			if strings.HasPrefix(b.target, "@") {
				t := byName[b.target[1:]]
				if t == nil {
					return nil, nil, nil, &asmErr{r.name, b.termIns.line, "tail call to unknown routine " + b.target[1:]}
				}
				b.target = t.name + "_entry"
			}
		}
	}
	return routines, used, skipped, nil
}

// ---------------------------------------------------------------------------------------------
// flag analyses

func (b *asmBlock) succs() []string {
	switch b.term {
	case "fall":
		return []string{b.fall}
	case "cond":
		return []string{b.target, b.fall}
	case "jmp":
		return []string{b.target}
	}
	return nil
}

// checkFlags: forward may-be-undefined analysis over the whole file. A flag is undefined at a
// routine entry and after an instruction that leaves it undefined; reading such a flag is an error.
func checkFlags(routines []*routine) error {
	type key = string
	undefIn := map[key]map[string]bool{}
	blocks := map[key]*asmBlock{}
	owner := map[key]*routine{}
	var order []key
	for _, r := range routines {
		for _, b := range r.blocks {
			k := r.name + "_" + b.name
			blocks[k], owner[k] = b, r
			order = append(order, k)
			undefIn[k] = map[string]bool{}
		}
		for _, f := range all4 {
			undefIn[r.name+"_entry"][f] = true
		}
	}
	transfer := func(k key, report bool) (map[string]bool, error) {
		u := map[string]bool{}
		for f := range undefIn[k] {
			u[f] = true
		}
		b := blocks[k]
		for _, in := range b.instrs {
			fx := semantics[in.mn]
			for _, f := range fx.reads {
				if u[f] && report {
					return nil, &asmErr{owner[k].name, in.line, in.mn + " reads flag " + f + " which may be undefined here"}
				}
			}
			for _, f := range fx.defs {
				delete(u, f)
			}
			for _, f := range fx.undef {
				u[f] = true
			}
		}
		if b.term == "cond" && report {
			for _, f := range condCodes[b.cc].reads {
				if u[f] {
					return nil, &asmErr{owner[k].name, b.termIns.line, b.cc + " reads flag " + f + " which may be undefined here"}
				}
			}
		}
		return u, nil
	}
	for changed := true; changed; {
		changed = false
		for _, k := range order {
			out, _ := transfer(k, false)
			for _, s := range blocks[k].succs() {
				for f := range out {
					if !undefIn[s][f] {
						undefIn[s][f] = true
						changed = true
					}
				}
			}
		}
	}
	for _, k := range order {
		if _, err := transfer(k, true); err != nil {
			return err
		}
	}
	return nil
}

// ---------------------------------------------------------------------------------------------
// emission

type emitter struct {
	r       *routine
	b       *asmBlock
	sb      *strings.Builder
	cur     map[string]string // register / flag / mem / frame / trap -> current Lean expression
	ver     map[string]int
	changed map[string]bool
	undef   map[string]bool // flags currently undefined (block-local view)
	lit     map[string]bool // SSA names bound to a numeric literal (MOVQ $imm)
}

// isLit: the expression is a numeric literal or an SSA name bound to one.
func (e *emitter) isLit(x string) bool {
	if e.lit[x] {
		return true
	}
	if x == "" {
		return false
	}
	for _, c := range x {
		if c < '0' || c > '9' {
			return false
		}
	}
	return true
}

// sum writes l + r with a literal operand first. NOTE on term order: Lean's kernel evaluates
// `x + BIG` and `x - BIG` on a symbolic `x` by peeling BIG successors when a definitional-equality
// check happens to look inside (it does, e.g. through structure eta on the state), which does not
// terminate in practice; `BIG + x` and `W - BIG + x` are stuck immediately. So a literal is never
// the right operand of `+` or `-` next to a symbolic left operand.
func (e *emitter) sum(l, r string) string {
	if e.isLit(r) && !e.isLit(l) {
		l, r = r, l
	}
	return l + " + " + r
}

// diff writes (d - a) mod 2^64 before the final `% W`.
func (e *emitter) diff(d, a string) string {
	if e.isLit(a) {
		return fmt.Sprintf("W - %s + %s", a, d)
	}
	return fmt.Sprintf("W + %s - %s", d, a)
}

func (e *emitter) fresh(base string) string {
	e.ver[base]++
	return fmt.Sprintf("%s_%d", base, e.ver[base])
}

func (e *emitter) let(name, expr string) {
	fmt.Fprintf(e.sb, "  let %s := %s\n", name, expr)
}

func (e *emitter) set(what, expr string) {
	n := e.fresh(what)
	e.let(n, expr)
	if e.isLit(expr) {
		e.lit[n] = true
	}
	e.cur[what] = n
	e.changed[what] = true
}

func natLit(v *big.Int) string { return v.String() }

func (e *emitter) addr(o operand, forAccess bool, in *instr) (string, error) {
	if forAccess {
		if o.off%8 != 0 || (o.index != "" && o.scale != 8) {
			return "", &asmErr{e.r.name, in.line, "memory access that is not word aligned by construction: " + o.text}
		}
	}
	// a negative displacement is written first (see sum)
	var parts []string
	if o.off < 0 {
		parts = append(parts, fmt.Sprintf("W - %d", -o.off))
	}
	parts = append(parts, e.cur[o.base])
	if o.index != "" {
		parts = append(parts, fmt.Sprintf("%d * %s", o.scale, e.cur[o.index]))
	}
	if o.off > 0 {
		parts = append(parts, fmt.Sprintf("%d", o.off))
	}
	return "((" + strings.Join(parts, " + ") + ") % W)", nil
}

// read returns a Lean expression (atom) for the value of a source operand; memory operands are
// loaded into a fresh `m_k` first unless direct is set (then the load expression itself is returned).
func (e *emitter) read(o operand, in *instr, direct bool) (string, error) {
	switch o.kind {
	case opImm:
		return natLit(o.imm), nil
	case opReg:
		return e.cur[o.reg], nil
	case opFrame:
		x := fmt.Sprintf("%s.rd %d", e.cur["frame"], o.off)
		if direct {
			return x, nil
		}
		n := e.fresh("m")
		e.let(n, x)
		return n, nil
	case opMem:
		a, err := e.addr(o, true, in)
		if err != nil {
			return "", err
		}
		x := fmt.Sprintf("%s.rd %s", e.cur["mem"], a)
		if direct {
			return x, nil
		}
		n := e.fresh("m")
		e.let(n, x)
		return n, nil
	}
	return "", &asmErr{e.r.name, in.line, "unsupported source operand " + o.text}
}

func (e *emitter) write(o operand, expr string, in *instr) error {
	switch o.kind {
	case opReg:
		e.set(o.reg, expr)
		return nil
	case opFrame:
		v := expr
		e.set("frame", fmt.Sprintf("%s.wr %d (%s)", e.cur["frame"], o.off, v))
		return nil
	case opMem:
		a, err := e.addr(o, true, in)
		if err != nil {
			return err
		}
		e.set("mem", fmt.Sprintf("%s.wr %s (%s)", e.cur["mem"], a, expr))
		return nil
	}
	return &asmErr{e.r.name, in.line, "unsupported destination operand " + o.text}
}

// setFlags emits the lets for the live flags. exprs maps flag -> expression ("" = keep).
func (e *emitter) setFlags(live map[string]bool, exprs map[string]string) {
	for _, f := range flagOrder {
		x, ok := exprs[f]
		if !ok {
			continue
		}
		delete(e.undef, f)
		if live[f] {
			e.set(f, x)
		} else {
			// dead: never read before being overwritten; no let emitted
			e.changed[f] = true
			e.cur[f] = "DEAD_" + f
		}
	}
}

func (e *emitter) markUndef(fs []string) {
	for _, f := range fs {
		e.undef[f] = true
		e.changed[f] = true
		if f == "cf" {
			e.cur[f] = "0"
		} else {
			e.cur[f] = "false"
		}
	}
}

func zsf(res string) map[string]string {
	return map[string]string{"zf": fmt.Sprintf("decide (%s = 0)", res), "sf": fmt.Sprintf("msb %s", res)}
}

func (e *emitter) instr(in *instr, live map[string]bool) error {
	bad := func(msg string) error { return &asmErr{e.r.name, in.line, msg + ": " + in.text} }
	fmt.Fprintf(e.sb, "  -- %d: %s\n", in.line, in.text)
	nops := func(n int) error {
		if len(in.ops) != n {
			return bad(fmt.Sprintf("expected %d operands", n))
		}
		return nil
	}
	switch in.mn {
	case "MOVQ":
		if err := nops(2); err != nil {
			return err
		}
		src, dst := in.ops[0], in.ops[1]
		if dst.kind != opReg && src.kind != opReg && src.kind != opImm {
			return bad("memory to memory move")
		}
		v, err := e.read(src, in, true)
		if err != nil {
			return err
		}
		return e.write(dst, v, in)
	case "MOVWLZX":
		if err := nops(2); err != nil {
			return err
		}
		if in.ops[1].kind != opReg {
			return bad("destination must be a register")
		}
		v, err := e.read(in.ops[0], in, true)
		if err != nil {
			return err
		}
		return e.write(in.ops[1], fmt.Sprintf("(%s) %% 65536", v), in)
	case "LEAQ":
		if err := nops(2); err != nil {
			return err
		}
		src, dst := in.ops[0], in.ops[1]
		if dst.kind != opReg {
			return bad("destination must be a register")
		}
		switch src.kind {
		case opSym:
			return e.write(dst, fmt.Sprintf("s.sym %q %% W", src.name), in)
		case opMem:
			a, err := e.addr(src, false, in)
			if err != nil {
				return err
			}
			return e.write(dst, a, in)
		}
		return bad("unsupported LEAQ source")
	case "NOTQ":
		if err := nops(1); err != nil {
			return err
		}
		d, err := e.read(in.ops[0], in, false)
		if err != nil {
			return err
		}
		return e.write(in.ops[0], fmt.Sprintf("W - 1 - %s", d), in)
	case "NEGQ":
		if err := nops(1); err != nil {
			return err
		}
		d, err := e.read(in.ops[0], in, false)
		if err != nil {
			return err
		}
		if err := e.write(in.ops[0], fmt.Sprintf("(W - %s) %% W", d), in); err != nil {
			return err
		}
		res := e.lastWritten(in.ops[0])
		fl := zsf(res)
		fl["cf"] = fmt.Sprintf("if %s = 0 then 0 else 1", d)
		fl["of"] = fmt.Sprintf("decide (%s = 9223372036854775808)", d)
		e.setFlags(live, fl)
		return nil
	case "INCQ", "DECQ":
		if err := nops(1); err != nil {
			return err
		}
		d, err := e.read(in.ops[0], in, false)
		if err != nil {
			return err
		}
		var x, of string
		if in.mn == "INCQ" {
			x = fmt.Sprintf("(%s + 1) %% W", d)
		} else {
			x = fmt.Sprintf("(W + %s - 1) %% W", d)
		}
		if err := e.write(in.ops[0], x, in); err != nil {
			return err
		}
		res := e.lastWritten(in.ops[0])
		if in.mn == "INCQ" {
			of = fmt.Sprintf("addOF %s 1 %s", d, res)
		} else {
			of = fmt.Sprintf("subOF %s 1 %s", d, res)
		}
		fl := zsf(res)
		fl["of"] = of
		e.setFlags(live, fl)
		return nil
	case "ADDQ", "ADCQ", "SUBQ", "SBBQ":
		if err := nops(2); err != nil {
			return err
		}
		a, err := e.read(in.ops[0], in, false)
		if err != nil {
			return err
		}
		d, err := e.read(in.ops[1], in, false)
		if err != nil {
			return err
		}
		var x, cf, of string
		c := e.cur["cf"]
		switch in.mn {
		case "ADDQ":
			x = fmt.Sprintf("(%s) %% W", e.sum(d, a))
			cf = fmt.Sprintf("(%s) / W", e.sum(d, a))
		case "ADCQ":
			x = fmt.Sprintf("(%s + %s) %% W", e.sum(d, a), c)
			cf = fmt.Sprintf("(%s + %s) / W", e.sum(d, a), c)
		case "SUBQ":
			x = fmt.Sprintf("(%s) %% W", e.diff(d, a))
			cf = fmt.Sprintf("if %s < %s then 1 else 0", d, a)
		case "SBBQ":
			x = fmt.Sprintf("(%s - %s) %% W", e.diff(d, a), c)
			cf = fmt.Sprintf("if %s < %s then 1 else 0", d, e.sum(a, c))
		}
		if err := e.write(in.ops[1], x, in); err != nil {
			return err
		}
		res := e.lastWritten(in.ops[1])
		if in.mn == "ADDQ" || in.mn == "ADCQ" {
			of = fmt.Sprintf("addOF %s %s %s", d, a, res)
		} else {
			of = fmt.Sprintf("subOF %s %s %s", d, a, res)
		}
		fl := zsf(res)
		fl["cf"], fl["of"] = cf, of
		e.setFlags(live, fl)
		return nil
	case "CMPQ":
		// Plan-9 operand order: CMPQ a, b sets the flags of a - b
		if err := nops(2); err != nil {
			return err
		}
		a, err := e.read(in.ops[0], in, false)
		if err != nil {
			return err
		}
		b, err := e.read(in.ops[1], in, false)
		if err != nil {
			return err
		}
		t := e.fresh("t")
		e.let(t, fmt.Sprintf("(%s) %% W", e.diff(a, b)))
		fl := zsf(t)
		fl["cf"] = fmt.Sprintf("if %s < %s then 1 else 0", a, b)
		fl["of"] = fmt.Sprintf("subOF %s %s %s", a, b, t)
		e.setFlags(live, fl)
		return nil
	case "ANDQ", "ORQ", "XORQ", "TESTQ":
		if err := nops(2); err != nil {
			return err
		}
		a, err := e.read(in.ops[0], in, false)
		if err != nil {
			return err
		}
		d, err := e.read(in.ops[1], in, false)
		if err != nil {
			return err
		}
		fn := map[string]string{"ANDQ": "Nat.land", "TESTQ": "Nat.land", "ORQ": "Nat.lor", "XORQ": "Nat.xor"}[in.mn]
		x := fmt.Sprintf("%s %s %s", fn, d, a)
		var res string
		if in.mn == "TESTQ" {
			res = e.fresh("t")
			e.let(res, x)
		} else {
			if err := e.write(in.ops[1], x, in); err != nil {
				return err
			}
			res = e.lastWritten(in.ops[1])
		}
		fl := zsf(res)
		fl["cf"], fl["of"] = "0", "false"
		e.setFlags(live, fl)
		return nil
	case "MULQ":
		// DX:AX = AX * src
		if err := nops(1); err != nil {
			return err
		}
		a, err := e.read(in.ops[0], in, false)
		if err != nil {
			return err
		}
		p := e.fresh("p")
		l, r := e.cur["ax"], a
		if e.isLit(r) && !e.isLit(l) {
			l, r = r, l // literal first, see sum
		}
		e.let(p, fmt.Sprintf("%s * %s", l, r))
		e.set("ax", fmt.Sprintf("%s %% W", p))
		e.set("dx", fmt.Sprintf("%s / W", p))
		hi := e.cur["dx"]
		e.setFlags(live, map[string]string{"cf": fmt.Sprintf("if %s = 0 then 0 else 1", hi), "of": fmt.Sprintf("decide (%s ≠ 0)", hi)})
		e.markUndef([]string{"zf", "sf"})
		return nil
	case "DIVQ":
		// AX, DX = (DX:AX) / src, (DX:AX) % src; #DE if src = 0 or the quotient does not fit
		if err := nops(1); err != nil {
			return err
		}
		a, err := e.read(in.ops[0], in, false)
		if err != nil {
			return err
		}
		n := e.fresh("n")
		e.let(n, fmt.Sprintf("W * %s + %s", e.cur["dx"], e.cur["ax"]))
		e.set("trap", fmt.Sprintf("%s || decide (%s = 0 ∨ %s ≥ %s)", e.cur["trap"], a, e.cur["dx"], a))
		e.set("ax", fmt.Sprintf("(%s / %s) %% W", n, a))
		e.set("dx", fmt.Sprintf("%s %% %s", n, a))
		e.markUndef(all4)
		return nil
	case "SHRQ", "SHLQ", "SARQ":
		if err := nops(2); err != nil {
			return err
		}
		cnt, dst := in.ops[0], in.ops[1]
		d, err := e.read(dst, in, false)
		if err != nil {
			return err
		}
		var c string
		var k int64 = -1
		switch {
		case cnt.kind == opImm:
			k = new(big.Int).Mod(cnt.imm, big.NewInt(64)).Int64()
			if cnt.imm.Cmp(big.NewInt(64)) >= 0 {
				return bad("shift count out of range")
			}
			c = fmt.Sprintf("%d", k)
		case cnt.kind == opReg && cnt.reg == "cx":
			c = fmt.Sprintf("(%s %% 64)", e.cur["cx"])
		default:
			return bad("shift count must be an immediate or CX")
		}
		var x string
		switch in.mn {
		case "SHRQ":
			x = fmt.Sprintf("%s / 2 ^ %s", d, c)
		case "SHLQ":
			x = fmt.Sprintf("(2 ^ %s * %s) %% W", c, d)
		case "SARQ":
			switch {
			case k == 63:
				x = fmt.Sprintf("Decimal.Gen.signMask %s", d)
			case k >= 0:
				fill := new(big.Int).Sub(two64, new(big.Int).Lsh(big.NewInt(1), uint(64-k)))
				x = fmt.Sprintf("%s / 2 ^ %d + (if %s ≥ 9223372036854775808 then %s else 0)", d, k, d, fill)
			default:
				return bad("SARQ by CX is not supported")
			}
		}
		if err := e.write(dst, x, in); err != nil {
			return err
		}
		e.markUndef(all4)
		return nil
	case "RORW":
		if err := nops(2); err != nil {
			return err
		}
		cnt, dst := in.ops[0], in.ops[1]
		if cnt.kind != opImm || dst.kind != opReg {
			return bad("RORW needs an immediate count and a register")
		}
		k := new(big.Int).Mod(cnt.imm, big.NewInt(16)).Int64()
		if cnt.imm.Cmp(big.NewInt(16)) >= 0 || k == 0 {
			return bad("rotate count out of range")
		}
		d := e.cur[dst.reg]
		lo := e.fresh("t")
		e.let(lo, fmt.Sprintf("%s %% 65536", d))
		x := fmt.Sprintf("65536 * (%s / 65536) + (%s / %d + %d * (%s %% %d))", d, lo, int64(1)<<uint(k), int64(1)<<uint(16-k), lo, int64(1)<<uint(k))
		if err := e.write(dst, x, in); err != nil {
			return err
		}
		e.markUndef(all4)
		return nil
	}
	return bad("unsupported mnemonic " + in.mn)
}

func (e *emitter) lastWritten(o operand) string {
	switch o.kind {
	case opReg:
		return e.cur[o.reg]
	}
	// memory / frame destination of a read-modify-write: recompute is not needed by this file
	return "0"
}

func (e *emitter) block(full string) error {
	b := e.b
	// backward liveness of flags inside the block; at the end of the block all four are live
	// (they are written back into the state).
	n := len(b.instrs)
	liveAfter := make([]map[string]bool, n)
	live := map[string]bool{"cf": true, "zf": true, "sf": true, "of": true}
	if b.term == "cond" {
		for _, f := range condCodes[b.cc].reads {
			live[f] = true
		}
	}
	for i := n - 1; i >= 0; i-- {
		liveAfter[i] = map[string]bool{}
		for f := range live {
			liveAfter[i][f] = true
		}
		fx := semantics[b.instrs[i].mn]
		for _, f := range fx.defs {
			delete(live, f)
		}
		for _, f := range fx.undef {
			delete(live, f)
		}
		for _, f := range fx.reads {
			live[f] = true
		}
	}
	for i := range b.instrs {
		in := &b.instrs[i]
		// read-modify-write on memory needs the result for the flags; not needed by this file
		for j, o := range in.ops {
			if (o.kind == opMem || o.kind == opFrame) && j == len(in.ops)-1 && in.mn != "MOVQ" && in.mn != "CMPQ" && in.mn != "TESTQ" && in.mn != "MULQ" && in.mn != "DIVQ" {
				return &asmErr{e.r.name, in.line, "read-modify-write memory destination is not supported: " + in.text}
			}
		}
		if err := e.instr(in, liveAfter[i]); err != nil {
			return err
		}
	}
	return nil
}

// asmUnit describes one assembly source file and the generated Lean module made from it.
type asmUnit struct {
	file string          // source file, relative to the repository root
	ns   string          // Lean namespace of the generated module
	only map[string]bool // nil: every TEXT routine of the file; otherwise exactly these routines
}

func genAsm(repo string) (string, error) {
	return genAsmUnit(repo, asmUnit{file: "dec_arith_amd64.s", ns: "Decimal.Gen.Asm"})
}

// genAsmBig translates the routines of arith_amd64.s (the math/big-derived binary kernels) that
// the library needs: `divWVW` (named by property C07; dec.setNat calls it) and every other routine
// of that file that non-test Go code of the package refers to (usedBodyless, computed from the
// type-checked package). The routines that are passed over are listed in the generated module.
func genAsmBig(repo string, usedBodyless map[string]bool) (string, error) {
	only := map[string]bool{"divWVW": true}
	for n := range usedBodyless {
		only[n] = true
	}
	return genAsmUnit(repo, asmUnit{file: "arith_amd64.s", ns: "Decimal.Gen.AsmBig", only: only})
}

func genAsmUnit(repo string, u asmUnit) (string, error) {
	path := filepath.Join(repo, u.file)
	data, err := os.ReadFile(path)
	if err != nil {
		return "", err
	}
	routines, used, skipped, err := parseAsm(string(data), u.only)
	if err != nil {
		return "", err
	}
	if len(routines) == 0 {
		return "", &asmErr{"-", 0, "no routine to translate in " + u.file}
	}
	if u.only != nil {
		// a requested routine that the file does not define is somebody else's (dec_arith_amd64.s) or
		// missing; only `divWVW` is required to be here
		found := false
		for _, r := range routines {
			if r.name == "divWVW" {
				found = true
			}
		}
		if !found {
			return "", &asmErr{"divWVW", 0, "routine not found in " + u.file}
		}
	}
	if err := checkFlags(routines); err != nil {
		return "", err
	}
	var sb strings.Builder
	fmt.Fprintf(&sb, "/- GENERATED by tools/gen from %s of db47h/decimal. Do not edit.\n\n", u.file)
	sb.WriteString("   One function per basic block, `blk_<routine>_<label> : St → St × Next Lbl`, as an SSA let-chain:\n")
	sb.WriteString("   one `let` per instruction result and per live flag; registers are Nat < 2^64 (explicit `% W`),\n")
	sb.WriteString("   CF is a Nat (0/1), ZF/SF/OF are Bool; loads and stores go through `Mem.rd`/`Mem.wr` in program\n")
	sb.WriteString("   order with their byte address `(base + index*8 + disp) % W`; `x+off(FP)` is `frame` at `off`.")
	if u.only != nil {
		sb.WriteString("\n\n   Only the routines that non-test Go code of the package refers to are translated (plus `divWVW`,\n")
		sb.WriteString("   always); the other TEXT routines of the file are listed in `skipped`.")
	}
	sb.WriteString(" -/\n")
	sb.WriteString("import DecimalModel.AsmSem\n\n")
	sb.WriteString("set_option linter.unusedVariables false\n\n")
	fmt.Fprintf(&sb, "namespace %s\n", u.ns)
	sb.WriteString("open Decimal.Gen (W)\nopen Decimal.Asm\n\n")

	var mns []string
	for m := range used {
		mns = append(mns, m)
	}
	sort.Strings(mns)
	fmt.Fprintf(&sb, "/-- mnemonics and directives met in the source -/\ndef mnemonics : List String := [")
	for i, m := range mns {
		if i > 0 {
			sb.WriteString(", ")
		}
		fmt.Fprintf(&sb, "%q", m)
	}
	sb.WriteString("]\n\n")

	sb.WriteString("/-- basic blocks of the whole file: `<routine>_<label>` -/\ninductive Lbl where\n")
	for _, r := range routines {
		for _, b := range r.blocks {
			fmt.Fprintf(&sb, "  | %s_%s\n", r.name, b.name)
		}
	}
	sb.WriteString("  deriving DecidableEq, Repr, Inhabited\n\n")

	for _, r := range routines {
		fmt.Fprintf(&sb, "/-! ### %s (line %d) -/\n\n", r.name, r.line)
		for _, b := range r.blocks {
			full := r.name + "_" + b.name
			e := &emitter{r: r, b: b, sb: &strings.Builder{}, cur: map[string]string{}, ver: map[string]int{}, changed: map[string]bool{}, undef: map[string]bool{}, lit: map[string]bool{}}
			for _, rg := range regOrder {
				e.cur[rg] = "s." + rg
			}
			for _, f := range flagOrder {
				e.cur[f] = "s." + f
			}
			e.cur["mem"], e.cur["frame"], e.cur["trap"] = "s.mem", "s.frame", "s.trap"
			if err := e.block(full); err != nil {
				return "", err
			}
			fmt.Fprintf(&sb, "def blk_%s (s : St) : St × Next Lbl :=\n", full)
			sb.WriteString(e.sb.String())
			// final state
			var upd []string
			for _, k := range append(append([]string{}, regOrder...), "cf", "zf", "sf", "of", "trap", "mem", "frame") {
				if e.changed[k] {
					if strings.HasPrefix(e.cur[k], "DEAD_") {
						return "", &asmErr{r.name, r.line, "internal: dead flag live at block end"}
					}
					upd = append(upd, fmt.Sprintf("%s := %s", k, e.cur[k]))
				}
			}
			st := "s"
			if len(upd) > 0 {
				st = "{ s with " + strings.Join(upd, ", ") + " }"
			}
			var nx string
			switch b.term {
			case "ret":
				fmt.Fprintf(&sb, "  -- %d: RET\n", b.termIns.line)
				nx = "Next.ret"
			case "jmp":
				fmt.Fprintf(&sb, "  -- %d: %s\n", b.termIns.line, b.termIns.text)
				nx = "Next.goto Lbl." + b.target
			case "fall":
				nx = "Next.goto Lbl." + b.fall
			case "cond":
				fmt.Fprintf(&sb, "  -- %d: %s\n", b.termIns.line, b.termIns.text)
				nx = fmt.Sprintf("if %s then Next.goto Lbl.%s else Next.goto Lbl.%s", condCodes[b.cc].expr(e.cur), b.target, b.fall)
			}
			fmt.Fprintf(&sb, "  (%s,\n   %s)\n\n", st, nx)
		}
	}

	sb.WriteString("/-- the program: block function of every label -/\ndef program : Lbl → St → St × Next Lbl\n")
	for _, r := range routines {
		for _, b := range r.blocks {
			fmt.Fprintf(&sb, "  | .%s_%s => blk_%s_%s\n", r.name, b.name, r.name, b.name)
		}
	}
	sb.WriteString("\n/-- control-flow graph: successors of every block (a tail call `JMP f(SB)` goes to `f_entry`) -/\ndef succs : Lbl → List Lbl\n")
	for _, r := range routines {
		for _, b := range r.blocks {
			var ss []string
			for _, s := range b.succs() {
				ss = append(ss, "."+s)
			}
			fmt.Fprintf(&sb, "  | .%s_%s => [%s]\n", r.name, b.name, strings.Join(ss, ", "))
		}
	}
	sb.WriteString("\n/-- entry block of every TEXT routine -/\ndef routines : List (String × Lbl) := [")
	for i, r := range routines {
		if i > 0 {
			sb.WriteString(", ")
		}
		fmt.Fprintf(&sb, "(%q, .%s_entry)", r.name, r.name)
	}
	sb.WriteString("]\n")
	if u.only != nil {
		sb.WriteString("\n/-- TEXT routines of the file that were NOT translated: no non-test Go code of the package refers to them -/\ndef skipped : List String := [")
		for i, n := range skipped {
			if i > 0 {
				sb.WriteString(", ")
			}
			fmt.Fprintf(&sb, "%q", n)
		}
		sb.WriteString("]\n")
	}
	fmt.Fprintf(&sb, "\nend %s\n", u.ns)
	return sb.String(), nil
}
