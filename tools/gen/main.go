// gen regenerates lean/DecimalModel/Gen/*.lean from the Go sources of db47h/decimal:
// constants and tables (Tables.lean), straight-line word functions (WordOps.lean) and the
// amd64 assembly (Asm.lean from dec_arith_amd64.s, AsmBig.lean from arith_amd64.s). It is run by every check; the theorems in lean/Proofs/Gen*.lean
// are stated over its output, so a change of the source shows up as a broken proof.
package main

import (
	"flag"
	"fmt"
	"go/ast"
	"go/build"
	"go/importer"
	"go/parser"
	"go/token"
	"go/types"
	"os"
	"path/filepath"
)

type pkgInfo struct {
	fset  *token.FileSet
	files []*ast.File
	info  *types.Info
	pkg   *types.Package
	funcs map[string]*ast.FuncDecl
}

func load(repo string) (*pkgInfo, error) {
	ctx := build.Default
	ctx.GOARCH = "amd64"
	ctx.GOOS = "linux"
	ctx.CgoEnabled = false
	bp, err := ctx.ImportDir(repo, 0)
	if err != nil {
		return nil, err
	}
	p := &pkgInfo{fset: token.NewFileSet(), funcs: map[string]*ast.FuncDecl{}}
	for _, f := range bp.GoFiles {
		af, err := parser.ParseFile(p.fset, filepath.Join(repo, f), nil, parser.ParseComments)
		if err != nil {
			return nil, err
		}
		p.files = append(p.files, af)
		for _, d := range af.Decls {
			if fd, ok := d.(*ast.FuncDecl); ok {
				name := fd.Name.Name
				if fd.Recv != nil && len(fd.Recv.List) == 1 {
					if id, ok := fd.Recv.List[0].Type.(*ast.Ident); ok {
						name = id.Name + "." + name
					}
				}
				p.funcs[name] = fd
			}
		}
	}
	p.info = &types.Info{Types: map[ast.Expr]types.TypeAndValue{}, Defs: map[*ast.Ident]types.Object{}, Uses: map[*ast.Ident]types.Object{}}
	conf := types.Config{Importer: importer.ForCompiler(p.fset, "source", nil), Sizes: types.SizesFor("gc", "amd64"),
		Error: func(err error) {}}
	p.pkg, _ = conf.Check("decimal", p.fset, p.files, p.info)
	if p.pkg == nil {
		return nil, fmt.Errorf("type check failed")
	}
	return p, nil
}

// usedBodyless: the functions of the package that are declared without a body (implemented in
// assembly) and referred to from the (non-test, amd64 default build) Go files of the package.
func usedBodyless(p *pkgInfo) map[string]bool {
	bodyless := map[types.Object]string{}
	for name, fd := range p.funcs {
		if fd.Body == nil && fd.Recv == nil {
			if obj := p.info.Defs[fd.Name]; obj != nil {
				bodyless[obj] = name
			}
		}
	}
	used := map[string]bool{}
	for _, obj := range p.info.Uses {
		if n, ok := bodyless[obj]; ok {
			used[n] = true
		}
	}
	return used
}

func main() {
	repo := flag.String("repo", "/repo", "repository root")
	out := flag.String("out", "", "output directory (lean/DecimalModel/Gen)")
	flag.Parse()
	if *out == "" {
		fmt.Fprintln(os.Stderr, "missing -out")
		os.Exit(2)
	}
	os.MkdirAll(*out, 0o755)
	p, err := load(*repo)
	if err != nil {
		fmt.Fprintln(os.Stderr, "gen:", err)
		os.Exit(1)
	}
	status := 0
	write := func(name, content string) {
		path := filepath.Join(*out, name)
		old, _ := os.ReadFile(path)
		if string(old) == content {
			return // keep timestamps so lake's cache stays valid
		}
		if err := os.WriteFile(path, []byte(content), 0o644); err != nil {
			fmt.Fprintln(os.Stderr, "gen:", err)
			status = 1
		}
	}
	tabs, err := genTables(p)
	if err != nil {
		fmt.Fprintln(os.Stderr, "gen tables:", err)
		status = 1
	} else {
		write("Tables.lean", tabs)
	}
	wops, problems := genWordOps(p)
	write("WordOps.lean", wops)
	for _, pr := range problems {
		fmt.Println("untranslatable:", pr)
	}
	if len(problems) > 0 {
		status = 1
	}
	// constants and decision functions of decimal.go (facts.go): written only when complete,
	// so a stale Facts.lean is never mistaken for a fresh one
	facts, fproblems := genFacts(p)
	for _, pr := range fproblems {
		fmt.Println("gen facts: FAILED:", pr)
	}
	if len(fproblems) > 0 {
		status = 1
		os.Remove(filepath.Join(*out, "Facts.lean"))
	} else {
		write("Facts.lean", facts)
	}
	if asm, err := genAsm(*repo); err != nil {
		fmt.Println("asm:", err)
		status = 1
	} else if asm != "" {
		write("Asm.lean", asm)
	}
	if asm, err := genAsmBig(*repo, usedBodyless(p)); err != nil {
		fmt.Println("asm (arith_amd64.s):", err)
		status = 1
	} else {
		write("AsmBig.lean", asm)
	}
	if status == 0 {
		fmt.Println("gen: ok")
	} else {
		fmt.Println("gen: FAILED (see messages above)")
	}
	os.Exit(status)
}
