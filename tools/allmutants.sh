#!/bin/bash
# allmutants.sh [tier] — evaluate every seeded defect under seeded/ and print one RESULT line each.
ROOT=$(cd "$(dirname "$0")/.." && pwd); cd $ROOT
for d in seeded/*/; do ./tools/runmutant.sh $d ${1:-quick} 2>&1 | grep -E "^RESULT|^mutant"; done
./build/gen -repo /repo -out lean/DecimalModel/Gen | tail -1
