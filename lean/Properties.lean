import Properties.RoundCore
