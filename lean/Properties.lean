import Properties.RoundCore
import Properties.C04
import Properties.C07
import Properties.C09
import Properties.C10
import Properties.C16
import Properties.C06
