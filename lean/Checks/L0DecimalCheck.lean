/-
  Executable validation of the word-level model `Decimal.W` (DecimalModel/L0Decimal.lean) against the L1
  model, run BEFORE the refinement proofs (Proofs/Refine*.lean): `round` on 6000 random finite states
  (1-6 words, canonical or not, precisions 1-80, six modes, both sticky values, exponents incl. both
  range ends) and on a 68256-case all-nines grid; `uadd ucmp usub umul (mul and sqr) uquo` on 3000 random
  canonical operand pairs.  Expected output: zero failures everywhere.
  Run: lake env lean Checks/L0DecimalCheck.lean
-/
import DecimalModel.L0Decimal
open Decimal Decimal.W

def lcg (s : Nat) : Nat := (s * 6364136223846793005 + 1442695040888963407) % 18446744073709551616

def eqDec (a b : Dec) : Bool :=
  a.form == b.form && a.neg == b.neg && a.mant == b.mant && a.len == b.len && a.exp == b.exp &&
  a.prec == b.prec && a.mode == b.mode && a.acc == b.acc

def modes : List Mode := [.ToNearestEven, .ToNearestAway, .ToZero, .AwayFromZero, .ToNegativeInf, .ToPositiveInf]

def edgeWords : List Nat := [0, 1, 9999999999999999999, 5000000000000000000, 4999999999999999999, 5000000000000000001,
  1000000000000000000, 9999999999999999990, 9000000000000000000, 500, 999999999999999999, 10, 5]

/-- random word: half the time an edge word -/
def rword (s : Nat) : Nat × Nat :=
  let s := lcg s
  let k := (s / 65536) % 4
  let s2 := lcg s
  if k == 0 then (edgeWords.getD ((s2 / 65536) % edgeWords.length) 0, s2)
  else if k == 1 then (((s2 / 3) % 10000000000000000000) / 10 ^ ((s2 / 65536) % 19) * 10 ^ ((s2 / 65536) % 19), s2)
  else ((s2 / 3) % 10000000000000000000, s2)

def rwords : Nat → Nat → List Nat × Nat
  | 0, s => ([], s)
  | n + 1, s => let (w, s) := rword s; let (ws, s) := rwords n s; (w :: ws, s)

/-- canonical mantissa: top word ≥ 10^18 -/
def rmant (s : Nat) (maxLen : Nat) (canon : Bool) : List Nat × Nat :=
  let s := lcg s
  let len := (s / 65536) % maxLen + 1
  let (ws, s) := rwords (len - 1) s
  let (t, s) := rword s
  let t := if canon then (if t < 1000000000000000000 then t % 9000000000000000000 + 1000000000000000000 else t) else t
  (ws ++ [t], s)

def rdec (s : Nat) (maxLen : Nat) (canon : Bool) : WDec × Nat :=
  let (m, s) := rmant s maxLen canon
  let s := lcg s
  let prec := (s / 65536) % 80 + 1
  let s := lcg s
  let mode := modes.getD ((s / 65536) % 6) .ToZero
  let s := lcg s
  let neg := (s / 65536) % 2 == 0
  let s := lcg s
  let k := (s / 65536) % 10
  let s := lcg s
  let exp : Int := if k == 0 then 2147483647 else if k == 1 then -2147483648 else if k == 2 then 2147483646 else ((s / 65536) % 120 : Nat) - 60
  ({ form := .finite, neg := neg, mant := m, exp := exp, prec := prec, mode := mode, acc := 0 }, s)

def cmpRes (a : Except String WDec) (b : Dec) : Bool :=
  match a with
  | .error _ => false
  | .ok w => eqDec (abs w) b

/-- test round: returns (#cases, #fail, first failure) -/
def testRound (n : Nat) : Nat × Nat × List (WDec × Nat) := Id.run do
  let mut s := 12345
  let mut fails := 0
  let mut firstf := []
  for _ in [0:n] do
    let (w, s1) := rdec s 6 false
    s := lcg s1
    let sbit := (s / 65536) % 2
    let r := W.round w sbit
    let e := Decimal.round (abs w) (sbit != 0)
    if !cmpRes r e then
      fails := fails + 1
      if firstf.isEmpty then firstf := [(w, sbit)]
  return (n, fails, firstf)

#eval testRound 6000

def testBin (n : Nat) : Nat × List Nat × List (String × WDec × WDec × WDec) := Id.run do
  let mut s := 987654321
  let mut f := [0,0,0,0,0,0]
  let mut firstf := []
  let mut nsub := 0
  for _ in [0:n] do
    let (z, s1) := rdec s 1 true
    let (x, s2) := rdec s1 5 true
    let (y, s3) := rdec s2 5 true
    s := lcg s3
    -- sometimes make exponents close / equal, sometimes y = x-ish
    let k := (s / 65536) % 8
    let dlt : Int := ((s / 1048576) % 81 : Nat) - 40
    let ye : Int := x.exp + dlt
    let ye := if ye > 2147483647 then 2147483647 else if ye < -2147483648 then -2147483648 else ye
    let y := if k == 0 then { y with exp := x.exp } else if k == 1 then { y with exp := x.exp, mant := x.mant } else if k == 2 then { y with exp := x.exp + 1} else { y with exp := ye }
    let z := { z with form := .zero, mant := [] }
    -- uadd
    if !cmpRes (W.uadd z x y) (Decimal.uadd (abs z) (abs x) (abs y)) then
      f := f.set 0 (f.getD 0 0 + 1); if firstf.isEmpty then firstf := [("uadd", z, x, y)]
    -- ucmp
    let c := W.ucmp x y
    if c != Decimal.ucmp (abs x) (abs y) then
      f := f.set 1 (f.getD 1 0 + 1); if firstf.isEmpty then firstf := [("ucmp", z, x, y)]
    -- usub (ordered)
    let (a, b) := if c ≥ 0 then (x, y) else (y, x)
    let ru := W.usub z a b
    let eu := Decimal.usub (abs z) (abs a) (abs b)
    let ok := match ru with
      | .error _ => false
      | .ok w => eqDec (abs w) eu || (w.mant.isEmpty && eqDec (abs w) { eu with mant := 0, len := 0 })
    if c == 0 then nsub := nsub + 1
    if !ok then
      f := f.set 2 (f.getD 2 0 + 1); if firstf.isEmpty then firstf := [("usub", z, a, b)]
    -- umul
    if !cmpRes (W.umul z x y) (Decimal.umul (abs z) (abs x) (abs y)) then
      f := f.set 3 (f.getD 3 0 + 1); if firstf.isEmpty then firstf := [("umul", z, x, y)]
    if !cmpRes (W.umul z x x true) (Decimal.umul (abs z) (abs x) (abs x)) then
      f := f.set 4 (f.getD 4 0 + 1); if firstf.isEmpty then firstf := [("usqr", z, x, x)]
    -- uquo
    if !cmpRes (W.uquo z x y) (Decimal.uquo (abs z) (abs x) (abs y)) then
      f := f.set 5 (f.getD 5 0 + 1); if firstf.isEmpty then firstf := [("uquo", z, x, y)]
  return (n, f ++ [nsub], firstf)

#eval testBin 3000

def statRound (n : Nat) : List Nat := Id.run do
  let mut s := 12345
  let mut st := [0,0,0,0,0]
  for _ in [0:n] do
    let (w, s1) := rdec s 6 false
    s := lcg s1
    let sbit := (s / 65536) % 2
    match W.round w sbit with
    | .error _ => st := st.set 4 (st.getD 4 0 + 1)
    | .ok r =>
      if r.form == .inf then st := st.set 0 (st.getD 0 0 + 1)
      if r.exp != w.exp then st := st.set 1 (st.getD 1 0 + 1)
      if r.acc != 0 then st := st.set 2 (st.getD 2 0 + 1)
      if r.mant.length != w.mant.length then st := st.set 3 (st.getD 3 0 + 1)
  return st
#eval statRound 6000
-- all-nines operands: force the carry-out branch
def nines (k : Nat) : List Nat := List.replicate k 9999999999999999999
def testNines : Nat × Nat := Id.run do
  let mut cnt := 0
  let mut fails := 0
  for len in [1:5] do
    for prec in [1:80] do
      for mode in modes do
        for neg in [true, false] do
          for sbit in [0, 1] do
            for e in [(5 : Int), 2147483647, 2147483646] do
              for low in [nines len, (nines len).set 0 9999999999999999000, (nines len).set 0 9999999999999999995] do
                let w : WDec := { form := .finite, neg := neg, mant := low, exp := e, prec := prec, mode := mode }
                cnt := cnt + 1
                if !cmpRes (W.round w sbit) (Decimal.round (abs w) (sbit != 0)) then fails := fails + 1
  return (cnt, fails)
#eval testNines
