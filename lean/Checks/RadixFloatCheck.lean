/-
  Comparison of the float64 length estimates of DecimalModel/Radix.lean (`setIntPrec`, `decToNatBits`)
  with the Go expressions, on a data file produced by Go.

  Data: one line per argument, `S <bits> <uint32(math.Ceil(float64(uint32(bits))*log10_2))>` or
  `D <digits> <int(float64(uint(digits))*log2_10)>`, with
  `const log2_10 = math.Ln10 / math.Ln2; const log10_2 = math.Ln2 / math.Ln10` as in decimal.go.
  Run: lake env lean --run Checks/RadixFloatCheck.lean <datafile>
  Last run (Go 1.23.5, amd64): 25119 `S` lines (1..5000, 20000 random uint32, 2^k and 2^k ± 1, the
  neighbours of the ten failing bit lengths, 2^32 − 1) and 35144 `D` lines (1..5000, random up to
  2^53, 2^k and 2^k ± 1): "setIntPrec ok 25119, decToNatBits ok 35144, bad 0".
-/
import DecimalModel.Radix
open Decimal Decimal.L0

def main (args : List String) : IO Unit := do
  let s ← IO.FS.readFile (args.headD "/tmp/agentP/scratch/RadixFloatData.txt")
  let mut okS := 0
  let mut okD := 0
  let mut bad := 0
  for line in s.splitOn "\n" do
    match line.splitOn " " with
    | [m, a, b] =>
      let a := a.toNat!
      let b := b.toNat!
      if m == "S" then
        if setIntPrec a == b then okS := okS + 1 else
          bad := bad + 1
          IO.println s!"BAD S {a} {b} model {setIntPrec a}"
      else
        if decToNatBits a == b then okD := okD + 1 else
          bad := bad + 1
          IO.println s!"BAD D {a} {b} model {decToNatBits a}"
    | _ => pure ()
  IO.println s!"setIntPrec ok {okS}, decToNatBits ok {okD}, bad {bad}"
