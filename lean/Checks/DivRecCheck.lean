/-
  Executable validation of the recursive-division model against `natOf` arithmetic
  (small thresholds so that short operands exercise the recursion), and the C06 failing input.
-/
import DecimalModel.DivRecCase

namespace Decimal.L0.DivRecCheck
open Decimal Decimal.L0

def Bw : Nat := 10000000000000000000

def lcg (s : Nat) : Nat := (s * 6364136223846793005 + 1442695040888963407) % 18446744073709551616

/-- adversarial word: 0, 1, B/2-1, B/2, B/2+1, B-2, B-1 or random. -/
def pickWord (s : Nat) : Nat × Nat :=
  let s1 := lcg s
  let s2 := lcg s1
  let w := match (s1 / 65536) % 12 with
    | 0 => 0 | 1 => 1 | 2 => Bw / 2 | 3 => Bw - 1 | 4 => Bw / 2 - 1 | 5 => Bw / 2 + 1 | 6 => Bw - 2
    | 7 => 0 | 8 => Bw - 1
    | _ => (s2 / 8) % Bw
  (w, s2)

def genWords : Nat → Nat → List Nat × Nat
  | 0, s => ([], s)
  | n + 1, s =>
    let (w, s) := pickWord s
    let (ws, s) := genWords n s
    (w :: ws, s)

/-- a normalised vector of exactly `n` words; `mode` 1: all-nines low words, 2: all-zero low words,
    3: top word exactly B/2, 4: top word 1. -/
def genNorm (n mode s : Nat) : List Nat × Nat :=
  if n = 0 then ([], s) else
  let (lo, s) := genWords (n - 1) s
  let (t, s) := pickWord s
  let t := if t = 0 then 1 else t
  let lo := if mode = 1 then List.replicate (n - 1) (Bw - 1) else if mode = 2 then List.replicate (n - 1) 0 else lo
  let t := if mode = 3 then Bw / 2 else if mode = 4 then 1 else t
  (lo ++ [t], s)

def isNormalized (x : List Nat) : Bool := x.getLast? != some 0
def isWF (x : List Nat) : Bool := x.all (· < Bw)

/-- does `r` equal the Euclidean quotient/remainder, normalised and well-formed? -/
def good (u v : List Nat) (r : Except String (Dec0 × Dec0)) : Bool :=
  match r with
  | .ok (q, r) =>
    natOf q == natOf u / natOf v && natOf r == natOf u % natOf v && isNormalized q && isNormalized r
      && isWF q && isWF r
  | .error _ => false

/-- `divFull thr kthr` over `lv ∈ [lvLo, lvHi]`, `lu ∈ [lv, lv + extra]`, all modes:
    returns (cases, failures, first failure). -/
def sweepFull (thr kthr lvLo lvHi extra stepU : Nat) (seed : Nat) : Nat × Nat × List (Nat × Nat × Nat × Nat) := Id.run do
  let mut s := seed
  let mut cnt := 0
  let mut bad := 0
  let mut firstBad := []
  for lv in [lvLo:lvHi+1] do
    for i in [0:extra / stepU + 1] do
     let du := i * stepU
     do
      for mode in [0:5] do
        for umode in [0:3] do
          let (v, s1) := genNorm lv mode s
          let (u, s2) := genNorm (lv + du) umode s1
          s := s2
          cnt := cnt + 1
          if !(good u v (divFull thr kthr u v)) then
            bad := bad + 1
            if firstBad.isEmpty then firstBad := [(lv, du, mode, umode)]
  return (cnt, bad, firstBad)

/-- `divRecursive` called directly: divisor with top word ≥ B/2, dividend arbitrary (also with top
    part ≥ v, and with leading zero words), quotient buffer `len u - len v + 1`. -/
def sweepStep (thr kthr lvLo lvHi extra stepU : Nat) (seed : Nat) : Nat × Nat × List (Nat × Nat × Nat) := Id.run do
  let mut s := seed
  let mut cnt := 0
  let mut bad := 0
  let mut firstBad := []
  for lv in [lvLo:lvHi+1] do
    for i in [0:extra / stepU + 1] do
     let du := i * stepU
     do
      for mode in [0:4] do
        let (v0, s1) := genNorm lv mode s
        let top := v0.getLastD 1
        let top := if top < Bw / 2 then Bw - 1 - top else top
        let v := v0.dropLast ++ [top]
        let (u0, s2) := genNorm (lv + du) (mode % 3) s1
        -- the dividend of divLarge has one spare top word, which may be zero
        let u := if mode % 2 = 0 then u0 ++ [0] else u0
        s := s2
        cnt := cnt + 1
        let r := match divRecursive thr kthr (u.length - lv + 1) u v with
          | .ok (z, r) => Except.ok (norm z, norm r)
          | .error e => .error e
        if !(good u v r) then
          bad := bad + 1
          if firstBad.isEmpty then firstBad := [(lv, du, mode)]
  return (cnt, bad, firstBad)

-- thresholds 4, 5, 6, 8: every divisor length from the threshold to 40, dividend up to 45 words longer
#eval sweepFull 4 2 4 40 45 3 1
#eval sweepFull 5 4 5 40 45 3 2
#eval sweepFull 6 40 6 40 45 3 3
#eval sweepFull 8 3 8 40 45 3 4
#eval sweepStep 4 2 4 40 45 3 5
#eval sweepStep 6 4 6 40 45 3 6
#eval sweepStep 8 40 8 40 90 7 7
-- below the threshold the recursive model is the basic one
#eval sweepFull 100 40 2 12 12 1 8

-- thresholds 2 and 3: the Go recursion does not terminate (B = 1, s = 0); the model runs out of fuel
#eval (divFull 2 2 [1, 2, 3, 4, 5] [7, 8, 9]).toOption.isNone
#eval match divFull 3 2 [1, 2, 3, 4, 5, 6, 7] [7, 8, 9, 1] with | .error e => e | .ok _ => "ok"

/-- the DEFECTIVE variant (final block shift `B`) on small operands: (cases, failures, of which
    "impossible", first small failing inputs). -/
def sweepOld (thr kthr lvLo lvHi extra : Nat) (seed : Nat) :
    Nat × Nat × Nat × List (List Nat × List Nat × String) := Id.run do
  let mut s := seed
  let mut cnt := 0
  let mut bad := 0
  let mut imp := 0
  let mut firstBad := []
  for lv in [lvLo:lvHi+1] do
    for du in [0:extra+1] do
      for mode in [0:5] do
        for umode in [0:3] do
          let (v, s1) := genNorm lv mode s
          let (u, s2) := genNorm (lv + du) umode s1
          s := s2
          cnt := cnt + 1
          let r := divFullG (fun B => B) thr kthr u v
          if !(good u v r) then
            bad := bad + 1
            let msg := match r with | .error e => e | .ok _ => "wrong"
            if msg == "impossible" then imp := imp + 1
            if firstBad.length < 1 && u.length + v.length < 16 then firstBad := firstBad ++ [(u, v, msg)]
  return (cnt, bad, imp, firstBad)

-- (1485, 21, 21, [u = 8 × 9999999999999999999, v = 4 × 9999999999999999999 ++ [5000000000000000001]])
#eval sweepOld 4 2 4 12 10 11
-- (1485, 2, 2, [])
#eval sweepOld 6 2 6 14 10 12

/-- a 13-word input on which the defective variant panics and the code as it is now is right. -/
def uS : List Nat := List.replicate 8 9999999999999999999
def vS : List Nat := List.replicate 4 9999999999999999999 ++ [5000000000000000001]
#eval match divFullG (fun B => B) 4 2 uS vS with | .error e => e | .ok _ => "ok"   -- "impossible"
#eval good uS vS (divFull 4 2 uS vS)                                                -- true

/-! ### the documented precondition of `divRecursive` (`len(z) >= len(u)-len(v)`) is not sufficient

  `u < v·B^3`, the quotient `B^3 - 1` has 3 words, `len(u) - len(v) = 3`; but the first block estimate
  has 3 words (its top word becomes 0 after a correction) and `decAddAt(z, qhat, 1)` addresses
  `z[1:4]`: Go writes one zero word into the spare capacity of `z`, or panics when `cap(z) = len(z)`;
  the model flags both. `divLarge` never gets there (`divRecStepG_total`: the operands are multiples
  of the scaling factor), with 4 words the call succeeds. -/
def vP : List Nat := [5, 0, 0, 0, 5000000000000000000]
def uP : List Nat := [Bw - 1, Bw - 1, Bw - 1, 4, 0, 0, 0, 5000000000000000000]
#eval decide (natOf uP < natOf vP * Bw ^ 3)                                            -- true
#eval match divRecursive 4 2 3 uP vP with | .error e => e | .ok _ => "ok"     -- "slice bounds out of range"
#eval match divRecursive 4 2 4 uP vP with | .error e => e | .ok _ => "ok"     -- "ok"

/-! ### the C06 failing input (501-word dividend, 334-word divisor), production thresholds -/

-- the code as it is now: the arithmetic quotient and remainder
#eval good DivRecCase.u DivRecCase.v (divFull 100 40 DivRecCase.u DivRecCase.v)
-- the defective version (final block shift `B`): "impossible"
#eval match divFullG (fun B => B) 100 40 DivRecCase.u DivRecCase.v with | .error e => e | .ok _ => "ok"
-- the basic path agrees
#eval good DivRecCase.u DivRecCase.v (div DivRecCase.u DivRecCase.v)

end Decimal.L0.DivRecCheck
