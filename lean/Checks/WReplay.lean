/-
  Replays a Go transcript (P/L/O/G lines of the api harness) through the word-level model: for every
  `add sub mul quo set setprec` step, the W function is run on the word lists Go reported BEFORE the
  step and its result compared with the words Go reported AFTER it.
  Run: lake env lean --run Checks/WReplay.lean transcript.txt …
-/
import Driver.OpsW
open Decimal Driver

def outcomeOf (s : String) : Outcome :=
  if s == "ok" then .ok else if s == "ErrNaN" then .errNaN else .panicOther s

structure RS where
  cur : Array Dec := #[]
  pending : Option (List String) := none
  nBin : Nat := 0
  nUn : Nat := 0
  nSkip : Nat := 0
  bad : List String := []

def stepLine (st : RS) (line : String) : RS :=
  if line.startsWith "P" then { st with cur := #[], pending := none }
  else if line.startsWith "O " then { st with pending := some ((line.drop 2).toString.splitOn " ") }
  else if line.startsWith "L " then { st with pending := none }
  else if line.startsWith "G " then
    let parts := (line.drop 2).toString.splitOn "|"
    match parts with
    | oc :: _ :: states =>
      match states.mapM parseState? with
      | none => { st with pending := none }
      | some gl =>
        let genv := gl.toArray
        let st' : RS :=
          match st.pending with
          | some [name, zs, xs, ys] =>
            if name == "add" || name == "sub" || name == "mul" || name == "quo" then
              match zs.toNat?, xs.toNat?, ys.toNat? with
              | some zi, some xi, some yi =>
                match st.cur[zi]?, st.cur[xi]?, st.cur[yi]? with
                | some z, some x, some y =>
                  let bothFinite := x.form == .finite && y.form == .finite
                  if !(bothFinite || (xi != zi && yi != zi)) then { st with nSkip := st.nSkip + 1 }
                  else
                    match wSpecBin name zi xi yi z x y (outcomeOf oc) "" genv with
                    | none => { st with nBin := st.nBin + 1 }
                    | some m => { st with nBin := st.nBin + 1, bad := ((line.take 40).toString ++ " :: " ++ m) :: st.bad }
                | _, _, _ => st
              | _, _, _ => st
            else st
          | some [name, zs, xs] =>
            if name == "set" then
              match zs.toNat?, xs.toNat? with
              | some zi, some xi =>
                if zi == xi then { st with nSkip := st.nSkip + 1 } else
                match st.cur[zi]?, st.cur[xi]?, genv[zi]? with
                | some z, some x, some gz =>
                  match wCheckSet z x gz with
                  | none => { st with nUn := st.nUn + 1 }
                  | some m => { st with nUn := st.nUn + 1, bad := ("set :: " ++ m) :: st.bad }
                | _, _, _ => st
              | _, _ => st
            else if name == "setprec" then
              match zs.toNat?, xs.toNat? with
              | some zi, some p =>
                match st.cur[zi]?, genv[zi]? with
                | some z, some gz =>
                  match wCheckSetPrec z p gz with
                  | none => { st with nUn := st.nUn + 1 }
                  | some m => { st with nUn := st.nUn + 1, bad := ("setprec :: " ++ m) :: st.bad }
                | _, _ => st
              | _, _ => st
            else st
          | _ => st
        { st' with cur := genv, pending := none }
    | _ => { st with pending := none }
  else st

def main (args : List String) : IO Unit := do
  for f in args do
    let txt ← IO.FS.readFile f
    let st := (txt.splitOn "\n").foldl stepLine {}
    IO.println s!"{f}: bin={st.nBin} unary={st.nUn} skipped={st.nSkip} bad={st.bad.length}"
    for b in st.bad.take 5 do IO.println ("   " ++ b)
