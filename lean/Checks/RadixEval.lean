/-
  Executable validation of `DecimalModel/Radix.lean` against arithmetic.

  * `setNat` into a buffer of the `SetInt` length, and `decToNat`, against `% B`, `/ B` resp.
    `% 2^64`, `/ 2^64` reference conversions, with three different initial buffer contents
    (all-ones words, `B-1`, index-dependent junk);
  * values `2^k`, `2^k ± 1`, `10^j`, `10^j ± 1`, random values, up to 3200 decimal digits, and ALL the
    sizes up to 12000 bits / 3600 digits where the estimate has no slack (the value fills the
    destination exactly);
  * the word-level `SetInt` against the L1 `setInt` through `abs`, six modes × precisions.

  The float64 estimates themselves were compared with the Go expressions
  `uint32(math.Ceil(float64(bits)*log10_2))` and `int(float64(digits)*log2_10)` on 25119 + 35144
  arguments (1..5000, random 32-bit / up to 53-bit arguments, 2^k and 2^k ± 1, and the neighbours of
  the ten failing bit lengths of `SetInt` below 2^32): 0 differences.
-/
import DecimalModel.Radix

namespace Decimal.L0.RadixEval
open Decimal Decimal.L0 Decimal.Gen

def Wb : Nat := 18446744073709551616

/-- reference: normalised base-2^64 words. -/
def binWords (n : Nat) : List Nat :=
  if h : n = 0 then [] else (n % Wb) :: binWords (n / Wb)
decreasing_by exact Nat.div_lt_self (by omega) (by unfold Wb; omega)

def junk1 : Nat → Nat := fun _ => 18446744073709551615
def junk2 : Nat → Nat := fun _ => 9999999999999999999
def junk3 : Nat → Nat := fun i => (i * 6364136223846793005 + 1442695040888963407) % Wb

def lcg (s : Nat) : Nat := (s * 6364136223846793005 + 1442695040888963407) % Wb

/-- a pseudo-random value of about `bits` bits. -/
def rnd (bits seed : Nat) : Nat := Id.run do
  let mut s := lcg (seed + 17)
  let mut v := 0
  for _ in [0:bits / 64 + 1] do
    s := lcg s
    v := v * Wb + s
  return v % 2 ^ bits + 2 ^ (bits - 1)

/-- `SetInt`'s conversion of `v`: estimated length, junk-filled destination, `setNat`. -/
def convSet (junk : Nat → Nat) (v : Nat) : List Nat :=
  setNat (mkBuf (setIntWords (bitLen v)) junk) (binWords v)

def okSet (v : Nat) : Bool :=
  let r := wordsOf v
  convSet junk1 v == r && convSet junk2 v == r && convSet junk3 v == r

def okToNat (v : Nat) : Bool :=
  let r := binWords v
  let x := wordsOf v
  decToNat junk1 x == r && decToNat junk2 x == r && decToNat junk3 x == r

/-- counts (cases, failures) of a check over a list of values. -/
def run (f : Nat → Bool) (vs : List Nat) : Nat × Nat :=
  (vs.length, (vs.filter (fun v => !f v)).length)

def pow2s (lo hi step : Nat) : List Nat :=
  ((List.range ((hi - lo) / step + 1)).map (fun i => lo + i * step)).flatMap
    (fun k => [2 ^ k - 1, 2 ^ k, 2 ^ k + 1])

def pow10s (lo hi step : Nat) : List Nat :=
  ((List.range ((hi - lo) / step + 1)).map (fun i => lo + i * step)).flatMap
    (fun j => [10 ^ j - 1, 10 ^ j, 10 ^ j + 1])

def rnds (lo hi step : Nat) : List Nat :=
  (List.range ((hi - lo) / step + 1)).map (fun i => rnd (lo + i * step) i)

/-- bit lengths `b ≤ n` for which `2^b - 1` has exactly `19 · setIntWords b` digits (no slack). -/
def tightBits (n : Nat) : List Nat :=
  (List.range (n + 1)).filter (fun b => b > 0 && (10 ^ (19 * setIntWords b - 1) ≤ 2 ^ b - 1))

/-- digit counts `d ≤ n` for which `10^d - 1` has exactly `64 · decToNatWords d` bits (no slack). -/
def tightDigits (n : Nat) : List Nat :=
  (List.range (n + 1)).filter (fun d => d > 19 && (2 ^ (64 * decToNatWords d - 1) ≤ 10 ^ d - 1))

-- small values, exhaustively
#eval run okSet (List.range 3000)                                  -- (3000, 0)
#eval run okToNat (List.range 3000)                                -- (3000, 0)
-- around the word boundaries of both bases
#eval run okSet (pow2s 1 700 1)                                    -- (2100, 0)
#eval run okToNat (pow2s 1 700 1)                                  -- (2100, 0)
#eval run okSet (pow10s 1 200 1)                                   -- (600, 0)
#eval run okToNat (pow10s 1 200 1)                                 -- (600, 0)
-- larger
#eval run okSet (pow2s 700 10700 97)                               -- (312, 0)
#eval run okToNat (pow2s 700 10700 97)                             -- (312, 0)
#eval run okSet (pow10s 200 3200 37)                               -- (246, 0)
#eval run okToNat (pow10s 200 3200 37)                             -- (246, 0)
#eval run okSet (rnds 1 10000 23)                                  -- (435, 0)
#eval run okToNat (rnds 1 10000 23)                                -- (435, 0)
-- sizes without slack
#eval (tightBits 12000).length                                     -- 631
#eval run okSet ((tightBits 12000).flatMap (fun b => [2 ^ b - 1, 2 ^ b - 2, 2 ^ (b - 1)]))   -- (1893, 0)
#eval (tightDigits 3600).length                                    -- 55
#eval run okToNat ((tightDigits 3600).flatMap (fun d => [10 ^ d - 1, 10 ^ d - 2, 10 ^ (d - 1)]))   -- (165, 0)

-- a destination ONE word shorter than needed loses the top word (this is what a wrong estimate
-- does: silent truncation, no panic).
#eval (setNat (mkBuf 1 junk1) (binWords (10 ^ 19 + 5)), wordsOf (10 ^ 19 + 5))   -- ([5], [5, 1])

/-! ### word-level `SetInt` against L1 -/

def modes : List Mode :=
  [.ToNearestEven, .ToNearestAway, .ToZero, .AwayFromZero, .ToNegativeInf, .ToPositiveInf]

def decEq (a b : Dec) : Bool :=
  a.form == b.form && a.neg == b.neg && a.mant == b.mant && a.len == b.len && a.exp == b.exp &&
    a.prec == b.prec && a.mode == b.mode && a.acc == b.acc

def okSetInt (v : Nat) : Bool :=
  modes.all fun m => [0, 1, 2, 5, 19, 20, 37, 38, 39, 57, 100].all fun p => [false, true].all fun neg =>
    let z : W.WDec := { prec := p, mode := m, mant := [1, 2, 3], form := .finite, exp := 5 }
    match W.setInt z junk3 neg (binWords v) with
    | .error _ => false
    | .ok w => decEq (W.abs w) (Decimal.setInt (W.abs z) (if neg then -(v : Int) else v))

#eval run okSetInt ((List.range 200).map (· + 1))                   -- (200, 0)
#eval run okSetInt (pow10s 1 120 1)                                -- (360, 0)
#eval run okSetInt (pow2s 1 400 3)                                 -- (402, 0)
#eval run okSetInt (rnds 1 2000 13)                                -- (154, 0)
#eval run okSetInt ((pow10s 1 120 1).map (fun v => v * 5 + 4))     -- ties and near-ties (360, 0)

end Decimal.L0.RadixEval
