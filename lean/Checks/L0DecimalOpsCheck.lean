/-
  Executable validation of the word-level public methods `W.add sub mul quo set setPrec` and of the
  driver helpers `Driver.wCheckBin/wCheckSet/wCheckSetPrec` against the L1 model, all operand classes
  (zero / finite / inf), receiver precision 0 a third of the time.  Expected: zero failures; the last but
  one #eval shows a deliberately wrong L1 result being reported.
  Run: lake env lean Checks/L0DecimalOpsCheck.lean
-/
import DecimalModel.L0Decimal
import Driver.OpsW
open Decimal Decimal.W

def lcg (s : Nat) : Nat := (s * 6364136223846793005 + 1442695040888963407) % 18446744073709551616
def modes : List Mode := [.ToNearestEven, .ToNearestAway, .ToZero, .AwayFromZero, .ToNegativeInf, .ToPositiveInf]
def edgeWords : List Nat := [0, 1, 9999999999999999999, 5000000000000000000, 4999999999999999999, 5000000000000000001,
  1000000000000000000, 9999999999999999990, 9000000000000000000, 500, 999999999999999999, 10, 5]
def rword (s : Nat) : Nat × Nat :=
  let s := lcg s
  let k := (s / 65536) % 4
  let s2 := lcg s
  if k == 0 then (edgeWords.getD ((s2 / 65536) % edgeWords.length) 0, s2)
  else if k == 1 then (((s2 / 3) % 10000000000000000000) / 10 ^ ((s2 / 65536) % 19) * 10 ^ ((s2 / 65536) % 19), s2)
  else ((s2 / 3) % 10000000000000000000, s2)
def rwords : Nat → Nat → List Nat × Nat
  | 0, s => ([], s)
  | n + 1, s => let (w, s) := rword s; let (ws, s) := rwords n s; (w :: ws, s)
def rmant (s : Nat) (maxLen : Nat) : List Nat × Nat :=
  let s := lcg s
  let len := (s / 65536) % maxLen + 1
  let (ws, s) := rwords (len - 1) s
  let (t, s) := rword s
  let t := if t < 1000000000000000000 then t % 9000000000000000000 + 1000000000000000000 else t
  (ws ++ [t], s)
def rdec (s : Nat) (maxLen : Nat) (allowPrec0 : Bool) : WDec × Nat :=
  let (m, s) := rmant s maxLen
  let s := lcg s
  let prec := (s / 65536) % 60 + 1
  let s := lcg s
  let mode := modes.getD ((s / 65536) % 6) .ToZero
  let s := lcg s
  let neg := (s / 65536) % 2 == 0
  let s := lcg s
  let k := (s / 65536) % 12
  let s := lcg s
  let exp : Int := if k == 0 then 2147483647 else if k == 1 then -2147483648 else ((s / 65536) % 120 : Nat) - 60
  let s := lcg s
  let f := (s / 65536) % 6
  let form : Form := if f == 0 then .zero else if f == 1 then .inf else .finite
  let s := lcg s
  let prec := if allowPrec0 && (s / 65536) % 3 == 0 then 0 else prec
  let prec := if form == .finite && prec == 0 && !allowPrec0 then 1 else prec
  ({ form := form, neg := neg, mant := m, exp := exp, prec := prec, mode := mode, acc := 0 }, s)

def obsEqB (a b : Dec) : Bool :=
  a.form == b.form && a.neg == b.neg && a.prec == b.prec && a.mode == b.mode && a.acc == b.acc && a.exp == b.exp &&
  (a.form != .finite || (a.mant == b.mant && a.len == b.len))

def cmpOp (a : Except String (WDec × Outcome)) (b : Dec × Outcome) : Bool :=
  match a with
  | .error _ => false
  | .ok (w, o) => obsEqB (abs w) b.1 && o == b.2


def testDrv (n : Nat) : Nat × Nat × Nat := Id.run do
  let mut s := 777
  let mut bad := 0
  let mut rt := 0
  for _ in [0:n] do
    let (z, s1) := rdec s 2 true
    let (x, s2) := rdec s1 4 false
    let (y, s3) := rdec s2 4 false
    s := lcg s3
    let dlt : Int := ((s / 1048576) % 61 : Nat) - 30
    let ye : Int := x.exp + dlt
    let ye := if ye > 2147483647 then 2147483647 else if ye < -2147483648 then -2147483648 else ye
    let y := { y with exp := ye }
    let (dz, dx, dy) := (W.abs z, W.abs x, W.abs y)
    -- round trip ofDec/abs
    if !(obsEqB (W.abs (W.ofDec dx)) dx && (W.ofDec dx).mant == x.mant) then rt := rt + 1
    for name in ["add", "sub", "mul", "quo"] do
      let (z', oc) := match name with
        | "add" => Decimal.add dz dx dy | "sub" => Decimal.sub dz dx dy
        | "mul" => Decimal.mul dz dx dy | _ => Decimal.quo dz dx dy
      if (Driver.wCheckBin name 0 1 2 dz dx dy z' oc).isSome then bad := bad + 1
    if (Driver.wCheckSet dz dx (Decimal.set dz dx)).isSome then bad := bad + 1
    if (Driver.wCheckSetPrec dx 7 (Decimal.setPrec dx 7)).isSome then bad := bad + 1
  return (n, bad, rt)
#eval testDrv 2000
-- a deliberately wrong L1 result is reported
#eval Driver.wCheckBin "mul" 0 1 2 {prec := 3} {form := .finite, mant := 1234500000000000000, len := 1, exp := 3, prec := 5}
   {form := .finite, mant := 9950000000000000000, len := 1, exp := -2, prec := 3} {form := .finite, mant := 1230000000000000000, len := 1, exp := 1, prec := 3} .ok

def testOps (n : Nat) : Nat × List Nat := Id.run do
  let mut s := 424242
  let mut f := [0,0,0,0,0,0]
  for _ in [0:n] do
    let (z, s1) := rdec s 2 true
    let (x, s2) := rdec s1 4 false
    let (y, s3) := rdec s2 4 false
    s := lcg s3
    let dlt : Int := ((s / 1048576) % 61 : Nat) - 30
    let ye : Int := x.exp + dlt
    let ye := if ye > 2147483647 then 2147483647 else if ye < -2147483648 then -2147483648 else ye
    let k := (s / 65536) % 8
    let y := if k == 1 then { y with exp := x.exp, mant := x.mant } else { y with exp := ye }
    if !cmpOp (W.add z x y) (Decimal.add (abs z) (abs x) (abs y)) then f := f.set 0 (f.getD 0 0 + 1)
    if !cmpOp (W.sub z x y) (Decimal.sub (abs z) (abs x) (abs y)) then f := f.set 1 (f.getD 1 0 + 1)
    if !cmpOp (W.mul z x y) (Decimal.mul (abs z) (abs x) (abs y)) then f := f.set 2 (f.getD 2 0 + 1)
    if !cmpOp (W.quo z x y) (Decimal.quo (abs z) (abs x) (abs y)) then f := f.set 3 (f.getD 3 0 + 1)
    if !cmpOp (withOutcome (W.set z x) .ok) (Decimal.set (abs z) (abs x), .ok) then f := f.set 4 (f.getD 4 0 + 1)
    let p := (s / 4096) % 70
    if !cmpOp (withOutcome (W.setPrec x p) .ok) (Decimal.setPrec (abs x) p, .ok) then f := f.set 5 (f.getD 5 0 + 1)
  return (n, f)
#eval testOps 4000
