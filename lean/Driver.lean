import Driver.Main
