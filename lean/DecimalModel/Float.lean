/-
  Model of SetFloat64 (decimal.go): the float64 is given by its IEEE bit pattern; the code
  extracts the 53-bit significand with math.Frexp and scales by a power of two computed with
  one extra digit of precision, then rounds.
-/
import DecimalModel.Parse

namespace Decimal

/-- `z.SetFloat64(x)` with `x = Float64frombits(bits)`. -/
def setFloat64 (z : Dec) (bits : Nat) : Dec × Outcome :=
  let z := if z.prec == 0 then { z with prec := 17 } else z
  let neg : Bool := (bits / 2 ^ 63 % 2 : Nat) == 1
  let E : Nat := bits / 2 ^ 52 % 2048
  let F : Nat := bits % 2 ^ 52
  if E == 2047 && F != 0 then (z, .errNaN)
  else
    let z := { z with acc := Exact, neg := neg }
    if E == 0 && F == 0 then ({ z with form := .zero }, .ok)
    else if E == 2047 then ({ z with form := .inf }, .ok)
    else
      -- math.Frexp: x = fmant × 2^exp2 with fmant in [0.5, 1); significand as a 53-bit integer
      let (m, e2) : Nat × Int :=
        if E != 0 then (2 ^ 52 + F, (E : Int) - 1075)
        else
          let l := Nat.log2 F + 1           -- bit length of F
          (F * 2 ^ (53 - l), -1074 - ((53 - l : Nat) : Int))
      let len := nwords m
      let z := { z with form := .finite, mant := m * 10 ^ dnormShift m len, len := len, exp := (ndigits m : Int) }
      let z :=
        if e2 != 0 then
          -- exact scaling at 800 digits, then one rounding at the receiver's precision
          let prec := z.prec
          let z := { z with prec := 800 }
          let t := pow2 800 e2.natAbs
          let z := if e2 < 0 then (quo z z t true false).1 else (mul z z t true false).1
          { z with prec := prec }
        else z
      (round z false, .ok)

end Decimal
