/-
  Model of package context (context/context.go, as repaired): a precision, a rounding mode and
  a latched error. Every operation is `if c.err != nil { return z }`, then `apply(z)` (SetMode,
  then SetPrec when it differs), then the Decimal method under a deferred `recover` that latches
  ErrNaN only and re-raises anything else.
-/
import DecimalModel.Sqrt

namespace Decimal

structure Ctx where
  prec : Nat := DefaultPrec
  mode : Mode := .ToNearestEven
  err : Bool := false      -- an ErrNaN is latched
  deriving Repr, Inhabited, DecidableEq

def ctxSetPrecVal (prec : Nat) : Nat :=
  let prec := if prec == 0 then DefaultPrec else prec
  if prec > MaxPrec then MaxPrec else prec

def Ctx.new (prec : Nat) (mode : Mode) : Ctx := { prec := ctxSetPrecVal prec, mode := mode }

/-- `c.apply(z)`. -/
def Ctx.apply (c : Ctx) (z : Dec) : Dec :=
  let z := setMode z c.mode
  if z.prec != c.prec then setPrec z c.prec else z

/-- `c.Err()`: returns whether an error was recorded, and clears it. -/
def Ctx.takeErr (c : Ctx) : Bool × Ctx := (c.err, { c with err := false })

/-- Wrap a method that may raise ErrNaN: result state of `z`, new context, outcome seen by the caller. -/
def Ctx.guarded (c : Ctx) (z : Dec) (op : Dec → Dec × Outcome) : Dec × Ctx × Outcome :=
  if c.err then (z, c, .ok) else
  match op (c.apply z) with
  | (z', .ok) => (z', c, .ok)
  | (z', .errNaN) => (z', { c with err := true }, .ok)
  | (z', .panicOther m) => (z', c, .panicOther m)

/-- Methods without a recover (Set, Neg, Abs). -/
def Ctx.plain (c : Ctx) (z : Dec) (op : Dec → Dec) : Dec :=
  if c.err then z else op (c.apply z)

end Decimal
