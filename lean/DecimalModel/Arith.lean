/-
  L1 model of the arithmetic and attribute methods of decimal.go.

  Each function takes the receiver's state `z` (only `prec` and `mode` can influence the
  result; the rest is overwritten exactly as the Go code overwrites it) and the operand
  *values*, and returns the receiver's new state. `Outcome` distinguishes a normal return
  from `panic(ErrNaN{…})`.

  The dec-level calls are replaced by their arithmetic specifications
  (`dec.add` = `+`, `dec.sub` = `-`, `dec.shl` = `× 10^s`, `dec.mul`/`sqr` = `×`,
  `dec.div` = `/`,`%`), which is what layer L0 proves (or ties) for the word-level code.
-/
import DecimalModel.Round

namespace Decimal

/-- `ex` of uadd/usub: exponent of the mantissa read as an integer. -/
def intExp (x : Dec) : Int := x.exp - (x.len * DW : Nat)

/-- `z.uadd(x, y)`; `z.neg` is already set by the caller. -/
def uadd (z x y : Dec) : Dec :=
  let ex := intExp x
  let ey := intExp y
  if ex < ey then
    setNormAndRound z (x.mant + y.mant * 10 ^ (ey - ex).toNat) ex false
  else if ex > ey then
    setNormAndRound z (x.mant * 10 ^ (ex - ey).toNat + y.mant) ey false
  else
    setNormAndRound z (x.mant + y.mant) ex false

/-- `z.usub(x, y)` for `|x| > |y|` (or equal: exact cancellation). -/
def usub (z x y : Dec) : Dec :=
  let ex := intExp x
  let ey := intExp y
  let (M, e) :=
    if ex < ey then (x.mant - y.mant * 10 ^ (ey - ex).toNat, ex)
    else if ex > ey then (x.mant * 10 ^ (ex - ey).toNat - y.mant, ey)
    else (x.mant - y.mant, ex)
  if M == 0 then { z with acc := Exact, form := .zero, neg := false }
  else setNormAndRound z M e false

/-- `dec.sub` panics with "underflow" when the subtrahend is larger. -/
def usubGuard (x y : Dec) : Bool :=
  let ex := intExp x
  let ey := intExp y
  if ex < ey then y.mant * 10 ^ (ey - ex).toNat ≤ x.mant
  else if ex > ey then y.mant ≤ x.mant * 10 ^ (ex - ey).toNat
  else y.mant ≤ x.mant

/-- `x.ucmp(y)`: compare magnitudes of two finite Decimals: exponents first, then the
    mantissas word by word from the top, the shorter one padded with low zero words. -/
def ucmp (x y : Dec) : Int :=
  if x.exp < y.exp then -1
  else if x.exp > y.exp then 1
  else
    let a := x.mant * B ^ (y.len - x.len)
    let b := y.mant * B ^ (x.len - y.len)
    if a < b then -1 else if a > b then 1 else 0

/-- `z.umul(x, y)`. -/
def umul (z x y : Dec) : Dec :=
  setNormAndRound z (x.mant * y.mant) (intExp x + intExp y) false

/-- `z.uquo(x, y)`. -/
def uquo (z x y : Dec) : Dec :=
  let n := z.prec / DW + 1
  let d : Int := (n : Int) - x.len + y.len
  let (xadj, xlen) := if d > 0 then (x.mant * B ^ d.toNat, x.len + d.toNat) else (x.mant, x.len)
  let d' : Int := (xlen : Int) - y.len
  let q := xadj / y.mant
  let r := xadj % y.mant
  let qlen := nwords q
  let e : Int := x.exp - y.exp - (d' - qlen) * DW
  -- e is the exponent of 0.q (q read as qlen words); setNormAndRound wants the integer exponent
  setNormAndRound z q (e - (qlen * DW : Nat)) (r != 0)

def ord (x : Dec) : Int :=
  match x.form with
  | .zero => 0
  | .finite => if x.neg then -1 else 1
  | .inf => if x.neg then -2 else 2

/-- `x.Cmp(y)`. -/
def cmp (x y : Dec) : Int :=
  let mx := ord x
  let my := ord y
  if mx < my then -1 else if mx > my then 1
  else if mx == -1 then ucmp y x
  else if mx == 1 then ucmp x y
  else 0

/-- `z.Set(x)` with `z` and `x` distinct variables (`same = false`) or the same one. -/
def set (z x : Dec) (same : Bool := false) : Dec :=
  let z := { z with acc := Exact }
  if same then z else
  let z := { z with form := x.form, neg := x.neg }
  let z := if x.form == .finite then { z with exp := x.exp, mant := x.mant, len := x.len } else z
  if z.prec == 0 then { z with prec := x.prec }
  else if z.prec < x.prec then round z false
  else z

def neg (z x : Dec) (same : Bool := false) : Dec :=
  let z := set z x same
  { z with neg := !z.neg }

def abs (z x : Dec) (same : Bool := false) : Dec :=
  let z := set z x same
  { z with neg := false }

/-- `z.Copy(x)`. -/
def copy (z x : Dec) (same : Bool := false) : Dec :=
  if same then z else
  let z := { z with prec := x.prec, mode := x.mode, acc := x.acc, form := x.form, neg := x.neg }
  if z.form == .finite then { z with mant := x.mant, len := x.len, exp := x.exp } else z

/-- `z.SetPrec(prec)`. -/
def setPrec (z : Dec) (prec : Nat) : Dec :=
  let z := { z with acc := Exact }
  if prec == 0 then
    let z := { z with prec := 0 }
    if z.form == .finite then { z with acc := makeAcc z.neg, form := .zero } else z
  else
    let prec := if prec > MaxPrec then MaxPrec else prec
    let old := z.prec
    let z := { z with prec := prec }
    if z.prec < old then round z false else z

def setMode (z : Dec) (mode : Mode) : Dec := { z with mode := mode, acc := Exact }

def setInf (z : Dec) (signbit : Bool) : Dec := { z with acc := Exact, form := .inf, neg := signbit }

/-- The zero/exact fix-up shared by Add and Sub (decimal.go:165-167). -/
def zeroSignFix (z : Dec) : Dec :=
  if z.form == .zero && z.mode == .ToNegativeInf && z.acc == Exact then { z with neg := true } else z

/-- Operand as seen after the receiver's attribute prologue when it aliases the receiver. -/
def opnd (z x : Dec) (same : Bool) : Dec := if same then z else x

/-- `z.Add(x, y)`; `sx`/`sy` tell whether `x`/`y` is the receiver itself. -/
def add (z x y : Dec) (sx sy : Bool := false) : Dec × Outcome :=
  let z := if z.prec == 0 then { z with prec := umax x.prec y.prec } else z
  let x := opnd z x sx
  let y := opnd z y sy
  if x.form == .finite && y.form == .finite then
    let z := { z with neg := x.neg }
    let z :=
      if x.neg == y.neg then uadd z x y
      else if ucmp x y > 0 then usub z x y
      else usub { z with neg := !z.neg } y x
    (zeroSignFix z, .ok)
  else if x.form == .inf && y.form == .inf && x.neg != y.neg then
    ({ z with acc := Exact, form := .zero, neg := false }, .errNaN)
  else if x.form == .zero && y.form == .zero then
    let zneg := (x.neg && y.neg) || (x.neg != y.neg && z.mode == .ToNegativeInf)
    ({ z with acc := Exact, form := .zero, neg := zneg }, .ok)
  else if x.form == .inf || y.form == .zero then (set z x sx, .ok)
  else (set z y sy, .ok)

/-- `z.Sub(x, y)`. -/
def sub (z x y : Dec) (sx sy : Bool := false) : Dec × Outcome :=
  let z := if z.prec == 0 then { z with prec := umax x.prec y.prec } else z
  let x := opnd z x sx
  let y := opnd z y sy
  if x.form == .finite && y.form == .finite then
    let z := { z with neg := x.neg }
    let z :=
      if x.neg != y.neg then uadd z x y
      else if ucmp x y > 0 then usub z x y
      else usub { z with neg := !z.neg } y x
    (zeroSignFix z, .ok)
  else if x.form == .inf && y.form == .inf && x.neg == y.neg then
    ({ z with acc := Exact, form := .zero, neg := false }, .errNaN)
  else if x.form == .zero && y.form == .zero then
    let zneg := (x.neg && !y.neg) || (x.neg == y.neg && z.mode == .ToNegativeInf)
    ({ z with acc := Exact, form := .zero, neg := zneg }, .ok)
  else if x.form == .inf || y.form == .zero then (set z x sx, .ok)
  else
    -- ±0 - y, x - ±Inf: the sign is flipped before rounding
    let z := { z with acc := Exact }
    let z := if sy then z else
      let z := { z with form := y.form }
      if y.form == .finite then { z with exp := y.exp, mant := y.mant, len := y.len } else z
    let z := { z with neg := !y.neg }
    (round z false, .ok)

/-- `z.Mul(x, y)`. `xyEq` tells whether `x` and `y` are the same variable (then `sqr` is used;
    arithmetically identical). -/
def mul (z x y : Dec) (sx sy : Bool := false) : Dec × Outcome :=
  let z := if z.prec == 0 then { z with prec := umax x.prec y.prec } else z
  let x := opnd z x sx
  let y := opnd z y sy
  let z := { z with neg := x.neg != y.neg }
  if x.form == .finite && y.form == .finite then (umul z x y, .ok)
  else
    let z := { z with acc := Exact }
    if (x.form == .zero && y.form == .inf) || (x.form == .inf && y.form == .zero) then
      ({ z with form := .zero, neg := false }, .errNaN)
    else if x.form == .inf || y.form == .inf then ({ z with form := .inf }, .ok)
    else ({ z with form := .zero }, .ok)

/-- `z.Quo(x, y)`. -/
def quo (z x y : Dec) (sx sy : Bool := false) : Dec × Outcome :=
  let z := if z.prec == 0 then { z with prec := umax x.prec y.prec } else z
  let x := opnd z x sx
  let y := opnd z y sy
  let z := { z with neg := x.neg != y.neg }
  if x.form == .finite && y.form == .finite then (uquo z x y, .ok)
  else
    let z := { z with acc := Exact }
    if (x.form == .zero && y.form == .zero) || (x.form == .inf && y.form == .inf) then
      ({ z with form := .zero, neg := false }, .errNaN)
    else if x.form == .zero || y.form == .inf then ({ z with form := .zero }, .ok)
    else ({ z with form := .inf }, .ok)

/--
  `z.FMA(x, y, u)` (as repaired): the product is formed exactly in a scratch Decimal `z0`
  (`prec = MaxPrec` during `umul`), then `z.Add(z0, u)` rounds once.
-/
def fma (z x y u : Dec) (sx sy su : Bool := false) : Dec × Outcome :=
  let z := if z.prec == 0 then { z with prec := umax (umax x.prec y.prec) u.prec } else z
  let x := opnd z x sx
  let y := opnd z y sy
  let u := opnd z u su
  if u.form == .zero && x.form == .finite && y.form == .finite then
    mul z x y sx sy
  else
    -- z0 is z itself unless u is the receiver (then a fresh scratch Decimal)
    let z0 : Dec := if su then { mode := z.mode, prec := z.prec } else z
    let z0 := { z0 with neg := x.neg != y.neg }
    -- the final `z.Add(z0, u)`: when z0 is z, its first operand is the receiver itself
    let finish (z0 : Dec) : Dec × Outcome := if su then add z z0 u false true else add z0 z0 u true false
    if x.form == .finite && y.form == .finite then
      let z0 := umul { z0 with prec := MaxPrec } x y
      finish { z0 with prec := z.prec }
    else if (x.form == .zero && y.form == .inf) || (x.form == .inf && y.form == .zero) then
      ({ z with acc := Exact, form := .zero, neg := false }, .errNaN)
    else if x.form == .inf || y.form == .inf then
      finish { z0 with acc := Exact, form := .inf }
    else
      finish { z0 with acc := Exact, form := .zero }

/-- `z.setBits64(neg, x, exp)`. -/
def setBits64 (z : Dec) (neg : Bool) (x : Nat) (exp : Int) : Dec :=
  let z := if z.prec == 0 then { z with prec := DefaultPrec } else z
  let z := { z with acc := Exact, neg := neg }
  if x == 0 then { z with form := .zero }
  else setNormAndRound { z with form := .finite } x exp false

/-- `NewDecimal(x, exp)`. -/
def newDecimal (x : Int) (exp : Int) : Dec :=
  setBits64 {} (x < 0) x.natAbs exp

/-- `z.SetMantExp(mant, exp)`. -/
def setMantExp (z mant : Dec) (exp : Int) (same : Bool := false) : Dec :=
  let z := copy z mant same
  if z.form != .finite then z else setExpAndRound z (z.exp + exp) false

/-- `x.MantExp(mant)`: returns the exponent and the new state of `mant`. -/
def mantExp (x mant : Dec) (same : Bool := false) : Int × Dec :=
  let e := if x.form == .finite then x.exp else 0
  let m := copy mant x same
  (e, if m.form == .finite then { m with exp := 0 } else m)

/-- `x.MinPrec()`. -/
def trailingZeros (M : Nat) : Nat :=
  if h : M = 0 then 0 else if M % 10 = 0 then trailingZeros (M / 10) + 1 else 0
decreasing_by omega

def minPrec (x : Dec) : Nat :=
  if x.form != .finite then 0 else x.len * DW - trailingZeros x.mant

/-- `x.IsInt()`. -/
def isInt (x : Dec) : Bool :=
  if x.form != .finite then x.form == .zero
  else if x.exp ≤ 0 then false
  else decide ((x.prec : Int) ≤ x.exp) || decide ((minPrec x : Int) ≤ x.exp)

/-- `x.intMant()` as a number: the integer part of `|x|` (for `x.exp > 0`). -/
def intMant (x : Dec) : Nat :=
  let all : Int := (x.len * DW : Nat)
  if x.exp > all then x.mant * 10 ^ (x.exp - all).toNat
  else if x.exp < all then x.mant / 10 ^ (all - x.exp).toNat
  else x.mant

/-- `x.Int64()`. -/
def toInt64 (x : Dec) : Int × Acc :=
  match x.form with
  | .zero => (0, Exact)
  | .inf => if x.neg then (-9223372036854775808, Above) else (9223372036854775807, Below)
  | .finite =>
    let acc := makeAcc x.neg
    if x.exp ≤ 0 then (0, acc)
    else
      let sat : Int × Acc := if x.neg then (-9223372036854775808, Above) else (9223372036854775807, Below)
      if x.exp ≤ 20 then
        let t := intMant x
        if t < 2 ^ 64 then
          let acc := if (minPrec x : Int) ≤ x.exp then Exact else acc
          if t < 2 ^ 63 || (x.neg && t == 2 ^ 63) then
            ((if x.neg then -(t : Int) else t), acc)
          else sat
        else sat
      else sat

/-- `x.Uint64()`. -/
def toUint64 (x : Dec) : Nat × Acc :=
  match x.form with
  | .zero => (0, Exact)
  | .inf => if x.neg then (0, Above) else (18446744073709551615, Below)
  | .finite =>
    if x.neg then (0, Above)
    else if x.exp ≤ 0 then (0, Below)
    else if x.exp ≤ 20 then
      let acc := if (minPrec x : Int) > x.exp then Below else Exact
      let t := intMant x
      if t < 2 ^ 64 then (t, acc) else (18446744073709551615, Below)
    else (18446744073709551615, Below)

/-- `x.Int(nil)`: truncated integer (none for infinities) and accuracy. -/
def toInt (x : Dec) : Option Int × Acc :=
  match x.form with
  | .zero => (some 0, Exact)
  | .inf => (none, makeAcc x.neg)
  | .finite =>
    let acc := makeAcc x.neg
    if x.exp ≤ 0 then (some 0, acc)
    else
      let acc := if (minPrec x : Int) ≤ x.exp then Exact else acc
      let t : Int := intMant x
      (some (if x.neg then -t else t), acc)

/-- `z.SetBitsExp(mant, exp)`: `M` is the value of the raw slice, `rawLen` its length. -/
def setBitsExp (z : Dec) (M rawLen : Nat) (exp : Int) : Dec :=
  let z := { z with neg := false }
  if M == 0 then { z with acc := Exact, form := .zero, exp := 0, mant := 0, len := 0 }
  else
    -- exp - dnorm - (len(mant) - len(z.mant))*_DW  with z.mant = norm(mant)
    let len := nwords M
    let s := dnormShift M len
    setExpAndRound { z with mant := M * 10 ^ s, len := len } (exp - (s : Nat) - ((rawLen - len : Nat) * DW : Nat)) false

/-- `z.SetInt(x)` for the integer `x` (as repaired: `SetInt(0)` keeps a non-zero precision). -/
def setInt (z : Dec) (x : Int) : Dec :=
  let z := { z with acc := Exact, neg := decide (x < 0) }
  if x == 0 then
    { z with form := .zero, prec := if z.prec == 0 then DefaultPrec else z.prec }
  else
    let M := x.natAbs
    let z :=
      if z.prec == 0 then
        let digits := ndigits M
        let digits := if digits > MaxPrec then MaxPrec else digits
        { z with prec := umax digits DefaultPrec }
      else z
    setNormAndRound z M 0 false

end Decimal
