/-
  Basic definitions shared by every layer of the model of db47h/decimal.

  Core Lean only (no Mathlib): everything here is compiled into the driver.
-/

namespace Decimal

/-- Decimal word base on 64-bit platforms: `_DB = 10^19`. -/
def B : Nat := 10000000000000000000
/-- Decimal digits per word: `_DW = 19`. -/
def DW : Nat := 19

def MaxExp : Int := 2147483647
def MinExp : Int := -2147483648
def MaxPrec : Nat := 4294967295
def DefaultPrec : Nat := 34

/-- Value of a little-endian vector of base-`B` words. -/
def natOf : List Nat → Nat
  | [] => 0
  | w :: ws => w + B * natOf ws

/-- Number of decimal digits of `n` (0 for 0): the `n` with `10^(n-1) ≤ x < 10^n`. -/
def ndigits (n : Nat) : Nat :=
  if h : n = 0 then 0 else ndigits (n / 10) + 1
decreasing_by omega

/-- Number of base-`B` words of the normalised vector holding `n`. -/
def nwords (n : Nat) : Nat := (ndigits n + (DW - 1)) / DW

/-- The normalised little-endian word vector of `n`. -/
def wordsOf (n : Nat) : List Nat :=
  if h : n = 0 then [] else (n % B) :: wordsOf (n / B)
decreasing_by
  exact Nat.div_lt_self (by omega) (by unfold B; omega)

/-- Rounding modes, in the order of the Go constants (`ToNearestEven = 0` …). -/
inductive Mode
  | ToNearestEven | ToNearestAway | ToZero | AwayFromZero | ToNegativeInf | ToPositiveInf
  deriving DecidableEq, Repr, Inhabited

def Mode.toNat : Mode → Nat
  | .ToNearestEven => 0 | .ToNearestAway => 1 | .ToZero => 2
  | .AwayFromZero => 3 | .ToNegativeInf => 4 | .ToPositiveInf => 5

def Mode.ofNat? : Nat → Option Mode
  | 0 => some .ToNearestEven | 1 => some .ToNearestAway | 2 => some .ToZero
  | 3 => some .AwayFromZero | 4 => some .ToNegativeInf | 5 => some .ToPositiveInf
  | _ => none

/-- Internal representation class, in the order of the Go constants (`zero = 0`, `finite`, `inf`). -/
inductive Form
  | zero | finite | inf
  deriving DecidableEq, Repr, Inhabited

def Form.toNat : Form → Nat
  | .zero => 0 | .finite => 1 | .inf => 2

def Form.ofNat? : Nat → Option Form
  | 0 => some .zero | 1 => some .finite | 2 => some .inf | _ => none

/-- Accuracy: `Below = -1`, `Exact = 0`, `Above = +1`. -/
abbrev Acc := Int
def Below : Acc := -1
def Exact : Acc := 0
def Above : Acc := 1

def makeAcc (above : Bool) : Acc := if above then Above else Below

/--
  The state of one `Decimal` variable (L1).

  The mantissa is held as the integer value `mant` of the Go word vector together with the
  vector's length `len` in words; for a finite canonical Decimal `ndigits mant = 19 * len`
  (the most significant word has a non-zero most significant digit), and the value is
  `(-1)^neg × mant × 10^(exp − 19·len)`.
-/
structure Dec where
  form : Form := .zero
  neg : Bool := false
  mant : Nat := 0
  len : Nat := 0
  exp : Int := 0
  prec : Nat := 0
  mode : Mode := .ToNearestEven
  acc : Acc := 0
  deriving Repr, Inhabited

/-- Result of running an operation: Go either returns or panics. -/
inductive Outcome
  | ok
  | errNaN
  | panicOther (msg : String)
  deriving DecidableEq, Repr, Inhabited

def umax (a b : Nat) : Nat := if a > b then a else b

end Decimal
