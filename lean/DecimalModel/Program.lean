/-
  L2: programs over variables. A state is a list of Decimal variables plus one Context; an
  operation names its receiver and operands by variable index, so aliasing (`z.Add(z, y)`,
  `z.FMA(x, x, z)`, …) is expressible. `step` reads the operand *values* before the operation
  and replaces the receiver's state; no other variable changes (the frame rule is built in and is
  checked against the real code by the harness's before/after snapshots).
-/
import DecimalModel.Context
import DecimalModel.Gob

namespace Decimal

inductive Op
  | add (z x y : Nat) | sub (z x y : Nat) | mul (z x y : Nat) | quo (z x y : Nat)
  | fma (z x y u : Nat)
  | set (z x : Nat) | neg (z x : Nat) | abs (z x : Nat) | copy (z x : Nat) | sqrt (z x : Nat)
  | setPrec (z : Nat) (p : Nat) | setMode (z : Nat) (m : Mode) | setInf (z : Nat) (s : Bool)
  | setBits64 (z : Nat) (neg : Bool) (v : Nat) (e : Int)
  | setInt (z : Nat) (v : Int)
  | setBitsExp (z : Nat) (words : List Nat) (e : Int)
  | setMantExp (z m : Nat) (e : Int) | mantExp (x m : Nat)
  | gobDecode (z : Nat) (bytes : List Nat)
  -- context operations
  | cSetPrec (p : Nat) | cSetMode (m : Mode) | cErr
  | cAdd (z x y : Nat) | cSub (z x y : Nat) | cMul (z x y : Nat) | cQuo (z x y : Nat)
  | cFma (z x y u : Nat) | cSqrt (z x : Nat) | cSet (z x : Nat) | cNeg (z x : Nat) | cAbs (z x : Nat)
  deriving Repr

structure World where
  vars : List Dec
  ctx : Ctx := {}
  deriving Repr

def World.get (w : World) (i : Nat) : Dec := w.vars.getD i {}

def World.put (w : World) (i : Nat) (d : Dec) : World := { w with vars := w.vars.set i d }

/-- Effective precision after the prologue of `SetBitsExp` (as repaired). -/
def setBitsExpFull (z : Dec) (words : List Nat) (e : Int) : Dec :=
  let M := natOf words
  let z1 := if z.prec == 0 && M != 0 then
      { z with prec := umax (if nwords M * DW > MaxPrec then MaxPrec else nwords M * DW) DefaultPrec } else z
  setBitsExp z1 M words.length e

/-- One step. The second component is what the caller observes: a normal return, an ErrNaN panic,
    or another panic; for `cErr` whether an error was returned is in the third component. -/
def step (w : World) : Op → World × Outcome × Bool
  | .add z x y => let (d, o) := add (w.get z) (w.get x) (w.get y) (x == z) (y == z); (w.put z d, o, false)
  | .sub z x y => let (d, o) := sub (w.get z) (w.get x) (w.get y) (x == z) (y == z); (w.put z d, o, false)
  | .mul z x y => let (d, o) := mul (w.get z) (w.get x) (w.get y) (x == z) (y == z); (w.put z d, o, false)
  | .quo z x y => let (d, o) := quo (w.get z) (w.get x) (w.get y) (x == z) (y == z); (w.put z d, o, false)
  | .fma z x y u =>
    let (d, o) := fma (w.get z) (w.get x) (w.get y) (w.get u) (x == z) (y == z) (u == z); (w.put z d, o, false)
  | .set z x => (w.put z (set (w.get z) (w.get x) (x == z)), .ok, false)
  | .neg z x => (w.put z (neg (w.get z) (w.get x) (x == z)), .ok, false)
  | .abs z x => (w.put z (abs (w.get z) (w.get x) (x == z)), .ok, false)
  | .copy z x => (w.put z (copy (w.get z) (w.get x) (x == z)), .ok, false)
  | .sqrt z x => let (d, o) := sqrt (w.get z) (w.get x) (x == z); (w.put z d, o, false)
  | .setPrec z p => (w.put z (setPrec (w.get z) p), .ok, false)
  | .setMode z m => (w.put z (setMode (w.get z) m), .ok, false)
  | .setInf z s => (w.put z (setInf (w.get z) s), .ok, false)
  | .setBits64 z n v e => (w.put z (setBits64 (w.get z) n v e), .ok, false)
  | .setInt z v => (w.put z (setInt (w.get z) v), .ok, false)
  | .setBitsExp z ws e => (w.put z (setBitsExpFull (w.get z) ws e), .ok, false)
  | .setMantExp z m e => (w.put z (setMantExp (w.get z) (w.get m) e (m == z)), .ok, false)
  | .mantExp x m => (w.put m (mantExp (w.get x) (w.get m) (m == x)).2, .ok, false)
  | .gobDecode z bs => (match gobDecode (w.get z) bs with | some d => w.put z d | none => w, .ok, false)
  | .cSetPrec p => ({ w with ctx := { w.ctx with prec := ctxSetPrecVal p } }, .ok, false)
  | .cSetMode m => ({ w with ctx := { w.ctx with mode := m } }, .ok, false)
  | .cErr => let (e, c) := w.ctx.takeErr; ({ w with ctx := c }, .ok, e)
  | .cAdd z x y =>
    let (d, c, o) := w.ctx.guarded (w.get z) (fun za => add za (w.get x) (w.get y) (x == z) (y == z))
    ({ (w.put z d) with ctx := c }, o, false)
  | .cSub z x y =>
    let (d, c, o) := w.ctx.guarded (w.get z) (fun za => sub za (w.get x) (w.get y) (x == z) (y == z))
    ({ (w.put z d) with ctx := c }, o, false)
  | .cMul z x y =>
    let (d, c, o) := w.ctx.guarded (w.get z) (fun za => mul za (w.get x) (w.get y) (x == z) (y == z))
    ({ (w.put z d) with ctx := c }, o, false)
  | .cQuo z x y =>
    let (d, c, o) := w.ctx.guarded (w.get z) (fun za => quo za (w.get x) (w.get y) (x == z) (y == z))
    ({ (w.put z d) with ctx := c }, o, false)
  | .cFma z x y u =>
    let (d, c, o) := w.ctx.guarded (w.get z) (fun za => fma za (w.get x) (w.get y) (w.get u) (x == z) (y == z) (u == z))
    ({ (w.put z d) with ctx := c }, o, false)
  | .cSqrt z x =>
    let (d, c, o) := w.ctx.guarded (w.get z) (fun za => sqrt za (w.get x) (x == z))
    ({ (w.put z d) with ctx := c }, o, false)
  | .cSet z x => (w.put z (if w.ctx.err then w.get z else w.ctx.apply (copy (w.get z) (w.get x) (x == z))), .ok, false)
  | .cNeg z x => (w.put z (w.ctx.plain (w.get z) (fun za => neg za (w.get x) (x == z))), .ok, false)
  | .cAbs z x => (w.put z (w.ctx.plain (w.get z) (fun za => abs za (w.get x) (x == z))), .ok, false)

/-- Run a program; a non-NaN panic stops it (the Go program would have crashed). -/
def run (w : World) : List Op → World
  | [] => w
  | op :: ops =>
    match step w op with
    | (w', .panicOther _, _) => w'
    | (w', _, _) => run w' ops

/-- Canonical form (C08): what the public API can observe of a variable is well-formed. -/
def Dec.Canonical (z : Dec) : Prop :=
  z.prec ≤ MaxPrec ∧ (z.acc = -1 ∨ z.acc = 0 ∨ z.acc = 1) ∧
  (z.form = .finite →
    1 ≤ z.len ∧ ndigits z.mant = z.len * DW ∧ MinExp ≤ z.exp ∧ z.exp ≤ MaxExp ∧ 1 ≤ z.prec ∧
    (z.len * DW ≤ z.prec ∨ z.mant % 10 ^ (z.len * DW - z.prec) = 0))

end Decimal
