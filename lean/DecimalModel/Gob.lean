/-
  Model of GobEncode / GobDecode (decimal_marsh.go, as repaired) on byte lists.

  Layout: version(1) | mode<<5 | (acc+1)<<3 | form<<1 | neg | prec (4, big endian)
          [ exp (4, big endian, two's complement) | mantissa words, most significant first,
            each as 8 big-endian bytes ]     (finite values only)
-/
import DecimalModel.Arith

namespace Decimal

def be32 (v : Nat) : List Nat := [v / 16777216 % 256, v / 65536 % 256, v / 256 % 256, v % 256]
def be64 (v : Nat) : List Nat := be32 (v / 4294967296) ++ be32 (v % 4294967296)

def ofBE (bs : List Nat) : Nat := bs.foldl (fun acc b => acc * 256 + b) 0

/-- little-endian words of a mantissa held as (value, length) -/
def wordsOfLen (M : Nat) : Nat → List Nat
  | 0 => []
  | n + 1 => (M % B) :: wordsOfLen (M / B) n

/-- `x.GobEncode()`. -/
def gobEncode (x : Dec) : List Nat :=
  let b := (x.mode.toNat % 8) * 32 + ((x.acc + 1).toNat % 4) * 8 + (x.form.toNat % 4) * 2 + (if x.neg then 1 else 0)
  let hdr := [1, b] ++ be32 x.prec
  if x.form == .finite then
    let n0 := (x.prec + (DW - 1)) / DW
    let n := if x.len < n0 then x.len else n0
    let ws := (wordsOfLen x.mant x.len).drop (x.len - n)       -- top n words, little endian
    let e : Nat := (x.exp % 4294967296).toNat
    hdr ++ be32 e ++ (ws.reverse.map be64).flatten
  else hdr

/-- `z.setBytes(buf)`: big-endian bytes to little-endian 64-bit words (the last group may be short), normalised. -/
def setBytesWords (buf : List Nat) : List Nat :=
  let rec go (rev : List Nat) (fuel : Nat) : List Nat :=
    match fuel with
    | 0 => []
    | fuel + 1 =>
      if rev.isEmpty then [] else
      let chunk := rev.take 8            -- least significant byte first
      (chunk.reverse |> ofBE) :: go (rev.drop 8) fuel
  let ws := go buf.reverse (buf.length + 1)
  (ws.reverse.dropWhile (· == 0)).reverse

/-- `z.GobDecode(buf)`: `none` = an error is returned and z is untouched. -/
def gobDecode (z : Dec) (buf : List Nat) : Option Dec :=
  if buf.isEmpty then some {} else
  if buf.headD 0 != 1 then none else
  if buf.length < 6 then none else
  let b := buf.getD 1 0
  let modeN := b / 32 % 8
  let accN : Int := (b / 8 % 4 : Nat) - 1
  let formN := b / 2 % 4
  let neg := b % 2 == 1
  let prec := ofBE ((buf.drop 2).take 4)
  match Mode.ofNat? modeN, Form.ofNat? formN with
  | some mode, some form =>
    if accN > 1 then none else
    let fin : Option (Int × Nat × Nat) :=
      if form == .finite then
        if buf.length < 10 then none else
        let eU := ofBE ((buf.drop 6).take 4)
        let e : Int := if eU ≥ 2147483648 then (eU : Int) - 4294967296 else eU
        let ws := setBytesWords (buf.drop 10)
        let M := natOf ws
        let len := ws.length
        if len == 0 || ws.getLast?.getD 0 < B / 10 then none
        else if ws.any (· ≥ B) then none
        else if len * DW - trailingZeros M > prec then none
        else some (e, M, len)
      else some (0, 0, 0)
    match fin with
    | none => none
    | some (e, M, len) =>
      let oldPrec := z.prec
      let oldMode := z.mode
      let z := { z with mode := mode, acc := accN, form := form, neg := neg, prec := prec }
      let z := if form == .finite then { z with exp := e, mant := M, len := len } else z
      if oldPrec != 0 then some (setPrec { z with mode := oldMode } oldPrec) else some z
  | _, _ => none

end Decimal
