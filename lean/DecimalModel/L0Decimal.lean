/-
  Word-level (L0) model of the arithmetic core of decimal.go: the `Decimal` struct with its
  mantissa as a little-endian list of base-10^19 words, and `round`, `setExpAndRound`, `dnorm`,
  `uadd`, `usub`, `umul`, `uquo`, `ucmp` following /repo/decimal.go statement by statement at the
  granularity of the dec-level calls: where Go calls `z.mant.shl / add / sub / mul / sqr / div`,
  `.digit(i)`, `.sticky(i)`, `add10VW`, `shl10VU`, `nlz10`, `pow10`, the model calls the L0
  function of `Vec.lean` / `DecOps.lean` / `DivRec.lean` / `Gen/WordOps.lean` (the small missing
  ones, `digit` and `sticky`, are transcribed from dec.go here).

  Conventions
  * value semantics: every operation returns the new state of the receiver `z`; aliasing of the
    mantissa slices is handled elsewhere (L2, C10);
  * Go panics are explicit (`Except String`): the index expressions `z.mant[n-1]`, `z.mant[0]`,
    `m[len(m)-1]`, and the panics of `dec.sub` ("underflow") and `dec.div`;
  * machine integers are unbounded (`Nat` / `Int`), exactly as in the L1 model: `uint32(len)*_DW`,
    the `int64` exponent arithmetic and `z.exp++` cannot wrap for slices that fit in memory;
  * the tuning thresholds are a parameter `Thr` whose default is the production setting.

  Core Lean only: this file is linked into the driver.
-/
import DecimalModel.DivRec
import DecimalModel.Arith

namespace Decimal.W
open Decimal Decimal.L0 Decimal.Gen

/-- The state of one `Decimal` variable, mantissa as words (least significant first). -/
structure WDec where
  form : Form := .zero
  neg : Bool := false
  mant : List Nat := []
  exp : Int := 0
  prec : Nat := 0
  mode : Mode := .ToNearestEven
  acc : Acc := 0
  deriving Repr, Inhabited

/-- Tuning thresholds (`decKaratsubaThreshold`, `decBasicSqrThreshold`,
    `decKaratsubaSqrThreshold`, `divRecursiveThreshold`). -/
structure Thr where
  kmul : Nat := v_decKaratsubaThreshold
  bsqr : Nat := v_decBasicSqrThreshold
  ksqr : Nat := v_decKaratsubaSqrThreshold
  drec : Nat := c_divRecursiveThreshold
  deriving Repr, Inhabited

/-- The abstraction to L1: the mantissa's value and its length in words. -/
def abs (w : WDec) : Dec :=
  { form := w.form, neg := w.neg, mant := natOf w.mant, len := w.mant.length, exp := w.exp,
    prec := w.prec, mode := w.mode, acc := w.acc }

/-- the `n` low words of `M` (least significant first). -/
def toWords (M : Nat) : Nat → List Nat
  | 0 => []
  | n + 1 => (M % B) :: toWords (M / B) n

/-- The word-level state whose abstraction is the L1 state `d` (when `d.mant < B^d.len`). -/
def ofDec (d : Dec) : WDec :=
  { form := d.form, neg := d.neg, mant := toWords d.mant d.len, exp := d.exp, prec := d.prec,
    mode := d.mode, acc := d.acc }

/-- `x.digit(i)` (dec.go:79). -/
def digit (x : List Nat) (i : Nat) : Nat :=
  let j := i / c_DW
  let i := i % c_DW
  if j ≥ x.length then 0
  else (x.getD j 0 / pow10w i) % 10

/-- `x.sticky(i)` (dec.go:219). -/
def sticky (x : List Nat) (i : Nat) : Nat :=
  let j := i / c_DW
  let i := i % c_DW
  if j ≥ x.length then (if x.length = 0 then 0 else 1)
  else if (x.take j).any (· != 0) then 1
  else if x.getD j 0 % pow10w i != 0 then 1
  else 0

/-- `dnorm(m)` (decimal.go:1672): returns the shifted mantissa and the shift. The carry of
    `shl10VU` is dropped, as in Go (it is only checked under `debugDecimal`). -/
def dnorm (m : List Nat) : Except String (List Nat × Nat) :=
  if m.length = 0 then .error "index out of range"
  else
    let s := nlz10 (m.getD (m.length - 1) 0)
    if s > 0 then .ok ((shl10VU m s).1, s) else .ok (m, s)

/-- the `switch z.mode` of `round` (decimal.go:1631-1646); `lsdigit` is `z.mant.digit(ntz)`. -/
def incDecision (mode : Mode) (neg : Bool) (rdigit sbit lsdigit : Nat) : Bool :=
  match mode with
  | .ToNegativeInf => neg
  | .ToZero => false
  | .ToNearestEven => rdigit > 5 || (rdigit == 5 && (sbit != 0 || lsdigit % 2 != 0))
  | .ToNearestAway => rdigit ≥ 5
  | .AwayFromZero => true
  | .ToPositiveInf => !neg

/-- `z.mant[0] -= z.mant[0] % Word(lsd)` (decimal.go:1664). -/
def clearLow (z : WDec) (lsd : Nat) : Except String WDec :=
  match z.mant with
  | [] => .error "index out of range"
  | w0 :: ws => .ok { z with mant := (w0 - w0 % lsd) :: ws }

/-- `z.round(sbit)` (decimal.go:1580). -/
def round (z : WDec) (sbit : Nat) : Except String WDec :=
  let z := { z with acc := Exact }
  if z.form != .finite then .ok z else
  let m := z.mant.length
  let digits := m * c_DW
  if digits ≤ z.prec then .ok z else
  let r := digits - z.prec - 1
  let rdigit := digit z.mant r
  let sbit := if sbit == 0 && (rdigit == 0 || z.mode == .ToNearestEven) then sticky z.mant r else sbit
  let sbit := sbit % 2
  -- cut off extra words
  let n := (z.prec + (c_DW - 1)) / c_DW
  let z := if m > n then { z with mant := z.mant.drop (m - n) } else z
  let ntz := n * c_DW - z.prec
  let lsd := pow10w ntz
  if rdigit != 0 || sbit != 0 then
    let inc := incDecision z.mode z.neg rdigit sbit (digit z.mant ntz)
    let z := { z with acc := makeAcc (inc != z.neg) }
    if inc then
      let (mant, c) := add10VW z.mant lsd
      let z := { z with mant := mant }
      if c != 0 then
        if z.exp ≥ MaxExp then .ok { z with form := .inf }
        else if n = 0 ∨ n - 1 ≥ z.mant.length then .error "index out of range"
        else clearLow { z with exp := z.exp + 1, mant := z.mant.set (n - 1) (c_DB / 10) } lsd
      else clearLow z lsd
    else clearLow z lsd
  else clearLow z lsd

/-- `z.setExpAndRound(exp, sbit)` (decimal.go:1263). -/
def setExpAndRound (z : WDec) (exp : Int) (sbit : Nat) : Except String WDec :=
  if exp < MinExp then .ok { z with acc := makeAcc z.neg, form := .zero }
  else if exp > MaxExp then .ok { z with acc := makeAcc (!z.neg), form := .inf }
  else round { z with form := .finite, exp := exp } sbit

/-- the common tail `z.setExpAndRound(e - dnorm(z.mant), sbit)` with `z.mant` already assigned. -/
def dnormAndRound (z : WDec) (e : Int) (sbit : Nat) : Except String WDec :=
  match dnorm z.mant with
  | .error e => .error e
  | .ok (mant, s) => setExpAndRound { z with mant := mant } (e - (s : Int)) sbit

/-- `z.uadd(x, y)` (decimal.go:204). -/
def uadd (z x y : WDec) : Except String WDec :=
  let ex : Int := x.exp - (x.mant.length : Int) * (c_DW : Nat)
  let ey : Int := y.exp - (y.mant.length : Int) * (c_DW : Nat)
  let (mant, ex) :=
    if ex < ey then (L0.add x.mant (L0.shl y.mant (ey - ex).toNat), ex)
    else if ex > ey then (L0.add (L0.shl x.mant (ex - ey).toNat) y.mant, ey)
    else (L0.add x.mant y.mant, ex)
  dnormAndRound { z with mant := mant } (ex + (mant.length : Int) * (c_DW : Nat)) 0

/-- `z.usub(x, y)` (decimal.go:259). -/
def usub (z x y : WDec) : Except String WDec :=
  let ex : Int := x.exp - (x.mant.length : Int) * (c_DW : Nat)
  let ey : Int := y.exp - (y.mant.length : Int) * (c_DW : Nat)
  let (res, ex) :=
    if ex < ey then (L0.sub x.mant (L0.shl y.mant (ey - ex).toNat), ex)
    else if ex > ey then (L0.sub (L0.shl x.mant (ex - ey).toNat) y.mant, ey)
    else (L0.sub x.mant y.mant, ex)
  match res with
  | .error e => .error e
  | .ok mant =>
    let z := { z with mant := mant }
    if z.mant.length = 0 then .ok { z with acc := Exact, form := .zero, neg := false }
    else dnormAndRound z (ex + (mant.length : Int) * (c_DW : Nat)) 0

/-- the loop of `ucmp`, on the mantissas most significant word first (`i`, `j` count down). -/
def ucmpLoop : List Nat → List Nat → Int
  | [], [] => 0
  | a :: as, [] => if a < 0 then -1 else if a > 0 then 1 else ucmpLoop as []
  | [], b :: bs => if 0 < b then -1 else if 0 > b then 1 else ucmpLoop [] bs
  | a :: as, b :: bs => if a < b then -1 else if a > b then 1 else ucmpLoop as bs
termination_by xs ys => xs.length + ys.length

/-- `x.ucmp(y)` (decimal.go:367). -/
def ucmp (x y : WDec) : Int :=
  if x.exp < y.exp then -1
  else if x.exp > y.exp then 1
  else ucmpLoop x.mant.reverse y.mant.reverse

/-- `z.umul(x, y)` (decimal.go:1690); `xyEq` is the pointer test `x == y`. -/
def umul (z x y : WDec) (xyEq : Bool := false) (t : Thr := {}) : Except String WDec :=
  let e : Int := x.exp + y.exp
  let mant :=
    if xyEq then L0.sqr t.bsqr t.ksqr t.kmul x.mant.length x.mant
    else L0.mul t.kmul (x.mant.length + y.mant.length + 1) x.mant y.mant
  dnormAndRound { z with mant := mant } e 0

/-- `z.uquo(x, y)` (decimal.go:922). -/
def uquo (z x y : WDec) (t : Thr := {}) : Except String WDec :=
  let n : Int := ((z.prec / c_DW : Nat) : Int) + 1
  let d : Int := n - (x.mant.length : Int) + (y.mant.length : Int)
  let xadj := if d > 0 then zeros d.toNat ++ x.mant else x.mant
  let d : Int := (xadj.length : Int) - (y.mant.length : Int)
  match divFull t.drec t.kmul xadj y.mant with
  | .error e => .error e
  | .ok (q, r) =>
    let e : Int := x.exp - y.exp - (d - (q.length : Int)) * (c_DW : Nat)
    let sbit := if r.length > 0 then 1 else 0
    dnormAndRound { z with mant := q } e sbit

/-! ### the public methods built on them (operands distinct from the receiver) -/

/-- `z.Set(x)` (decimal.go:1023); `same` is the pointer test `z == x`. -/
def set (z x : WDec) (same : Bool := false) : Except String WDec :=
  let z := { z with acc := Exact }
  if same then .ok z else
  let z := { z with form := x.form, neg := x.neg }
  let z := if x.form == .finite then { z with exp := x.exp, mant := x.mant } else z
  if z.prec == 0 then .ok { z with prec := x.prec }
  else if z.prec < x.prec then round z 0
  else .ok z

/-- `if z.prec == 0 { z.prec = umax32(x.prec, y.prec) }`. -/
def prologue2 (z x y : WDec) : WDec :=
  if z.prec == 0 then { z with prec := umax32 x.prec y.prec } else z

/-- `if z.form == zero && z.mode == ToNegativeInf && z.acc == Exact { z.neg = true }`. -/
def zeroSignFix (z : WDec) : WDec :=
  if z.form == .zero && z.mode == .ToNegativeInf && z.acc == Exact then { z with neg := true } else z

def withOutcome (r : Except String WDec) (o : Outcome) : Except String (WDec × Outcome) :=
  match r with
  | .error e => .error e
  | .ok z => .ok (z, o)

/-- `z.Add(x, y)` (decimal.go:130). `panic(ErrNaN{…})` is the outcome `.errNaN`; any other panic
    is `.error`. -/
def add (z x y : WDec) : Except String (WDec × Outcome) :=
  let z := prologue2 z x y
  if x.form == .finite && y.form == .finite then
    let yneg := y.neg
    let z := { z with neg := x.neg }
    let r :=
      if x.neg == yneg then uadd z x y
      else if ucmp x y > 0 then usub z x y
      else usub { z with neg := !z.neg } y x
    match r with
    | .error e => .error e
    | .ok z => .ok (zeroSignFix z, .ok)
  else if x.form == .inf && y.form == .inf && x.neg != y.neg then
    .ok ({ z with acc := Exact, form := .zero, neg := false }, .errNaN)
  else if x.form == .zero && y.form == .zero then
    .ok ({ z with acc := Exact, form := .zero,
                  neg := (x.neg && y.neg) || (x.neg != y.neg && z.mode == .ToNegativeInf) }, .ok)
  else if x.form == .inf || y.form == .zero then withOutcome (set z x) .ok
  else withOutcome (set z y) .ok

/-- `z.Sub(x, y)` (decimal.go:1402). -/
def sub (z x y : WDec) : Except String (WDec × Outcome) :=
  let z := prologue2 z x y
  if x.form == .finite && y.form == .finite then
    let yneg := y.neg
    let z := { z with neg := x.neg }
    let r :=
      if x.neg != yneg then uadd z x y
      else if ucmp x y > 0 then usub z x y
      else usub { z with neg := !z.neg } y x
    match r with
    | .error e => .error e
    | .ok z => .ok (zeroSignFix z, .ok)
  else if x.form == .inf && y.form == .inf && x.neg == y.neg then
    .ok ({ z with acc := Exact, form := .zero, neg := false }, .errNaN)
  else if x.form == .zero && y.form == .zero then
    .ok ({ z with acc := Exact, form := .zero,
                  neg := (x.neg && !y.neg) || (x.neg == y.neg && z.mode == .ToNegativeInf) }, .ok)
  else if x.form == .inf || y.form == .zero then withOutcome (set z x) .ok
  else
    let z := { z with acc := Exact }
    let neg := !y.neg
    let z := { z with form := y.form }
    let z := if y.form == .finite then { z with exp := y.exp, mant := y.mant } else z
    let z := { z with neg := neg }
    withOutcome (round z 0) .ok

/-- `z.Mul(x, y)` (decimal.go:750); `xyEq` is the pointer test `x == y` of `umul`. -/
def mul (z x y : WDec) (xyEq : Bool := false) (t : Thr := {}) : Except String (WDec × Outcome) :=
  let z := prologue2 z x y
  let z := { z with neg := x.neg != y.neg }
  if x.form == .finite && y.form == .finite then withOutcome (umul z x y xyEq t) .ok
  else
    let z := { z with acc := Exact }
    if (x.form == .zero && y.form == .inf) || (x.form == .inf && y.form == .zero) then
      .ok ({ z with form := .zero, neg := false }, .errNaN)
    else if x.form == .inf || y.form == .inf then .ok ({ z with form := .inf }, .ok)
    else .ok ({ z with form := .zero }, .ok)

/-- `z.Quo(x, y)` (decimal.go:878). -/
def quo (z x y : WDec) (t : Thr := {}) : Except String (WDec × Outcome) :=
  let z := prologue2 z x y
  let z := { z with neg := x.neg != y.neg }
  if x.form == .finite && y.form == .finite then withOutcome (uquo z x y t) .ok
  else
    let z := { z with acc := Exact }
    if (x.form == .zero && y.form == .zero) || (x.form == .inf && y.form == .inf) then
      .ok ({ z with form := .zero, neg := false }, .errNaN)
    else if x.form == .zero || y.form == .inf then .ok ({ z with form := .zero }, .ok)
    else .ok ({ z with form := .inf }, .ok)

/-- `z.SetPrec(prec)` (decimal.go:1325). -/
def setPrec (z : WDec) (prec : Nat) : Except String WDec :=
  let z := { z with acc := Exact }
  if prec == 0 then
    let z := { z with prec := 0 }
    if z.form == .finite then .ok { z with acc := makeAcc z.neg, form := .zero } else .ok z
  else
    let prec := if prec > MaxPrec then MaxPrec else prec
    let old := z.prec
    let z := { z with prec := prec }
    if z.prec < old then round z 0 else .ok z

end Decimal.W
