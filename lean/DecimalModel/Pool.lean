/-
  C18: an abstract model of the memory discipline of the library under concurrent use.

  Addresses are `Nat`, memory is `Nat → Nat`.  The address space is partitioned into
    * shared addresses   — the operands of concurrent calls: read by anyone, never written;
    * private addresses  — for each goroutine `g`, its receiver and its fresh allocations;
    * pool addresses     — `sync.Pool`-managed scratch storage, owned by at most one goroutine at
                           a time (`holder`), whose contents are garbage when obtained ("may not
                           be zero"): a holder must write a pool address before reading it.
  A trace is a list of events; `Disciplined` scans it left to right and checks the premises
  P1–P4 below.  Core Lean only.
-/
namespace Decimal.Pool

abbrev Addr := Nat
abbrev Gid := Nat

inductive Ev
  | rd (g : Gid) (a : Addr) (v : Nat)
  | wr (g : Gid) (a : Addr) (v : Nat)
  | get (g : Gid) (a : Addr)
  | put (g : Gid) (a : Addr)
  deriving Repr, DecidableEq

def Ev.gid : Ev → Gid
  | .rd g _ _ | .wr g _ _ | .get g _ | .put g _ => g

def Ev.addr : Ev → Addr
  | .rd _ a _ | .wr _ a _ | .get _ a | .put _ a => a

/-- A memory access (as opposed to a pool hand-over). -/
def Ev.isAccess : Ev → Bool
  | .rd .. | .wr .. => true
  | _ => false

def Ev.isWrite : Ev → Bool
  | .wr .. => true
  | _ => false

/-- The partition of the address space. -/
structure Layout where
  shared : Addr → Bool
  priv : Gid → Addr → Bool
  pool : Addr → Bool

/-- P1: the three kinds of addresses are pairwise disjoint, and so are the private sets of
    different goroutines. -/
def Layout.WF (L : Layout) : Prop :=
  (∀ a, L.shared a = true → L.pool a = false) ∧
  (∀ g a, L.priv g a = true → L.shared a = false ∧ L.pool a = false) ∧
  (∀ g h a, L.priv g a = true → L.priv h a = true → g = h)

structure State where
  mem : Addr → Nat
  /-- current owner of a pool address -/
  holder : Addr → Option Gid
  /-- the holder has written the pool address since it got it -/
  written : Addr → Bool

def State.init (m : Addr → Nat) : State :=
  { mem := m, holder := fun _ => none, written := fun _ => false }

/-- P2–P4: may event `e` happen in state `s`?
    P2 `wr g a`: only to `g`'s private addresses or to pool addresses `g` holds.
    P3 `rd g a v`: shared, private to `g`, or held by `g` *and written by `g` since the get*;
       the value read is the current memory contents.
    P4 `get g a`: `a` is a pool address nobody holds; `put g a`: `g` holds `a`. -/
def Ev.ok (L : Layout) (s : State) : Ev → Prop
  | .wr g a _ => L.priv g a = true ∨ s.holder a = some g
  | .rd g a v =>
    (L.shared a = true ∨ L.priv g a = true ∨ (s.holder a = some g ∧ s.written a = true)) ∧ v = s.mem a
  | .get _ a => L.pool a = true ∧ s.holder a = none
  | .put g a => s.holder a = some g

def upd {β : Type} (f : Addr → β) (a : Addr) (b : β) : Addr → β := fun x => if x = a then b else f x

/-- The effect of an event on the memory and on the pool bookkeeping. -/
def State.next (s : State) : Ev → State
  | .rd _ _ _ => s
  | .wr _ a v => { s with mem := upd s.mem a v, written := upd s.written a true }
  | .get g a => { s with holder := upd s.holder a (some g), written := upd s.written a false }
  | .put _ a => { s with holder := upd s.holder a none, written := upd s.written a false }

def State.run (s : State) : List Ev → State
  | [] => s
  | e :: t => (s.next e).run t

/-- A trace obeys the discipline when every event is permitted in the state it happens in. -/
def Disciplined (L : Layout) (s : State) : List Ev → Prop
  | [] => True
  | e :: t => e.ok L s ∧ Disciplined L (s.next e) t

/-- The events of goroutine `g`, in order. -/
def proj (g : Gid) (t : List Ev) : List Ev := t.filter (fun e => e.gid == g)

/-- The last value `g` wrote to `a` in the trace, if any. -/
def lastWrite (g : Gid) (a : Addr) (t : List Ev) : Option Nat :=
  t.foldl (fun acc e => match e with
    | .wr g' a' v => if g' = g ∧ a' = a then some v else acc
    | _ => acc) none

end Decimal.Pool
