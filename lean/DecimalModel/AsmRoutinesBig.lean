/-
  Go-signature wrapper around the regenerated binary kernel `divWVW` of arith_amd64.s
  (`Gen/AsmBig.lean`), core Lean only.

  Same conventions as DecimalModel/AsmRoutines.lean (`initState`: ABI0 argument frame, word heap at
  `heapBase`; slices as (word offset, length) into the heap); the only difference is the program that
  is run: `Gen.AsmBig.program` instead of `Gen.Asm.program`.

      func divWVW(z []Word, xn Word, x []Word, y Word) (r Word)

  frame: z at 0/8/16, xn at 24, x at 32/40/48, y at 56, result r at 64.
-/
import DecimalModel.AsmRoutines
import DecimalModel.Gen.AsmBig

namespace Decimal.Asm

/-- Run a routine of arith_amd64.s. Result: (result words, heap afterwards); `none` on #DE (the Go
    run-time panic "integer divide error" / "integer overflow") or (impossible) lack of fuel. -/
def callKernelBig (entry : Decimal.Gen.AsmBig.Lbl) (args : List Arg) (nres : Nat) (heap : List Nat) :
    Option (List Nat × List Nat) :=
  match run Decimal.Gen.AsmBig.program (fuelFor heap) entry (initState args heap) with
  | none => none
  | some s =>
    if s.trap then none
    else some (readList s.frame (8 * (frameOf args).length) nres, readList s.mem heapBase heap.length)

/-- func divWVW(z []Word, xn Word, x []Word, y Word) (r Word), destination disjoint from the source
    (heap = z ++ x) -/
def asm_divWVW (x : List Nat) (xn y : Nat) : Option (List Nat × Nat) :=
  let n := x.length
  vecResult n (callKernelBig .divWVW_entry [.slice 0 n, .word xn, .slice n n, .word y] 1 (zeros n ++ x))

/-- the same in place (z = x; heap = x), as `dec.setNat` calls it: `divWVW(b, 0, b, _DB)` -/
def asm_divWVW_inplace (x : List Nat) (xn y : Nat) : Option (List Nat × Nat) :=
  let n := x.length
  vecResult n (callKernelBig .divWVW_entry [.slice 0 n, .word xn, .slice 0 n, .word y] 1 x)

end Decimal.Asm
