/-
  Model of number parsing (decimal_conv.go `scan`/`Parse`/`pow2`, dec_conv.go `dec.scan`,
  stdlib.go `scanSign`/`scanExponent`) on byte lists. All functions are structurally recursive
  on the input, so totality (termination on every input) is checked by Lean itself.
-/
import DecimalModel.Arith

namespace Decimal

def chr (c : Char) : Nat := c.toNat

/-- digit value of a byte in bases ≤ 36 (`MaxBase+1` = 63 for anything else). -/
def digitVal (ch : Nat) : Nat :=
  if chr '0' ≤ ch ∧ ch ≤ chr '9' then ch - chr '0'
  else if chr 'a' ≤ ch ∧ ch ≤ chr 'z' then ch - chr 'a' + 10
  else if chr 'A' ≤ ch ∧ ch ≤ chr 'Z' then ch - chr 'A' + 10
  else 63

/-- State of the mantissa digit loop of `dec.scan`. -/
structure ScanSt where
  val : Nat := 0        -- digits accumulated so far, in base b
  count : Nat := 0      -- digits seen (the leading "0" of base 0 included)
  dp : Option Nat := none
  fracOk : Bool := true
  prev : Nat := 46      -- '.'  ('_' = 95, '0' = 48)
  invalSep : Bool := false

/-- The digit loop: consumes bytes while they belong to the mantissa; returns the state and the
    unconsumed rest. `sep` = underscores are recognised (base 0). -/
def scanDigits (b : Nat) (sep : Bool) : List Nat → ScanSt → ScanSt × List Nat
  | [], st => (st, [])
  | ch :: rest, st =>
    if ch = chr '.' ∧ st.fracOk then
      scanDigits b sep rest { st with fracOk := false, invalSep := st.invalSep || st.prev == 95, prev := 46, dp := some st.count }
    else if ch = chr '_' ∧ sep then
      scanDigits b sep rest { st with invalSep := st.invalSep || st.prev != 48, prev := 95 }
    else
      let d := digitVal ch
      if d ≥ b then (st, ch :: rest)
      else scanDigits b sep rest { st with prev := 48, count := st.count + 1, val := st.val * b + d }

inductive ScanErr | noDigits | invalSep | eof | expRange | expOverflow | trailing
  deriving Repr, DecidableEq

/-- `z.mant.scan(r, base, true)`: (mantissa value, actual base, fraction digit count ≤ 0, rest). -/
def scanMant (base : Nat) (s : List Nat) : Except ScanErr (Nat × Nat × Int × List Nat) :=
  -- base prefix (base 0 only)
  let (b, st0, s1) : Nat × ScanSt × List Nat :=
    if base = 0 then
      match s with
      | 48 :: rest =>   -- '0'
        (match rest with
        | c :: rest2 =>
          if c = chr 'b' ∨ c = chr 'B' then (2, { prev := 48, count := 0 }, rest2)
          else if c = chr 'o' ∨ c = chr 'O' then (8, { prev := 48, count := 0 }, rest2)
          else if c = chr 'x' ∨ c = chr 'X' then (16, { prev := 48, count := 0 }, rest2)
          else (10, { prev := 48, count := 1 }, rest)
        | [] => (10, { prev := 48, count := 1 }, []))
      | _ => (10, {}, s)
    else (base, {}, s)
  let (st, rest) := scanDigits b (base = 0) s1 st0
  if st.count = 0 then .error .noDigits
  else if st.invalSep || st.prev == 95 then .error .invalSep
  else
    let fcount : Int := match st.dp with
      | some dp => (dp : Int) - st.count
      | none => st.count
    .ok (st.val, b, fcount, rest)

/-- exponent digits loop of `scanExponent`. -/
def scanExpDigits (sep : Bool) : List Nat → Nat × Bool × Nat × Bool → (Nat × Bool × Nat × Bool) × List Nat
  | [], st => (st, [])
  | ch :: rest, (v, has, prev, inval) =>
    if chr '0' ≤ ch ∧ ch ≤ chr '9' then scanExpDigits sep rest (v * 10 + (ch - chr '0'), true, 48, inval)
    else if ch = chr '_' ∧ sep then scanExpDigits sep rest (v, has, 95, inval || prev != 48)
    else ((v, has, prev, inval), ch :: rest)

/-- `scanExponent(r, true, sepOk)`: (exponent, exponent base, rest). -/
def scanExponent (sepOk : Bool) (s : List Nat) : Except ScanErr (Int × Nat × List Nat) :=
  match s with
  | [] => .ok (0, 10, [])
  | ch :: rest =>
    let ebase : Option Nat :=
      if ch = chr 'e' ∨ ch = chr 'E' then some 10
      else if ch = chr 'p' ∨ ch = chr 'P' then some 2
      else none
    match ebase with
    | none => .ok (0, 10, s)
    | some eb =>
      let (neg, rest) : Bool × List Nat := match rest with
        | c :: r2 => if c = chr '-' then (true, r2) else if c = chr '+' then (false, r2) else (false, rest)
        | [] => (false, [])
      let ((v, has, prev, inval), rest) := scanExpDigits sepOk rest (0, false, 46, false)
      if !has then .error .noDigits
      -- strconv.ParseInt(digits, 10, 64): range error
      else if (!neg ∧ v > 9223372036854775807) ∨ (neg ∧ v > 9223372036854775808) then .error .expRange
      else if inval || prev == 95 then .error .invalSep
      else .ok ((if neg then -(v : Int) else v), eb, rest)

/-- `z.pow2(n)` for a scratch Decimal of precision `P` (mode ToNearestEven). -/
def pow2 (P : Nat) (n : Nat) : Dec :=
  let z0 : Dec := { prec := P }
  if n < 64 then setBits64 z0 false (2 ^ n) 0
  else
    let z := setBits64 z0 false (2 ^ 63) 0
    let f := setBits64 { prec := P + DW } false 2 0
    let rec loop : Nat → Nat → Dec → Dec → Dec
      | 0, _, z, _ => z
      | fuel + 1, n, z, f =>
        if n = 0 then z else
        let z := if n % 2 = 1 then (mul z z f true false).1 else z
        if n % 2 = 1 ∧ n = 1 then z
        else loop fuel (n / 2) z (mul f f f true true).1
    loop 70 (n - 63) z f

/-- `z.scan(r, base)`: result state, detected base, and the unconsumed input. -/
def scanDec (z : Dec) (s : List Nat) (base : Nat) : Except ScanErr (Dec × Nat × List Nat) :=
  let prec := if z.prec == 0 then DefaultPrec else z.prec
  match s with
  | [] => .error .eof
  | c :: rest0 =>
    let (neg, s1) := if c = chr '-' then (true, rest0) else if c = chr '+' then (false, rest0) else (false, s)
    match scanMant base s1 with
    | .error e => .error e
    | .ok (M, b, fcount, s2) =>
      match scanExponent (base = 0) s2 with
      | .error e => .error e
      | .ok (exp, ebase, s3) =>
        if M = 0 then .ok ({ z with neg := neg, prec := prec, acc := Exact, form := .zero }, b, s3)
        else
          let d : Int := if fcount < 0 then fcount else 0
          let exp10 : Int := (ndigits M : Int) + (if b = 10 then d else 0) + (if ebase = 10 then exp else 0)
          let exp2 : Int := (if b = 2 then d else if b = 8 then d * 3 else if b = 16 then d * 4 else 0) + (if ebase = 2 then exp else 0)
          if exp10 < MinExp ∨ exp10 > MaxExp then .error .expOverflow
          else
            let len := nwords M
            let mant1 := M * 10 ^ dnormShift M len
            let z1 : Dec := { z with neg := neg, prec := prec, form := .finite, exp := exp10, mant := mant1, len := len }
            if exp2 = 0 then .ok (round z1 false, b, s3)
            else
              let p := pow2 (prec + DW) exp2.natAbs
              let r := if exp2 < 0 then (quo z1 z1 p true false).1 else (mul z1 z1 p true false).1
              -- as repaired (7th fix of the Parse family): a binary exponent that takes the value out of the
              -- exponent range is the same error as a decimal exponent out of range
              if r.form != .finite then .error .expOverflow else .ok (r, b, s3)

/-- `z.Parse(s, base)` (as repaired: a nil result on every error). -/
def parse (z : Dec) (s : List Nat) (base : Nat) : Except ScanErr (Dec × Nat) :=
  let inf3 := s = "Inf".toList.map chr ∨ s = "inf".toList.map chr
  if inf3 then .ok (setInf z false, 0)
  else
    let inf4 : Option Bool := match s with
      | c :: rest => if (c = chr '+' ∨ c = chr '-') ∧ (rest = "Inf".toList.map chr ∨ rest = "inf".toList.map chr) then some (c = chr '-') else none
      | [] => none
    match inf4 with
    | some ng => .ok (setInf z ng, 0)
    | none =>
      match scanDec z s base with
      | .error e => .error e
      | .ok (d, b, rest) => if rest.isEmpty then .ok (d, b) else .error .trailing

end Decimal
