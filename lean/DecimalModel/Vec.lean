/-
  L0: the portable vector kernels of dec_arith.go (`*_g`), as functions on little-endian
  word lists. The loops are written by hand as structural recursions; every word step calls
  the definition REGENERATED from the Go source (`Gen/WordOps.lean`), so a change of a word
  function changes these kernels too.

  A Go kernel writes `len(z)` words; here the destination length is the length of the input list
  (all call sites pass `len(z) = len(x)`), and the result list is returned.
-/
import DecimalModel.Basic
import DecimalModel.Gen.WordOps

namespace Decimal.L0
open Decimal Decimal.Gen

/-- `add10VV_g(z, x, y)`: word-wise decimal addition with carry-in `c`; returns (z, carry). -/
def add10VV : List Nat → List Nat → Nat → List Nat × Nat
  | x :: xs, y :: ys, c =>
    let (s, c1) := add10WWW_g x y c
    let (zs, c2) := add10VV xs ys c1
    (s :: zs, c2)
  | _, _, c => ([], c)

/-- `sub10VV_g(z, x, y)`. -/
def sub10VV : List Nat → List Nat → Nat → List Nat × Nat
  | x :: xs, y :: ys, b =>
    let (d, b1) := sub10WWW_g x y b
    let (zs, b2) := sub10VV xs ys b1
    (d :: zs, b2)
  | _, _, b => ([], b)

/-- the carry-propagation loop of `add10VW_g` (i ≥ 1), with the early exit that copies the rest. -/
def add10VWtail : List Nat → Nat → List Nat × Nat
  | [], c => ([], c)
  | x :: xs, c =>
    let s := (x + c) % W
    if s < c_DB then (s :: xs, 0)
    else
      let (zs, c1) := add10VWtail xs c
      (0 :: zs, c1)

/-- `add10VW_g(z, x, y)`. -/
def add10VW (x : List Nat) (y : Nat) : List Nat × Nat :=
  match x with
  | [] => ([], y)
  | x0 :: xs =>
    let (z0, c) := add10WWW_g x0 y 0
    let (zs, c1) := add10VWtail xs c
    (z0 :: zs, c1)

/-- `sub10VW_g(z, x, y)`. -/
def sub10VW : List Nat → Nat → List Nat × Nat
  | [], c => ([], c)
  | x :: xs, c =>
    -- bits.Sub(x, c, 0)
    let (zi, cc) := if x ≥ c then (x - c, 0) else (x + W - c, 1)
    if cc = 0 then (zi :: xs, 0)
    else
      let (zs, c1) := sub10VW xs cc
      (((zi + c_DB) % W) :: zs, c1)

def divisorPow10 (n : Nat) : Magic := pow10DivTab64.getD (n - 1) ⟨0, 0, 0, 0⟩
def pow10w (n : Nat) : Nat := pow10tab.getD n 0

/-- inner loop of `shl10VU_g`, from the most significant word down: `l` is the low part of the
    word above. Input: the remaining words, most significant first. Output: little-endian. -/
def shlLoop (d : Magic) (m : Nat) : List Nat → Nat → List Nat
  | [], l => [(l * m) % W]
  | x :: xs, l =>
    let (h, l1) := magic_div d x
    shlLoop d m xs l1 ++ [((l * m) % W + h) % W]

/-- `shl10VU_g(z, x, s)` for `s < 19`: z = x·10^s (low words), returns the digits shifted out. -/
def shl10VU (x : List Nat) (s : Nat) : List Nat × Nat :=
  if s = 0 then (x, 0)
  else match x.reverse with
    | [] => ([], 0)
    | top :: rest =>
      let d := divisorPow10 (c_DW - s)
      let m := pow10w s
      let (r, l) := magic_div d top
      (shlLoop d m rest l, r)

/-- inner loop of `shr10VU_g`, from the least significant word up; `h` is the high part of the
    word below. -/
def shrLoop (d : Magic) (m : Nat) : List Nat → Nat → List Nat
  | [], h => [h]
  | x :: xs, h =>
    let (h1, l) := magic_div d x
    ((h + (l * m) % W) % W) :: shrLoop d m xs h1

/-- `shr10VU_g(z, x, s)` for `s < 19`: z = x / 10^s, returns the digits shifted out, scaled. -/
def shr10VU (x : List Nat) (s : Nat) : List Nat × Nat :=
  if s = 0 then (x, 0)
  else match x with
    | [] => ([], 0)
    | x0 :: xs =>
      let d := divisorPow10 s
      let m := pow10w (c_DW - s)
      let (h, r) := magic_div d x0
      (shrLoop d m xs h, (r * m) % W)

/-- `mulAdd10VWW_g(z, x, y, r)`: z = x·y + r, returns the carry word. -/
def mulAdd10VWW : List Nat → Nat → Nat → List Nat × Nat
  | [], _, c => ([], c)
  | x :: xs, y, c =>
    let (hi, lo) := mulAddWWW_g x y c
    let (c1, z0) := div10W_g hi lo
    let (zs, c2) := mulAdd10VWW xs y c1
    (z0 :: zs, c2)

/-- `addMul10VVW_g(z, x, y)`: z += x·y, returns the carry word. -/
def addMul10VVW : List Nat → List Nat → Nat → Nat → List Nat × Nat
  | z :: zs, x :: xs, y, c =>
    let (hi, z0) := mulAddWWW_g x y z
    let lo := (z0 + c + 0) % W
    let cc := (z0 + c + 0) / W
    let (c1, zi) := div10W_g ((hi + cc) % W) lo
    let (rest, c2) := addMul10VVW zs xs y c1
    (zi :: rest, c2)
  | zs, _, _, c => (zs, c)

/-- `div10VWW_g(z, x, y, xn)`: from the most significant word down. Input most significant first;
    output little-endian quotient and the remainder. -/
def div10VWWrev : List Nat → Nat → Nat → List Nat × Nat
  | [], _, r => ([], r)
  | x :: xs, y, r =>
    let (q, r1) := div10WW_g r x y
    let (qs, r2) := div10VWWrev xs y r1
    (qs ++ [q], r2)

def div10VWW (x : List Nat) (y xn : Nat) : List Nat × Nat := div10VWWrev x.reverse y xn

end Decimal.L0
