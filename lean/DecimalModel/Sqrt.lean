/-
  L1 model of `(*Decimal).Sqrt` and `sqrtInverse` (decimal_sqrt.go, as repaired).

  What is modelled step by step: the prologue, the special cases, the split of the exponent
  (`b % 2`, `b / 2` with Go's truncating division), the final "midpoint" trick and the rounding by
  `Set`, and `SetMantExp`.  What is abstracted: the Newton iteration and the two correction loops.
  The loops exit exactly when `s² ≤ z < (s+ulp)²` for the `prec+1`-digit candidate `s`; that
  condition determines `s` uniquely (`s = ⌊√z⌋` at `prec+1` digits), so the model takes that `s`
  (computed with `Nat.sqrt`) and does not depend on the float64 seed or on how many corrections
  the loops made. Termination of the loops is covered by the correspondence runs only.
-/
import DecimalModel.Arith

namespace Decimal

/-- Go's `b % 2` and `b / 2` (truncation toward zero). -/
def goMod2 (b : Int) : Int := b - 2 * (b.tdiv 2)
def goDiv2 (b : Int) : Int := b.tdiv 2

/-- `⌊√(M × 10^k)⌋` and whether the root is inexact (`M > 0`). -/
def isqrtScaled (M : Nat) (k : Int) : Nat × Bool :=
  if k ≥ 0 then
    let X := M * 10 ^ k.toNat
    let s := Nat.sqrt X
    (s, s * s != X)
  else
    let d := 10 ^ (-k).toNat
    let X := M / d
    let s := Nat.sqrt X
    (s, s * s != X || M % d != 0)

/--
  The candidate `s` after the correction loops of `sqrtInverse`: for `z = M × 10^(ez − 19·len)`
  with `0.01 ≤ z < 10`, the `p1`-digit number `s` with `s² ≤ z < (s+ulp)²`, returned as
  (coefficient with exactly `p1` digits, decimal exponent `se` such that `s = 0.coef × 10^se`,
  inexact flag).
-/
def sqrtCandidate (M len : Nat) (ez : Int) (p1 : Nat) : Nat × Int × Bool :=
  -- z ≥ 1  ⇔  ez = 1 (mantissa normalised: z = 0.M × 10^ez)
  let se : Int := if ez ≥ 1 then 1 else 0
  -- s = 0.coef × 10^se with p1 digits: coef = ⌊√z × 10^(p1 − se)⌋ = ⌊√(z × 10^(2(p1 − se)))⌋
  let k : Int := 2 * ((p1 : Int) - se) + ez - (len * DW : Nat)
  let (c, inexact) := isqrtScaled M k
  (c, se, inexact)

/-- `z.Sqrt(x)`. -/
def sqrt (z x : Dec) (same : Bool := false) : Dec × Outcome :=
  let z := if z.prec == 0 then { z with prec := x.prec } else z
  let x := opnd z x same
  if x.form != .zero && x.neg then (z, .errNaN)
  else if x.form != .finite then ({ z with acc := Exact, form := x.form, neg := x.neg }, .ok)
  else
    let prec := z.prec
    let mode := z.mode
    let b := x.exp
    -- x.MantExp(z); z.prec, z.mode = prec, mode; z.exp adjusted by the parity of b
    let ez : Int := goMod2 b
    -- sqrtInverse: candidate at prec+1 digits, ToZero
    let p1 := prec + 1
    let (c, se, inexact) := sqrtCandidate x.mant x.len ez p1
    -- s as a Decimal of precision p1 (or p1+1 after the midpoint step), mode ToZero
    let (sc, sprec) := if inexact then (c * 10 + 5, p1 + 1) else (c, p1)
    let sM := sc
    let slen := nwords sM
    let s : Dec := { form := .finite, neg := false, mant := sM * 10 ^ dnormShift sM slen, len := slen,
                     exp := se, prec := sprec, mode := .ToZero, acc := Exact }
    -- z.Set(s): z ≠ s, z.prec ≥ 1 < s.prec: rounds with z's mode; z.neg := false
    let z1 := set { z with prec := prec, mode := mode } s false
    -- z.SetMantExp(z, b/2)
    (setMantExp z1 z1 (goDiv2 b) true, .ok)

end Decimal
