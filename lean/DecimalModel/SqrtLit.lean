/-
  LITERAL L1 model of `sqrtInverse` and of `(*Decimal).Sqrt` on top of it (decimal_sqrt.go).

  `DecimalModel/Sqrt.lean` abstracts `sqrtInverse`: it takes the unique `prec+1`-digit `s` with
  `s² ≤ z < (s+ulp)²` from `Nat.sqrt`.  Here the Go statements are followed one by one with the L1
  operations of `Arith.lean` (`mul`, `sub`, `add`, `set`, `setPrec`, `setMode`, `setMantExp`, `cmp`):

    * the float64 seed cannot be modelled exactly: it is the PARAMETER `t0` (Go: a positive finite
      Decimal of precision 17, mode ToNearestEven, produced by `SetFloat64`); `sqrtSeed` computes a
      17-digit approximation of `1/√x` with `Nat.sqrt` for execution only;
    * the Newton loop, with the `uint32` arithmetic of `z.prec + 2` and `t.prec*2 - 2`;
    * `s := x·t` (precision `z.prec+1`, ToZero), `sq` (precision `2·s.prec+2`);
    * correction loop 1 (`s -= ulp` while `s² > x`), correction loop 2 (`u = s + ulp`, stop when
      `u² > x`), `ulp = 10^(s.exp − s.prec)` recomputed at every iteration;
    * the midpoint step and `z.Set(s)`;
    * `Sqrt`'s prologue and epilogue.

  Every loop takes a fuel argument; running out of fuel is the explicit result `none`.  A panic of
  one of the operations (`ErrNaN`) is propagated as the `Outcome` (it cannot happen: see
  Proofs/SqrtLit.lean).

  Core Lean only (linked into the driver).
-/
import DecimalModel.Sqrt

namespace Decimal

/-- The package-level `oneHalf = NewDecimal(5, -1)`, `three = NewDecimal(3, 0)` and the local
    `one = NewDecimal(1, 0)`. -/
def litOneHalf : Dec := newDecimal 5 (-1)
def litThree : Dec := newDecimal 3 0
def litOne : Dec := newDecimal 1 0

/-- `uint32` wrap-around. -/
def u32 (n : Int) : Nat := (n % 4294967296).toNat

/-- One pass of the body of the Newton loop; `(t, u, v)` are the three local Decimals. -/
def newtonStep (x t u v : Dec) : (Dec × Dec × Dec) × Outcome :=
  -- t.prec = t.prec*2 - 2; u.prec = t.prec; v.prec = t.prec
  let t := { t with prec := u32 ((t.prec : Int) * 2 - 2) }
  let u := { u with prec := t.prec }
  let v := { v with prec := t.prec }
  -- u.Mul(t, t)
  let (u, o1) := mul u t t
  if o1 != .ok then ((t, u, v), o1) else
  -- u.Mul(x, u)
  let (u, o2) := mul u x u false true
  if o2 != .ok then ((t, u, v), o2) else
  -- v.Sub(three, u)
  let (v, o3) := sub v litThree u
  if o3 != .ok then ((t, u, v), o3) else
  -- u.Mul(t, v)
  let (u, o4) := mul u t v
  if o4 != .ok then ((t, u, v), o4) else
  -- t.Mul(u, oneHalf)
  let (t, o5) := mul t u litOneHalf
  ((t, u, v), o5)

/-- `for prec := z.prec + 2; t.prec < prec; { … }`. -/
def newtonLoop (prec : Nat) (x : Dec) : Nat → Dec → Dec → Dec → Option ((Dec × Dec × Dec) × Outcome)
  | fuel, t, u, v =>
    if t.prec < prec then
      match fuel with
      | 0 => none
      | fuel + 1 =>
        match newtonStep x t u v with
        | ((t, u, v), .ok) => newtonLoop prec x fuel t u v
        | r => some r
    else some ((t, u, v), .ok)

/-- `ulp.SetMantExp(one, int(s.exp)-int(s.prec))`. -/
def litUlp (ulp s : Dec) : Dec := setMantExp ulp litOne (s.exp - (s.prec : Int))

/-- `for sq.Mul(s, s).Cmp(x) > 0 { s.Sub(s, ulp.SetMantExp(one, int(s.exp)-int(s.prec))) }`;
    the state is `(s, sq, ulp)`. -/
def corrLoop1 (x : Dec) : Nat → Dec → Dec → Dec → Option ((Dec × Dec × Dec) × Outcome)
  | fuel, s, sq, ulp =>
    let (sq, o1) := mul sq s s
    if o1 != .ok then some ((s, sq, ulp), o1) else
    if cmp sq x > 0 then
      match fuel with
      | 0 => none
      | fuel + 1 =>
        let ulp := litUlp ulp s
        let (s, o2) := sub s s ulp true false
        if o2 != .ok then some ((s, sq, ulp), o2) else
        corrLoop1 x fuel s sq ulp
    else some ((s, sq, ulp), .ok)

/-- `for { u.SetPrec(uint(s.prec)).SetMode(ToZero).Add(s, ulp.SetMantExp(one, …));
          if sq.Mul(u, u).Cmp(x) > 0 { break }; s.Set(u) }`; the state is `(s, u, sq, ulp)`. -/
def corrLoop2 (x : Dec) : Nat → Dec → Dec → Dec → Dec → Option ((Dec × Dec × Dec × Dec) × Outcome)
  | 0, _, _, _, _ => none
  | fuel + 1, s, u, sq, ulp =>
    let u := setMode (setPrec u s.prec) .ToZero
    let ulp := litUlp ulp s
    let (u, o1) := add u s ulp
    if o1 != .ok then some ((s, u, sq, ulp), o1) else
    let (sq, o2) := mul sq u u
    if o2 != .ok then some ((s, u, sq, ulp), o2) else
    if cmp sq x > 0 then some ((s, u, sq, ulp), .ok)
    else corrLoop2 x fuel (set s u) u sq ulp

/-- The midpoint step: `if sq.Mul(s, s).Cmp(x) != 0 { ulp.SetMantExp(oneHalf, …);
    s.SetPrec(uint(s.prec) + 1).Add(s, ulp) }`; returns `s`. -/
def midpointStep (x s sq ulp : Dec) : Dec × Outcome :=
  let (sq, o1) := mul sq s s
  if o1 != .ok then (s, o1) else
  if cmp sq x != 0 then
    let ulp := setMantExp ulp litOneHalf (s.exp - (s.prec : Int))
    let s := setPrec s (s.prec + 1)
    add s s ulp true false
  else (s, .ok)

/-- `s := new(Decimal).SetPrec(uint(z.prec) + 1).SetMode(ToZero).Mul(x, t)`. -/
def litS (z x t : Dec) : Dec × Outcome :=
  mul (setMode (setPrec {} (z.prec + 1)) .ToZero) x t

/-- The correction part of `sqrtInverse` (everything after the Newton loop) for the Newton
    result `t` and the scratch `u`; `z` is the receiver, which is also the operand `x`. -/
def sqrtCorrect (fuel : Nat) (z t u : Dec) : Option (Dec × Outcome) :=
  let x := z
  let (s, o1) := litS z x t
  if o1 != .ok then some (z, o1) else
  -- sq := new(Decimal).SetPrec(2*uint(s.prec) + 2); one, ulp := NewDecimal(1, 0), new(Decimal)
  let sq := setPrec {} (2 * s.prec + 2)
  let ulp : Dec := {}
  match corrLoop1 x fuel s sq ulp with
  | none => none
  | some ((s, sq, ulp), o2) =>
    if o2 != .ok then some (z, o2) else
    match corrLoop2 x fuel s u sq ulp with
    | none => none
    | some ((s, _, sq, ulp), o3) =>
      if o3 != .ok then some (z, o3) else
      let (s, o4) := midpointStep x s sq ulp
      if o4 != .ok then some (z, o4) else
      -- z.Set(s)
      some (set z s, .ok)

/-- `z.sqrtInverse(z)` with the seed `t0` in place of `SetFloat64(1/math.Sqrt(xf))`. -/
def sqrtInverseLit (fuel : Nat) (t0 z : Dec) : Option (Dec × Outcome) :=
  let x := z
  -- u := newDecimal(z.prec); v := newDecimal(z.prec)
  let u : Dec := {}
  let v : Dec := {}
  -- for prec := z.prec + 2; t.prec < prec; { … }      (uint32 arithmetic)
  match newtonLoop (u32 ((z.prec : Int) + 2)) x fuel t0 u v with
  | none => none
  | some ((t, u, _), o) =>
    if o != .ok then some (z, o) else
    sqrtCorrect fuel z t u

/-- The receiver when `sqrtInverse` is called: `b := x.MantExp(z); z.prec, z.mode = prec, mode;
    switch b % 2 { case 1: z.exp++; case -1: z.exp-- }`. -/
def sqrtWork (z x : Dec) (same : Bool) : Int × Dec :=
  let prec := z.prec
  let mode := z.mode
  let (b, z) := mantExp x z same
  let z := { z with prec := prec, mode := mode }
  (b, { z with exp := z.exp + goMod2 b })

/-- `z.Sqrt(x)` with the literal `sqrtInverse`. -/
def sqrtLit (fuel : Nat) (t0 : Dec) (z x : Dec) (same : Bool := false) : Option (Dec × Outcome) :=
  let z := if z.prec == 0 then { z with prec := x.prec } else z
  let x := opnd z x same
  if x.form != .zero && x.neg then some (z, .errNaN)
  else if x.form != .finite then some ({ z with acc := Exact, form := x.form, neg := x.neg }, .ok)
  else
    let (b, zw) := sqrtWork z x same
    match sqrtInverseLit fuel t0 zw with
    | none => none
    | some (z1, o) =>
      if o != .ok then some (z1, o) else
      -- z.SetMantExp(z, b/2)
      some (setMantExp z1 z1 (goDiv2 b) true, .ok)

/-- A 17-digit approximation of `1/√x` for the working operand `x` (`0.01 ≤ x < 10`), computed
    from its top word with `Nat.sqrt`; stands for `SetFloat64(1/math.Sqrt(xf))`.  `num/den` scales
    the seed (to try deliberately bad seeds).  Execution only: no theorem depends on it. -/
def sqrtSeedScaled (x : Dec) (num den : Nat) : Dec :=
  let w := x.mant / B ^ (x.len - 1)
  -- x ≈ y × 10^-20 with y = w × 10^(x.exp + 1)
  let y := w * 10 ^ (x.exp + 1).toNat
  -- 1/√x = 10^10/√y;  T = ⌊10^36/⌊√(y·10^20)⌋⌋ = 10^16/√x
  let r := Nat.sqrt (y * 10 ^ 20)
  let T := 10 ^ 36 / (if r == 0 then 1 else r) * num / den
  if T == 0 then { prec := 17 } else
  setNormAndRound { form := .finite, prec := 17 } T (-16) false

def sqrtSeed (x : Dec) : Dec := sqrtSeedScaled x 1 1

/-- The seed for a call `z.Sqrt(x)`: `sqrtSeed` of the working operand (anything if the call
    does not reach `sqrtInverse`). -/
def sqrtSeedFor (z x : Dec) (same : Bool := false) (num den : Nat := 1) : Dec :=
  let z := if z.prec == 0 then { z with prec := x.prec } else z
  let x := opnd z x same
  sqrtSeedScaled (sqrtWork z x same).2 num den

/-- Number of iterations of the two correction loops (instrumented copies, for the reports). -/
def corrLoop1Count (x : Dec) : Nat → Dec → Dec → Dec → Nat → Option (Dec × Nat)
  | fuel, s, sq, ulp, n =>
    let (sq, _) := mul sq s s
    if cmp sq x > 0 then
      match fuel with
      | 0 => none
      | fuel + 1 =>
        let ulp := litUlp ulp s
        let (s, _) := sub s s ulp true false
        corrLoop1Count x fuel s sq ulp (n + 1)
    else some (s, n)

def corrLoop2Count (x : Dec) : Nat → Dec → Dec → Dec → Dec → Nat → Option Nat
  | 0, _, _, _, _, _ => none
  | fuel + 1, s, u, sq, ulp, n =>
    let u := setMode (setPrec u s.prec) .ToZero
    let ulp := litUlp ulp s
    let (u, _) := add u s ulp
    let (sq, _) := mul sq u u
    if cmp sq x > 0 then some n
    else corrLoop2Count x fuel (set s u) u sq ulp (n + 1)

/-- (Newton iterations are not counted) iterations of loop 1 and of loop 2 (`s.Set(u)` executed)
    for the call `z.Sqrt(x)` with seed `t0`. -/
def sqrtLitCounts (fuel : Nat) (t0 : Dec) (z x : Dec) (same : Bool := false) : Option (Nat × Nat) :=
  let z := if z.prec == 0 then { z with prec := x.prec } else z
  let x := opnd z x same
  if x.form != .finite || x.neg then some (0, 0) else
  let zw := (sqrtWork z x same).2
  match newtonLoop (u32 ((zw.prec : Int) + 2)) zw fuel t0 {} {} with
  | none => none
  | some ((t, u, _), _) =>
    let s := (litS zw zw t).1
    let sq := setPrec {} (2 * s.prec + 2)
    match corrLoop1Count zw fuel s sq {} 0 with
    | none => none
    | some (s, n1) =>
      match corrLoop2Count zw fuel s u sq {} 0 with
      | none => none
      | some n2 => some (n1, n2)

end Decimal
