/-
  L0: the recursive division of dec.go (`divRecursive`, `divRecursiveStep`; Burnikel–Ziegler style,
  used by `divLarge` when `len(v) >= divRecursiveThreshold`), on little-endian word lists.

  Conventions of the model
  * The thresholds are parameters: `thr` = divRecursiveThreshold, `kthr` = decKaratsubaThreshold
    (the product is independent of `kthr`: `mul_threshold_indep_list`).
  * In-place updates of `u` (remainder) and `z` (quotient accumulator) are functional updates: a call
    returns the new `z` and the new `u`, the latter with the SAME length as the `u` it was given
    (`u = u.norm()` only re-slices; the words above stay in place, and they are zero).
  * Every Go call site clears the destination (`z.clear()`, `qhat.clear()`) before the call, so the model
    takes the length `zlen` of the destination and starts from `zeros zlen`.
  * `temps[depth]` is `getDec(n)` (length `n`) the first time a depth is reached and
    `temps[depth].make(B+1)` (length `B+1`) afterwards. Depths are allocated as a prefix `0..k-1`; the
    model threads `k`, so `q̂` has exactly the length it has in Go. `rd = len(temps)`; reaching a depth
    `≥ rd` is the Go index panic.
  * Panics are explicit: "impossible" (three sites), "slice bounds out of range" (an addition that
    would write past `len` of its destination: Go panics past `cap` and silently writes into the spare
    capacity otherwise; the model flags both), "index out of range", and "fuel" when the recursion
    fuel is exhausted (for `thr < 4` the Go recursion does not terminate: `n ∈ {2,3}` gives `B = 1`,
    `s = 0`, and the recursive call receives the same divisor).
  * The two correction loops (`for i<2 { if cmp<=0 {break}; … }` in the main loop and
    `for i<2 { if cmp>0 { … } }` in the final block) unfold to the same two nested tests: `corr2`.
-/
import DecimalModel.DecOps

namespace Decimal.L0
open Decimal Decimal.Gen

/-- `x[:n]` for `n` possibly above `len(x)` (within capacity, the spare words being zero). -/
def padTo (x : Dec0) (n : Nat) : Dec0 := x ++ zeros (n - x.length)

/-- `decAddAt(z, x, i)` with the bound of the destination checked. -/
def addAtChk (z x : Dec0) (i : Nat) : Except String Dec0 :=
  if x.length ≠ 0 ∧ i + x.length > z.length then .error "slice bounds out of range"
  else .ok (addAt z x i)

/-- the leaf `z.divBasic(u, v)` as called from `divRecursiveStep` (`u` normalised, possibly shorter
    than `v`: then `m < 0` and the loop `for j := m; j >= 0` does not run). -/
def divBasicLeaf (qlen : Nat) (u v : Dec0) : Except String (Dec0 × Dec0) :=
  if v.length = 0 then .error "index out of range"
  else if u.length < v.length then .ok (zeros qlen, u)
  else if v.length < 2 then .error "index out of range"
  else divBasic qlen u v

/-- one correction: `sub10VW(qhat, qhat, 1)`; `qhatv -= v[:s]`; `decAddAt(uu[s:], v[s:], 0)`. -/
def corrStep (s : Nat) (v qhat qhatv uu : Dec0) : Except String (Dec0 × Dec0 × Dec0) :=
  let qhat := (sub10VW qhat 1).1
  let (lo, c) := sub10VV (padTo (qhatv.take s) s) (v.take s) 0
  let qhatv :=
    if qhatv.length > s then lo ++ (sub10VW (qhatv.drop s) c).1
    else lo.take qhatv.length
  match addAtChk (uu.drop s) (v.drop s) 0 with
  | .error e => .error e
  | .ok hi => .ok (qhat, qhatv, uu.take s ++ hi)

/-- at most two corrections, each guarded by `qhatv.cmp(uu.norm()) > 0`. -/
def corr2 (s : Nat) (v qhat qhatv uu : Dec0) : Except String (Dec0 × Dec0 × Dec0) :=
  if cmp qhatv (norm uu) > 0 then
    match corrStep s v qhat qhatv uu with
    | .error e => .error e
    | .ok (qhat, qhatv, uu) =>
      if cmp qhatv (norm uu) > 0 then corrStep s v qhat qhatv uu
      else .ok (qhat, qhatv, uu)
  else .ok (qhat, qhatv, uu)

/-- `c := sub10VV(uu[:len(qhatv)], …, qhatv); if c > 0 { c = sub10VW(uu[len(qhatv):], …, c) }`. -/
def subBlock (qhatv uu : Dec0) : Dec0 × Nat :=
  let l := qhatv.length
  let (d, c) := sub10VV (uu.take l) qhatv 0
  if c > 0 then
    let (h, c2) := sub10VW (uu.drop l) c
    (d ++ h, c2)
  else (d ++ uu.drop l, 0)

/-- One block: estimate `q̂` by the recursive call on `uu[s : s+hiLen]` / `v[s:]`, form `q̂·v[:s]`,
    correct at most twice, check ("impossible"), subtract. Returns `(q̂, uu', k', final borrow)`.
    `s` is the shift of this block (`B - 1` in the main loop; in the final block `B - 1` in the code
    as it is now, `B` in the defective version). -/
def divBlock (rec : Nat → Nat → Dec0 → Dec0 → Except String (Dec0 × Dec0 × Nat))
    (kthr s ql k hiLen : Nat) (uu v : Dec0) : Except String (Dec0 × Dec0 × Nat × Nat) :=
  match rec k ql ((uu.drop s).take hiLen) (v.drop s) with
  | .error e => .error e
  | .ok (qz, r, k) =>
    let uu := uu.take s ++ r ++ uu.drop (s + hiLen)
    let qhat := norm qz
    let qhatv := mul kthr (qhat.length + s + 1) qhat (v.take s)
    match corr2 s v qhat qhatv uu with
    | .error e => .error e
    | .ok (qhat, qhatv, uu) =>
      if cmp qhatv (norm uu) > 0 then .error "impossible"
      else
        let (uu, c) := subBlock qhatv uu
        .ok (qhat, uu, k, c)

/-- the main loop `for j > B { … ; j -= B }`; `block k uu` is one block on the window `uu = u[j-B:]`. -/
def divRecLoop (block : Nat → Dec0 → Except String (Dec0 × Dec0 × Nat × Nat)) (B : Nat) :
    Nat → Nat → Dec0 → Dec0 → Nat → Except String (Dec0 × Dec0 × Nat)
  | 0, j, z, u, k => if j > B then .error "fuel" else .ok (z, u, k)
  | f + 1, j, z, u, k =>
    if j > B then
      match block k (u.drop (j - B)) with
      | .error e => .error e
      | .ok (qhat, uu, k, _) =>
        match addAtChk z qhat (j - B) with
        | .error e => .error e
        | .ok z => divRecLoop block B f (j - B) z (u.take (j - B) ++ uu) k
    else .ok (z, u, k)

/-- `z.divRecursiveStep(u, v, depth, tmp, temps)`: returns `(z, u, k)`; `z` has `zlen` words, the
    returned `u` has the length of the given `u`. `sF B` is the shift of the final block (`B - 1`). -/
def divRecStepG (sF : Nat → Nat) (thr kthr rd : Nat) :
    Nat → Nat → Nat → Nat → Dec0 → Dec0 → Except String (Dec0 × Dec0 × Nat)
  | 0, _, _, _, _, _ => .error "fuel"
  | fuel + 1, depth, k, zlen, u0, v0 =>
    let u := norm u0
    let v := norm v0
    if u.length = 0 then .ok (zeros zlen, u0, k)
    else
      let n := v.length
      if n < thr then
        match divBasicLeaf zlen u v with
        | .error e => .error e
        | .ok (z, u') => .ok (z, padTo u' u0.length, k)
      else if u.length < n then .ok (zeros zlen, u0, k)
      else
        let m := u.length - n
        let B := n / 2
        if depth ≥ rd then .error "index out of range"
        else if B = 0 then .error "slice bounds out of range"
        else
          let ql := if k ≤ depth then n else B + 1
          let k := max k (depth + 1)
          let s := B - 1
          let rec' := divRecStepG sF thr kthr rd fuel (depth + 1)
          match divRecLoop (fun k uu => divBlock rec' kthr s ql k (n + 1) uu v) B m m (zeros zlen) u k with
          | .error e => .error e
          | .ok (z, u, k) =>
            let s := sF B
            match divBlock rec' kthr s ql k (u.length - s) u v with
            | .error e => .error e
            | .ok (qhat, u, k, c) =>
              if c > 0 then .error "impossible"
              else
                match addAtChk z (norm qhat) 0 with
                | .error e => .error e
                | .ok z => .ok (z, padTo u u0.length, k)

/-- the code as it is now: final shift `B - 1`. -/
def divRecStep (thr kthr rd : Nat) :=
  divRecStepG (fun B => B - 1) thr kthr rd

/-- the defective version (final shift `B`), kept to document that the model exhibits the defect. -/
def divRecStepOld (thr kthr rd : Nat) :=
  divRecStepG (fun B => B) thr kthr rd

/-- `bits.Len(uint(n))`. -/
def bitsLen (n : Nat) : Nat := if n = 0 then 0 else Nat.log2 n + 1

/-- `z.divRecursive(u, v)`: `temps` has `2·bits.Len(len v)` entries; `z` has `zlen` words. Fuel
    `len v + 1` suffices for `thr ≥ 4` (the divisor length strictly decreases). -/
def divRecursiveG (sF : Nat → Nat) (thr kthr zlen : Nat) (u v : Dec0) : Except String (Dec0 × Dec0) :=
  match divRecStepG sF thr kthr (2 * bitsLen v.length) (v.length + 1) 0 0 zlen u v with
  | .error e => .error e
  | .ok (z, u, _) => .ok (z, u)

def divRecursive (thr kthr zlen : Nat) (u v : Dec0) := divRecursiveG (fun B => B - 1) thr kthr zlen u v

/-- `z.divLarge(u, uIn, vIn)` with both paths. -/
def divLargeRecG (sF : Nat → Nat) (thr kthr : Nat) (uIn vIn : Dec0) : Except String (Dec0 × Dec0) :=
  let n := vIn.length
  let m := uIn.length
  let d := c_DB / (vIn.getD (n - 1) 0 + 1)
  let (v, _) := mulAdd10VWW vIn d 0
  let (u0, cu) := mulAdd10VWW uIn d 0
  let u := u0 ++ [cu]
  match (if n < thr then divBasic (m - n + 1) u v else divRecursiveG sF thr kthr (m - n + 1) u v) with
  | .error e => .error e
  | .ok (q, u) =>
    match divW u d with
    | .error e => .error e
    | .ok (r, _) => .ok (norm q, norm r)

def divLargeRec (thr kthr : Nat) (uIn vIn : Dec0) := divLargeRecG (fun B => B - 1) thr kthr uIn vIn

/-- `z.div(z2, u, v)` with the recursive path for `len v ≥ thr`. -/
def divFullG (sF : Nat → Nat) (thr kthr : Nat) (u v : Dec0) : Except String (Dec0 × Dec0) :=
  if v.length = 0 then .error "division by zero"
  else if cmp u v < 0 then .ok ([], u)
  else if v.length = 1 then
    match divW u (v.headD 0) with
    | .error e => .error e
    | .ok (q, r) => .ok (q, setWord r)
  else divLargeRecG sF thr kthr u v

def divFull (thr kthr : Nat) (u v : Dec0) := divFullG (fun B => B - 1) thr kthr u v

end Decimal.L0
