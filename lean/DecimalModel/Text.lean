/-
  Model of decimal_toa.go (as repaired): Text/Append for the formats e E f g G p b, and Format
  (fmt verbs with flags, width and precision). Strings are `List Char`.
-/
import DecimalModel.Arith

namespace Decimal

def natDigits (n : Nat) : List Char := (Nat.repr n).toList

/-- `x.toa(10)`: the mantissa digits with least significant zero *words* removed, and the exponent. -/
def toa (x : Dec) : List Char × Int :=
  if x.form != .finite then ([], 0) else
  let rec strip : Nat → Nat → Nat
    | 0, M => M
    | n + 1, M => if M % B == 0 && M != 0 then strip n (M / B) else M
  (natDigits (strip x.len x.mant), x.exp)

def intToChars (v : Int) : List Char := (toString v).toList

def trimRightZeros (l : List Char) : List Char := (l.reverse.dropWhile (· == '0')).reverse

def repeatChar (c : Char) (n : Nat) : List Char := List.replicate n c

/-- `%e`: d.ddddde±dd -/
def fmtE (x : Dec) (fmtc : Char) (prec : Int) : List Char :=
  let (mant0, ex) := toa x
  let mant := trimRightZeros mant0
  let first := mant.headD '0'
  let more : List Char :=
    if prec > 0 then
      let p := prec.toNat
      let m := min mant.length (p + 1)
      let ds := (mant.take m).drop 1
      '.' :: (ds ++ repeatChar '0' (p - ds.length))
    else []
  let exp : Int := if mant.length > 0 then ex - 1 else 0
  let (sg, ea) := if exp < 0 then ('-', -exp) else ('+', exp)
  [first] ++ more ++ [fmtc, sg] ++ (if ea < 10 then ['0'] else []) ++ intToChars ea

/-- `%f`: ddddddd.ddddd -/
def fmtF (x : Dec) (prec : Int) : List Char :=
  let (mant, exp) := toa x
  let ip : List Char :=
    if exp > 0 then
      let m := min (minPrec x) exp.toNat
      mant.take m ++ repeatChar '0' (exp.toNat - m)
    else ['0']
  let fp : List Char :=
    if prec > 0 then
      '.' :: (List.range prec.toNat).map (fun (i : Nat) =>
        let n : Int := exp + (i : Int)
        if 0 ≤ n ∧ n < mant.length then mant.getD n.toNat '0' else '0')
    else []
  ip ++ fp

/-- `%b`: dddddde±dd using exactly x.prec digits -/
def fmtB (x : Dec) : List Char :=
  if x.form == .zero then ['0'] else
  let (m0, exp) := toa x
  let m := if x.prec < m0.length then m0.take x.prec else m0
  let e : Int := exp - x.prec
  m ++ repeatChar '0' (x.prec - m.length) ++ ['e'] ++ (if e ≥ 0 then ['+'] else []) ++ intToChars e

/-- `%p`: 0.dddde±dd -/
def fmtP (x : Dec) : List Char :=
  if x.form == .zero then ['0'] else
  let (mant, exp) := toa x
  "0.".toList ++ trimRightZeros mant ++ ['e'] ++ (if exp ≥ 0 then ['+'] else []) ++ intToChars exp

/-- The value printed by `%.<prec>f` when the rounding position is at or above the leading digit
    (`x.exp + prec ≤ 0`): ±0 or ±10^-prec, decided by rounding `±2·10^-prec + x` once to one digit
    (an even number of quanta is added, so ties still go to even). -/
def roundBelowQuantum (x : Dec) (prec : Int) : Dec :=
  let q : Dec := { form := .finite, neg := x.neg, mant := 2 * 10 ^ 18, len := 1, exp := 1 - prec, prec := DefaultPrec }
  let z := (add { mode := x.mode, prec := 1 } q x).1
  if z.form == .finite && z.mant / 10 ^ (z.len * DW - 1) == 3 then
    { form := .finite, neg := x.neg, mant := 10 ^ 18, len := 1, exp := 1 - prec, prec := DefaultPrec, mode := x.mode }
  else { form := .zero, neg := x.neg, prec := DefaultPrec, mode := x.mode }

/-- `x.Append(nil, fmt, prec)`. -/
def append (x : Dec) (fmtc : Char) (prec : Int) : List Char :=
  let sign : List Char := if x.neg then ['-'] else []
  if x.form == .inf then sign ++ (if x.neg then [] else ['+']) ++ "Inf".toList
  else if fmtc == 'b' then sign ++ fmtB x
  else if fmtc == 'p' then sign ++ fmtP x
  else if !(fmtc == 'e' || fmtc == 'E' || fmtc == 'f' || fmtc == 'g' || fmtc == 'G') then ['%', fmtc]
  else
    let digits0 : Int := minPrec x
    let shortest := prec < 0
    -- x.MantExp(nil): the exponent field of a zero is not meaningful
    let ex : Dec → Int := fun d => if d.form == .finite then d.exp else 0
    -- 1) round to the desired precision
    let (x, digits, prec) : Dec × Int × Int :=
      if shortest then
        let prec : Int :=
          if fmtc == 'e' || fmtc == 'E' then digits0 - 1
          else if fmtc == 'f' then max (digits0 - ex x) 0
          else digits0
        (x, digits0, prec)
      else
        let prec : Int := if (fmtc == 'g' || fmtc == 'G') && prec == 0 then 1 else prec
        let rnd : Int :=
          if fmtc == 'e' || fmtc == 'E' then 1 + prec
          else if fmtc == 'f' then ex x + prec
          else prec
        if fmtc == 'f' && x.form == .finite && rnd ≤ 0 then
          let y := roundBelowQuantum x prec
          (y, minPrec y, prec)
        else if rnd < digits0 then
          let y := set { mode := x.mode, prec := rnd.toNat } x
          (y, minPrec y, prec)
        else (x, digits0, prec)
    -- 2) read digits out and format
    if fmtc == 'e' || fmtc == 'E' then sign ++ fmtE x fmtc prec
    else if fmtc == 'f' then sign ++ fmtF x prec
    else
      let eprec : Int := if prec > digits && digits ≥ ex x then digits else prec
      let eprec : Int := if shortest then 6 else eprec
      let exp : Int := ex x - 1
      if exp < -4 || exp ≥ eprec then
        let prec := if prec > digits then digits else prec
        sign ++ fmtE x (if fmtc == 'g' then 'e' else 'E') (prec - 1)
      else
        let prec := if prec > ex x then digits else prec
        sign ++ fmtF x (max (prec - ex x) 0)

/-- Flags of a fmt verb. -/
structure FmtFlags where
  plus : Bool := false
  space : Bool := false
  zero : Bool := false
  minus : Bool := false
  width : Option Nat := none
  prec : Option Nat := none
  deriving Repr, Inhabited

/-- `x.Format(s, verb)`. -/
def format (x : Dec) (fl : FmtFlags) (verb : Char) : List Char :=
  let okVerb := verb == 'e' || verb == 'E' || verb == 'f' || verb == 'b' || verb == 'p' || verb == 'F' || verb == 's' ||
    verb == 'v' || verb == 'g' || verb == 'G'
  if !okVerb then
    "%!".toList ++ [verb] ++ "(*decimal.Decimal=".toList ++ append x 'g' 10 ++ [')']
  else
    let prec0 : Int := match fl.prec with | some p => p | none => 6
    let (f, prec) : Char × Int :=
      if verb == 'F' then ('f', prec0)
      else if verb == 's' then ('g', match fl.prec with | some p => (p : Int) | none => 10)
      else if verb == 'v' || verb == 'g' then ('g', match fl.prec with | some p => (p : Int) | none => -1)
      else if verb == 'G' then ('G', match fl.prec with | some p => (p : Int) | none => -1)
      else (verb, prec0)
    let buf := append x f prec
    let (sign, buf) : List Char × List Char :=
      match buf with
      | '-' :: rest => (['-'], rest)
      | '+' :: rest => ((if fl.space && !fl.plus then [' '] else ['+']), rest)
      | _ => ((if fl.plus then ['+'] else if fl.space then [' '] else []), buf)
    let padding : Nat := match fl.width with
      | some w => if w > sign.length + buf.length then w - sign.length - buf.length else 0
      | none => 0
    if fl.zero && !fl.minus && x.form != .inf then sign ++ repeatChar '0' padding ++ buf
    else if fl.minus then sign ++ buf ++ repeatChar ' ' padding
    else repeatChar ' ' padding ++ sign ++ buf

end Decimal
