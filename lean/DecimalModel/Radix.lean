/-
  L0: the radix-conversion loops between math/big's base-2^64 words (`[]big.Word`) and the decimal
  base-10^19 words (`dec`), and the word-level `SetInt` / `Int` that call them.

    dec.setNat(x []big.Word)          /repo/dec.go:204     (binary words → decimal words)
    decToNat(z []big.Word, x dec)     /repo/dec.go:172     (decimal words → binary words)
    divWVW_g                          /repo/arith.go:210   (vector ÷ word in base 2^64)
    (*Decimal).SetInt                 /repo/decimal.go:1190
    (*Decimal).Int (finite, exp > 0)  /repo/decimal.go:548, intMant decimal.go:595

  Conventions
  * little-endian word lists; value semantics;
  * DESTINATION BUFFERS ARE NOT CLEARED by Go (`z.make(n)` / `makeNat(z, n)` reuse the backing array
    when the capacity allows): a destination is modelled as a list of the requested length whose
    initial contents are ARBITRARY — the parameter `junk : Nat → Nat` gives the word initially found
    at each index (`mkBuf`).  The loops write with `List.set`; "every word of the result was
    written" is therefore part of what the specification theorems say (the results do not depend on
    `junk`).
  * The destination LENGTHS are the Go estimates.  Both go through float64:
        SetInt :  prec := uint32(math.Ceil(float64(bits) * log10_2));  n := (prec + 18) / 19
        decToNat: n := (int(float64(x.digits()) * log2_10) + 64) / 64
    with the constants `log10_2 = math.Ln2/math.Ln10`, `log2_10 = math.Ln10/math.Ln2` converted to
    float64: `log10_2 = 5422874305198591·2^-54` (bits 0x3FD34413509F79FF) and
    `log2_10 = 7480317065143153·2^-51` (bits 0x400A934F0979A371), as printed by a Go program.
    `float64(bits)` (`bits` a uint32) and `float64(digits)` (`digits < 2^53`) are exact, so the only
    rounding is the one of the product: `roundF64` below is IEEE round-to-nearest-even of a positive
    integer multiple of a power of two to a 53-bit mantissa, in integer arithmetic; `math.Ceil`, the
    `int(…)` truncation and the integer divisions follow.  The model of the estimates is exact for
    `bits < 2^32` (it is a `uint32`) and `digits < 2^53`; it was compared with the Go expressions on
    60 263 arguments (`Checks/RadixFloatCheck.lean`); the loops are validated against arithmetic
    in `Checks/RadixEval.lean`.
  * `x.BitLen()` is the bit length of the value of `x.Bits()`; `uint32(…)` wraps modulo 2^32.

  Core Lean only: this file is linked into the driver.
-/
import DecimalModel.L0Decimal

namespace Decimal.L0
open Decimal Decimal.Gen

/-- Value of a little-endian vector of base-2^64 words (`[]big.Word`). -/
def binOf : List Nat → Nat
  | [] => 0
  | w :: ws => w + W * binOf ws

/-- every word fits a machine word. -/
def WFbin (x : List Nat) : Prop := ∀ w ∈ x, w < 18446744073709551616

/-- A destination of `n` words with arbitrary initial contents (`z.make(n)`, `makeNat(z, n)`). -/
def mkBuf (n : Nat) (junk : Nat → Nat) : List Nat := (List.range n).map junk

/-! ### `divWVW_g` -/

/-- `divWVW_g(z, xn, x, y)`, from the most significant word down. Input most significant first;
    output: the quotient little-endian and the remainder. -/
def divWVWrev : List Nat → Nat → Nat → List Nat × Nat
  | [], _, r => ([], r)
  | x :: xs, y, r =>
    let (q, r1) := divWW_g r x y
    let (qs, r2) := divWVWrev xs y r1
    (qs ++ [q], r2)

def divWVW (x : List Nat) (xn y : Nat) : List Nat × Nat := divWVWrev x.reverse y xn

/-! ### `dec.setNat` -/

/-- the loop `for i := 0; i < len(z); i++ { z[i] = divWVW(b, 0, b, _DB) }`; `k` iterations remain. -/
def setNatLoop : Nat → Nat → List Nat → List Nat → List Nat
  | 0, _, _, z => z
  | k + 1, i, b, z =>
    let (q, r) := divWVW b 0 c_DB
    setNatLoop k (i + 1) q (z.set i r)

/-- `z.setNat(x)`: `z` is the destination as handed over by the caller (length chosen by the
    caller, contents arbitrary); `b` is the copy of `x` (`Word(x[i])` is the identity on 64 bits). -/
def setNat (z : List Nat) (x : List Nat) : List Nat :=
  let b := x
  norm (setNatLoop z.length 0 b z)

/-! ### the float64 size estimates -/

/-- mantissa and binary exponent of the float64 constants. -/
def log10_2_m : Nat := 5422874305198591
def log10_2_e : Nat := 54
def log2_10_m : Nat := 7480317065143153
def log2_10_e : Nat := 51

/-- IEEE-754 binary64 rounding (to nearest, ties to even) of the positive integer `P` counted in
    units of a fixed power of two: the result in the same units. -/
def roundF64 (P : Nat) : Nat :=
  if P < 2 ^ 53 then P else
  let k := Nat.log2 P + 1 - 53
  let q := P / 2 ^ k
  let r := P % 2 ^ k
  let half := 2 ^ (k - 1)
  let q' := if r > half ∨ (r = half ∧ q % 2 = 1) then q + 1 else q
  q' * 2 ^ k

/-- `uint32(math.Ceil(float64(bits) * log10_2))` (decimal.go:1203). -/
def setIntPrec (bits : Nat) : Nat :=
  (roundF64 (bits * log10_2_m) + (2 ^ log10_2_e - 1)) / 2 ^ log10_2_e

/-- `int((prec + _DW - 1) / _DW)` (decimal.go:1206): the destination length of `SetInt`. -/
def setIntWords (bits : Nat) : Nat := (setIntPrec bits + (c_DW - 1)) / c_DW

/-- `int(float64(digits) * log2_10)` (dec.go:183). -/
def decToNatBits (digits : Nat) : Nat := roundF64 (digits * log2_10_m) / 2 ^ log2_10_e

/-- `(int(float64(x.digits())*log2_10) + _W) / _W` (dec.go:183): the destination length of
    `decToNat`. -/
def decToNatWords (digits : Nat) : Nat := (decToNatBits digits + 64) / 64

/-- `x.digits()` (dec.go:60). -/
def digits (x : List Nat) : Nat :=
  if x.length = 0 then 0 else (x.length - 1) * c_DW + decDigits (x.getD (x.length - 1) 0)

/-! ### `decToNat` -/

/-- the inner loop `for j := len(zz)-1; j >= 0; j-- { zz[j], r = mulAddWWW_g(r, _DB, zz[j]) }`:
    one division of `zz` by 2^64. Input most significant first; output: the quotient little-endian
    and the remainder. -/
def shrWordRev : List Nat → Nat → List Nat × Nat
  | [], r => ([], r)
  | x :: xs, r =>
    let (hi, lo) := mulAddWWW_g r c_DB x
    let (qs, r1) := shrWordRev xs lo
    (qs ++ [hi], r1)

/-- the outer loop `for i := 0; i < len(z); i++ { …; zz = zz.norm(); z[i] = big.Word(r) }`;
    `k` iterations remain. -/
def decToNatLoop : Nat → Nat → List Nat → List Nat → List Nat
  | 0, _, _, z => z
  | k + 1, i, zz, z =>
    let (q, r) := shrWordRev zz.reverse 0
    decToNatLoop k (i + 1) (norm q) (z.set i r)

/-- `decToNat(z, x)`; `junk` = the initial contents of the destination returned by `makeNat`. -/
def decToNat (junk : Nat → Nat) (x : List Nat) : List Nat :=
  if x.length = 0 then []
  else if x.length = 1 then (mkBuf 1 junk).set 0 (x.getD 0 0)
  else
    let z := mkBuf (decToNatWords (digits x)) junk
    let zz := x
    norm (decToNatLoop z.length 0 zz z)

end Decimal.L0

namespace Decimal.W
open Decimal Decimal.L0 Decimal.Gen

/-- `z.SetInt(x)` on words: `neg` is `x.Sign() < 0`, `x` is `x.Bits()`; `junk` = the initial
    contents of `z.mant.make(n)`. -/
def setInt (z : WDec) (junk : Nat → Nat) (neg : Bool) (x : List Nat) : Except String WDec :=
  let bits := bitLen (binOf x) % 4294967296
  let z := { z with acc := Exact, neg := neg }
  if bits == 0 then
    .ok { z with form := .zero, prec := if z.prec == 0 then DefaultPrec else z.prec }
  else
    let prec := setIntPrec bits
    let z := { z with mant := setNat (mkBuf ((prec + (c_DW - 1)) / c_DW) junk) x }
    let zp : Except String WDec :=
      if z.prec == 0 then
        if z.mant.length = 0 then .error "index out of range" else
        let digits := z.mant.length * c_DW - nlz10 (z.mant.getD (z.mant.length - 1) 0)
        let digits := if digits > MaxPrec then MaxPrec else digits
        .ok { z with prec := umax32 digits DefaultPrec }
      else .ok z
    match zp with
    | .error e => .error e
    | .ok z => dnormAndRound z ((z.mant.length : Int) * (c_DW : Nat)) 0

/-- `x.intMant()` (decimal.go:595). -/
def intMant (x : WDec) : List Nat :=
  let allDigits : Int := ((x.mant.length * c_DW : Nat) : Int)
  if x.exp > allDigits then L0.shl x.mant (x.exp - allDigits).toNat
  else if x.exp < allDigits then L0.shr x.mant (allDigits - x.exp).toNat
  else x.mant

/-- `x.Int(z)` for a finite `x` with `x.exp > 0`: the words handed to `z.SetBits`
    (`decToNat(z.Bits(), x.intMant())`, decimal.go:578). -/
def intWords (x : WDec) (junk : Nat → Nat) : List Nat := decToNat junk (intMant x)

end Decimal.W
