/-
  L1 model of the `math/big.Rat` conversions of decimal.go: `SetRat` and `Rat`.

  Core Lean only (no Mathlib): core `Rat` is, like `big.Rat`, always in lowest terms with a
  positive denominator, so `x.num` / `x.den` are `x.Num()` / `x.Denom()` and `x.IsInt()` is
  `x.den = 1`.

  `setRat` is written literally on top of the L1 models of `SetInt` and `Quo`
  (`DecimalModel/Arith.lean`): the two scratch Decimals `a`, `b` of the Go code are zero values
  (`prec = 0`, `ToNearestEven`), so `SetInt` chooses their precisions.
-/
import DecimalModel.Arith

namespace Decimal

/--
  `z.SetRat(x)` for `x = a/b` given by its numerator and denominator (decimal.go:1354):

      if x.IsInt() { return z.SetInt(x.Num()) }
      var a, b Decimal
      a.SetInt(x.Num()); b.SetInt(x.Denom())
      if z.prec == 0 { z.prec = umax32(a.prec, b.prec) }
      return z.Quo(&a, &b)

  `big.Rat` keeps `b > 0` and `gcd(a, b) = 1`, so `IsInt()` is `b = 1` (and `0` is `0/1`).
  The function itself does not need the fraction to be in lowest terms.
-/
def setRat (z : Dec) (a : Int) (b : Nat) : Dec × Outcome :=
  if b == 1 then (setInt z a, .ok)
  else
    let x := setInt {} a
    let y := setInt {} (b : Int)
    let z := if z.prec == 0 then { z with prec := umax x.prec y.prec } else z
    quo z x y

/-- `z.SetRat(x)` on a (normalised) rational. -/
def setRatQ (z : Dec) (x : Rat) : Dec × Outcome := setRat z x.num x.den

/-- The precision `SetRat` leaves in a receiver of precision 0 (for `a ≠ 0`, `b ≠ 1`):
    the larger of the precisions `SetInt` picks for numerator and denominator. -/
def setRatPrec (z : Dec) (a : Int) (b : Nat) : Nat :=
  if z.prec == 0 then umax (setInt {} a).prec (setInt {} (b : Int)).prec else z.prec

/-- Magnitude returned by `x.Rat(nil)` for a finite `x` (decimal.go:969), `allDigits = 19·len`:
    `mant × 10^(exp − allDigits)` built as an integer when `exp ≥ allDigits`, and as the `big.Rat`
    quotient `mant / 10^(allDigits − exp)` otherwise. -/
def ratMag (x : Dec) : Rat :=
  let all : Int := (x.len * DW : Nat)
  if x.exp > all then ((x.mant * 10 ^ (x.exp - all).toNat : Nat) : Rat)
  else if x.exp < all then (x.mant : Rat) / ((10 ^ (all - x.exp).toNat : Nat) : Rat)
  else (x.mant : Rat)

/-- `x.Rat(nil)`: the value as a rational (`none` for `nil`, returned for infinities) and the
    accuracy. -/
def toRat (x : Dec) : Option Rat × Acc :=
  match x.form with
  | .zero => (some 0, Exact)
  | .inf => (none, makeAcc x.neg)
  | .finite =>
    let v := ratMag x
    (some (if x.neg then -v else v), Exact)

/--
  The Go code computes `allDigits - x.exp` and `x.exp - allDigits` in `int32` and converts the
  result to `uint` for `dec.shl`. `toRat` uses unbounded integers; this guard says that the
  `int32` arithmetic does not wrap: `19·len ≤ 2^31 − 1` and `19·len − exp ≤ 2^31 − 1`.
  (When it wraps, the shift count becomes a `uint` near `2^64` and `dec.shl` cannot allocate
  its result: the call panics.)
-/
def toRatGuard (x : Dec) : Bool :=
  x.form != .finite ||
    (decide (((x.len * DW : Nat) : Int) ≤ 2147483647) &&
      decide (((x.len * DW : Nat) : Int) - x.exp ≤ 2147483647))

end Decimal
