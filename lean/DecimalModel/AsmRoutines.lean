/-
  Go-signature wrappers around the regenerated assembly (`Gen/Asm.lean`), core Lean only.

  `callKernel` builds the ABI0 argument frame (a slice is three words: pointer, len, cap; results
  follow the arguments), places a word heap and the table `pow10DivTab64` in memory, runs the
  routine's control-flow graph with `Asm.run` and reads results and heap back.
  Slices are given as (word offset, length) into the heap, so that overlapping and in-place calls
  can be expressed exactly as the library makes them.
-/
import DecimalModel.Gen.Asm

namespace Decimal.Asm

open Decimal.Gen.Asm

/-- byte address of `pow10DivTab64` in the model (8-byte aligned, otherwise arbitrary) -/
def tabBase : Nat := 65536
/-- byte address of the heap (8-byte aligned, otherwise arbitrary) -/
def heapBase : Nat := 16777216

def symTab (name : String) : Nat := if name = "pow10DivTab64" then tabBase else 0

/-- memory holding the table and nothing else -/
def tabMem : Mem := listMem tabBase pow10DivTab64Words (fun _ => 0)

inductive Arg where
  | word (w : Nat)
  | slice (off len : Nat)

def Arg.words : Arg → List Nat
  | .word w => [w]
  | .slice off len => [heapBase + 8 * off, len, len]

def frameOf (args : List Arg) : List Nat := (args.map Arg.words).flatten

def initState (args : List Arg) (heap : List Nat) : St :=
  { mem := listMem heapBase heap tabMem, frame := listMem 0 (frameOf args) (fun _ => 0), sym := symTab }

/-- enough fuel for every routine: at most 3 blocks per word plus a constant -/
def fuelFor (heap : List Nat) : Nat := 4 * heap.length + 64

/-- Run a routine. Result: (result words, heap afterwards); `none` on #DE or (impossible) lack of fuel. -/
def callKernel (entry : Lbl) (args : List Arg) (nres : Nat) (heap : List Nat) : Option (List Nat × List Nat) :=
  match run program (fuelFor heap) entry (initState args heap) with
  | none => none
  | some s =>
    if s.trap then none
    else some (readList s.frame (8 * (frameOf args).length) nres, readList s.mem heapBase heap.length)

/-! ### Word routines -/

/-- func mul10WW(x, y Word) (z1, z0 Word) -/
def asm_mul10WW (x y : Nat) : Option (Nat × Nat) :=
  match callKernel .mul10WW_entry [.word x, .word y] 2 [] with
  | some ([z1, z0], _) => some (z1, z0)
  | _ => none

/-- func div10WW(x1, x0, y Word) (q, r Word) -/
def asm_div10WW (x1 x0 y : Nat) : Option (Nat × Nat) :=
  match callKernel .div10WW_entry [.word x1, .word x0, .word y] 2 [] with
  | some ([q, r], _) => some (q, r)
  | _ => none

/-- func div10W(n1, n0 Word) (q, r Word) -/
def asm_div10W (n1 n0 : Nat) : Option (Nat × Nat) :=
  match callKernel .div10W_entry [.word n1, .word n0] 2 [] with
  | some ([q, r], _) => some (q, r)
  | _ => none

/-! ### Vector routines, destination disjoint from the sources (heap = z ++ x ++ y).
    `len(z)` is `n`; the caller passes sources at least that long, as the library does. -/

def zeros (n : Nat) : List Nat := List.replicate n 0

def vecResult (n : Nat) : Option (List Nat × List Nat) → Option (List Nat × Nat)
  | some ([c], heap) => some (heap.take n, c)
  | _ => none

/-- func add10VV(z, x, y []Word) (c Word) -/
def asm_add10VV (x y : List Nat) : Option (List Nat × Nat) :=
  let n := x.length
  vecResult n (callKernel .add10VV_entry [.slice 0 n, .slice n n, .slice (2 * n) y.length] 1 (zeros n ++ x ++ y))

/-- func sub10VV(z, x, y []Word) (c Word) -/
def asm_sub10VV (x y : List Nat) : Option (List Nat × Nat) :=
  let n := x.length
  vecResult n (callKernel .sub10VV_entry [.slice 0 n, .slice n n, .slice (2 * n) y.length] 1 (zeros n ++ x ++ y))

/-- func add10VW(z, x []Word, y Word) (c Word) -/
def asm_add10VW (x : List Nat) (y : Nat) : Option (List Nat × Nat) :=
  let n := x.length
  vecResult n (callKernel .add10VW_entry [.slice 0 n, .slice n n, .word y] 1 (zeros n ++ x))

/-- func sub10VW(z, x []Word, y Word) (c Word) -/
def asm_sub10VW (x : List Nat) (y : Nat) : Option (List Nat × Nat) :=
  let n := x.length
  vecResult n (callKernel .sub10VW_entry [.slice 0 n, .slice n n, .word y] 1 (zeros n ++ x))

/-- func shl10VU(z, x []Word, s uint) (c Word) -/
def asm_shl10VU (x : List Nat) (sh : Nat) : Option (List Nat × Nat) :=
  let n := x.length
  vecResult n (callKernel .shl10VU_entry [.slice 0 n, .slice n n, .word sh] 1 (zeros n ++ x))

/-- func shr10VU(z, x []Word, s uint) (c Word) -/
def asm_shr10VU (x : List Nat) (sh : Nat) : Option (List Nat × Nat) :=
  let n := x.length
  vecResult n (callKernel .shr10VU_entry [.slice 0 n, .slice n n, .word sh] 1 (zeros n ++ x))

/-- func mulAdd10VWW(z, x []Word, y, r Word) (c Word) -/
def asm_mulAdd10VWW (x : List Nat) (y r : Nat) : Option (List Nat × Nat) :=
  let n := x.length
  vecResult n (callKernel .mulAdd10VWW_entry [.slice 0 n, .slice n n, .word y, .word r] 1 (zeros n ++ x))

/-- func addMul10VVW(z, x []Word, y Word) (c Word)   (z is read and written) -/
def asm_addMul10VVW (z x : List Nat) (y : Nat) : Option (List Nat × Nat) :=
  let n := z.length
  vecResult n (callKernel .addMul10VVW_entry [.slice 0 n, .slice n x.length, .word y] 1 (z ++ x))

/-- func div10VWW(z, x []Word, y, xn Word) (r Word) -/
def asm_div10VWW (x : List Nat) (y xn : Nat) : Option (List Nat × Nat) :=
  let n := x.length
  vecResult n (callKernel .div10VWW_entry [.slice 0 n, .slice n n, .word y, .word xn] 1 (zeros n ++ x))

/-! ### The same with the destination in place (z = x; heap = x ++ y) -/

def asm_add10VV_inplace (x y : List Nat) : Option (List Nat × Nat) :=
  let n := x.length
  vecResult n (callKernel .add10VV_entry [.slice 0 n, .slice 0 n, .slice n y.length] 1 (x ++ y))

def asm_sub10VV_inplace (x y : List Nat) : Option (List Nat × Nat) :=
  let n := x.length
  vecResult n (callKernel .sub10VV_entry [.slice 0 n, .slice 0 n, .slice n y.length] 1 (x ++ y))

/-- one-source routines in place: `entry` with frame `z, x, scalars…` and z = x -/
def asm_inplace (entry : Lbl) (x : List Nat) (scalars : List Nat) : Option (List Nat × Nat) :=
  let n := x.length
  vecResult n (callKernel entry ([.slice 0 n, .slice 0 n] ++ scalars.map .word) 1 x)

end Decimal.Asm
