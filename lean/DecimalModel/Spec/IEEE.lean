/-
  Specification S: IEEE-754 results of + − × ÷ fma for every class of operand
  (±0, finite, ±Inf), finite×finite delegating to `Spec.round` of the exact result.
  `none` = invalid operation (NaN): the Go code must panic with ErrNaN.
-/
import DecimalModel.Spec.RoundInt

namespace Decimal.Spec

open Decimal

/-- Sign of an exactly-zero sum of two addends with signs `a`, `b`
    (IEEE 754-2008 §6.3): like signs keep it; otherwise +0, −0 under roundTowardNegative. -/
def zeroSumSign (mode : Mode) (a b : Bool) : Bool :=
  if a == b then a else mode == .ToNegativeInf

def zeroRes (neg : Bool) : SRes := { form := .zero, neg := neg, acc := Exact }
def infRes (neg : Bool) : SRes := { form := .inf, neg := neg, acc := Exact }

/-- Round one value (Set, SetPrec, …): specials map to themselves. -/
def roundSV (mode : Mode) (p : Nat) : SV → SRes
  | .zero n => zeroRes n
  | .inf n => infRes n
  | .fin n q k => round mode p n q k

def negSV : SV → SV
  | .zero n => .zero (!n)
  | .inf n => .inf (!n)
  | .fin n q k => .fin (!n) q k

def addSV (mode : Mode) (p : Nat) : SV → SV → Option SRes
  | .inf a, .inf b => if a == b then some (infRes a) else none
  | .inf a, _ => some (infRes a)
  | _, .inf b => some (infRes b)
  | .zero a, .zero b => some (zeroRes (zeroSumSign mode a b))
  | .zero _, y => some (roundSV mode p y)
  | x, .zero _ => some (roundSV mode p x)
  | .fin a q k, .fin b r l =>
    some (roundSQ mode p (SQ.addForRound p (signedQ a q k) (signedQ b r l)) (zeroSumSign mode a b))

def subSV (mode : Mode) (p : Nat) (x y : SV) : Option SRes := addSV mode p x (negSV y)

def mulSV (mode : Mode) (p : Nat) : SV → SV → Option SRes
  | .zero _, .inf _ => none
  | .inf _, .zero _ => none
  | .inf a, .inf b => some (infRes (a != b))
  | .inf a, .fin b _ _ => some (infRes (a != b))
  | .fin a _ _, .inf b => some (infRes (a != b))
  | .zero a, .zero b => some (zeroRes (a != b))
  | .zero a, .fin b _ _ => some (zeroRes (a != b))
  | .fin a _ _, .zero b => some (zeroRes (a != b))
  | .fin a q k, .fin b r l => some (round mode p (a != b) (q * r) (k + l))

def quoSV (mode : Mode) (p : Nat) : SV → SV → Option SRes
  | .zero _, .zero _ => none
  | .inf _, .inf _ => none
  | .zero a, .inf b => some (zeroRes (a != b))
  | .zero a, .fin b _ _ => some (zeroRes (a != b))
  | .fin a _ _, .inf b => some (zeroRes (a != b))
  | .inf a, .zero b => some (infRes (a != b))
  | .inf a, .fin b _ _ => some (infRes (a != b))
  | .fin a _ _, .zero b => some (infRes (a != b))
  | .fin a q k, .fin b r l => some (round mode p (a != b) (q / r) (k - l))

/-- The exact product as a value (never rounded). -/
def mulExact : SV → SV → Option SV
  | .zero _, .inf _ => none
  | .inf _, .zero _ => none
  | .inf a, .inf b => some (.inf (a != b))
  | .inf a, .fin b _ _ => some (.inf (a != b))
  | .fin a _ _, .inf b => some (.inf (a != b))
  | .zero a, .zero b => some (.zero (a != b))
  | .zero a, .fin b _ _ => some (.zero (a != b))
  | .fin a _ _, .zero b => some (.zero (a != b))
  | .fin a q k, .fin b r l => some (.fin (a != b) (q * r) (k + l))

/-- fma: exact product, then the sum rounded once. -/
def fmaSV (mode : Mode) (p : Nat) (x y u : SV) : Option SRes :=
  match mulExact x y with
  | none => none
  | some pr => addSV mode p pr u

/-- Order of two positive scaled rationals: by decimal exponent first, so that the alignment
    below never needs more digits than the operands have. -/
def cmpMag (q : Rat) (k : Int) (r : Rat) (l : Int) : Int :=
  let ea := decExp q + k
  let eb := decExp r + l
  if ea < eb then -1 else if ea > eb then 1
  else
    let d := ((⟨q, k⟩ : SQ).add ⟨-r, l⟩).s
    if d < 0 then -1 else if d > 0 then 1 else 0

/-- Order on values: −Inf < negative finite < ±0 < positive finite < +Inf. -/
def cmpSV (x y : SV) : Int :=
  let cls : SV → Int := fun
    | .zero _ => 0
    | .inf n => if n then -2 else 2
    | .fin n _ _ => if n then -1 else 1
  let cx := cls x
  let cy := cls y
  if cx < cy then -1 else if cx > cy then 1
  else match x, y with
    | .fin n q k, .fin _ r l => if n then cmpMag r l q k else cmpMag q k r l
    | _, _ => 0

end Decimal.Spec

namespace Decimal.Spec
open Decimal

/-- Correctly rounded square root: `none` = invalid (negative operand). The magnitude of a finite
    operand must have an integer coefficient (`q.den = 1`), which holds for `ofDec`. -/
def sqrtSV (mode : Mode) (p : Nat) : SV → Option SRes
  | .zero n => some (zeroRes n)
  | .inf false => some (infRes false)
  | .inf true => none
  | .fin true _ _ => none
  | .fin false q k =>
    let M := q.num.natAbs
    let (M, k) := if k % 2 != 0 then (M * 10, k - 1) else (M, k)
    let t := p + 1
    let X := M * 10 ^ (2 * t)
    let N := Nat.sqrt X
    some (roundInt mode p false N (k / 2 - t) (N * N != X))

/-- Value agreement only (sign, class, digits, exponent), ignoring the accuracy. -/
def agreesValue (z : Dec) (r : SRes) : Bool := agrees { z with acc := r.acc } r

/-- Truncation toward zero of a value, as (negative?, magnitude), and whether it was exact. -/
def truncSV : SV → Option (Bool × Nat × Bool)
  | .zero _ => some (false, 0, true)
  | .inf _ => none
  | .fin n q k =>
    let v : Rat := q * pow10Rat k
    let f := v.floor.toNat
    some (n, f, (f : Rat) == v)

end Decimal.Spec
