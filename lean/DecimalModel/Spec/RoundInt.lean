/-
  Integer form of "round once" (DESIGN Appendix B): the exact magnitude lies in
  `[N, N+1) × 10^k` with `sticky ↔ magnitude ≠ N × 10^k`, `N > 0`.  This is the form the code
  sees (a truncated quotient or an exact integer); it is proved equal to `Spec.round` on the
  rational magnitude (Proofs/RoundSpec.lean), and the L1 `round` is proved equal to it
  (Proofs/Round.lean).
-/
import DecimalModel.Spec.Round

namespace Decimal.Spec

open Decimal

/-- Increment decision from the truncated coefficient `lo`, the remainder `rem` of the `r ≥ 1`
    discarded digits and the sticky flag. -/
def incrInt (mode : Mode) (neg : Bool) (lo rem r : Nat) (sticky : Bool) : Bool :=
  let half := 5 * 10 ^ (r - 1)
  match mode with
  | .ToZero => false
  | .AwayFromZero => true
  | .ToNegativeInf => neg
  | .ToPositiveInf => !neg
  | .ToNearestEven => decide (rem > half) || (rem == half && (sticky || lo % 2 == 1))
  | .ToNearestAway => decide (rem ≥ half)

/--
  Round the magnitude in `[N, N+1) × 10^k` (`N > 0`; `sticky` = strictly above `N × 10^k`) to `p`
  digits. Precondition for a meaningful result: `sticky → ndigits N ≥ p + 1`.
-/
def roundInt (mode : Mode) (p : Nat) (neg : Bool) (N : Nat) (k : Int) (sticky : Bool) : SRes :=
  let nd := ndigits N
  let e : Int := (nd : Int) + k            -- decimal exponent of the magnitude
  if e < MinExp then { form := .zero, neg := neg, acc := makeAcc neg }
  else if nd ≤ p then
    -- fits: exact (requires ¬sticky)
    if e > MaxExp then { form := .inf, neg := neg, acc := makeAcc (!neg) }
    else { form := .finite, neg := neg, coef := N * 10 ^ (p - nd), exp := e, acc := Exact }
  else
    let r := nd - p
    let lo := N / 10 ^ r
    let rem := N % 10 ^ r
    let exact := rem == 0 && !sticky
    let inc := !exact && incrInt mode neg lo rem r sticky
    let c := if inc then lo + 1 else lo
    let (c, e) := if c == 10 ^ p then (10 ^ (p - 1), e + 1) else (c, e)
    let acc := if exact then Exact else makeAcc (inc != neg)
    if e > MaxExp then { form := .inf, neg := neg, acc := makeAcc (!neg) }
    else { form := .finite, neg := neg, coef := c, exp := e, acc := acc }

end Decimal.Spec
