/-
  Specification: the IEEE-754 binary value nearest to a positive rational (ties to even),
  for a format with `p` significand bits, minimum normal exponent `emin` (value 2^emin) and
  overflow threshold 2^emax. binary64: p = 53, emin = -1022, emax = 1024; binary32: 24, -126, 128.
-/
import DecimalModel.Spec.Round

namespace Decimal.Spec

def pow2Rat (e : Int) : Rat :=
  if e ≥ 0 then ((2 ^ e.toNat : Nat) : Rat) else 1 / ((2 ^ (-e).toNat : Nat) : Rat)

/-- ⌊log2 q⌋ for q > 0. -/
def floorLog2 (q : Rat) : Int :=
  let e0 : Int := (Nat.log2 q.num.natAbs : Int) - (Nat.log2 q.den : Int)
  -- 2^(e0-1) < q < 2^(e0+1)
  if q < pow2Rat e0 then e0 - 1 else e0

structure BinRes where
  /-- number of units `n`, unit exponent `u`: value = n × 2^u; `inf` when the rounded value reaches 2^emax -/
  inf : Bool
  n : Nat
  u : Int
  /-- sign of (result − q) -/
  acc : Int
  /-- distance of q from the nearest rounding midpoint / representable value, in units, as rationals -/
  distMid : Rat
  distRep : Rat
  deriving Repr

def nearestBin (p : Nat) (emin emax : Int) (q : Rat) : BinRes :=
  let e := floorLog2 q                         -- 2^e ≤ q < 2^(e+1)
  let u : Int := if e < emin then emin - (p - 1 : Nat) else e - (p - 1 : Nat)
  let t := q / pow2Rat u
  let lo := t.floor.toNat
  let frac := t - (lo : Rat)
  let up := decide (frac > 1/2) || (decide (frac = 1/2) && lo % 2 == 1)
  let n := if up then lo + 1 else lo
  let acc : Int := if frac == 0 then 0 else if up then 1 else -1
  let distMid := if frac ≥ 1/2 then frac - 1/2 else 1/2 - frac
  let distRep := if frac ≥ 1/2 then 1 - frac else frac
  -- overflow: n × 2^u ≥ 2^emax
  if (n : Rat) * pow2Rat u ≥ pow2Rat emax then { inf := true, n := 0, u := 0, acc := 1, distMid := distMid, distRep := distRep }
  else { inf := false, n := n, u := u, acc := acc, distMid := distMid, distRep := distRep }

/-- IEEE bit pattern of the magnitude `n × 2^u` for binary64 (n < 2^53, u ≥ -1074). -/
def bits64 (r : BinRes) : Nat :=
  if r.inf then 0x7ff0000000000000
  else if r.n == 0 then 0
  else
    -- normalise n to 53 bits when it is a normal number
    let l := Nat.log2 r.n                      -- n has l+1 bits
    let e : Int := r.u + l                      -- value in [2^e, 2^(e+1))
    if e < -1022 then r.n                       -- subnormal: u = -1074
    else
      let m := if l ≤ 52 then r.n * 2 ^ (52 - l) else r.n / 2 ^ (l - 52)   -- 53-bit significand
      ((e + 1023).toNat) * 2 ^ 52 + (m - 2 ^ 52)

def bits32 (r : BinRes) : Nat :=
  if r.inf then 0x7f800000
  else if r.n == 0 then 0
  else
    let l := Nat.log2 r.n
    let e : Int := r.u + l
    if e < -126 then r.n
    else
      let m := if l ≤ 23 then r.n * 2 ^ (23 - l) else r.n / 2 ^ (l - 23)
      ((e + 127).toNat) * 2 ^ 23 + (m - 2 ^ 23)

end Decimal.Spec
