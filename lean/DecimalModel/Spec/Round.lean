/-
  Specification S: "the exact result rounded once".

  Exact magnitudes are *scaled rationals* `q × 10^k` (`q : Rat`, `q > 0`, `k : Int`): the
  exponent range of a Decimal is ±2^31, so an unscaled rational would have billions of
  digits; rounding to `p` significant digits is invariant under the scale, only the range
  test looks at `k`.

  This file is deliberately short and uses nothing but `Rat` arithmetic: it is what
  "correct" means for C01 C02 C03 C05 C12 C13 C14 C17 C19 C20, and it is executable, so the
  driver evaluates it on every case of the correspondence runs.
-/
import DecimalModel.Basic

namespace Decimal.Spec

open Decimal

/-- Result of rounding: a zero, an infinity, or `coef × 10^(exp − p)` with
    `10^(p-1) ≤ coef < 10^p`, i.e. `0.coef × 10^exp`. -/
structure SRes where
  form : Form
  neg : Bool
  coef : Nat := 0
  exp : Int := 0
  acc : Acc := 0
  deriving Repr, DecidableEq, Inhabited

def pow10Rat (e : Int) : Rat :=
  if e ≥ 0 then ((10 ^ e.toNat : Nat) : Rat) else 1 / ((10 ^ (-e).toNat : Nat) : Rat)

/-- The decimal exponent of `q > 0`: the unique `e` with `10^(e-1) ≤ q < 10^e`. -/
def decExp (q : Rat) : Int :=
  let e0 : Int := (ndigits q.num.natAbs : Int) - (ndigits q.den : Int)
  -- 10^(e0-1) < q < 10^(e0+1)
  if q < pow10Rat e0 then e0 else e0 + 1

/-- Does rounding mode `mode` round the magnitude up, given the sign, the truncated
    coefficient's parity and the discarded fraction `frac ∈ (0,1)`? -/
def incr (mode : Mode) (neg : Bool) (lo : Nat) (frac : Rat) : Bool :=
  match mode with
  | .ToZero => false
  | .AwayFromZero => true
  | .ToNegativeInf => neg
  | .ToPositiveInf => !neg
  | .ToNearestEven => decide (frac > 1/2) || (decide (frac = 1/2) && lo % 2 == 1)
  | .ToNearestAway => decide (frac ≥ 1/2)

/--
  Round the exact magnitude `q × 10^k` (`q > 0`) of sign `neg` once to `p ≥ 1` significant
  decimal digits under `mode`; apply the exponent range `[MinExp, MaxExp]`.
-/
def round (mode : Mode) (p : Nat) (neg : Bool) (q : Rat) (k : Int) : SRes :=
  let e := decExp q
  if e + k < MinExp then
    -- exact magnitude below 10^(MinExp-1): a zero of the result's sign
    { form := .zero, neg := neg, acc := makeAcc neg }
  else
    let t := q * pow10Rat ((p : Int) - e)        -- 10^(p-1) ≤ t < 10^p
    let lo := t.floor.toNat
    let frac := t - (lo : Rat)
    let exact := frac == 0
    let inc := !exact && incr mode neg lo frac
    let c := if inc then lo + 1 else lo
    let (c, e) := if c == 10 ^ p then (10 ^ (p - 1), e + 1) else (c, e)
    let acc := if exact then Exact else makeAcc (inc != neg)
    if e + k > MaxExp then
      -- rounded magnitude reaches 10^MaxExp: an infinity of that sign
      { form := .inf, neg := neg, acc := makeAcc (!neg) }
    else
      { form := .finite, neg := neg, coef := c, exp := e + k, acc := acc }

/-- A value at specification level: signed zero, signed infinity, or `±q × 10^k`, `q > 0`. -/
inductive SV
  | zero (neg : Bool)
  | inf (neg : Bool)
  | fin (neg : Bool) (q : Rat) (k : Int)
  deriving Repr, Inhabited

/-- The exact value of a (canonical) Decimal state. -/
def ofDec (x : Dec) : SV :=
  match x.form with
  | .zero => .zero x.neg
  | .inf => .inf x.neg
  | .finite => .fin x.neg (x.mant : Rat) (x.exp - (x.len * DW : Nat))

/-- A signed scaled rational `s × 10^k`, `s` possibly zero or negative. -/
structure SQ where
  s : Rat
  k : Int

def SQ.add (a b : SQ) : SQ :=
  if a.k ≤ b.k then ⟨a.s + b.s * pow10Rat (b.k - a.k), a.k⟩
  else ⟨a.s * pow10Rat (a.k - b.k) + b.s, b.k⟩

/-- Decimal exponent of the magnitude of a non-zero `s × 10^k`. -/
def SQ.mexp (a : SQ) : Int := decExp (if a.s < 0 then -a.s else a.s) + a.k

/--
  `a + b` for the purpose of rounding to `p` digits, when `b` is so far below `a` that it can
  only act as a sticky perturbation. Precondition: `a.s` is a non-zero *integer* (true for the
  value of a Decimal and for a product of two such values), so `a` and every rounding boundary
  of `a`'s decade at `p` digits are multiples of `10^m`, `m = min a.k (mexp a − p − 1)`; when
  `|b| < 10^(m-1)` the sum lies strictly between the same two neighbours as `a ± 10^(m-1)`,
  and also when a borrow moves the sum into the decade below (`m − 1` then plays the role of `m`).
-/
def SQ.addFar (p : Nat) (a b : SQ) : SQ :=
  let m : Int := min a.k (a.mexp - p - 2)
  if b.s != 0 && b.mexp < m - 2 then
    a.add ⟨if b.s < 0 then -1 else 1, m - 2⟩
  else a.add b

/-- Sum of two exact values with integer coefficients, for rounding to `p` digits. -/
def SQ.addForRound (p : Nat) (a b : SQ) : SQ :=
  if a.s == 0 || b.s == 0 then a.add b
  else if a.mexp ≥ b.mexp then SQ.addFar p a b else SQ.addFar p b a

def signedQ (neg : Bool) (q : Rat) (k : Int) : SQ := ⟨if neg then -q else q, k⟩

/-- Round a signed exact value; an exact zero gets the sign `zneg`. -/
def roundSQ (mode : Mode) (p : Nat) (v : SQ) (zneg : Bool) : SRes :=
  if v.s == 0 then { form := .zero, neg := zneg, acc := Exact }
  else if v.s < 0 then round mode p true (-v.s) v.k
  else round mode p false v.s v.k

/-- Does the Go state `z` hold exactly the specification result `r` (value, sign, accuracy)? -/
def agrees (z : Dec) (r : SRes) : Bool :=
  z.form == r.form && z.neg == r.neg && z.acc == r.acc &&
  (z.form != .finite ||
    (z.exp == r.exp &&
      -- 0.mant (19·len digits) = 0.coef (p digits): compare after scaling to a common length
      let dz := z.len * DW
      let dr := ndigits r.coef
      z.mant * 10 ^ (dr - dz) == r.coef * 10 ^ (dz - dr)))

end Decimal.Spec
