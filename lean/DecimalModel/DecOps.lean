/-
  L0: the `dec` operations of dec.go on little-endian word lists, following the Go code
  (same case splits, same kernel calls), with the tuning thresholds as parameters.
  Panics of the Go code are explicit (`Except String`).
-/
import DecimalModel.Vec

namespace Decimal.L0
open Decimal Decimal.Gen

abbrev Dec0 := List Nat

/-- `z.norm()`: drop most significant zero words. -/
def norm (z : Dec0) : Dec0 := (z.reverse.dropWhile (· == 0)).reverse

def zeros (n : Nat) : Dec0 := List.replicate n 0

/-- `z.add(x, y)`. -/
def add (x y : Dec0) : Dec0 :=
  let (x, y) := if x.length < y.length then (y, x) else (x, y)
  let m := x.length
  let n := y.length
  if m = 0 then [] else if n = 0 then x else
  let (z0, c) := add10VV (x.take n) y 0
  let (z1, c) := if m > n then add10VW (x.drop n) c else ([], c)
  norm (z0 ++ z1 ++ [c])

/-- `z.sub(x, y)`; panics with "underflow" when `x < y`. -/
def sub (x y : Dec0) : Except String Dec0 :=
  let m := x.length
  let n := y.length
  if m < n then .error "underflow" else
  if m = 0 then .ok [] else if n = 0 then .ok x else
  let (z0, c) := sub10VV (x.take n) y 0
  let (z1, c) := if m > n then sub10VW (x.drop n) c else ([], c)
  if c ≠ 0 then .error "underflow" else .ok (norm (z0 ++ z1))

/-- `x.cmp(y)` for normalised operands. -/
def cmp (x y : Dec0) : Int :=
  let m := x.length
  let n := y.length
  if m ≠ n ∨ m = 0 then (if m < n then -1 else if m > n then 1 else 0)
  else
    let rec go : List Nat → List Nat → Int
      | a :: as, b :: bs => if a < b then -1 else if a > b then 1 else go as bs
      | _, _ => 0
    go x.reverse y.reverse

/-- `z.divW(x, y)`. -/
def divW (x : Dec0) (y : Nat) : Except String (Dec0 × Nat) :=
  if y = 0 then .error "division by zero"
  else if y = 1 then .ok (x, 0)
  else if x.length = 0 then .ok ([], 0)
  else
    let (q, r) := div10VWW x y 0
    .ok (norm q, r)

def setWord (x : Nat) : Dec0 := if x = 0 then [] else [x]

/-- `z.mulAddWW(x, y, r)`. -/
def mulAddWW (x : Dec0) (y r : Nat) : Dec0 :=
  if x.length = 0 ∨ y = 0 then setWord r
  else
    let (z, c) := mulAdd10VWW x y r
    norm (z ++ [c])

/-- `z.shl(x, s)`: x × 10^s. -/
def shl (x : Dec0) (s : Nat) : Dec0 :=
  let m := x.length
  if m = 0 then [] else
  let (z, c) := shl10VU x (s % c_DW)
  norm (zeros (s / c_DW) ++ z ++ [c])

/-- `z.shr(x, s)`: x / 10^s. -/
def shr (x : Dec0) (s : Nat) : Dec0 :=
  let m := x.length
  let n : Int := (m : Int) - (s / c_DW : Nat)
  if n ≤ 0 then [] else
  let (z, _) := shr10VU (x.drop (m - n.toNat)) (s % c_DW)
  norm z

/-- `decAddAt(z, x, i)`: z += x·B^i, z keeps its length. -/
def addAt (z x : Dec0) (i : Nat) : Dec0 :=
  let n := x.length
  if n = 0 then z else
  let (s, c) := add10VV ((z.drop i).take n) x 0
  let hi := z.drop (i + n)
  let hi := if c ≠ 0 ∧ i + n < z.length then (add10VW hi c).1 else hi
  z.take i ++ s ++ hi

/-- `decBasicMul(z, x, y)`: result has `len x + len y` words (not normalised). -/
def basicMul (x y : Dec0) : Dec0 :=
  let lx := x.length
  let rec go : List Nat → Nat → Dec0 → Dec0
    | [], _, z => z
    | d :: ds, i, z =>
      if d ≠ 0 then
        let (s, c) := addMul10VVW ((z.drop i).take lx) x d 0
        -- z[len(x)+i] = c
        go ds (i + 1) (z.take i ++ s ++ [c] ++ z.drop (i + lx + 1))
      else go ds (i + 1) z
  go y 0 (zeros (lx + y.length))

/-- `karatsubaLen(n, threshold)`. -/
def karatsubaLen (n thr : Nat) : Nat :=
  let rec go : Nat → Nat → Nat → Nat
    | 0, n, i => n * 2 ^ i
    | fuel + 1, n, i => if n > thr then go fuel (n / 2) (i + 1) else n * 2 ^ i
  go 64 n 0

/-- `decKaratsubaAdd(z[off:], x, n)` / `decKaratsubaSub`: add (subtract) the `n` words of `x` at
    word offset `off`, propagating the carry (borrow) into the next `n/2` words. -/
def karaAddSub (isSub : Bool) (z : Dec0) (off : Nat) (x : Dec0) (n : Nat) : Dec0 :=
  let (s, c) := if isSub then sub10VV ((z.drop off).take n) (x.take n) 0 else add10VV ((z.drop off).take n) (x.take n) 0
  let hi := (z.drop (off + n)).take (n / 2)
  let hi := if c ≠ 0 then (if isSub then (sub10VW hi c).1 else (add10VW hi c).1) else hi
  z.take off ++ s ++ hi ++ z.drop (off + n + n / 2)

/-- `decKaratsuba(z, x, y)` for `len x = len y = n`: the 2n-word product (not normalised). -/
def karatsuba (thr : Nat) : Nat → Dec0 → Dec0 → Dec0
  | 0, x, y => basicMul x y
  | fuel + 1, x, y =>
    let n := y.length
    if n % 2 ≠ 0 ∨ n < thr ∨ n < 2 then basicMul x y
    else
      let n2 := n / 2
      let x1 := x.drop n2; let x0 := x.take n2
      let y1 := y.drop n2; let y0 := y.take n2
      let z0 := karatsuba thr fuel x0 y0
      let z2 := karatsuba thr fuel x1 y1
      let (xd, bx) := sub10VV x1 x0 0
      let (s, xd) := if bx ≠ 0 then (false, (sub10VV x0 x1 0).1) else (true, xd)
      let (yd, by') := sub10VV y0 y1 0
      let (s, yd) := if by' ≠ 0 then (!s, (sub10VV y1 y0 0).1) else (s, yd)
      let p := karatsuba thr fuel xd yd
      let z := z0 ++ z2
      let z := karaAddSub false z n2 z0 n
      let z := karaAddSub false z n2 z2 n
      karaAddSub (!s) z n2 p n

/-- `z.mul(x, y)` with Karatsuba threshold `thr`. -/
def mul (thr : Nat) : Nat → Dec0 → Dec0 → Dec0
  | 0, _, _ => []
  | fuel + 1, x, y =>
    let (x, y) := if x.length < y.length then (y, x) else (x, y)
    let m := x.length
    let n := y.length
    if m = 0 ∨ n = 0 then []
    else if n = 1 then mulAddWW x (y.headD 0) 0
    else if n < thr then norm (basicMul x y)
    else
      let k := karatsubaLen n thr
      let x0 := x.take k
      let y0 := y.take k
      let z := karatsuba thr 64 x0 y0 ++ zeros (m + n - 2 * k)
      let z :=
        if k < n ∨ m ≠ n then
          let x0n := norm x0
          let y1 := y.drop k
          let z := addAt z (mul thr fuel x0n y1) k
          let y0n := norm y0
          let rec loop : Nat → Nat → Dec0 → Dec0
            | 0, _, z => z
            | f + 1, i, z =>
              if i < m then
                let xi := norm ((x.drop i).take k)
                let z := addAt z (mul thr fuel xi y0n) i
                let z := addAt z (mul thr fuel xi y1) (i + k)
                loop f (i + k) z
              else z
          loop (m + 1) k z
        else z
      norm z

/-- `decBasicSqr(z, x)`. -/
def basicSqr (x : Dec0) : Dec0 :=
  let n := x.length
  -- squares: z[2i+1], z[2i] = x[i]^2
  let z := x.foldr (fun d acc => let (hi, lo) := mul10WW_g d d; lo :: hi :: acc) []
  -- t collects x[i]*x[j], j < i
  let rec go : Nat → Nat → Dec0 → Dec0
    | 0, _, t => t
    | f + 1, i, t =>
      if i < n then
        let d := x.getD i 0
        let (s, c) := addMul10VVW ((t.drop i).take i) (x.take i) d 0
        go f (i + 1) (t.take i ++ s ++ [c] ++ t.drop (2 * i + 1))
      else t
  let t := go n 1 (zeros (2 * n))
  -- t[2n-1] = mulAdd10VWW(t[1:2n-1], t[1:2n-1], 2, 0)
  let (mid, c) := mulAdd10VWW ((t.drop 1).take (2 * n - 2)) 2 0
  let t := t.take 1 ++ mid ++ [c]
  (add10VV z t 0).1

/-- `decKaratsubaSqr(z, x)`: the 2n-word square. -/
def karatsubaSqr (thr : Nat) : Nat → Dec0 → Dec0
  | 0, x => basicSqr x
  | fuel + 1, x =>
    let n := x.length
    if n % 2 ≠ 0 ∨ n < thr ∨ n < 2 then basicSqr x
    else
      let n2 := n / 2
      let x1 := x.drop n2; let x0 := x.take n2
      let z0 := karatsubaSqr thr fuel x0
      let z2 := karatsubaSqr thr fuel x1
      let (xd, bx) := sub10VV x1 x0 0
      let xd := if bx ≠ 0 then (sub10VV x0 x1 0).1 else xd
      let p := karatsubaSqr thr fuel xd
      let z := z0 ++ z2
      let z := karaAddSub false z n2 z0 n
      let z := karaAddSub false z n2 z2 n
      karaAddSub true z n2 p n

/-- `z.sqr(x)` with thresholds (basicSqr, karatsubaSqr) and the multiplication threshold for the
    cross terms. -/
def sqr (bthr kthr mthr : Nat) : Nat → Dec0 → Dec0
  | 0, _ => []
  | fuel + 1, x =>
  let n := x.length
  if n = 0 then []
  else if n = 1 then
    let d := x.headD 0
    let (hi, lo) := mul10WW_g d d
    norm [lo, hi]
  else if n < bthr then norm (basicMul x x)
  else if n < kthr then norm (basicSqr x)
  else
    let k := karatsubaLen n kthr
    let x0 := x.take k
    let z := karatsubaSqr kthr 64 x0 ++ zeros (2 * n - 2 * k)
    let z :=
      if k < n then
        let x0n := norm x0
        let x1 := x.drop k
        let t := mul mthr (2 * n + 2) x0n x1
        let z := addAt z t k
        let z := addAt z t k
        addAt z (sqr bthr kthr mthr fuel x1) (2 * k)
      else z
    norm z

/-- One step of the q̂ correction loop of divBasic (D3). -/
def qhatLoop (vn1 vn2 ujn2 : Nat) : Nat → Nat → Nat → Nat → Nat → Nat
  | 0, qhat, _, _, _ => qhat
  | fuel + 1, qhat, rhat, x1, x2 =>
    if greaterThan x1 x2 rhat ujn2 then
      let qhat := (qhat + W - 1) % W
      let prev := rhat
      let rhat := (rhat + vn1) % W
      if rhat < prev then qhat
      else
        let (x1, x2) := mul10WW_g qhat vn2
        qhatLoop vn1 vn2 ujn2 fuel qhat rhat x1 x2
    else qhat

/-- `q.divBasic(u, v)`: returns (q, u) after the loop; `v` normalised with top word ≥ B/2,
    `len v ≥ 2`. `qlen` is `len(q)`. -/
def divBasic (qlen : Nat) (u v : Dec0) : Except String (Dec0 × Dec0) :=
  let n := v.length
  let m := u.length - n
  let vn1 := v.getD (n - 1) 0
  let vn2 := v.getD (n - 2) 0
  let rec loop : Nat → Nat → Dec0 → Dec0 → Except String (Dec0 × Dec0)
    | 0, _, q, u => .ok (q, u)
    | f + 1, j, q, u =>
      let ujn := if j + n < u.length then u.getD (j + n) 0 else 0
      let qhat :=
        if ujn ≠ vn1 then
          let (qhat, rhat) := div10WW_g ujn (u.getD (j + n - 1) 0) vn1
          let (x1, x2) := mul10WW_g qhat vn2
          qhatLoop vn1 vn2 (u.getD (j + n - 2) 0) 8 qhat rhat x1 x2
        else c_DMax
      let (qv, cq) := mulAdd10VWW v qhat 0
      let qhatv := qv ++ [cq]
      let qhl := if j + (n + 1) > u.length ∧ cq = 0 then n else n + 1
      let (d, c) := sub10VV ((u.drop j).take qhl) qhatv 0
      let u := u.take j ++ d ++ u.drop (j + qhl)
      let (u, qhat) :=
        if c ≠ 0 then
          let (s, c2) := add10VV ((u.drop j).take n) v 0
          let u := u.take j ++ s ++ u.drop (j + n)
          let u := if n < qhl then u.take (j + n) ++ (add10VW ((u.drop (j + n)).take (qhl - n)) c2).1 ++ u.drop (j + qhl) else u
          (u, (qhat + W - 1) % W)
        else (u, qhat)
      if j = m ∧ m = qlen ∧ qhat = 0 then
        (if j = 0 then .ok (q, u) else loop f (j - 1) q u)
      else if j ≥ qlen then .error "index out of range"
      else
        let q := q.take j ++ [qhat] ++ q.drop (j + 1)
        if j = 0 then .ok (q, u) else loop f (j - 1) q u
  loop (m + 1) m (zeros qlen) u

/-- `z.divLarge(u, uIn, vIn)` for `len vIn ≥ 2`, `len uIn ≥ len vIn`, below the recursive threshold. -/
def divLarge (uIn vIn : Dec0) : Except String (Dec0 × Dec0) :=
  let n := vIn.length
  let m := uIn.length
  let d := c_DB / (vIn.getD (n - 1) 0 + 1)
  let (v, _) := mulAdd10VWW vIn d 0
  let (u0, cu) := mulAdd10VWW uIn d 0
  let u := u0 ++ [cu]
  match divBasic (m - n + 1) u v with
  | .error e => .error e
  | .ok (q, u) =>
    match divW u d with
    | .error e => .error e
    | .ok (r, _) => .ok (norm q, norm r)

/-- `z.div(z2, u, v)` (basic path: `len v < divRecursiveThreshold`). -/
def div (u v : Dec0) : Except String (Dec0 × Dec0) :=
  if v.length = 0 then .error "division by zero"
  else if cmp u v < 0 then .ok ([], u)
  else if v.length = 1 then
    match divW u (v.headD 0) with
    | .error e => .error e
    | .ok (q, r) => .ok (q, setWord r)
  else divLarge u v

end Decimal.L0
