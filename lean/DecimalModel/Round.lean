/-
  L1 model of `(*Decimal).round`, `setExpAndRound` and `dnorm` (decimal.go).

  The mantissa is a natural number (see `Dec`); every statement below is the arithmetic
  reading of the corresponding Go statement on the word vector, justified by the word/vector
  kernel specifications (layer L0, `Vec.lean` / `Proofs/Vec*.lean`):
    `z.mant.digit(r)`         = `(M / 10^r) % 10`
    `z.mant.sticky(r)`        = `M % 10^r ≠ 0`
    `copy(z.mant, z.mant[m-n:])` = `M / B^(m-n)`
    `add10VW(z.mant, z.mant, lsd)` = `(M + lsd) % B^n`, carry `(M + lsd) / B^n`
-/
import DecimalModel.Basic

namespace Decimal

/-- `z.mant.digit(i)`: the `i`-th decimal digit (0 = least significant). -/
def digitAt (M i : Nat) : Nat := (M / 10 ^ i) % 10

/-- `z.mant.sticky(i)`: some non-zero digit among the `i` least significant ones. -/
def stickyBelow (M i : Nat) : Bool := M % 10 ^ i != 0

/-- The per-mode increment decision of `round` (decimal.go:1543-1558). -/
def roundInc (mode : Mode) (neg : Bool) (rdigit : Nat) (sbit : Bool) (lsdOdd : Bool) : Bool :=
  match mode with
  | .ToNegativeInf => neg
  | .ToZero => false
  | .ToNearestEven => rdigit > 5 || (rdigit == 5 && (sbit || lsdOdd))
  | .ToNearestAway => rdigit ≥ 5
  | .AwayFromZero => true
  | .ToPositiveInf => !neg

/--
  `z.round(sbit)`. Precondition of the Go code for a finite `z`: normalised non-empty mantissa
  and `z.prec ≥ 1` (`roundGuard`); with `prec = 0` the Go code indexes `z.mant[-1]`.
-/
def round (z : Dec) (sbit : Bool) : Dec :=
  let z := { z with acc := Exact }
  if z.form != .finite then z else
  let m := z.len
  let digits := m * DW
  if digits ≤ z.prec then z else
  let r := digits - z.prec - 1
  let rdigit := digitAt z.mant r
  let sbit := if !sbit && (rdigit == 0 || z.mode == .ToNearestEven) then stickyBelow z.mant r else sbit
  let n := (z.prec + (DW - 1)) / DW
  let M1 := if m > n then z.mant / B ^ (m - n) else z.mant
  let ntz := n * DW - z.prec
  let lsd := 10 ^ ntz
  if rdigit != 0 || sbit then
    let inc := roundInc z.mode z.neg rdigit sbit (digitAt M1 ntz % 2 == 1)
    let acc := makeAcc (inc != z.neg)
    if inc then
      let s := M1 + lsd
      if s / B ^ n != 0 then
        -- mantissa overflow
        if z.exp ≥ MaxExp then
          { z with form := .inf, acc := acc, mant := s % B ^ n, len := n }
        else
          let M2 := (s % B ^ n) % B ^ (n - 1) + (B / 10) * B ^ (n - 1)
          { z with exp := z.exp + 1, acc := acc, mant := M2 - M2 % lsd, len := n }
      else
        { z with acc := acc, mant := s - s % lsd, len := n }
    else
      { z with acc := acc, mant := M1 - M1 % lsd, len := n }
  else
    { z with mant := M1 - M1 % lsd, len := n }

/-- The Go `round` indexes out of range on a finite value with precision 0. -/
def roundGuard (z : Dec) : Bool := z.form != .finite || z.prec ≥ 1 || z.len * DW ≤ z.prec

/-- `dnorm(m)`: shift left so that the top word's top digit is non-zero; returns the shift. -/
def dnormShift (M len : Nat) : Nat := len * DW - ndigits M

/-- `z.setExpAndRound(exp, sbit)`. -/
def setExpAndRound (z : Dec) (exp : Int) (sbit : Bool) : Dec :=
  if exp < MinExp then { z with acc := makeAcc z.neg, form := .zero }
  else if exp > MaxExp then { z with acc := makeAcc (!z.neg), form := .inf }
  else round { z with form := .finite, exp := exp } sbit

/--
  Common tail of `uadd/usub/umul/uquo/setBits64/SetInt/SetBitsExp`: the mantissa `M` was just
  normalised to `nwords M` words (`z.mant.norm()`), is shifted left by `dnorm`, and the result is
  `0.M × 10^e10` where `e10 = e + ndigits M` for an integer-valued `M × 10^e`.
-/
def setNormAndRound (z : Dec) (M : Nat) (e : Int) (sbit : Bool) : Dec :=
  let len := nwords M
  let s := dnormShift M len
  setExpAndRound { z with mant := M * 10 ^ s, len := len } (e + (len * DW : Nat) - (s : Nat)) sbit

end Decimal
