/-
  int64 arithmetic of the exponent computations of decimal.go, as repaired (commit 871f791):

      func addExp(a, b int64) int64 {
          c := a + b
          switch {
          case b > 0 && c < a:
              return math.MaxInt64
          case b < 0 && c > a:
              return math.MinInt64
          }
          return c
      }

  used exactly three times, each time once (no chained `addExp`), the second argument being
  computed with plain (wrapping) int64 arithmetic:

      setBits64   : z.setExpAndRound(addExp(exp, int64(len(z.mant))*_DW-dnorm(z.mant)), 0)
      SetMantExp  : z.setExpAndRound(addExp(int64(exp), int64(z.exp)), 0)
      SetBitsExp  : z.setExpAndRound(addExp(exp, -dnorm(z.mant)-int64(len(mant)-len(z.mant))*_DW), 0)

  The L1 model (`setBits64`, `setMantExp`, `setBitsExp` in Arith.lean) uses unbounded integers
  for these sums. Here the same three functions are written with the machine arithmetic
  (`wrap64` after every int64 operation, `addExpSat` for `addExp`); `Proofs/SatInt.lean` proves
  them equal to the unbounded versions for all int64 arguments.

  Core Lean only.
-/
import DecimalModel.Arith

namespace Decimal

def MaxInt64 : Int := 9223372036854775807
def MinInt64 : Int := -9223372036854775808

/-- `n` is representable as an int64. -/
def isInt64 (n : Int) : Prop := MinInt64 ≤ n ∧ n ≤ MaxInt64

instance (n : Int) : Decidable (isInt64 n) := by unfold isInt64; infer_instance

/-- Two's-complement reduction of a mathematical integer to int64: what a Go int64 `+`, `-`, `*`
    leaves. -/
def wrap64 (n : Int) : Int := (n + 9223372036854775808) % 18446744073709551616 - 9223372036854775808

/-- `addExp(a, b)` on int64 arguments, literally. -/
def addExpSat (a b : Int) : Int :=
  let c := wrap64 (a + b)
  if b > 0 && c < a then MaxInt64
  else if b < 0 && c > a then MinInt64
  else c

/-- `z.setBits64(neg, x, exp)` with the machine exponent arithmetic. -/
def setBits64Sat (z : Dec) (neg : Bool) (x : Nat) (exp : Int) : Dec :=
  let z := if z.prec == 0 then { z with prec := DefaultPrec } else z
  let z := { z with acc := Exact, neg := neg }
  if x == 0 then { z with form := .zero }
  else
    let len := nwords x
    let s := dnormShift x len
    -- int64(len(z.mant))*_DW - dnorm(z.mant)
    let b := wrap64 (wrap64 ((len : Int) * (DW : Int)) - (s : Int))
    setExpAndRound { z with form := .finite, mant := x * 10 ^ s, len := len } (addExpSat exp b) false

/-- `z.SetMantExp(mant, exp)` with the machine exponent arithmetic. -/
def setMantExpSat (z mant : Dec) (exp : Int) (same : Bool := false) : Dec :=
  let z := copy z mant same
  if z.form != .finite then z else setExpAndRound z (addExpSat exp z.exp) false

/-- `z.SetBitsExp(mant, exp)` with the machine exponent arithmetic. -/
def setBitsExpSat (z : Dec) (M rawLen : Nat) (exp : Int) : Dec :=
  let z := { z with neg := false }
  if M == 0 then { z with acc := Exact, form := .zero, exp := 0, mant := 0, len := 0 }
  else
    let len := nwords M
    let s := dnormShift M len
    -- -dnorm(z.mant) - int64(len(mant)-len(z.mant))*_DW
    let b := wrap64 (wrap64 (-(s : Int)) - wrap64 (((rawLen - len : Nat) : Int) * (DW : Int)))
    setExpAndRound { z with mant := M * 10 ^ s, len := len } (addExpSat exp b) false

/-- `SetBitsExp` with its precision prologue (cf. `setBitsExpFull`). -/
def setBitsExpFullSat (z : Dec) (words : List Nat) (e : Int) : Dec :=
  let M := natOf words
  let z1 := if z.prec == 0 && M != 0 then
      { z with prec := umax (if nwords M * DW > MaxPrec then MaxPrec else nwords M * DW) DefaultPrec } else z
  setBitsExpSat z1 M words.length e

end Decimal
