/-
  Model of the text wrappers: `Text` (decimal_toa.go), `SetString` (decimal_conv.go), `MarshalText` /
  `UnmarshalText` (decimal_marsh.go), written literally after the Go code on top of `append` and `parse`.
  Characters written by `append` are ASCII; the byte string handed to `parse` is their code points.
-/
import DecimalModel.Text
import DecimalModel.Parse

namespace Decimal

/-- `string(buf)` / `[]byte` of a text: the bytes of its (ASCII) characters. -/
def bytesOfChars (s : List Char) : List Nat := s.map Char.toNat

/-- `x.Text(format, prec)`: `string(x.Append(nil, format, prec))`. -/
def text (x : Dec) (fmtc : Char) (prec : Int) : List Char := append x fmtc prec

/-- `x.String()`: `x.Text('g', 10)`. -/
def toStr (x : Dec) : List Char := text x 'g' 10

/-- `x.MarshalText()` for a non-nil `x`: `x.Append(buf, 'g', -1)`, never an error.
    (A nil receiver yields the text `<nil>`; pointers are outside the model.) -/
def marshalText (x : Dec) : List Nat := bytesOfChars (append x 'g' (-1))

/-- `z.SetString(s)`: `z.Parse(s, 0)`; the result, or `nil, false` on any error. -/
def setString (z : Dec) (s : List Nat) : Option Dec :=
  match parse z s 0 with
  | .ok (d, _) => some d
  | .error _ => none

/-- `z.UnmarshalText(text)`: `z.Parse(string(text), 0)`; only the error (wrapped) is reported, the base is
    dropped. The whole text must be consumed (`parse` reports `.trailing` otherwise). -/
def unmarshalText (z : Dec) (s : List Nat) : Except ScanErr Dec :=
  match parse z s 0 with
  | .ok (d, _) => .ok d
  | .error e => .error e

end Decimal
