/-
  Audit: list every theorem declared in module `Properties.<ID>` with the axioms it depends on.
  Usage: lake env lean --run Audit.lean C01
-/
import Lean
open Lean

instance : MonadEnv (StateM Environment) where
  getEnv := get
  modifyEnv f := modify f

def jsonStr (s : String) : String := "\"" ++ s ++ "\""

unsafe def main (args : List String) : IO UInt32 := do
  let pid := args.headD "C01"
  let modName := (`Properties).str pid
  initSearchPath (← findSysroot)
  let env ← importModules #[{ module := modName }] {} (trustLevel := 1024) (loadExts := false)
  let some modIdx := env.getModuleIdx? modName | do
    IO.println "{\"theorems\": [], \"error\": \"module not found\"}"
    return 1
  let mut items : Array String := #[]
  for (name, info) in env.constants.toList do
    if env.getModuleIdxFor? name == some modIdx then
      match info with
      | .thmInfo _ =>
        if !name.isInternal then
          let axArr : Array Name := (collectAxioms (m := StateM Environment) name).run' env
          let axs := axArr.toList.map (fun a => jsonStr a.toString)
          items := items.push ("{\"name\": " ++ jsonStr name.toString ++ ", \"axioms\": [" ++ ", ".intercalate axs ++ "]}")
      | _ => pure ()
  IO.println ("{\"theorems\": [" ++ ", ".intercalate items.toList ++ "]}")
  return 0
