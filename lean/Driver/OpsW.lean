/-
  Word-level cross-check for the correspondence driver: run the word-level model
  (`DecimalModel/L0Decimal.lean`, `Decimal.W`: `round`, `uadd`, `usub`, `umul`, `uquo`, `ucmp` and the
  public methods on top, all on base-10^19 word lists through the L0 kernels) on the operand states
  of a transcript step and compare its abstraction with the L1 model's result.

  The driver's variables are L1 states (`Dec`: mantissa value + length in words), which is exactly
  the information of the word list `W.toWords mant len`; `W.ofDec` rebuilds it.

  The W methods have value semantics (operands distinct from the receiver). For `add/sub/mul/quo`
  on two FINITE operands the result does not depend on aliasing (the u-functions read only the
  operands' sign, exponent and mantissa), so the check applies to every such step; with a special
  operand it applies when neither operand is the receiver.
-/
import DecimalModel.L0Decimal
import Driver.Proto

namespace Driver
open Decimal

/-- the word-level result of a binary operation, abstracted back to L1. `xyEq`: `x` and `y` are the
    same variable (then `Mul` calls `sqr`). -/
def wBin (name : String) (z x y : Dec) (xyEq : Bool := false) : Except String (Dec × Outcome) :=
  let zw := W.ofDec z
  let xw := W.ofDec x
  let yw := W.ofDec y
  let r := match name with
    | "add" => W.add zw xw yw
    | "sub" => W.sub zw xw yw
    | "mul" => W.mul zw xw yw xyEq
    | _ => W.quo zw xw yw
  match r with
  | .error e => .error e
  | .ok (w, o) => .ok (W.abs w, o)

def sameOutcomeW : Outcome → Outcome → Bool
  | .ok, .ok => true
  | .errNaN, .errNaN => true
  | .panicOther _, .panicOther _ => true
  | _, _ => false

/-- `none` when the word-level model agrees with the L1 result `(z', oc)` (or the check does not
    apply); otherwise a description of the difference. `zi xi yi` are the variable indices. -/
def wCheckBin (name : String) (zi xi yi : Nat) (z x y : Dec) (z' : Dec) (oc : Outcome) : Option String :=
  let bothFinite := x.form == .finite && y.form == .finite
  if !(bothFinite || (xi != zi && yi != zi)) then none
  else
    -- with an aliased finite operand the prologue's precision is the receiver's own
    match wBin name z x y (xi == yi) with
    | .error e => (match oc with
        | .panicOther _ => none
        | _ => some s!"wmodel panic:{e} model={stateToString z'}")
    | .ok (d, o) =>
      if sameOutcomeW o oc && sameState d z' then none
      else some s!"wmodel={stateToString d} model={stateToString z'}"

/-- The same check against what GO observed (to be `andSpec`-ed into a step's `spec`): the
    word-level model, run on the pre-state word lists, must leave in the receiver the words Go left. -/
def wSpecBin (name : String) (zi xi yi : Nat) (z x y : Dec) :
    Outcome → String → Array Dec → Option String :=
  fun oc _ genv =>
    let bothFinite := x.form == .finite && y.form == .finite
    if !(bothFinite || (xi != zi && yi != zi)) then none
    else
      match genv[zi]? with
      | none => some "no receiver"
      | some gz =>
        match wBin name z x y (xi == yi) with
        | .error e => (match oc with
            | .panicOther _ => none
            | _ => some s!"wmodel panic:{e} got {stateToString gz}")
        | .ok (d, o) =>
          if sameOutcomeW o oc && sameState d gz then none
          else some s!"wmodel: want {stateToString d} got {stateToString gz}"

/-- unary: `set` and `setprec` (operand distinct from the receiver for `set`). -/
def wCheckSet (z x : Dec) (z' : Dec) : Option String :=
  match W.set (W.ofDec z) (W.ofDec x) with
  | .error e => some s!"wmodel panic:{e}"
  | .ok w => if sameState (W.abs w) z' then none
             else some s!"wmodel={stateToString (W.abs w)} model={stateToString z'}"

def wCheckSetPrec (z : Dec) (prec : Nat) (z' : Dec) : Option String :=
  match W.setPrec (W.ofDec z) prec with
  | .error e => some s!"wmodel panic:{e}"
  | .ok w => if sameState (W.abs w) z' then none
             else some s!"wmodel={stateToString (W.abs w)} model={stateToString z'}"

end Driver
