/-
  More operations of the driver: Sqrt, setters, conversions, raw mantissa access, Context.
-/
import Driver.Ops
import DecimalModel.SqrtLit
import Driver.OpsRadix

namespace Driver
open Decimal

def stdSpec (env : Array Dec) (zi : Nat) (r : Option Spec.SRes) (p : Nat) (m : Mode) :=
  andSpec (expectRecv zi r p m) (andSpec (frameOk env [zi]) canonicalAll)

/-- Like `expectRecv` but the accuracy is not part of the contract. -/
def expectRecvValue (zi : Nat) (r : Option Spec.SRes) (p : Nat) (m : Mode) :
    Outcome → String → Array Dec → Option String :=
  fun oc _ genv =>
    match r with
    | none => if oc == .errNaN then none else some "expected panic ErrNaN"
    | some r =>
      if oc != .ok then some "unexpected panic" else
      match genv[zi]? with
      | none => some "no receiver"
      | some gz =>
        if !Spec.agreesValue gz r then some s!"value: want form={r.form.toNat} neg={r.neg} coef={r.coef} exp={r.exp} got {stateToString gz}"
        else if gz.prec != p then some s!"precision: want {p} got {gz.prec}"
        else if gz.mode != m then some s!"mode: want {m.toNat} got {gz.mode.toNat}"
        else none

def sqrtOp (env : Array Dec) (zs xs : String) : Step :=
  match getVar env zs, getVar env xs with
  | some (zi, z), some (xi, x) =>
    let (z', oc) := sqrt z x (xi == zi)
    let p := if z.prec == 0 then x.prec else z.prec
    let r := Spec.sqrtSV z.mode p (Spec.ofDec x)
    let perfect := match r with | some r => r.acc == 0 | none => false
    -- third voice: the LITERAL model of sqrtInverse (Newton iteration + the two correction loops + midpoint),
    -- run from a 17-digit seed; proved equivalent to `sqrt` whenever it returns (C05Lit.sqrtLit_equiv_sqrt)
    -- (special operands never reach sqrtInverse; their stale exponents must not be fed to the seed computation)
    let lit := if x.form == .finite && !x.neg then sqrtLit 400 (sqrtSeedFor z x (xi == zi)) z x (xi == zi) else some (z', oc)
    let litSpec : Outcome → String → Array Dec → Option String := fun o _ genv =>
      match lit with
      | none => some "literal model of sqrtInverse ran out of fuel (400 passes)"
      | some (zl, ol) =>
        if !(sameOutcomeW ol o) then some "literal sqrt model: outcome differs" else
        if o != .ok then none else
        match genv[zi]? with
        | some g => if sameState zl g then none else some s!"literal sqrt model: want {stateToString zl} got {stateToString g}"
        | none => some "no receiver"
    { env := env.set! zi z', outcome := oc,
      -- after a NaN the receiver is only required to be valid; its precision prologue already ran
      spec := andSpec (expectRecvValue zi r p z.mode) (andSpec litSpec (andSpec (frameOk env [zi]) canonicalAll)),
      tags := "sqrt" :: resTags r [x] ++ aliasTags [zi, xi] ++ (if perfect then ["perfect-square"] else []) }
  | _, _ => badStep env "sqrt vars"

def svOfNat (neg : Bool) (v : Nat) (k : Int) : Spec.SV :=
  if v == 0 then .zero neg else .fin neg (v : Rat) k

def setBits64Op (env : Array Dec) (name : String) (zs : String) (neg : Bool) (v : Nat) (e : Int) (fresh : Bool) : Step :=
  match getVar env zs with
  | some (zi, z0) =>
    let z := if fresh then ({} : Dec) else z0
    let z' := setBits64 z neg v e
    let p := if z.prec == 0 then DefaultPrec else z.prec
    let r := Spec.roundSV z.mode p (svOfNat neg v e)
    { env := env.set! zi z', spec := stdSpec env zi (some r) p z.mode,
      tags := name :: resTags (some r) [] }
  | none => badStep env "setbits64 var"

def setIntOp (env : Array Dec) (zs sgn ws : String) : Step :=
  match getVar env zs, parseWords? ws with
  | some (zi, z), some (M, _) =>
    let neg := sgn == "1" && M != 0
    let v : Int := if neg then -(M : Int) else M
    let z' := setInt z v
    let p := if z.prec == 0 then umax (if ndigits M > MaxPrec then MaxPrec else ndigits M) DefaultPrec else z.prec
    let r := Spec.roundSV z.mode p (svOfNat neg M 0)
    -- + the word-level model: dec.setNat (radix conversion into the stale, uncleared buffer) and the word-level rounding
    { env := env.set! zi z', spec := andSpec (stdSpec env zi (some r) p z.mode) (wSpecSetInt zi z neg M), tags := "setint" :: resTags (some r) [] }
  | _, _ => badStep env "setint"

/-- `z.SetRat(num/den)` (den > 0, fraction in lowest terms as big.Rat keeps it). -/
def setRatOp (env : Array Dec) (zs sgn ns ds : String) : Step :=
  match getVar env zs, parseWords? ns, parseWords? ds with
  | some (zi, z), some (N, _), some (D, _) =>
    let g := Nat.gcd N D
    let N := N / g
    let D := D / g
    let neg := sgn == "1" && N != 0
    if D == 1 then
      let v : Int := if neg then -(N : Int) else N
      let z' := setInt z v
      let p := if z.prec == 0 then umax (if ndigits N > MaxPrec then MaxPrec else ndigits N) DefaultPrec else z.prec
      let r := Spec.roundSV z.mode p (svOfNat neg N 0)
      { env := env.set! zi z', spec := stdSpec env zi (some r) p z.mode, tags := "setrat-int" :: resTags (some r) [] }
    else
      let a := setInt {} (if neg then -(N : Int) else N)
      let b := setInt {} (D : Int)
      let z1 := if z.prec == 0 then { z with prec := umax a.prec b.prec } else z
      let (z', oc) := quo z1 a b
      let p := z1.prec
      let r := Spec.round z.mode p neg ((N : Rat) / (D : Rat)) 0
      { env := env.set! zi z', outcome := oc, spec := stdSpec env zi (some r) p z.mode, tags := "setrat" :: resTags (some r) [] }
  | _, _, _ => badStep env "setrat"

def setMantExpOp (env : Array Dec) (zs ms es : String) : Step :=
  match getVar env zs, getVar env ms, es.toInt? with
  | some (zi, z), some (mi, m), some e =>
    let z' := setMantExp z m e (mi == zi)
    let sv : Spec.SV := match Spec.ofDec m with
      | .fin n q k => .fin n q (k + e)
      | v => v
    -- SetMantExp takes precision and mode from mant
    let r := Spec.roundSV m.mode m.prec sv
    { env := env.set! zi z',
      spec := andSpec (expectRecv zi (some r) m.prec m.mode) (andSpec (frameOk env [zi]) canonicalAll),
      tags := "setmantexp" :: resTags (some r) [m] ++ aliasTags [zi, mi] }
  | _, _, _ => badStep env "setmantexp"

def mantExpOp (env : Array Dec) (xs ms : String) : Step :=
  match getVar env xs with
  | some (xi, x) =>
    if ms == "nil" then
      let e : Int := if x.form == .finite then x.exp else 0
      { env := env, extra := toString e, spec := frameOk env [], tags := ["mantexp-nil"] }
    else match getVar env ms with
    | some (mi, m) =>
      let (e, m') := mantExp x m (mi == xi)
      -- specification: x = mant × 10^exp with 0.1 ≤ |mant| < 1; attributes of x copied
      let sp : Outcome → String → Array Dec → Option String := fun _ extra genv =>
        match genv[mi]? with
        | none => some "no mant"
        | some gm =>
          if extra != toString e then some s!"exp: want {e} got {extra}" else
          if gm.form != x.form || gm.neg != x.neg || gm.prec != x.prec || gm.mode != x.mode then some "mant attributes"
          else if x.form == .finite && !(gm.exp == 0 && gm.mant * B ^ (x.len - gm.len) == x.mant * B ^ (gm.len - x.len)) then
            some "mant digits/exponent"
          else none
      { env := env.set! mi m', extra := toString e,
        spec := andSpec sp (andSpec (frameOk env [mi]) canonicalAll),
        tags := ["mantexp"] ++ aliasTags [xi, mi] ++ (if x.form != .finite then ["special"] else []) }
    | none => badStep env "mantexp m"
  | none => badStep env "mantexp x"

def setBitsExpOp (env : Array Dec) (zs ws es : String) : Step :=
  match getVar env zs, parseWordList? ws, es.toInt? with
  | some (zi, z), some wl, some e =>
    let M := natOf wl
    let rawLen := wl.length
    let nlen := nwords M
    let z1 := if z.prec == 0 && M != 0 then
        { z with prec := umax (if nlen * DW > MaxPrec then MaxPrec else nlen * DW) DefaultPrec } else z
    let z' := setBitsExp z1 M rawLen e
    let p := z1.prec
    let r := Spec.roundSV z.mode p (svOfNat false M (e - (rawLen * DW : Nat)))
    let tz := wl.reverse.takeWhile (· == 0) |>.length
    { env := env.set! zi z', spec := stdSpec env zi (some r) p z.mode,
      tags := "setbitsexp" :: resTags (some r) [] ++ (if tz > 0 then ["leading-zero-words"] else []) ++
        (if M != 0 && ndigits M % DW != 0 then ["leading-zero-digits"] else []) ++ (if z.prec == 0 then ["prec0"] else []) }
  | _, _, _ => badStep env "setbitsexp"

def accOfTrunc (neg exact : Bool) : Acc := if exact then Exact else makeAcc neg

def convOp (env : Array Dec) (name xs : String) : Step :=
  match getVar env xs with
  | some (_, x) =>
    let sv := Spec.ofDec x
    let fr := frameOk env []
    match name with
    | "int64" =>
      let (v, a) := toInt64 x
      -- specification: truncate, saturate at the type bounds
      let want : Int × Acc := match Spec.truncSV sv with
        | none => if x.neg then (-9223372036854775808, Above) else (9223372036854775807, Below)
        | some (n, f, ex) =>
          let t : Int := if n then -(f : Int) else f
          if t > 9223372036854775807 then (9223372036854775807, Below)
          else if t < -9223372036854775808 then (-9223372036854775808, Above)
          else (t, accOfTrunc n ex)
      let ws := s!"{want.1} {want.2}"
      { env := env, extra := s!"{v} {a}",
        spec := andSpec (fun _ e _ => if e == ws then none else some s!"int64: want {ws} got {e}") fr,
        tags := ["int64"] ++ (if a != 0 then ["inexact"] else []) ++ (if x.form == .finite && x.exp ≥ 18 && x.exp ≤ 20 then ["edge"] else []) }
    | "uint64" =>
      let (v, a) := toUint64 x
      let want : Nat × Acc := match Spec.truncSV sv with
        | none => if x.neg then (0, Above) else (18446744073709551615, Below)
        | some (n, f, ex) =>
          if n && f == 0 && !ex then (0, Above)
          else if n && f != 0 then (0, Above)
          else if n then (0, Above)
          else if f > 18446744073709551615 then (18446744073709551615, Below)
          else (f, accOfTrunc false ex)
      -- a negative finite value gives (0, Above) even when it is an integer
      let want := match sv with | .zero _ => ((0 : Nat), Exact) | _ => want
      let ws := s!"{want.1} {want.2}"
      { env := env, extra := s!"{v} {a}",
        spec := andSpec (fun _ e _ => if e == ws then none else some s!"uint64: want {ws} got {e}") fr,
        tags := ["uint64"] ++ (if a != 0 then ["inexact"] else []) ++ (if x.form == .finite && x.exp ≥ 18 && x.exp ≤ 20 then ["edge"] else []) }
    | "int" =>
      let (v, a) := toInt x
      let render : Option Int × Acc → String := fun
        | (none, a) => s!"nil {a}"
        | (some t, a) => s!"{if t < 0 then 1 else 0} {wordsToString t.natAbs (nwords t.natAbs)} {a}"
      let want : Option Int × Acc := match Spec.truncSV sv with
        | none => (none, makeAcc x.neg)
        | some (n, f, ex) => (some (if n then -(f : Int) else f), accOfTrunc n ex)
      let ws := render want
      { env := env, extra := render (v, a),
        spec := andSpec (fun _ e _ => if e == ws then none else some s!"int: want {ws} got {e}")
          (andSpec (fun _ _ _ => if x.exp ≤ 20000 then wCheckInt x (v.map Int.natAbs) else none) fr),
        tags := ["int"] ++ (if a != 0 then ["inexact"] else []) }
    | "isint" =>
      let want := match Spec.truncSV sv with | none => false | some (_, _, ex) => ex
      let ws := if want then "1" else "0"
      { env := env, extra := if isInt x then "1" else "0",
        spec := andSpec (fun _ e _ => if e == ws then none else some s!"isint: want {ws} got {e}") fr, tags := ["isint", ws] }
    | "minprec" =>
      let mp := minPrec x
      -- specification: number of significant digits of the exact value
      let want : Nat := match sv with
        | .fin _ q _ => let m := q.num.natAbs; ndigits m - trailingZeros m
        | _ => 0
      { env := env, extra := toString mp,
        spec := andSpec (fun _ e _ => if e == toString want then none else some s!"minprec: want {want} got {e}") fr, tags := ["minprec"] }
    | "sign" =>
      let s : Int := match x.form with | .zero => 0 | _ => if x.neg then -1 else 1
      let b := fun (c : Bool) => if c then "1" else "0"
      let ex := s!"{s} {b x.neg} {b (x.form == .zero)} {b (x.form == .inf)}"
      -- consistency with Cmp against zero
      let c0 := Spec.cmpSV sv (.zero false)
      { env := env, extra := ex,
        spec := andSpec (fun _ e _ => if e == ex && c0 == s then none else some s!"sign: want {ex} (cmp0={c0}) got {e}") fr, tags := ["sign"] }
    | _ => badStep env ("conv " ++ name)
  | none => badStep env "conv var"

/-- `x.BitsExp()`: the returned pair must denote exactly |x| (C20): `natOf words × 10^(exp − 19·len) = |x|`
    for finite x, and a slice denoting 0 for ±0 whatever the history of the variable. -/
def bitsExpOp (env : Array Dec) (xs : String) : Step :=
  match getVar env xs with
  | some (_, x) =>
    let sp : Outcome → String → Array Dec → Option String := fun o e _ =>
      if o != .ok then some "BitsExp panicked" else
      match e.splitOn " " with
      | [ws, es] =>
        (match parseWords? ws, es.toInt? with
        | some (M, n), some ex =>
          match x.form with
          | .zero => if M == 0 then none else some s!"BitsExp of a zero returned a non-zero mantissa ({ws})"
          | .inf => none
          | .finite =>
            if M * B ^ (x.len - n) == x.mant * B ^ (n - x.len) && ex == x.exp then none
            else some s!"BitsExp does not denote |x|: words {ws} exp {ex}, model mant {x.mant} len {x.len} exp {x.exp}"
        | _, _ => some "bad extra")
      | _ => some "bad extra"
    { env := env, skipExtra := true, spec := andSpec sp (frameOk env []),
      tags := ["bitsexp"] ++ (if x.form != .finite then ["special"] else []) }
  | none => badStep env "bitsexp"

def ratOp (env : Array Dec) (xs : String) : Step :=
  match getVar env xs with
  | some (_, x) =>
    -- specification = model: the exact value as a fraction in lowest terms
    let ex : String := match Spec.ofDec x with
      | .inf n => s!"nil {makeAcc n}"
      | .zero _ => "0 - 1 0"
      | .fin n q k =>
        let v : Rat := q * Spec.pow10Rat k
        s!"{if n then 1 else 0} {wordsToString v.num.natAbs (nwords v.num.natAbs)} {wordsToString v.den (nwords v.den)} 0"
    { env := env, extra := ex, spec := frameOk env [], tags := ["rat"] ++ (if x.form != .finite then ["special"] else []) }
  | none => badStep env "rat var"

def copyOp (env : Array Dec) (zs xs : String) : Step :=
  match getVar env zs, getVar env xs with
  | some (zi, z), some (xi, x) =>
    let z' := copy z x (xi == zi)
    let sp : Outcome → String → Array Dec → Option String := fun _ _ genv =>
      match genv[zi]? with
      | some g => if sameState g x then none else some "copy differs from source"
      | none => some "no receiver"
    { env := env.set! zi z', spec := andSpec sp (andSpec (frameOk env [zi]) canonicalAll), tags := ["copy"] ++ aliasTags [zi, xi] }
  | _, _ => badStep env "copy"

def setInfOp (env : Array Dec) (zs ss : String) : Step :=
  match getVar env zs with
  | some (zi, z) =>
    { env := env.set! zi (setInf z (ss == "1")),
      spec := stdSpec env zi (some (Spec.infRes (ss == "1"))) z.prec z.mode, tags := ["setinf"] }
  | none => badStep env "setinf"

/-- The specification result for a context operation with a receiver distinct from the operands:
    the exact result rounded to the *context's* precision and mode. -/
def ctxBin (env : Array Dec) (c : Ctx) (name zs xs ys : String) : Step :=
  match getVar env zs, getVar env xs, getVar env ys with
  | some (zi, z), some (xi, x), some (yi, y) =>
    let run : Dec → Dec × Outcome := fun za =>
      -- operands that alias the receiver see it after apply
      match name with
      | "cadd" => add za x y (xi == zi) (yi == zi)
      | "csub" => sub za x y (xi == zi) (yi == zi)
      | "cmul" => mul za x y (xi == zi) (yi == zi)
      | _ => quo za x y (xi == zi) (yi == zi)
    let (z', c', oc) := c.guarded z run
    let distinct := xi != zi && yi != zi
    let r := match name with
      | "cadd" => Spec.addSV c.mode c.prec (Spec.ofDec x) (Spec.ofDec y)
      | "csub" => Spec.subSV c.mode c.prec (Spec.ofDec x) (Spec.ofDec y)
      | "cmul" => Spec.mulSV c.mode c.prec (Spec.ofDec x) (Spec.ofDec y)
      | _ => Spec.quoSV c.mode c.prec (Spec.ofDec x) (Spec.ofDec y)
    let sp : Outcome → String → Array Dec → Option String := fun o e genv =>
      if o != .ok then some "context operation panicked" else
      if e != "z" then some "did not return the receiver" else
      if c.err then
        (match genv[zi]? with | some g => if sameState g z then none else some "receiver touched while an error is latched" | none => some "no receiver")
      else if !distinct then none
      else match r with
        | none => none    -- NaN: receiver undefined but valid (canonical monitor)
        | some r => expectRecv zi (some r) c.prec c.mode o e genv
    { env := env.set! zi z', ctx := some c', outcome := oc, extra := "z",
      spec := andSpec sp (andSpec (frameOk env [zi]) canonicalAll),
      tags := [name] ++ (if c.err then ["latched"] else []) ++ (if r.isNone then ["nan"] else []) ++
        (if !distinct then ["alias"] else []) ++ (match r with | some r => if r.acc != 0 then ["inexact"] else [] | none => []) }
  | _, _, _ => badStep env "ctx bin"

def ctxFma (env : Array Dec) (c : Ctx) (zs xs ys us : String) : Step :=
  match getVar env zs, getVar env xs, getVar env ys, getVar env us with
  | some (zi, z), some (xi, x), some (yi, y), some (ui, u) =>
    let (z', c', oc) := c.guarded z (fun za => fma za x y u (xi == zi) (yi == zi) (ui == zi))
    let distinct := xi != zi && yi != zi && ui != zi
    let r := Spec.fmaSV c.mode c.prec (Spec.ofDec x) (Spec.ofDec y) (Spec.ofDec u)
    let prodOut := x.form == .finite && y.form == .finite &&
      (let e : Int := (ndigits (x.mant * y.mant) : Int) + intExp x + intExp y
       e < MinExp || e > MaxExp)
    let sp : Outcome → String → Array Dec → Option String := fun o e genv =>
      if o != .ok then some "context operation panicked" else
      if e != "z" then some "did not return the receiver" else
      if c.err then
        (match genv[zi]? with | some g => if sameState g z then none else some "receiver touched while an error is latched" | none => some "no receiver")
      else if !distinct then none
      else match r with
        | none => none
        | some r => expectRecv zi (some r) c.prec c.mode o e genv
    { env := env.set! zi z', ctx := some c', outcome := oc, extra := "z",
      spec := andSpec sp (andSpec (frameOk env [zi]) canonicalAll),
      known := if prodOut then some "fma-product-exponent-out-of-range" else none,
      tags := ["cfma"] ++ (if c.err then ["latched"] else []) ++ (if r.isNone then ["nan"] else []) ++ (if !distinct then ["alias"] else []) }
  | _, _, _, _ => badStep env "ctx fma"

def ctxUn (env : Array Dec) (c : Ctx) (name zs xs : String) : Step :=
  match getVar env zs, getVar env xs with
  | some (zi, z), some (xi, x) =>
    let same := xi == zi
    let distinct := !same
    let (z', c', oc) : Dec × Ctx × Outcome := match name with
      | "csqrt" => c.guarded z (fun za => sqrt za x same)
      | "cset" => (if c.err then z else c.apply (copy z x same), c, .ok)
      | "cneg" => (c.plain z (fun za => neg za x same), c, .ok)
      | _ => (c.plain z (fun za => abs za x same), c, .ok)
    let r0 := Spec.roundSV c.mode c.prec (Spec.ofDec x)
    let r : Option Spec.SRes := match name with
      | "csqrt" => Spec.sqrtSV c.mode c.prec (Spec.ofDec x)
      | "cset" => some r0
      | "cneg" => some { r0 with neg := !r0.neg }
      | _ => some { r0 with neg := false }
    let sp : Outcome → String → Array Dec → Option String := fun o e genv =>
      if o != .ok then some "context operation panicked" else
      if e != "z" then some "did not return the receiver" else
      if c.err then
        (match genv[zi]? with | some g => if sameState g z then none else some "receiver touched while an error is latched" | none => some "no receiver")
      else if !distinct then none
      else match r with
        | none => none
        | some r => (if name == "csqrt" then expectRecvValue zi (some r) c.prec c.mode o e genv
                     else expectRecv zi (some r) c.prec c.mode o e genv)
    { env := env.set! zi z', ctx := some c', outcome := oc, extra := "z",
      spec := andSpec sp (andSpec (frameOk env [zi]) canonicalAll),
      tags := [name] ++ (if c.err then ["latched"] else []) ++ (if r.isNone then ["nan"] else []) ++ (if !distinct then ["alias"] else []) ++
        (match r with | some r => if r.acc != 0 then ["inexact"] else [] | none => []) }
  | _, _ => badStep env "ctx un"

def doOp (env : Array Dec) (c : Ctx) (toks : List String) : Step :=
  let pm := fun (c : Ctx) => s!"{c.prec} {c.mode.toNat}"
  match toks with
  | ["sqrt", z, x] => sqrtOp env z x
  | ["copy", z, x] => copyOp env z x
  | ["setinf", z, s] => setInfOp env z s
  | ["setint64", z, v] =>
    match v.toInt? with
    | some v => setBits64Op env "setint64" z (v < 0) v.natAbs 0 false
    | none => badStep env "setint64"
  | ["setuint64", z, v] =>
    match v.toNat? with
    | some v => setBits64Op env "setuint64" z false v 0 false
    | none => badStep env "setuint64"
  | ["newdec", z, v, e] =>
    match v.toInt?, e.toInt? with
    | some v, some e => setBits64Op env "newdec" z (v < 0) v.natAbs e true
    | _, _ => badStep env "newdec"
  | ["setint", z, s, w] => setIntOp env z s w
  | ["setrat", z, s, n, d] => setRatOp env z s n d
  | ["setmantexp", z, m, e] => setMantExpOp env z m e
  | ["mantexp", x, m] => mantExpOp env x m
  | ["setbitsexp", z, w, e] => setBitsExpOp env z w e
  | ["int64", x] => convOp env "int64" x
  | ["uint64", x] => convOp env "uint64" x
  | ["int", x] => convOp env "int" x
  | ["isint", x] => convOp env "isint" x
  | ["minprec", x] => convOp env "minprec" x
  | ["sign", x] => convOp env "sign" x
  | ["bitsexp", x] => bitsExpOp env x
  | ["rat", x] => ratOp env x
  | ["rat", x, _preset] => ratOp env x
  | ["cnew", p, m] =>
    match p.toNat?, m.toNat? >>= Mode.ofNat? with
    | some p, some m => let c' := Ctx.new p m; { env := env, ctx := some c', extra := pm c', tags := ["cnew"] }
    | _, _ => badStep env "cnew"
  | ["csetprec", p] =>
    match p.toNat? with
    | some p => let c' := { c with prec := ctxSetPrecVal p }; { env := env, ctx := some c', extra := pm c', tags := ["csetprec"] }
    | none => badStep env "csetprec"
  | ["csetmode", m] =>
    match m.toNat? >>= Mode.ofNat? with
    | some m => let c' := { c with mode := m }; { env := env, ctx := some c', extra := pm c', tags := ["csetmode"] }
    | none => badStep env "csetmode"
  | ["cerr"] =>
    let (e, c') := c.takeErr
    { env := env, ctx := some c', extra := if e then "ErrNaN" else "nil", spec := frameOk env [],
      tags := ["cerr", if e then "had-error" else "no-error"] }
  | "cnil" :: z :: _y :: _ =>
    -- a nil operand: a runtime error that is not ErrNaN must propagate unless an error is latched
    match getVar env z with
    | some (zi, zv) =>
      if c.err then { env := env, extra := "z", spec := frameOk env [], tags := ["cnil", "latched"] }
      else { env := env.set! zi (c.apply zv), outcome := .panicOther "nil", skipExtra := true,
             spec := fun o _ _ => match o with | .panicOther _ => none | _ => some "a non-NaN panic was swallowed",
             tags := ["cnil", "propagates"] }
    | none => badStep env "cnil"
  | [op, z, x, y] =>
    if op == "cadd" || op == "csub" || op == "cmul" || op == "cquo" then ctxBin env c op z x y
    else doOpArith env toks
  | ["cfma", z, x, y, u] => ctxFma env c z x y u
  | [op, z, x] =>
    if op == "cset" || op == "cneg" || op == "cabs" || op == "csqrt" then ctxUn env c op z x
    else doOpArith env toks
  | _ => doOpArith env toks

end Driver
