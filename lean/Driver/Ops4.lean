/-
  Driver operations: text output (C11, C13) and parsing (C11, C12).
-/
import Driver.Ops3
import DecimalModel.Marsh
import DecimalModel.Text
import DecimalModel.Parse

namespace Driver
open Decimal

def strToHex (l : List Char) : String := bytesToHex (l.map (·.toNat))

def hexToChars (s : String) : Option (List Char) := (hexToBytes s).map (·.map Char.ofNat)

/-- Independent reader of the *output* formats (not the library's parser):
    `[-+]ddd[.ddd][(e|E)[+-]dd]`, `±Inf`. Returns (neg, inf?, coefficient, exponent10, significant digits printed). -/
def readOutput (s : List Char) : Option (Bool × Bool × Nat × Int × Nat × Bool) :=
  let (neg, s) := match s with
    | '-' :: r => (true, r) | '+' :: r => (false, r) | _ => (false, s)
  if s == "Inf".toList then some (neg, true, 0, 0, 0, false) else
  let ip := s.takeWhile Char.isDigit
  let s1 := s.dropWhile Char.isDigit
  let (fp, s2) := match s1 with
    | '.' :: r => (r.takeWhile Char.isDigit, r.dropWhile Char.isDigit)
    | _ => ([], s1)
  if ip.isEmpty && fp.isEmpty then none else
  let e? : Option Int := match s2 with
    | [] => some 0
    | c :: r =>
      if c == 'e' || c == 'E' then
        let (en, r) := match r with | '-' :: q => (true, q) | '+' :: q => (false, q) | _ => (false, r)
        if r.isEmpty || !r.all Char.isDigit then none
        else (String.ofList r).toNat?.map (fun v => if en then -(v : Int) else v)
      else none
  match e? with
  | none => none
  | some e =>
    let ds := ip ++ fp
    let coef := (String.ofList ds).toNat?.getD 0
    let sig := (ds.dropWhile (· == '0')).length
    some (neg, false, coef, e - fp.length, sig, !s2.isEmpty)

/-- normalise (coefficient, exponent): strip trailing zeros of the coefficient -/
def normCE (c : Nat) (e : Int) : Nat × Int :=
  if c == 0 then (0, 0) else
  let tz := trailingZeros c
  (c / 10 ^ tz, e + tz)

/-- value of a Decimal state as normalised (coef, exp10) -/
def decCE (x : Dec) : Nat × Int := normCE x.mant (x.exp - (x.len * DW : Nat))

/-- Round the magnitude `q × 10^k` to a multiple of `10^-p` (p ≥ 0 digits after the point):
    returns the integer number of quanta. -/
def roundQuanta (mode : Mode) (neg : Bool) (q : Rat) (k : Int) (p : Nat) : Nat :=
  let t := q * Spec.pow10Rat (k + p)
  let lo := t.floor.toNat
  let frac := t - (lo : Rat)
  if frac == 0 then lo else if Spec.incr mode neg lo frac then lo + 1 else lo

/-- The value a correct `Text(x, fmt, prec)` must denote, as normalised (coef, exp10). -/
def expectedTextValue (x : Dec) (fmtc : Char) (prec : Int) : Option (Nat × Int) :=
  match Spec.ofDec x with
  | .fin n q k =>
    if prec < 0 || fmtc == 'p' || fmtc == 'b' then some (decCE x)
    else
      let p := prec.toNat
      if fmtc == 'f' then some (normCE (roundQuanta x.mode n q k p) (-(p : Int)))
      else
        let sig := if fmtc == 'e' || fmtc == 'E' then p + 1 else (if p == 0 then 1 else p)
        let r := Spec.round x.mode sig n q k
        -- text output has no exponent range: undo the range clipping by rounding a rescaled copy
        let r := if r.form == .finite then r else
          let r' := Spec.round x.mode sig n q 0
          { r' with exp := r'.exp + k }
        some (normCE r.coef (r.exp - (ndigits r.coef : Nat)))
  | _ => none

def textSpec (x : Dec) (fmtc : Char) (prec : Int) (out : List Char) : Option String :=
  match readOutput out with
  | none => some "output is not a number in the expected layout"
  | some (neg, isInf, coef, e, sig, hasExp) =>
    if neg != x.neg then some "sign" else
    match x.form with
    | .inf => if isInf then none else some "infinity not printed as ±Inf"
    | .zero => if !isInf && coef == 0 then none else some "zero printed as non-zero"
    | .finite =>
      if isInf then some "finite printed as Inf" else
      match expectedTextValue x fmtc prec with
      | none => none
      | some want =>
        if normCE coef e != want then some s!"digits: printed value {coef}e{e} but the correctly rounded value is {want.1}e{want.2}"
        else if prec < 0 && hasExp && (fmtc == 'e' || fmtc == 'E' || fmtc == 'g' || fmtc == 'G') && sig != minPrec x then
          some s!"shortest output has {sig} significant digits, MinPrec is {minPrec x}"
        else none

def textOp (env : Array Dec) (xs fs ps : String) : Step :=
  match getVar env xs, fs.toList, ps.toInt? with
  | some (_, x), [f], some prec =>
    let out := append x f prec
    let known := ['e', 'E', 'f', 'g', 'G', 'p', 'b'].contains f
    let sp : Outcome → String → Array Dec → Option String := fun o e _ =>
      if o != .ok then some "panic" else
      -- extra = "<hex of output> <hex of strconv output or ->"
      match e.splitOn " " with
      | [h, sc] =>
        (match hexToChars h with
        | none => some "bad hex"
        | some go =>
          if !known then none
          else match textSpec x f prec go with
            | some m => some m
            | none => if sc != "-" && sc != h then some s!"layout differs from strconv: {String.ofList go} vs {String.ofList ((hexToChars sc).getD [])}" else none)
      | _ => some "bad extra"
    let rnd := prec ≥ 0 && x.form == .finite && (match expectedTextValue x f prec with | some w => w != decCE x | none => false)
    let ovf := x.form == .finite && prec ≥ 0 && (match expectedTextValue x f prec with
      | some (c, e) => (ndigits c : Int) + e > MaxExp
      | none => false)
    { env := env, extra := strToHex out, skipExtra := true,
      known := if ovf then some "text-rounding-carries-past-MaxExp" else none,
      spec := andSpec (fun o e g =>
          -- model comparison on the first token of extra
          match e.splitOn " " with
          | h :: _ => if h == strToHex out then sp o e g else some s!"model text: go={String.ofList ((hexToChars h).getD [])} model={String.ofList out}"
          | _ => some "no output") (frameOk env []),
      tags := ["text", s!"fmt={f}"] ++ (if prec < 0 then ["shortest"] else ["explicit"]) ++ (if rnd then ["inexact"] else []) ++
        (if x.form == .finite && f == 'f' && prec ≥ 0 && x.exp + prec ≤ 0 then ["above-leading-digit"] else []) ++
        (if x.form != .finite then ["special"] else []) ++ (if x.form == .finite && x.mant % B == 0 then ["low-zero-word"] else []) }
  | _, _, _ => badStep env "text"

/-- parse `%[flags][width][.prec]verb` -/
def parseFmt (s : List Char) : Option (FmtFlags × Char) :=
  match s with
  | '%' :: r =>
    let rec flags (l : List Char) (fl : FmtFlags) (fuel : Nat) : FmtFlags × List Char :=
      match fuel, l with
      | fuel + 1, '+' :: t => flags t { fl with plus := true } fuel
      | fuel + 1, ' ' :: t => flags t { fl with space := true } fuel
      | fuel + 1, '0' :: t => flags t { fl with zero := true } fuel
      | fuel + 1, '-' :: t => flags t { fl with minus := true } fuel
      | _, l => (fl, l)
    let (fl, r) := flags r {} 10
    let w := r.takeWhile Char.isDigit
    let r := r.dropWhile Char.isDigit
    let fl := if w.isEmpty then fl else { fl with width := (String.ofList w).toNat? }
    let (fl, r) := match r with
      | '.' :: t =>
        let p := t.takeWhile Char.isDigit
        ({ fl with prec := some ((String.ofList p).toNat?.getD 0) }, t.dropWhile Char.isDigit)
      | _ => (fl, r)
    match r with
    | [v] => some (fl, v)
    | _ => none
  | _ => none

def sprintfOp (env : Array Dec) (xs hs : String) : Step :=
  match getVar env xs, hexToChars hs >>= parseFmt with
  | some (_, x), some (fl, verb) =>
    let out := format x fl verb
    { env := env, extra := strToHex out, skipExtra := true,
      -- fmt turns `%+v` into the plusV flag (no sign for floats), which a Formatter cannot tell from `+`
      known := if verb == 'v' && fl.plus && !x.neg then some "format-plus-flag-with-verb-v" else none,
      spec := andSpec (fun _ e _ =>
        match e.splitOn " " with
        | [h, sc] =>
          if h != strToHex out then some s!"model format: go=[{String.ofList ((hexToChars h).getD [])}] model=[{String.ofList out}]"
          else if sc != "-" && sc != h then some s!"fmt layout differs from fmt.Sprintf of the float64: [{String.ofList ((hexToChars h).getD [])}] vs [{String.ofList ((hexToChars sc).getD [])}]"
          else none
        | _ => some "bad extra") (frameOk env []),
      tags := ["sprintf", s!"verb={verb}"] ++ (if fl.width.isSome then ["width"] else []) ++ (if fl.plus || fl.space || fl.zero || fl.minus then ["flags"] else []) ++
        (if x.form != .finite then ["special"] else []) }
  | _, _ => badStep env "sprintf"

/-- Exact value of an accepted base-10 literal, read independently of the model's scanner:
    underscores dropped, `[sign] digits [. digits] [(e|E) [sign] digits]`. -/
def literal10 (s : List Char) : Option (Bool × Nat × Int) :=
  let s := s.filter (· != '_')
  let (neg, s) := match s with | '-' :: r => (true, r) | '+' :: r => (false, r) | _ => (false, s)
  let ip := s.takeWhile Char.isDigit
  let s1 := s.dropWhile Char.isDigit
  let (fp, s2) := match s1 with
    | '.' :: r => (r.takeWhile Char.isDigit, r.dropWhile Char.isDigit)
    | _ => ([], s1)
  let e? : Option Int := match s2 with
    | [] => some 0
    | c :: r =>
      if c == 'e' || c == 'E' then
        let (en, r) := match r with | '-' :: q => (true, q) | '+' :: q => (false, q) | _ => (false, r)
        (String.ofList r).toNat?.map (fun v => if en then -(v : Int) else v)
      else none
  match e? with
  | none => none
  | some e => some (neg, (String.ofList (ip ++ fp)).toNat?.getD 0, e - fp.length)

/-- digit value of a mantissa character in base ≤ 16 -/
def digitVal (c : Char) : Option Nat :=
  if c.isDigit then some (c.toNat - 48)
  else if 'a' ≤ c && c ≤ 'f' then some (c.toNat - 87)
  else if 'A' ≤ c && c ≤ 'F' then some (c.toNat - 55)
  else none

/-- Exact value of an accepted literal in the DETECTED base `b`, read independently of the model's scanner
    (underscores dropped): `[sign] [0b|0o|0x] digits [. digits] [(e|E|p|P) [sign] digits]` — `e`/`E` is an exponent
    marker only when it is not a digit of the base. Result: sign, the mantissa digits as an integer `c`, and exponents
    `(k10, k2)` with value `c × 10^k10 × 2^k2`. `none` when the literal is not of that shape or an exponent exceeds
    `lim` in magnitude (the rational would not be computable). -/
def literalB (s : List Char) (b : Nat) (lim : Nat) : Option (Bool × Nat × Int × Int) :=
  let s := s.filter (· != '_')
  let (neg, s) := match s with | '-' :: r => (true, r) | '+' :: r => (false, r) | _ => (false, s)
  let s := match s with
    | '0' :: c :: r => if (b == 16 && (c == 'x' || c == 'X')) || (b == 2 && (c == 'b' || c == 'B')) || (b == 8 && (c == 'o' || c == 'O')) then r else s
    | _ => s
  let isDig : Char → Bool := fun c => match digitVal c with | some v => v < b | none => false
  let ip := s.takeWhile isDig
  let s1 := s.dropWhile isDig
  let (fp, s2) := match s1 with
    | '.' :: r => (r.takeWhile isDig, r.dropWhile isDig)
    | _ => ([], s1)
  let c : Nat := (ip ++ fp).foldl (fun a ch => a * b + (digitVal ch).getD 0) 0
  let bitsPer : Int := if b == 16 then 4 else if b == 8 then 3 else if b == 2 then 1 else 0
  let fl : Int := fp.length
  let ex? : Option (Bool × Int) := match s2 with
    | [] => some (false, 0)
    | m :: r =>
      let (en, r) := match r with | '-' :: q => (true, q) | '+' :: q => (false, q) | _ => (false, r)
      let isP := m == 'p' || m == 'P'
      if isP || ((m == 'e' || m == 'E') && b ≤ 10) then
        if r.isEmpty || !r.all Char.isDigit then none
        else (String.ofList r).toNat?.map (fun v => (isP, if en then -(v : Int) else v))
      else none
  match ex? with
  | none => none
  | some (isP, e) =>
    let k10 : Int := (if b == 10 then -fl else 0) + (if isP then 0 else e)
    let k2 : Int := (if b == 10 then 0 else -fl * bitsPer) + (if isP then e else 0)
    if k10.natAbs > lim || k2.natAbs > lim then none else some (neg, c, k10, k2)

/-- 2^e as a rational (local copy: `Spec.pow2Rat` lives in a module imported later). -/
def pow2R (e : Int) : Rat := if e ≥ 0 then ((2 ^ e.toNat : Nat) : Rat) else 1 / ((2 ^ (-e).toNat : Nat) : Rat)

/-- The clause of C12 for literals in base 2, 8, 16 or with a `p` exponent: stored exactly when the value is
    representable at the receiver's precision (then the accuracy is Exact), otherwise at most one unit in the last
    place away from the exact value. Returns `(message, knownClass)`. -/
def nonDecimalSpec (chars : List Char) (b : Nat) (mode : Mode) (p : Nat) (g : Dec) : Option String × Option String :=
  match literalB chars b 40000 with
  | none => (none, none)
  | some (neg, c, k10, k2) =>
    if c == 0 then ((if g.form == .zero && g.neg == neg then none else some "zero literal not stored as a zero of its sign"), none)
    else
      let q : Rat := (c : Rat) * pow2R k2
      let want := Spec.round mode p neg q k10
      if want.form != .finite || g.form != .finite then (none, none) else
      -- the power of two is delivered exactly by pow2 iff it fits its working precision p + 19
      let pow2Exact := k2 == 0 || ndigits (2 ^ k2.natAbs) ≤ p + 19
      let cls := if pow2Exact then none else some "parse-binary-exponent-double-rounding"
      if want.acc == 0 then
        (if Spec.agrees g want then (none, none)
         else (some s!"non-decimal literal representable in {p} digits but not stored exactly (or accuracy not Exact): want coef={want.coef} exp={want.exp}; got {stateToString g}", cls))
      else
        let gv : Rat := (g.mant : Rat) * Spec.pow10Rat (g.exp - (g.len * DW : Nat))
        let ev : Rat := q * Spec.pow10Rat k10
        let ulp : Rat := Spec.pow10Rat (g.exp - (p : Int))
        let d := if gv < ev then ev - gv else gv - ev
        if g.neg != neg then (some "sign", none)
        else if d ≤ ulp then
          -- truthful accuracy is part of the property as well
          let accOk := (g.acc == 0) == (gv == ev) && (g.acc == 0 || ((g.acc == 1) == ((gv > ev) != neg)))
          (if accOk then (none, none) else (some s!"accuracy does not report the sign of (stored - exact): {stateToString g}", cls))
        else (some s!"more than one unit in the last place from the exact value: {stateToString g}", cls)

/-- `kind` ∈ parse (whole string), sscan (longest prefix through fmt.Sscan). -/
def parseOp (env : Array Dec) (kind zs bs hs : String) : Step :=
  match getVar env zs, bs.toNat?, hexToBytes hs with
  | some (zi, z), some base, some bytes =>
    let r := parse z bytes base
    let chars := bytes.map Char.ofNat
    let p := if z.prec == 0 then DefaultPrec else z.prec
    let (env', extra, skip) : Array Dec × String × List Nat := match r with
      | .ok (d, b) => (env.set! zi d, s!"ok {b}", [])
      | .error _ => (env, "err", [zi])      -- the receiver is valid but not defined after an error
    let rangeErr := match r with | .error .expOverflow => true | _ => false
    let isPlain10 := match r with
      | .ok (_, b) => b == 10 && !(chars.any (fun c => c == 'p' || c == 'P')) && !(chars.any (fun c => c == 'I' || c == 'i'))
      | _ => false
    let sp : Outcome → String → Array Dec → Option String := fun o e genv =>
      if o != .ok then some "Parse panicked" else
      -- extra = "<result> <big.Float verdict>"
      match e.splitOn " big=" with
      | [res, big] =>
        let accepted := res.startsWith "ok"
        if res == "err-nonnil" then some "an error was reported together with a non-nil result"
        else if res == "ok-other" then some "Parse returned a Decimal other than its receiver"
        -- a literal rejected only because its VALUE leaves the decimal exponent range is well-formed: math/big, whose
        -- range is different, may accept it (e.g. 3e-2147483668, which it flushes to 0); that is not a grammar difference
        else if big != "na" && accepted != big.startsWith "ok" && !(rangeErr && !accepted) then some s!"acceptance differs from math/big Float.Parse: decimal={res} big={big}"
        else if big != "na" && accepted && res != big then some s!"detected base differs from math/big: decimal={res} big={big}"
        else if res != extra then some s!"model parse: go={res} model={extra}"
        else if !accepted then none
        else if isPlain10 then
          (match literal10 chars, genv[zi]? with
          | some (neg, c, k), some g =>
            let want := if c == 0 then Spec.zeroRes neg else Spec.round z.mode p neg (c : Rat) k
            if !Spec.agrees g want then some s!"value/accuracy: literal {c}e{k} must round to coef={want.coef} exp={want.exp} acc={want.acc}; got {stateToString g}"
            else if g.prec != p || g.mode != z.mode then some "precision/mode"
            else none
          | _, _ => some "cannot read the literal")
        else
          (match r, genv[zi]? with
          | .ok (_, b), some g => (nonDecimalSpec chars b z.mode p g).1
          | _, _ => none)
      | _ => some "bad extra"
    let knownCls : Option String := match r with
      | .ok (d, b) => if isPlain10 then none else (nonDecimalSpec chars b z.mode p d).2
      | _ => none
    let _ := kind
    { env := env', extra := extra, skipExtra := true, skipVars := skip,
      spec := andSpec sp (andSpec (frameOk env [zi]) canonicalAll),
      known := knownCls,
      tags := ["parse", extra.takeWhile (· != ' ') |>.toString] ++ (if isPlain10 then ["base10"] else []) ++
        (if chars.contains '_' then ["underscore"] else []) ++
        (match r with | .ok (d, _) => (if d.acc != 0 then ["inexact"] else []) ++ (if isPlain10 then [] else ["nondecimal-or-inf"]) | .error _ => ["rejected"]) }
  | _, _, _ => badStep env "parse"

/-- `x.MarshalText()` / `json.Marshal(x)`: exactly the shortest `%g` text (quoted for JSON), sign of zero included. -/
def marshalOp (env : Array Dec) (json : Bool) (xs : String) : Step :=
  match getVar env xs with
  | some (_, x) =>
    let body := marshalText x
    let out := if json then [34] ++ body ++ [34] else body
    { env := env, extra := bytesToHex out, spec := frameOk env [],
      tags := [if json then "marshaljson" else "marshaltext"] ++ (if x.form != .finite then ["special"] else []) }
  | none => badStep env "marshal"

/-- `z.UnmarshalText(b)` / `json.Unmarshal(b, z)`: `Parse(string, 0)` consuming everything; for JSON the value
    must be a string (the harness only sends what `json.Marshal` produced or strings). -/
def unmarshalOp (env : Array Dec) (json : Bool) (zs hs : String) : Step :=
  match getVar env zs, hexToBytes hs with
  | some (zi, z), some bytes =>
    let inner : Option (List Nat) :=
      if !json then some bytes
      else if bytes.length ≥ 2 && bytes.head? == some 34 && bytes.getLast? == some 34 && !((bytes.drop 1).dropLast.any (fun b => b == 34 || b == 92 || b < 32 || b ≥ 127))
        then some ((bytes.drop 1).dropLast) else none
    match inner with
    | none => { env := env, skipExtra := true, skipVars := [zi], spec := frameOk env [zi], tags := ["unmarshaljson", "not-modelled"] }
    | some t =>
      (match unmarshalText z t with
      | .ok d => { env := env.set! zi d, extra := "ok", spec := andSpec (frameOk env [zi]) canonicalAll,
                   tags := [if json then "unmarshaljson" else "unmarshaltext", "accepted"] ++ (if d.form != .finite then ["special"] else []) }
      | .error _ => { env := env, extra := "err", skipVars := [zi], spec := andSpec (frameOk env [zi]) canonicalAll,
                      tags := [if json then "unmarshaljson" else "unmarshaltext", "rejected"] })
  | _, _ => badStep env "unmarshal"

/-- `fmt.Sscan(s, z)`: `(*Decimal).Scan` = skip leading space, then `z.scan(byteReader, 0)`: the longest valid
    prefix is converted, what follows is left unread. `byteReader.ReadByte` reports an error for a multi-byte
    rune, so a number directly followed by one is an error (the scanner always reads one byte ahead). -/
def sscanOp (env : Array Dec) (zs hs : String) : Step :=
  match getVar env zs, hexToBytes hs with
  | some (zi, z), some bytes =>
    let s := bytes.dropWhile (fun b => b == 32 || b == 9 || b == 10 || b == 13)
    let multi := fun (l : List Nat) => match l with | b :: _ => b ≥ 194 && b ≤ 244 | [] => false
    (match scanDec z s 0 with
    | .ok (d, _, rest) =>
      if multi rest then
        { env := env, extra := "err", skipVars := [zi], spec := andSpec (frameOk env [zi]) canonicalAll, tags := ["sscan", "rejected", "multibyte"] }
      else
        { env := env.set! zi d, extra := "ok", spec := andSpec (frameOk env [zi]) canonicalAll,
          tags := ["sscan", "accepted"] ++ (if rest.isEmpty then [] else ["prefix"]) ++ (if d.acc != 0 then ["inexact"] else []) }
    | .error _ =>
      { env := env, extra := "err", skipVars := [zi], spec := andSpec (frameOk env [zi]) canonicalAll, tags := ["sscan", "rejected"] })
  | _, _ => badStep env "sscan"

def doOp4 (env : Array Dec) (c : Ctx) (toks : List String) : Step :=
  match toks with
  | ["text", x, f, p] => textOp env x f p
  | ["marshaltext", x] => marshalOp env false x
  | ["marshalhold", x, _y] => marshalOp env false x
  | ["marshaljson", x] => marshalOp env true x
  | ["unmarshaltext", z, h] => unmarshalOp env false z h
  | ["unmarshaltext", z] => unmarshalOp env false z ""
  | ["unmarshaljson", z, h] => unmarshalOp env true z h
  | ["sprintf", x, h] => sprintfOp env x h
  | ["sscan", z, h] => sscanOp env z h
  | ["sscan", z] => sscanOp env z ""
  | ["parse", z, b, h] => parseOp env "parse" z b h
  | ["parse", z, b] => parseOp env "parse" z b ""
  | _ => doOp3 env c toks

end Driver
