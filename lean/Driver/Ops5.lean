/-
  Driver operations: binary floating-point conversions (C15).
-/
import Driver.Ops4
import DecimalModel.Float
import DecimalModel.Spec.Binary

namespace Driver
open Decimal

def hexNat (s : String) : Option Nat :=
  s.toList.foldl (fun acc c => do
    let a ← acc
    let v ← hexVal c
    pure (a * 16 + v)) (some 0)

def absRat (q : Rat) : Rat := if q < 0 then -q else q

/-- value of a finite Decimal state as a rational (bounded exponents only) -/
def decRat (x : Dec) : Rat := (x.mant : Rat) * Spec.pow10Rat (x.exp - (x.len * DW : Nat))

/-- distance between a stored finite state and the exact positive magnitude `q`, in units of the
    last place of a `p`-digit number of `q`'s decade -/
def ulpDist (g : Dec) (q : Rat) (p : Nat) : Rat :=
  let e := Spec.decExp q
  absRat (decRat g - q) / Spec.pow10Rat (e - p)

def setFloat64Op (env : Array Dec) (zs hs : String) : Step :=
  match getVar env zs, hexNat hs with
  | some (zi, z), some bits =>
    let (z', oc) := setFloat64 z bits
    let p := if z.prec == 0 then 17 else z.prec
    let neg : Bool := (bits / 2 ^ 63 % 2 : Nat) == 1
    let E : Nat := bits / 2 ^ 52 % 2048
    let F : Nat := bits % 2 ^ 52
    let isNaN := E == 2047 && F != 0
    let q : Rat := if E == 0 then (F : Rat) * Spec.pow2Rat (-1074) else ((2 ^ 52 + F : Nat) : Rat) * Spec.pow2Rat ((E : Int) - 1075)
    let correct := Spec.round z.mode p neg q 0
    -- does the full decimal expansion fit?  (then the result must be exact)
    let fits := correct.acc == 0
    let sp : Outcome → String → Array Dec → Option String := fun o _ genv =>
      if isNaN then (if o == .errNaN then none else some "SetFloat64(NaN) must panic with ErrNaN") else
      if o != .ok then some "unexpected panic" else
      match genv[zi]? with
      | none => some "no receiver"
      | some g =>
        if g.prec != p || g.mode != z.mode then some "precision/mode" else
        if g.neg != neg then some "sign" else
        if E == 0 && F == 0 then (if g.form == .zero then none else some "±0 not preserved")
        else if E == 2047 then (if g.form == .inf then none else some "±Inf not preserved")
        else if g.form != .finite then some "finite value became zero/Inf"
        else if fits then (if Spec.agreesValue g correct then none else some s!"binary value representable in {p} digits but not stored exactly: {stateToString g}")
        else
          -- at most one unit in the last place away from the correctly rounded value
          let cv : Rat := (correct.coef : Rat) * Spec.pow10Rat (correct.exp - (p : Int))
          let d := absRat (decRat g - cv) / Spec.pow10Rat (correct.exp - (p : Int))
          if correct.form != .finite || d ≤ 1 then none
          else some s!"more than one unit in the last place from the correctly rounded value ({d} ulp): {stateToString g}"
    { env := env.set! zi z', outcome := oc, spec := andSpec sp (andSpec (frameOk env [zi]) canonicalAll),
      tags := ["setfloat64"] ++ (if isNaN then ["nan"] else if E == 0 && F != 0 then ["subnormal"] else if E == 2047 || (E == 0 && F == 0) then ["special"] else
        (if fits then ["exact-fit"] else ["inexact"])) }
  | _, _ => badStep env "setfloat64"

/-- Float64/Float32: nearest binary value; Go's output is taken as is (math/big is not modelled). -/
def toFloatOp (env : Array Dec) (name xs : String) : Step :=
  match getVar env xs with
  | some (_, x) =>
    let is64 := name == "float64"
    let (pb, emin, emax) : Nat × Int × Int := if is64 then (53, -1022, 1024) else (24, -126, 128)
    let signBit : Nat := if is64 then 2 ^ 63 else 2 ^ 31
    let infBits : Nat := if is64 then 0x7ff0000000000000 else 0x7f800000
    -- expected (bits, acc) and the closeness of x to a tie / to a representable value
    let (wantBits, wantAcc, nearTie, nearRep) : Nat × Int × Bool × Bool :=
      match x.form with
      | .zero => (if x.neg then signBit else 0, 0, false, false)
      | .inf => ((if x.neg then signBit else 0) + infBits, 0, false, false)
      | .finite =>
        let s : Nat := if x.neg then signBit else 0
        if x.exp > 400 then (s + infBits, if x.neg then -1 else 1, false, false)
        else if x.exp < -400 then (s, if x.neg then 1 else -1, false, false)
        else
          let q := decRat x
          let r := Spec.nearestBin pb emin emax q
          let b := if is64 then Spec.bits64 r else Spec.bits32 r
          let acc := if x.neg then -r.acc else r.acc
          -- double rounding through a big.Float of 64 (32) bits: harmless unless x is this close
          let thr : Rat := if is64 then 1 / (2 ^ 8 : Nat) else 1 / (2 ^ 5 : Nat)
          (s + b, acc, decide (r.distMid ≤ thr), decide (r.distRep ≤ thr))
    let sp : Outcome → String → Array Dec → Option String := fun o e _ =>
      if o != .ok then some "panic" else
      match e.splitOn " " with
      | [hb, a] =>
        (match hexNat hb, a.toInt? with
        | some b, some acc =>
          if b != wantBits then some s!"not the nearest binary value: got bits {hb} acc {a}, want {wantBits} acc {wantAcc}"
          else if acc != wantAcc then some s!"accuracy: got {a}, want {wantAcc} (bits {hb})"
          else none
        | _, _ => some "bad extra")
      | _ => some "bad extra"
    { env := env, skipExtra := true, spec := andSpec sp (frameOk env []),
      known := if nearTie then some (name ++ "-double-rounding-near-tie") else if nearRep then some (name ++ "-accuracy-near-representable") else none,
      tags := [name] ++ (if nearTie then ["near-tie"] else []) ++ (if nearRep then ["near-representable"] else []) ++
        (if x.form != .finite then ["special"] else if wantAcc != 0 then ["inexact"] else ["exact"]) }
  | none => badStep env "tofloat"

/-- SetFloat(big.Float): "naive" — exact when the decimal expansion fits, else within a few dozen ulps. -/
def setFloatOp (env : Array Dec) (toks : List String) : Step :=
  match toks with
  | [zs, fp, sg, ws, e2s] =>
    (match getVar env zs, fp.toNat?, parseWords? ws, e2s.toInt? with
    | some (zi, z), some fprec, some (M, _), some e2 =>
      let neg := sg == "1"
      -- ⌈fprec × log10 2⌉ with the float64 constant log10_2 = 0x3FD34413509F79FF
      let l102 : Rat := (0x134413509F79FF : Nat) / (2 ^ 54 : Nat)
      let p := if z.prec == 0 then ((fprec : Rat) * l102).ceil.toNat else z.prec
      let q : Rat := if e2 < -1000000 then 0 else (M : Rat) * Spec.pow2Rat e2
      let sp : Outcome → String → Array Dec → Option String := fun o _ genv =>
        if o != .ok then some "unexpected panic" else
        match genv[zi]? with
        | none => some "no receiver"
        | some g =>
          if g.prec != p then some s!"precision: want {p} got {g.prec}" else
          if g.mode != z.mode then some "mode" else
          if g.neg != neg then some "sign" else
          if M == 0 then (if g.form == .zero then none else some "±0 not preserved")
          else if g.form != .finite then some "finite value became zero/Inf"
          else if e2 < -1000000 then
            -- extreme binary exponents: the same 64-ulp bound by integer cross-multiplication
            -- (|gm·10^ge − M·2^e2| ≤ 65·10^(g.exp−p), scaled by 2^|e2|·10^|ge|; no rational of 2^31 bits is normalised)
            let ge : Int := g.exp - (g.len * DW : Nat)
            if ge ≥ 0 || (g.len * DW : Nat) < p then some "unexpected exponent for a tiny binary value" else
            let a : Nat := g.mant <<< e2.natAbs
            let b : Nat := M * 10 ^ ge.natAbs
            let d := if a ≥ b then a - b else b - a
            if d ≤ (65 * 10 ^ (g.len * DW - p)) <<< e2.natAbs then none
            else some s!"more than 64 units in the last place from the exact value (extreme exponent): {stateToString g}"
          else
            let correct := Spec.round z.mode p neg q 0
            if correct.acc == 0 then (if Spec.agreesValue g correct then none else some s!"binary value representable in {p} digits but not stored exactly: {stateToString g}")
            else if ulpDist g q p ≤ 64 then none
            else some s!"more than 64 units in the last place from the exact value: {stateToString g}"
      { env := env, skipVars := [zi], spec := andSpec sp (andSpec (frameOk env [zi]) canonicalAll),
        tags := ["setfloat"] ++ (if z.prec == 0 then ["prec0"] else []) ++ (if e2 < -1000000 then ["min-exponent"] else []) }
    | _, _, _, _ => badStep env "setfloat")
  | [zs, _fp, sg, "inf"] =>
    (match getVar env zs with
    | some (zi, _) =>
      { env := env, skipVars := [zi],
        spec := andSpec (fun o _ genv => if o != .ok then some "SetFloat(±Inf) panicked" else
          match genv[zi]? with
          | some g => if g.form == .inf && g.neg == (sg == "1") then none else some "±Inf not preserved"
          | none => some "no receiver") (andSpec (frameOk env [zi]) canonicalAll),
        tags := ["setfloat", "special"] }
    | none => badStep env "setfloat")
  | _ => badStep env "setfloat"

/-- x.Float(z) with z.prec = fp: within 64 binary ulps, exact when representable... (naive). -/
def floatOp (env : Array Dec) (xs fps : String) : Step :=
  match getVar env xs, fps.toNat? with
  | some (_, x), some fp =>
    let sp : Outcome → String → Array Dec → Option String := fun o e _ =>
      if o != .ok then some "panic" else
      match e.splitOn " " with
      | ["inf", s] => if x.form == .inf && (s == "1") == x.neg then none else some "Float: wrong infinity"
      | ["zero", s] => if x.form == .zero && (s == "1") == x.neg then none else some "Float: wrong zero"
      | ["fin", s, ws, e2, gp, _acc] =>
        (match parseWords? ws, e2.toInt? with
        | some (M, _), some e2 =>
          if x.form != .finite then some "Float: special value became finite" else
          if gp.toNat? != some fp then some s!"Float: result precision {gp}, want {fp}" else
          if (s == "1") != x.neg then some "Float: sign" else
          let q := decRat x
          let v : Rat := (M : Rat) * Spec.pow2Rat e2
          let ulp := Spec.pow2Rat (Spec.floorLog2 q - (fp : Int) + 1)
          if absRat (v - q) ≤ 64 * ulp then none else some "Float: more than 64 units in the last place away"
        | _, _ => some "bad extra")
      | _ => some "bad extra"
    { env := env, skipExtra := true, spec := andSpec sp (frameOk env []), tags := ["float"] }
  | _, _ => badStep env "float"

/-- `z := c.NewFloat64(x)`: a fresh Decimal with the context's precision and mode; a NaN argument is recorded
    in the context (unless an earlier error is pending — the latch is a flag here) and never raised. -/
def ctxNewFloat64Op (env : Array Dec) (c : Ctx) (zs hs : String) : Step :=
  match getVar env zs, hexNat hs with
  | some (zi, _), some bits =>
    let z0 : Dec := { form := .zero, neg := false, mant := 0, len := 0, exp := 0, prec := c.prec, mode := c.mode, acc := 0 }
    let (z', oc) := setFloat64 z0 bits
    let isNaN := oc == .errNaN
    let c' := if isNaN then { c with err := true } else c
    let E : Nat := bits / 2 ^ 52 % 2048
    let F : Nat := bits % 2 ^ 52
    let neg : Bool := (bits / 2 ^ 63 % 2 : Nat) == 1
    let q : Rat := if E == 0 then (F : Rat) * Spec.pow2Rat (-1074) else ((2 ^ 52 + F : Nat) : Rat) * Spec.pow2Rat ((E : Int) - 1075)
    let sp : Outcome → String → Array Dec → Option String := fun o _ genv =>
      if o != .ok then some "Context.NewFloat64 panicked (a NaN must be latched)" else
      match genv[zi]? with
      | none => some "no result"
      | some g =>
        if g.prec != c.prec || g.mode != c.mode then some "result does not carry the context's precision and mode"
        else if isNaN || E == 2047 || (E == 0 && F == 0) then none
        else
          -- finite: at most one unit in the last place from the correctly rounded value (exact when it fits), as SetFloat64
          let correct := Spec.round c.mode c.prec neg q 0
          if correct.acc == 0 then (if Spec.agreesValue g correct then none else some "binary value representable but not stored exactly")
          else
            let cv : Rat := (correct.coef : Rat) * Spec.pow10Rat (correct.exp - (c.prec : Int))
            let d := absRat (decRat g - cv) / Spec.pow10Rat (correct.exp - (c.prec : Int))
            if correct.form != .finite || g.form != .finite || d ≤ 1 then none else some "more than one unit in the last place from the correctly rounded value"
    { env := env.set! zi z', ctx := some c', skipVars := if isNaN then [zi] else [],
      spec := andSpec sp (andSpec (frameOk env [zi]) canonicalAll),
      tags := ["cnewf64"] ++ (if isNaN then ["nan"] else []) ++ (if c.err then ["latched"] else []) }
  | _, _ => badStep env "cnewf64"

def doOp5 (env : Array Dec) (c : Ctx) (toks : List String) : Step :=
  match toks with
  | ["cnewf64", z, h] => ctxNewFloat64Op env c z h
  | ["setfloat64", z, h] => setFloat64Op env z h
  | ["float64", x] => toFloatOp env "float64" x
  | ["float32", x] => toFloatOp env "float32" x
  | "setfloat" :: rest => setFloatOp env rest
  | ["float", x, p, _m] => floatOp env x p
  | ["float", x, p, _m, _preset] => floatOp env x p
  | _ => doOp4 env c toks

end Driver
