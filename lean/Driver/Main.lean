/-
  Correspondence driver: reads a transcript produced by the Go harness (operations and what the
  real code did), runs the Lean model and the specification on the same operations, and prints
  one verdict line per observed step.

    P                         start a new program (fresh variables)
    L v state                 variable v := state (the Go side builds it through the public API)
    O op args…                operation on variables
    G outcome|extra|s0|s1|…   what Go observed after the preceding L/O: outcome ∈ ok, ErrNaN,
                              panic:<msg>; extra output; the state of every variable

  Output: for every G line one of
    ok <tags>
    DIFF <kind> line=<n> <details>        kind ∈ model, spec
-/
import Driver.Ops5
import Driver.Kern

open Decimal Driver

structure St where
  env : Array Dec := #[]
  ctx : Ctx := {}
  pending : Option Step := none
  pendingLine : String := ""
  lineNo : Nat := 0

def outcomeOfString (s : String) : Outcome :=
  if s == "ok" then .ok else if s == "ErrNaN" then .errNaN else .panicOther (s.drop 6).toString

def outcomeToString : Outcome → String
  | .ok => "ok" | .errNaN => "ErrNaN" | .panicOther m => "panic:" ++ m

def checkG (st : St) (rest : String) : String × Array Dec :=
  match st.pending with
  | none => ("DIFF proto line=" ++ toString st.lineNo ++ " G without O", st.env)
  | some step =>
    let parts := rest.splitOn "|"
    match parts with
    | oc :: extra :: states =>
      let goOutcome := outcomeOfString oc
      let goEnv? := states.mapM parseState?
      match goEnv? with
      | none => ("DIFF proto line=" ++ toString st.lineNo ++ " bad state", st.env)
      | some goEnvL =>
        let goEnv := goEnvL.toArray
        let merrs : List String := Id.run do
          let mut errs : List String := []
          -- model comparison
          let sameOutcome := match goOutcome, step.outcome with
            | .ok, .ok => true
            | .errNaN, .errNaN => true
            | .panicOther _, .panicOther _ => true
            | _, _ => false
          if !sameOutcome then
            errs := errs ++ [s!"model outcome go={outcomeToString goOutcome} model={outcomeToString step.outcome}"]
          if goEnv.size != step.env.size then
            errs := errs ++ [s!"model nvars go={goEnv.size} model={step.env.size}"]
          else
            for i in [0:goEnv.size] do
              if !(step.skipVars.contains i) && !sameState goEnv[i]! step.env[i]! then
                errs := errs ++ [s!"model var={i} go={stateToString goEnv[i]!} model={stateToString step.env[i]!}"]
          if !step.skipExtra && extra != step.extra then
            errs := errs ++ [s!"model extra go={extra} model={step.extra}"]
          return errs
        -- specification
        let serrs : List String := match step.spec goOutcome extra goEnv with
          | some msg => ["spec " ++ msg]
          | none => []
        -- continue from what Go actually holds, so one disagreement does not cascade
        if merrs.isEmpty && serrs.isEmpty then
          ("ok " ++ ",".intercalate step.tags, goEnv)
        else if merrs.isEmpty && step.known.isSome then
          ("KNOWN " ++ step.known.getD "" ++ " line=" ++ toString st.lineNo ++ " op=[" ++ st.pendingLine ++ "] " ++ " ;; ".intercalate serrs, goEnv)
        else
          ("DIFF line=" ++ toString st.lineNo ++ " op=[" ++ st.pendingLine ++ "] " ++ " ;; ".intercalate (merrs ++ serrs), goEnv)
    | _ => ("DIFF proto line=" ++ toString st.lineNo ++ " short G", st.env)

partial def loop (h : IO.FS.Stream) (out : IO.FS.Stream) (st : St) : IO Unit := do
  let line ← h.getLine
  if line.isEmpty then return ()
  let line := (line.dropEndWhile (fun c => c == '\n' || c == '\r')).toString
  let st := { st with lineNo := st.lineNo + 1 }
  if line.startsWith "P" then
    loop h out { st with env := #[], pending := none, ctx := {} }
  else if line.startsWith "G " then
    let (msg, env) := checkG st (line.drop 2).toString
    out.putStrLn msg
    out.flush
    loop h out { st with env := env, pending := none }
  else if line.startsWith "L " || line.startsWith "O " then
    let toks := (line.drop 2).toString.splitOn " "
    let step := if line.startsWith "L " then doLoad st.env toks else doOp5 st.env st.ctx toks
    loop h out { st with pending := some step, pendingLine := line, ctx := step.ctx.getD st.ctx }
  else if line.startsWith "K " then
    out.putStrLn (doKern (line.drop 2).toString)
    out.flush
    loop h out st
  else if line.startsWith "#" || line == "" then
    loop h out st
  else do
    out.putStrLn s!"DIFF proto line={st.lineNo} unknown line"
    loop h out st

def main (_args : List String) : IO UInt32 := do
  let stdin ← IO.getStdin
  let stdout ← IO.getStdout
  loop stdin stdout {}
  return 0
