/-
  Operation table of the driver: for every protocol operation, the model step (L1/L2) and the
  specification verdict (S) on what the Go code returned.
-/
import Driver.Proto
import DecimalModel.Spec.IEEE
import DecimalModel.Context
import Driver.OpsW

namespace Driver
open Decimal

structure Step where
  env : Array Dec
  /-- new context state, when the operation changed it -/
  ctx : Option Ctx := none
  outcome : Outcome := .ok
  extra : String := ""
  /-- variables whose state is not compared with the model (left undefined by the API). -/
  skipVars : List Nat := []
  skipExtra : Bool := false
  /-- specification verdict on (Go outcome, Go extra output, Go variable states): `some msg` = violated. -/
  spec : Outcome → String → Array Dec → Option String := fun _ _ _ => none
  /-- class of a recorded known finding this case belongs to (see known_findings.json): when the
      specification verdict fails but the code behaves exactly as the model of the code says,
      the case is reported as `KNOWN <class>` instead of `DIFF`. -/
  known : Option String := none
  tags : List String := []

def badStep (env : Array Dec) (msg : String) : Step :=
  { env := env, outcome := .panicOther ("driver: " ++ msg), skipExtra := true,
    spec := fun _ _ _ => some ("driver cannot interpret: " ++ msg) }

def doLoad (env : Array Dec) (toks : List String) : Step :=
  match toks with
  | [v, s] =>
    match v.toNat?, parseState? s with
    | some v, some d =>
      let env := if v < env.size then env.set! v d else (env ++ Array.replicate (v - env.size) ({} : Dec)).push d
      { env := env }
    | _, _ => badStep env "load"
  | _ => badStep env "load"

def getVar (env : Array Dec) (s : String) : Option (Nat × Dec) := do
  let i ← s.toNat?
  let d ← env[i]?
  pure (i, d)

/-- Verdict: the receiver holds `r` with precision `p`, mode `m`; or the call must raise ErrNaN. -/
def expectRecv (zi : Nat) (r : Option Spec.SRes) (p : Nat) (m : Mode) :
    Outcome → String → Array Dec → Option String :=
  fun oc _ genv =>
    match r with
    | none => if oc == .errNaN then
        -- the receiver must still be a valid Decimal; checked by the canonical monitor
        none
      else some "expected panic ErrNaN"
    | some r =>
      if oc != .ok then some "unexpected panic" else
      match genv[zi]? with
      | none => some "no receiver"
      | some gz =>
        if !Spec.agrees gz r then some s!"value/accuracy: want form={r.form.toNat} neg={r.neg} coef={r.coef} exp={r.exp} acc={r.acc} got {stateToString gz}"
        else if gz.prec != p then some s!"precision: want {p} got {gz.prec}"
        else if gz.mode != m then some s!"mode: want {m.toNat} got {gz.mode.toNat}"
        else none

/-- Every variable other than the receiver is unchanged (C09 frame rule), checked on Go's states. -/
def frameOk (pre : Array Dec) (zi : List Nat) : Outcome → String → Array Dec → Option String :=
  fun _ _ genv => Id.run do
    for i in [0:pre.size] do
      if !(zi.contains i) then
        match genv[i]? with
        | some g => if !sameState g pre[i]! then return some s!"operand {i} modified: {stateToString pre[i]!} -> {stateToString g}"
        | none => return some "missing var"
    return none

/-- The canonical-form monitor (C08) on Go's states. -/
def canonical (z : Dec) : Bool :=
  z.mode.toNat ≤ 5 && (z.acc == -1 || z.acc == 0 || z.acc == 1) && z.prec ≤ MaxPrec &&
  (z.form != .finite ||
    (z.len ≥ 1 && ndigits z.mant == z.len * DW && MinExp ≤ z.exp && z.exp ≤ MaxExp && z.prec ≥ 1 &&
      (z.len * DW ≤ z.prec || z.mant % 10 ^ (z.len * DW - z.prec) == 0)))

def canonicalAll : Outcome → String → Array Dec → Option String :=
  fun _ _ genv => Id.run do
    for i in [0:genv.size] do
      if !canonical genv[i]! then return some s!"var {i} not canonical: {stateToString genv[i]!}"
    return none

def andSpec (a b : Outcome → String → Array Dec → Option String) : Outcome → String → Array Dec → Option String :=
  fun o e g => match a o e g with
    | some m => some m
    | none => b o e g

def formTag (x : Dec) : String :=
  match x.form with | .zero => "zero" | .finite => "fin" | .inf => "inf"

def resTags (r : Option Spec.SRes) (ops : List Dec) : List String :=
  let sp := if ops.any (fun x => x.form != .finite) then ["special"] else []
  match r with
  | none => "nan" :: sp
  | some r =>
    (if r.acc != 0 then ["inexact"] else ["exact"]) ++
    (if r.form != .finite && ops.all (fun x => x.form == .finite) then ["range"] else []) ++ sp

def aliasTags (idx : List Nat) : List String :=
  let rec dup : List Nat → Bool
    | [] => false
    | a :: rest => rest.contains a || dup rest
  if dup idx then ["alias"] else []

/-- Binary arithmetic: add sub mul quo. -/
def binOp (env : Array Dec) (name : String) (zs xs ys : String) : Step :=
  match getVar env zs, getVar env xs, getVar env ys with
  | some (zi, z), some (xi, x), some (yi, y) =>
    let (z', oc) := match name with
      | "add" => add z x y (xi == zi) (yi == zi)
      | "sub" => sub z x y (xi == zi) (yi == zi)
      | "mul" => mul z x y (xi == zi) (yi == zi)
      | _ => quo z x y (xi == zi) (yi == zi)
    let p := if z.prec == 0 then umax x.prec y.prec else z.prec
    let sx := Spec.ofDec x
    let sy := Spec.ofDec y
    let r := match name with
      | "add" => Spec.addSV z.mode p sx sy
      | "sub" => Spec.subSV z.mode p sx sy
      | "mul" => Spec.mulSV z.mode p sx sy
      | _ => Spec.quoSV z.mode p sx sy
    { env := env.set! zi z', outcome := oc,
      -- three voices: specification, L1 model (env), and the word-level model W run on the pre-state words
      spec := andSpec (expectRecv zi r p z.mode) (andSpec (wSpecBin name zi xi yi z x y) (andSpec (frameOk env [zi]) canonicalAll)),
      tags := name :: resTags r [x, y] ++ aliasTags [zi, xi, yi] }
  | _, _, _ => badStep env "binop vars"

def fmaOp (env : Array Dec) (zs xs ys us : String) : Step :=
  match getVar env zs, getVar env xs, getVar env ys, getVar env us with
  | some (zi, z), some (xi, x), some (yi, y), some (ui, u) =>
    let (z', oc) := fma z x y u (xi == zi) (yi == zi) (ui == zi)
    let p := if z.prec == 0 then umax (umax x.prec y.prec) u.prec else z.prec
    let r := Spec.fmaSV z.mode p (Spec.ofDec x) (Spec.ofDec y) (Spec.ofDec u)
    -- does the single rounding matter?  compare with Mul then Add at the same precision
    let twoStep : Option Spec.SRes :=
      match Spec.mulSV z.mode p (Spec.ofDec x) (Spec.ofDec y) with
      | some pr =>
        let prv : Spec.SV := match pr.form with
          | .zero => .zero pr.neg | .inf => .inf pr.neg
          | .finite => .fin pr.neg (pr.coef : Rat) (pr.exp - (ndigits pr.coef : Nat))
        Spec.addSV z.mode p prv (Spec.ofDec u)
      | none => none
    let fused := match r, twoStep with
      | some a, some b => if a == b then [] else ["fused-differs"]
      | _, _ => []
    -- recorded finding: the exact product leaves the exponent range although the sum need not
    let prodOut := x.form == .finite && y.form == .finite &&
      (let e : Int := (ndigits (x.mant * y.mant) : Int) + intExp x + intExp y
       e < MinExp || e > MaxExp)
    { env := env.set! zi z', outcome := oc,
      spec := andSpec (expectRecv zi r p z.mode) (andSpec (frameOk env [zi]) canonicalAll),
      known := if prodOut then some "fma-product-exponent-out-of-range" else none,
      tags := "fma" :: resTags r [x, y, u] ++ aliasTags [zi, xi, yi, ui] ++ fused }
  | _, _, _, _ => badStep env "fma vars"

/-- Unary value operations: set neg abs. -/
def unOp (env : Array Dec) (name : String) (zs xs : String) : Step :=
  match getVar env zs, getVar env xs with
  | some (zi, z), some (xi, x) =>
    let same := xi == zi
    let z' := match name with
      | "set" => set z x same | "neg" => neg z x same | _ => abs z x same
    let p := if z.prec == 0 then x.prec else z.prec
    -- Set rounds x to z's precision; Neg/Abs round, then change the sign (C01)
    let r0 := Spec.roundSV z.mode p (Spec.ofDec x)
    -- accuracy of Neg/Abs is that of the rounding of x (the API documents nothing else)
    let r := match name with
      | "set" => r0 | "neg" => { r0 with neg := !r0.neg } | _ => { r0 with neg := false }
    { env := env.set! zi z',
      spec := andSpec (expectRecv zi (some r) p z.mode) (andSpec (frameOk env [zi]) canonicalAll),
      tags := name :: resTags (some r) [x] ++ aliasTags [zi, xi] }
  | _, _ => badStep env "unop vars"

def cmpOp (env : Array Dec) (xs ys : String) : Step :=
  match getVar env xs, getVar env ys with
  | some (xi, x), some (yi, y) =>
    let c := cmp x y
    let s := Spec.cmpSV (Spec.ofDec x) (Spec.ofDec y)
    { env := env, extra := toString c,
      spec := andSpec (fun _ e _ => if e == toString s then none else some s!"cmp: want {s} got {e}") (frameOk env []),
      tags := ["cmp", if c == 0 then "eq" else "ne"] ++
        (if x.form == .finite && y.form == .finite && x.exp == y.exp && x.len != y.len then ["difflen"] else []) ++
        (if x.form != .finite || y.form != .finite then ["special"] else []) ++ aliasTags [xi, yi] }
  | _, _ => badStep env "cmp vars"

def setPrecOp (env : Array Dec) (zs ps : String) : Step :=
  match getVar env zs, ps.toNat? with
  | some (zi, z), some p =>
    let z' := setPrec z p
    let pe := if p > MaxPrec then MaxPrec else p
    let r : Spec.SRes :=
      if p == 0 then
        (if z.form == .finite then { form := .zero, neg := z.neg, acc := makeAcc z.neg }
         else { form := z.form, neg := z.neg, acc := Exact })
      else Spec.roundSV z.mode pe (Spec.ofDec z)
    { env := env.set! zi z',
      spec := andSpec (expectRecv zi (some r) pe z.mode) (andSpec (frameOk env [zi]) canonicalAll),
      tags := "setprec" :: resTags (some r) [z] }
  | _, _ => badStep env "setprec"

def setModeOp (env : Array Dec) (zs ms : String) : Step :=
  match getVar env zs, ms.toNat? >>= Mode.ofNat? with
  | some (zi, z), some m =>
    { env := env.set! zi (setMode z m), spec := andSpec (frameOk env [zi]) canonicalAll, tags := ["setmode"] }
  | _, _ => badStep env "setmode"

def doOpArith (env : Array Dec) (toks : List String) : Step :=
  match toks with
  | [op, z, x, y] =>
    if op == "add" || op == "sub" || op == "mul" || op == "quo" then binOp env op z x y
    else badStep env ("unknown op " ++ op)
  | [op, z, x, y, u] => if op == "fma" then fmaOp env z x y u else badStep env ("unknown op " ++ op)
  | [op, a, b] =>
    if op == "set" || op == "neg" || op == "abs" then unOp env op a b
    else if op == "cmp" then cmpOp env a b
    else if op == "setprec" then setPrecOp env a b
    else if op == "setmode" then setModeOp env a b
    else badStep env ("unknown op " ++ op)
  | _ => badStep env "unknown op shape"

end Driver
