/-
  Kernel-level correspondence (C06, C07, C10, C18): lines produced by harness/kern (built with
  -tags verif) are self-contained:

    K ww   <name> <a> <b> <c> | <asm r1> <asm r2> | <pure r1> <pure r2>
    K vec  <name> <s> <r> <shape> | <x> | <y-or-z> | <asm z> <asm c> | <pure z> <pure c>
    K dec  <op> <kthr> <bsthr> <ksthr> <s> | <x> | <y> | <q> | <r> | <panic message or ->

  The driver evaluates the L0 model (word lists, regenerated word functions) and the arithmetic
  specification (natOf) and compares all of them.
-/
import Driver.Proto
import DecimalModel.DecOps
import DecimalModel.DivRec
import DecimalModel.Radix
import DecimalModel.AsmRoutines
import DecimalModel.AsmRoutinesBig

namespace Driver
open Decimal Decimal.L0 Decimal.Gen

def listToString (l : List Nat) : String := if l.isEmpty then "-" else ",".intercalate (l.map toString)

def wf (l : List Nat) : Bool := l.all (· < B)

def parse2 (s : String) : Option (Nat × Nat) :=
  match (s.trimAscii.toString.splitOn " ") with
  | [a, b] => do pure (← a.toNat?, ← b.toNat?)
  | _ => none

def parseVecRes (s : String) : Option (List Nat × Nat) :=
  match (s.trimAscii.toString.splitOn " ") with
  | [z, c] => do pure (← parseWordList? z, ← c.toNat?)
  | _ => none

/-- word kernels: model = generated definition, spec = arithmetic. -/
def kernWW (name : String) (a b c : Nat) : Option ((Nat × Nat) × (Nat × Nat)) :=
  match name with
  | "mul10WW" => some (mul10WW_g a b, (a * b / B, a * b % B))
  | "div10WW" => some (div10WW_g a b c, ((a * B + b) / c, (a * B + b) % c))
  | "div10W" => some (div10W_g a b, ((a * W + b) / B, (a * W + b) % B))
  | "add10WWW" => some (add10WWW_g a b c, ((a + b + c) % B, (a + b + c) / B))
  | "sub10WWW" => some (sub10WWW_g a b c, (if a ≥ b + c then (a - b - c, 0) else (a + B - b - c, 1)))
  | "mulAddWWW" => some (mulAddWWW_g a b c, ((a * b + c) / W, (a * b + c) % W))
  | "decDigits" => some ((decDigits a, 0), (ndigits a, 0))
  | "nlz10" => some ((nlz10 a, 0), (19 - ndigits a, 0))
  | "trailingZeroDigits" => some ((Gen.trailingZeroDigits a, 0), (trailingZeros a, 0))
  | _ => none

/-- vector kernels: (model result, spec check on a candidate result). -/
def kernVec (name : String) (s r : Nat) (x y : List Nat) : Option ((List Nat × Nat) × (List Nat × Nat → Bool)) :=
  let n := x.length
  match name with
  | "add10VV" => some (add10VV x y 0, fun (z, c) => wf z && z.length == n && natOf z + c * B ^ n == natOf x + natOf y)
  | "sub10VV" => some (sub10VV x y 0, fun (z, c) => wf z && z.length == n && natOf z + natOf y == natOf x + c * B ^ n)
  | "add10VW" => some (add10VW x s, fun (z, c) => wf z && z.length == n && natOf z + c * B ^ n == natOf x + s)
  | "sub10VW" => some (sub10VW x s, fun (z, c) => wf z && z.length == n && natOf z + s == natOf x + c * B ^ n)
  | "shl10VU" => some (shl10VU x s, fun (z, c) => wf z && z.length == n && (n == 0 || natOf z + c * B ^ n == natOf x * 10 ^ s))
  | "shr10VU" => some (shr10VU x s, fun (z, c) => wf z && z.length == n &&
      (n == 0 || (natOf z == natOf x / 10 ^ s && c == (natOf x % 10 ^ s) * 10 ^ (19 - s) % B)))
  | "mulAdd10VWW" => some (mulAdd10VWW x s r, fun (z, c) => wf z && z.length == n && natOf z + c * B ^ n == natOf x * s + r)
  | "addMul10VVW" => some (addMul10VVW y x s 0, fun (z, c) => wf z && z.length == n && natOf z + c * B ^ n == natOf y + natOf x * s)
  | "div10VWW" => some (div10VWW x s r, fun (z, c) => wf z && z.length == n && s != 0 && natOf z * s + c == r * B ^ n + natOf x && c < s)
  -- the binary kernel of dec.setNat (64-bit words): model = DecimalModel/Radix.lean, spec = arithmetic in base 2^64
  | "divWVW" => some (divWVW x r s, fun (z, c) => z.all (· < W) && z.length == n && s != 0 && binOf z * s + c == r * W ^ n + binOf x && c < s)
  | _ => none

/-- The same kernel executed by the Lean model of the REGENERATED assembly (tools/gen asm.go →
    Gen/Asm.lean and Gen/AsmBig.lean, run by AsmSem): compared with what the CPU returned, this validates the
    translator's meaning of every mnemonic on every run. `none` = shape not executed here. -/
def leanAsmVec (name shape : String) (s r : Nat) (x y : List Nat) : Option (Option (List Nat × Nat)) :=
  open Decimal.Asm Decimal.Gen.Asm in
  if shape == "sep" then
    match name with
    | "add10VV" => some (asm_add10VV x y)
    | "sub10VV" => some (asm_sub10VV x y)
    | "add10VW" => some (asm_add10VW x s)
    | "sub10VW" => some (asm_sub10VW x s)
    | "shl10VU" => some (asm_shl10VU x s)
    | "shr10VU" => some (asm_shr10VU x s)
    | "mulAdd10VWW" => some (asm_mulAdd10VWW x s r)
    | "addMul10VVW" => some (asm_addMul10VVW y x s)
    | "div10VWW" => some (asm_div10VWW x s r)
    | "divWVW" => some (asm_divWVW x r s)   -- arith_amd64.s (Gen/AsmBig.lean); s = y, r = xn
    | _ => none
  else if shape == "inplace" then
    match name with
    | "add10VV" => some (asm_add10VV_inplace x y)
    | "sub10VV" => some (asm_sub10VV_inplace x y)
    | "add10VW" => some (asm_inplace .add10VW_entry x [s])
    | "sub10VW" => some (asm_inplace .sub10VW_entry x [s])
    | "shl10VU" => some (asm_inplace .shl10VU_entry x [s])
    | "shr10VU" => some (asm_inplace .shr10VU_entry x [s])
    | "mulAdd10VWW" => some (asm_inplace .mulAdd10VWW_entry x [s, r])
    | "div10VWW" => some (asm_inplace .div10VWW_entry x [s, r])
    | "divWVW" => some (asm_divWVW_inplace x r s)
    | _ => none
  else none

def leanAsmWW (name : String) (a b c : Nat) : Option (Option (Nat × Nat)) :=
  open Decimal.Asm in
  match name with
  | "mul10WW" => some (asm_mul10WW a b)
  | "div10WW" => some (asm_div10WW a b c)
  | "div10W" => some (asm_div10W a b)
  | _ => none

def lenTags (n : Nat) : List String :=
  [s!"len%4={n % 4}"] ++ (if n ≥ 4 then ["unrolled"] else []) ++ (if n == 0 then ["empty"] else [])

def doKern (line : String) : String :=
  let parts := (line.splitOn "|").map (fun (s : String) => s.trimAscii.toString)
  match parts with
  | [hd, asm, pure] =>
    (match hd.splitOn " " with
    | ["ww", name, a, b, c] =>
      match a.toNat?, b.toNat?, c.toNat?, parse2 asm, parse2 pure with
      | some a, some b, some c, some ra, some rp =>
        (match kernWW name a b c with
        | some (m, sp) =>
          if ra != rp then s!"DIFF kern {name} assembly and portable Go differ: asm={ra} pure={rp}"
          else if ra != sp then s!"DIFF kern {name} implementation differs from the mathematical definition: got={ra} want={sp}"
          else if m != sp then s!"DIFF kern {name} regenerated Lean definition differs from the mathematical definition: gen={m} want={sp}"
          else match leanAsmWW name a b c with
            | some la => if la != some ra then s!"DIFF kern {name} Lean-executed translation of the assembly differs from the CPU: lean={la} cpu={ra}" else "ok ww,leanasm," ++ name
            | none => "ok ww," ++ name
        | none => "DIFF proto unknown word kernel " ++ name)
      | _, _, _, _, _ => "DIFF proto ww fields"
    | "shared" :: "ok" :: k :: _ => "ok shared,goroutines=" ++ k
    | "shared" :: rest => "DIFF kern shared: concurrent read-only use gave a different result or modified an operand: " ++ " ".intercalate rest
    | "pool" :: rest => "DIFF kern pool protocol violated: " ++ " ".intercalate rest
    | _ => "DIFF proto K")
  | [hd, xs, ys, asm, pure] =>
    (match hd.splitOn " " with
    | ["vec", name, s, r, shape] =>
      match s.toNat?, r.toNat?, parseWordList? xs, parseWordList? ys, parseVecRes asm, parseVecRes pure with
      | some s, some r, some x, some y, some ra, some rp =>
        (match kernVec name s r x y with
        | some (m, sp) =>
          if ra != rp then s!"DIFF kern {name} assembly and portable Go differ (shape {shape}): asm={listToString ra.1} {ra.2} pure={listToString rp.1} {rp.2}"
          else if !sp ra then s!"DIFF kern {name} implementation violates the mathematical definition (shape {shape}): got={listToString ra.1} {ra.2}"
          else if m != ra then s!"DIFF kern {name} L0 model differs from the implementation: model={listToString m.1} {m.2} got={listToString ra.1} {ra.2}"
          else match leanAsmVec name shape s r x y with
            | some la =>
              (match la with
              | some lr => if lr != ra then s!"DIFF kern {name} Lean-executed translation of the assembly differs from the CPU (shape {shape}): lean={listToString lr.1} {lr.2} cpu={listToString ra.1} {ra.2}"
                           else "ok vec,leanasm," ++ name ++ ",shape=" ++ shape ++ "," ++ ",".intercalate (lenTags x.length)
              | none => s!"DIFF kern {name} Lean-executed translation of the assembly trapped or ran out of fuel (shape {shape})")
            | none => "ok vec," ++ name ++ ",shape=" ++ shape ++ "," ++ ",".intercalate (lenTags x.length)
        | none => "DIFF proto unknown vector kernel " ++ name)
      | _, _, _, _, _, _ => "DIFF proto vec fields"
    | _ => "DIFF proto K")
  | [hd, xs, ys, qs, rs, msg] =>
    (match hd.splitOn " " with
    | ["dec", op, kt, bt, st, s] =>
      match kt.toNat?, bt.toNat?, st.toNat?, s.toNat?, parseWordList? xs, parseWordList? ys, parseWordList? qs, parseWordList? rs with
      | some kt, some bt, some st, some s, some x, some y, some q, some r =>
        let nx := natOf x
        let ny := natOf y
        let normd := fun (l : List Nat) => l.isEmpty || l.getLast? != some 0
        -- specification
        let spec : Option (Nat × Nat) := match op with
          | "mul" => some (nx * ny, 0) | "sqr" => some (nx * nx, 0)
          | "div" => if ny == 0 then none else some (nx / ny, nx % ny)
          | "divW" => if s == 0 then none else some (nx / s, nx % s)
          | "shl" => some (nx * 10 ^ s, 0) | "shr" => some (nx / 10 ^ s, 0)
          | "add" => some (nx + ny, 0) | "sub" => if nx < ny then none else some (nx - ny, 0)
          | "mulAddWW" => some (nx * s, 0)
          | _ => none
        -- L0 model (where it applies)
        let model : Option (Except String (List Nat × List Nat)) := match op with
          | "mul" => some (.ok (mul kt (x.length + y.length + 2) x y, []))
          | "sqr" => some (.ok (sqr bt st kt (x.length + 2) x, []))
          | "div" => some (divFull c_divRecursiveThreshold kt x y)
          | "divW" => some ((divW x s).map (fun (q, r) => (q, [r])))
          | "shl" => some (.ok (shl x s, [])) | "shr" => some (.ok (shr x s, []))
          | "add" => some (.ok (add x y, []))
          | "sub" => some ((sub x y).map (fun z => (z, [])))
          | "mulAddWW" => some (.ok (mulAddWW x s 0, []))
          | _ => none
        let rv := if op == "divW" then r.headD 0 else natOf r
        let tags := s!"dec,{op},thr={kt}/{bt}/{st}," ++
          (if op == "mul" && y.length ≥ kt && x.length ≥ kt then "karatsuba," else "") ++
          (if op == "sqr" && x.length ≥ st then "karatsubaSqr," else "") ++
          (if op == "sqr" && x.length ≥ bt && x.length < st then "basicSqr," else "") ++
          (if op == "div" && y.length ≥ 100 then "recursive," else "") ++
          (if op == "div" && y.length ≥ 2 then "long," else "") ++ s!"lx={x.length},ly={y.length}"
        (match spec with
        | none => if msg != "-" then "ok " ++ tags ++ ",panic-by-contract" else s!"DIFF kern dec {op}: expected a panic (invalid arguments)"
        | some (wq, wr) =>
          if msg != "-" then s!"DIFF kern dec {op}: panic({msg}) on valid arguments x={listToString x} y={listToString y} s={s}"
          else if !(wf q && wf r && normd q && (op == "divW" || normd r)) then s!"DIFF kern dec {op}: result not well-formed/normalised q={listToString q} r={listToString r}"
          else if natOf q != wq || rv != wr then s!"DIFF kern dec {op}: wrong result: natOf q={natOf q} want {wq}; r={rv} want {wr}"
          else match model with
            | some (.ok (mq, mr)) =>
              if mq != q || (op == "div" && mr != r) then s!"DIFF kern dec {op}: L0 model differs: model q={listToString mq} r={listToString mr} got q={listToString q} r={listToString r}"
              else "ok " ++ tags
            | some (.error e) => s!"DIFF kern dec {op}: L0 model raises {e} but the implementation returned"
            | none => "ok " ++ tags ++ ",spec-only")
      | _, _, _, _, _, _, _, _ => "DIFF proto dec fields"
    | _ => "DIFF proto K")
  | _ => "DIFF proto K shape"

end Driver
