/-
  Driver operations: gob encoding (C17). Byte strings travel as lowercase hex.
-/
import Driver.Ops2
import DecimalModel.Gob

namespace Driver
open Decimal

def hexVal (c : Char) : Option Nat :=
  if '0' ≤ c && c ≤ '9' then some (c.toNat - '0'.toNat)
  else if 'a' ≤ c && c ≤ 'f' then some (c.toNat - 'a'.toNat + 10)
  else if 'A' ≤ c && c ≤ 'F' then some (c.toNat - 'A'.toNat + 10)
  else none

def hexToBytes (s : String) : Option (List Nat) :=
  let rec go : List Char → Option (List Nat)
    | [] => some []
    | a :: b :: rest => do
      let h ← hexVal a
      let l ← hexVal b
      let tl ← go rest
      pure ((h * 16 + l) :: tl)
    | _ => none
  go s.toList

def hexDigit (n : Nat) : Char := if n < 10 then Char.ofNat (n + 48) else Char.ofNat (n - 10 + 97)

def bytesToHex (bs : List Nat) : String :=
  String.ofList (bs.flatMap (fun b => [hexDigit (b / 16), hexDigit (b % 16)]))

def gobEncOp (env : Array Dec) (xs : String) : Step :=
  match getVar env xs with
  | some (_, x) =>
    let enc := gobEncode x
    -- specification: decoding what was produced into a zero value gives x back, attribute by attribute
    let sp : Outcome → String → Array Dec → Option String := fun _ e _ =>
      match hexToBytes e with
      | none => some "encoder returned an error"
      | some bs =>
        match gobDecode {} bs with
        | none => some "the encoding does not decode"
        | some d => if sameState d x then none else some s!"round trip differs: {stateToString d}"
    { env := env, extra := bytesToHex enc, spec := andSpec sp (frameOk env []),
      tags := ["gobenc", formTag x] ++ (if x.acc != 0 then ["acc"] else []) ++ (if x.mode.toNat != 0 then ["mode"] else []) }
  | none => badStep env "gobenc"

def gobDecOp (env : Array Dec) (zs hs : String) : Step :=
  match getVar env zs, hexToBytes hs with
  | some (zi, z), some bs =>
    let r := gobDecode z bs
    let z' := r.getD z
    -- specification: error with z untouched, or a canonical value with z's precision/mode kept when non-zero
    let sp : Outcome → String → Array Dec → Option String := fun o e genv =>
      if o != .ok then some "GobDecode panicked" else
      match genv[zi]? with
      | none => some "no receiver"
      | some g =>
        if e == "err" then (if sameState g z then none else some "receiver modified although an error was returned")
        else if !canonical g then some s!"decoded value is not canonical: {stateToString g}"
        else if z.prec != 0 && !bs.isEmpty && (g.prec != z.prec || g.mode != z.mode) then some "receiver precision/mode not kept"
        else none
    { env := env.set! zi z', extra := if r.isSome then "ok" else "err",
      spec := andSpec sp (frameOk env [zi]),
      tags := ["gobdec", if r.isSome then "accepted" else "rejected"] ++ (if z.prec != 0 then ["into-nonzero-prec"] else []) }
  | _, _ => badStep env "gobdec"

/-- `gobrt z x`: encode x, decode into z through encoding/gob. -/
def gobRtOp (env : Array Dec) (zs xs : String) : Step :=
  match getVar env zs, getVar env xs with
  | some (zi, z), some (xi, x) =>
    let bs := gobEncode x
    let r := gobDecode (if xi == zi then x else z) bs
    let z' := r.getD z
    -- specification: value correctly rounded to z's precision/mode when non-zero, else x itself
    let sp : Outcome → String → Array Dec → Option String := fun o e genv =>
      if o != .ok || e != "ok" then some "round trip through encoding/gob failed" else
      match genv[zi]? with
      | none => some "no receiver"
      | some g =>
        if xi == zi then none
        else if z.prec == 0 then (if sameState g x then none else some s!"decoded differs from source: {stateToString g}")
        else
          let want := Spec.roundSV z.mode z.prec (Spec.ofDec x)
          if z.prec ≥ x.prec then
            (if Spec.agreesValue g want && g.prec == z.prec && g.mode == z.mode then none else some "decode into wider precision changed the value")
          else expectRecv zi (some want) z.prec z.mode o e genv
    { env := env.set! zi z', extra := "ok", spec := andSpec sp (andSpec (frameOk env [zi]) canonicalAll),
      tags := ["gobrt", formTag x] ++ (if z.prec != 0 then ["into-nonzero-prec"] else []) ++ (if z.prec != 0 && z.prec < x.prec then ["inexact"] else []) }
  | _, _ => badStep env "gobrt"

def doOp3 (env : Array Dec) (c : Ctx) (toks : List String) : Step :=
  match toks with
  | ["gobenc", x] => gobEncOp env x
  | ["gobdec", z, h] => gobDecOp env z h
  | ["gobdec", z] => gobDecOp env z ""
  | ["gobrt", z, x] => gobRtOp env z x
  | _ => doOp env c toks

end Driver
