/-
  Line protocol shared by the Go harness and the Lean driver.

  State of a variable:  form:neg:prec:mode:acc:exp:words
     form 0 zero / 1 finite / 2 inf;  neg 0/1;  acc -1/0/1;
     words = little-endian base-10^19 words separated by ',' or '-' when there are none.
-/
import DecimalModel.Arith

namespace Driver
open Decimal

def parseNat? (s : String) : Option Nat := s.toNat?

def parseInt? (s : String) : Option Int := s.toInt?

/-- Parse `w0,w1,…` (little endian) into (value, length); `-` is the empty vector. -/
def parseWords? (s : String) : Option (Nat × Nat) :=
  if s == "-" || s == "" then some (0, 0) else
  let toks := s.splitOn ","
  -- fold from the most significant word
  toks.foldr (fun t acc => do
      let (v, n) ← acc
      let w ← t.toNat?
      pure (w + B * v, n + 1)) (some (0, 0))

def parseWordList? (s : String) : Option (List Nat) :=
  if s == "-" || s == "" then some [] else
  (s.splitOn ",").mapM (·.toNat?)

def parseState? (s : String) : Option Dec := do
  match s.splitOn ":" with
  | [f, n, p, m, a, e, w] =>
    let form ← Form.ofNat? (← f.toNat?)
    let neg := n == "1"
    let prec ← p.toNat?
    let mode ← Mode.ofNat? (← m.toNat?)
    let acc ← a.toInt?
    let exp ← e.toInt?
    let (mant, len) ← parseWords? w
    pure { form, neg, mant, len, exp, prec, mode, acc }
  | _ => none

def wordsToString (M len : Nat) : String :=
  if len == 0 then "-" else
  let rec go (M : Nat) (n : Nat) (acc : List String) : List String :=
    match n with
    | 0 => acc.reverse
    | n + 1 => go (M / B) n (toString (M % B) :: acc)
  ",".intercalate (go M len [])

def stateToString (z : Dec) : String :=
  s!"{z.form.toNat}:{if z.neg then 1 else 0}:{z.prec}:{z.mode.toNat}:{z.acc}:{z.exp}:" ++
    (if z.form == .finite then wordsToString z.mant z.len else "-")

/-- Observable equality of two states (what the public API can see). Low zero words of the
    mantissa are not significant; mantissa and exponent of zeros/infinities are not observable. -/
def sameState (a b : Dec) : Bool :=
  a.form == b.form && a.neg == b.neg && a.prec == b.prec && a.mode == b.mode && a.acc == b.acc &&
  (a.form != .finite ||
    (a.exp == b.exp && a.mant * B ^ (b.len - a.len) == b.mant * B ^ (a.len - b.len)
      && ndigits a.mant == a.len * DW && ndigits b.mant == b.len * DW))

end Driver
