/-
  Word-level cross-checks of the radix conversions for the correspondence driver: run the L0 model
  of `SetInt` (`W.setInt`: bit length, float64 length estimate, junk-filled destination, `setNat`,
  `dnorm`, `round`) and of `Int` (`W.intWords`: `intMant`, `decToNat`) on a transcript step and
  compare with what Go left.  (`DecimalModel/Radix.lean`; theorems: `Properties/C14b.lean`.)

  The destination buffers are filled with the receiver's stale mantissa words followed by all-ones
  words, which is what a reused backing array may contain.

  Hooks (one line each, in `Driver/Ops2.lean`):
    setIntOp : spec := andSpec (stdSpec env zi (some r) p z.mode) (wSpecSetInt zi z neg M)
    "int"    : spec := andSpec (fun _ _ _ => wCheckInt x (v.map Int.natAbs)) (andSpec … fr)
-/
import DecimalModel.Radix
import Driver.Proto

namespace Driver
open Decimal

/-- normalised base-2^64 words of `n` (what `x.Bits()` holds). -/
def binWordsOf (n : Nat) : List Nat :=
  if h : n = 0 then [] else (n % 18446744073709551616) :: binWordsOf (n / 18446744073709551616)
decreasing_by exact Nat.div_lt_self (by omega) (by omega)

/-- stale contents of a reused destination: the old words, then all-ones. -/
def staleJunk (old : List Nat) : Nat → Nat := fun i => old.getD i 18446744073709551615

/-- the word-level `SetInt`, abstracted back to L1. -/
def wSetInt (z : Dec) (neg : Bool) (M : Nat) : Except String Dec :=
  let zw := W.ofDec z
  match W.setInt zw (staleJunk zw.mant) neg (binWordsOf M) with
  | .error e => .error e
  | .ok w => .ok (W.abs w)

/-- to be `andSpec`-ed into the `setint` step: the word-level model, run on the pre-state, must
    leave in the receiver the words Go left. -/
def wSpecSetInt (zi : Nat) (z : Dec) (neg : Bool) (M : Nat) :
    Outcome → String → Array Dec → Option String :=
  fun oc _ genv =>
    match genv[zi]? with
    | none => some "no receiver"
    | some gz =>
      match wSetInt z neg M with
      | .error e => (match oc with
          | .panicOther _ => none
          | _ => some s!"wmodel setint panic:{e} got {stateToString gz}")
      | .ok d =>
        if sameState d gz then none
        else some s!"wmodel setint: want {stateToString d} got {stateToString gz}"

/-- `Int()` of a finite `x` with `x.exp > 0`: the binary words the model hands to `SetBits` must
    have the value `t` (`|Int(x)|` as observed / as computed by the L1 model). -/
def wCheckInt (x : Dec) (t : Option Nat) : Option String :=
  if x.form == .finite && x.exp > 0 then
    let xw := W.ofDec x
    let ws := W.intWords xw (staleJunk [])
    match t with
    | none => some "wmodel int: finite value, nil result"
    | some t =>
      if L0.binOf ws == t && ws.all (· < 18446744073709551616) && ws.getLast? != some 0 then none
      else some s!"wmodel int: words {ws} for {t}"
  else none

end Driver
