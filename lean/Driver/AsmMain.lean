/-
  Line-protocol driver for the REGENERATED assembly (C07 tie): executes the translated routines of
  `DecimalModel/Gen/Asm.lean` in Lean, so that a Go harness can compare them with the CPU running
  the real assembly and with the portable `_g` kernels.

  Input, one request per line (words are decimal tokens, vectors are comma separated little-endian
  word lists, `-` is the empty vector; `#` starts a comment line):

    asm mul10WW x y                  -> ok z1 z0
    asm div10WW x1 x0 y              -> ok q r          (or `trap` when DIVQ would fault)
    asm div10W n1 n0                 -> ok q r
    asm add10VV | x | y              -> ok c | z         len(z) = len(x)
    asm sub10VV | x | y              -> ok c | z
    asm add10VW y | x                -> ok c | z
    asm sub10VW y | x                -> ok c | z
    asm shl10VU s | x                -> ok c | z
    asm shr10VU s | x                -> ok c | z
    asm mulAdd10VWW y r | x          -> ok c | z
    asm addMul10VVW y | z | x        -> ok c | z         z is read and written
    asm div10VWW y xn | x            -> ok r | z

  A routine name followed by `!` runs the same call in place (z and x are the same memory):
    asm add10VW! y | x               -> ok c | z

  General form, for the overlapping calls the library makes: the heap is one word vector, a slice
  argument is written `@off:len` (word offset and length in the heap), other arguments are words;
  `nres` result words are read back after the arguments (Go ABI0 frame layout):

    asmh shl10VU 1 @2:5 @0:5 3 | h0,h1,…     -> ok c | heap afterwards

  Anything else: `error <reason>`.
-/
import DecimalModel.AsmRoutines

open Decimal.Asm Decimal.Gen.Asm

namespace AsmDriver

def parseVec (s : String) : Option (List Nat) :=
  let s := s.trimAscii.toString
  if s == "-" || s == "" then some [] else
  (s.splitOn ",").mapM (fun t => t.trimAscii.toString.toNat?)

def showVec (v : List Nat) : String :=
  if v.isEmpty then "-" else ",".intercalate (v.map toString)

def entryOf (name : String) : Option Lbl := (routines.find? (·.1 == name)).map (·.2)

def showRes (r : Option (List Nat × Nat)) : String :=
  match r with
  | some (z, c) => s!"ok {c} | {showVec z}"
  | none => "trap"

def showPair (r : Option (Nat × Nat)) : String :=
  match r with
  | some (a, b) => s!"ok {a} {b}"
  | none => "trap"

/-- one `asm` request: routine (possibly with `!`), scalars, vectors -/
def doAsm (name : String) (sc : List Nat) (vs : List (List Nat)) : String :=
  let inplace := name.endsWith "!"
  let name := if inplace then (name.dropEnd 1).toString else name
  match name, sc, vs with
  | "mul10WW", [x, y], [] => showPair (asm_mul10WW x y)
  | "div10WW", [x1, x0, y], [] => showPair (asm_div10WW x1 x0 y)
  | "div10W", [n1, n0], [] => showPair (asm_div10W n1 n0)
  | "add10VV", [], [x, y] => showRes (if inplace then asm_add10VV_inplace x y else asm_add10VV x y)
  | "sub10VV", [], [x, y] => showRes (if inplace then asm_sub10VV_inplace x y else asm_sub10VV x y)
  | "add10VW", [y], [x] => showRes (if inplace then asm_inplace .add10VW_entry x [y] else asm_add10VW x y)
  | "sub10VW", [y], [x] => showRes (if inplace then asm_inplace .sub10VW_entry x [y] else asm_sub10VW x y)
  | "shl10VU", [s], [x] => showRes (if inplace then asm_inplace .shl10VU_entry x [s] else asm_shl10VU x s)
  | "shr10VU", [s], [x] => showRes (if inplace then asm_inplace .shr10VU_entry x [s] else asm_shr10VU x s)
  | "mulAdd10VWW", [y, r], [x] =>
    showRes (if inplace then asm_inplace .mulAdd10VWW_entry x [y, r] else asm_mulAdd10VWW x y r)
  | "addMul10VVW", [y], [z, x] => showRes (asm_addMul10VVW z x y)
  | "div10VWW", [y, xn], [x] =>
    showRes (if inplace then asm_inplace .div10VWW_entry x [y, xn] else asm_div10VWW x y xn)
  | _, _, _ => "error unknown routine or wrong arguments"

def parseArg (t : String) : Option Arg :=
  if t.startsWith "@" then
    match (t.drop 1).toString.splitOn ":" with
    | [o, l] => do pure (.slice (← o.toNat?) (← l.toNat?))
    | _ => none
  else (t.toNat?).map .word

def doAsmh (toks : List String) (heap : List Nat) : String :=
  match toks with
  | name :: nres :: args =>
    match entryOf name, nres.toNat?, args.mapM parseArg with
    | some e, some k, some as =>
      match callKernel e as k heap with
      | some (rs, h) => s!"ok {" ".intercalate (rs.map toString)} | {showVec h}"
      | none => "trap"
    | _, _, _ => "error bad asmh request"
  | _ => "error bad asmh request"

def handle (line : String) : String :=
  let parts := line.splitOn "|"
  let head := (parts.headD "").trimAscii.toString
  let toks := (head.splitOn " ").filter (· ≠ "")
  match toks with
  | "asm" :: name :: sc =>
    match sc.mapM (·.toNat?), (parts.drop 1).mapM parseVec with
    | some scn, some vs => doAsm name scn vs
    | _, _ => "error bad number"
  | "asmh" :: rest =>
    match (parts.drop 1).mapM parseVec with
    | some [heap] => doAsmh rest heap
    | _ => "error asmh needs exactly one heap vector"
  | _ => "error unknown request"

partial def loop (inp out : IO.FS.Stream) : IO Unit := do
  let line ← inp.getLine
  if line.isEmpty then return ()
  let line := (line.dropEndWhile (fun c => c == '\n' || c == '\r')).toString
  if line.startsWith "#" || line.trimAscii.toString == "" then
    loop inp out
  else
    out.putStrLn (handle line)
    out.flush
    loop inp out

end AsmDriver

def main (_args : List String) : IO UInt32 := do
  AsmDriver.loop (← IO.getStdin) (← IO.getStdout)
  return 0
