/-
  Self-test of the assembly translator: runs every regenerated routine in Lean on edge-heavy
  inputs (lengths 0..9, all shift counts 0..18, disjoint / in-place / shifted-overlap destinations)
  and compares with the obvious big-number formulas.   lake env lean --run Driver/AsmSelfTest.lean
-/
import DecimalModel.AsmRoutines

open Decimal Decimal.Asm Decimal.Gen.Asm

namespace AsmSelfTest

def Bv : Nat := 10000000000000000000
def Wv : Nat := 18446744073709551616

def natOfL : List Nat → Nat
  | [] => 0
  | w :: ws => w + Bv * natOfL ws

def toWords : Nat → Nat → List Nat
  | 0, _ => []
  | n + 1, v => (v % Bv) :: toWords n (v / Bv)

/-- deterministic pseudo random stream -/
def nextR (r : Nat) : Nat := (r * 6364136223846793005 + 1442695040888963407) % Wv

def edgeWords : List Nat := [0, 1, 2, 9, 10, Bv - 1, Bv - 2, Bv / 2, Bv / 2 - 1, Bv / 2 + 1, 9223372036854775807,
  9223372036854775808, 9223372036854775809, 1000000000, 999999999, 5000000000000000000, 4999999999999999999]

def pickWord (r : Nat) : Nat × Nat :=
  let r1 := nextR r
  let r2 := nextR r1
  if r1 / 65536 % 3 = 0 then (r2 / 4 % Bv, r2) else (edgeWords.getD (r2 / 65536 % edgeWords.length) 0, r2)

def pickVec : Nat → Nat → List Nat × Nat
  | 0, r => ([], r)
  | n + 1, r => let (w, r) := pickWord r; let (ws, r) := pickVec n r; (w :: ws, r)

structure Acc where
  fails : List String := []
  count : Nat := 0

def check (a : Acc) (name : String) (got want : Option (List Nat × Nat)) : Acc :=
  if got == want then { a with count := a.count + 1 }
  else { fails := s!"{name}: got {repr got} want {repr want}" :: a.fails, count := a.count + 1 }

def refAdd (x y : List Nat) : Option (List Nat × Nat) :=
  let n := x.length; let t := natOfL x + natOfL (y.take n); some (toWords n t, t / Bv ^ n)
def refSub (x y : List Nat) : Option (List Nat × Nat) :=
  let n := x.length; let X := natOfL x; let Y := natOfL (y.take n)
  if X ≥ Y then some (toWords n (X - Y), 0) else some (toWords n (X + Bv ^ n - Y), 1)
def refAddW (x : List Nat) (y : Nat) : Option (List Nat × Nat) :=
  let n := x.length; let t := natOfL x + y
  if n = 0 then some ([], y) else some (toWords n t, t / Bv ^ n)
def refSubW (x : List Nat) (y : Nat) : Option (List Nat × Nat) :=
  let n := x.length; let X := natOfL x
  if n = 0 then some ([], y) else if X ≥ y then some (toWords n (X - y), 0) else some (toWords n (X + Bv ^ n - y), 1)
def refShl (x : List Nat) (s : Nat) : Option (List Nat × Nat) :=
  let n := x.length; let t := natOfL x * 10 ^ s
  if n = 0 then some ([], 0) else some (toWords n t, t / Bv ^ n)
def refShr (x : List Nat) (s : Nat) : Option (List Nat × Nat) :=
  let n := x.length; let X := natOfL x
  if n = 0 then some ([], 0) else if s = 0 then some (x, 0) else some (toWords n (X / 10 ^ s), X % 10 ^ s * 10 ^ (19 - s))
def refMulAdd (x : List Nat) (y r : Nat) : Option (List Nat × Nat) :=
  let n := x.length; let t := natOfL x * y + r; some (toWords n t, t / Bv ^ n)
def refAddMul (z x : List Nat) (y : Nat) : Option (List Nat × Nat) :=
  let n := z.length; let t := natOfL z + natOfL (x.take n) * y; some (toWords n t, t / Bv ^ n)
def refDiv (x : List Nat) (y xn : Nat) : Option (List Nat × Nat) :=
  let n := x.length; let t := xn * Bv ^ n + natOfL x; some (toWords n (t / y), t % y)

/-- overlapping call: z at word offset zo, x at xo in one heap; returns (z, c) -/
def overlapped (entry : Lbl) (heap : List Nat) (zo xo n : Nat) (scalars : List Nat) : Option (List Nat × Nat) :=
  match callKernel entry ([.slice zo n, .slice xo n] ++ scalars.map .word) 1 heap with
  | some ([c], h) => some ((h.drop zo).take n, c)
  | _ => none

def runAll : Acc := Id.run do
  let mut a : Acc := {}
  let mut r : Nat := 12345
  -- word routines
  for _ in [0:400] do
    let (x, r1) := pickWord r; let (y, r2) := pickWord r1; let (u, r3) := pickWord r2; r := r3
    a := check a s!"mul10WW {x} {y}" ((asm_mul10WW x y).map fun (p : Nat × Nat) => ([p.1, p.2], 0)) (some ([x * y / Bv, x * y % Bv], 0))
    let n0 := nextR r3
    a := check a s!"div10W {x} {n0}" ((asm_div10W x n0).map fun (p : Nat × Nat) => ([p.1, p.2], 0)) (some ([(x * Wv + n0) / Bv, (x * Wv + n0) % Bv], 0))
    let yv := if u = 0 then 1 else u
    let x1 := x % yv
    a := check a s!"div10WW {x1} {y} {yv}" ((asm_div10WW x1 y yv).map fun (p : Nat × Nat) => ([p.1, p.2], 0)) (some ([(x1 * Bv + y) / yv, (x1 * Bv + y) % yv], 0))
  -- vector routines
  for n in [0:10] do
    for rep in [0:12] do
      let (x, r1) := pickVec n r
      let (y, r2) := pickVec n r1
      let (w, r3) := pickWord r2
      let (w2, r4) := pickWord r3
      r := r4
      -- make carries propagate / die in some repetitions
      let x := if rep % 4 = 1 then List.replicate n (Bv - 1) else if rep % 4 = 2 then List.replicate n 0 else x
      let w := if rep % 6 = 5 then 0 else w
      a := check a s!"add10VV {x} {y}" (asm_add10VV x y) (refAdd x y)
      a := check a s!"add10VV/inplace {x} {y}" (asm_add10VV_inplace x y) (refAdd x y)
      a := check a s!"sub10VV {x} {y}" (asm_sub10VV x y) (refSub x y)
      a := check a s!"sub10VV/inplace {x} {y}" (asm_sub10VV_inplace x y) (refSub x y)
      a := check a s!"add10VW {x} {w}" (asm_add10VW x w) (refAddW x w)
      a := check a s!"add10VW/inplace {x} {w}" (asm_inplace .add10VW_entry x [w]) (refAddW x w)
      a := check a s!"sub10VW {x} {w}" (asm_sub10VW x w) (refSubW x w)
      a := check a s!"sub10VW/inplace {x} {w}" (asm_inplace .sub10VW_entry x [w]) (refSubW x w)
      a := check a s!"mulAdd10VWW {x} {w} {w2}" (asm_mulAdd10VWW x w w2) (refMulAdd x w w2)
      a := check a s!"mulAdd10VWW/inplace {x} {w} {w2}" (asm_inplace .mulAdd10VWW_entry x [w, w2]) (refMulAdd x w w2)
      a := check a s!"addMul10VVW {y} {x} {w}" (asm_addMul10VVW y x w) (refAddMul y x w)
      let d := if w = 0 then 7 else w
      let xn := w2 % d
      a := check a s!"div10VWW {x} {d} {xn}" (asm_div10VWW x d xn) (refDiv x d xn)
      a := check a s!"div10VWW/inplace {x} {d} {xn}" (asm_inplace .div10VWW_entry x [d, xn]) (refDiv x d xn)
      if rep < 3 then
        for s in [0:19] do
          a := check a s!"shl10VU {x} {s}" (asm_shl10VU x s) (refShl x s)
          a := check a s!"shl10VU/inplace {x} {s}" (asm_inplace .shl10VU_entry x [s]) (refShl x s)
          a := check a s!"shr10VU {x} {s}" (asm_shr10VU x s) (refShr x s)
          a := check a s!"shr10VU/inplace {x} {s}" (asm_inplace .shr10VU_entry x [s]) (refShr x s)
          -- the library's overlaps: dec.shl writes z above x, dec.shr writes z below x
          for k in [1:3] do
            let heapL := x ++ List.replicate k 7
            a := check a s!"shl10VU/z=x+{k} {x} {s}" (overlapped .shl10VU_entry heapL k 0 n [s]) (refShl x s)
            let heapR := List.replicate k 7 ++ x
            a := check a s!"shr10VU/z=x-{k} {x} {s}" (overlapped .shr10VU_entry heapR 0 k n [s]) (refShr x s)
  return a

end AsmSelfTest

def main (_ : List String) : IO UInt32 := do
  let a := AsmSelfTest.runAll
  for f in a.fails.reverse.take 40 do
    IO.println ("FAIL " ++ f)
  IO.println s!"asm self-test: {a.count} cases, {a.fails.length} failures"
  return (if a.fails.isEmpty then 0 else 1)
