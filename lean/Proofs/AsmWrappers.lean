/-
  C07, assembly side: from the state-level whole-routine theorems (Proofs/AsmLoops.lean) to the
  Go-signature wrappers of DecimalModel/AsmRoutines.lean (`callKernel`: ABI0 frame, heap, runner,
  read-back).  Done for `mulAdd10VWW`; the other wrappers follow the same pattern (frame words by
  `listMem_rd`, operands by `zeros_append_getD`, result vector by `list_eq_of_getD`).
-/
import Proofs.AsmLoops
import Proofs.Asm
namespace Decimal.Asm
open Decimal.Gen (W W_eq)
open Decimal.Gen.Asm

theorem list_eq_of_getD (a b : List Nat) (hl : a.length = b.length)
    (h : ∀ j, j < a.length → a.getD j 0 = b.getD j 0) : a = b := by
  apply List.ext_getElem hl
  intro i h1 h2
  have := h i h1
  simp only [List.getD_eq_getElem?_getD, List.getElem?_eq_getElem h1, List.getElem?_eq_getElem h2,
    Option.getD_some] at this
  exact this

theorem readList_length (m : Mem) (b n : Nat) : (readList m b n).length = n := by
  simp [readList]

theorem readList_getD (m : Mem) (b n j : Nat) (hj : j < n) : (readList m b n).getD j 0 = m.rd (b + 8 * j) := by
  simp [readList, List.getD_eq_getElem?_getD, hj]

theorem zeros_append_getD (n : Nat) (xs : List Nat) (j : Nat) : (zeros n ++ xs).getD (n + j) 0 = xs.getD j 0 := by
  simp [zeros, List.getD_eq_getElem?_getD, List.getElem?_append_right]

/-- `mulAdd10VWW(z, x, y, r)` through the Go-signature wrapper (disjoint `z`, `x`):
    `z, c` are the words and the carry of `x*y + r`, for every length. -/
theorem asm_mulAdd10VWW_spec (xs : List Nat) (y r : Nat)
    (hxs : ∀ x, x ∈ xs → x < 10000000000000000000) (hy : y < 10000000000000000000)
    (hr : r < 10000000000000000000) (hn : xs.length < 1000000000000000) :
    asm_mulAdd10VWW xs y r = some (mulAddVWW xs y r) := by
  unfold asm_mulAdd10VWW
  simp only []
  generalize hh : zeros xs.length ++ xs = heap
  have hhl : heap.length = 2 * xs.length := by rw [← hh]; simp [zeros]; omega
  -- the initial state
  generalize hs0 : initState [.slice 0 xs.length, .slice xs.length xs.length, .word y, .word r] heap = s0
  have hfw : frameOf [.slice 0 xs.length, .slice xs.length xs.length, .word y, .word r] =
      [heapBase + 8 * 0, xs.length, xs.length, heapBase + 8 * xs.length, xs.length, xs.length, y, r] := rfl
  have hfr : s0.frame = listMem 0 [heapBase + 8 * 0, xs.length, xs.length, heapBase + 8 * xs.length,
      xs.length, xs.length, y, r] (fun _ => 0) := by rw [← hs0, initState, hfw]
  have hmem0 : s0.mem = listMem heapBase heap tabMem := by rw [← hs0, initState]
  have htrap0 : s0.trap = false := by rw [← hs0, initState]
  have f0 : s0.frame.rd 0 = heapBase := by
    rw [hfr]; exact listMem_rd 0 _ _ 0 (by show 0 < 8; omega)
  have f8 : s0.frame.rd 8 = xs.length := by
    rw [hfr]; exact listMem_rd 0 _ _ 1 (by show 1 < 8; omega)
  have f24 : s0.frame.rd 24 = heapBase + 8 * xs.length := by
    rw [hfr]; exact listMem_rd 0 _ _ 3 (by show 3 < 8; omega)
  have f48 : s0.frame.rd 48 = y := by
    rw [hfr]; exact listMem_rd 0 _ _ 6 (by show 6 < 8; omega)
  have f56 : s0.frame.rd 56 = r := by
    rw [hfr]; exact listMem_rd 0 _ _ 7 (by show 7 < 8; omega)
  have hbase : heapBase = 16777216 := rfl
  have hx : ∀ j, j < xs.length → s0.mem.rd (heapBase + 8 * xs.length + 8 * j) = xs.getD j 0 := by
    intro j hj
    rw [hmem0, show heapBase + 8 * xs.length + 8 * j = heapBase + 8 * (xs.length + j) by omega,
      listMem_rd _ _ _ _ (by omega), ← hh, zeros_append_getD]
  obtain ⟨s', hrun, hfr', htrap', hz, -⟩ := mulAdd10VWW_correct s0 xs y r heapBase (heapBase + 8 * xs.length)
    f0 f8 f24 f48 f56 hxs hy hr (by omega) (by omega) (by omega) (Or.inl (by omega)) hx
  have hfuel : fuelFor heap = (xs.length + 2) + (7 * xs.length + 62) := by unfold fuelFor; omega
  unfold callKernel
  rw [hs0, hfuel, run_mono _ _ _ _ _ hrun]
  simp only [htrap', htrap0, Bool.false_eq_true, if_false]
  have hfl : 8 * (frameOf [.slice 0 xs.length, .slice xs.length xs.length, .word y, .word r]).length = 64 := rfl
  have hres : readList s'.frame 64 1 = [(mulAddVWW xs y r).2] := by
    show [s'.frame.rd (64 + 8 * 0)] = _
    rw [hfr', Mem.rd_wr_eq]
  rw [hfl, hres]
  show some ((readList s'.mem heapBase heap.length).take xs.length, (mulAddVWW xs y r).2) = _
  have hz' : (readList s'.mem heapBase heap.length).take xs.length = (mulAddVWW xs y r).1 := by
    apply list_eq_of_getD
    · rw [List.length_take, readList_length, mulAddVWW_length, hhl]; omega
    · intro j hj
      rw [List.length_take, readList_length, hhl] at hj
      have hj' : j < xs.length := by omega
      rw [List.getD_eq_getElem?_getD, List.getElem?_take_of_lt hj', ← List.getD_eq_getElem?_getD,
        readList_getD _ _ _ _ (by omega), hz j hj']
  rw [hz']
end Decimal.Asm
