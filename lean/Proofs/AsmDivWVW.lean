/-
  C07, assembly side: the binary kernel `divWVW` of arith_amd64.s (the only routine of that file the
  library calls: `dec.setNat` → `divWVW(b, 0, b, _DB)`), stated over the blocks REGENERATED from the
  assembly (`DecimalModel/Gen/AsmBig.lean`).

  * Tier B: block lemmas for `divWVW_entry`, `divWVW_L7` (load, DIVQ, store), `divWVW_E7` (i--, JGE)
    and `divWVW_E7_1` (store the remainder, RET);
  * Tier C: `divWVW_correct` — for every length (the vectors lie inside the 64-bit address space:
    `x + 8n ≤ 2^64`, `z + 8n ≤ 2^64`, hence `n ≤ 2^61`), every 64-bit word, `xn < y`, destination
    not below the source inside the overlap (in particular identical) or entirely before it: the
    routine returns after `2n + 3` blocks, DIVQ never traps, `z` holds the quotient words of
    `L0.divWVW x xn y` (the list-level model of `divWVW_g`, DecimalModel/Radix.lean), the result slot
    its remainder, every other memory cell is unchanged;
  * `divWVW_traps`: with `len(z) ≥ 1` and `xn ≥ y` (in particular `y = 0`) the first DIVQ raises #DE
    (Go: run-time panic "integer divide by zero" / "integer overflow"); `divWVW_empty`: with
    `len(z) = 0` no DIVQ is executed and `xn` is returned, whatever `y`;
  * the Go-signature wrappers `asm_divWVW`, `asm_divWVW_inplace` of DecimalModel/AsmRoutinesBig.lean.
-/
import Proofs.AsmWrappers2
import DecimalModel.AsmRoutinesBig
import DecimalModel.Radix

namespace Decimal.AsmBig

open Decimal.Gen (W W_eq)
open Decimal.Asm
open Decimal.Gen.AsmBig

/-! ### What was translated

  The translator selects the routines of arith_amd64.s by use: `divWVW` always, any other routine
  only if non-test Go code of the package refers to it.  These two statements pin the selection: a
  change of the library that starts using another binary kernel changes `routines`/`skipped` and
  breaks them (the new routine would otherwise be translated without any theorem about it). -/

theorem routines_eq : routines = [("divWVW", Lbl.divWVW_entry)] := rfl

theorem skipped_eq : skipped =
    ["mulWW", "divWW", "addVV", "subVV", "addVW", "subVW", "shlVU", "shrVU", "mulAddVWW", "addMulVVW"] := rfl

/-! ### The runner (same lemmas as Proofs/AsmLoops.lean, for `Gen.AsmBig.program`) -/

theorem runB_goto (fuel : Nat) (l l' : Lbl) (s : St) (h : (program l s).2 = Next.goto l') :
    run program (fuel + 1) l s = run program fuel l' (program l s).1 := by
  rw [run_succ]
  generalize program l s = r at h
  obtain ⟨s', n⟩ := r
  simp only at h
  subst h
  rfl

theorem runB_ret (fuel : Nat) (l : Lbl) (s : St) (h : (program l s).2 = Next.ret) :
    run program (fuel + 1) l s = some (program l s).1 := by
  rw [run_succ]
  generalize program l s = r at h
  obtain ⟨s', n⟩ := r
  simp only at h
  subst h
  rfl

/-- more fuel does not change a finished run -/
theorem runB_mono (fuel k : Nat) : ∀ (l : Lbl) (s s' : St),
    run program fuel l s = some s' → run program (fuel + k) l s = some s' := by
  induction fuel with
  | zero => intro l s s' h; rw [run_zero] at h; cases h
  | succ f ih =>
    intro l s s' h
    have e : f + 1 + k = (f + k) + 1 := by omega
    rw [e, run_succ]
    rw [run_succ] at h
    generalize program l s = r at h ⊢
    obtain ⟨s1, n⟩ := r
    cases n with
    | goto l' => exact ih l' s1 s' h
    | ret => exact h

theorem runB_le {f f' : Nat} {l : Lbl} {s s' : St} (h : run program f l s = some s') (hle : f ≤ f') :
    run program f' l s = some s' := by
  have e : f' = f + (f' - f) := by omega
  rw [e]
  exact runB_mono f (f' - f) l s s' h

/-- one block that jumps to `l'`, then the rest -/
theorem runB_step {f : Nat} {l l' : Lbl} {s s' : St} (hn : (program l s).2 = Next.goto l')
    (h : run program f l' (program l s).1 = some s') : run program (f + 1) l s = some s' := by
  rw [runB_goto _ _ _ _ hn]; exact h

/-- a block that returns -/
theorem runB_done {l : Lbl} {s : St} (hn : (program l s).2 = Next.ret) :
    run program 1 l s = some (program l s).1 := runB_ret 0 l s hn

/-! ### Tier B: the blocks -/

/-- entry: loads `z`, `xn` (the running remainder, in DX), `x`, `y` and `i = len(z)` -/
theorem blk_divWVW_entry_spec (s : St) :
    (blk_divWVW_entry s).1.bx = s.frame.rd 8 ∧ (blk_divWVW_entry s).1.dx = s.frame.rd 24 ∧
    (blk_divWVW_entry s).1.r8 = s.frame.rd 32 ∧ (blk_divWVW_entry s).1.r9 = s.frame.rd 56 ∧
    (blk_divWVW_entry s).1.r10 = s.frame.rd 0 ∧
    (blk_divWVW_entry s).1.mem = s.mem ∧ (blk_divWVW_entry s).1.frame = s.frame ∧
    (blk_divWVW_entry s).1.trap = s.trap ∧
    (blk_divWVW_entry s).2 = Next.goto Lbl.divWVW_E7 := by
  refine ⟨?_, ?_, ?_, ?_, ?_, ?_, ?_, ?_, ?_⟩
  all_goals simp only [blk_divWVW_entry]

/-- L7, whatever the operands: bookkeeping, and the trap flag is `old ∨ (y = 0 ∨ r ≥ y)` -/
theorem blk_divWVW_L7_frame (s : St) :
    (blk_divWVW_L7 s).1.bx = s.bx ∧ (blk_divWVW_L7 s).1.r8 = s.r8 ∧ (blk_divWVW_L7 s).1.r9 = s.r9 ∧
    (blk_divWVW_L7 s).1.r10 = s.r10 ∧ (blk_divWVW_L7 s).1.frame = s.frame ∧
    (blk_divWVW_L7 s).1.trap = (s.trap || decide (s.r9 = 0 ∨ s.dx ≥ s.r9)) ∧
    (blk_divWVW_L7 s).2 = Next.goto Lbl.divWVW_E7 := by
  refine ⟨?_, ?_, ?_, ?_, ?_, ?_, ?_⟩
  all_goals simp only [blk_divWVW_L7]

/-- L7, the loop body: `z[i], r = divWW_g(r, x[i], y)` (= `bits.Div`), running remainder in DX;
    with `r < y` DIVQ does not trap and the quotient is the full 64-bit word -/
theorem blk_divWVW_L7_spec (s : St) (x : Nat) (hx : s.mem.rd ((s.r8 + 8 * s.bx) % W) = x)
    (hxb : x < 18446744073709551616) (hr : s.dx < s.r9) :
    (blk_divWVW_L7 s).1.dx = (Decimal.Gen.divWW_g s.dx x s.r9).2 ∧
    (blk_divWVW_L7 s).1.mem = s.mem.wr ((s.r10 + 8 * s.bx) % W) (Decimal.Gen.divWW_g s.dx x s.r9).1 ∧
    (blk_divWVW_L7 s).1.bx = s.bx ∧
    (blk_divWVW_L7 s).1.r8 = s.r8 ∧ (blk_divWVW_L7 s).1.r9 = s.r9 ∧ (blk_divWVW_L7 s).1.r10 = s.r10 ∧
    (blk_divWVW_L7 s).1.frame = s.frame ∧ (blk_divWVW_L7 s).1.trap = s.trap ∧
    (blk_divWVW_L7 s).2 = Next.goto Lbl.divWVW_E7 := by
  have hg : Decimal.Gen.divWW_g s.dx x s.r9 = ((s.dx * W + x) / s.r9, (s.dx * W + x) % s.r9) := rfl
  rw [hg]
  have hc : W * s.dx + x = s.dx * W + x := by rw [Nat.mul_comm]
  have hq : (s.dx * W + x) / s.r9 < W := by
    apply Nat.div_lt_of_lt_mul
    simp only [W_eq]; omega
  obtain ⟨fbx, f8, f9, f10, ffr, ftrap, fnext⟩ := blk_divWVW_L7_frame s
  refine ⟨?_, ?_, fbx, f8, f9, f10, ffr, ?_, fnext⟩
  · simp only [blk_divWVW_L7, hx, hc]
  · simp only [blk_divWVW_L7, hx, hc, Nat.mod_eq_of_lt hq]
  · rw [ftrap]
    have h1 : ¬ s.r9 = 0 := by omega
    have h2 : ¬ s.dx ≥ s.r9 := by omega
    simp only [h1, h2, or_self, decide_false, Bool.or_false]

/-- L7 with `r ≥ y` (in particular `y = 0`): DIVQ raises #DE -/
theorem blk_divWVW_L7_trap (s : St) (hr : s.r9 ≤ s.dx) : (blk_divWVW_L7 s).1.trap = true := by
  rw [(blk_divWVW_L7_frame s).2.2.2.2.2.1]
  have h : s.r9 = 0 ∨ s.dx ≥ s.r9 := Or.inr hr
  simp only [h, decide_true, Bool.or_true]

/-- E7: `i--`, continue while `i ≥ 0` -/
theorem blk_divWVW_E7_spec (s : St) (hbx : s.bx < 9223372036854775808) :
    (blk_divWVW_E7 s).1.bx = (if 1 ≤ s.bx then s.bx - 1 else 18446744073709551615) ∧
    (blk_divWVW_E7 s).1.dx = s.dx ∧
    (blk_divWVW_E7 s).1.r8 = s.r8 ∧ (blk_divWVW_E7 s).1.r9 = s.r9 ∧ (blk_divWVW_E7 s).1.r10 = s.r10 ∧
    (blk_divWVW_E7 s).1.mem = s.mem ∧ (blk_divWVW_E7 s).1.frame = s.frame ∧
    (blk_divWVW_E7 s).1.trap = s.trap ∧
    (blk_divWVW_E7 s).2 = (if 1 ≤ s.bx then Next.goto Lbl.divWVW_L7 else Next.goto Lbl.divWVW_E7_1) := by
  refine ⟨?_, ?_, ?_, ?_, ?_, ?_, ?_, ?_, ?_⟩
  all_goals simp only [blk_divWVW_E7]
  · simp only [W_eq]; split <;> omega
  · rw [jge_sub s.bx 1 _ hbx (by omega) (by simp only [W_eq]; omega)]
    simp only [decide_eq_true_eq]

/-- E7_1: the remainder goes to the result slot -/
theorem blk_divWVW_E7_1_spec (s : St) :
    (blk_divWVW_E7_1 s).1.frame = s.frame.wr 64 s.dx ∧ (blk_divWVW_E7_1 s).1.mem = s.mem ∧
    (blk_divWVW_E7_1 s).1.trap = s.trap ∧ (blk_divWVW_E7_1 s).2 = Next.ret := by
  refine ⟨?_, ?_, ?_, ?_⟩
  all_goals simp only [blk_divWVW_E7_1]

/-! ### The list-level model (`Decimal.L0.divWVWrev`, DecimalModel/Radix.lean) -/

theorem divWVWrev_cons (w : Nat) (ws : List Nat) (y r : Nat) :
    Decimal.L0.divWVWrev (w :: ws) y r =
      ((Decimal.L0.divWVWrev ws y ((r * W + w) % y)).1 ++ [(r * W + w) / y],
       (Decimal.L0.divWVWrev ws y ((r * W + w) % y)).2) := rfl

theorem divWVWrev_length (ws : List Nat) (y : Nat) : ∀ r, (Decimal.L0.divWVWrev ws y r).1.length = ws.length := by
  induction ws with
  | nil => intro r; rfl
  | cons w ws ih =>
    intro r
    rw [divWVWrev_cons]
    simp only [List.length_append, List.length_cons, List.length_nil, ih]

theorem divWVW_length (xs : List Nat) (xn y : Nat) : (Decimal.L0.divWVW xs xn y).1.length = xs.length := by
  unfold Decimal.L0.divWVW
  rw [divWVWrev_length, List.length_reverse]

/-! ### Tier C: the loop and the whole routine -/

/-- The loop `E7 / L7` with `ws.length` words left (`ws`: the remaining words of `x`, most significant
    first), inside vectors of total length `n`. -/
theorem divWVW_loop (y zp xp n : Nat)
    (hxp : xp + 8 * n ≤ 18446744073709551616) (hzp : zp + 8 * n ≤ 18446744073709551616)
    (hal : xp ≤ zp ∨ zp + 8 * n ≤ xp) :
    ∀ (ws : List Nat) (s : St) (r : Nat),
      (∀ w, w ∈ ws → w < 18446744073709551616) → r < y → ws.length ≤ n →
      s.bx = ws.length → s.dx = r → s.r8 = xp → s.r10 = zp → s.r9 = y →
      HoldsR s.mem xp ws →
      ∃ s', run program (2 * ws.length + 2) Lbl.divWVW_E7 s = some s' ∧
        s'.frame = s.frame.wr 64 (Decimal.L0.divWVWrev ws y r).2 ∧ s'.trap = s.trap ∧
        Wrote s.mem s'.mem zp 0 (Decimal.L0.divWVWrev ws y r).1 := by
  intro ws
  induction ws with
  | nil =>
    intro s r _ _ _ hbx hdx _ _ _ _
    obtain ⟨ebx, edx, e8, e9, e10, emem, efr, etrap, enext⟩ :=
      blk_divWVW_E7_spec s (by rw [hbx]; simp only [List.length_nil]; omega)
    have hprog : program Lbl.divWVW_E7 s = blk_divWVW_E7 s := rfl
    have hnext : (program Lbl.divWVW_E7 s).2 = Next.goto Lbl.divWVW_E7_1 := by
      rw [hprog, enext, if_neg (by rw [hbx]; simp only [List.length_nil]; omega)]
    obtain ⟨xfr, xmem, xtrap, xnext⟩ := blk_divWVW_E7_1_spec (blk_divWVW_E7 s).1
    refine ⟨(blk_divWVW_E7_1 (blk_divWVW_E7 s).1).1, ?_, ?_, ?_, ?_⟩
    · exact runB_step hnext (by rw [hprog]; exact runB_done (l := Lbl.divWVW_E7_1) xnext)
    · rw [xfr, efr, edx, hdx]; rfl
    · rw [xtrap, etrap]
    · rw [xmem, emem]; exact Wrote.nil _ _ _
  | cons w rest ih =>
    intro s r hws hr hlen hbx hdx hr8 hr10 hr9 hx
    have hwb : w < 18446744073709551616 := hws w (List.mem_cons_self ..)
    have hk : (w :: rest).length = rest.length + 1 := rfl
    rw [hk] at hbx hlen
    -- E7: i-- and enter the body
    obtain ⟨ebx, edx, e8, e9, e10, emem, efr, etrap, enext⟩ := blk_divWVW_E7_spec s (by omega)
    rw [if_pos (by omega)] at ebx enext
    have hprogE : program Lbl.divWVW_E7 s = blk_divWVW_E7 s := rfl
    have hnextE : (program Lbl.divWVW_E7 s).2 = Next.goto Lbl.divWVW_L7 := by rw [hprogE, enext]
    -- L7 on the state after E7
    have hxa : ((blk_divWVW_E7 s).1.r8 + 8 * (blk_divWVW_E7 s).1.bx) % W = xp + 8 * rest.length := by
      rw [e8, ebx, hr8, hbx]; simp only [W_eq]; omega
    have hza : ((blk_divWVW_E7 s).1.r10 + 8 * (blk_divWVW_E7 s).1.bx) % W = zp + 8 * rest.length := by
      rw [e10, ebx, hr10, hbx]; simp only [W_eq]; omega
    have hxw : (blk_divWVW_E7 s).1.mem.rd (((blk_divWVW_E7 s).1.r8 + 8 * (blk_divWVW_E7 s).1.bx) % W) = w := by
      rw [hxa, emem]; exact hx.head
    have hb := blk_divWVW_L7_spec (blk_divWVW_E7 s).1 w hxw hwb (by rw [edx, e9, hdx, hr9]; exact hr)
    have hg : Decimal.Gen.divWW_g r w y = ((r * W + w) / y, (r * W + w) % y) := rfl
    rw [edx, e9, hdx, hr9, hg, hza] at hb
    simp only [] at hb
    obtain ⟨bdx, bmem, bbx, b8, b9, b10, bfr, btrap, bnext⟩ := hb
    have hprogL : program Lbl.divWVW_L7 (blk_divWVW_E7 s).1 = blk_divWVW_L7 (blk_divWVW_E7 s).1 := rfl
    have hnextL : (program Lbl.divWVW_L7 (blk_divWVW_E7 s).1).2 = Next.goto Lbl.divWVW_E7 := by
      rw [hprogL, bnext]
    have hy0 : 0 < y := by omega
    -- induction hypothesis
    obtain ⟨s', hrun, hfr, htrap, hw⟩ := ih (blk_divWVW_L7 (blk_divWVW_E7 s).1).1 ((r * W + w) % y)
      (fun z hz => hws z (List.mem_cons_of_mem _ hz)) (Nat.mod_lt _ hy0) (by omega)
      (by rw [bbx, ebx, hbx]; omega) bdx (by rw [b8, e8, hr8]) (by rw [b10, e10, hr10]) b9
      (by rw [bmem, emem]; exact hx.tail.wr _ _ (by intro j hj; omega))
    rw [divWVWrev_cons]
    refine ⟨s', ?_, ?_, ?_, ?_⟩
    · have e : 2 * (w :: rest).length + 2 = (2 * rest.length + 2) + 1 + 1 := by rw [hk]; omega
      rw [e]
      exact runB_step hnextE (by rw [hprogE]; exact runB_step hnextL (by rw [hprogL]; exact hrun))
    · rw [hfr, bfr, efr]
    · rw [htrap, btrap, etrap]
    · rw [bmem, emem] at hw
      exact Wrote.snoc (divWVWrev_length rest y _) hw

/-- **`divWVW`, every length** (`n ≤ 2^61` follows from `hxp`).  Frame describing `divWVW(z, xn, x, y)` with `len(z) = len(x) = n`;
    `xs` are the words of `x` (little-endian, any 64-bit values), `xn < y`; `z` not below `x` inside
    the overlap (in particular `z = x`, as `dec.setNat` calls it) or entirely before it.  The routine
    returns after `2n + 3` blocks, DIVQ never traps, `z` holds the quotient words of
    `L0.divWVW xs xn y` and the result slot its remainder; nothing else in memory changes. -/
theorem divWVW_correct (s : St) (xs : List Nat) (xn y zp xp : Nat)
    (hf0 : s.frame.rd 0 = zp) (hf8 : s.frame.rd 8 = xs.length) (hf24 : s.frame.rd 24 = xn)
    (hf32 : s.frame.rd 32 = xp) (hf56 : s.frame.rd 56 = y)
    (hxs : ∀ x, x ∈ xs → x < 18446744073709551616) (hr : xn < y)
    (hxp : xp + 8 * xs.length ≤ 18446744073709551616) (hzp : zp + 8 * xs.length ≤ 18446744073709551616)
    (hal : xp ≤ zp ∨ zp + 8 * xs.length ≤ xp)
    (hmem : ∀ j, j < xs.length → s.mem.rd (xp + 8 * j) = xs.getD j 0) :
    ∃ s', run program (2 * xs.length + 3) Lbl.divWVW_entry s = some s' ∧
      s'.frame = s.frame.wr 64 (Decimal.L0.divWVW xs xn y).2 ∧ s'.trap = s.trap ∧
      (∀ j, j < xs.length → s'.mem.rd (zp + 8 * j) = (Decimal.L0.divWVW xs xn y).1.getD j 0) ∧
      (∀ a, (∀ j, j < xs.length → a ≠ zp + 8 * j) → s'.mem.rd a = s.mem.rd a) := by
  obtain ⟨ebx, edx, e8, e9, e10, emem, efr, etrap, enext⟩ := blk_divWVW_entry_spec s
  have hprog : program Lbl.divWVW_entry s = blk_divWVW_entry s := rfl
  have hnext : (program Lbl.divWVW_entry s).2 = Next.goto Lbl.divWVW_E7 := by rw [hprog, enext]
  have hlr : xs.reverse.length = xs.length := List.length_reverse
  have hl := divWVW_loop y zp xp xs.length hxp hzp hal xs.reverse (blk_divWVW_entry s).1 xn
    (fun w hw => hxs w (List.mem_reverse.mp hw)) hr (by rw [hlr]; exact Nat.le_refl _)
    (by rw [ebx, hf8, hlr]) (by rw [edx, hf24]) (by rw [e8, hf32]) (by rw [e10, hf0]) (by rw [e9, hf56])
    (by rw [emem]; exact (Holds.of_explicit hmem).toR)
  rw [hlr] at hl
  obtain ⟨s', hrun, hfr, htrap, hw⟩ := hl
  rw [emem] at hw
  obtain ⟨hz, hother⟩ := Wrote.explicit hw (divWVW_length xs xn y)
  refine ⟨s', ?_, ?_, ?_, hz, hother⟩
  · exact runB_step hnext (by rw [hprog]; exact hrun)
  · rw [hfr, efr]; rfl
  · rw [htrap, etrap]

/-- `len(z) = 0`: no DIVQ is executed; `xn` is returned whatever `y` (also `y = 0`, `xn ≥ y`) -/
theorem divWVW_empty (s : St) (hf8 : s.frame.rd 8 = 0) :
    ∃ s', run program 3 Lbl.divWVW_entry s = some s' ∧
      s'.frame = s.frame.wr 64 (s.frame.rd 24) ∧ s'.trap = s.trap ∧ s'.mem = s.mem := by
  obtain ⟨ebx, edx, e8, e9, e10, emem, efr, etrap, enext⟩ := blk_divWVW_entry_spec s
  have hprog : program Lbl.divWVW_entry s = blk_divWVW_entry s := rfl
  have hnext : (program Lbl.divWVW_entry s).2 = Next.goto Lbl.divWVW_E7 := by rw [hprog, enext]
  have hbx : (blk_divWVW_entry s).1.bx = 0 := by rw [ebx, hf8]
  obtain ⟨_, xdx, _, _, _, xmem, xfr, xtrap, xnext⟩ := blk_divWVW_E7_spec (blk_divWVW_entry s).1 (by omega)
  have hprogE : program Lbl.divWVW_E7 (blk_divWVW_entry s).1 = blk_divWVW_E7 (blk_divWVW_entry s).1 := rfl
  have hnextE : (program Lbl.divWVW_E7 (blk_divWVW_entry s).1).2 = Next.goto Lbl.divWVW_E7_1 := by
    rw [hprogE, xnext, if_neg (by omega)]
  obtain ⟨rfr, rmem, rtrap, rnext⟩ := blk_divWVW_E7_1_spec (blk_divWVW_E7 (blk_divWVW_entry s).1).1
  refine ⟨(blk_divWVW_E7_1 (blk_divWVW_E7 (blk_divWVW_entry s).1).1).1, ?_, ?_, ?_, ?_⟩
  · exact runB_step hnext (by
      rw [hprog]
      exact runB_step hnextE (by rw [hprogE]; exact runB_done (l := Lbl.divWVW_E7_1) rnext))
  · rw [rfr, xfr, efr, xdx, edx]
  · rw [rtrap, xtrap, etrap]
  · rw [rmem, xmem, emem]

/-- once the trap flag is set the loop still runs to the end (the model keeps executing; the CPU
    would have raised #DE at the first DIVQ) and the flag stays set -/
theorem divWVW_loop_trap : ∀ (k : Nat) (s : St), s.bx = k → k < 9223372036854775808 → s.trap = true →
    ∃ s', run program (2 * k + 2) Lbl.divWVW_E7 s = some s' ∧ s'.trap = true := by
  intro k
  induction k with
  | zero =>
    intro s hbx _ ht
    obtain ⟨_, _, _, _, _, _, _, etrap, enext⟩ := blk_divWVW_E7_spec s (by omega)
    have hprog : program Lbl.divWVW_E7 s = blk_divWVW_E7 s := rfl
    have hnext : (program Lbl.divWVW_E7 s).2 = Next.goto Lbl.divWVW_E7_1 := by
      rw [hprog, enext, if_neg (by omega)]
    obtain ⟨_, _, xtrap, xnext⟩ := blk_divWVW_E7_1_spec (blk_divWVW_E7 s).1
    refine ⟨(blk_divWVW_E7_1 (blk_divWVW_E7 s).1).1, ?_, ?_⟩
    · exact runB_step hnext (by rw [hprog]; exact runB_done (l := Lbl.divWVW_E7_1) xnext)
    · rw [xtrap, etrap, ht]
  | succ k ih =>
    intro s hbx hk ht
    obtain ⟨ebx, _, _, _, _, _, _, etrap, enext⟩ := blk_divWVW_E7_spec s (by omega)
    rw [if_pos (by omega)] at ebx enext
    have hprogE : program Lbl.divWVW_E7 s = blk_divWVW_E7 s := rfl
    have hnextE : (program Lbl.divWVW_E7 s).2 = Next.goto Lbl.divWVW_L7 := by rw [hprogE, enext]
    obtain ⟨bbx, _, _, _, _, btrap, bnext⟩ := blk_divWVW_L7_frame (blk_divWVW_E7 s).1
    have hprogL : program Lbl.divWVW_L7 (blk_divWVW_E7 s).1 = blk_divWVW_L7 (blk_divWVW_E7 s).1 := rfl
    have hnextL : (program Lbl.divWVW_L7 (blk_divWVW_E7 s).1).2 = Next.goto Lbl.divWVW_E7 := by
      rw [hprogL, bnext]
    obtain ⟨s', hrun, ht'⟩ := ih (blk_divWVW_L7 (blk_divWVW_E7 s).1).1 (by rw [bbx, ebx, hbx]; omega) (by omega)
      (by rw [btrap, etrap, ht]; rfl)
    refine ⟨s', ?_, ht'⟩
    have e : 2 * (k + 1) + 2 = (2 * k + 2) + 1 + 1 := by omega
    rw [e]
    exact runB_step hnextE (by rw [hprogE]; exact runB_step hnextL (by rw [hprogL]; exact hrun))

/-- **`divWVW` with `xn ≥ y`** (in particular `y = 0`) and at least one word: the first DIVQ raises
    #DE — the model runs to the end with the trap flag set (Go: the run-time panics "integer divide
    by zero" for `y = 0`, "integer overflow" for `0 < y ≤ xn`; the portable `divWVW_g` panics in
    `bits.Div` under the same condition). -/
theorem divWVW_traps (s : St) (n : Nat) (hf8 : s.frame.rd 8 = n) (hn0 : 0 < n) (hn : n < 9223372036854775808)
    (hge : s.frame.rd 56 ≤ s.frame.rd 24) :
    ∃ s', run program (2 * n + 3) Lbl.divWVW_entry s = some s' ∧ s'.trap = true := by
  obtain ⟨ebx, edx, _, e9, _, _, _, _, enext⟩ := blk_divWVW_entry_spec s
  have hprog : program Lbl.divWVW_entry s = blk_divWVW_entry s := rfl
  have hnext : (program Lbl.divWVW_entry s).2 = Next.goto Lbl.divWVW_E7 := by rw [hprog, enext]
  have hbx : (blk_divWVW_entry s).1.bx = n := by rw [ebx, hf8]
  obtain ⟨xbx, xdx, _, x9, _, _, _, _, xnext⟩ := blk_divWVW_E7_spec (blk_divWVW_entry s).1 (by omega)
  rw [if_pos (by omega)] at xbx xnext
  have hprogE : program Lbl.divWVW_E7 (blk_divWVW_entry s).1 = blk_divWVW_E7 (blk_divWVW_entry s).1 := rfl
  have hnextE : (program Lbl.divWVW_E7 (blk_divWVW_entry s).1).2 = Next.goto Lbl.divWVW_L7 := by
    rw [hprogE, xnext]
  have htrap := blk_divWVW_L7_trap (blk_divWVW_E7 (blk_divWVW_entry s).1).1 (by rw [x9, xdx, e9, edx]; exact hge)
  obtain ⟨bbx, _, _, _, _, _, bnext⟩ := blk_divWVW_L7_frame (blk_divWVW_E7 (blk_divWVW_entry s).1).1
  have hprogL : program Lbl.divWVW_L7 (blk_divWVW_E7 (blk_divWVW_entry s).1).1 =
      blk_divWVW_L7 (blk_divWVW_E7 (blk_divWVW_entry s).1).1 := rfl
  have hnextL : (program Lbl.divWVW_L7 (blk_divWVW_E7 (blk_divWVW_entry s).1).1).2 = Next.goto Lbl.divWVW_E7 := by
    rw [hprogL, bnext]
  obtain ⟨s', hrun, ht'⟩ := divWVW_loop_trap (n - 1) (blk_divWVW_L7 (blk_divWVW_E7 (blk_divWVW_entry s).1).1).1
    (by rw [bbx, xbx, hbx]) (by omega) htrap
  refine ⟨s', ?_, ht'⟩
  have e : 2 * n + 3 = (2 * (n - 1) + 2) + 1 + 1 + 1 := by omega
  rw [e]
  exact runB_step hnext (by
    rw [hprog]
    exact runB_step hnextE (by rw [hprogE]; exact runB_step hnextL (by rw [hprogL]; exact hrun)))

/-! ### The Go-signature wrappers -/

/-- the argument frame of `divWVW(z []Word, xn Word, x []Word, y Word) (r Word)` -/
theorem initState_frameBig (n off xn y : Nat) (heap : List Nat) :
    (initState [.slice 0 n, .word xn, .slice off n, .word y] heap).frame.rd 0 = heapBase + 8 * 0 ∧
    (initState [.slice 0 n, .word xn, .slice off n, .word y] heap).frame.rd 8 = n ∧
    (initState [.slice 0 n, .word xn, .slice off n, .word y] heap).frame.rd 24 = xn ∧
    (initState [.slice 0 n, .word xn, .slice off n, .word y] heap).frame.rd 32 = heapBase + 8 * off ∧
    (initState [.slice 0 n, .word xn, .slice off n, .word y] heap).frame.rd 56 = y ∧
    (initState [.slice 0 n, .word xn, .slice off n, .word y] heap).trap = false := by
  have hfr : (initState [.slice 0 n, .word xn, .slice off n, .word y] heap).frame =
      listMem 0 [heapBase + 8 * 0, n, n, xn, heapBase + 8 * off, n, n, y] (fun _ => 0) := rfl
  rw [hfr]
  exact ⟨listMem_rd 0 _ _ 0 (by show 0 < 8; omega), listMem_rd 0 _ _ 1 (by show 1 < 8; omega),
    listMem_rd 0 _ _ 3 (by show 3 < 8; omega), listMem_rd 0 _ _ 4 (by show 4 < 8; omega),
    listMem_rd 0 _ _ 7 (by show 7 < 8; omega), rfl⟩

/-- read-back: from the final state of the runner to the wrapper's result -/
theorem callKernelBig_vec (n off xn y : Nat) (heap : List Nat) (res : List Nat × Nat) (fuel : Nat)
    (hfuel : fuel ≤ fuelFor heap) (hlen : n ≤ heap.length) (hres : res.1.length = n)
    (h : ∃ s', run program fuel Lbl.divWVW_entry (initState [.slice 0 n, .word xn, .slice off n, .word y] heap) = some s' ∧
      s'.frame = (initState [.slice 0 n, .word xn, .slice off n, .word y] heap).frame.wr 64 res.2 ∧
      s'.trap = (initState [.slice 0 n, .word xn, .slice off n, .word y] heap).trap ∧
      (∀ j, j < n → s'.mem.rd (heapBase + 8 * 0 + 8 * j) = res.1.getD j 0)) :
    vecResult n (callKernelBig .divWVW_entry [.slice 0 n, .word xn, .slice off n, .word y] 1 heap) = some res := by
  obtain ⟨s', hrun, hfr', htrap', hz⟩ := h
  unfold callKernelBig
  rw [runB_le hrun hfuel]
  have htrap0 : (initState [.slice 0 n, .word xn, .slice off n, .word y] heap).trap = false := rfl
  simp only [htrap', htrap0, Bool.false_eq_true, if_false]
  have hfl : 8 * (frameOf [.slice 0 n, .word xn, .slice off n, .word y]).length = 64 := rfl
  have hres1 : readList s'.frame 64 1 = [res.2] := by
    show [s'.frame.rd (64 + 8 * 0)] = _
    rw [hfr', Mem.rd_wr_eq]
  rw [hfl, hres1]
  show some ((readList s'.mem heapBase heap.length).take n, res.2) = some res
  have hz' : (readList s'.mem heapBase heap.length).take n = res.1 := by
    apply list_eq_of_getD
    · rw [List.length_take, readList_length, hres]; omega
    · intro j hj
      rw [List.length_take, readList_length] at hj
      have hj' : j < n := by omega
      have := hz j hj'
      rw [Nat.mul_zero, Nat.add_zero] at this
      rw [List.getD_eq_getElem?_getD, List.getElem?_take_of_lt hj', ← List.getD_eq_getElem?_getD,
        readList_getD _ _ _ _ (by omega), this]
  rw [hz']

/-- a run that ends with the trap flag set is reported as `none` by the wrapper -/
theorem callKernelBig_trap (args : List Arg) (heap : List Nat) (n fuel : Nat) (hfuel : fuel ≤ fuelFor heap)
    (h : ∃ s', run program fuel Lbl.divWVW_entry (initState args heap) = some s' ∧ s'.trap = true) :
    vecResult n (callKernelBig .divWVW_entry args 1 heap) = none := by
  obtain ⟨s', hrun, ht⟩ := h
  unfold callKernelBig
  rw [runB_le hrun hfuel]
  simp only [ht, if_true]
  rfl

/-- `divWVW(z, xn, x, y)` through the Go-signature wrapper, `z` disjoint from `x`: the assembly
    computes the list-level model `L0.divWVW` of `divWVW_g` (quotient words and remainder), for every
    length, every 64-bit word, every `xn < y`. -/
theorem asm_divWVW_eq (xs : List Nat) (xn y : Nat) (hxs : ∀ x, x ∈ xs → x < 18446744073709551616)
    (hr : xn < y) (hn : xs.length < 1000000000000000) :
    asm_divWVW xs xn y = some (Decimal.L0.divWVW xs xn y) := by
  unfold asm_divWVW
  simp only []
  have hh : heapBase = 16777216 := rfl
  obtain ⟨f0, f8, f24, f32, f56, ft⟩ := initState_frameBig xs.length xs.length xn y (zeros xs.length ++ xs)
  obtain ⟨s', hrun, hfr, htrap, hz, -⟩ := divWVW_correct _ xs xn y _ _ f0 f8 f24 f32 f56 hxs hr (by omega)
    (by omega) (Or.inr (by omega)) (initState_x_disjoint _ xs)
  exact callKernelBig_vec _ _ _ _ _ _ (2 * xs.length + 3)
    (by unfold fuelFor; rw [List.length_append, zeros_length]; omega)
    (by rw [List.length_append, zeros_length]; omega) (divWVW_length xs xn y) ⟨s', hrun, hfr, htrap, hz⟩

/-- the same in place (`z = x`), as `dec.setNat` calls it -/
theorem asm_divWVW_inplace_eq (xs : List Nat) (xn y : Nat) (hxs : ∀ x, x ∈ xs → x < 18446744073709551616)
    (hr : xn < y) (hn : xs.length < 1000000000000000) :
    asm_divWVW_inplace xs xn y = some (Decimal.L0.divWVW xs xn y) := by
  unfold asm_divWVW_inplace
  simp only []
  have hh : heapBase = 16777216 := rfl
  obtain ⟨f0, f8, f24, f32, f56, ft⟩ := initState_frameBig xs.length 0 xn y xs
  obtain ⟨s', hrun, hfr, htrap, hz, -⟩ := divWVW_correct _ xs xn y _ _ f0 f8 f24 f32 f56 hxs hr (by omega)
    (by omega) (Or.inl (Nat.le_refl _)) (initState_x_inplace _ xs)
  exact callKernelBig_vec _ _ _ _ _ _ (2 * xs.length + 3) (by unfold fuelFor; omega)
    (Nat.le_refl _) (divWVW_length xs xn y) ⟨s', hrun, hfr, htrap, hz⟩

/-- `xn ≥ y` (in particular `y = 0`) with a non-empty vector: #DE, the wrapper returns `none` -/
theorem asm_divWVW_traps (xs : List Nat) (xn y : Nat) (hne : xs ≠ []) (hge : y ≤ xn)
    (hn : xs.length < 1000000000000000) : asm_divWVW xs xn y = none := by
  unfold asm_divWVW
  simp only []
  have hpos : 0 < xs.length := List.length_pos_iff.mpr hne
  obtain ⟨f0, f8, f24, f32, f56, ft⟩ := initState_frameBig xs.length xs.length xn y (zeros xs.length ++ xs)
  exact callKernelBig_trap _ _ _ (2 * xs.length + 3)
    (by unfold fuelFor; rw [List.length_append, zeros_length]; omega)
    (divWVW_traps _ xs.length f8 hpos (by omega) (by rw [f56, f24]; exact hge))

theorem asm_divWVW_inplace_traps (xs : List Nat) (xn y : Nat) (hne : xs ≠ []) (hge : y ≤ xn)
    (hn : xs.length < 1000000000000000) : asm_divWVW_inplace xs xn y = none := by
  unfold asm_divWVW_inplace
  simp only []
  have hpos : 0 < xs.length := List.length_pos_iff.mpr hne
  obtain ⟨f0, f8, f24, f32, f56, ft⟩ := initState_frameBig xs.length 0 xn y xs
  exact callKernelBig_trap _ _ _ (2 * xs.length + 3) (by unfold fuelFor; omega)
    (divWVW_traps _ xs.length f8 hpos (by omega) (by rw [f56, f24]; exact hge))

/-- the empty vector: `xn` comes back, whatever `y` -/
theorem asm_divWVW_nil (xn y : Nat) : asm_divWVW [] xn y = some ([], xn) := by
  unfold asm_divWVW
  simp only []
  obtain ⟨f0, f8, f24, f32, f56, ft⟩ := initState_frameBig 0 0 xn y (zeros 0 ++ [])
  obtain ⟨s', hrun, hfr, htrap, hmem⟩ := divWVW_empty (initState [.slice 0 0, .word xn, .slice 0 0, .word y] (zeros 0 ++ [])) f8
  rw [f24] at hfr
  exact callKernelBig_vec 0 0 xn y (zeros 0 ++ []) ([], xn) 3 (by unfold fuelFor; omega) (Nat.zero_le _) rfl
    ⟨s', hrun, hfr, htrap, by intro j hj; omega⟩

end Decimal.AsmBig
