/-
  Composition lemmas for C19b: the context operations (`step w (.cAdd …)` …) composed with the
  correctness theorems of the wrapped Decimal methods (C01 `add_correct` …, C03 `fma_correct`,
  C05 `sqrt_correct`).

  Vocabulary
    * `Ctx.Valid c`   : `1 ≤ c.prec ≤ MaxPrec` (what `New` / `SetPrec` establish, C19
                        `ctxSetPrecVal_range`);
    * `ctxOpnd w z i` : the operand named `i` as the wrapped method of a context operation with
                        receiver `z` sees it: variable `i`, except that the receiver itself is read
                        *after* the context's precision and mode were applied to it.
-/
import Proofs.Context
import Properties.C01
import Properties.C03
import Properties.C03b
import Properties.C05
import Proofs.Conv

namespace Decimal

open Spec

/-- The range of precisions a context can hold. -/
def Ctx.Valid (c : Ctx) : Prop := 1 ≤ c.prec ∧ c.prec ≤ MaxPrec

theorem Ctx.new_valid (p : Nat) (m : Mode) : (Ctx.new p m).Valid := by
  unfold Ctx.new Ctx.Valid ctxSetPrecVal
  have h34 : DefaultPrec = 34 := rfl
  have hM : MaxPrec = 4294967295 := rfl
  simp only [h34, hM]
  repeat' split
  all_goals simp_all
  all_goals omega

/-- Operand `i` of a context operation whose receiver is `z`. -/
def ctxOpnd (w : World) (z i : Nat) : Dec :=
  if i == z then w.ctx.apply (w.get z) else w.get i

theorem ctxOpnd_ne (w : World) {z i : Nat} (h : i ≠ z) : ctxOpnd w z i = w.get i := by
  simp [ctxOpnd, h]

theorem ctxOpnd_eq_opnd (w : World) (z i : Nat) :
    ctxOpnd w z i = opnd (w.ctx.apply (w.get z)) (w.get i) (i == z) := by
  unfold ctxOpnd opnd; rfl

/-! ### `apply` is `SetMode` then `SetPrec` -/

theorem apply_eq_setPrec (c : Ctx) (z : Dec) (hc : c.Valid) :
    c.apply z = setPrec (setMode z c.mode) c.prec := by
  obtain ⟨h1, h2⟩ := hc
  unfold Ctx.apply
  simp only
  split
  · rfl
  · next h =>
    simp only [bne_iff_ne, ne_eq, Decidable.not_not] at h
    have h0 : (c.prec == 0) = false := by simp; omega
    have hgt : ¬ c.prec > MaxPrec := by omega
    have hlt : ¬ c.prec < (setMode z c.mode).prec := by omega
    unfold setPrec
    simp only [h0, hgt, Bool.false_eq_true, if_false]
    have : ¬ (c.prec < z.prec) := by
      have : (setMode z c.mode).prec = z.prec := rfl
      omega
    simp only [setMode, this, if_false]
    simp only [setMode] at h
    rw [← h]

/-- The receiver after `apply` when its precision does not exceed the context's: only the
    attributes change. -/
theorem apply_no_round (c : Ctx) (z : Dec) (hc : c.Valid) (hp : z.prec ≤ c.prec) :
    c.apply z = { z with mode := c.mode, acc := Exact, prec := c.prec } := by
  obtain ⟨h1, h2⟩ := hc
  rw [apply_eq_setPrec c z ⟨h1, h2⟩]
  have h0 : (c.prec == 0) = false := by simp; omega
  have hgt : ¬ c.prec > MaxPrec := by omega
  have hlt : ¬ c.prec < z.prec := by omega
  simp only [setPrec, setMode, h0, hgt, hlt, Bool.false_eq_true, if_false]

theorem finCanon_apply_no_round (c : Ctx) (z : Dec) (hc : c.Valid) (hp : z.prec ≤ c.prec)
    (hz : FinCanon z) : FinCanon (c.apply z) ∧ ofDec (c.apply z) = ofDec z := by
  rw [apply_no_round c z hc hp]
  obtain ⟨a, b, d, e, f, g⟩ := hz
  exact ⟨⟨a, b, d, hc.1, f, g⟩, rfl⟩

/-! ### Aliasing flags on a receiver whose precision is set -/

theorem opnd_false (z x : Dec) : opnd z x false = x := rfl
theorem opnd_true (z x : Dec) : opnd z x true = z := rfl

theorem add_opnd (z x y : Dec) (sx sy : Bool) (hp : z.prec ≠ 0) :
    add z x y sx sy = add z (opnd z x sx) (opnd z y sy) false false := by
  have hpr : ∀ q, prologue z q = z := fun q => prologue_of_nonzero hp
  cases sx <;> cases sy <;> simp only [opnd_false, opnd_true]
  · rw [add_alias_y', hpr]
  · rw [add_alias_x', hpr]
  · rw [add_alias_xy', hpr]

theorem sub_opnd (z x y : Dec) (sx sy : Bool) (hp : z.prec ≠ 0) :
    sub z x y sx sy = sub z (opnd z x sx) (opnd z y sy) false false := by
  have hpr : ∀ q, prologue z q = z := fun q => prologue_of_nonzero hp
  cases sx <;> cases sy <;> simp only [opnd_false, opnd_true]
  · rw [sub_alias_y', hpr]
  · rw [sub_alias_x', hpr]
  · rw [sub_alias_xy', hpr]

theorem mul_opnd (z x y : Dec) (sx sy : Bool) (hp : z.prec ≠ 0) :
    mul z x y sx sy = mul z (opnd z x sx) (opnd z y sy) false false := by
  have hpr : ∀ q, prologue z q = z := fun q => prologue_of_nonzero hp
  cases sx <;> cases sy <;> simp only [opnd_false, opnd_true]
  · rw [mul_alias_y', hpr]
  · rw [mul_alias_x', hpr]
  · rw [mul_alias_xy', hpr]

theorem quo_opnd (z x y : Dec) (sx sy : Bool) (hp : z.prec ≠ 0) :
    quo z x y sx sy = quo z (opnd z x sx) (opnd z y sy) false false := by
  have hpr : ∀ q, prologue z q = z := fun q => prologue_of_nonzero hp
  cases sx <;> cases sy <;> simp only [opnd_false, opnd_true]
  · rw [quo_alias_y', hpr]
  · rw [quo_alias_x', hpr]
  · rw [quo_alias_xy', hpr]

theorem fma_opnd (z x y u : Dec) (sx sy su : Bool) (hp : z.prec ≠ 0) :
    fma z x y u sx sy su = fma z (opnd z x sx) (opnd z y sy) (opnd z u su) sx sy su := by
  have h0 : (z.prec == 0) = false := by simpa using hp
  unfold fma
  simp only [h0, Bool.false_eq_true, if_false]
  cases sx <;> cases sy <;> cases su <;> rfl

theorem sqrt_opnd (z x : Dec) (same : Bool) (hp : z.prec ≠ 0) :
    sqrt z x same = sqrt z (opnd z x same) false := by
  cases same
  · rfl
  · rw [sqrt_alias_prologue, prologue_of_nonzero hp]; rfl

/-! ### What a successful context step does to the world -/

theorem World.get_put_ne (w : World) (i j : Nat) (d : Dec) (h : j ≠ i) : (w.put i d).get j = w.get j := by
  unfold World.put World.get
  simp only [List.getD_eq_getElem?_getD]
  rw [List.getElem?_set_ne (by omega)]

theorem guarded_of_ok (c : Ctx) (z : Dec) (op : Dec → Dec × Outcome) (h : c.err = false)
    (hok : (op (c.apply z)).2 = .ok) : c.guarded z op = ((op (c.apply z)).1, c, .ok) :=
  guarded_ok c z _ op h (Prod.ext rfl hok)

/-- The facts read off a step that stored `d` in `z` and returned normally without latching. -/
theorem step_put_facts {w : World} {op : Op} {z : Nat} {d : Dec} (hz : z < w.vars.length)
    (hs : step w op = (w.put z d, .ok, false)) :
    (step w op).1.get z = d ∧ (step w op).2.1 = .ok ∧ (step w op).1.ctx = w.ctx ∧
      ∀ i, i ≠ z → (step w op).1.get i = w.get i := by
  rw [hs]
  exact ⟨World.get_put_self w z d hz, rfl, rfl, fun i hi => World.get_put_ne w z i d hi⟩

/-! ### Add, Sub, Mul, Quo through a context -/

theorem step_cAdd (w : World) (z x y : Nat) (h : w.ctx.err = false)
    (hok : (add (w.ctx.apply (w.get z)) (w.get x) (w.get y) (x == z) (y == z)).2 = .ok) :
    step w (.cAdd z x y) =
      (w.put z (add (w.ctx.apply (w.get z)) (w.get x) (w.get y) (x == z) (y == z)).1, .ok, false) := by
  have hg := guarded_of_ok w.ctx (w.get z) (fun za => add za (w.get x) (w.get y) (x == z) (y == z)) h hok
  simp only [step, hg]
  rfl

/-- `ctx.Add(z, x, y)`, any aliasing: the operands as the method sees them (`ctxOpnd`), rounded
    once to the context's precision and mode. -/
theorem ctx_add_correct_gen (w : World) (z x y : Nat) (h : w.ctx.err = false) (hc : w.ctx.Valid)
    (hz : z < w.vars.length) (hx : FinCanon (ctxOpnd w z x)) (hy : FinCanon (ctxOpnd w z y)) :
    ∃ r, Spec.addSV w.ctx.mode w.ctx.prec (ofDec (ctxOpnd w z x)) (ofDec (ctxOpnd w z y)) = some r ∧
      agrees ((step w (.cAdd z x y)).1.get z) r = true ∧
      ((step w (.cAdd z x y)).1.get z).prec = w.ctx.prec ∧
      ((step w (.cAdd z x y)).1.get z).mode = w.ctx.mode ∧
      (step w (.cAdd z x y)).2.1 = .ok ∧ (step w (.cAdd z x y)).1.ctx = w.ctx ∧
      ∀ i, i ≠ z → (step w (.cAdd z x y)).1.get i = w.get i := by
  have hp := apply_prec w.ctx (w.get z) hc.1 hc.2
  have hm := apply_mode w.ctx (w.get z)
  have hne : (w.ctx.apply (w.get z)).prec ≠ 0 := by rw [hp]; have := hc.1; omega
  have he := add_opnd (w.ctx.apply (w.get z)) (w.get x) (w.get y) (x == z) (y == z) hne
  rw [← ctxOpnd_eq_opnd, ← ctxOpnd_eq_opnd] at he
  obtain ⟨r, h1, h2, h3, h4, h5⟩ := C01.add_correct (w.ctx.apply (w.get z)) _ _ hx hy
  have hep : effPrec2 (w.ctx.apply (w.get z)) (ctxOpnd w z x) (ctxOpnd w z y) = w.ctx.prec := by
    unfold effPrec2
    rw [if_neg (by simpa using hne), hp]
  rw [hep] at h1 h4
  rw [hm] at h1 h5
  rw [← he] at h2 h3 h4 h5
  obtain ⟨a, b, c, d⟩ := step_put_facts hz (step_cAdd w z x y h h3)
  rw [a]
  exact ⟨r, h1, h2, h4, h5, b, c, d⟩

/-- `ctx.Add(z, x, y)` with operands that are not the receiver. -/
theorem ctx_add_correct (w : World) (z x y : Nat) (h : w.ctx.err = false) (hc : w.ctx.Valid)
    (hz : z < w.vars.length) (hxz : x ≠ z) (hyz : y ≠ z)
    (hx : FinCanon (w.get x)) (hy : FinCanon (w.get y)) :
    ∃ r, Spec.addSV w.ctx.mode w.ctx.prec (ofDec (w.get x)) (ofDec (w.get y)) = some r ∧
      agrees ((step w (.cAdd z x y)).1.get z) r = true ∧
      ((step w (.cAdd z x y)).1.get z).prec = w.ctx.prec ∧
      ((step w (.cAdd z x y)).1.get z).mode = w.ctx.mode ∧
      (step w (.cAdd z x y)).2.1 = .ok ∧ (step w (.cAdd z x y)).1.ctx = w.ctx ∧
      ∀ i, i ≠ z → (step w (.cAdd z x y)).1.get i = w.get i := by
  have := ctx_add_correct_gen w z x y h hc hz (by rw [ctxOpnd_ne w hxz]; exact hx)
    (by rw [ctxOpnd_ne w hyz]; exact hy)
  rw [ctxOpnd_ne w hxz, ctxOpnd_ne w hyz] at this
  exact this

theorem step_cSub (w : World) (z x y : Nat) (h : w.ctx.err = false)
    (hok : (sub (w.ctx.apply (w.get z)) (w.get x) (w.get y) (x == z) (y == z)).2 = .ok) :
    step w (.cSub z x y) =
      (w.put z (sub (w.ctx.apply (w.get z)) (w.get x) (w.get y) (x == z) (y == z)).1, .ok, false) := by
  have hg := guarded_of_ok w.ctx (w.get z) (fun za => sub za (w.get x) (w.get y) (x == z) (y == z)) h hok
  simp only [step, hg]
  rfl

/-- `ctx.Sub(z, x, y)`, any aliasing: the operands as the method sees them (`ctxOpnd`), rounded
    once to the context's precision and mode. -/
theorem ctx_sub_correct_gen (w : World) (z x y : Nat) (h : w.ctx.err = false) (hc : w.ctx.Valid)
    (hz : z < w.vars.length) (hx : FinCanon (ctxOpnd w z x)) (hy : FinCanon (ctxOpnd w z y)) :
    ∃ r, Spec.subSV w.ctx.mode w.ctx.prec (ofDec (ctxOpnd w z x)) (ofDec (ctxOpnd w z y)) = some r ∧
      agrees ((step w (.cSub z x y)).1.get z) r = true ∧
      ((step w (.cSub z x y)).1.get z).prec = w.ctx.prec ∧
      ((step w (.cSub z x y)).1.get z).mode = w.ctx.mode ∧
      (step w (.cSub z x y)).2.1 = .ok ∧ (step w (.cSub z x y)).1.ctx = w.ctx ∧
      ∀ i, i ≠ z → (step w (.cSub z x y)).1.get i = w.get i := by
  have hp := apply_prec w.ctx (w.get z) hc.1 hc.2
  have hm := apply_mode w.ctx (w.get z)
  have hne : (w.ctx.apply (w.get z)).prec ≠ 0 := by rw [hp]; have := hc.1; omega
  have he := sub_opnd (w.ctx.apply (w.get z)) (w.get x) (w.get y) (x == z) (y == z) hne
  rw [← ctxOpnd_eq_opnd, ← ctxOpnd_eq_opnd] at he
  obtain ⟨r, h1, h2, h3, h4, h5⟩ := C01.sub_correct (w.ctx.apply (w.get z)) _ _ hx hy
  have hep : effPrec2 (w.ctx.apply (w.get z)) (ctxOpnd w z x) (ctxOpnd w z y) = w.ctx.prec := by
    unfold effPrec2
    rw [if_neg (by simpa using hne), hp]
  rw [hep] at h1 h4
  rw [hm] at h1 h5
  rw [← he] at h2 h3 h4 h5
  obtain ⟨a, b, c, d⟩ := step_put_facts hz (step_cSub w z x y h h3)
  rw [a]
  exact ⟨r, h1, h2, h4, h5, b, c, d⟩

/-- `ctx.Sub(z, x, y)` with operands that are not the receiver. -/
theorem ctx_sub_correct (w : World) (z x y : Nat) (h : w.ctx.err = false) (hc : w.ctx.Valid)
    (hz : z < w.vars.length) (hxz : x ≠ z) (hyz : y ≠ z)
    (hx : FinCanon (w.get x)) (hy : FinCanon (w.get y)) :
    ∃ r, Spec.subSV w.ctx.mode w.ctx.prec (ofDec (w.get x)) (ofDec (w.get y)) = some r ∧
      agrees ((step w (.cSub z x y)).1.get z) r = true ∧
      ((step w (.cSub z x y)).1.get z).prec = w.ctx.prec ∧
      ((step w (.cSub z x y)).1.get z).mode = w.ctx.mode ∧
      (step w (.cSub z x y)).2.1 = .ok ∧ (step w (.cSub z x y)).1.ctx = w.ctx ∧
      ∀ i, i ≠ z → (step w (.cSub z x y)).1.get i = w.get i := by
  have := ctx_sub_correct_gen w z x y h hc hz (by rw [ctxOpnd_ne w hxz]; exact hx)
    (by rw [ctxOpnd_ne w hyz]; exact hy)
  rw [ctxOpnd_ne w hxz, ctxOpnd_ne w hyz] at this
  exact this

theorem step_cMul (w : World) (z x y : Nat) (h : w.ctx.err = false)
    (hok : (mul (w.ctx.apply (w.get z)) (w.get x) (w.get y) (x == z) (y == z)).2 = .ok) :
    step w (.cMul z x y) =
      (w.put z (mul (w.ctx.apply (w.get z)) (w.get x) (w.get y) (x == z) (y == z)).1, .ok, false) := by
  have hg := guarded_of_ok w.ctx (w.get z) (fun za => mul za (w.get x) (w.get y) (x == z) (y == z)) h hok
  simp only [step, hg]
  rfl

/-- `ctx.Mul(z, x, y)`, any aliasing: the operands as the method sees them (`ctxOpnd`), rounded
    once to the context's precision and mode. -/
theorem ctx_mul_correct_gen (w : World) (z x y : Nat) (h : w.ctx.err = false) (hc : w.ctx.Valid)
    (hz : z < w.vars.length) (hx : FinCanon (ctxOpnd w z x)) (hy : FinCanon (ctxOpnd w z y)) :
    ∃ r, Spec.mulSV w.ctx.mode w.ctx.prec (ofDec (ctxOpnd w z x)) (ofDec (ctxOpnd w z y)) = some r ∧
      agrees ((step w (.cMul z x y)).1.get z) r = true ∧
      ((step w (.cMul z x y)).1.get z).prec = w.ctx.prec ∧
      ((step w (.cMul z x y)).1.get z).mode = w.ctx.mode ∧
      (step w (.cMul z x y)).2.1 = .ok ∧ (step w (.cMul z x y)).1.ctx = w.ctx ∧
      ∀ i, i ≠ z → (step w (.cMul z x y)).1.get i = w.get i := by
  have hp := apply_prec w.ctx (w.get z) hc.1 hc.2
  have hm := apply_mode w.ctx (w.get z)
  have hne : (w.ctx.apply (w.get z)).prec ≠ 0 := by rw [hp]; have := hc.1; omega
  have he := mul_opnd (w.ctx.apply (w.get z)) (w.get x) (w.get y) (x == z) (y == z) hne
  rw [← ctxOpnd_eq_opnd, ← ctxOpnd_eq_opnd] at he
  obtain ⟨r, h1, h2, h3, h4, h5⟩ := C01.mul_correct (w.ctx.apply (w.get z)) _ _ hx hy
  have hep : effPrec2 (w.ctx.apply (w.get z)) (ctxOpnd w z x) (ctxOpnd w z y) = w.ctx.prec := by
    unfold effPrec2
    rw [if_neg (by simpa using hne), hp]
  rw [hep] at h1 h4
  rw [hm] at h1 h5
  rw [← he] at h2 h3 h4 h5
  obtain ⟨a, b, c, d⟩ := step_put_facts hz (step_cMul w z x y h h3)
  rw [a]
  exact ⟨r, h1, h2, h4, h5, b, c, d⟩

/-- `ctx.Mul(z, x, y)` with operands that are not the receiver. -/
theorem ctx_mul_correct (w : World) (z x y : Nat) (h : w.ctx.err = false) (hc : w.ctx.Valid)
    (hz : z < w.vars.length) (hxz : x ≠ z) (hyz : y ≠ z)
    (hx : FinCanon (w.get x)) (hy : FinCanon (w.get y)) :
    ∃ r, Spec.mulSV w.ctx.mode w.ctx.prec (ofDec (w.get x)) (ofDec (w.get y)) = some r ∧
      agrees ((step w (.cMul z x y)).1.get z) r = true ∧
      ((step w (.cMul z x y)).1.get z).prec = w.ctx.prec ∧
      ((step w (.cMul z x y)).1.get z).mode = w.ctx.mode ∧
      (step w (.cMul z x y)).2.1 = .ok ∧ (step w (.cMul z x y)).1.ctx = w.ctx ∧
      ∀ i, i ≠ z → (step w (.cMul z x y)).1.get i = w.get i := by
  have := ctx_mul_correct_gen w z x y h hc hz (by rw [ctxOpnd_ne w hxz]; exact hx)
    (by rw [ctxOpnd_ne w hyz]; exact hy)
  rw [ctxOpnd_ne w hxz, ctxOpnd_ne w hyz] at this
  exact this

theorem step_cQuo (w : World) (z x y : Nat) (h : w.ctx.err = false)
    (hok : (quo (w.ctx.apply (w.get z)) (w.get x) (w.get y) (x == z) (y == z)).2 = .ok) :
    step w (.cQuo z x y) =
      (w.put z (quo (w.ctx.apply (w.get z)) (w.get x) (w.get y) (x == z) (y == z)).1, .ok, false) := by
  have hg := guarded_of_ok w.ctx (w.get z) (fun za => quo za (w.get x) (w.get y) (x == z) (y == z)) h hok
  simp only [step, hg]
  rfl

/-- `ctx.Quo(z, x, y)`, any aliasing: the operands as the method sees them (`ctxOpnd`), rounded
    once to the context's precision and mode. -/
theorem ctx_quo_correct_gen (w : World) (z x y : Nat) (h : w.ctx.err = false) (hc : w.ctx.Valid)
    (hz : z < w.vars.length) (hx : FinCanon (ctxOpnd w z x)) (hy : FinCanon (ctxOpnd w z y)) :
    ∃ r, Spec.quoSV w.ctx.mode w.ctx.prec (ofDec (ctxOpnd w z x)) (ofDec (ctxOpnd w z y)) = some r ∧
      agrees ((step w (.cQuo z x y)).1.get z) r = true ∧
      ((step w (.cQuo z x y)).1.get z).prec = w.ctx.prec ∧
      ((step w (.cQuo z x y)).1.get z).mode = w.ctx.mode ∧
      (step w (.cQuo z x y)).2.1 = .ok ∧ (step w (.cQuo z x y)).1.ctx = w.ctx ∧
      ∀ i, i ≠ z → (step w (.cQuo z x y)).1.get i = w.get i := by
  have hp := apply_prec w.ctx (w.get z) hc.1 hc.2
  have hm := apply_mode w.ctx (w.get z)
  have hne : (w.ctx.apply (w.get z)).prec ≠ 0 := by rw [hp]; have := hc.1; omega
  have he := quo_opnd (w.ctx.apply (w.get z)) (w.get x) (w.get y) (x == z) (y == z) hne
  rw [← ctxOpnd_eq_opnd, ← ctxOpnd_eq_opnd] at he
  obtain ⟨r, h1, h2, h3, h4, h5⟩ := C01.quo_correct (w.ctx.apply (w.get z)) _ _ hx hy
  have hep : effPrec2 (w.ctx.apply (w.get z)) (ctxOpnd w z x) (ctxOpnd w z y) = w.ctx.prec := by
    unfold effPrec2
    rw [if_neg (by simpa using hne), hp]
  rw [hep] at h1 h4
  rw [hm] at h1 h5
  rw [← he] at h2 h3 h4 h5
  obtain ⟨a, b, c, d⟩ := step_put_facts hz (step_cQuo w z x y h h3)
  rw [a]
  exact ⟨r, h1, h2, h4, h5, b, c, d⟩

/-- `ctx.Quo(z, x, y)` with operands that are not the receiver. -/
theorem ctx_quo_correct (w : World) (z x y : Nat) (h : w.ctx.err = false) (hc : w.ctx.Valid)
    (hz : z < w.vars.length) (hxz : x ≠ z) (hyz : y ≠ z)
    (hx : FinCanon (w.get x)) (hy : FinCanon (w.get y)) :
    ∃ r, Spec.quoSV w.ctx.mode w.ctx.prec (ofDec (w.get x)) (ofDec (w.get y)) = some r ∧
      agrees ((step w (.cQuo z x y)).1.get z) r = true ∧
      ((step w (.cQuo z x y)).1.get z).prec = w.ctx.prec ∧
      ((step w (.cQuo z x y)).1.get z).mode = w.ctx.mode ∧
      (step w (.cQuo z x y)).2.1 = .ok ∧ (step w (.cQuo z x y)).1.ctx = w.ctx ∧
      ∀ i, i ≠ z → (step w (.cQuo z x y)).1.get i = w.get i := by
  have := ctx_quo_correct_gen w z x y h hc hz (by rw [ctxOpnd_ne w hxz]; exact hx)
    (by rw [ctxOpnd_ne w hyz]; exact hy)
  rw [ctxOpnd_ne w hxz, ctxOpnd_ne w hyz] at this
  exact this

/-! ### FMA, Sqrt through a context -/

theorem step_cFma (w : World) (z x y u : Nat) (h : w.ctx.err = false)
    (hok : (fma (w.ctx.apply (w.get z)) (w.get x) (w.get y) (w.get u) (x == z) (y == z) (u == z)).2 = .ok) :
    step w (.cFma z x y u) =
      (w.put z (fma (w.ctx.apply (w.get z)) (w.get x) (w.get y) (w.get u) (x == z) (y == z) (u == z)).1,
        .ok, false) := by
  have hg := guarded_of_ok w.ctx (w.get z)
    (fun za => fma za (w.get x) (w.get y) (w.get u) (x == z) (y == z) (u == z)) h hok
  simp only [step, hg]
  rfl

/-- `ctx.FMA(z, x, y, u)`, any aliasing. `hfit hmin hmax` are the hypotheses of C03b `fma_correct`
    (the exact product has at most `MaxPrec` significant digits and its exponent is in range). -/
theorem ctx_fma_correct_gen (w : World) (z x y u : Nat) (h : w.ctx.err = false) (hc : w.ctx.Valid)
    (hz : z < w.vars.length) (hx : FinCanon (ctxOpnd w z x)) (hy : FinCanon (ctxOpnd w z y))
    (hu : FinCanon (ctxOpnd w z u))
    (hfit : ProdFits (ctxOpnd w z x) (ctxOpnd w z y))
    (hmin : MinExp ≤ intExp (ctxOpnd w z x) + intExp (ctxOpnd w z y) +
      (ndigits ((ctxOpnd w z x).mant * (ctxOpnd w z y).mant) : Int))
    (hmax : intExp (ctxOpnd w z x) + intExp (ctxOpnd w z y) +
      (ndigits ((ctxOpnd w z x).mant * (ctxOpnd w z y).mant) : Int) ≤ MaxExp) :
    ∃ r, Spec.fmaSV w.ctx.mode w.ctx.prec (ofDec (ctxOpnd w z x)) (ofDec (ctxOpnd w z y))
          (ofDec (ctxOpnd w z u)) = some r ∧
      agrees ((step w (.cFma z x y u)).1.get z) r = true ∧
      ((step w (.cFma z x y u)).1.get z).prec = w.ctx.prec ∧
      ((step w (.cFma z x y u)).1.get z).mode = w.ctx.mode ∧
      (step w (.cFma z x y u)).2.1 = .ok ∧ (step w (.cFma z x y u)).1.ctx = w.ctx ∧
      ∀ i, i ≠ z → (step w (.cFma z x y u)).1.get i = w.get i := by
  have hp := apply_prec w.ctx (w.get z) hc.1 hc.2
  have hm := apply_mode w.ctx (w.get z)
  have hne : (w.ctx.apply (w.get z)).prec ≠ 0 := by rw [hp]; have := hc.1; omega
  have he := fma_opnd (w.ctx.apply (w.get z)) (w.get x) (w.get y) (w.get u) (x == z) (y == z) (u == z) hne
  have ha := fma_alias (w.ctx.apply (w.get z)) (w.get x) (w.get y) (w.get u) (x == z) (y == z) (u == z)
  rw [← he, ← ctxOpnd_eq_opnd, ← ctxOpnd_eq_opnd, ← ctxOpnd_eq_opnd] at ha
  obtain ⟨⟨o1, o2, o3, o4, o5, o6⟩, hout⟩ := ha
  have hobs : obsEq _ _ := ⟨o1, o2, o3, o4, o5, o6⟩
  obtain ⟨r, h1, h2, h3, h4, h5⟩ := C03b.fma_correct (w.ctx.apply (w.get z)) _ _ _ hx hy hu hfit hmin hmax
  have hep : effPrec3 (w.ctx.apply (w.get z)) (ctxOpnd w z x) (ctxOpnd w z y) (ctxOpnd w z u)
      = w.ctx.prec := by
    unfold effPrec3
    rw [if_neg (by simpa using hne), hp]
  rw [hep] at h1 h4
  rw [hm] at h1 h5
  rw [← agrees_obsEq r hobs] at h2
  rw [← hout] at h3
  rw [← o3] at h4
  rw [← o4] at h5
  obtain ⟨a, b, c, d⟩ := step_put_facts hz (step_cFma w z x y u h h3)
  rw [a]
  exact ⟨r, h1, h2, h4, h5, b, c, d⟩

theorem ctx_fma_correct (w : World) (z x y u : Nat) (h : w.ctx.err = false) (hc : w.ctx.Valid)
    (hz : z < w.vars.length) (hxz : x ≠ z) (hyz : y ≠ z) (huz : u ≠ z)
    (hx : FinCanon (w.get x)) (hy : FinCanon (w.get y)) (hu : FinCanon (w.get u))
    (hfit : ProdFits (w.get x) (w.get y))
    (hmin : MinExp ≤ intExp (w.get x) + intExp (w.get y) +
      (ndigits ((w.get x).mant * (w.get y).mant) : Int))
    (hmax : intExp (w.get x) + intExp (w.get y) +
      (ndigits ((w.get x).mant * (w.get y).mant) : Int) ≤ MaxExp) :
    ∃ r, Spec.fmaSV w.ctx.mode w.ctx.prec (ofDec (w.get x)) (ofDec (w.get y)) (ofDec (w.get u)) = some r ∧
      agrees ((step w (.cFma z x y u)).1.get z) r = true ∧
      ((step w (.cFma z x y u)).1.get z).prec = w.ctx.prec ∧
      ((step w (.cFma z x y u)).1.get z).mode = w.ctx.mode ∧
      (step w (.cFma z x y u)).2.1 = .ok ∧ (step w (.cFma z x y u)).1.ctx = w.ctx ∧
      ∀ i, i ≠ z → (step w (.cFma z x y u)).1.get i = w.get i := by
  have := ctx_fma_correct_gen w z x y u h hc hz (by rw [ctxOpnd_ne w hxz]; exact hx)
    (by rw [ctxOpnd_ne w hyz]; exact hy) (by rw [ctxOpnd_ne w huz]; exact hu)
    (by rw [ctxOpnd_ne w hxz, ctxOpnd_ne w hyz]; exact hfit)
    (by rw [ctxOpnd_ne w hxz, ctxOpnd_ne w hyz]; exact hmin)
    (by rw [ctxOpnd_ne w hxz, ctxOpnd_ne w hyz]; exact hmax)
  rw [ctxOpnd_ne w hxz, ctxOpnd_ne w hyz, ctxOpnd_ne w huz] at this
  exact this

theorem step_cSqrt (w : World) (z x : Nat) (h : w.ctx.err = false)
    (hok : (sqrt (w.ctx.apply (w.get z)) (w.get x) (x == z)).2 = .ok) :
    step w (.cSqrt z x) = (w.put z (sqrt (w.ctx.apply (w.get z)) (w.get x) (x == z)).1, .ok, false) := by
  have hg := guarded_of_ok w.ctx (w.get z) (fun za => sqrt za (w.get x) (x == z)) h hok
  simp only [step, hg]
  rfl

/-- `ctx.Sqrt(z, x)`, any aliasing, for a canonical finite `x ≥ 0`: the correctly rounded root at
    the context's precision and mode. As for `Decimal.Sqrt` (C05) the stored accuracy is `Exact`
    whatever the rounding did, hence `agreesValue`. -/
theorem ctx_sqrt_correct_gen (w : World) (z x : Nat) (h : w.ctx.err = false) (hc : w.ctx.Valid)
    (hz : z < w.vars.length) (hx : FinCanon (ctxOpnd w z x)) (hneg : (ctxOpnd w z x).neg = false) :
    ∃ r, Spec.sqrtSV w.ctx.mode w.ctx.prec (ofDec (ctxOpnd w z x)) = some r ∧
      agreesValue ((step w (.cSqrt z x)).1.get z) r = true ∧
      ((step w (.cSqrt z x)).1.get z).acc = Exact ∧
      ((step w (.cSqrt z x)).1.get z).prec = w.ctx.prec ∧
      ((step w (.cSqrt z x)).1.get z).mode = w.ctx.mode ∧
      (step w (.cSqrt z x)).2.1 = .ok ∧ (step w (.cSqrt z x)).1.ctx = w.ctx ∧
      ∀ i, i ≠ z → (step w (.cSqrt z x)).1.get i = w.get i := by
  have hp := apply_prec w.ctx (w.get z) hc.1 hc.2
  have hm := apply_mode w.ctx (w.get z)
  have hne : (w.ctx.apply (w.get z)).prec ≠ 0 := by rw [hp]; have := hc.1; omega
  have he := sqrt_opnd (w.ctx.apply (w.get z)) (w.get x) (x == z) hne
  rw [← ctxOpnd_eq_opnd] at he
  obtain ⟨r, h1, h2, h3, h4, h5, h6⟩ := C05.sqrt_correct (w.ctx.apply (w.get z)) (ctxOpnd w z x) w.ctx.prec
    (by rw [if_neg hne, hp]) hc.1 hneg hx.form_eq hx.len_pos hx.nd hx.exp_ge hx.exp_le
  rw [hm] at h1 h5
  rw [← he] at h2 h3 h4 h5 h6
  obtain ⟨a, b, c, d⟩ := step_put_facts hz (step_cSqrt w z x h h2)
  rw [a]
  exact ⟨r, h1, h3, h6, h4, h5, b, c, d⟩

theorem ctx_sqrt_correct (w : World) (z x : Nat) (h : w.ctx.err = false) (hc : w.ctx.Valid)
    (hz : z < w.vars.length) (hxz : x ≠ z) (hx : FinCanon (w.get x)) (hneg : (w.get x).neg = false) :
    ∃ r, Spec.sqrtSV w.ctx.mode w.ctx.prec (ofDec (w.get x)) = some r ∧
      agreesValue ((step w (.cSqrt z x)).1.get z) r = true ∧
      ((step w (.cSqrt z x)).1.get z).acc = Exact ∧
      ((step w (.cSqrt z x)).1.get z).prec = w.ctx.prec ∧
      ((step w (.cSqrt z x)).1.get z).mode = w.ctx.mode ∧
      (step w (.cSqrt z x)).2.1 = .ok ∧ (step w (.cSqrt z x)).1.ctx = w.ctx ∧
      ∀ i, i ≠ z → (step w (.cSqrt z x)).1.get i = w.get i := by
  have := ctx_sqrt_correct_gen w z x h hc hz (by rw [ctxOpnd_ne w hxz]; exact hx)
    (by rw [ctxOpnd_ne w hxz]; exact hneg)
  rw [ctxOpnd_ne w hxz] at this
  exact this

/-! ### Neg, Abs, Set through a context -/

theorem step_cNeg (w : World) (z x : Nat) (h : w.ctx.err = false) :
    step w (.cNeg z x) = (w.put z (neg (w.ctx.apply (w.get z)) (w.get x) (x == z)), .ok, false) := by
  simp only [step, Ctx.plain, h, Bool.false_eq_true, if_false]

theorem step_cAbs (w : World) (z x : Nat) (h : w.ctx.err = false) :
    step w (.cAbs z x) = (w.put z (abs (w.ctx.apply (w.get z)) (w.get x) (x == z)), .ok, false) := by
  simp only [step, Ctx.plain, h, Bool.false_eq_true, if_false]

theorem neg_opnd (z x : Dec) (same : Bool) : neg z x same = neg z (opnd z x same) false := by
  cases same
  · rfl
  · exact neg_alias z

theorem abs_opnd (z x : Dec) (same : Bool) : abs z x same = abs z (opnd z x same) false := by
  cases same
  · rfl
  · exact abs_alias z

/-- `ctx.Neg(z, x)`: `x` rounded once to the context's precision and mode, sign flipped. -/
theorem ctx_neg_correct_gen (w : World) (z x : Nat) (h : w.ctx.err = false) (hc : w.ctx.Valid)
    (hz : z < w.vars.length) (hx : Canon (ctxOpnd w z x)) :
    agrees ((step w (.cNeg z x)).1.get z)
        { roundSV w.ctx.mode w.ctx.prec (ofDec (ctxOpnd w z x)) with
          neg := !(roundSV w.ctx.mode w.ctx.prec (ofDec (ctxOpnd w z x))).neg } = true ∧
      ((step w (.cNeg z x)).1.get z).prec = w.ctx.prec ∧
      ((step w (.cNeg z x)).1.get z).mode = w.ctx.mode ∧
      (step w (.cNeg z x)).2.1 = .ok ∧ (step w (.cNeg z x)).1.ctx = w.ctx ∧
      ∀ i, i ≠ z → (step w (.cNeg z x)).1.get i = w.get i := by
  have hp := apply_prec w.ctx (w.get z) hc.1 hc.2
  have hm := apply_mode w.ctx (w.get z)
  have hne : (w.ctx.apply (w.get z)).prec ≠ 0 := by rw [hp]; have := hc.1; omega
  have he := neg_opnd (w.ctx.apply (w.get z)) (w.get x) (x == z)
  rw [← ctxOpnd_eq_opnd] at he
  obtain ⟨h1, h2, h3⟩ := C01.neg_correct (w.ctx.apply (w.get z)) (ctxOpnd w z x) hx
  have hep : effPrec1 (w.ctx.apply (w.get z)) (ctxOpnd w z x) = w.ctx.prec := by
    unfold effPrec1
    rw [if_neg (by simpa using hne), hp]
  rw [hep] at h1 h2
  rw [hm] at h1 h3
  rw [← he] at h1 h2 h3
  obtain ⟨a, b, c, d⟩ := step_put_facts hz (step_cNeg w z x h)
  rw [a]
  exact ⟨h1, h2, h3, b, c, d⟩

theorem ctx_abs_correct_gen (w : World) (z x : Nat) (h : w.ctx.err = false) (hc : w.ctx.Valid)
    (hz : z < w.vars.length) (hx : Canon (ctxOpnd w z x)) :
    agrees ((step w (.cAbs z x)).1.get z)
        { roundSV w.ctx.mode w.ctx.prec (ofDec (ctxOpnd w z x)) with neg := false } = true ∧
      ((step w (.cAbs z x)).1.get z).prec = w.ctx.prec ∧
      ((step w (.cAbs z x)).1.get z).mode = w.ctx.mode ∧
      (step w (.cAbs z x)).2.1 = .ok ∧ (step w (.cAbs z x)).1.ctx = w.ctx ∧
      ∀ i, i ≠ z → (step w (.cAbs z x)).1.get i = w.get i := by
  have hp := apply_prec w.ctx (w.get z) hc.1 hc.2
  have hm := apply_mode w.ctx (w.get z)
  have hne : (w.ctx.apply (w.get z)).prec ≠ 0 := by rw [hp]; have := hc.1; omega
  have he := abs_opnd (w.ctx.apply (w.get z)) (w.get x) (x == z)
  rw [← ctxOpnd_eq_opnd] at he
  obtain ⟨h1, h2, h3⟩ := C01.abs_correct (w.ctx.apply (w.get z)) (ctxOpnd w z x) hx
  have hep : effPrec1 (w.ctx.apply (w.get z)) (ctxOpnd w z x) = w.ctx.prec := by
    unfold effPrec1
    rw [if_neg (by simpa using hne), hp]
  rw [hep] at h1 h2
  rw [hm] at h1 h3
  rw [← he] at h1 h2 h3
  obtain ⟨a, b, c, d⟩ := step_put_facts hz (step_cAbs w z x h)
  rw [a]
  exact ⟨h1, h2, h3, b, c, d⟩

theorem ctx_neg_correct (w : World) (z x : Nat) (h : w.ctx.err = false) (hc : w.ctx.Valid)
    (hz : z < w.vars.length) (hxz : x ≠ z) (hx : Canon (w.get x)) :
    agrees ((step w (.cNeg z x)).1.get z)
        { roundSV w.ctx.mode w.ctx.prec (ofDec (w.get x)) with
          neg := !(roundSV w.ctx.mode w.ctx.prec (ofDec (w.get x))).neg } = true ∧
      ((step w (.cNeg z x)).1.get z).prec = w.ctx.prec ∧
      ((step w (.cNeg z x)).1.get z).mode = w.ctx.mode ∧
      (step w (.cNeg z x)).2.1 = .ok ∧ (step w (.cNeg z x)).1.ctx = w.ctx ∧
      ∀ i, i ≠ z → (step w (.cNeg z x)).1.get i = w.get i := by
  have := ctx_neg_correct_gen w z x h hc hz (by rw [ctxOpnd_ne w hxz]; exact hx)
  rw [ctxOpnd_ne w hxz] at this
  exact this

theorem ctx_abs_correct (w : World) (z x : Nat) (h : w.ctx.err = false) (hc : w.ctx.Valid)
    (hz : z < w.vars.length) (hxz : x ≠ z) (hx : Canon (w.get x)) :
    agrees ((step w (.cAbs z x)).1.get z)
        { roundSV w.ctx.mode w.ctx.prec (ofDec (w.get x)) with neg := false } = true ∧
      ((step w (.cAbs z x)).1.get z).prec = w.ctx.prec ∧
      ((step w (.cAbs z x)).1.get z).mode = w.ctx.mode ∧
      (step w (.cAbs z x)).2.1 = .ok ∧ (step w (.cAbs z x)).1.ctx = w.ctx ∧
      ∀ i, i ≠ z → (step w (.cAbs z x)).1.get i = w.get i := by
  have := ctx_abs_correct_gen w z x h hc hz (by rw [ctxOpnd_ne w hxz]; exact hx)
  rw [ctxOpnd_ne w hxz] at this
  exact this

theorem step_cSet (w : World) (z x : Nat) (h : w.ctx.err = false) (hf : (w.get x).form = .finite) :
    step w (.cSet z x) = (w.put z (w.ctx.apply (w.get x)), .ok, false) := by
  simp only [step, h, Bool.false_eq_true, if_false]
  by_cases hxz : x = z
  · subst hxz
    simp [copy]
  · have : (x == z) = false := by simpa using hxz
    rw [this, copy_finite _ _ hf]

/-- `ctx.Set(z, x)` (any aliasing — `ctx.Set(z, z)` rounds `z` in place): `x` rounded once to the
    context's precision and mode. -/
theorem ctx_set_correct (w : World) (z x : Nat) (h : w.ctx.err = false) (hc : w.ctx.Valid)
    (hz : z < w.vars.length) (hx : Canon (w.get x)) :
    agrees ((step w (.cSet z x)).1.get z) (roundSV w.ctx.mode w.ctx.prec (ofDec (w.get x))) = true ∧
      ((step w (.cSet z x)).1.get z).prec = w.ctx.prec ∧
      ((step w (.cSet z x)).1.get z).mode = w.ctx.mode ∧
      (step w (.cSet z x)).2.1 = .ok ∧ (step w (.cSet z x)).1.ctx = w.ctx ∧
      ∀ i, i ≠ z → (step w (.cSet z x)).1.get i = w.get i := by
  obtain ⟨a, b, c, d⟩ := step_put_facts hz (step_cSet w z x h hx.1.form_eq)
  rw [a]
  refine ⟨?_, apply_prec _ _ hc.1 hc.2, apply_mode _ _, b, c, d⟩
  rw [apply_eq_setPrec _ _ hc]
  have hx' : Canon (setMode (w.get x) w.ctx.mode) := hx
  have h1 := (C01.setPrec_correct _ hx' w.ctx.prec hc.1).1
  have hcl : clampPrec w.ctx.prec = w.ctx.prec := by
    unfold clampPrec; rw [if_neg (by have := hc.2; omega)]
  rw [hcl] at h1
  exact h1

/-! ### The receiver as an operand -/

/-- Canonical (C08 invariant) and finite is `Canon`. -/
theorem canon_of_canonical {x : Dec} (hc : x.Canonical) (hf : x.form = .finite) : Canon x := by
  obtain ⟨h1, h2, h3, h4, h5, -⟩ := hc.fin_e hf
  exact ⟨⟨hf, h1, h2, h5, h3, h4⟩, canonical_dvd hc hf⟩

/-- In a world of canonical variables every finite operand a context operation sees —
    including the receiver after `apply` rounded it — is `Canon`. -/
theorem ctxOpnd_canon (w : World) (z i : Nat) (hz : (w.get z).Canonical) (hi : (w.get i).Canonical)
    (hf : (ctxOpnd w z i).form = .finite) : Canon (ctxOpnd w z i) := by
  unfold ctxOpnd at hf ⊢
  split at hf
  · next h => rw [if_pos h]; exact canon_of_canonical (ctx_apply_canonical _ _ hz) hf
  · next h => rw [if_neg h]; exact canon_of_canonical hi hf

/-- When the receiver's precision does not exceed the context's, `apply` does not round it: as
    an operand it has its old value. -/
theorem ctxOpnd_self_no_round (w : World) (z : Nat) (hc : w.ctx.Valid) (hp : (w.get z).prec ≤ w.ctx.prec)
    (hx : FinCanon (w.get z)) :
    FinCanon (ctxOpnd w z z) ∧ ofDec (ctxOpnd w z z) = ofDec (w.get z) := by
  have : ctxOpnd w z z = w.ctx.apply (w.get z) := by simp [ctxOpnd]
  rw [this]
  exact finCanon_apply_no_round _ _ hc hp hx

end Decimal
