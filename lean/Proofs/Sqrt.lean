/-
  Helper lemmas for C05: the L1 model of `(*Decimal).Sqrt` (`DecimalModel/Sqrt.lean`) against the
  specification `Spec.sqrtSV` (`DecimalModel/Spec/IEEE.lean`).  Final statements: Properties/C05.lean.

  Contents
    1. easy parts: the body `sqrtK` after prologue / operand selection, attributes, aliasing,
       special operands;
    2. `Nat.sqrt`: bracket, uniqueness, scaling `Nat.sqrt (X·b²) / b = Nat.sqrt X`, the floor of the
       root of a rational `Mn / D`, and truncation `Nat.sqrt X / T` = floor of `√(X / T²)`;
    3. `roundInt` sees a coefficient only through its first `p+1` digits and "anything below"
       (`roundInt_trunc`), whence the midpoint lemma (`roundInt_midpoint`);
    4. the candidate of the model (`sqrtCandidate_bracket`) against the scaled root of the
       specification (`specRoot`, `sqrtSV_fin`, `sqrtCandidate_vs_spec`);
    5. re-rounding a rounded value (`round_round`: `SetMantExp` after `Set`), exponent shift
       (`roundInt_shift`), assembly (`sqrtTail_correct`, `sqrtFin_correct`, `sqrt_correct_main`).

  Every statement was first evaluated with `#eval` (midpoint lemma: all 6 modes, p = 1..3
  exhaustively over all N of p+1..p+3 digits = 6 653 340 instances, p = 1..6 sampled with range-limit
  exponents; truncation lemma 700 800 instances; candidate/scale relation 21 888 instances; main
  theorem 525 312 instances incl. MinExp/MaxExp exponents, mantissas of 1–3 words, perfect squares,
  precisions 1–60): no mismatch.  Without `ndigits N ≥ p+1` the midpoint lemma is false for every
  shorter N; with effective precision 0 the main theorem is false.
-/
import Proofs.Round
import Proofs.Special
import DecimalModel.Sqrt
import Mathlib.Tactic.Ring
import Mathlib.Tactic.Linarith

namespace Decimal
open Spec

/-! ### 1. Easy parts -/

/-- The finite, non-negative path of `sqrt` once the receiver `z` has a precision and the
    operand `x` is selected. -/
def sqrtFin (z x : Dec) : Dec :=
  let cand := sqrtCandidate x.mant x.len (goMod2 x.exp) (z.prec + 1)
  let sc := if cand.2.2 then cand.1 * 10 + 5 else cand.1
  let sprec := if cand.2.2 then z.prec + 1 + 1 else z.prec + 1
  let s : Dec := { form := .finite, neg := false, mant := sc * 10 ^ dnormShift sc (nwords sc),
                   len := nwords sc, exp := cand.2.1, prec := sprec, mode := .ToZero, acc := Exact }
  let z1 := set z s false
  setMantExp z1 z1 (goDiv2 x.exp) true

/-- The body of `sqrt` after the prologue and the operand selection. -/
def sqrtK (z x : Dec) : Dec × Outcome :=
  if x.form != .zero && x.neg then (z, .errNaN)
  else if x.form != .finite then ({ z with acc := Exact, form := x.form, neg := x.neg }, .ok)
  else (sqrtFin z x, .ok)

theorem sqrt_eq_sqrtK (z x : Dec) (same : Bool) :
    sqrt z x same = sqrtK (prologue z x.prec) (opnd (prologue z x.prec) x same) := by
  unfold sqrt prologue
  simp only []
  generalize (if (z.prec == 0) = true then _ else z) = z'
  generalize opnd z' x same = x'
  unfold sqrtK sqrtFin
  simp only []
  split
  · rfl
  · split
    · rfl
    · congr 1
      generalize sqrtCandidate _ _ _ _ = cand
      obtain ⟨c, se, i⟩ := cand
      cases i <;> rfl

theorem sqrtFin_mode (z x : Dec) : (sqrtFin z x).mode = z.mode := by
  unfold sqrtFin
  simp only [setMantExp_mode, set_mode, if_true]

theorem sqrtFin_prec (z x : Dec) (h : z.prec ≠ 0) : (sqrtFin z x).prec = z.prec := by
  unfold sqrtFin
  simp only [setMantExp_prec, set_prec, if_true, h, and_false, if_false]

theorem sqrtK_mode (z x : Dec) : (sqrtK z x).1.mode = z.mode := by
  unfold sqrtK
  split
  · rfl
  · split
    · rfl
    · exact sqrtFin_mode z x

theorem sqrtK_prec (z x : Dec) (h : z.prec ≠ 0 ∨ x.form ≠ .finite) : (sqrtK z x).1.prec = z.prec := by
  unfold sqrtK
  split
  · rfl
  · split
    · rfl
    · rename_i h2
      rcases h with h | h
      · exact sqrtFin_prec z x h
      · simp [h] at h2

theorem sqrt_mode (z x : Dec) (same : Bool) : (sqrt z x same).1.mode = z.mode := by
  rw [sqrt_eq_sqrtK, sqrtK_mode, prologue_mode]

theorem sqrt_prec (z x : Dec) (same : Bool)
    (h : z.prec ≠ 0 ∨ x.prec ≠ 0 ∨ (opnd z x same).form ≠ .finite) :
    (sqrt z x same).1.prec = if z.prec = 0 then x.prec else z.prec := by
  rw [sqrt_eq_sqrtK, sqrtK_prec, prologue_prec]
  rw [prologue_prec]
  by_cases hz : z.prec = 0
  · simp only [hz, if_true]
    rcases h with h | h | h
    · exact absurd hz h
    · exact Or.inl h
    · right
      cases same
      · exact h
      · simpa [opnd, prologue, hz] using h
  · simp only [hz, if_false]
    exact Or.inl hz

/-- Aliasing: `z.Sqrt(z)` gives the same state as `z.Sqrt(x)` for a distinct `x` holding `z`'s
    state. -/
theorem sqrt_alias_self (z : Dec) : sqrt z z true = sqrt z z false := by
  rw [sqrt_eq_sqrtK, sqrt_eq_sqrtK]
  have : prologue z z.prec = z := by
    unfold prologue; split <;> rfl
  simp only [opnd, this, if_true, Bool.false_eq_true, if_false]

theorem sqrt_alias_opnd (z x : Dec) (same : Bool) :
    sqrt z (opnd z x same) same = sqrt z (opnd z x same) false := by
  cases same
  · rfl
  · exact sqrt_alias_self z

/-- With the flag set the argument is only read for its precision in the prologue. -/
theorem sqrt_alias_prologue (z x : Dec) : sqrt z x true = sqrt z (prologue z x.prec) false := by
  rw [sqrt_eq_sqrtK, sqrt_eq_sqrtK]
  have h : prologue z (prologue z x.prec).prec = prologue z x.prec := by
    unfold prologue
    by_cases hz : z.prec = 0
    · simp [hz]
    · simp [hz]
  simp only [h, opnd, if_true, Bool.false_eq_true, if_false]

/-! Special operands -/

theorem sqrt_zero (z x : Dec) (same : Bool) (h : (opnd (prologue z x.prec) x same).form = .zero) :
    sqrt z x same =
      ({ (prologue z x.prec) with acc := Exact, form := .zero, neg := (opnd (prologue z x.prec) x same).neg }, .ok) := by
  rw [sqrt_eq_sqrtK]
  simp [sqrtK, h]

theorem sqrt_posInf (z x : Dec) (same : Bool) (h : (opnd (prologue z x.prec) x same).form = .inf)
    (hn : (opnd (prologue z x.prec) x same).neg = false) :
    sqrt z x same = ({ (prologue z x.prec) with acc := Exact, form := .inf, neg := false }, .ok) := by
  rw [sqrt_eq_sqrtK]
  simp [sqrtK, h, hn]

theorem sqrt_negative (z x : Dec) (same : Bool) (h : (opnd (prologue z x.prec) x same).form ≠ .zero)
    (hn : (opnd (prologue z x.prec) x same).neg = true) :
    sqrt z x same = (prologue z x.prec, .errNaN) := by
  rw [sqrt_eq_sqrtK]
  simp [sqrtK, h, hn]

/-- Special operands and negative finite operands against the specification. -/
theorem sqrt_special_spec (z x : Dec) (p : Nat) (h : x.form ≠ .finite ∨ x.neg = true) :
    specMatch (sqrt z x) (sqrtSV z.mode p (ofDec x)) := by
  rw [sqrt_eq_sqrtK]
  simp only [opnd, Bool.false_eq_true, if_false]
  generalize prologue z x.prec = z'
  cases hf : x.form <;> cases hn : x.neg <;>
    simp [hf, hn, ofDec, sqrtSV, specMatch, sqrtK, agrees, zeroRes, infRes, Exact] at h ⊢

theorem sqrt_nan_iff (z x : Dec) (same : Bool) :
    (sqrt z x same).2 = .errNaN ↔
      ((opnd (prologue z x.prec) x same).form ≠ .zero ∧ (opnd (prologue z x.prec) x same).neg = true) := by
  rw [sqrt_eq_sqrtK]
  generalize opnd (prologue z x.prec) x same = x'
  unfold sqrtK
  by_cases h1 : x'.form = .zero <;> by_cases h2 : x'.neg = true <;> simp [h1, h2]
  all_goals split <;> simp

/-! ### 2. `Nat.sqrt` -/

theorem sqrt_bracket (X : Nat) :
    Nat.sqrt X * Nat.sqrt X ≤ X ∧ X < (Nat.sqrt X + 1) * (Nat.sqrt X + 1) :=
  ⟨Nat.sqrt_le X, Nat.lt_succ_sqrt X⟩

theorem sqrt_unique {n a : Nat} (h1 : a * a ≤ n) (h2 : n < (a + 1) * (a + 1)) : Nat.sqrt n = a := by
  have h3 := Nat.sqrt_le n
  have h4 := Nat.lt_succ_sqrt n
  have h5 : Nat.sqrt n < a + 1 := Nat.mul_self_lt_mul_self_iff.mp (Nat.lt_of_le_of_lt h3 h2)
  have h6 : a < Nat.sqrt n + 1 := Nat.mul_self_lt_mul_self_iff.mp (Nat.lt_of_le_of_lt h1 h4)
  omega

theorem sqrt_sq (a : Nat) : Nat.sqrt (a * a) = a :=
  sqrt_unique (Nat.le_refl _) (Nat.mul_self_lt_mul_self (Nat.lt_succ_self a))

/-- `Nat.sqrt X` squared differs from `X` exactly when `X` is not a perfect square. -/
theorem sqrt_sq_ne_iff (X : Nat) : Nat.sqrt X * Nat.sqrt X ≠ X ↔ ¬ ∃ r, r * r = X := by
  constructor
  · rintro h ⟨r, rfl⟩
    exact h (by rw [sqrt_sq])
  · intro h he
    exact h ⟨_, he⟩

/-- Scaling by an even power of the base and dividing the floor gives the floor back. -/
theorem sqrt_mul_sq_div (X b : Nat) (hb : 0 < b) : Nat.sqrt (X * (b * b)) / b = Nat.sqrt X := by
  have h1 := Nat.sqrt_le X
  have h2 := Nat.lt_succ_sqrt X
  have h3 := Nat.sqrt_le (X * (b * b))
  have h4 := Nat.lt_succ_sqrt (X * (b * b))
  generalize Nat.sqrt X = a at *
  generalize Nat.sqrt (X * (b * b)) = s at *
  have h5 : a * b < s + 1 := by
    apply Nat.mul_self_lt_mul_self_iff.mp
    calc a * b * (a * b) = a * a * (b * b) := by ring
      _ ≤ X * (b * b) := Nat.mul_le_mul_right _ h1
      _ < _ := h4
  have h6 : s < (a + 1) * b := by
    apply Nat.mul_self_lt_mul_self_iff.mp
    calc s * s ≤ X * (b * b) := h3
      _ < (a + 1) * (a + 1) * (b * b) := Nat.mul_lt_mul_of_pos_right h2 (Nat.mul_pos hb hb)
      _ = _ := by ring
  exact Nat.div_eq_of_lt_le (by omega) h6

theorem sqrt_mul_pow_div (X j : Nat) : Nat.sqrt (X * 10 ^ (2 * j)) / 10 ^ j = Nat.sqrt X := by
  have : 10 ^ (2 * j) = 10 ^ j * 10 ^ j := by rw [← Nat.pow_add]; congr 1; omega
  rw [this]
  exact sqrt_mul_sq_div X _ (ten_pow_pos j)

/-- The matching sticky relation: the scaled integer is a perfect square iff the unscaled is
    (stated with the floors; no divisibility argument is needed). -/
theorem sqrt_mul_sq_exact (X b : Nat) (hb : 0 < b) :
    (Nat.sqrt (X * (b * b)) * Nat.sqrt (X * (b * b)) = X * (b * b) ∧ Nat.sqrt (X * (b * b)) % b = 0) ↔
      Nat.sqrt X * Nat.sqrt X = X := by
  have hd := sqrt_mul_sq_div X b hb
  constructor
  · rintro ⟨h1, h2⟩
    have h3 := Nat.div_add_mod (Nat.sqrt (X * (b * b))) b
    rw [hd, h2, Nat.add_zero] at h3
    rw [← h3] at h1
    have : Nat.sqrt X * Nat.sqrt X * (b * b) = X * (b * b) := by rw [← h1]; ring
    exact Nat.eq_of_mul_eq_mul_right (Nat.mul_pos hb hb) this
  · intro h
    have : Nat.sqrt (X * (b * b)) = Nat.sqrt X * b := by
      have e : X * (b * b) = (Nat.sqrt X * b) * (Nat.sqrt X * b) := by
        calc X * (b * b) = Nat.sqrt X * Nat.sqrt X * (b * b) := by rw [h]
          _ = _ := by ring
      rw [e, sqrt_sq]
    rw [this]
    refine ⟨?_, Nat.mul_mod_left _ _⟩
    calc _ = Nat.sqrt X * Nat.sqrt X * (b * b) := by ring
      _ = _ := by rw [h]

/-! The floor of `√(Mn / D)` for a rational `Mn / D` (`D > 0`). -/

/-- `c = ⌊√(Mn/D)⌋` computed as `Nat.sqrt (Mn / D)`. -/
theorem sqrt_div_bracket (Mn D : Nat) (hD : 0 < D) :
    Nat.sqrt (Mn / D) * Nat.sqrt (Mn / D) * D ≤ Mn ∧
      Mn < (Nat.sqrt (Mn / D) + 1) * (Nat.sqrt (Mn / D) + 1) * D := by
  have h1 := Nat.sqrt_le (Mn / D)
  have h2 := Nat.lt_succ_sqrt (Mn / D)
  generalize Nat.sqrt (Mn / D) = c at *
  have h3 := Nat.div_add_mod Mn D
  have h4 := Nat.mod_lt Mn hD
  constructor
  · calc c * c * D ≤ Mn / D * D := Nat.mul_le_mul_right _ h1
      _ ≤ Mn := Nat.div_mul_le_self Mn D
  · have : (Mn / D + 1) * D ≤ (c + 1) * (c + 1) * D := Nat.mul_le_mul_right _ h2
    rw [Nat.add_mul, Nat.mul_comm (Mn / D) D] at this
    omega

theorem sqrt_div_exact (Mn D : Nat) (hD : 0 < D) :
    (Nat.sqrt (Mn / D) * Nat.sqrt (Mn / D) = Mn / D ∧ Mn % D = 0) ↔
      Nat.sqrt (Mn / D) * Nat.sqrt (Mn / D) * D = Mn := by
  have h3 := Nat.div_add_mod Mn D
  constructor
  · rintro ⟨h1, h2⟩
    rw [h1, Nat.mul_comm]; omega
  · intro h
    have h5 : Mn / D = Nat.sqrt (Mn / D) * Nat.sqrt (Mn / D) := by
      conv => lhs; rw [← h]
      exact Nat.mul_div_cancel _ hD
    refine ⟨h5.symm, ?_⟩
    rw [← h5, Nat.mul_comm] at h
    omega

/-- Uniqueness of the floor of the root of a rational. -/
theorem sqrt_div_unique {Mn D a c : Nat}
    (ha1 : a * a * D ≤ Mn) (ha2 : Mn < (a + 1) * (a + 1) * D)
    (hc1 : c * c * D ≤ Mn) (hc2 : Mn < (c + 1) * (c + 1) * D) : a = c := by
  have h1 : a < c + 1 :=
    Nat.mul_self_lt_mul_self_iff.mp (Nat.lt_of_mul_lt_mul_right (Nat.lt_of_le_of_lt ha1 hc2))
  have h2 : c < a + 1 :=
    Nat.mul_self_lt_mul_self_iff.mp (Nat.lt_of_mul_lt_mul_right (Nat.lt_of_le_of_lt hc1 ha2))
  omega

/-- Truncating the floor `N = ⌊√X⌋` by `T` gives the floor of `√(X / T²)`, where the
    rational `X / T²` is presented as `Mn / D` (`X · D = Mn · T²`). -/
theorem sqrt_trunc_bracket (X Mn D T : Nat) (hD : 0 < D) (hT : 0 < T) (hX : X * D = Mn * (T * T)) :
    (Nat.sqrt X / T) * (Nat.sqrt X / T) * D ≤ Mn ∧
      Mn < (Nat.sqrt X / T + 1) * (Nat.sqrt X / T + 1) * D := by
  have h1 := Nat.sqrt_le X
  have h2 := Nat.lt_succ_sqrt X
  generalize Nat.sqrt X = N at *
  have h3 : N / T * T ≤ N := Nat.div_mul_le_self N T
  have h4 : N < (N / T + 1) * T := by
    have := Nat.div_add_mod N T
    have := Nat.mod_lt N hT
    rw [Nat.add_mul, Nat.mul_comm (N / T) T]; omega
  generalize N / T = c at *
  have hTT : 0 < T * T := Nat.mul_pos hT hT
  constructor
  · apply Nat.le_of_mul_le_mul_right _ hTT
    calc c * c * D * (T * T) = (c * T) * (c * T) * D := by ring
      _ ≤ N * N * D := Nat.mul_le_mul_right _ (Nat.mul_self_le_mul_self h3)
      _ ≤ X * D := Nat.mul_le_mul_right _ h1
      _ = _ := hX
  · apply Nat.lt_of_mul_lt_mul_right (a := T * T)
    have h5 : N + 1 ≤ (c + 1) * T := h4
    calc Mn * (T * T) = X * D := hX.symm
      _ < (N + 1) * (N + 1) * D := Nat.mul_lt_mul_of_pos_right h2 hD
      _ ≤ ((c + 1) * T) * ((c + 1) * T) * D := Nat.mul_le_mul_right _ (Nat.mul_self_le_mul_self h5)
      _ = _ := by ring

theorem sqrt_trunc_exact (X Mn D T : Nat) (hD : 0 < D) (hT : 0 < T) (hX : X * D = Mn * (T * T)) :
    (Nat.sqrt X / T) * (Nat.sqrt X / T) * D = Mn ↔
      (Nat.sqrt X * Nat.sqrt X = X ∧ Nat.sqrt X % T = 0) := by
  have hTT : 0 < T * T := Nat.mul_pos hT hT
  constructor
  · intro h
    have hX2 : X = (Nat.sqrt X / T * T) * (Nat.sqrt X / T * T) := by
      apply Nat.eq_of_mul_eq_mul_right hD
      rw [hX, ← h]; ring
    have hs : Nat.sqrt X = Nat.sqrt X / T * T := by
      conv => lhs; rw [hX2]
      exact sqrt_sq _
    have hdm := Nat.div_add_mod (Nat.sqrt X) T
    refine ⟨?_, ?_⟩
    · conv => rhs; rw [hX2]
      rw [← hs]
    · rw [Nat.mul_comm] at hdm; omega
  · rintro ⟨h1, h2⟩
    have hdm := Nat.div_add_mod (Nat.sqrt X) T
    rw [h2, Nat.add_zero] at hdm
    apply Nat.eq_of_mul_eq_mul_right hTT
    rw [← hX]
    generalize Nat.sqrt X = N at *
    generalize N / T = q at *
    subst hdm
    rw [← h1]
    ring


/-! ### 3. `roundInt` sees only the first `p+1` digits and "anything below" -/

theorem incrInt_trunc (mode : Mode) (neg : Bool) (lo rem' low r' j : Nat) (sb : Bool) (hr : 1 ≤ r')
    (hlow : low < 10 ^ j) :
    incrInt mode neg lo (low + 10 ^ j * rem') (r' + j) sb
      = incrInt mode neg lo rem' r' (sb || low != 0) := by
  have hJ := ten_pow_pos j
  have hpow : 5 * 10 ^ (r' + j - 1) = 10 ^ j * (5 * 10 ^ (r' - 1)) := by
    rw [Nat.mul_left_comm, ← Nat.pow_add]; congr 2; omega
  unfold incrInt
  simp only [hpow]
  generalize 5 * 10 ^ (r' - 1) = half
  generalize 10 ^ j = J at hJ hlow
  have hsucc : ∀ a : Nat, J * (a + 1) = J * a + J := fun a => Nat.mul_succ J a
  rcases Nat.lt_trichotomy rem' half with h | h | h
  · have h1 : J * (rem' + 1) ≤ J * half := Nat.mul_le_mul_left J h
    rw [hsucc] at h1
    cases mode <;> simp only []
    · rw [Bool.eq_iff_iff]
      simp only [Bool.or_eq_true, Bool.and_eq_true, decide_eq_true_eq, beq_iff_eq]
      constructor
      · intro h'; omega
      · intro h'; omega
    · rw [Bool.eq_iff_iff]
      simp only [decide_eq_true_eq]
      constructor <;> intro h' <;> omega
  · subst h
    cases mode <;> simp only []
    · rw [Bool.eq_iff_iff]
      simp only [Bool.or_eq_true, Bool.and_eq_true, decide_eq_true_eq, beq_iff_eq, bne_iff_ne, ne_eq]
      constructor
      · intro h'
        right
        refine ⟨trivial, ?_⟩
        by_cases hl : low = 0
        · rcases h' with h' | h'
          · omega
          · rcases h'.2 with h'' | h''
            · exact Or.inl (Or.inl h'')
            · exact Or.inr h''
        · exact Or.inl (Or.inr hl)
      · intro h'
        by_cases hl : low = 0
        · right
          refine ⟨by omega, ?_⟩
          rcases h' with h' | h'
          · omega
          · rcases h'.2 with (h'' | h'') | h''
            · exact Or.inl h''
            · exact absurd hl h''
            · exact Or.inr h''
        · left; omega
    · rw [Bool.eq_iff_iff]
      simp only [decide_eq_true_eq]
      constructor <;> intro h' <;> omega
  · have h1 : J * (half + 1) ≤ J * rem' := Nat.mul_le_mul_left J h
    rw [hsucc] at h1
    cases mode <;> simp only []
    · rw [Bool.eq_iff_iff]
      simp only [Bool.or_eq_true, Bool.and_eq_true, decide_eq_true_eq, beq_iff_eq]
      constructor
      · intro h'; left; omega
      · intro h'; left; omega
    · rw [Bool.eq_iff_iff]
      simp only [decide_eq_true_eq]
      constructor <;> intro h' <;> omega

/-- Dropping `j` low digits of the coefficient into the sticky flag does not change the result,
    as long as at least `p + 1` digits are kept. -/
theorem roundInt_trunc (mode : Mode) (p : Nat) (neg : Bool) (N : Nat) (k : Int) (sb : Bool) (j : Nat)
    (hnd : p + 1 ≤ ndigits (N / 10 ^ j)) :
    roundInt mode p neg (N / 10 ^ j) (k + j) (sb || N % 10 ^ j != 0) = roundInt mode p neg N k sb := by
  have hJ := ten_pow_pos j
  have hnd' : ndigits (N / 10 ^ j) = ndigits N - j := ndigits_div_pow N j
  rw [hnd'] at hnd
  have he : ((ndigits N - j : Nat) : Int) + (k + j) = (ndigits N : Int) + k := by omega
  by_cases hmin : (ndigits N : Int) + k < MinExp
  · simp [roundInt, hnd', he, hmin]
  have h1 : ¬ (ndigits N - j ≤ p) := by omega
  have h2 : ¬ (ndigits N ≤ p) := by omega
  have hr : 1 ≤ ndigits N - j - p := by omega
  have hrr : ndigits N - p = (ndigits N - j - p) + j := by omega
  have hlo : N / 10 ^ j / 10 ^ (ndigits N - j - p) = N / 10 ^ (ndigits N - j - p + j) := by
    rw [Nat.div_div_eq_div_mul, ← Nat.pow_add, Nat.add_comm]
  have hrem : N % 10 ^ (ndigits N - j - p + j)
      = N % 10 ^ j + 10 ^ j * (N / 10 ^ j % 10 ^ (ndigits N - j - p)) := by
    rw [Nat.add_comm, Nat.pow_add, Nat.mod_mul]
  have hlow : N % 10 ^ j < 10 ^ j := Nat.mod_lt _ hJ
  have hz : (N % 10 ^ j + 10 ^ j * (N / 10 ^ j % 10 ^ (ndigits N - j - p)) == 0 && !sb)
      = (N / 10 ^ j % 10 ^ (ndigits N - j - p) == 0 && !(sb || N % 10 ^ j != 0)) := by
    generalize N / 10 ^ j % 10 ^ (ndigits N - j - p) = rem'
    generalize N % 10 ^ j = low
    generalize 10 ^ j = J at hJ
    rw [Bool.eq_iff_iff]
    simp only [Bool.and_eq_true, beq_iff_eq, Bool.not_eq_true', Bool.or_eq_false_iff, bne_eq_false_iff_eq,
      Nat.add_eq_zero_iff, Nat.mul_eq_zero]
    constructor
    · rintro ⟨⟨h3, h4⟩, h5⟩
      exact ⟨by omega, h5, h3⟩
    · rintro ⟨h3, h4, h5⟩
      exact ⟨⟨h5, Or.inr h3⟩, h4⟩
  simp only [roundInt, hnd', he, hmin, h1, h2, hrr, hlo, hrem, hz,
    incrInt_trunc _ _ _ _ _ _ _ _ hr hlow, if_false]

/-- The midpoint lemma: rounding the exact midpoint `N.5` of `(N, N+1)` gives the same result
    (coefficient, exponent, accuracy, range handling) as rounding any value strictly inside,
    in all six modes, when `N` has at least `p + 1` digits. -/
theorem roundInt_midpoint (mode : Mode) (p : Nat) (neg : Bool) (N : Nat) (k : Int)
    (hnd : p + 1 ≤ ndigits N) :
    roundInt mode p neg (N * 10 + 5) (k - 1) false = roundInt mode p neg N k true := by
  have h1 : (N * 10 + 5) / 10 ^ 1 = N := by omega
  have h2 : (N * 10 + 5) % 10 ^ 1 = 5 := by omega
  have h := roundInt_trunc mode p neg (N * 10 + 5) (k - 1) false 1 (by rw [h1]; exact hnd)
  rw [h1, h2] at h
  have h3 : k - 1 + ((1 : Nat) : Int) = k := by omega
  rw [h3] at h
  exact h.symm


/-! ### 4. The candidate -/

theorem goMod2_goDiv2 (b : Int) :
    (goMod2 b = 0 ∨ goMod2 b = 1 ∨ goMod2 b = -1) ∧ b = 2 * goDiv2 b + goMod2 b ∧
      (0 ≤ b → 2 * goDiv2 b ≤ b) ∧ (b ≤ 0 → b ≤ 2 * goDiv2 b) := by
  unfold goMod2 goDiv2
  rw [Int.tdiv_eq_ediv]
  have h2 : (2 : Int).sign = 1 := rfl
  rw [h2]
  split <;> omega

/-- `isqrtScaled M k` is the floor of the root of the rational `M × 10^k`, presented as
    `Mn / D` with `Mn = M × 10^(max k 0)`, `D = 10^(max (−k) 0)`, and the flag tells whether the
    root is not that integer. -/
theorem isqrtScaled_spec (M : Nat) (k : Int) :
    let c := (isqrtScaled M k).1
    let Mn := M * 10 ^ k.toNat
    let D := 10 ^ (-k).toNat
    c * c * D ≤ Mn ∧ Mn < (c + 1) * (c + 1) * D ∧ ((isqrtScaled M k).2 = true ↔ c * c * D ≠ Mn) := by
  unfold isqrtScaled
  by_cases hk : k ≥ 0
  · have h0 : (-k).toNat = 0 := by omega
    simp only [hk, if_true, h0, Nat.pow_zero, Nat.mul_one, bne_iff_ne, ne_eq]
    exact ⟨Nat.sqrt_le _, Nat.lt_succ_sqrt _, trivial⟩
  · have h0 : k.toNat = 0 := by omega
    have hD := ten_pow_pos (-k).toNat
    simp only [hk, if_false, h0, Nat.pow_zero, Nat.mul_one]
    refine ⟨(sqrt_div_bracket M _ hD).1, (sqrt_div_bracket M _ hD).2, ?_⟩
    rw [ne_eq, ← sqrt_div_exact M _ hD]
    simp only [Bool.or_eq_true, bne_iff_ne, ne_eq]
    constructor
    · rintro (h | h) ⟨h1, h2⟩
      · exact h h1
      · exact h h2
    · intro h
      by_cases h1 : Nat.sqrt (M / 10 ^ (-k).toNat) * Nat.sqrt (M / 10 ^ (-k).toNat) = M / 10 ^ (-k).toNat
      · right; intro h2; exact h ⟨h1, h2⟩
      · left; exact h1

theorem pow_le_pow10 {a b : Nat} (h : a ≤ b) : 10 ^ a ≤ 10 ^ b := Nat.pow_le_pow_right (by omega) h

/-- Item 3, first half: the candidate coefficient is the floor of the root of `M × 10^k`
    (`k = 2(p1 − se) + ez − 19·len`), has exactly `p1` digits, and the flag is "root ≠ floor". -/
theorem sqrtCandidate_bracket (M len : Nat) (ez : Int) (p1 : Nat) (hp1 : 1 ≤ p1) (hlen : 0 < len)
    (hM : ndigits M = len * 19) (hez : ez = 0 ∨ ez = 1 ∨ ez = -1) :
    let cand := sqrtCandidate M len ez p1
    let se : Int := if ez ≥ 1 then 1 else 0
    let k : Int := 2 * ((p1 : Int) - se) + ez - (len * 19 : Nat)
    let Mn := M * 10 ^ k.toNat
    let D := 10 ^ (-k).toNat
    cand.2.1 = se ∧ ndigits cand.1 = p1 ∧
      cand.1 * cand.1 * D ≤ Mn ∧ Mn < (cand.1 + 1) * (cand.1 + 1) * D ∧
      (cand.2.2 = true ↔ cand.1 * cand.1 * D ≠ Mn) := by
  intro cand se k Mn D
  have hspec := isqrtScaled_spec M k
  have hc : cand = ((isqrtScaled M k).1, se, (isqrtScaled M k).2) := rfl
  simp only at hspec
  rw [hc]
  simp only
  refine ⟨trivial, ?_, hspec⟩
  obtain ⟨h1, h2, -⟩ := hspec
  generalize (isqrtScaled M k).1 = c at h1 h2
  have hMpos : 0 < M := by
    rcases Nat.eq_zero_or_pos M with h | h
    · rw [h, ndigits_zero] at hM; omega
    · exact h
  have hMlo : 10 ^ (len * 19 - 1) ≤ M := by have := pow_le_of_ndigits hMpos; rwa [hM] at this
  have hMhi : M < 10 ^ (len * 19) := by have := ndigits_lt_pow M; rwa [hM] at this
  have hD : 0 < D := ten_pow_pos _
  -- bounds on the rational
  have hlo : 10 ^ (p1 - 1) * 10 ^ (p1 - 1) * D ≤ Mn := by
    show 10 ^ (p1 - 1) * 10 ^ (p1 - 1) * 10 ^ (-k).toNat ≤ M * 10 ^ k.toNat
    calc 10 ^ (p1 - 1) * 10 ^ (p1 - 1) * 10 ^ (-k).toNat
        = 10 ^ ((p1 - 1) + (p1 - 1) + (-k).toNat) := by rw [Nat.pow_add, Nat.pow_add]
      _ ≤ 10 ^ ((len * 19 - 1) + k.toNat) := pow_le_pow10 (by
          show (p1 - 1) + (p1 - 1) + (-k).toNat ≤ (len * 19 - 1) + k.toNat
          rcases hez with h | h | h <;> simp only [k, se, h] <;> omega)
      _ = 10 ^ (len * 19 - 1) * 10 ^ k.toNat := Nat.pow_add ..
      _ ≤ M * 10 ^ k.toNat := Nat.mul_le_mul_right _ hMlo
  have hhi : Mn < 10 ^ p1 * 10 ^ p1 * D := by
    show M * 10 ^ k.toNat < 10 ^ p1 * 10 ^ p1 * 10 ^ (-k).toNat
    calc M * 10 ^ k.toNat < 10 ^ (len * 19) * 10 ^ k.toNat :=
          Nat.mul_lt_mul_of_pos_right hMhi (ten_pow_pos _)
      _ = 10 ^ (len * 19 + k.toNat) := (Nat.pow_add ..).symm
      _ ≤ 10 ^ (p1 + p1 + (-k).toNat) := pow_le_pow10 (by
          show len * 19 + k.toNat ≤ p1 + p1 + (-k).toNat
          rcases hez with h | h | h <;> simp only [k, se, h] <;> omega)
      _ = _ := by rw [Nat.pow_add, Nat.pow_add]
  have h3 : 10 ^ (p1 - 1) < c + 1 :=
    Nat.mul_self_lt_mul_self_iff.mp (Nat.lt_of_mul_lt_mul_right (Nat.lt_of_le_of_lt hlo h2))
  have h4 : c < 10 ^ p1 :=
    Nat.mul_self_lt_mul_self_iff.mp (Nat.lt_of_mul_lt_mul_right (Nat.lt_of_le_of_lt h1 hhi))
  exact ndigits_eq_of_coef (by omega) h4


/-- The integer root, its scale and the sticky flag that `Spec.sqrtSV` rounds, for the magnitude
    `M × 10^kx`: `X = M·10^o·10^(2(p+1))` with `o = kx mod 2`, `N = ⌊√X⌋`, so that
    `√(M × 10^kx) = √X × 10^((kx−o)/2 − (p+1))`. -/
def specRoot (M : Nat) (kx : Int) (p : Nat) : Nat × Int × Bool :=
  let o : Nat := if kx % 2 != 0 then 1 else 0
  let X := M * 10 ^ o * 10 ^ (2 * (p + 1))
  let N := Nat.sqrt X
  (N, (kx - (o : Nat)) / 2 - ((p + 1 : Nat) : Int), N * N != X)

theorem sqrtSV_fin (mode : Mode) (p M : Nat) (kx : Int) :
    sqrtSV mode p (.fin false (M : Rat) kx) =
      some (roundInt mode p false (specRoot M kx p).1 (specRoot M kx p).2.1 (specRoot M kx p).2.2) := by
  unfold sqrtSV specRoot
  simp only [Rat.num_natCast, Int.natAbs_natCast]
  by_cases h : kx % 2 = 0
  · simp [h]
  · simp [h]

/-- Item 3, second half: the candidate against the root the specification rounds. -/
theorem sqrtCandidate_vs_spec (M len : Nat) (b : Int) (p : Nat) (hlen : 0 < len)
    (hM : ndigits M = len * 19) :
    let cand := sqrtCandidate M len (goMod2 b) (p + 1)
    let R := specRoot M (b - (len * 19 : Nat)) p
    ∃ j : Nat, cand.1 = R.1 / 10 ^ j ∧ cand.2.2 = (R.2.2 || R.1 % 10 ^ j != 0) ∧
      R.2.1 + j = cand.2.1 - ((p + 1 : Nat) : Int) + goDiv2 b := by
  intro cand R
  obtain ⟨hez, hb, -, -⟩ := goMod2_goDiv2 b
  obtain ⟨hse, -, hc1, hc2, hci⟩ := sqrtCandidate_bracket M len (goMod2 b) (p + 1) (by omega) hlen hM hez
  change cand.2.1 = _ at hse
  change cand.1 * cand.1 * _ ≤ _ at hc1
  change _ < (cand.1 + 1) * (cand.1 + 1) * _ at hc2
  change (cand.2.2 = true ↔ cand.1 * cand.1 * _ ≠ _) at hci
  generalize cand = cd at *
  generalize hh : goDiv2 b = h at *
  generalize hezd : goMod2 b = ez at *
  -- spec side
  generalize ho : (if (b - ((len * 19 : Nat) : Int)) % 2 != 0 then 1 else 0 : Nat) = o
  have ho' : (o = 1 ∧ (b - ((len * 19 : Nat) : Int)) % 2 = 1) ∨ (o = 0 ∧ (b - ((len * 19 : Nat) : Int)) % 2 = 0) := by
    by_cases h2 : (b - ((len * 19 : Nat) : Int)) % 2 = 0
    · right
      rw [if_neg (by rw [bne_iff_ne]; exact fun h => h h2)] at ho
      exact ⟨ho.symm, h2⟩
    · left
      rw [if_pos (by rw [bne_iff_ne]; exact h2)] at ho
      exact ⟨ho.symm, by omega⟩
  have hR : R = (Nat.sqrt (M * 10 ^ o * 10 ^ (2 * (p + 1))),
      (b - ((len * 19 : Nat) : Int) - (o : Nat)) / 2 - ((p + 1 : Nat) : Int),
      Nat.sqrt (M * 10 ^ o * 10 ^ (2 * (p + 1))) * Nat.sqrt (M * 10 ^ o * 10 ^ (2 * (p + 1)))
        != M * 10 ^ o * 10 ^ (2 * (p + 1))) := by
    show specRoot M _ p = _
    unfold specRoot
    simp only [ho]
  rw [hR]
  simp only
  generalize hse' : (if ez ≥ 1 then (1 : Int) else 0) = se at *
  generalize hk : 2 * (((p + 1 : Nat) : Int) - se) + ez - ((len * 19 : Nat) : Int) = k at *
  have hsev : (ez = 1 ∧ se = 1) ∨ (ez = 0 ∧ se = 0) ∨ (ez = -1 ∧ se = 0) := by
    rcases hez with h | h | h <;> simp [h] at hse' <;> omega
  let j : Nat := (((o : Int) + 2 * se - ez + ((len * 19 : Nat) : Int)) / 2).toNat
  have hj : ((j : Nat) : Int) + j = (o : Int) + 2 * se - ez + ((len * 19 : Nat) : Int) := by
    show ((((o : Int) + 2 * se - ez + ((len * 19 : Nat) : Int)) / 2).toNat : Int) + _ = _
    omega
  generalize j = j at hj
  have hexp : o + 2 * (p + 1) + (-k).toNat = k.toNat + (j + j) := by omega
  have hX : M * 10 ^ o * 10 ^ (2 * (p + 1)) * 10 ^ (-k).toNat = M * 10 ^ k.toNat * (10 ^ j * 10 ^ j) := by
    calc M * 10 ^ o * 10 ^ (2 * (p + 1)) * 10 ^ (-k).toNat
        = M * 10 ^ (o + 2 * (p + 1) + (-k).toNat) := by rw [Nat.pow_add, Nat.pow_add]; ring
      _ = M * 10 ^ (k.toNat + (j + j)) := by rw [hexp]
      _ = _ := by rw [Nat.pow_add, Nat.pow_add]; ring
  have hbr := sqrt_trunc_bracket _ _ _ _ (ten_pow_pos (-k).toNat) (ten_pow_pos j) hX
  have hcoef := sqrt_div_unique hc1 hc2 hbr.1 hbr.2
  refine ⟨j, hcoef, ?_, ?_⟩
  · rw [Bool.eq_iff_iff, hci, hcoef, ne_eq,
      sqrt_trunc_exact _ _ _ _ (ten_pow_pos (-k).toNat) (ten_pow_pos j) hX]
    simp only [Bool.or_eq_true, bne_iff_ne, ne_eq]
    exact Decidable.not_and_iff_not_or_not
  · rw [hse]
    omega


/-! ### 5. Re-rounding, exponent shift, assembly -/

/-- `round` leaves a value that is already rounded to `prec` digits in `⌈prec/19⌉` words alone
    (only the accuracy is reset): this is what `SetMantExp(z, e)` does after `Set`. -/
theorem round_fixed (neg : Bool) (m n : Nat) (e : Int) (prec : Nat) (mode : Mode) (acc : Acc)
    (hn : n = (prec + 18) / 19) (hm : m % 10 ^ (n * 19 - prec) = 0) :
    round ⟨.finite, neg, m, n, e, prec, mode, acc⟩ false = ⟨.finite, neg, m, n, e, prec, mode, Exact⟩ := by
  by_cases hle : n * 19 ≤ prec
  · exact round_short _ _ _ _ _ _ _ _ hle
  · obtain ⟨r, hr⟩ : ∃ r, n * 19 - prec = r + 1 := ⟨n * 19 - prec - 1, by omega⟩
    have hr' : n * 19 - prec - 1 = r := by omega
    have hdm := Nat.div_add_mod m (10 ^ (n * 19 - prec))
    rw [hm, Nat.add_zero, hr, Nat.pow_succ, Nat.mul_assoc] at hdm
    have hdig : digitAt m (n * 19 - prec - 1) = 0 := by
      unfold digitAt
      rw [hr', ← hdm, Nat.mul_div_cancel_left _ (ten_pow_pos _)]
      omega
    have hst : stickyBelow m (n * 19 - prec - 1) = false := by
      unfold stickyBelow
      rw [hr', ← hdm, Nat.mul_mod_right]
      rfl
    have hnn : ¬ (n > n) := by omega
    simp only [round, DW_eq, bne_self_eq_false, Bool.false_eq_true, if_false, hle, hdig, hst, hnn,
      ← hn, hm, Nat.sub_zero]
    simp


theorem trunc_mod (a L : Nat) : (a - a % L) % L = 0 := by
  rw [sub_mod_eq, Nat.mul_mod_left]

theorem roundShape_round (neg : Bool) (exp : Int) (prec : Nat) (mode : Mode) (n : Nat)
    (X I O : Bool) (mInf a b c L : Nat) (e' : Int) (hn : n = (prec + 18) / 19)
    (hL : L = 10 ^ (n * 19 - prec))
    (hf : (roundShape neg exp prec mode n X I O mInf (a - a % L) (b - b % L) (c - c % L)).form = .finite) :
    round { roundShape neg exp prec mode n X I O mInf (a - a % L) (b - b % L) (c - c % L) with exp := e' } false
      = { roundShape neg exp prec mode n X I O mInf (a - a % L) (b - b % L) (c - c % L) with
            exp := e', acc := Exact } := by
  subst hL
  unfold roundShape at hf ⊢
  cases X <;> cases I <;> cases O <;> simp only [if_true, if_false, Bool.false_eq_true] at hf ⊢
  all_goals first
    | exact round_fixed _ _ _ _ _ _ _ hn (trunc_mod _ _)
    | (by_cases hm : exp ≥ MaxExp
       · simp [hm] at hf
       · simp only [hm, if_false]
         exact round_fixed _ _ _ _ _ _ _ hn (trunc_mod _ _))

/-- Rounding again (with any exponent) a value that `round` produced changes nothing but the
    accuracy. -/
theorem round_round (neg : Bool) (mant len : Nat) (exp : Int) (prec : Nat) (mode : Mode) (acc : Acc)
    (sb : Bool) (e' : Int)
    (hf : (round ⟨.finite, neg, mant, len, exp, prec, mode, acc⟩ sb).form = .finite) :
    round { round ⟨.finite, neg, mant, len, exp, prec, mode, acc⟩ sb with exp := e' } false
      = { round ⟨.finite, neg, mant, len, exp, prec, mode, acc⟩ sb with exp := e', acc := Exact } := by
  by_cases hle : len * 19 ≤ prec
  · rw [round_short _ _ _ _ _ _ _ _ hle]
    exact round_short _ _ _ _ _ _ _ _ hle
  · have hgt : prec < len * 19 := by omega
    rw [round_eq_shape _ _ _ _ _ _ _ _ hgt] at hf ⊢
    exact roundShape_round _ _ _ _ _ _ _ _ _ _ _ _ _ _ rfl rfl hf

theorem roundIntTail_shift (p : Nat) (neg : Bool) (lo : Nat) (e h : Int) (E I : Bool)
    (h2 : e + 1 ≤ MaxExp) (h4 : e + h + 1 ≤ MaxExp) :
    (roundIntTail p neg lo e E I).form = .finite ∧
    roundIntTail p neg lo (e + h) E I =
      { roundIntTail p neg lo e E I with exp := (roundIntTail p neg lo e E I).exp + h } ∧
    ((roundIntTail p neg lo e E I).exp = e ∨ (roundIntTail p neg lo e E I).exp = e + 1) := by
  have e3 : ¬ (e > MaxExp) := by omega
  have e4 : ¬ (e + h > MaxExp) := by omega
  have e5 : ¬ (e + 1 > MaxExp) := by omega
  have e6 : ¬ (e + h + 1 > MaxExp) := by omega
  unfold roundIntTail
  simp only
  generalize (if (!E && I) = true then lo + 1 else lo) = c
  by_cases hc : (c == 10 ^ p) = true
  · simp only [hc, if_true, e5, e6, if_false]
    exact ⟨trivial, by congr 1; omega, Or.inr trivial⟩
  · have hc' : (c == 10 ^ p) = false := by simpa using hc
    simp only [hc', Bool.false_eq_true, if_false, e3, e4]
    exact ⟨trivial, trivial, Or.inl trivial⟩

/-- Shifting the scale moves the exponent only, as long as nothing leaves the range. -/
theorem roundInt_shift (mode : Mode) (p : Nat) (neg : Bool) (N : Nat) (k h : Int) (sb : Bool)
    (hgt : p < ndigits N)
    (h1 : MinExp ≤ (ndigits N : Int) + k) (h2 : (ndigits N : Int) + k + 1 ≤ MaxExp)
    (h3 : MinExp ≤ (ndigits N : Int) + k + h) (h4 : (ndigits N : Int) + k + h + 1 ≤ MaxExp) :
    (roundInt mode p neg N k sb).form = .finite ∧
    roundInt mode p neg N (k + h) sb =
      { roundInt mode p neg N k sb with exp := (roundInt mode p neg N k sb).exp + h } ∧
    ((roundInt mode p neg N k sb).exp = (ndigits N : Int) + k ∨
      (roundInt mode p neg N k sb).exp = (ndigits N : Int) + k + 1) := by
  have e7 : (ndigits N : Int) + (k + h) = (ndigits N : Int) + k + h := by omega
  rw [roundInt_eq_tail _ _ _ _ _ _ (by omega) hgt, roundInt_eq_tail _ _ _ _ _ _ (by omega) hgt, e7]
  exact roundIntTail_shift _ _ _ _ _ _ _ h2 h4


theorem ndigits_midpoint {c q : Nat} (hc : ndigits c = q + 1) : ndigits (c * 10 + 5) = q + 1 + 1 := by
  have hpos : 0 < c := by
    rcases Nat.eq_zero_or_pos c with h | h
    · rw [h, ndigits_zero] at hc; omega
    · exact h
  have h1 : 10 ^ q ≤ c := by have := pow_le_of_ndigits hpos; rwa [hc] at this
  have h2 : c < 10 ^ (q + 1) := by have := ndigits_lt_pow c; rwa [hc] at this
  apply ndigits_unique
  · show 10 ^ (q + 1) ≤ c * 10 + 5
    rw [Nat.pow_succ]; omega
  · have : 10 ^ (q + 1 + 1) = 10 ^ (q + 1) * 10 := by rw [Nat.pow_succ]
    omega
  · omega

/-- The tail of `Sqrt` after the candidate: `Set` of the candidate (or of the midpoint), then
    `SetMantExp(z, b/2)`, against `roundInt` of the candidate with its inexact flag. -/
theorem sqrtTail_correct (z : Dec) (c : Nat) (se h : Int) (inexact : Bool) (hp : 1 ≤ z.prec)
    (hc : ndigits c = z.prec + 1) (hse : se = 0 ∨ se = 1)
    (hh1 : -1073741824 ≤ h) (hh2 : h ≤ 1073741824) :
    let sc := if inexact then c * 10 + 5 else c
    let sprec := if inexact then z.prec + 1 + 1 else z.prec + 1
    let s : Dec := { form := .finite, neg := false, mant := sc * 10 ^ dnormShift sc (nwords sc),
                     len := nwords sc, exp := se, prec := sprec, mode := .ToZero, acc := Exact }
    let z1 := set z s false
    agreesValue (setMantExp z1 z1 h true)
      (roundInt z.mode z.prec false c (se - ((z.prec + 1 : Nat) : Int) + h) inexact) = true ∧
    (setMantExp z1 z1 h true).acc = Exact := by
  intro sc sprec s z1
  obtain ⟨form, neg, mant, len, exp, prec, mode, acc⟩ := z
  simp only at hp hc sc sprec s z1 ⊢
  have hMin : MinExp = -2147483648 := rfl
  have hMax : MaxExp = 2147483647 := rfl
  have hcpos : 0 < c := by
    rcases Nat.eq_zero_or_pos c with h | h
    · rw [h, ndigits_zero] at hc; omega
    · exact h
  have hscnd : ndigits sc = sprec := by
    cases inexact
    · exact hc
    · exact ndigits_midpoint hc
  have hscpos : 0 < sc := by
    cases inexact
    · exact hcpos
    · show 0 < c * 10 + 5; omega
  have hsp : prec < sprec := by
    cases inexact
    · simp [sprec]
    · simp [sprec]; omega
  -- z1 as a `round`
  have hz1 : z1 = round ⟨.finite, false, sc * 10 ^ dnormShift sc (nwords sc), nwords sc, se, prec, mode, Exact⟩ false := by
    show set _ s false = _
    have h0 : (prec == 0) = false := by simp; omega
    simp only [set, Bool.false_eq_true, if_false, s, beq_self_eq_true, if_true, h0, hsp]
  -- the same through `setNormAndRound`
  have hsn : setNormAndRound ⟨.finite, false, mant, len, exp, prec, mode, Exact⟩ sc (se - (sprec : Nat)) false
      = round ⟨.finite, false, sc * 10 ^ dnormShift sc (nwords sc), nwords sc, se, prec, mode, Exact⟩ false := by
    have hs := ndigits_add_dnormShift sc
    have hE : se - (sprec : Int) + ((nwords sc * DW : Nat) : Int) - (dnormShift sc (nwords sc) : Int) = se := by
      rw [DW_eq]; omega
    have a1 : ¬ (se < MinExp) := by omega
    have a2 : ¬ (se > MaxExp) := by omega
    simp only [setNormAndRound, hE, setExpAndRound, a1, a2, if_false]
  have hag := setNormAndRound_eq_roundInt ⟨.finite, false, mant, len, exp, prec, mode, Exact⟩ sc
    (se - (sprec : Nat)) false hscpos hp (by intro h; exact absurd h (by simp))
  simp only at hag
  rw [hsn, ← hz1] at hag
  -- the spec side
  have hr1 : roundInt mode prec false sc (se - (sprec : Nat)) false
      = roundInt mode prec false c (se - ((prec + 1 : Nat) : Int)) inexact := by
    cases inexact
    · rfl
    · have := roundInt_midpoint mode prec false c (se - ((prec + 1 : Nat) : Int)) (by omega)
      rw [← this]
      show roundInt mode prec false (c * 10 + 5) (se - ((prec + 1 + 1 : Nat) : Int)) false = _
      congr 1
      omega
  rw [hr1] at hag
  have hnde : ((ndigits c : Nat) : Int) + (se - ((prec + 1 : Nat) : Int)) = se := by rw [hc]; omega
  obtain ⟨hfin, hshift, hexp⟩ := roundInt_shift mode prec false c (se - ((prec + 1 : Nat) : Int)) h inexact
    (by omega) (by rw [hnde]; omega) (by rw [hnde]; omega) (by rw [hnde]; omega) (by rw [hnde]; omega)
  rw [hnde] at hexp
  rw [hshift]
  generalize roundInt mode prec false c (se - ((prec + 1 : Nat) : Int)) inexact = r1 at *
  -- second rounding
  have hz1f : z1.form = .finite := by
    have := hag.1
    simp only [agrees, Bool.and_eq_true, beq_iff_eq] at this
    rw [this.1.1.1, hfin]
  have hrr := round_round false (sc * 10 ^ dnormShift sc (nwords sc)) (nwords sc) se prec mode Exact false
    (z1.exp + h) (by rw [← hz1]; exact hz1f)
  rw [← hz1] at hrr
  obtain ⟨hag, -, -, -⟩ := hag
  generalize z1 = w at *
  obtain ⟨wform, wneg, wmant, wlen, wexp, wprec, wmode, wacc⟩ := w
  simp only at hz1f hrr hag ⊢
  subst hz1f
  simp only [agrees, Bool.and_eq_true, beq_iff_eq, bne_self_eq_false, Bool.false_or] at hag
  obtain ⟨⟨⟨-, hneg⟩, -⟩, he, hm⟩ := hag
  have b1 : ¬ (wexp + h < MinExp) := by omega
  have b2 : ¬ (wexp + h > MaxExp) := by omega
  simp only [setMantExp, copy, if_true, bne_self_eq_false, Bool.false_eq_true, if_false,
    setExpAndRound, b1, b2, hrr]
  refine ⟨?_, trivial⟩
  simp only [agreesValue, agrees, hfin, hneg, he, beq_self_eq_true, Bool.and_true, Bool.true_and,
    bne_self_eq_false, Bool.false_or]
  exact beq_iff_eq.mpr hm


/-- The finite path of the model against `roundInt` of the root the specification rounds. -/
theorem sqrtFin_correct (z x : Dec) (hp : 1 ≤ z.prec) (hlen : 0 < x.len)
    (hnd : ndigits x.mant = x.len * 19) (hmin : MinExp ≤ x.exp) (hmax : x.exp ≤ MaxExp) :
    agreesValue (sqrtFin z x)
      (roundInt z.mode z.prec false (specRoot x.mant (x.exp - (x.len * 19 : Nat)) z.prec).1
        (specRoot x.mant (x.exp - (x.len * 19 : Nat)) z.prec).2.1
        (specRoot x.mant (x.exp - (x.len * 19 : Nat)) z.prec).2.2) = true ∧
    (sqrtFin z x).acc = Exact := by
  obtain ⟨j, hc, hi, he⟩ := sqrtCandidate_vs_spec x.mant x.len x.exp z.prec hlen hnd
  obtain ⟨hez, hb, hb1, hb2⟩ := goMod2_goDiv2 x.exp
  obtain ⟨hse, hcn, -⟩ := sqrtCandidate_bracket x.mant x.len (goMod2 x.exp) (z.prec + 1) (by omega)
    hlen hnd hez
  have hMin : MinExp = -2147483648 := rfl
  have hMax : MaxExp = 2147483647 := rfl
  have hse' : (sqrtCandidate x.mant x.len (goMod2 x.exp) (z.prec + 1)).2.1 = 0 ∨
      (sqrtCandidate x.mant x.len (goMod2 x.exp) (z.prec + 1)).2.1 = 1 := by
    rw [hse]; split <;> simp
  rw [← roundInt_trunc z.mode z.prec false _ _ _ j (by rw [← hc, hcn]),
    ← hc, ← hi, he]
  exact sqrtTail_correct z _ _ (goDiv2 x.exp) _ hp hcn hse' (by omega) (by omega)

theorem ofDec_finite' {x : Dec} (h : x.form = .finite) :
    ofDec x = .fin x.neg (x.mant : Rat) (x.exp - (x.len * 19 : Nat)) := by
  simp [ofDec, h, DW_eq]

theorem makeAcc_ne_zero (b : Bool) : makeAcc b ≠ 0 := by cases b <;> decide

theorem roundIntTail_acc (p : Nat) (neg : Bool) (lo : Nat) (e : Int) (E I : Bool)
    (h : (roundIntTail p neg lo e E I).acc = 0) : E = true := by
  unfold roundIntTail at h
  simp only at h
  generalize (if ((if (!E && I) = true then lo + 1 else lo) == 10 ^ p) = true then (10 ^ (p - 1), e + 1)
    else (if (!E && I) = true then lo + 1 else lo, e)) = pr at h
  split at h
  · exact absurd h (makeAcc_ne_zero _)
  · cases E
    · exact absurd h (makeAcc_ne_zero _)
    · rfl

/-- `roundInt` with an exact result does not depend on the mode. -/
theorem roundInt_exact_mode_indep (mode mode' : Mode) (p : Nat) (neg : Bool) (N : Nat) (k : Int)
    (sb : Bool) (h : (roundInt mode p neg N k sb).acc = 0) :
    roundInt mode' p neg N k sb = roundInt mode p neg N k sb := by
  by_cases hmin : (ndigits N : Int) + k < MinExp
  · simp only [roundInt, hmin, if_true]
  by_cases hnd : ndigits N ≤ p
  · simp only [roundInt, hmin, hnd, if_true, if_false]
  rw [roundInt_eq_tail _ _ _ _ _ _ hmin (by omega)] at h ⊢
  rw [roundInt_eq_tail _ _ _ _ _ _ hmin (by omega)]
  simp only at h ⊢
  have hE := roundIntTail_acc _ _ _ _ _ _ h
  rw [hE]
  rfl


/-- The result of `Spec.sqrtSV` on a non-negative finite canonical operand, named. -/
def sqrtSpecRes (mode : Mode) (p : Nat) (x : Dec) : SRes :=
  roundInt mode p false (specRoot x.mant (x.exp - (x.len * 19 : Nat)) p).1
    (specRoot x.mant (x.exp - (x.len * 19 : Nat)) p).2.1
    (specRoot x.mant (x.exp - (x.len * 19 : Nat)) p).2.2

theorem sqrtSV_ofDec (mode : Mode) (p : Nat) (x : Dec) (hf : x.form = .finite) (hneg : x.neg = false) :
    sqrtSV mode p (ofDec x) = some (sqrtSpecRes mode p x) := by
  rw [ofDec_finite' hf, hneg, sqrtSV_fin]
  rfl

theorem sqrt_finite_eq (z x : Dec) (hf : x.form = .finite) (hneg : x.neg = false) :
    sqrt z x = (sqrtFin (prologue z x.prec) x, .ok) := by
  rw [sqrt_eq_sqrtK]
  simp [sqrtK, opnd, hf, hneg]

/-- Main theorem (distinct variables). -/
theorem sqrt_correct_main (z x : Dec) (hneg : x.neg = false) (hf : x.form = .finite)
    (hlen : 0 < x.len) (hnd : ndigits x.mant = x.len * 19) (hmin : MinExp ≤ x.exp)
    (hmax : x.exp ≤ MaxExp) (hp : 1 ≤ (prologue z x.prec).prec) :
    sqrtSV z.mode (prologue z x.prec).prec (ofDec x)
        = some (sqrtSpecRes z.mode (prologue z x.prec).prec x) ∧
      (sqrt z x).2 = .ok ∧
      agreesValue (sqrt z x).1 (sqrtSpecRes z.mode (prologue z x.prec).prec x) = true ∧
      (sqrt z x).1.prec = (prologue z x.prec).prec ∧ (sqrt z x).1.mode = z.mode ∧
      (sqrt z x).1.acc = Exact := by
  have hfc := sqrtFin_correct (prologue z x.prec) x hp hlen hnd hmin hmax
  rw [prologue_mode] at hfc
  refine ⟨sqrtSV_ofDec _ _ x hf hneg, ?_, ?_, ?_, sqrt_mode z x false, ?_⟩
  · rw [sqrt_finite_eq z x hf hneg]
  · rw [sqrt_finite_eq z x hf hneg]
    exact hfc.1
  · rw [sqrt_finite_eq z x hf hneg]
    exact sqrtFin_prec _ _ (by omega)
  · rw [sqrt_finite_eq z x hf hneg]
    exact hfc.2

theorem roundInt_acc_of_exact (mode : Mode) (p : Nat) (neg : Bool) (N : Nat) (k : Int)
    (hgt : p < ndigits N) (hmin : MinExp ≤ (ndigits N : Int) + k) (hmax : (ndigits N : Int) + k ≤ MaxExp)
    (hrem : N % 10 ^ (ndigits N - p) = 0) :
    (roundInt mode p neg N k false).acc = 0 ∧ (roundInt mode p neg N k false).form = .finite ∧
      (roundInt mode p neg N k false).coef = N / 10 ^ (ndigits N - p) := by
  rw [roundInt_eq_tail _ _ _ _ _ _ (by omega) hgt]
  have hlo : N / 10 ^ (ndigits N - p) < 10 ^ p := by
    have := ndigits_lt_pow (N / 10 ^ (ndigits N - p))
    rw [ndigits_div_pow] at this
    have e : ndigits N - (ndigits N - p) = p := by omega
    rwa [e] at this
  have hne : (N / 10 ^ (ndigits N - p) == 10 ^ p) = false := by
    rw [beq_eq_false_iff_ne]; omega
  have hmx : ¬ ((ndigits N : Int) + k > MaxExp) := by omega
  simp only [roundIntTail, hrem, beq_self_eq_true, Bool.not_false, Bool.and_true, Bool.not_true,
    Bool.false_and, Bool.false_eq_true, if_false, hne, hmx, if_true]
  exact ⟨rfl, trivial, trivial⟩


/-- With an effective precision 0 (receiver and finite operand both of precision 0, not a
    reachable Go state) the result takes the precision of the candidate / midpoint. -/
theorem sqrtFin_prec_zero (z x : Dec) (h : z.prec = 0) :
    (sqrtFin z x).prec =
      if (sqrtCandidate x.mant x.len (goMod2 x.exp) (z.prec + 1)).2.2 then z.prec + 1 + 1 else z.prec + 1 := by
  unfold sqrtFin
  simp only [setMantExp_prec, set_prec, if_true, h, and_self]

end Decimal
