/-
  The unsigned kernels `uadd usub umul uquo` compute the exact result rounded once.
-/
import Proofs.Canonical
import Proofs.Round
import Proofs.RoundSpec
import DecimalModel.Spec.IEEE
import Mathlib.Tactic.FieldSimp

namespace Decimal.Spec'
open Decimal Spec

/-- The exact sum `(±q × 10^k) + (±r × 10^l)` rounded once: `SQ.add`, without the far-operand
    shortcut `SQ.addForRound` that `Spec.addSV` uses to stay executable. -/
def addExact (mode : Mode) (p : Nat) (a : Bool) (q : Rat) (k : Int) (b : Bool) (r : Rat) (l : Int) : SRes :=
  roundSQ mode p ((signedQ a q k).add (signedQ b r l)) (zeroSumSign mode a b)

/-- `Spec.addSV` with the exact sum in the finite/finite case. -/
def addSV (mode : Mode) (p : Nat) : SV → SV → Option SRes
  | .inf a, .inf b => if a == b then some (infRes a) else none
  | .inf a, _ => some (infRes a)
  | _, .inf b => some (infRes b)
  | .zero a, .zero b => some (zeroRes (zeroSumSign mode a b))
  | .zero _, y => some (roundSV mode p y)
  | x, .zero _ => some (roundSV mode p x)
  | .fin a q k, .fin b r l => some (addExact mode p a q k b r l)

def subSV (mode : Mode) (p : Nat) (x y : SV) : Option SRes := addSV mode p x (negSV y)

/-- `Spec.fmaSV` with the exact sum. -/
def fmaSV (mode : Mode) (p : Nat) (x y u : SV) : Option SRes :=
  match mulExact x y with
  | none => none
  | some pr => addSV mode p pr u

end Decimal.Spec'

namespace Decimal
open Spec

/-- `round_correct` (model = rational specification), available to the proofs layer. -/
theorem setNormAndRound_correct (z : Dec) (M : Nat) (e : Int) (sb : Bool) (q : ℚ)
    (hM : 0 < M) (hp : 1 ≤ z.prec) (hsb : sb = true → z.prec + 1 ≤ ndigits M)
    (hq : if sb then (M : ℚ) < q ∧ q < (M : ℚ) + 1 else q = (M : ℚ)) :
    agrees (setNormAndRound z M e sb) (Spec.round z.mode z.prec z.neg q e) = true
      ∧ (setNormAndRound z M e sb).prec = z.prec ∧ (setNormAndRound z M e sb).mode = z.mode
      ∧ (setNormAndRound z M e sb).neg = z.neg := by
  have h := setNormAndRound_eq_roundInt z M e sb hM hp hsb
  rw [roundInt_eq_round z.mode z.prec z.neg M e sb q hM hp hsb hq] at h
  exact h

/-- `SQ.add` aligns both coefficients to the smaller exponent. -/
theorem SQ_add_eq (s t : ℚ) (k l : Int) :
    (SQ.mk s k).add ⟨t, l⟩ =
      ⟨s * ((10 ^ (k - l).toNat : Nat) : ℚ) + t * ((10 ^ (l - k).toNat : Nat) : ℚ), min k l⟩ := by
  unfold SQ.add
  simp only
  by_cases h : k ≤ l
  · have a : (k - l).toNat = 0 := by omega
    have b : l - k ≥ 0 := by omega
    have c : min k l = k := by omega
    simp only [h, if_true, a, c, pow10Rat, b, Nat.pow_zero, Nat.cast_one, mul_one]
  · have a : (l - k).toNat = 0 := by omega
    have b : k - l ≥ 0 := by omega
    have c : min k l = l := by omega
    simp only [h, if_false, a, c, pow10Rat, b, if_true, Nat.pow_zero, Nat.cast_one, mul_one]

theorem alignL_cast (x y : Dec) :
    ((alignL x y : Nat) : ℚ) = (x.mant : ℚ) * ((10 ^ (intExp x - intExp y).toNat : Nat) : ℚ) := by
  unfold alignL; push_cast; rfl

theorem uadd_correct (z x y : Dec) (hx : FinCanon x) (_hy : FinCanon y) (hp : 1 ≤ z.prec) :
    let v := (SQ.mk (x.mant : ℚ) (intExp x)).add ⟨(y.mant : ℚ), intExp y⟩
    agrees (uadd z x y) (Spec.round z.mode z.prec z.neg v.s v.k) = true
      ∧ (uadd z x y).prec = z.prec ∧ (uadd z x y).mode = z.mode ∧ (uadd z x y).neg = z.neg := by
  intro v
  have hv : v = ⟨((alignL x y + alignL y x : Nat) : ℚ), min (intExp x) (intExp y)⟩ := by
    show (SQ.mk (x.mant : ℚ) (intExp x)).add ⟨(y.mant : ℚ), intExp y⟩ = _
    rw [SQ_add_eq, Nat.cast_add, alignL_cast, alignL_cast]
  rw [hv, uadd_eq]
  exact setNormAndRound_correct z _ _ false _
    (Nat.add_pos_left (alignL_pos hx y) _) hp (by intro h; cases h) (by simp)

theorem usub_correct (z x y : Dec) (_hx : FinCanon x) (_hy : FinCanon y) (hp : 1 ≤ z.prec)
    (hlt : alignL y x < alignL x y) :
    let v := (SQ.mk (x.mant : ℚ) (intExp x)).add ⟨-(y.mant : ℚ), intExp y⟩
    0 < v.s ∧ agrees (usub z x y) (Spec.round z.mode z.prec z.neg v.s v.k) = true
      ∧ (usub z x y).prec = z.prec ∧ (usub z x y).mode = z.mode ∧ (usub z x y).neg = z.neg := by
  intro v
  have hv : v = ⟨((alignL x y - alignL y x : Nat) : ℚ), min (intExp x) (intExp y)⟩ := by
    show (SQ.mk (x.mant : ℚ) (intExp x)).add ⟨-(y.mant : ℚ), intExp y⟩ = _
    rw [SQ_add_eq, Nat.cast_sub (Nat.le_of_lt hlt), alignL_cast, alignL_cast]
    congr 1; ring
  have hne : ¬ (alignL x y - alignL y x = 0) := by omega
  rw [hv, usub_eq]
  simp only [hne, if_false]
  refine ⟨by exact_mod_cast (show 0 < alignL x y - alignL y x by omega), ?_⟩
  exact setNormAndRound_correct z _ _ false _ (by omega) hp (by intro h; cases h) (by simp)

/-- Exact cancellation. -/
theorem usub_cancel (z x y : Dec) (heq : alignL x y = alignL y x) :
    usub z x y = { z with acc := Exact, form := .zero, neg := false } ∧
    ((SQ.mk (x.mant : ℚ) (intExp x)).add ⟨-(y.mant : ℚ), intExp y⟩).s = 0 := by
  constructor
  · rw [usub_eq]; simp [heq]
  · rw [SQ_add_eq]
    simp only
    have := alignL_cast x y
    have := alignL_cast y x
    rw [heq] at *
    linarith

theorem umul_correct (z x y : Dec) (hx : FinCanon x) (hy : FinCanon y) (hp : 1 ≤ z.prec) :
    agrees (umul z x y) (Spec.round z.mode z.prec z.neg ((x.mant : ℚ) * (y.mant : ℚ))
        (intExp x + intExp y)) = true
      ∧ (umul z x y).prec = z.prec ∧ (umul z x y).mode = z.mode ∧ (umul z x y).neg = z.neg := by
  unfold umul
  exact setNormAndRound_correct z _ _ false _ (Nat.mul_pos hx.mant_pos hy.mant_pos) hp
    (by intro h; cases h) (by simp)

/-- Number of words by which `uquo` extends the dividend. -/
def quoShift (z x y : Dec) : Nat := (((z.prec / 19 + 1 : Nat) : Int) - x.len + y.len).toNat

theorem uquo_eq (z x y : Dec) :
    uquo z x y =
      setNormAndRound z (x.mant * B ^ quoShift z x y / y.mant)
        (intExp x - intExp y - ((19 * quoShift z x y : Nat) : Int))
        (x.mant * B ^ quoShift z x y % y.mant != 0) := by
  unfold uquo quoShift
  simp only [DW_eq, intExp_eq]
  by_cases hd : ((z.prec / 19 + 1 : Nat) : Int) - x.len + y.len > 0
  · simp only [hd, if_true]
    congr 1
    push_cast
    omega
  · have h0 : (((z.prec / 19 + 1 : Nat) : Int) - x.len + y.len).toNat = 0 := by omega
    simp only [hd, if_false, h0, Nat.pow_zero, Nat.mul_one]
    congr 1
    push_cast
    omega


theorem quo_digits (z x y : Dec) (hx : FinCanon x) (hy : FinCanon y) :
    z.prec + 1 ≤ ndigits (x.mant * B ^ quoShift z x y / y.mant) := by
  have hD : ((z.prec / 19 + 1 : Nat) : Int) - x.len + y.len ≤ (quoShift z x y : Int) := by
    unfold quoShift; omega
  generalize quoShift z x y = D at hD
  have hlen : y.len + (z.prec / 19 + 1) ≤ x.len + D := by omega
  have hypos := hy.mant_pos
  have hxa : ndigits (x.mant * B ^ D) = 19 * (x.len + D) := by
    rw [B_pow, ndigits_mul_pow hx.mant_pos, hx.nd]; omega
  have hxapos : 0 < x.mant * B ^ D := Nat.mul_pos hx.mant_pos (by rw [B_pow]; exact pow_pos10 _)
  have h1 : 10 ^ (19 * (x.len + D) - 1) ≤ x.mant * B ^ D := by
    have := pow_le_of_ndigits hxapos; rwa [hxa] at this
  have h2 : y.mant < 10 ^ (19 * y.len) := by
    have := ndigits_lt_pow y.mant; rwa [hy.nd, Nat.mul_comm] at this
  have key : 10 ^ (19 * (x.len + D - y.len) - 1) ≤ x.mant * B ^ D / y.mant := by
    rw [Nat.le_div_iff_mul_le hypos]
    refine Nat.le_trans (Nat.le_of_lt (Nat.mul_lt_mul_of_pos_left h2 (pow_pos10 _))) ?_
    rw [← Nat.pow_add]
    have : 19 * (x.len + D - y.len) - 1 + 19 * y.len = 19 * (x.len + D) - 1 := by omega
    rw [this]; exact h1
  have := (lt_ndigits_iff _ _).mpr key
  omega

theorem uquo_correct (z x y : Dec) (hx : FinCanon x) (hy : FinCanon y) (hp : 1 ≤ z.prec) :
    agrees (uquo z x y) (Spec.round z.mode z.prec z.neg ((x.mant : ℚ) / (y.mant : ℚ))
        (intExp x - intExp y)) = true
      ∧ (uquo z x y).prec = z.prec ∧ (uquo z x y).mode = z.mode ∧ (uquo z x y).neg = z.neg := by
  have hdig := quo_digits z x y hx hy
  rw [uquo_eq]
  generalize quoShift z x y = D at *
  have hypos := hy.mant_pos
  have hyq : (0 : ℚ) < (y.mant : ℚ) := by exact_mod_cast hypos
  have hxq : (0 : ℚ) < (x.mant : ℚ) := by exact_mod_cast hx.mant_pos
  have hQpos : 0 < x.mant * B ^ D / y.mant := by
    rcases Nat.eq_zero_or_pos (x.mant * B ^ D / y.mant) with h | h
    · rw [h, ndigits_zero] at hdig; omega
    · exact h
  have hscale : ((x.mant * B ^ D : Nat) : ℚ) / (y.mant : ℚ)
      = (x.mant : ℚ) / (y.mant : ℚ) * ((10 ^ (19 * D) : Nat) : ℚ) := by
    rw [B_pow]; push_cast; ring
  rw [← round_scale z.mode z.prec z.neg _ (intExp x - intExp y) (19 * D) (div_pos hxq hyq), ← hscale]
  apply setNormAndRound_correct z _ _ _ _ hQpos hp (fun _ => hdig)
  have hdm := Nat.div_add_mod (x.mant * B ^ D) y.mant
  have hml := Nat.mod_lt (x.mant * B ^ D) hypos
  generalize x.mant * B ^ D = A at *
  generalize hQ : A / y.mant = Q at *
  generalize hR : A % y.mant = R at *
  have hA : (A : ℚ) = (y.mant : ℚ) * Q + R := by exact_mod_cast hdm.symm
  by_cases hr : R = 0
  · subst hr
    simp only [bne_self_eq_false, Bool.false_eq_true, if_false]
    rw [hA]; field_simp; ring
  · have hb : (R != 0) = true := by simp [hr]
    simp only [hb, if_true]
    have hR0 : (0 : ℚ) < R := by exact_mod_cast Nat.pos_of_ne_zero hr
    have hRy : (R : ℚ) < y.mant := by exact_mod_cast hml
    constructor
    · rw [lt_div_iff₀ hyq, hA]; nlinarith
    · rw [div_lt_iff₀ hyq, hA]; nlinarith

end Decimal
