/-
  The arithmetic tail of `Decimal.scan` (`scanTail`, Proofs/ScanBase2.lean): what is stored for the
  literal value `M × 10^t × 2^e2`.

  * `scanTail_zero`, `scanTail_overflow`: zero mantissa, decimal exponent out of range;
  * `pow2_of_fits`: `pow2 P n` is exactly `2^n` whenever `2^n` has at most `P` digits (any `P`);
  * `scanTail_exact`: whenever `2^|e2|` has at most `prec + 19` digits (in particular `e2 = 0`), the
    result is the exact value rounded ONCE (`Spec.round`), with truthful accuracy — and, as repaired
    (/repo 435b421), when `e2 ≠ 0` and that rounding leaves the exponent range (±Inf / ±0) the result
    is the error `expOverflow` instead;
  * `scanTail_mul_of`, `scanTail_quo_of`: in general the same with the value held by `pow2` in place
    of `2^|e2|` (bounded in Proofs/Pow2Err.lean).
-/
import Proofs.ScanBase2
import Proofs.SetFloat64
import Mathlib.Tactic.Ring
import Mathlib.Tactic.Linarith
import Mathlib.Tactic.NormNum
import Mathlib.Tactic.FieldSimp
import Mathlib.Tactic.Positivity

namespace Decimal
open Spec

/-- the receiver of `Decimal.scan` after the mantissa has been stored (before rounding/scaling). -/
def scanLoad (z : Dec) (neg : Bool) (p M : Nat) (t : Int) : Dec :=
  { z with neg := neg, prec := p, form := .finite, exp := (ndigits M : Int) + t,
           mant := M * 10 ^ dnormShift M (nwords M), len := nwords M }

theorem scanLoad_facts (z : Dec) (neg : Bool) (p M : Nat) (t : Int) (hM : 0 < M) (hp : 1 ≤ p)
    (h1 : MinExp ≤ (ndigits M : Int) + t) (h2 : (ndigits M : Int) + t ≤ MaxExp) :
    FinCanon (scanLoad z neg p M t) ∧ decMag (scanLoad z neg p M t) 0 = (M : ℚ) * (10 : ℚ) ^ t := by
  refine ⟨⟨rfl, nwords_pos hM, ndigits_dnorm hM, hp, h1, h2⟩, ?_⟩
  have h10 : (10 : ℚ) ≠ 0 := by norm_num
  unfold decMag
  show ((M * 10 ^ dnormShift M (nwords M) : Nat) : ℚ) *
      (10 : ℚ) ^ ((ndigits M : Int) + t - 0 - ((nwords M * 19 : Nat) : Int)) = (M : ℚ) * (10 : ℚ) ^ t
  have := ndigits_add_dnormShift M
  push_cast
  rw [mul_assoc, ← zpow_natCast, ← zpow_add₀ h10]
  congr 2
  omega

theorem scanTail_zero (z : Dec) (neg : Bool) (t e2 : Int) :
    scanTail z neg 0 t e2 =
      .ok { z with neg := neg, prec := if z.prec = 0 then 34 else z.prec, acc := Exact, form := .zero } := by
  unfold scanTail; simp

theorem scanTail_overflow (z : Dec) (neg : Bool) (M : Nat) (t e2 : Int) (hM : M ≠ 0)
    (hr : (ndigits M : Int) + t < MinExp ∨ (ndigits M : Int) + t > MaxExp) :
    scanTail z neg M t e2 = .error .expOverflow := by
  unfold scanTail; simp only [hM, if_false, hr, if_true]

/-- the receiver after the scaling by `2^e2` (`z.Mul(z, pow2)` / `z.Quo(z, pow2)`), before the range test. -/
def scanScaled (z : Dec) (neg : Bool) (M : Nat) (t e2 : Int) : Dec :=
  let p := if z.prec = 0 then 34 else z.prec
  let z1 := scanLoad z neg p M t
  if e2 < 0 then (quo z1 z1 (pow2 (p + DW) e2.natAbs) true false).1
  else (mul z1 z1 (pow2 (p + DW) e2.natAbs) true false).1

/-- `scanTail` in terms of `scanLoad` / `scanScaled`. -/
theorem scanTail_eq (z : Dec) (neg : Bool) (M : Nat) (t e2 : Int) (hM : M ≠ 0)
    (h1 : MinExp ≤ (ndigits M : Int) + t) (h2 : (ndigits M : Int) + t ≤ MaxExp) :
    scanTail z neg M t e2 =
      (if e2 = 0 then .ok (round (scanLoad z neg (if z.prec = 0 then 34 else z.prec) M t) false)
       else if (scanScaled z neg M t e2).form != .finite then .error .expOverflow
       else .ok (scanScaled z neg M t e2)) := by
  have hr : ¬ ((ndigits M : Int) + t < MinExp ∨ (ndigits M : Int) + t > MaxExp) := by omega
  unfold scanTail scanScaled scanLoad
  simp only [hM, if_false, hr]

/-- the scaled result decides: finite ⇒ it is returned, otherwise `expOverflow`. -/
theorem scanTail_scaled (z : Dec) (neg : Bool) (M : Nat) (t e2 : Int) (hM : M ≠ 0) (he : e2 ≠ 0)
    (h1 : MinExp ≤ (ndigits M : Int) + t) (h2 : (ndigits M : Int) + t ≤ MaxExp) :
    scanTail z neg M t e2 =
      (if (scanScaled z neg M t e2).form = .finite then .ok (scanScaled z neg M t e2) else .error .expOverflow) := by
  rw [scanTail_eq z neg M t e2 hM h1 h2, if_neg he]
  by_cases hf : (scanScaled z neg M t e2).form = .finite
  · simp [hf]
  · simp [hf]

theorem prec34_pos (z : Dec) : 1 ≤ (if z.prec = 0 then 34 else z.prec) := by split <;> omega

/-! ### `pow2` at an arbitrary working precision -/

theorem lt_of_two_pow_lt_ten_pow {n P : Nat} (h : 2 ^ n < 10 ^ P) : n < 4 * P := by
  have h16 : (10 : Nat) ^ P ≤ 16 ^ P := Nat.pow_le_pow_left (by omega) P
  have e : (16 : Nat) ^ P = 2 ^ (4 * P) := by
    rw [show (16 : Nat) = 2 ^ 4 by norm_num, ← Nat.pow_mul]
  rw [e] at h16
  exact (Nat.pow_lt_pow_iff_right (by omega : 1 < 2)).mp (lt_of_lt_of_le h h16)

/-- **`pow2` is exact whenever the power fits**: `pow2 P n` holds exactly `2^n`, flagged `Exact`,
    provided `2^n` has at most `P` decimal digits. -/
theorem pow2_of_fits (P n : Nat) (hP : 1 ≤ P) (hPm : P + 19 ≤ 2147483647) (hfit : ndigits (2 ^ n) ≤ P) :
    IsPow2 (pow2 P n) P n := by
  have hD : ∀ e, e ≤ n → ndigits (2 ^ e) ≤ P := fun e he =>
    le_trans (ndigits_mono (Nat.pow_le_pow_right (by omega) he)) hfit
  have hn4 : n < 4 * P := lt_of_two_pow_lt_ten_pow ((ndigits_le_iff _ _).mp hfit)
  unfold pow2
  simp only
  by_cases h64 : n < 64
  · rw [if_pos h64]
    exact setBits64_pow2 P n hP (by omega) hfit
  · rw [if_neg h64]
    have hz := setBits64_pow2 P 63 hP (by omega) (hD 63 (by omega))
    have hf := setBits64_pow2 (P + DW) 1 (by rw [DW_eq]; omega) (by rw [DW_eq]; omega)
      (by have := hD 1 (by omega); rw [DW_eq]; omega)
    have := pow2_loop_exact P n hP hPm hD 70 (n - 63) 63 1 _ _ hz hf
      (by calc n - 63 < 4 * 2147483647 := by omega
            _ < 2 ^ 70 := by norm_num)
      (by omega)
    have e : 63 + (n - 63) * 1 = n := by omega
    rw [e] at this
    simpa using this

/-! ### the three branches of `scanTail` -/

/-- no binary scale: the integer mantissa at its decimal scale, rounded once. -/
theorem scanTail_round (z : Dec) (neg : Bool) (M : Nat) (t : Int) (hM : 0 < M)
    (h1 : MinExp ≤ (ndigits M : Int) + t) (h2 : (ndigits M : Int) + t ≤ MaxExp) :
    ∃ d, scanTail z neg M t 0 = .ok d ∧
      agrees d (Spec.round z.mode (if z.prec = 0 then 34 else z.prec) neg (M : ℚ) t) = true ∧
      d.prec = (if z.prec = 0 then 34 else z.prec) ∧ d.mode = z.mode := by
  have hp := prec34_pos z
  obtain ⟨c, v⟩ := scanLoad_facts z neg _ M t hM hp h1 h2
  rw [scanTail_eq z neg M t 0 (by omega) h1 h2]
  simp only [if_true]
  refine ⟨_, rfl, ?_⟩
  obtain ⟨h, hpr, hmo, -⟩ := round_correct' _ c.form_eq c.len_pos c.nd c.prec_pos c.exp_ge c.exp_le
  have hmq : (0 : ℚ) < ((scanLoad z neg (if z.prec = 0 then 34 else z.prec) M t).mant : ℚ) := by
    exact_mod_cast c.mant_pos
  have hMq : (0 : ℚ) < (M : ℚ) := by exact_mod_cast hM
  rw [round_value_eq _ _ _ _ (M : ℚ) _ t hmq hMq (by rw [← decMag_zero, v])] at h
  exact ⟨h, hpr, hmo⟩

/-- a state that agrees with a specification result has its form. -/
theorem form_of_agrees {d : Dec} {r : SRes} (h : agrees d r = true) : d.form = r.form :=
  ((agrees_iff d r).mp h).1

/-- scaling up by a `pow2` holding the magnitude `w`: the product rounded once — returned when it is
    finite, `expOverflow` when it left the exponent range. -/
theorem scanTail_mul_of (z : Dec) (neg : Bool) (M : Nat) (t : Int) (k : Nat) (hM : 0 < M) (hk : k ≠ 0)
    (h1 : MinExp ≤ (ndigits M : Int) + t) (h2 : (ndigits M : Int) + t ≤ MaxExp)
    (hpw : FinCanon (pow2 ((if z.prec = 0 then 34 else z.prec) + DW) k))
    (hneg : (pow2 ((if z.prec = 0 then 34 else z.prec) + DW) k).neg = false) :
    ∃ r, agrees r (Spec.round z.mode (if z.prec = 0 then 34 else z.prec) neg
        ((M : ℚ) * decMag (pow2 ((if z.prec = 0 then 34 else z.prec) + DW) k) 0) t) = true ∧
      r.prec = (if z.prec = 0 then 34 else z.prec) ∧ r.mode = z.mode ∧
      scanTail z neg M t (k : Int) =
        (if (Spec.round z.mode (if z.prec = 0 then 34 else z.prec) neg
              ((M : ℚ) * decMag (pow2 ((if z.prec = 0 then 34 else z.prec) + DW) k) 0) t).form = .finite
         then .ok r else .error .expOverflow) := by
  have hp := prec34_pos z
  obtain ⟨c, v⟩ := scanLoad_facts z neg _ M t hM hp h1 h2
  have hk0 : ((k : Int) ≠ 0) := by omega
  have hkn : ¬ ((k : Int) < 0) := by omega
  rw [scanTail_scaled z neg M t k (by omega) hk0 h1 h2]
  have hsc : scanScaled z neg M t (k : Int) =
      (mul (scanLoad z neg (if z.prec = 0 then 34 else z.prec) M t)
        (scanLoad z neg (if z.prec = 0 then 34 else z.prec) M t)
        (pow2 ((if z.prec = 0 then 34 else z.prec) + DW) k) true false).1 := by
    unfold scanScaled
    simp only [hkn, if_false, Int.natAbs_natCast]
  rw [hsc]
  generalize hw : pow2 ((if z.prec = 0 then 34 else z.prec) + DW) k = w at hpw hneg ⊢
  have hz0 : (scanLoad z neg (if z.prec = 0 then 34 else z.prec) M t).prec ≠ 0 := by
    show (if z.prec = 0 then 34 else z.prec) ≠ 0; omega
  rw [mul_self_recv _ _ hz0]
  obtain ⟨h, -, hpr, hmo⟩ := mul_correct (scanLoad z neg (if z.prec = 0 then 34 else z.prec) M t)
    (scanLoad z neg (if z.prec = 0 then 34 else z.prec) M t) w c hpw
  rw [effPrec2_of_ne _ _ _ hz0] at h hpr
  have h10 : (10 : ℚ) ≠ 0 := by norm_num
  have hmq : (0 : ℚ) < ((scanLoad z neg (if z.prec = 0 then 34 else z.prec) M t).mant : ℚ) := by
    exact_mod_cast c.mant_pos
  have hwq : (0 : ℚ) < (w.mant : ℚ) := by exact_mod_cast hpw.mant_pos
  have hMq : (0 : ℚ) < (M : ℚ) := by exact_mod_cast hM
  have hwpos : 0 < decMag w 0 := decMag_pos hpw
  rw [round_value_eq _ _ _ _ ((M : ℚ) * decMag w 0) _ t (mul_pos hmq hwq) (mul_pos hMq hwpos)
    (by
      have e1 := decMag_zero (scanLoad z neg (if z.prec = 0 then 34 else z.prec) M t)
      have e2 := decMag_zero w
      rw [v] at e1
      rw [zpow_add₀ h10]
      calc _ = (((scanLoad z neg (if z.prec = 0 then 34 else z.prec) M t).mant : ℚ) *
              (10 : ℚ) ^ intExp (scanLoad z neg (if z.prec = 0 then 34 else z.prec) M t)) *
              ((w.mant : ℚ) * (10 : ℚ) ^ intExp w) := by ring
        _ = (M : ℚ) * (10 : ℚ) ^ t * decMag w 0 := by rw [← e1, ← e2]
        _ = _ := by ring)] at h
  have hsn : ((scanLoad z neg (if z.prec = 0 then 34 else z.prec) M t).neg != w.neg) = neg := by
    rw [hneg]; show (neg != false) = neg; cases neg <;> rfl
  rw [hsn] at h
  refine ⟨_, h, hpr, hmo, ?_⟩
  rw [form_of_agrees h]
  rfl

/-- scaling down by a `pow2` of magnitude `w`: the quotient rounded once — returned when finite,
    `expOverflow` when it left the exponent range. -/
theorem scanTail_quo_of (z : Dec) (neg : Bool) (M : Nat) (t : Int) (k : Nat) (hM : 0 < M) (hk : k ≠ 0)
    (h1 : MinExp ≤ (ndigits M : Int) + t) (h2 : (ndigits M : Int) + t ≤ MaxExp)
    (hpw : FinCanon (pow2 ((if z.prec = 0 then 34 else z.prec) + DW) k))
    (hneg : (pow2 ((if z.prec = 0 then 34 else z.prec) + DW) k).neg = false) :
    ∃ r, agrees r (Spec.round z.mode (if z.prec = 0 then 34 else z.prec) neg
        ((M : ℚ) / decMag (pow2 ((if z.prec = 0 then 34 else z.prec) + DW) k) 0) t) = true ∧
      r.prec = (if z.prec = 0 then 34 else z.prec) ∧ r.mode = z.mode ∧
      scanTail z neg M t (-(k : Int)) =
        (if (Spec.round z.mode (if z.prec = 0 then 34 else z.prec) neg
              ((M : ℚ) / decMag (pow2 ((if z.prec = 0 then 34 else z.prec) + DW) k) 0) t).form = .finite
         then .ok r else .error .expOverflow) := by
  have hp := prec34_pos z
  obtain ⟨c, v⟩ := scanLoad_facts z neg _ M t hM hp h1 h2
  have hk0 : (-(k : Int) ≠ 0) := by omega
  have hkn : (-(k : Int) < 0) := by omega
  rw [scanTail_scaled z neg M t (-(k : Int)) (by omega) hk0 h1 h2]
  have hsc : scanScaled z neg M t (-(k : Int)) =
      (quo (scanLoad z neg (if z.prec = 0 then 34 else z.prec) M t)
        (scanLoad z neg (if z.prec = 0 then 34 else z.prec) M t)
        (pow2 ((if z.prec = 0 then 34 else z.prec) + DW) k) true false).1 := by
    unfold scanScaled
    simp only [hkn, if_true, Int.natAbs_neg, Int.natAbs_natCast]
  rw [hsc]
  generalize hw : pow2 ((if z.prec = 0 then 34 else z.prec) + DW) k = w at hpw hneg ⊢
  have hz0 : (scanLoad z neg (if z.prec = 0 then 34 else z.prec) M t).prec ≠ 0 := by
    show (if z.prec = 0 then 34 else z.prec) ≠ 0; omega
  rw [quo_self_recv _ _ hz0]
  obtain ⟨h, -, hpr, hmo⟩ := quo_correct (scanLoad z neg (if z.prec = 0 then 34 else z.prec) M t)
    (scanLoad z neg (if z.prec = 0 then 34 else z.prec) M t) w c hpw
  rw [effPrec2_of_ne _ _ _ hz0] at h hpr
  have h10 : (10 : ℚ) ≠ 0 := by norm_num
  have hmq : (0 : ℚ) < ((scanLoad z neg (if z.prec = 0 then 34 else z.prec) M t).mant : ℚ) := by
    exact_mod_cast c.mant_pos
  have hwq : (0 : ℚ) < (w.mant : ℚ) := by exact_mod_cast hpw.mant_pos
  have hMq : (0 : ℚ) < (M : ℚ) := by exact_mod_cast hM
  have hwpos : 0 < decMag w 0 := decMag_pos hpw
  rw [round_value_eq _ _ _ _ ((M : ℚ) / decMag w 0) _ t (div_pos hmq hwq) (div_pos hMq hwpos)
    (by
      have e1 := decMag_zero (scanLoad z neg (if z.prec = 0 then 34 else z.prec) M t)
      have e2 := decMag_zero w
      rw [v] at e1
      rw [zpow_sub₀ h10]
      have hw10 : (10 : ℚ) ^ intExp w ≠ 0 := zpow_ne_zero _ h10
      calc _ = (((scanLoad z neg (if z.prec = 0 then 34 else z.prec) M t).mant : ℚ) *
              (10 : ℚ) ^ intExp (scanLoad z neg (if z.prec = 0 then 34 else z.prec) M t)) /
              ((w.mant : ℚ) * (10 : ℚ) ^ intExp w) := by field_simp
        _ = (M : ℚ) * (10 : ℚ) ^ t / decMag w 0 := by rw [← e1, ← e2]
        _ = _ := by ring)] at h
  have hsn : ((scanLoad z neg (if z.prec = 0 then 34 else z.prec) M t).neg != w.neg) = neg := by
    rw [hneg]; show (neg != false) = neg; cases neg <;> rfl
  rw [hsn] at h
  refine ⟨_, h, hpr, hmo, ?_⟩
  rw [form_of_agrees h]
  rfl

/-- **Exact scaling.** When `2^|e2|` has at most `prec + 19` digits (always for `e2 = 0`), the value
    `M × 10^t × 2^e2` is rounded ONCE to the receiver's precision (34 if 0) and mode; the result `r` is
    returned, except that (as repaired) a binary scale `e2 ≠ 0` whose rounded value left the exponent
    range (±Inf / ±0) is the error `expOverflow`. -/
theorem scanTail_exact (z : Dec) (neg : Bool) (M : Nat) (t e2 : Int) (hM : 0 < M)
    (h1 : MinExp ≤ (ndigits M : Int) + t) (h2 : (ndigits M : Int) + t ≤ MaxExp)
    (hprec : z.prec + 38 ≤ 2147483647)
    (hfit : ndigits (2 ^ e2.natAbs) ≤ (if z.prec = 0 then 34 else z.prec) + 19) :
    ∃ r, agrees r (Spec.round z.mode (if z.prec = 0 then 34 else z.prec) neg ((M : ℚ) * (2 : ℚ) ^ e2) t) = true ∧
      r.prec = (if z.prec = 0 then 34 else z.prec) ∧ r.mode = z.mode ∧
      scanTail z neg M t e2 =
        (if e2 ≠ 0 ∧ (Spec.round z.mode (if z.prec = 0 then 34 else z.prec) neg ((M : ℚ) * (2 : ℚ) ^ e2) t).form ≠ .finite
         then .error .expOverflow else .ok r) := by
  have hp := prec34_pos z
  have hpm : (if z.prec = 0 then 34 else z.prec) + 19 + 19 ≤ 2147483647 := by split <;> omega
  by_cases h0 : e2 = 0
  · subst h0
    obtain ⟨d, hd, hag, hpr, hmo⟩ := scanTail_round z neg M t hM h1 h2
    refine ⟨d, by simpa using hag, hpr, hmo, ?_⟩
    rw [hd]; simp
  · have hpw := pow2_of_fits ((if z.prec = 0 then 34 else z.prec) + 19) e2.natAbs (by omega) hpm hfit
    obtain ⟨fc, ng, -, vv, -, -⟩ := hpw
    by_cases hneg : e2 < 0
    · have he : e2 = -((e2.natAbs : Nat) : Int) := by omega
      obtain ⟨r, hag, hpr, hmo, hres⟩ := scanTail_quo_of z neg M t e2.natAbs hM (by omega) h1 h2
        (by rw [DW_eq]; exact fc) (by rw [DW_eq]; exact ng)
      rw [← he] at hres
      rw [DW_eq, vv] at hag hres
      have : (M : ℚ) * (2 : ℚ) ^ e2 = (M : ℚ) / (2 : ℚ) ^ e2.natAbs := by
        conv_lhs => rw [he]
        rw [zpow_neg, zpow_natCast]; rfl
      rw [this]
      refine ⟨r, hag, hpr, hmo, ?_⟩
      rw [hres]
      by_cases hf : (Spec.round z.mode (if z.prec = 0 then 34 else z.prec) neg
          ((M : ℚ) / (2 : ℚ) ^ e2.natAbs) t).form = .finite
      · simp [hf]
      · simp [hf, h0]
    · have he : e2 = ((e2.natAbs : Nat) : Int) := by omega
      obtain ⟨r, hag, hpr, hmo, hres⟩ := scanTail_mul_of z neg M t e2.natAbs hM (by omega) h1 h2
        (by rw [DW_eq]; exact fc) (by rw [DW_eq]; exact ng)
      rw [← he] at hres
      rw [DW_eq, vv] at hag hres
      have : (M : ℚ) * (2 : ℚ) ^ e2 = (M : ℚ) * (2 : ℚ) ^ e2.natAbs := by
        conv_lhs => rw [he]
        rw [zpow_natCast]
      rw [this]
      refine ⟨r, hag, hpr, hmo, ?_⟩
      rw [hres]
      by_cases hf : (Spec.round z.mode (if z.prec = 0 then 34 else z.prec) neg
          ((M : ℚ) * (2 : ℚ) ^ e2.natAbs) t).form = .finite
      · simp [hf]
      · simp [hf, h0]

/-- a zero mantissa, or a decimal exponent in range and no binary scale: `scanTail` returns a value. -/
theorem scanTail_ok (z : Dec) (neg : Bool) (M : Nat) (t e2 : Int)
    (h : M = 0 ∨ (MinExp ≤ (ndigits M : Int) + t ∧ (ndigits M : Int) + t ≤ MaxExp ∧ e2 = 0)) :
    ∃ d, scanTail z neg M t e2 = .ok d := by
  by_cases hM : M = 0
  · subst hM; exact ⟨_, scanTail_zero z neg t e2⟩
  · rcases h with h | ⟨h1, h2, h0⟩
    · exact absurd h hM
    · rw [scanTail_eq z neg M t e2 hM h1 h2, if_pos h0]
      exact ⟨_, rfl⟩

/-- **When `scanTail` returns a value**: zero mantissa, or decimal exponent in range and either no binary
    scale or a scaled result that is still finite. -/
theorem scanTail_isOk_iff (z : Dec) (neg : Bool) (M : Nat) (t e2 : Int) :
    (∃ d, scanTail z neg M t e2 = .ok d) ↔
      (M = 0 ∨ (MinExp ≤ (ndigits M : Int) + t ∧ (ndigits M : Int) + t ≤ MaxExp ∧
        (e2 = 0 ∨ (scanScaled z neg M t e2).form = .finite))) := by
  by_cases hM : M = 0
  · subst hM
    exact ⟨fun _ => Or.inl rfl, fun _ => ⟨_, scanTail_zero z neg t e2⟩⟩
  · by_cases hr : (ndigits M : Int) + t < MinExp ∨ (ndigits M : Int) + t > MaxExp
    · rw [scanTail_overflow z neg M t e2 hM hr]
      constructor
      · rintro ⟨d, hd⟩; cases hd
      · rintro (h | ⟨h1, h2, _⟩)
        · exact absurd h hM
        · omega
    · have h1 : MinExp ≤ (ndigits M : Int) + t := by omega
      have h2 : (ndigits M : Int) + t ≤ MaxExp := by omega
      by_cases h0 : e2 = 0
      · exact ⟨fun _ => Or.inr ⟨h1, h2, Or.inl h0⟩, fun _ => scanTail_ok z neg M t e2 (Or.inr ⟨h1, h2, h0⟩)⟩
      · rw [scanTail_scaled z neg M t e2 hM h0 h1 h2]
        by_cases hf : (scanScaled z neg M t e2).form = .finite
        · rw [if_pos hf]
          exact ⟨fun _ => Or.inr ⟨h1, h2, Or.inr hf⟩, fun _ => ⟨_, rfl⟩⟩
        · rw [if_neg hf]
          constructor
          · rintro ⟨d, hd⟩; cases hd
          · rintro (h | ⟨_, _, h | h⟩)
            · exact absurd h hM
            · exact absurd h h0
            · exact absurd h hf

/-- **`pow2` overflow.** When `pow2` itself has overflowed to +Inf (|e2| beyond ≈ 7.13·10^9), the product
    is ±Inf and the quotient ±0: as repaired, the error `expOverflow`. -/
theorem scanTail_pow2_inf (z : Dec) (neg : Bool) (M : Nat) (t e2 : Int) (hM : M ≠ 0) (he : e2 ≠ 0)
    (h1 : MinExp ≤ (ndigits M : Int) + t) (h2 : (ndigits M : Int) + t ≤ MaxExp)
    (hinf : (pow2 ((if z.prec = 0 then 34 else z.prec) + DW) e2.natAbs).form = .inf) :
    scanTail z neg M t e2 = .error .expOverflow := by
  rw [scanTail_scaled z neg M t e2 hM he h1 h2]
  have hnf : (scanScaled z neg M t e2).form ≠ .finite := by
    unfold scanScaled
    simp only
    generalize pow2 ((if z.prec = 0 then 34 else z.prec) + DW) e2.natAbs = w at hinf
    have hz1 : (scanLoad z neg (if z.prec = 0 then 34 else z.prec) M t).form = .finite := rfl
    have hb : ((scanLoad z neg (if z.prec = 0 then 34 else z.prec) M t).prec == 0) = false := by
      have := prec34_pos z
      show ((if z.prec = 0 then 34 else z.prec) == 0) = false
      simp; omega
    split
    · simp [quo, opnd, hb, hz1, hinf]
    · simp [mul, opnd, hb, hz1, hinf]
  rw [if_neg hnf]

end Decimal
