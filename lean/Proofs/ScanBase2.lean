/-
  The number scanner on structured literals in any base (continued): the exponent part with
  separators, `scanBody` / `scanDec` / `parse` on a `LitB`, in operational form:

      parse z l.render base = (scanTail z l.sign l.coef l.exp10 l.exp2).map (·, l.b)

  where `scanTail` is the arithmetic tail of `Decimal.scan` (zero / range check / round, or scale by
  `pow2` with `Mul` / `Quo`).
-/
import Proofs.ScanBase

namespace Decimal

/-! ### the exponent digit loop with separators -/

theorem scanExpDigits_us (rest : List Nat) (v : Nat) (has : Bool) (prev : Nat) (inval : Bool) :
    scanExpDigits true (95 :: rest) (v, has, prev, inval) =
      scanExpDigits true rest (v, has, 95, inval || prev != 48) := by
  rw [scanExpDigits, chr_0, chr_9, if_neg (by omega), if_pos ⟨rfl, rfl⟩]

theorem scanExpDigits_digit (sep : Bool) (c : Nat) (hc : digitVal c < 10) (rest : List Nat)
    (v : Nat) (has : Bool) (prev : Nat) (inval : Bool) :
    scanExpDigits sep (c :: rest) (v, has, prev, inval) =
      scanExpDigits sep rest (v * 10 + digitVal c, true, 48, inval) := by
  have h := digitVal_lt10.mp hc
  rw [scanExpDigits, chr_0, chr_9, if_pos h, digitVal_dec hc]

theorem scanExpDigits_U (sep : Bool) (us : UDigits) (hd : IsDigitsB 10 us.bytes)
    (hsep : sep = false → us.Plain) (rest : List Nat)
    (v : Nat) (has : Bool) (prev : Nat) (inval : Bool) (hhead : prev = 48 ∨ us.HeadPlain) :
    scanExpDigits sep (renderU us ++ rest) (v, has, prev, inval) =
      scanExpDigits sep rest (v * 10 ^ us.length + valB 10 us.bytes, has || !us.isEmpty,
                              (if us = [] then prev else 48), inval) := by
  induction us generalizing v has prev with
  | nil => simp [renderU, valB, UDigits.bytes]
  | cons u us ih =>
    obtain ⟨fl, c⟩ := u
    rw [UDigits.bytes_cons, IsDigitsB_cons] at hd
    have hsep' : sep = false → UDigits.Plain us := fun h => (UDigits.Plain_cons.mp (hsep h)).2
    have hfin : ∀ v' has', scanExpDigits sep (renderU us ++ rest) (v', has', 48, inval) =
        scanExpDigits sep rest (v' * 10 ^ us.length + valB 10 (UDigits.bytes us), has' || !us.isEmpty,
          (if us = [] then 48 else 48), inval) :=
      fun v' has' => ih hd.2 hsep' v' has' 48 (Or.inl rfl)
    have harith : (v * 10 + digitVal c) * 10 ^ us.length + valB 10 (UDigits.bytes us) =
        v * 10 ^ (us.length + 1) + (digitVal c * 10 ^ (UDigits.bytes us).length + valB 10 (UDigits.bytes us)) := by
      rw [UDigits.bytes_length, Nat.pow_succ, Nat.add_mul, Nat.mul_assoc, Nat.mul_comm 10, Nat.add_assoc]
    cases fl with
    | false =>
      simp only [renderU, List.cons_append]
      rw [scanExpDigits_digit sep c hd.1, hfin]
      congr 1
      simp only [UDigits.bytes_cons, valB_cons, List.length_cons]
      refine Prod.ext harith (Prod.ext ?_ (Prod.ext ?_ rfl))
      · simp
      · simp
    | true =>
      have hs : sep = true := by
        cases sep with
        | true => rfl
        | false => exact absurd (UDigits.Plain_cons.mp (hsep rfl)).1 (by simp)
      subst hs
      have hp : prev = 48 := by
        rcases hhead with h | h
        · exact h
        · exact absurd h (by simp [UDigits.HeadPlain])
      subst hp
      simp only [renderU, List.cons_append]
      rw [scanExpDigits_us, scanExpDigits_digit true c hd.1]
      have e : (inval || (48 : Nat) != 48) = inval := by simp
      rw [e, hfin]
      congr 1
      simp only [UDigits.bytes_cons, valB_cons, List.length_cons]
      refine Prod.ext harith (Prod.ext ?_ (Prod.ext ?_ rfl))
      · simp
      · simp

theorem NoSignHead_renderU (ds : UDigits) (rest : List Nat) (hd : IsDigitsB 10 ds.bytes) (hne : ds ≠ [])
    (hh : ds.HeadPlain) : NoSignHead (renderU ds ++ rest) := by
  cases ds with
  | nil => exact absurd rfl hne
  | cons u us =>
    obtain ⟨fl, c⟩ := u
    have hf : fl = false := hh
    subst hf
    rw [UDigits.bytes_cons, IsDigitsB_cons] at hd
    have := digitVal_lt10.mp hd.1
    simp only [renderU, List.cons_append, NoSignHead]
    omega

theorem scanExpTail_U (sepOk : Bool) (eb : Nat) (neg : Bool) (ds : UDigits) (rest : List Nat)
    (hd : IsDigitsB 10 ds.bytes) (hne : ds ≠ []) (hh : ds.HeadPlain) (hsep : sepOk = false → ds.Plain)
    (h : ExpEnd sepOk rest) :
    scanExpTail sepOk eb neg (renderU ds ++ rest) =
      if (neg = false ∧ valB 10 ds.bytes > 9223372036854775807) ∨ (neg = true ∧ valB 10 ds.bytes > 9223372036854775808)
      then .error .expRange
      else .ok ((if neg then -(valB 10 ds.bytes : Int) else (valB 10 ds.bytes : Int)), eb, rest) := by
  unfold scanExpTail
  rw [scanExpDigits_U sepOk ds hd hsep rest 0 false 46 false (Or.inr hh), scanExpDigits_end sepOk rest _ h]
  have : ds.isEmpty = false := by cases ds <;> simp_all
  simp [this, hne]

/-- What may follow the (possibly absent) exponent part. -/
def ExpTailOkB (sepOk : Bool) : Option (Nat × Option Bool × UDigits) → List Nat → Prop
  | none, rest => NoExpHead rest
  | some _, rest => ExpEnd sepOk rest

/-- the exponent base and value that `scanExponent` reports for an exponent part. -/
def ebaseOf : Option (Nat × Option Bool × UDigits) → Nat
  | none => 10
  | some (m, _, _) => (markerBase m).getD 10

def expWOf : Option (Nat × Option Bool × UDigits) → Int
  | none => 0
  | some (_, sg, ds) => if signVal sg then -(valB 10 ds.bytes : Int) else (valB 10 ds.bytes : Int)

theorem LitB.ebase_eq (l : LitB) : l.ebase = ebaseOf l.ex := by
  unfold LitB.ebase ebaseOf; cases l.ex <;> rfl

theorem LitB.expW_eq (l : LitB) : l.expW = expWOf l.ex := by
  unfold LitB.expW expWOf; cases l.ex <;> rfl

theorem markerBase_of_ok {b m : Nat} (h : m = 112 ∨ m = 80 ∨ ((m = 101 ∨ m = 69) ∧ b ≠ 16)) :
    ∃ eb, markerBase m = some eb ∧ (eb = 10 ∨ eb = 2) := by
  rcases h with rfl | rfl | ⟨rfl | rfl, _⟩
  · exact ⟨2, by decide, Or.inr rfl⟩
  · exact ⟨2, by decide, Or.inr rfl⟩
  · exact ⟨10, by decide, Or.inl rfl⟩
  · exact ⟨10, by decide, Or.inl rfl⟩

def exDigitsOf : Option (Nat × Option Bool × UDigits) → UDigits
  | none => []
  | some (_, _, ds) => ds

theorem LitB.exDigits_eq (l : LitB) : l.exDigits = exDigitsOf l.ex := by
  unfold LitB.exDigits exDigitsOf; cases l.ex <;> rfl

/-- The exponent of a literal. -/
theorem scanExponent_litB (sepOk : Bool) (b : Nat) (ex : Option (Nat × Option Bool × UDigits)) (rest : List Nat)
    (hex : ExpOkB b ex) (hsep : sepOk = false → (exDigitsOf ex).Plain)
    (hend : ExpTailOkB sepOk ex rest) :
    scanExponent sepOk (renderExpB ex ++ rest) = .ok (expWOf ex, ebaseOf ex, rest) := by
  match ex, hex, hsep, hend with
  | none, _, _, hend => exact scanExponent_none sepOk rest hend
  | some (m, sg, ds), ⟨hm, hd, hne, hh, hr⟩, hsep, hend =>
    obtain ⟨eb, hmb, _⟩ := markerBase_of_ok hm
    simp only [renderExpB, List.cons_append, List.append_assoc]
    rw [scanExponent_marker sepOk m eb hmb sg _ (fun _ => NoSignHead_renderU ds rest hd hne hh),
      scanExpTail_U sepOk eb _ ds rest hd hne hh hsep hend]
    simp only [expWOf, ebaseOf, hmb, Option.getD_some]
    cases hs : signVal sg <;> simp only [hs] at hr <;> simp <;> simp at hr <;> omega

/-! ### the arithmetic tail of `Decimal.scan` -/

/-- What `Decimal.scan` does once mantissa `M` (an integer), the decimal scale `t` and the binary scale
    `e2` are known: the value is `M × 10^t × 2^e2`. -/
def scanTail (z : Dec) (neg : Bool) (M : Nat) (t e2 : Int) : Except ScanErr Dec :=
  let p := if z.prec = 0 then 34 else z.prec
  if M = 0 then .ok { z with neg := neg, prec := p, acc := Exact, form := .zero }
  else
    let e10 : Int := (ndigits M : Int) + t
    if e10 < MinExp ∨ e10 > MaxExp then .error .expOverflow
    else
      let z1 : Dec := { z with neg := neg, prec := p, form := .finite, exp := e10,
                               mant := M * 10 ^ dnormShift M (nwords M), len := nwords M }
      if e2 = 0 then .ok (round z1 false)
      else
        let pw := pow2 (p + DW) e2.natAbs
        let r := if e2 < 0 then (quo z1 z1 pw true false).1 else (mul z1 z1 pw true false).1
        -- as repaired: a binary scale that takes the value out of the exponent range is an error
        if r.form != .finite then .error .expOverflow else .ok r

/-- attach the detected base and the unread input. -/
def withBase (b : Nat) (rest : List Nat) : Except ScanErr Dec → Except ScanErr (Dec × Nat × List Nat)
  | .error e => .error e
  | .ok d => .ok (d, b, rest)

/-- `scanBody` once the scanner has delivered its findings. -/
theorem scanBody_of_scans (z : Dec) (neg : Bool) (s : List Nat) (base : Nat)
    (M b : Nat) (fcount : Int) (s2 : List Nat) (exp : Int) (ebase : Nat) (s3 : List Nat)
    (hm : scanMant base s = .ok (M, b, fcount, s2))
    (he : scanExponent (decide (base = 0)) s2 = .ok (exp, ebase, s3)) :
    scanBody z neg s base =
      withBase b s3 (scanTail z neg M
        ((if b = 10 then (if fcount < 0 then fcount else 0) else 0) + (if ebase = 10 then exp else 0))
        ((if b = 2 then (if fcount < 0 then fcount else 0) else if b = 8 then (if fcount < 0 then fcount else 0) * 3
          else if b = 16 then (if fcount < 0 then fcount else 0) * 4 else 0) + (if ebase = 2 then exp else 0))) := by
  unfold scanBody
  rw [hm]
  simp only [he]
  have hp : (if (z.prec == 0) = true then DefaultPrec else z.prec) = (if z.prec = 0 then 34 else z.prec) := by
    simp [DefaultPrec]
  rw [hp]
  generalize (if fcount < 0 then fcount else 0) = d
  have e1 : (ndigits M : Int) + (if b = 10 then d else 0) + (if ebase = 10 then exp else 0) =
      (ndigits M : Int) + ((if b = 10 then d else 0) + (if ebase = 10 then exp else 0)) := by omega
  rw [e1]
  generalize ((if b = 10 then d else 0) + (if ebase = 10 then exp else 0)) = T
  generalize ((if b = 2 then d else if b = 8 then d * 3 else if b = 16 then d * 4 else 0) +
    (if ebase = 2 then exp else 0)) = E2
  unfold scanTail withBase
  by_cases hM : M = 0
  · simp only [hM, if_true]
  · simp only [hM, if_false]
    by_cases hr : (ndigits M : Int) + T < MinExp ∨ (ndigits M : Int) + T > MaxExp
    · simp only [hr, if_true]
    · simp only [hr, if_false]
      by_cases h0 : E2 = 0
      · simp only [h0, if_true]
      · simp only [h0, if_false]
        generalize (if E2 < 0 then _ else _ : Dec) = r
        by_cases hf : (r.form != .finite) = true
        · simp only [hf, if_true]
        · simp only [hf]
          rfl

/-! ### `scanBody`, `scanDec`, `parse` on a literal -/

theorem prefixBase_mem {c b : Nat} (h : prefixBase c = some b) : b = 2 ∨ b = 8 ∨ b = 16 := by
  unfold prefixBase at h
  split at h
  · cases h; exact Or.inl rfl
  · split at h
    · cases h; exact Or.inr (Or.inl rfl)
    · split at h
      · cases h; exact Or.inr (Or.inr rfl)
      · cases h

theorem LitB.WF.b_mem {l : LitB} {base : Nat} (h : l.WF base) : l.b = 2 ∨ l.b = 8 ∨ l.b = 10 ∨ l.b = 16 := by
  rcases h.baseOk with ⟨hb, _, h4⟩ | ⟨_, hp⟩
  · rw [← hb]; exact h4
  · cases hx : l.pfx with
    | none => rw [hx] at hp; exact Or.inr (Or.inr (Or.inl hp))
    | some c =>
      rw [hx] at hp
      rcases prefixBase_mem hp with h | h | h
      · exact Or.inl h
      · exact Or.inr (Or.inl h)
      · exact Or.inr (Or.inr (Or.inr h))

/-- What may follow a literal. -/
def TailOkB (sep : Bool) (l : LitB) (rest : List Nat) : Prop :=
  match l.ex with
  | none => MantEndB l.b sep l.fp.isSome rest ∧ NoExpHead rest
  | some _ => ExpEnd sep rest

theorem TailOkB_nil (sep : Bool) (l : LitB) : TailOkB sep l [] := by
  unfold TailOkB; cases l.ex <;> simp [MantEndB, NoExpHead, ExpEnd]

theorem dU_of_fcount (ip : UDigits) (fp : Option UDigits) :
    (if fcountU ip fp < 0 then fcountU ip fp else 0) = -(((fp.getD []).length : Nat) : Int) := by
  cases fp with
  | none => simp [fcountU]; omega
  | some f =>
    have hf : fcountU ip (some f) = -(f.length : Int) := rfl
    rw [hf, Option.getD_some]
    by_cases h : -(f.length : Int) < 0
    · rw [if_pos h]
    · rw [if_neg h]; omega

/-- **The scanner on a literal of any base** (after the sign). -/
theorem scanBody_litB (z : Dec) (neg : Bool) (l : LitB) (base : Nat) (hwf : l.WF base) (rest : List Nat)
    (hend : TailOkB (decide (base = 0)) l rest)
    (hnp : base = 0 → l.pfx = none → l.ex = none → NoPrefixLetterHead rest) :
    scanBody z neg (l.body ++ rest) base = withBase l.b rest (scanTail z neg l.coef l.exp10 l.exp2) := by
  have hb4 := hwf.b_mem
  have hbody : l.body ++ rest = renderPfx l.pfx ++ (renderMantU l.ip l.fp ++ (renderExpB l.ex ++ rest)) := by
    simp only [LitB.body, List.append_assoc]
  -- mantissa
  have hmend : MantEndB l.b (decide (base = 0)) l.fp.isSome (renderExpB l.ex ++ rest) := by
    unfold TailOkB at hend
    cases hx : l.ex with
    | none => rw [hx] at hend; simpa [renderExpB] using hend.1
    | some e =>
      obtain ⟨m, sg, ds⟩ := e
      have hex := hwf.ex
      rw [hx] at hex
      simp only [renderExpB, List.cons_append, MantEndB]
      rcases hex.1 with rfl | rfl | ⟨rfl | rfl, h16⟩
      · exact ⟨by rcases hb4 with h | h | h | h <;> rw [h] <;> decide, by omega, by omega⟩
      · exact ⟨by rcases hb4 with h | h | h | h <;> rw [h] <;> decide, by omega, by omega⟩
      · exact ⟨by rcases hb4 with h | h | h | h <;> first | exact absurd h h16 | (rw [h]; decide), by omega, by omega⟩
      · exact ⟨by rcases hb4 with h | h | h | h <;> first | exact absurd h h16 | (rw [h]; decide), by omega, by omega⟩
  have hnp' : base = 0 → l.pfx = none → NoPrefixLetterHead (renderExpB l.ex ++ rest) := by
    intro h0 hp
    cases hx : l.ex with
    | none => simpa [renderExpB] using hnp h0 hp hx
    | some e =>
      obtain ⟨m, sg, ds⟩ := e
      have hex := hwf.ex
      rw [hx] at hex
      simp only [renderExpB, List.cons_append, NoPrefixLetterHead]
      rcases hex.1 with rfl | rfl | ⟨rfl | rfl, _⟩ <;> omega
  have hm := scanMant_litB base l.b l.pfx l.ip l.fp (renderExpB l.ex ++ rest) hwf.baseOk hwf.ip hwf.fp hwf.digits
    (fun h => ⟨(hwf.sepBase h).1, (hwf.sepBase h).2.1⟩) hwf.sepIp hwf.sepFp hmend hnp'
  -- exponent
  have he : scanExponent (decide (base = 0)) (renderExpB l.ex ++ rest) = .ok (expWOf l.ex, ebaseOf l.ex, rest) := by
    apply scanExponent_litB _ l.b _ _ hwf.ex
    · intro hs
      have h0 : base ≠ 0 := by simpa using hs
      have := (hwf.sepBase h0).2.2
      rw [LitB.exDigits_eq] at this
      exact this
    · unfold TailOkB at hend
      cases hx : l.ex with
      | none => rw [hx] at hend; exact hend.2
      | some e => rw [hx] at hend; exact hend
  rw [hbody, scanBody_of_scans z neg _ base _ _ _ _ _ _ _ hm he, dU_of_fcount]
  congr 2

/-- a sign-less input whose first byte is '0', '.' or a hexadecimal digit: not an infinity, not a sign. -/
theorem not_IsInfStr_head (sg : Option Bool) (c : Nat) (t : List Nat)
    (hc : c ≠ 73 ∧ c ≠ 105 ∧ c ≠ 43 ∧ c ≠ 45) : ¬ IsInfStr (signBytes sg ++ c :: t) := by
  obtain ⟨h1, h2, h3, h4⟩ := hc
  match sg with
  | none => rintro (h | h | h | h | h | h) <;> simp [signBytes] at h <;> omega
  | some true => rintro (h | h | h | h | h | h) <;> simp [signBytes] at h <;> omega
  | some false => rintro (h | h | h | h | h | h) <;> simp [signBytes] at h <;> omega

theorem renderU_head {us : UDigits} (hne : us ≠ []) (hh : us.HeadPlain ∨ True) :
    ∃ c t, renderU us = c :: t ∧ (c = 95 ∨ c ∈ us.bytes) := by
  cases us with
  | nil => exact absurd rfl hne
  | cons u us =>
    obtain ⟨fl, c⟩ := u
    cases fl with
    | false => exact ⟨c, renderU us, rfl, Or.inr (by simp [UDigits.bytes])⟩
    | true => exact ⟨95, c :: renderU us, rfl, Or.inl rfl⟩

/-- the first byte of a well-formed literal's body. -/
theorem LitB.WF.body_head {l : LitB} {base : Nat} (hwf : l.WF base) (rest : List Nat) :
    ∃ c t, l.body ++ rest = c :: t ∧ c ≠ 73 ∧ c ≠ 105 ∧ c ≠ 43 ∧ c ≠ 45 := by
  have hb4 := hwf.b_mem
  have hdig : ∀ c, digitVal c < l.b → c ≠ 73 ∧ c ≠ 105 ∧ c ≠ 43 ∧ c ≠ 45 := by
    intro c hc
    have h16 : digitVal c < 17 := by omega
    refine ⟨?_, ?_, ?_, ?_⟩ <;> rintro rfl <;> revert h16 <;> decide
  cases hbd : l.body ++ rest with
  | nil =>
    exfalso
    have h1 := (List.append_eq_nil_iff.mp hbd).1
    unfold LitB.body at h1
    have h2 := List.append_eq_nil_iff.mp h1
    have h3 := (List.append_eq_nil_iff.mp h2.2).1
    exact renderMantU_ne_nil hwf.digits h3
  | cons c0 t =>
    refine ⟨c0, t, rfl, ?_⟩
    cases hp : l.pfx with
    | some c =>
      simp only [LitB.body, hp, renderPfx, List.cons_append, List.cons.injEq] at hbd
      omega
    | none =>
      cases hi : l.ip with
      | cons u us =>
        obtain ⟨fl, c⟩ := u
        have hf : fl = false := by
          have := hwf.sepIp hp
          rw [hi] at this
          exact this
        subst hf
        have hc := hwf.ip c (by rw [hi]; simp [UDigits.bytes])
        simp only [LitB.body, hp, hi, renderPfx, renderMantU, renderU, List.cons_append, List.nil_append,
          List.cons.injEq] at hbd
        rw [← hbd.1]
        exact hdig c hc
      | nil =>
        cases hf : l.fp with
        | none =>
          have := hwf.digits
          simp [hi, LitB.frac, hf] at this
        | some f =>
          simp only [LitB.body, hp, hi, hf, renderPfx, renderMantU, renderU, List.cons_append, List.nil_append,
            List.cons.injEq] at hbd
          omega

theorem LitB.render_eq (l : LitB) : l.render = signBytes l.neg ++ l.body := rfl

theorem LitB.WF.not_inf {l : LitB} {base : Nat} (hwf : l.WF base) (rest : List Nat) :
    ¬ IsInfStr (l.render ++ rest) := by
  obtain ⟨c, t, h, hc⟩ := hwf.body_head rest
  rw [LitB.render_eq, List.append_assoc, h]
  exact not_IsInfStr_head l.neg c t hc

/-- `scanDec` on a literal followed by `rest`. -/
theorem scanDec_litB (z : Dec) (l : LitB) (base : Nat) (hwf : l.WF base) (rest : List Nat)
    (hend : TailOkB (decide (base = 0)) l rest)
    (hnp : base = 0 → l.pfx = none → l.ex = none → NoPrefixLetterHead rest) :
    scanDec z (l.render ++ rest) base = withBase l.b rest (scanTail z l.sign l.coef l.exp10 l.exp2) := by
  obtain ⟨c, t, h, _, _, h3, h4⟩ := hwf.body_head rest
  have hh : l.body ++ rest ≠ [] ∧ NoSignHead (l.body ++ rest) := by
    rw [h]; exact ⟨by simp, h4, h3⟩
  rw [LitB.render_eq, List.append_assoc, scanDec_sign z l.neg _ base (fun _ => hh),
    scanBody_litB z _ l base hwf rest hend hnp]
  rfl

/-- the final answer of `Parse`: the value and the detected base. -/
def withBaseP (b : Nat) : Except ScanErr Dec → Except ScanErr (Dec × Nat)
  | .error e => .error e
  | .ok d => .ok (d, b)

/-- **`Parse` on a literal of any base**, operational form. -/
theorem parse_litB (z : Dec) (l : LitB) (base : Nat) (hwf : l.WF base) :
    parse z l.render base = withBaseP l.b (scanTail z l.sign l.coef l.exp10 l.exp2) := by
  have hinf := hwf.not_inf []
  rw [List.append_nil] at hinf
  have := scanDec_litB z l base hwf [] (TailOkB_nil _ l) (fun _ _ _ => trivial)
  rw [List.append_nil] at this
  rw [parse_eq_scanDec z _ base hinf, this]
  cases scanTail z l.sign l.coef l.exp10 l.exp2 with
  | error e => rfl
  | ok d => rfl

/-- bytes left over after a complete literal whose value is accepted. -/
theorem parse_trailingB (z : Dec) (l : LitB) (base : Nat) (hwf : l.WF base) (rest : List Nat) (hrest : rest ≠ [])
    (hend : TailOkB (decide (base = 0)) l rest)
    (hnp : base = 0 → l.pfx = none → l.ex = none → NoPrefixLetterHead rest)
    (hok : ∃ d, scanTail z l.sign l.coef l.exp10 l.exp2 = .ok d) :
    parse z (l.render ++ rest) base = .error .trailing := by
  obtain ⟨d, hd⟩ := hok
  rw [parse_eq_scanDec z _ base (hwf.not_inf rest), scanDec_litB z l base hwf rest hend hnp, hd]
  have hre : rest.isEmpty = false := by cases rest <;> simp_all
  simp [withBase, finishScan, hre]

end Decimal
