/-
  The number scanner (`DecimalModel/Parse.lean`) on structured literals in ANY accepted base:

      [sign] [ '0' ('b'|'B'|'o'|'O'|'x'|'X') ] digits [ '.' digits ] [ ('e'|'E'|'p'|'P') [sign] digits ]

  with `_` separators (base 0 only). This file: the literal type `LitB`, its rendering to bytes, its
  components (`coef`, `exp10`, `exp2`), and the digit loops on runs of base-`b` digit bytes (with
  separators). Everything here is core Lean (no Mathlib), executable, so the statements can be
  validated by `#eval` against the model.
-/
import Proofs.Scan
import Proofs.Scan2

namespace Decimal

/-! ### digit bytes of base `b` -/

/-- The bytes of `cs` are digits of base `b` (letters in either case for values ≥ 10). -/
def IsDigitsB (b : Nat) (cs : List Nat) : Prop := ∀ c ∈ cs, digitVal c < b

instance (b : Nat) (cs : List Nat) : Decidable (IsDigitsB b cs) := by unfold IsDigitsB; infer_instance

/-- Horner value of a list of digit bytes in base `b`, most significant first. -/
def valB (b : Nat) (cs : List Nat) : Nat := cs.foldl (fun a c => a * b + digitVal c) 0

/-- A digit run with separators: `(true, c)` is the digit byte `c` preceded by one `_`. -/
abbrev UDigits := List (Bool × Nat)

/-- the digit bytes, separators dropped. -/
def UDigits.bytes (us : UDigits) : List Nat := us.map Prod.snd

def renderU : UDigits → List Nat
  | [] => []
  | (true, c) :: us => 95 :: c :: renderU us
  | (false, c) :: us => c :: renderU us

/-- no separator at all. -/
def UDigits.Plain (us : UDigits) : Prop := ∀ u ∈ us, u.1 = false

/-- no separator before the first digit. -/
def UDigits.HeadPlain : UDigits → Prop
  | [] => True
  | u :: _ => u.1 = false

instance (us : UDigits) : Decidable us.Plain := by unfold UDigits.Plain; infer_instance
instance (us : UDigits) : Decidable us.HeadPlain := by
  cases us with
  | nil => exact isTrue trivial
  | cons u us => unfold UDigits.HeadPlain; infer_instance

/-- digits without separators. -/
def plainU (cs : List Nat) : UDigits := cs.map (fun c => (false, c))

/-! ### literals -/

/-- The mantissa base selected by the letter of a base prefix. -/
def prefixBase (c : Nat) : Option Nat :=
  if c = 98 ∨ c = 66 then some 2        -- b B
  else if c = 111 ∨ c = 79 then some 8  -- o O
  else if c = 120 ∨ c = 88 then some 16 -- x X
  else none

/-- The base of an exponent marker: `e E` → 10, `p P` → 2. -/
def markerBase (m : Nat) : Option Nat :=
  if m = 101 ∨ m = 69 then some 10
  else if m = 112 ∨ m = 80 then some 2
  else none

/-- A literal `[sign] [0 pfx] ip [ '.' fp ] [ marker [sign] digits ]` with mantissa base `b`. -/
structure LitB where
  neg : Option Bool := none                    -- `some true` = '-', `some false` = '+'
  b : Nat := 16                                -- mantissa base: 2, 8, 10 or 16
  pfx : Option Nat := none                     -- letter of the base prefix `0x` … (base argument 0 only)
  ip : UDigits := []                           -- integer digits (bytes)
  fp : Option UDigits := none                  -- fraction digits; `some []` is a trailing '.'
  ex : Option (Nat × Option Bool × UDigits) := none   -- marker byte, sign, decimal digit bytes
  deriving Repr

def renderPfx : Option Nat → List Nat
  | none => []
  | some c => [48, c]

def renderMantU (ip : UDigits) (fp : Option UDigits) : List Nat :=
  renderU ip ++ (match fp with | none => [] | some f => 46 :: renderU f)

def renderExpB : Option (Nat × Option Bool × UDigits) → List Nat
  | none => []
  | some (m, sg, ds) => m :: (signBytes sg ++ renderU ds)

/-- everything after the sign. -/
def LitB.body (l : LitB) : List Nat := renderPfx l.pfx ++ (renderMantU l.ip l.fp ++ renderExpB l.ex)

def LitB.render (l : LitB) : List Nat := signBytes l.neg ++ l.body

def LitB.frac (l : LitB) : UDigits := l.fp.getD []

def LitB.sign (l : LitB) : Bool := signVal l.neg

/-- the mantissa digits read as one integer in base `b`. -/
def LitB.coef (l : LitB) : Nat := valB l.b (l.ip.bytes ++ l.frac.bytes)

/-- exponent base (10 when there is no exponent part). -/
def LitB.ebase (l : LitB) : Nat :=
  match l.ex with
  | none => 10
  | some (m, _, _) => (markerBase m).getD 10

/-- the signed exponent as written (0 when absent). -/
def LitB.expW (l : LitB) : Int :=
  match l.ex with
  | none => 0
  | some (_, sg, ds) => if signVal sg then -(valB 10 ds.bytes : Int) else (valB 10 ds.bytes : Int)

/-- decimal part of the scale: the value is `coef × 10^exp10 × 2^exp2`. -/
def LitB.exp10 (l : LitB) : Int :=
  (if l.b = 10 then -(l.frac.length : Int) else 0) + (if l.ebase = 10 then l.expW else 0)

/-- binary part of the scale. -/
def LitB.exp2 (l : LitB) : Int :=
  (if l.b = 2 then -(l.frac.length : Int) else if l.b = 8 then -(l.frac.length : Int) * 3
   else if l.b = 16 then -(l.frac.length : Int) * 4 else 0) + (if l.ebase = 2 then l.expW else 0)

/-- The exponent part is acceptable: a marker of the grammar (`e E` cannot follow a hexadecimal
    mantissa: they are digits), at least one decimal digit, no separator before the first digit, and
    `strconv.ParseInt(·, 10, 64)` accepts the value. -/
def ExpOkB (b : Nat) : Option (Nat × Option Bool × UDigits) → Prop
  | none => True
  | some (m, sg, ds) =>
    (m = 112 ∨ m = 80 ∨ ((m = 101 ∨ m = 69) ∧ b ≠ 16)) ∧
    IsDigitsB 10 ds.bytes ∧ ds ≠ [] ∧ ds.HeadPlain ∧
      (if signVal sg then valB 10 ds.bytes ≤ 9223372036854775808 else valB 10 ds.bytes ≤ 9223372036854775807)

/-- the separators of the exponent digits. -/
def LitB.exDigits (l : LitB) : UDigits :=
  match l.ex with
  | none => []
  | some (_, _, ds) => ds

/-- prefix and mantissa base agree (base argument 0). -/
def PfxOk : Option Nat → Nat → Prop
  | none, b => b = 10
  | some c, b => prefixBase c = some b

instance (pfx : Option Nat) (b : Nat) : Decidable (PfxOk pfx b) := by
  cases pfx <;> unfold PfxOk <;> infer_instance

/-- Well-formed for the base argument `base`:
    * `base ∈ {2, 8, 10, 16}`: no prefix, mantissa base `base`, no separators;
    * `base = 0`: either no prefix and a decimal mantissa, or a prefix `0b 0o 0x` (either case) and the
      mantissa base it selects; a separator may precede any digit except the first digit of a
      prefix-less mantissa, the first fraction digit, and the first exponent digit;
    * the digits are digits of the mantissa base, there is at least one, the exponent is acceptable. -/
structure LitB.WF (l : LitB) (base : Nat) : Prop where
  baseOk : (base = l.b ∧ l.pfx = none ∧ (base = 2 ∨ base = 8 ∨ base = 10 ∨ base = 16)) ∨
           (base = 0 ∧ PfxOk l.pfx l.b)
  ip : IsDigitsB l.b l.ip.bytes
  fp : IsDigitsB l.b l.frac.bytes
  digits : l.ip ++ l.frac ≠ []
  ex : ExpOkB l.b l.ex
  sepBase : base ≠ 0 → l.ip.Plain ∧ l.frac.Plain ∧ l.exDigits.Plain
  sepIp : l.pfx = none → l.ip.HeadPlain
  sepFp : l.frac.HeadPlain

end Decimal

namespace Decimal

/-! ### `digitVal` of digit bytes -/

theorem digitVal_lt63 {c : Nat} (h : digitVal c < 63) : c ≠ 46 ∧ c ≠ 95 := by
  constructor <;> rintro rfl <;> revert h <;> decide

/-- decimal digit bytes are exactly `'0'..'9'`, and their value is the offset from `'0'`. -/
theorem digitVal_lt10 {c : Nat} : digitVal c < 10 ↔ 48 ≤ c ∧ c ≤ 57 := by
  unfold digitVal
  by_cases h1 : chr '0' ≤ c ∧ c ≤ chr '9'
  · rw [if_pos h1]
    rw [chr_0, chr_9] at h1
    rw [chr_0]
    constructor
    · intro _; exact h1
    · intro _; omega
  · rw [if_neg h1]
    rw [chr_0, chr_9] at h1
    by_cases h2 : chr 'a' ≤ c ∧ c ≤ chr 'z'
    · rw [if_pos h2]
      constructor
      · intro h; omega
      · intro h; exact absurd h h1
    · rw [if_neg h2]
      by_cases h3 : chr 'A' ≤ c ∧ c ≤ chr 'Z'
      · rw [if_pos h3]
        constructor
        · intro h; omega
        · intro h; exact absurd h h1
      · rw [if_neg h3]
        constructor
        · intro h; omega
        · intro h; exact absurd h h1

theorem digitVal_dec {c : Nat} (h : digitVal c < 10) : digitVal c = c - 48 := by
  have h' := digitVal_lt10.mp h
  unfold digitVal
  rw [chr_0, chr_9, if_pos h']

/-! ### `valB` -/

theorem foldl_hornerB (b : Nat) (cs : List Nat) (a : Nat) :
    cs.foldl (fun a c => a * b + digitVal c) a = a * b ^ cs.length + valB b cs := by
  induction cs generalizing a with
  | nil => simp [valB]
  | cons c cs ih =>
    rw [valB, List.foldl_cons, List.foldl_cons, ih, ih (0 * b + digitVal c), List.length_cons, Nat.pow_succ]
    rw [Nat.zero_mul, Nat.zero_add, Nat.add_mul, Nat.add_assoc, Nat.mul_assoc, Nat.mul_comm b]

theorem valB_nil (b : Nat) : valB b [] = 0 := rfl

theorem valB_cons (b c : Nat) (cs : List Nat) : valB b (c :: cs) = digitVal c * b ^ cs.length + valB b cs := by
  rw [valB, List.foldl_cons, foldl_hornerB]; simp

theorem valB_append (b : Nat) (as bs : List Nat) :
    valB b (as ++ bs) = valB b as * b ^ bs.length + valB b bs := by
  rw [valB, List.foldl_append, foldl_hornerB]; rfl

theorem IsDigitsB_nil (b : Nat) : IsDigitsB b [] := by intro c h; cases h

theorem IsDigitsB_cons {b c : Nat} {cs : List Nat} : IsDigitsB b (c :: cs) ↔ digitVal c < b ∧ IsDigitsB b cs := by
  simp [IsDigitsB]

theorem IsDigitsB_append {b : Nat} {as bs : List Nat} : IsDigitsB b (as ++ bs) ↔ IsDigitsB b as ∧ IsDigitsB b bs := by
  simp only [IsDigitsB, List.mem_append]
  constructor
  · intro h; exact ⟨fun d hd => h d (Or.inl hd), fun d hd => h d (Or.inr hd)⟩
  · rintro ⟨h1, h2⟩ d (hd | hd)
    · exact h1 d hd
    · exact h2 d hd

theorem valB_lt (b : Nat) (cs : List Nat) (h : IsDigitsB b cs) : valB b cs < b ^ cs.length := by
  induction cs with
  | nil => simp [valB]
  | cons c cs ih =>
    rw [IsDigitsB_cons] at h
    have := ih h.2
    rw [valB_cons, List.length_cons, Nat.pow_succ]
    have h1 : digitVal c * b ^ cs.length ≤ (b - 1) * b ^ cs.length := Nat.mul_le_mul_right _ (by omega)
    have h2 : (b - 1) * b ^ cs.length + b ^ cs.length = b ^ cs.length * b := by
      have hb : 1 ≤ b := by omega
      calc (b - 1) * b ^ cs.length + b ^ cs.length = (b - 1 + 1) * b ^ cs.length := by
            rw [Nat.add_mul, Nat.one_mul]
        _ = b ^ cs.length * b := by rw [Nat.sub_add_cancel hb, Nat.mul_comm]
    omega

/-! ### separators -/

theorem UDigits.bytes_nil : UDigits.bytes [] = [] := rfl
theorem UDigits.bytes_cons (u : Bool × Nat) (us : UDigits) : UDigits.bytes (u :: us) = u.2 :: UDigits.bytes us := rfl
theorem UDigits.bytes_length (us : UDigits) : us.bytes.length = us.length := by simp [UDigits.bytes]
theorem UDigits.bytes_append (as bs : UDigits) : UDigits.bytes (as ++ bs) = as.bytes ++ bs.bytes := by
  simp [UDigits.bytes]

theorem UDigits.Plain_cons {u : Bool × Nat} {us : UDigits} : UDigits.Plain (u :: us) ↔ u.1 = false ∧ UDigits.Plain us := by
  simp [UDigits.Plain]

theorem UDigits.Plain_nil : UDigits.Plain [] := by intro u h; cases h

theorem UDigits.Plain.head {us : UDigits} (h : us.Plain) : us.HeadPlain := by
  cases us with
  | nil => trivial
  | cons u us => exact (UDigits.Plain_cons.mp h).1

theorem renderU_plain (cs : List Nat) : renderU (plainU cs) = cs := by
  induction cs with
  | nil => rfl
  | cons c cs ih => simp only [plainU, List.map_cons, renderU] at ih ⊢; rw [ih]

theorem plainU_bytes (cs : List Nat) : (plainU cs).bytes = cs := by
  induction cs with
  | nil => rfl
  | cons c cs ih => simp only [plainU, UDigits.bytes, List.map_cons] at ih ⊢; rw [ih]

theorem plainU_plain (cs : List Nat) : (plainU cs).Plain := by
  intro u hu
  simp only [plainU, List.mem_map] at hu
  obtain ⟨c, _, rfl⟩ := hu
  rfl

/-! ### the mantissa digit loop in base `b` -/

/-- one digit byte of base `b`. -/
theorem scanDigits_digitB (b : Nat) (hb : b ≤ 63) (sep : Bool) (c : Nat) (hc : digitVal c < b) (rest : List Nat)
    (st : ScanSt) :
    scanDigits b sep (c :: rest) st =
      scanDigits b sep rest { st with prev := 48, count := st.count + 1, val := st.val * b + digitVal c } := by
  have h63 := digitVal_lt63 (show digitVal c < 63 by omega)
  rw [scanDigits]
  have h1 : ¬ (c = chr '.' ∧ st.fracOk = true) := by rw [chr_dot]; exact fun h => h63.1 h.1
  have h2 : ¬ (c = chr '_' ∧ sep = true) := by rw [chr_us]; exact fun h => h63.2 h.1
  rw [if_neg h1, if_neg h2]
  simp only []
  rw [if_neg (by omega)]

/-- **Scanner arithmetic in base `b`.** A run of digit bytes, each optionally preceded by one `_`
    (recognised iff `sep`), is consumed entirely: value extended by the Horner value in base `b`,
    count by the number of digits, `prev` becomes '0'; `dp`, `fracOk`, `invalSep` unchanged —
    provided the first separator (if any) follows a digit (`prev = '0'`, which the base prefix also
    sets). -/
theorem scanDigits_U (b : Nat) (hb : b ≤ 63) (sep : Bool) (us : UDigits) (hd : IsDigitsB b us.bytes)
    (hsep : sep = false → us.Plain) (rest : List Nat) (st : ScanSt) (hhead : st.prev = 48 ∨ us.HeadPlain) :
    scanDigits b sep (renderU us ++ rest) st =
      scanDigits b sep rest { st with prev := if us = [] then st.prev else 48,
                                      count := st.count + us.length,
                                      val := st.val * b ^ us.length + valB b us.bytes } := by
  induction us generalizing st with
  | nil => simp [renderU, valB, UDigits.bytes]
  | cons u us ih =>
    obtain ⟨fl, c⟩ := u
    rw [UDigits.bytes_cons, IsDigitsB_cons] at hd
    have hsep' : sep = false → UDigits.Plain us := fun h => (UDigits.Plain_cons.mp (hsep h)).2
    have hfin : ∀ st' : ScanSt, st'.prev = 48 →
        scanDigits b sep (renderU us ++ rest) st' =
          scanDigits b sep rest { st' with prev := if us = [] then st'.prev else 48,
                                           count := st'.count + us.length,
                                           val := st'.val * b ^ us.length + valB b (UDigits.bytes us) } :=
      fun st' h => ih hd.2 hsep' st' (Or.inl h)
    cases fl with
    | false =>
      simp only [renderU, List.cons_append]
      rw [scanDigits_digitB b hb sep c hd.1, hfin _ rfl]
      congr 1
      simp only [UDigits.bytes_cons, valB_cons, List.length_cons, Nat.pow_succ, UDigits.bytes_length]
      cases st
      simp only [ScanSt.mk.injEq, true_and, and_true]
      refine ⟨?_, by omega, ?_⟩
      · rw [Nat.add_mul, Nat.mul_assoc, Nat.mul_comm b, Nat.add_assoc]
      · split <;> simp
    | true =>
      have hs : sep = true := by
        cases sep with
        | true => rfl
        | false => exact absurd (UDigits.Plain_cons.mp (hsep rfl)).1 (by simp)
      subst hs
      have hp : st.prev = 48 := by
        rcases hhead with h | h
        · exact h
        · exact absurd h (by simp [UDigits.HeadPlain])
      simp only [renderU, List.cons_append]
      rw [scanDigits_us, scanDigits_digitB b hb true c hd.1, hfin _ rfl]
      congr 1
      simp only [UDigits.bytes_cons, valB_cons, List.length_cons, Nat.pow_succ, UDigits.bytes_length]
      cases st
      simp only [ScanSt.mk.injEq, true_and, and_true] at hp ⊢
      subst hp
      refine ⟨?_, by omega, ?_, by simp⟩
      · rw [Nat.add_mul, Nat.mul_assoc, Nat.mul_comm b, Nat.add_assoc]
      · split <;> simp

/-- What may follow a base-`b` mantissa: nothing, or a byte the digit loop stops at.
    `frac` = a '.' has already been consumed. -/
def MantEndB (b : Nat) (sep frac : Bool) : List Nat → Prop
  | [] => True
  | ch :: _ => digitVal ch ≥ b ∧ (ch = 95 → sep = false) ∧ (ch = 46 → frac = true)

theorem scanDigits_endB (b : Nat) (sep : Bool) (rest : List Nat) (st : ScanSt)
    (h : MantEndB b sep (!st.fracOk) rest) : scanDigits b sep rest st = (st, rest) := by
  cases rest with
  | nil => rfl
  | cons ch r =>
    obtain ⟨h1, h2, h3⟩ := h
    exact scanDigits_stop b sep ch r st (fun hc => by simpa using h3 hc) h2 h1

/-- fraction digit count as `dec.scan` reports it. -/
def fcountU (ip : UDigits) (fp : Option UDigits) : Int :=
  match fp with
  | none => ip.length
  | some f => -(f.length : Int)

/-- The digit loop on a literal mantissa, from the state left by the base prefix (`prev = '0'`) or from
    the initial state (`prev = '.'`; then no separator before the first digit). -/
theorem scanDigits_mantU (b : Nat) (hb : b ≤ 63) (sep : Bool) (ip : UDigits) (fp : Option UDigits)
    (rest : List Nat) (pv0 : Nat)
    (hip : IsDigitsB b ip.bytes) (hfp : IsDigitsB b (fp.getD []).bytes)
    (hsep : sep = false → ip.Plain ∧ (fp.getD []).Plain)
    (hpv0 : pv0 = 48 ∨ (pv0 = 46 ∧ ip.HeadPlain)) (hhfp : (fp.getD []).HeadPlain)
    (hend : MantEndB b sep fp.isSome rest) :
    ∃ pv, pv ≠ 95 ∧
      scanDigits b sep (renderMantU ip fp ++ rest) { prev := pv0 } =
        ({ val := valB b (ip.bytes ++ (fp.getD []).bytes), count := ip.length + (fp.getD []).length,
           dp := fp.map (fun _ => ip.length), fracOk := fp.isNone, prev := pv, invalSep := false }, rest) := by
  have hpv95 : pv0 ≠ 95 := by rcases hpv0 with h | h <;> omega
  have hhip : ({ prev := pv0 } : ScanSt).prev = 48 ∨ ip.HeadPlain := by
    rcases hpv0 with h | h
    · exact Or.inl h
    · exact Or.inr h.2
  cases fp with
  | none =>
    refine ⟨if ip = [] then pv0 else 48, by split <;> omega, ?_⟩
    simp only [renderMantU, List.append_nil, Option.getD_none, UDigits.bytes_nil]
    rw [scanDigits_U b hb sep ip hip (fun h => (hsep h).1) rest _ hhip, scanDigits_endB]
    · simp
    · simpa using hend
  | some f =>
    refine ⟨if f = [] then 46 else 48, by split <;> omega, ?_⟩
    simp only [renderMantU, Option.getD_some, List.append_assoc, List.cons_append]
    simp only [Option.getD_some] at hfp hhfp hsep
    rw [scanDigits_U b hb sep ip hip (fun h => (hsep h).1) _ _ hhip, scanDigits_dot _ _ _ _ rfl,
      scanDigits_U b hb sep f hfp (fun h => (hsep h).2) rest _ (Or.inr hhfp), scanDigits_endB]
    · simp only [valB_append, Nat.zero_mul, Nat.zero_add, Option.map_some, Option.isNone_some,
        Bool.false_or, Prod.mk.injEq, and_true, ScanSt.mk.injEq, true_and, UDigits.bytes_length]
      split
      · simpa using hpv95
      · rfl
    · simpa using hend

/-! ### `scanMant` -/

theorem scanMantCore_mantU (b : Nat) (hb : b ≤ 63) (sep : Bool) (ip : UDigits) (fp : Option UDigits)
    (rest : List Nat) (pv0 : Nat)
    (hip : IsDigitsB b ip.bytes) (hfp : IsDigitsB b (fp.getD []).bytes) (hne : ip ++ fp.getD [] ≠ [])
    (hsep : sep = false → ip.Plain ∧ (fp.getD []).Plain)
    (hpv0 : pv0 = 48 ∨ (pv0 = 46 ∧ ip.HeadPlain)) (hhfp : (fp.getD []).HeadPlain)
    (hend : MantEndB b sep fp.isSome rest) :
    scanMantCore b sep (renderMantU ip fp ++ rest) { prev := pv0 } =
      .ok (valB b (ip.bytes ++ (fp.getD []).bytes), b, fcountU ip fp, rest) := by
  obtain ⟨pv, hpv, h⟩ := scanDigits_mantU b hb sep ip fp rest pv0 hip hfp hsep hpv0 hhfp hend
  have hc : ip.length + (fp.getD []).length ≠ 0 := by
    intro h0
    apply hne
    rw [← List.length_eq_zero_iff, List.length_append]; exact h0
  unfold scanMantCore
  rw [h]
  simp only [hc, if_false, Bool.false_or, beq_iff_eq, hpv]
  cases fp with
  | none =>
    simp only [Option.getD_none, List.length_nil, Nat.add_zero] at hc ⊢
    simp [fcountU]
  | some f => simp [fcountU]; omega

/-- base 0: a base prefix selects the mantissa base; the prefix counts as a digit for the separator
    rule (`prev = '0'`) but not for the digit count. -/
theorem scanMant_prefix (c b : Nat) (h : prefixBase c = some b) (s : List Nat) :
    scanMant 0 (48 :: c :: s) = scanMantCore b true s { prev := 48 } := by
  unfold prefixBase at h
  unfold scanMant scanMantCore
  simp only [if_true, decide_true, chr_b, chr_B, chr_o, chr_O, chr_x, chr_X]
  by_cases h1 : c = 98 ∨ c = 66
  · rw [if_pos h1] at h
    cases h
    simp only [h1, if_true]
    rfl
  · rw [if_neg h1] at h
    by_cases h2 : c = 111 ∨ c = 79
    · rw [if_pos h2] at h
      cases h
      simp only [h1, h2, if_true, if_false]
      rfl
    · rw [if_neg h2] at h
      by_cases h3 : c = 120 ∨ c = 88
      · rw [if_pos h3] at h
        cases h
        simp only [h1, h2, h3, if_true, if_false]
        rfl
      · rw [if_neg h3] at h
        cases h

theorem mem_renderU {us : UDigits} {x : Nat} (h : x ∈ renderU us) : x = 95 ∨ x ∈ us.bytes := by
  induction us with
  | nil => simp [renderU] at h
  | cons u us ih =>
    obtain ⟨fl, c⟩ := u
    cases fl with
    | false =>
      simp only [renderU, List.mem_cons] at h
      rcases h with h | h
      · exact Or.inr (by simp [UDigits.bytes, h])
      · rcases ih h with h | h
        · exact Or.inl h
        · exact Or.inr (by simp only [UDigits.bytes_cons, List.mem_cons]; exact Or.inr h)
    | true =>
      simp only [renderU, List.mem_cons] at h
      rcases h with h | h | h
      · exact Or.inl h
      · exact Or.inr (by simp [UDigits.bytes, h])
      · rcases ih h with h | h
        · exact Or.inl h
        · exact Or.inr (by simp only [UDigits.bytes_cons, List.mem_cons]; exact Or.inr h)

/-- every byte of a rendered mantissa is a digit byte, `_` or `.`. -/
theorem mem_renderMantU {ip : UDigits} {fp : Option UDigits} {x : Nat} (h : x ∈ renderMantU ip fp) :
    x = 95 ∨ x = 46 ∨ x ∈ ip.bytes ∨ x ∈ (fp.getD []).bytes := by
  simp only [renderMantU, List.mem_append] at h
  rcases h with h | h
  · rcases mem_renderU h with h | h
    · exact Or.inl h
    · exact Or.inr (Or.inr (Or.inl h))
  · cases fp with
    | none => simp at h
    | some f =>
      simp only [List.mem_cons] at h
      rcases h with h | h
      · exact Or.inr (Or.inl h)
      · rcases mem_renderU h with h | h
        · exact Or.inl h
        · exact Or.inr (Or.inr (Or.inr h))

theorem renderU_ne_nil {us : UDigits} (h : us ≠ []) : renderU us ≠ [] := by
  cases us with
  | nil => exact absurd rfl h
  | cons u us => obtain ⟨fl, c⟩ := u; cases fl <;> simp [renderU]

theorem renderMantU_ne_nil {ip : UDigits} {fp : Option UDigits} (hne : ip ++ fp.getD [] ≠ []) :
    renderMantU ip fp ≠ [] := by
  unfold renderMantU
  cases ip with
  | cons u us =>
    have := renderU_ne_nil (us := u :: us) (by simp)
    intro h
    exact this (List.append_eq_nil_iff.mp h).1
  | nil =>
    cases fp with
    | none => simp at hne
    | some f => simp [renderU]

/-- base 0, no prefix: a decimal mantissa followed by `rest` shows no base prefix. -/
theorem noBasePrefix_mantU (ip : UDigits) (fp : Option UDigits) (rest : List Nat)
    (hip : IsDigitsB 10 ip.bytes) (hfp : IsDigitsB 10 (fp.getD []).bytes) (hne : ip ++ fp.getD [] ≠ [])
    (hrest : NoPrefixLetterHead rest) : NoBasePrefix (renderMantU ip fp ++ rest) := by
  intro c r h
  have hm := renderMantU_ne_nil hne
  cases hmm : renderMantU ip fp with
  | nil => exact absurd hmm hm
  | cons x m' =>
    rw [hmm] at h
    simp only [List.cons_append, List.cons.injEq] at h
    obtain ⟨_, h⟩ := h
    cases m' with
    | nil =>
      simp only [List.nil_append] at h
      rw [h] at hrest
      exact hrest
    | cons y m'' =>
      simp only [List.cons_append, List.cons.injEq] at h
      have hy : y ∈ renderMantU ip fp := by rw [hmm]; simp
      obtain ⟨hy', _⟩ := h
      subst hy'
      rcases mem_renderMantU hy with h | h | h | h
      · omega
      · omega
      · have := digitVal_lt10.mp (hip _ h); omega
      · have := digitVal_lt10.mp (hfp _ h); omega

/-- `scanMant` on the mantissa of a literal (prefix included) followed by `rest`. -/
theorem scanMant_litB (base b : Nat) (pfx : Option Nat) (ip : UDigits) (fp : Option UDigits) (rest : List Nat)
    (hbase : (base = b ∧ pfx = none ∧ (base = 2 ∨ base = 8 ∨ base = 10 ∨ base = 16)) ∨ (base = 0 ∧ PfxOk pfx b))
    (hip : IsDigitsB b ip.bytes) (hfp : IsDigitsB b (fp.getD []).bytes) (hne : ip ++ fp.getD [] ≠ [])
    (hsep : base ≠ 0 → ip.Plain ∧ (fp.getD []).Plain)
    (hhip : pfx = none → ip.HeadPlain) (hhfp : (fp.getD []).HeadPlain)
    (hend : MantEndB b (decide (base = 0)) fp.isSome rest)
    (hnp : base = 0 → pfx = none → NoPrefixLetterHead rest) :
    scanMant base (renderPfx pfx ++ (renderMantU ip fp ++ rest)) =
      .ok (valB b (ip.bytes ++ (fp.getD []).bytes), b, fcountU ip fp, rest) := by
  rcases hbase with ⟨hb, hp, hb4⟩ | ⟨hb, hp⟩
  · subst hb; subst hp
    have h0 : base ≠ 0 := by omega
    rw [scanMant_base base h0]
    simp only [renderPfx, List.nil_append]
    have hd : decide (base = 0) = false := by simp [h0]
    rw [hd] at hend
    exact scanMantCore_mantU base (by omega) false ip fp rest 46 hip hfp hne (fun _ => hsep h0)
      (Or.inr ⟨rfl, hhip rfl⟩) hhfp hend
  · subst hb
    simp only [decide_true] at hend
    cases pfx with
    | none =>
      have hb10 : b = 10 := hp
      subst hb10
      simp only [renderPfx, List.nil_append]
      rw [scanMant_zero _ (noBasePrefix_mantU ip fp rest hip hfp hne (hnp rfl rfl))]
      exact scanMantCore_mantU 10 (by omega) true ip fp rest 46 hip hfp hne (fun h => by cases h)
        (Or.inr ⟨rfl, hhip rfl⟩) hhfp hend
    | some c =>
      have hpb : prefixBase c = some b := hp
      have hb63 : b ≤ 63 := by
        unfold prefixBase at hpb
        split at hpb
        · cases hpb; omega
        · split at hpb
          · cases hpb; omega
          · split at hpb
            · cases hpb; omega
            · cases hpb
      simp only [renderPfx, List.cons_append, List.nil_append]
      rw [scanMant_prefix c b hpb]
      exact scanMantCore_mantU b hb63 true ip fp rest 48 hip hfp hne (fun h => by cases h)
        (Or.inl rfl) hhfp hend

/-! ### `scanExponent` -/

theorem scanExponent_marker (sepOk : Bool) (m eb : Nat) (hm : markerBase m = some eb) (sg : Option Bool)
    (body : List Nat) (h : sg = none → NoSignHead body) :
    scanExponent sepOk (m :: (signBytes sg ++ body)) = scanExpTail sepOk eb (signVal sg) body := by
  have key : ∀ (e : Option Nat), e = some eb →
      (match e with
        | none => (Except.ok (0, 10, m :: (signBytes sg ++ body)) : Except ScanErr (Int × Nat × List Nat))
        | some eb' =>
          let (neg, rest) : Bool × List Nat := match signBytes sg ++ body with
            | c :: r2 => if c = chr '-' then (true, r2) else if c = chr '+' then (false, r2) else (false, signBytes sg ++ body)
            | [] => (false, [])
          let ((v, has, prev, inval), rest) := scanExpDigits sepOk rest (0, false, 46, false)
          if !has then .error .noDigits
          else if (!neg ∧ v > 9223372036854775807) ∨ (neg ∧ v > 9223372036854775808) then .error .expRange
          else if inval || prev == 95 then .error .invalSep
          else .ok ((if neg then -(v : Int) else v), eb', rest)) = scanExpTail sepOk eb (signVal sg) body := by
    intro e he
    subst he
    unfold scanExpTail
    simp only [chr_minus, chr_plus]
    match sg, h with
    | some true, _ => simp [signBytes, signVal]
    | some false, _ => simp [signBytes, signVal]
    | none, h =>
      have h := h rfl
      cases body with
      | nil => rfl
      | cons c r =>
        obtain ⟨h1, h2⟩ := h
        simp [signBytes, signVal, h1, h2]
  unfold markerBase at hm
  unfold scanExponent
  simp only [chr_e, chr_E, chr_p, chr_P]
  exact key _ hm

end Decimal
