/-
  `scanTail` beyond the exact regime: the power of two is `pow2`'s approximation `2^k · ρ`,
  `|ρ − 1| ≤ 10^-(prec+16)`, and the stored value is `M × 10^t × (2^k ρ)^{±1}` rounded once.
-/
import Proofs.Pow2Err

namespace Decimal
open Spec

theorem relU_bound (p : Nat) : 141 * relU (p + 19) ≤ 1 / (10 : ℚ) ^ (p + 16) := by
  unfold relU
  have h10 : (10 : ℚ) ≠ 0 := by norm_num
  have e : (1 : Int) - ((p + 19 : Nat) : Int) = -((p + 16 : Nat) : Int) + (-2) := by push_cast; ring
  rw [e, zpow_add₀ h10, zpow_neg, zpow_natCast]
  have hpos : (0 : ℚ) < ((10 : ℚ) ^ (p + 16))⁻¹ := by positivity
  have : (141 : ℚ) * ((10 : ℚ) ^ (-2 : Int) / 2) ≤ 1 := by norm_num
  calc 141 * (((10 : ℚ) ^ (p + 16))⁻¹ * (10 : ℚ) ^ (-2 : Int) / 2)
      = ((10 : ℚ) ^ (p + 16))⁻¹ * (141 * ((10 : ℚ) ^ (-2 : Int) / 2)) := by ring
    _ ≤ ((10 : ℚ) ^ (p + 16))⁻¹ * 1 := mul_le_mul_of_nonneg_left this hpos.le
    _ = 1 / (10 : ℚ) ^ (p + 16) := by rw [mul_one, one_div]

/-- **Scaling by a binary exponent, in general** (`0 < |e2| ≤ 7·10^9`): `pow2` delivers `2^|e2| · ρ`
    with `|ρ − 1| ≤ 10^-(prec+16)`; the value `M × 10^t × 2^|e2| ρ` resp. `M × 10^t / (2^|e2| ρ)` is rounded
    once to the receiver's precision and mode; the result `r` is returned when that rounding is finite,
    and (as repaired) the error `expOverflow` when it left the exponent range. -/
theorem scanTail_apx (z : Dec) (neg : Bool) (M : Nat) (t e2 : Int) (hM : 0 < M)
    (h1 : MinExp ≤ (ndigits M : Int) + t) (h2 : (ndigits M : Int) + t ≤ MaxExp)
    (hprec : z.prec + 38 ≤ 2147483647) (he2 : e2 ≠ 0) (hk : e2.natAbs ≤ 7000000000) :
    ∃ (r : Dec) (ρ : ℚ), 0 < ρ ∧
      |ρ - 1| ≤ 1 / (10 : ℚ) ^ ((if z.prec = 0 then 34 else z.prec) + 16) ∧
      agrees r (Spec.round z.mode (if z.prec = 0 then 34 else z.prec) neg
        (if e2 < 0 then (M : ℚ) / ((2 : ℚ) ^ e2.natAbs * ρ) else (M : ℚ) * ((2 : ℚ) ^ e2.natAbs * ρ)) t) = true ∧
      r.prec = (if z.prec = 0 then 34 else z.prec) ∧ r.mode = z.mode ∧
      scanTail z neg M t e2 =
        (if (Spec.round z.mode (if z.prec = 0 then 34 else z.prec) neg
              (if e2 < 0 then (M : ℚ) / ((2 : ℚ) ^ e2.natAbs * ρ) else (M : ℚ) * ((2 : ℚ) ^ e2.natAbs * ρ)) t).form = .finite
         then .ok r else .error .expOverflow) := by
  have hp := prec34_pos z
  have hpm : (if z.prec = 0 then 34 else z.prec) + 19 + 19 ≤ 2147483647 := by split <;> omega
  obtain ⟨ρ, fc, ng, vv, hρ, hb⟩ := pow2_apx ((if z.prec = 0 then 34 else z.prec) + 19) e2.natAbs (by omega) hpm hk
  have hb' := le_trans hb (relU_bound _)
  by_cases hneg : e2 < 0
  · have he : e2 = -((e2.natAbs : Nat) : Int) := by omega
    obtain ⟨r, hag, hpr, hmo, hres⟩ := scanTail_quo_of z neg M t e2.natAbs hM (by omega) h1 h2
      (by rw [DW_eq]; exact fc) (by rw [DW_eq]; exact ng)
    rw [← he] at hres
    rw [DW_eq, vv] at hag hres
    refine ⟨r, ρ, hρ, hb', ?_, hpr, hmo, ?_⟩
    · rw [if_pos hneg]; exact hag
    · rw [if_pos hneg]; exact hres
  · have he : e2 = ((e2.natAbs : Nat) : Int) := by omega
    obtain ⟨r, hag, hpr, hmo, hres⟩ := scanTail_mul_of z neg M t e2.natAbs hM (by omega) h1 h2
      (by rw [DW_eq]; exact fc) (by rw [DW_eq]; exact ng)
    rw [← he] at hres
    rw [DW_eq, vv] at hag hres
    refine ⟨r, ρ, hρ, hb', ?_, hpr, hmo, ?_⟩
    · rw [if_neg hneg]; exact hag
    · rw [if_neg hneg]; exact hres

end Decimal
