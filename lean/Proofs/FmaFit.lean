/-
  `FMA` when the exact product has more words than the scratch precision `MaxPrec` allows but no
  more than `MaxPrec` SIGNIFICANT digits: the scratch `umul` then only drops zero words
  (`roundTrim`), the product is still exact, and `Add` still rounds once.

  This replaces the hypothesis `(x.len + y.len)·19 ≤ MaxPrec` of `fma_correct` (Proofs/Fma.lean) by
  the weakest one under which the scratch product is exact:
      `ProdFits x y : 10^(ndigits (x.mant·y.mant) − MaxPrec) ∣ x.mant·y.mant`.
-/
import Proofs.Fma
import Proofs.Conv
import Proofs.Alias

namespace Decimal
open Spec

/-- The exact product `x.mant·y.mant` has at most `MaxPrec` significant digits (counting from its
    leading digit to its last non-zero digit). -/
def ProdFits (x y : Dec) : Prop := 10 ^ (ndigits (x.mant * y.mant) - MaxPrec) ∣ x.mant * y.mant

/-- The normalised product before the scratch rounding. -/
def fmaRaw (z x y : Dec) : Dec :=
  let P := x.mant * y.mant
  ⟨.finite, x.neg != y.neg, P * 10 ^ dnormShift P (nwords P), nwords P,
    intExp x + intExp y + (ndigits P : Int), MaxPrec, z.mode, z.acc⟩

/-- The scratch Decimal `z0` as `FMA` hands it to the final `Add`. -/
def fmaProdT (z x y u : Dec) : Dec := { roundTrim (fmaRaw z x y) with prec := effPrec3 z x y u }

theorem prodFits_dvd {x y : Dec} (h : ProdFits x y) :
    10 ^ ((fmaRaw z x y).len * 19 - (fmaRaw z x y).prec) ∣ (fmaRaw z x y).mant := by
  show 10 ^ (nwords (x.mant * y.mant) * 19 - MaxPrec) ∣
    x.mant * y.mant * 10 ^ dnormShift (x.mant * y.mant) (nwords (x.mant * y.mant))
  unfold ProdFits at h
  have hs := ndigits_add_dnormShift (x.mant * y.mant)
  generalize x.mant * y.mant = P at *
  generalize dnormShift P (nwords P) = s at *
  by_cases hc : MaxPrec ≤ ndigits P
  · have : nwords P * 19 - MaxPrec = (ndigits P - MaxPrec) + s := by omega
    rw [this, Nat.pow_add]
    exact Nat.mul_dvd_mul h (Nat.dvd_refl _)
  · exact Nat.dvd_trans (Nat.pow_dvd_pow 10 (by omega)) (Nat.dvd_mul_left _ _)

theorem prodFits_of_words {x y : Dec} (h : nwords (x.mant * y.mant) * 19 ≤ MaxPrec) : ProdFits x y := by
  unfold ProdFits
  have := ndigits_le_nwords (x.mant * y.mant)
  have : ndigits (x.mant * y.mant) - MaxPrec = 0 := by omega
  rw [this]; exact Nat.one_dvd _

theorem prodFits_of_len {x y : Dec} (hx : FinCanon x) (hy : FinCanon y)
    (h : (x.len + y.len) * 19 ≤ MaxPrec) : ProdFits x y :=
  prodFits_of_words (by have := nwords_mul_le hx hy; omega)

/-- Canonical factors whose precisions add up to at most `MaxPrec`. -/
theorem prodFits_of_prec {x y : Dec} (hx : Canon x) (hy : Canon y)
    (h : x.prec + y.prec ≤ MaxPrec) : ProdFits x y := by
  unfold ProdFits
  obtain ⟨a, ha⟩ := hx.2
  obtain ⟨b, hb⟩ := hy.2
  have h1 := ndigits_lt_pow x.mant
  have h2 := ndigits_lt_pow y.mant
  rw [hx.1.nd] at h1
  rw [hy.1.nd] at h2
  have hlt : x.mant * y.mant < 10 ^ (x.len * 19 + y.len * 19) := by
    rw [Nat.pow_add]; exact Nat.mul_lt_mul'' h1 h2
  have hnd := (ndigits_le_iff _ _).mpr hlt
  have hdvd : 10 ^ ((x.len * 19 - x.prec) + (y.len * 19 - y.prec)) ∣ x.mant * y.mant := by
    rw [Nat.pow_add]
    exact Nat.mul_dvd_mul hx.2 hy.2
  refine Nat.dvd_trans (Nat.pow_dvd_pow 10 ?_) hdvd
  -- the product has at least `len·19 − 1` digits per factor, so its excess over MaxPrec is bounded
  have hxp := hx.1.prec_pos
  have hyp := hy.1.prec_pos
  by_cases hc : x.len * 19 ≤ x.prec
  · by_cases hd : y.len * 19 ≤ y.prec
    · omega
    · omega
  · by_cases hd : y.len * 19 ≤ y.prec
    · omega
    · omega

/-- The scratch product: `umul` at precision `MaxPrec` only trims zero words. -/
theorem umul_scratch (z x y : Dec) (hfit : ProdFits x y)
    (hmin : MinExp ≤ intExp x + intExp y + (ndigits (x.mant * y.mant) : Int))
    (hmax : intExp x + intExp y + (ndigits (x.mant * y.mant) : Int) ≤ MaxExp) :
    umul ⟨z.form, x.neg != y.neg, z.mant, z.len, z.exp, MaxPrec, z.mode, z.acc⟩ x y
      = roundTrim (fmaRaw z x y) := by
  have hs := ndigits_add_dnormShift (x.mant * y.mant)
  have hE : intExp x + intExp y + ((nwords (x.mant * y.mant) * DW : Nat) : Int)
      - ((dnormShift (x.mant * y.mant) (nwords (x.mant * y.mant)) : Nat) : Int)
      = intExp x + intExp y + (ndigits (x.mant * y.mant) : Int) := by rw [DW_eq]; omega
  unfold umul setNormAndRound
  simp only [hE]
  unfold setExpAndRound
  have h1 : ¬ intExp x + intExp y + (ndigits (x.mant * y.mant) : Int) < MinExp := by omega
  have h2 : ¬ intExp x + intExp y + (ndigits (x.mant * y.mant) : Int) > MaxExp := by omega
  simp only [h1, h2, if_false]
  exact round_roundTrim (x := fmaRaw z x y) rfl (prodFits_dvd hfit)

theorem add_self_alias (z y : Dec) (hp : z.prec ≠ 0) : add z z y true false = add z z y false false := by
  rw [add_alias_x', prologue_of_nonzero hp]

theorem fma_eq_fit (z x y u : Dec) (hx : FinCanon x) (hy : FinCanon y) (hu : FinCanon u)
    (hfit : ProdFits x y)
    (hmin : MinExp ≤ intExp x + intExp y + (ndigits (x.mant * y.mant) : Int))
    (hmax : intExp x + intExp y + (ndigits (x.mant * y.mant) : Int) ≤ MaxExp) :
    fma z x y u = add (fmaProdT z x y u) (fmaProdT z x y u) u := by
  have hp := effPrec3_pos z (x := x) (y := y) hu
  have hpro : (if z.prec == 0 then { z with prec := umax (umax x.prec y.prec) u.prec } else z)
      = { z with prec := effPrec3 z x y u } := by
    unfold effPrec3
    by_cases h : z.prec = 0 <;> simp [h]
  have hprod := umul_scratch z x y hfit hmin hmax
  unfold fma
  simp only [hpro, opnd, Bool.false_eq_true, if_false, hx.form_eq, hy.form_eq, hu.form_eq,
    beq_self_eq_true, Bool.and_self, if_true]
  have hz : ((Form.finite == Form.zero) = false) := by decide
  simp only [hz, Bool.false_and, Bool.false_eq_true, if_false, hprod]
  exact add_self_alias (fmaProdT z x y u) u (by show effPrec3 z x y u ≠ 0; omega)

theorem fmaProdT_spec (z x y u : Dec) (hx : FinCanon x) (hy : FinCanon y) (hu : FinCanon u)
    (hfit : ProdFits x y)
    (hmin : MinExp ≤ intExp x + intExp y + (ndigits (x.mant * y.mant) : Int))
    (hmax : intExp x + intExp y + (ndigits (x.mant * y.mant) : Int) ≤ MaxExp) :
    FinCanon (fmaProdT z x y u) ∧ (fmaProdT z x y u).neg = (x.neg != y.neg) ∧
      (fmaProdT z x y u).prec = effPrec3 z x y u ∧ (fmaProdT z x y u).mode = z.mode ∧
      ((fmaProdT z x y u).mant : ℚ) * (10 : ℚ) ^ (intExp (fmaProdT z x y u))
        = ((x.mant : ℚ) * (y.mant : ℚ)) * (10 : ℚ) ^ (intExp x + intExp y) := by
  have hP : 0 < x.mant * y.mant := Nat.mul_pos hx.mant_pos hy.mant_pos
  obtain ⟨f1, f2, f3, f4, f5, f6⟩ := roundTrim_fields (fmaRaw z x y)
  obtain ⟨g1, g2⟩ := roundTrim_mant (prodFits_dvd (z := z) hfit)
  have hrawnd : ndigits (fmaRaw z x y).mant = (fmaRaw z x y).len * 19 := ndigits_dnorm hP
  have hrawlen : 0 < (fmaRaw z x y).len := nwords_pos hP
  have hrawpos : 0 < (fmaRaw z x y).mant := Nat.mul_pos hP (ten_pow_pos _)
  have hs := ndigits_add_dnormShift (x.mant * y.mant)
  -- the trimmed mantissa
  have hTpos : 0 < (roundTrim (fmaRaw z x y)).mant := by
    rcases Nat.eq_zero_or_pos (roundTrim (fmaRaw z x y)).mant with h0 | h0
    · rw [h0, Nat.zero_mul] at g2; omega
    · exact h0
  have hTnd : ndigits (roundTrim (fmaRaw z x y)).mant = (roundTrim (fmaRaw z x y)).len * 19 := by
    have := ndigits_mul_pow hTpos (19 * ((fmaRaw z x y).len - (roundTrim (fmaRaw z x y)).len))
    rw [← B_pow, g2, hrawnd] at this
    omega
  have hTlen : 0 < (roundTrim (fmaRaw z x y)).len := by
    rcases Nat.eq_zero_or_pos (roundTrim (fmaRaw z x y)).len with h0 | h0
    · rw [h0] at hTnd
      have := ndigits_pos hTpos
      omega
    · exact h0
  refine ⟨⟨f1, hTlen, hTnd, effPrec3_pos z hu, ?_, ?_⟩, f2, rfl, f5, ?_⟩
  · show MinExp ≤ (roundTrim (fmaRaw z x y)).exp
    rw [f3]; exact hmin
  · show (roundTrim (fmaRaw z x y)).exp ≤ MaxExp
    rw [f3]; exact hmax
  · -- value
    have h10 : (10 : ℚ) ≠ 0 := by norm_num
    have hie : intExp (fmaProdT z x y u)
        = intExp x + intExp y + (ndigits (x.mant * y.mant) : Int)
          - (((roundTrim (fmaRaw z x y)).len * 19 : Nat) : Int) := by
      show (roundTrim (fmaRaw z x y)).exp - (((roundTrim (fmaRaw z x y)).len * DW : Nat) : Int) = _
      rw [f3, DW_eq]; rfl
    have hm : ((roundTrim (fmaRaw z x y)).mant : ℚ)
          * (10 : ℚ) ^ ((19 * ((fmaRaw z x y).len - (roundTrim (fmaRaw z x y)).len) : Nat) : Int)
        = ((x.mant : ℚ) * (y.mant : ℚ))
          * (10 : ℚ) ^ ((dnormShift (x.mant * y.mant) (nwords (x.mant * y.mant)) : Nat) : Int) := by
      have := congrArg (Nat.cast (R := ℚ)) g2
      rw [B_pow] at this
      rw [← natpow_cast_zpow, ← natpow_cast_zpow]
      have e : ((fmaRaw z x y).mant : ℚ) = ((x.mant * y.mant * 10 ^ dnormShift (x.mant * y.mant) (nwords (x.mant * y.mant)) : Nat) : ℚ) := rfl
      rw [e] at this
      push_cast at this ⊢
      exact this
    show ((roundTrim (fmaRaw z x y)).mant : ℚ) * _ = _
    rw [hie]
    have hlenraw : (fmaRaw z x y).len = nwords (x.mant * y.mant) := rfl
    rw [hlenraw] at g1 hm
    generalize (roundTrim (fmaRaw z x y)).len = n at *
    generalize (roundTrim (fmaRaw z x y)).mant = T at *
    generalize dnormShift (x.mant * y.mant) (nwords (x.mant * y.mant)) = s at *
    generalize nwords (x.mant * y.mant) = L at *
    have hsplit : intExp x + intExp y + (ndigits (x.mant * y.mant) : Int) - ((n * 19 : Nat) : Int)
        = ((19 * (L - n) : Nat) : Int) + (intExp x + intExp y - (s : Int)) := by
      omega
    rw [hsplit, zpow_add₀ h10, ← mul_assoc, hm, mul_assoc, ← zpow_add₀ h10]
    congr 2
    omega

/-- `fma_correct` with the hypothesis on the word lengths replaced by `ProdFits`. -/
theorem fma_correct_fit (z x y u : Dec) (hx : FinCanon x) (hy : FinCanon y) (hu : FinCanon u)
    (hfit : ProdFits x y)
    (hmin : MinExp ≤ intExp x + intExp y + (ndigits (x.mant * y.mant) : Int))
    (hmax : intExp x + intExp y + (ndigits (x.mant * y.mant) : Int) ≤ MaxExp) :
    agrees (fma z x y u).1
        (Spec'.addExact z.mode (effPrec3 z x y u) (x.neg != y.neg) ((x.mant : ℚ) * (y.mant : ℚ))
          (intExp x + intExp y) u.neg u.mant (intExp u)) = true
      ∧ (fma z x y u).2 = .ok ∧ (fma z x y u).1.prec = effPrec3 z x y u
      ∧ (fma z x y u).1.mode = z.mode := by
  have hp := effPrec3_pos z (x := x) (y := y) hu
  obtain ⟨hc, hneg, hprec, hmode, hval⟩ := fmaProdT_spec z x y u hx hy hu hfit hmin hmax
  rw [fma_eq_fit z x y u hx hy hu hfit hmin hmax]
  have h := Decimal.add_correct (fmaProdT z x y u) (fmaProdT z x y u) u hc hu
  have hpe : effPrec2 (fmaProdT z x y u) (fmaProdT z x y u) u = effPrec3 z x y u := by
    unfold effPrec2
    have : ((fmaProdT z x y u).prec == 0) = false := by
      rw [hprec]; simp; omega
    simp only [this, Bool.false_eq_true, if_false]; exact hprec
  rw [hpe, hneg, hmode] at h
  rw [addExact_congr _ _ _ _ _ _ _ _ _ _ hval] at h
  exact h

theorem fma_zero_sum_sign_fit (z x y u : Dec) (hx : FinCanon x) (hy : FinCanon y) (hu : FinCanon u)
    (hfit : ProdFits x y)
    (hmin : MinExp ≤ intExp x + intExp y + (ndigits (x.mant * y.mant) : Int))
    (hmax : intExp x + intExp y + (ndigits (x.mant * y.mant) : Int) ≤ MaxExp)
    (hzero : ((signedQ (x.neg != y.neg) ((x.mant : ℚ) * (y.mant : ℚ)) (intExp x + intExp y)).add
      (signedQ u.neg u.mant (intExp u))).s = 0) :
    (fma z x y u).1.form = .zero ∧ (fma z x y u).1.acc = Exact
      ∧ (fma z x y u).1.neg = zeroSumSign z.mode (x.neg != y.neg) u.neg := by
  obtain ⟨h, _⟩ := fma_correct_fit z x y u hx hy hu hfit hmin hmax
  unfold Spec'.addExact at h
  rw [roundSQ_zero _ _ _ _ hzero, agrees_iff] at h
  exact ⟨h.1, h.2.2.1, h.2.1⟩

/-! ### The mechanism, at a small scale

  `fmaS S` is `fma` with the scratch precision `S` instead of `MaxPrec` (`fmaS_MaxPrec`). With
  `S = 3` the product `205 × 5 = 1025` does not fit: the scratch `umul` rounds it to `102·10`
  (ties to even), then `+ 0.00001` at precision 3 gives `1020`, whereas the exact `1025.00001`
  rounds to `1030` (see the `#eval`s in Properties/C03b.lean). So a hypothesis of the kind of
  `ProdFits` cannot be dropped: with `S = MaxPrec` the same happens for operands of more than two
  thousand million digits (about 1.8 GB each — large, but not impossible to build). -/

def fmaS (S : Nat) (z x y u : Dec) (sx sy su : Bool := false) : Dec × Outcome :=
  let z := if z.prec == 0 then { z with prec := umax (umax x.prec y.prec) u.prec } else z
  let x := opnd z x sx
  let y := opnd z y sy
  let u := opnd z u su
  if u.form == .zero && x.form == .finite && y.form == .finite then
    mul z x y sx sy
  else
    let z0 : Dec := if su then { mode := z.mode, prec := z.prec } else z
    let z0 := { z0 with neg := x.neg != y.neg }
    let finish (z0 : Dec) : Dec × Outcome := if su then add z z0 u false true else add z0 z0 u true false
    if x.form == .finite && y.form == .finite then
      let z0 := umul { z0 with prec := S } x y
      finish { z0 with prec := z.prec }
    else if (x.form == .zero && y.form == .inf) || (x.form == .inf && y.form == .zero) then
      ({ z with acc := Exact, form := .zero, neg := false }, .errNaN)
    else if x.form == .inf || y.form == .inf then
      finish { z0 with acc := Exact, form := .inf }
    else
      finish { z0 with acc := Exact, form := .zero }

theorem fmaS_MaxPrec (z x y u : Dec) (sx sy su : Bool) :
    fmaS MaxPrec z x y u sx sy su = fma z x y u sx sy su := rfl

end Decimal
