/-
  Building blocks for C17 (Gob encode/decode round trip, DecimalModel/Gob.lean).
  All names live in `namespace Decimal.GobRT`.

  1. big-endian bytes: `ofBE_be32`, `ofBE_be64`, `be32_length`, `be64_length`, `be32_lt`, `be64_lt`,
     `ofBE_append`, `ofBE_cons`, `ofBE_lt_e`
  2. `setBytesWords`: `setBytesWords_go_spec`/`setBytesWords_go_flatten` (fuel `≥ ws.length` is
     enough and necessary: checked with `#eval` on word lists of length 0..3, fuel 0..len+1),
     `gob_reverse_flatten`, `setBytesWords_spec`
  3. `wordsOfLen` / `natOf`: `wordsOfLen_length`, `wordsOfLen_lt`, `natOf_wordsOfLen`,
     `wordsOfLen_drop`, `wordsOfLen_getLast?`, `gob_natOf_lt`, `gob_natOf_ge_last`
  4. exponent: `gob_exp_lt`, `gob_exp_roundtrip`, `gob_exp_range_e`
  5. attribute byte `gobAttr`: `gobAttr_lt`, `gobAttr_mode`, `gobAttr_form`, `gobAttr_acc`, `gobAttr_neg`
  6. `gobDecode` on a receiver with `prec = 0`: inversion of an accepted payload (`gobDecode_inv`)
     and evaluation on a well-formed buffer (`gobDecode_nonfinite_eq`, `gobDecode_finite_eq`)
  7. digits of word vectors: `gob_ndigits_natOf`, `gob_top_word`, `gob_payload`
-/
import Proofs.Basic
import Proofs.TrailingZeros
import DecimalModel.Gob
import Mathlib.Tactic.Ring
import Mathlib.Tactic.Linarith
import Mathlib.Tactic.NormNum

namespace Decimal.GobRT
open Decimal

/-! ### 1. big-endian bytes -/

theorem be32_length (v : Nat) : (be32 v).length = 4 := rfl
theorem be64_length (w : Nat) : (be64 w).length = 8 := rfl

theorem be32_lt (v : Nat) : ∀ b ∈ be32 v, b < 256 := by
  intro b hb
  simp only [be32, List.mem_cons, List.not_mem_nil, or_false] at hb
  omega

theorem be64_lt (w : Nat) : ∀ b ∈ be64 w, b < 256 := by
  intro b hb
  simp only [be64, List.mem_append] at hb
  rcases hb with hb | hb <;> exact be32_lt _ b hb

theorem ofBE_be32 (v : Nat) (h : v < 2 ^ 32) : ofBE (be32 v) = v := by
  simp only [be32, ofBE, List.foldl]
  omega

theorem be_foldl (bs : List Nat) (a : Nat) :
    bs.foldl (fun acc b => acc * 256 + b) a = a * 256 ^ bs.length + ofBE bs := by
  induction bs generalizing a with
  | nil => simp [ofBE]
  | cons b bs ih =>
    simp only [ofBE, List.foldl_cons, List.length_cons] at ih ⊢
    rw [ih (a * 256 + b), ih (0 * 256 + b)]
    ring

theorem ofBE_nil : ofBE [] = 0 := rfl

theorem ofBE_append (a b : List Nat) : ofBE (a ++ b) = ofBE a * 256 ^ b.length + ofBE b := by
  simp only [ofBE, List.foldl_append]
  exact be_foldl b _

theorem ofBE_cons (b : Nat) (bs : List Nat) : ofBE (b :: bs) = b * 256 ^ bs.length + ofBE bs := by
  have := ofBE_append [b] bs
  simpa [ofBE] using this

theorem ofBE_lt_e (bs : List Nat) (h : ∀ b ∈ bs, b < 256) : ofBE bs < 256 ^ bs.length := by
  induction bs with
  | nil => simp [ofBE]
  | cons b bs ih =>
    have hb : b < 256 := h b (by simp)
    have ih' := ih (fun c hc => h c (by simp [hc]))
    rw [ofBE_cons, List.length_cons, pow_succ]
    nlinarith

theorem ofBE_be64 (w : Nat) (h : w < 2 ^ 64) : ofBE (be64 w) = w := by
  rw [be64, ofBE_append, be32_length, ofBE_be32 _ (by omega), ofBE_be32 _ (by omega)]
  omega

/-! ### 2. `setBytesWords` -/

/-- The byte string read by `setBytesWords.go`: the words in little-endian order, each word's
    bytes least significant first. -/
def gobRevBytes (ws : List Nat) : List Nat := (ws.map (fun w => (be64 w).reverse)).flatten

theorem gobRevBytes_cons (w : Nat) (ws : List Nat) :
    gobRevBytes (w :: ws) = (be64 w).reverse ++ gobRevBytes ws := by
  simp [gobRevBytes]

theorem gobRevBytes_length (ws : List Nat) : (gobRevBytes ws).length = 8 * ws.length := by
  induction ws with
  | nil => rfl
  | cons w ws ih => rw [gobRevBytes_cons, List.length_append, List.length_reverse, be64_length, ih,
      List.length_cons]; omega

theorem gob_reverse_flatten (ws : List Nat) :
    ((ws.reverse.map be64).flatten).reverse = gobRevBytes ws := by
  simp [gobRevBytes, List.reverse_flatten, List.map_reverse]
  rfl

theorem gob_flatten_length (ws : List Nat) : ((ws.reverse.map be64).flatten).length = 8 * ws.length := by
  rw [← List.length_reverse, gob_reverse_flatten, gobRevBytes_length]

theorem setBytesWords_go_spec (ws : List Nat) (h : ∀ w ∈ ws, w < 2 ^ 64) (fuel : Nat)
    (hf : ws.length ≤ fuel) : setBytesWords.go (gobRevBytes ws) fuel = ws := by
  induction ws generalizing fuel with
  | nil => cases fuel <;> simp [setBytesWords.go, gobRevBytes]
  | cons w ws ih =>
    cases fuel with
    | zero => simp at hf
    | succ fuel =>
      have hlen : ((be64 w).reverse).length = 8 := by simp [be64_length]
      have hne : (gobRevBytes (w :: ws)).isEmpty = false := by
        rw [gobRevBytes_cons]; simp [be64, be32]
      rw [setBytesWords.go, hne]
      simp only [Bool.false_eq_true, if_false]
      rw [gobRevBytes_cons, List.take_left' hlen, List.drop_left' hlen, List.reverse_reverse,
        ofBE_be64 w (h w (by simp)), ih (fun v hv => h v (by simp [hv])) fuel (by simpa using hf)]

theorem gob_dropWhile_zero (ws : List Nat) (h : ws = [] ∨ ws.getLast?.getD 0 ≠ 0) :
    (ws.reverse.dropWhile (· == 0)).reverse = ws := by
  rcases h with rfl | h
  · rfl
  · rcases List.eq_nil_or_concat ws with rfl | ⟨l, a, rfl⟩
    · rfl
    · have ha : a ≠ 0 := by simpa using h
      simp [ha]

theorem setBytesWords_spec (ws : List Nat) (h : ∀ w ∈ ws, w < 2 ^ 64)
    (hl : ws = [] ∨ ws.getLast?.getD 0 ≠ 0) :
    setBytesWords ((ws.reverse.map be64).flatten) = ws := by
  rw [setBytesWords, gob_reverse_flatten,
    setBytesWords_go_spec ws h _ (by rw [gob_flatten_length]; omega)]
  exact gob_dropWhile_zero ws hl

/-- Item 2 in explicit form (no auxiliary definition). -/
theorem setBytesWords_go_flatten (ws : List Nat) (h : ∀ w ∈ ws, w < 2 ^ 64) (fuel : Nat)
    (hf : ws.length ≤ fuel) :
    setBytesWords.go ((ws.map (fun w => (be64 w).reverse)).flatten) fuel = ws :=
  setBytesWords_go_spec ws h fuel hf

/-! ### 3. `wordsOfLen`, `natOf` -/

theorem gob_B_pos : 0 < B := by rw [B_eq]; positivity

theorem wordsOfLen_length (M n : Nat) : (wordsOfLen M n).length = n := by
  induction n generalizing M with
  | zero => rfl
  | succ n ih => simp [wordsOfLen, ih]

theorem wordsOfLen_lt (M n : Nat) : ∀ w ∈ wordsOfLen M n, w < B := by
  induction n generalizing M with
  | zero => intro w hw; simp [wordsOfLen] at hw
  | succ n ih =>
    intro w hw
    simp only [wordsOfLen, List.mem_cons] at hw
    rcases hw with rfl | hw
    · exact Nat.mod_lt _ gob_B_pos
    · exact ih _ w hw

theorem natOf_wordsOfLen (M n : Nat) : natOf (wordsOfLen M n) = M % B ^ n := by
  induction n generalizing M with
  | zero => simp [wordsOfLen, natOf, Nat.mod_one]
  | succ n ih =>
    simp only [wordsOfLen, natOf, ih]
    rw [pow_succ', Nat.mod_mul]

theorem wordsOfLen_drop (M n k : Nat) :
    (wordsOfLen M n).drop k = wordsOfLen (M / B ^ k) (n - k) := by
  induction k generalizing M n with
  | zero => simp
  | succ k ih =>
    cases n with
    | zero => simp [wordsOfLen]
    | succ n =>
      simp only [wordsOfLen, List.drop_succ_cons]
      rw [ih, Nat.div_div_eq_div_mul, ← pow_succ', Nat.add_sub_add_right]

theorem wordsOfLen_getLast? (M n : Nat) : (wordsOfLen M (n + 1)).getLast? = some (M / B ^ n % B) := by
  induction n generalizing M with
  | zero => simp [wordsOfLen]
  | succ n ih =>
    have := ih (M / B)
    rw [wordsOfLen] at this ⊢
    rw [wordsOfLen, List.getLast?_cons_cons, this, Nat.div_div_eq_div_mul, ← pow_succ']

theorem gob_natOf_lt (ws : List Nat) (h : ∀ w ∈ ws, w < B) : natOf ws < B ^ ws.length := by
  induction ws with
  | nil => simp [natOf]
  | cons w ws ih =>
    have hw : w < B := h w (by simp)
    have ih' := ih (fun v hv => h v (by simp [hv]))
    simp only [natOf, List.length_cons, pow_succ']
    nlinarith

/-- `natOf` is at least its most significant word times its weight. -/
theorem gob_natOf_ge_last (ws : List Nat) : ws.getLast?.getD 0 * B ^ (ws.length - 1) ≤ natOf ws := by
  induction ws with
  | nil => simp [natOf]
  | cons w ws ih =>
    cases ws with
    | nil => simp [natOf]
    | cons v vs =>
      rw [List.getLast?_cons_cons, natOf]
      simp only [List.length_cons, Nat.add_sub_cancel] at ih ⊢
      rw [pow_succ']
      nlinarith

theorem gob_any_ge_B_eq_false (ws : List Nat) : ws.any (· ≥ B) = false ↔ ∀ w ∈ ws, w < B := by
  simp [List.any_eq_false]

/-! ### 4. exponent, two's complement on 32 bits -/

theorem gob_exp_lt (e : Int) : (e % 4294967296).toNat < 2 ^ 32 := by omega

theorem gob_exp_roundtrip (e : Int) (h1 : MinExp ≤ e) (h2 : e ≤ MaxExp) :
    (if (e % 4294967296).toNat ≥ 2147483648 then (((e % 4294967296).toNat : Nat) : Int) - 4294967296
      else (((e % 4294967296).toNat : Nat) : Int)) = e := by
  unfold MinExp at h1; unfold MaxExp at h2
  split <;> omega

/-- Conversely every 32-bit pattern decodes to an exponent in range. -/
theorem gob_exp_range_e (eU : Nat) (h : eU < 2 ^ 32) :
    MinExp ≤ (if eU ≥ 2147483648 then (eU : Int) - 4294967296 else (eU : Int)) ∧
    (if eU ≥ 2147483648 then (eU : Int) - 4294967296 else (eU : Int)) ≤ MaxExp := by
  unfold MinExp MaxExp
  split <;> omega

/-! ### 5. attribute byte -/

/-- The attribute byte written by `gobEncode`. -/
def gobAttr (mode : Mode) (acc : Int) (form : Form) (neg : Bool) : Nat :=
  (mode.toNat % 8) * 32 + ((acc + 1).toNat % 4) * 8 + (form.toNat % 4) * 2 + (if neg then 1 else 0)

theorem gobAttr_lt (mode : Mode) (acc : Int) (form : Form) (neg : Bool) :
    gobAttr mode acc form neg < 256 := by
  unfold gobAttr; split <;> omega

theorem gobAttr_mode (mode : Mode) (acc : Int) (form : Form) (neg : Bool) :
    Mode.ofNat? (gobAttr mode acc form neg / 32 % 8) = some mode := by
  have : gobAttr mode acc form neg / 32 % 8 = mode.toNat % 8 := by
    unfold gobAttr; split <;> omega
  rw [this]; cases mode <;> rfl

theorem gobAttr_form (mode : Mode) (acc : Int) (form : Form) (neg : Bool) :
    Form.ofNat? (gobAttr mode acc form neg / 2 % 4) = some form := by
  have : gobAttr mode acc form neg / 2 % 4 = form.toNat % 4 := by
    unfold gobAttr; split <;> omega
  rw [this]; cases form <;> rfl

theorem gobAttr_acc (mode : Mode) (acc : Int) (form : Form) (neg : Bool)
    (h : acc = -1 ∨ acc = 0 ∨ acc = 1) :
    ((gobAttr mode acc form neg / 8 % 4 : Nat) : Int) - 1 = acc := by
  have : gobAttr mode acc form neg / 8 % 4 = (acc + 1).toNat % 4 := by
    unfold gobAttr; split <;> omega
  rw [this]; omega

theorem gobAttr_neg (mode : Mode) (acc : Int) (form : Form) (neg : Bool) :
    (gobAttr mode acc form neg % 2 == 1) = neg := by
  unfold gobAttr
  cases neg <;> simp <;> omega

/-! ### 6. `gobDecode`: inversion of an accepted payload, and evaluation on a well-formed one
    (both for a receiver with `prec = 0`, i.e. no final `setPrec`) -/

theorem gobDecode_inv (z z' : Dec) (buf : List Nat) (hz : z.prec = 0)
    (h : gobDecode z buf = some z') :
    (buf = [] ∧ z' = {}) ∨
    ∃ mode form, 6 ≤ buf.length ∧
      Mode.ofNat? (buf.getD 1 0 / 32 % 8) = some mode ∧
      Form.ofNat? (buf.getD 1 0 / 2 % 4) = some form ∧
      ((buf.getD 1 0 / 8 % 4 : Nat) : Int) - 1 ≤ 1 ∧
      ((form ≠ .finite ∧
        z' = { z with mode := mode, acc := ((buf.getD 1 0 / 8 % 4 : Nat) : Int) - 1, form := form,
                      neg := (buf.getD 1 0 % 2 == 1), prec := ofBE ((buf.drop 2).take 4) }) ∨
       (form = .finite ∧ 10 ≤ buf.length ∧
        (setBytesWords (buf.drop 10)).length ≠ 0 ∧
        B / 10 ≤ (setBytesWords (buf.drop 10)).getLast?.getD 0 ∧
        (∀ w ∈ setBytesWords (buf.drop 10), w < B) ∧
        (setBytesWords (buf.drop 10)).length * DW - trailingZeros (natOf (setBytesWords (buf.drop 10)))
          ≤ ofBE ((buf.drop 2).take 4) ∧
        z' = { z with mode := mode, acc := ((buf.getD 1 0 / 8 % 4 : Nat) : Int) - 1, form := .finite,
                      neg := (buf.getD 1 0 % 2 == 1), prec := ofBE ((buf.drop 2).take 4),
                      exp := (if ofBE ((buf.drop 6).take 4) ≥ 2147483648
                                then (ofBE ((buf.drop 6).take 4) : Int) - 4294967296
                                else (ofBE ((buf.drop 6).take 4) : Int)),
                      mant := natOf (setBytesWords (buf.drop 10)),
                      len := (setBytesWords (buf.drop 10)).length })) := by
  unfold gobDecode at h
  split at h
  · left
    rename_i he
    have : buf = [] := by simpa using he
    exact ⟨this, by cases h; rfl⟩
  · right
    split at h
    · cases h
    · split at h
      · cases h
      · rename_i _ _ hlen
        simp only [] at h
        split at h
        · rename_i mode form hm hf
          refine ⟨mode, form, by omega, hm, hf, ?_⟩
          split at h
          · cases h
          · rename_i hacc
            refine ⟨by omega, ?_⟩
            by_cases hfin : form = .finite
            · right
              subst hfin
              simp only [beq_self_eq_true, if_true] at h
              by_cases h10 : buf.length < 10
              · rw [if_pos h10] at h; cases h
              rw [if_neg h10] at h
              by_cases h1 : ((setBytesWords (List.drop 10 buf)).length == 0 ||
                  decide ((setBytesWords (List.drop 10 buf)).getLast?.getD 0 < B / 10)) = true
              · rw [if_pos h1] at h; cases h
              rw [if_neg h1] at h
              by_cases h2 : ((setBytesWords (List.drop 10 buf)).any fun x => decide (x ≥ B)) = true
              · rw [if_pos h2] at h; cases h
              rw [if_neg h2] at h
              by_cases h3 : (setBytesWords (List.drop 10 buf)).length * DW -
                    trailingZeros (natOf (setBytesWords (List.drop 10 buf))) >
                  ofBE (List.take 4 (List.drop 2 buf))
              · rw [if_pos h3] at h; cases h
              rw [if_neg h3] at h
              have hz' : (z.prec != 0) = false := by simp [hz]
              simp only [hz', Bool.false_eq_true, if_false] at h
              rw [Bool.or_eq_true, not_or] at h1
              refine ⟨rfl, by omega, ?_, ?_, ?_, by omega, ?_⟩
              · simpa using h1.1
              · have := h1.2; rw [decide_eq_true_eq] at this; omega
              · exact (gob_any_ge_B_eq_false _).1 (by simpa using h2)
              · exact (Option.some.inj h).symm
            · left
              have hb : (form == Form.finite) = false := by simpa using hfin
              simp only [hb, Bool.false_eq_true, if_false, hz] at h
              refine ⟨hfin, ?_⟩
              simpa using h.symm
        · cases h


theorem gobDecode_nonfinite_eq (z : Dec) (buf : List Nat) (mode : Mode) (form : Form) (hz : z.prec = 0)
    (hhd : buf.headD 0 = 1) (hlen : 6 ≤ buf.length)
    (hm : Mode.ofNat? (buf.getD 1 0 / 32 % 8) = some mode)
    (hf : Form.ofNat? (buf.getD 1 0 / 2 % 4) = some form)
    (hacc : ((buf.getD 1 0 / 8 % 4 : Nat) : Int) - 1 ≤ 1) (hnf : form ≠ .finite) :
    gobDecode z buf =
      some { z with mode := mode, acc := ((buf.getD 1 0 / 8 % 4 : Nat) : Int) - 1, form := form,
                    neg := (buf.getD 1 0 % 2 == 1), prec := ofBE ((buf.drop 2).take 4) } := by
  have he : buf.isEmpty = false := by cases buf <;> simp at hlen ⊢
  have hb : (form == Form.finite) = false := by simpa using hnf
  have hz' : (z.prec != 0) = false := by simp [hz]
  have hacc' : ¬ (((buf.getD 1 0 / 8 % 4 : Nat) : Int) - 1 > 1) := by omega
  have hlen' : ¬ buf.length < 6 := by omega
  unfold gobDecode
  simp only [he, hhd, hm, hf, hb, hz', hacc', hlen', bne_self_eq_false, Bool.false_eq_true, if_false]

theorem gobDecode_finite_eq (z : Dec) (buf : List Nat) (mode : Mode) (hz : z.prec = 0)
    (hhd : buf.headD 0 = 1) (hlen : 10 ≤ buf.length)
    (hm : Mode.ofNat? (buf.getD 1 0 / 32 % 8) = some mode)
    (hf : Form.ofNat? (buf.getD 1 0 / 2 % 4) = some .finite)
    (hacc : ((buf.getD 1 0 / 8 % 4 : Nat) : Int) - 1 ≤ 1)
    (h1 : (setBytesWords (buf.drop 10)).length ≠ 0)
    (h2 : B / 10 ≤ (setBytesWords (buf.drop 10)).getLast?.getD 0)
    (h3 : ∀ w ∈ setBytesWords (buf.drop 10), w < B)
    (h4 : (setBytesWords (buf.drop 10)).length * DW - trailingZeros (natOf (setBytesWords (buf.drop 10)))
          ≤ ofBE ((buf.drop 2).take 4)) :
    gobDecode z buf =
      some { z with mode := mode, acc := ((buf.getD 1 0 / 8 % 4 : Nat) : Int) - 1, form := .finite,
                    neg := (buf.getD 1 0 % 2 == 1), prec := ofBE ((buf.drop 2).take 4),
                    exp := (if ofBE ((buf.drop 6).take 4) ≥ 2147483648
                              then (ofBE ((buf.drop 6).take 4) : Int) - 4294967296
                              else (ofBE ((buf.drop 6).take 4) : Int)),
                    mant := natOf (setBytesWords (buf.drop 10)),
                    len := (setBytesWords (buf.drop 10)).length } := by
  have he : buf.isEmpty = false := by cases buf <;> simp at hlen ⊢
  have hz' : (z.prec != 0) = false := by simp [hz]
  have hacc' : ¬ (((buf.getD 1 0 / 8 % 4 : Nat) : Int) - 1 > 1) := by omega
  have hlen' : ¬ buf.length < 6 := by omega
  have hlen'' : ¬ buf.length < 10 := by omega
  have c1 : ((setBytesWords (List.drop 10 buf)).length == 0 ||
      decide ((setBytesWords (List.drop 10 buf)).getLast?.getD 0 < B / 10)) = false := by
    rw [Bool.or_eq_false_iff]
    exact ⟨by simpa using h1, by rw [decide_eq_false_iff_not]; omega⟩
  have c2 : ((setBytesWords (List.drop 10 buf)).any fun x => decide (x ≥ B)) = false :=
    (gob_any_ge_B_eq_false _).2 h3
  have c3 : ¬ ((setBytesWords (List.drop 10 buf)).length * DW -
      trailingZeros (natOf (setBytesWords (List.drop 10 buf))) > ofBE (List.take 4 (List.drop 2 buf))) := by
    omega
  unfold gobDecode
  simp only [he, hhd, hm, hf, hz', hacc', hlen', hlen'', c1, c2, c3, bne_self_eq_false, beq_self_eq_true,
    Bool.false_eq_true, if_false, if_true]


/-! ### 7. digits of word vectors -/

theorem gob_B_div_ten : B / 10 = 10 ^ 18 := by rw [B_eq]; norm_num

/-- A non-empty vector of words `< B` whose top word is `≥ B/10` has exactly `19·len` digits. -/
theorem gob_ndigits_natOf (ws : List Nat) (h1 : ws.length ≠ 0) (h2 : B / 10 ≤ ws.getLast?.getD 0)
    (h3 : ∀ w ∈ ws, w < B) : 0 < natOf ws ∧ ndigits (natOf ws) = ws.length * 19 := by
  have hlt := gob_natOf_lt ws h3
  have hge := gob_natOf_ge_last ws
  rw [gob_B_div_ten] at h2
  rw [B_pow] at hlt hge
  have hlow : 10 ^ (ws.length * 19 - 1) ≤ natOf ws := by
    calc 10 ^ (ws.length * 19 - 1) = 10 ^ 18 * 10 ^ (19 * (ws.length - 1)) := by
          rw [← pow_add]; congr 1; omega
      _ ≤ ws.getLast?.getD 0 * 10 ^ (19 * (ws.length - 1)) := Nat.mul_le_mul_right _ h2
      _ ≤ natOf ws := hge
  have hpos : 0 < natOf ws := lt_of_lt_of_le (by positivity) hlow
  exact ⟨hpos, ndigits_unique hlow (by rwa [Nat.mul_comm]) hpos⟩

theorem gob_lt_pow_of_ndigits (M len : Nat) (hd : ndigits M = len * 19) : M < B ^ len := by
  have := ndigits_lt_pow M
  rwa [hd, Nat.mul_comm, ← B_pow] at this

/-- The top word of a mantissa with exactly `19·len` digits. -/
theorem gob_top_word (M len : Nat) (hl : 1 ≤ len) (hd : ndigits M = len * 19) :
    M / B ^ (len - 1) < B ∧ B / 10 ≤ M / B ^ (len - 1) := by
  have h19 : ndigits (M / B ^ (len - 1)) = 19 := by
    rw [B_pow, ndigits_div_pow, hd]; omega
  generalize M / B ^ (len - 1) = v at h19 ⊢
  rw [gob_B_div_ten, B_eq]
  exact ⟨(ndigits_le_iff _ _).1 (by omega), (lt_ndigits_iff _ _).1 (by omega)⟩

/-- Everything `gobDecode` checks about the mantissa words written by `gobEncode` for a canonical
    finite value (`M`, `len`, precision `p`); `n` is the number of transmitted words. -/
theorem gob_payload (M len p n : Nat) (hl : 1 ≤ len) (hd : ndigits M = len * 19) (hp : 1 ≤ p)
    (hc : len * 19 ≤ p ∨ M % 10 ^ (len * 19 - p) = 0) (hn : n = min len ((p + 18) / 19)) :
    1 ≤ n ∧ n ≤ len ∧
    (wordsOfLen M len).drop (len - n) = wordsOfLen (M / B ^ (len - n)) n ∧
    B / 10 ≤ (wordsOfLen (M / B ^ (len - n)) n).getLast?.getD 0 ∧
    natOf (wordsOfLen (M / B ^ (len - n)) n) = M / B ^ (len - n) ∧
    M / B ^ (len - n) * B ^ (len - n) = M ∧
    n * 19 - trailingZeros (M / B ^ (len - n)) ≤ p := by
  have hn1 : 1 ≤ n := by omega
  have hn2 : n ≤ len := by omega
  have hMlt : M < B ^ len := gob_lt_pow_of_ndigits M len hd
  have hMpos : 0 < M := by
    rcases Nat.eq_zero_or_pos M with h | h
    · rw [h, ndigits_zero] at hd; omega
    · exact h
  have htz := trailingZeros_lt_ndigits hMpos
  -- the dropped low words are zero
  have hk : 19 * (len - n) ≤ trailingZeros M := by
    rcases hc with hc | hc
    · omega
    · have := (mod_pow_eq_zero_iff_le_trailingZeros hMpos _).1 hc
      omega
  have hdvd : B ^ (len - n) ∣ M := by
    rw [B_pow]; exact (pow_dvd_iff_le_trailingZeros hMpos _).2 hk
  have hmul : M / B ^ (len - n) * B ^ (len - n) = M := Nat.div_mul_cancel hdvd
  have hBk : 0 < B ^ (len - n) := Nat.pow_pos gob_B_pos
  have hM'pos : 0 < M / B ^ (len - n) := Nat.div_pos (Nat.le_of_dvd hMpos hdvd) hBk
  have hM'lt : M / B ^ (len - n) < B ^ n := by
    rw [Nat.div_lt_iff_lt_mul hBk, ← pow_add]
    have : n + (len - n) = len := by omega
    rwa [this]
  have htz' : trailingZeros M = trailingZeros (M / B ^ (len - n)) + 19 * (len - n) := by
    have := trailingZeros_mul_pow hM'pos (19 * (len - n))
    rwa [← B_pow, hmul] at this
  refine ⟨hn1, hn2, ?_, ?_, ?_, hmul, ?_⟩
  · rw [wordsOfLen_drop]; congr 1; omega
  · obtain ⟨m, rfl⟩ : ∃ m, n = m + 1 := ⟨n - 1, by omega⟩
    rw [wordsOfLen_getLast?, Option.getD_some, Nat.div_div_eq_div_mul, ← pow_add]
    have : len - (m + 1) + m = len - 1 := by omega
    rw [this]
    have ht := gob_top_word M len hl hd
    rw [Nat.mod_eq_of_lt ht.1]
    exact ht.2
  · rw [natOf_wordsOfLen, Nat.mod_eq_of_lt hM'lt]
  · rcases hc with hc | hc
    · omega
    · have := (mod_pow_eq_zero_iff_le_trailingZeros hMpos _).1 hc
      omega

end Decimal.GobRT

#print axioms Decimal.GobRT.ofBE_be32
#print axioms Decimal.GobRT.ofBE_be64
#print axioms Decimal.GobRT.ofBE_append
#print axioms Decimal.GobRT.ofBE_lt_e
#print axioms Decimal.GobRT.setBytesWords_go_flatten
#print axioms Decimal.GobRT.gob_reverse_flatten
#print axioms Decimal.GobRT.setBytesWords_spec
#print axioms Decimal.GobRT.wordsOfLen_length
#print axioms Decimal.GobRT.wordsOfLen_lt
#print axioms Decimal.GobRT.natOf_wordsOfLen
#print axioms Decimal.GobRT.wordsOfLen_drop
#print axioms Decimal.GobRT.wordsOfLen_getLast?
#print axioms Decimal.GobRT.gob_natOf_lt
#print axioms Decimal.GobRT.gob_natOf_ge_last
#print axioms Decimal.GobRT.gob_exp_roundtrip
#print axioms Decimal.GobRT.gob_exp_range_e
#print axioms Decimal.GobRT.gobAttr_lt
#print axioms Decimal.GobRT.gobAttr_mode
#print axioms Decimal.GobRT.gobAttr_form
#print axioms Decimal.GobRT.gobAttr_acc
#print axioms Decimal.GobRT.gobAttr_neg
#print axioms Decimal.GobRT.gobDecode_inv
#print axioms Decimal.GobRT.gobDecode_nonfinite_eq
#print axioms Decimal.GobRT.gobDecode_finite_eq
#print axioms Decimal.GobRT.gob_ndigits_natOf
#print axioms Decimal.GobRT.gob_top_word
#print axioms Decimal.GobRT.gob_payload
