/-
  C07, assembly side, Tier C: the whole routine `shr10VU(z, x []Word, s uint) (c Word)` of
  dec_arith_amd64.s (lines 589-664) computes the list-level kernel `Decimal.L0.shr10VU`, for every
  vector of words (no well-formedness hypothesis), every shift `s ≤ 18`, in place (`z = x`), with
  `z` below `x`, or with disjoint operands.
-/
import Proofs.AsmLoops2
import DecimalModel.Vec

namespace Decimal.Asm

open Decimal.Gen (W W_eq Magic magic_div)
open Decimal.Gen.Asm

/-! ### The list-level kernel, one step at a time -/

theorem shrLoop_cons' (d : Magic) (m x : Nat) (xs : List Nat) (h : Nat) :
    Decimal.L0.shrLoop d m (x :: xs) h =
      ((h + ((magic_div d x).2 * m) % W) % W) :: Decimal.L0.shrLoop d m xs (magic_div d x).1 := rfl

theorem shrLoop_nil' (d : Magic) (m h : Nat) : Decimal.L0.shrLoop d m [] h = [h] := rfl

theorem shrLoop_length' (d : Magic) (m : Nat) : ∀ (xs : List Nat) (h : Nat),
    (Decimal.L0.shrLoop d m xs h).length = xs.length + 1 := by
  intro xs
  induction xs with
  | nil => intro h; rfl
  | cons x rest ih => intro h; rw [shrLoop_cons', List.length_cons, ih, List.length_cons]

theorem shr10VU_nil' (sh : Nat) : Decimal.L0.shr10VU [] sh = ([], 0) := by
  unfold Decimal.L0.shr10VU
  split <;> rfl

theorem shr10VU_zero' (xs : List Nat) : Decimal.L0.shr10VU xs 0 = (xs, 0) := rfl

theorem shr10VU_cons' (x0 : Nat) (xs : List Nat) (sh : Nat) (h : sh ≠ 0) :
    Decimal.L0.shr10VU (x0 :: xs) sh =
      (Decimal.L0.shrLoop (Decimal.L0.divisorPow10 sh) (Decimal.L0.pow10w (Decimal.Gen.c_DW - sh)) xs
          (magic_div (Decimal.L0.divisorPow10 sh) x0).1,
        ((magic_div (Decimal.L0.divisorPow10 sh) x0).2 * Decimal.L0.pow10w (Decimal.Gen.c_DW - sh)) % W) := by
  unfold Decimal.L0.shr10VU
  rw [if_neg h]

theorem shr10VU_length' (xs : List Nat) (sh : Nat) : (Decimal.L0.shr10VU xs sh).1.length = xs.length := by
  by_cases h : sh = 0
  · subst h; rfl
  · cases xs with
    | nil => rw [shr10VU_nil']
    | cons x0 rest => rw [shr10VU_cons' x0 rest sh h, shrLoop_length', List.length_cons]

/-! ### Table facts (about the regenerated tables) -/

theorem divisorPow10_tabRow (sh : Nat) : Decimal.L0.divisorPow10 sh = tabRow (sh - 1) := rfl

theorem tabRow_d_pow10w (sh : Nat) (h1 : 1 ≤ sh) (h18 : sh ≤ 18) :
    (tabRow (18 - sh)).d = Decimal.L0.pow10w (Decimal.Gen.c_DW - sh) := by
  have h : ∀ k, k < 19 → 1 ≤ k → (tabRow (18 - k)).d = Decimal.L0.pow10w (Decimal.Gen.c_DW - k) := by decide
  exact h sh (by omega) h1

/-! ### The loop `L9` -/

/-- `ws` are the words still to be read (indices `i+1, i+2, …`); `h = BX` is the high part of the
    previous division. -/
theorem shr10VU_L9_run (zp xp n : Nat) (row : Magic) (m : Nat) (hpre : row.pre < 64) (hpost : row.post < 64)
    (hal : zp ≤ xp ∨ xp + 8 * n ≤ zp) :
    ∀ (ws : List Nat) (i h : Nat) (s : St), ws ≠ [] → i + ws.length + 1 = n → s.si = i → s.di = n - 1 →
      s.bx = h → s.r11 = m → s.r12 = row.d → s.r13 = row.m → s.cx = row.post + 256 * row.pre →
      CpCtx s zp xp n → Holds s.mem xp (i + 1) ws →
      ∃ s', run program (ws.length + 1) Lbl.shr10VU_L9 s = some s' ∧ s'.frame = s.frame ∧
        s'.trap = s.trap ∧ Wrote s.mem s'.mem zp i (Decimal.L0.shrLoop row m ws h) := by
  intro ws
  induction ws with
  | nil => intro i h s hne; exact absurd rfl hne
  | cons x rest ih =>
    intro i h s _ hin hsi hdi hbx hr11 hr12 hr13 hcx ctx hx
    have hk : (x :: rest).length = rest.length + 1 := rfl
    rw [hk] at hin
    obtain ⟨c8, c10, cn60, cxw, czw⟩ := ctx
    have hxa : s.mem.rd ((s.r8 + 8 * s.si + 8) % W) = x := by
      rw [addrD s.r8 xp s.si n 8 1 rfl c8 (by omega) cn60 cxw, hsi]; exact hx.head
    obtain ⟨bbx, bmem, bcx, bsi, bdi, b8, b10, b11, b12, b13, bfr, btrap, bnext⟩ :=
      blk_shr10VU_L9_spec s row x hxa hr12 hr13 hcx hpre hpost (by omega) (by omega)
    rw [addr0 s.r10 zp s.si n c10 (by omega) cn60 czw, hsi, hbx, hr11, Nat.mul_comm m] at bmem
    have hprog : program Lbl.shr10VU_L9 s = blk_shr10VU_L9 s := rfl
    rw [shrLoop_cons']
    cases rest with
    | nil =>
      have hnext : (program Lbl.shr10VU_L9 s).2 = Next.goto Lbl.shr10VU_X9a := by
        rw [hprog, bnext, if_neg (by simp only [List.length_nil] at hin; omega)]
      obtain ⟨amem, afr, atrap, anext⟩ := blk_shr10VU_X9a_spec (blk_shr10VU_L9 s).1
      rw [b10, bsi, addr0 s.r10 zp (s.si + 1) n c10 (by simp only [List.length_nil] at hin; omega) cn60 czw,
        hsi, bbx, bmem] at amem
      refine ⟨(blk_shr10VU_X9a (blk_shr10VU_L9 s).1).1, ?_, by rw [afr, bfr], by rw [atrap, btrap], ?_⟩
      · exact run_step hnext (by rw [hprog]; exact run_done (l := Lbl.shr10VU_X9a) anext)
      · rw [amem, shrLoop_nil']
        exact Wrote.cons (Wrote.cons (Wrote.nil _ _ _))
    | cons x2 r2 =>
      have hnext : (program Lbl.shr10VU_L9 s).2 = Next.goto Lbl.shr10VU_L9 := by
        rw [hprog, bnext, if_pos (by simp only [List.length_cons] at hin; omega)]
      obtain ⟨s', hrun, hfr, htrap, hw⟩ := ih (i + 1) (magic_div row x).1 (blk_shr10VU_L9 s).1
        (by intro h; cases h) (by omega) (by rw [bsi, hsi]) (by rw [bdi, hdi]) bbx (by rw [b11, hr11])
        (by rw [b12, hr12]) (by rw [b13, hr13]) (by rw [bcx, hcx])
        ⟨by rw [b8, c8], by rw [b10, c10], cn60, cxw, czw⟩
        (by rw [bmem]; exact hx.tail.wr _ _ (by intro j hj; omega))
      refine ⟨s', ?_, by rw [hfr, bfr], by rw [htrap, btrap], ?_⟩
      · exact run_step hnext (by rw [hprog]; exact hrun)
      · rw [bmem] at hw; exact Wrote.cons hw

/-! ### From `entry_2` on: `1 ≤ s ≤ 18` -/

theorem shr10VU_entry_2_run (s : St) (x0 : Nat) (rest : List Nat) (sh zp xp n : Nat)
    (hn : rest.length + 1 = n) (hbx : s.bx = sh) (h1 : 1 ≤ sh) (h18 : sh ≤ 18)
    (htab : TabAt s.mem (s.sym "pow10DivTab64")) (hbase : s.sym "pow10DivTab64" + 432 < 18446744073709551616)
    (hdi : s.di = n - 1) (ctx : CpCtx s zp xp n) (hal : zp ≤ xp ∨ xp + 8 * n ≤ zp)
    (hx : Holds s.mem xp 0 (x0 :: rest)) :
    ∃ s', run program (n + 1) Lbl.shr10VU_entry_2 s = some s' ∧
      s'.frame = s.frame.wr 56 (Decimal.L0.shr10VU (x0 :: rest) sh).2 ∧ s'.trap = s.trap ∧
      Wrote s.mem s'.mem zp 0 (Decimal.L0.shr10VU (x0 :: rest) sh).1 := by
  obtain ⟨c8, c10, cn60, cxw, czw⟩ := ctx
  have hxa : s.mem.rd (s.r8 % W) = x0 := by
    have e : s.r8 % W = xp + 8 * 0 := by rw [c8]; simp only [W_eq]; omega
    rw [e]; exact hx.head
  obtain ⟨b11, b12, b13, bcx, bbx, bfr, bsi, bdi, b8, b10, bmem, btrap, bnext⟩ :=
    blk_shr10VU_entry_2_spec s sh x0 hbx h1 h18 htab hbase hxa (by omega)
  obtain ⟨hpre, hpost⟩ := tabRow_shifts (sh - 1) (by omega)
  have hprog : program Lbl.shr10VU_entry_2 s = blk_shr10VU_entry_2 s := rfl
  rw [shr10VU_cons' x0 rest sh (by omega), divisorPow10_tabRow, ← tabRow_d_pow10w sh h1 h18]
  have hfr : (blk_shr10VU_entry_2 s).1.frame =
      s.frame.wr 56 ((magic_div (tabRow (sh - 1)) x0).2 * (tabRow (18 - sh)).d % W) := by
    rw [bfr, Nat.mul_comm]
  cases rest with
  | nil =>
    have hnext : (program Lbl.shr10VU_entry_2 s).2 = Next.goto Lbl.shr10VU_X9a := by
      rw [hprog, bnext, if_pos (by simp only [List.length_nil] at hn; omega)]
    obtain ⟨amem, afr, atrap, anext⟩ := blk_shr10VU_X9a_spec (blk_shr10VU_entry_2 s).1
    rw [b10, bsi, addr0 s.r10 zp 0 n c10 (by omega) cn60 czw, bbx, bmem] at amem
    refine ⟨(blk_shr10VU_X9a (blk_shr10VU_entry_2 s).1).1, ?_, by rw [afr, hfr], by rw [atrap, btrap], ?_⟩
    · exact run_le (run_step hnext (by rw [hprog]; exact run_done (l := Lbl.shr10VU_X9a) anext)) (by omega)
    · rw [amem, shrLoop_nil']
      exact Wrote.cons (Wrote.nil _ _ _)
  | cons x1 r1 =>
    have hnext : (program Lbl.shr10VU_entry_2 s).2 = Next.goto Lbl.shr10VU_L9 := by
      rw [hprog, bnext, if_neg (by simp only [List.length_cons] at hn; omega)]
    obtain ⟨s', hrun, hfr', htrap, hw⟩ := shr10VU_L9_run zp xp n (tabRow (sh - 1)) (tabRow (18 - sh)).d hpre hpost hal
      (x1 :: r1) 0 (magic_div (tabRow (sh - 1)) x0).1 (blk_shr10VU_entry_2 s).1 (by intro h; cases h)
      (by omega) bsi (by rw [bdi, hdi]) bbx b11 b12 b13 bcx
      ⟨by rw [b8, c8], by rw [b10, c10], cn60, cxw, czw⟩ (by rw [bmem]; exact hx.tail)
    refine ⟨s', ?_, by rw [hfr', hfr], by rw [htrap, btrap], ?_⟩
    · exact run_le (run_step hnext (by rw [hprog]; exact hrun)) (by omega)
    · rw [bmem] at hw; exact hw

/-! ### From `X9c` on: `s = 0`, a copy (or nothing at all when in place) -/

theorem shr10VU_X9c_run (s : St) (xs : List Nat) (zp xp n : Nat) (hn : xs.length = n) (hn0 : 1 ≤ n)
    (hdi : s.di = n - 1) (ctx : CpCtx s zp xp n) (hal : zp ≤ xp ∨ xp + 8 * n ≤ zp)
    (hx : Holds s.mem xp 0 xs) :
    ∃ s', run program (n + 5) Lbl.shr10VU_X9c s = some s' ∧ s'.frame = s.frame.wr 56 0 ∧
      s'.trap = s.trap ∧ Wrote s.mem s'.mem zp 0 xs := by
  obtain ⟨c8, c10, cn60, cxw, czw⟩ := ctx
  obtain ⟨bdi, b8, b10, bmem, bfr, btrap, bnext⟩ := blk_shr10VU_X9c_spec s (by omega) (by omega)
  have hprog : program Lbl.shr10VU_X9c s = blk_shr10VU_X9c s := rfl
  by_cases hzx : zp = xp
  · have hnext : (program Lbl.shr10VU_X9c s).2 = Next.goto Lbl.shr10VU_X9b := by
      rw [hprog, bnext, if_pos (by rw [c8, c10, hzx])]
    obtain ⟨amem, afr, atrap, anext⟩ := blk_shr10VU_X9b_spec (blk_shr10VU_X9c s).1
    refine ⟨(blk_shr10VU_X9b (blk_shr10VU_X9c s).1).1, ?_, by rw [afr, bfr], by rw [atrap, btrap], ?_⟩
    · exact run_le (run_step hnext (by rw [hprog]; exact run_done (l := Lbl.shr10VU_X9b) anext)) (by omega)
    · rw [amem, bmem, hzx]; exact Wrote.of_holds hx
  · have hnext : (program Lbl.shr10VU_X9c s).2 = Next.goto Lbl.shr10VU_X9c_1 := by
      rw [hprog, bnext, if_neg (by rw [c8, c10]; exact hzx)]
    obtain ⟨adi, asi, a8, a10, amem, afr, atrap, anext⟩ :=
      blk_shr10VU_X9c_1_spec (blk_shr10VU_X9c s).1 (by rw [bdi, hdi]; omega)
    have hprog1 : program Lbl.shr10VU_X9c_1 (blk_shr10VU_X9c s).1 = blk_shr10VU_X9c_1 (blk_shr10VU_X9c s).1 := rfl
    have hnext1 : (program Lbl.shr10VU_X9c_1 (blk_shr10VU_X9c s).1).2 = Next.goto Lbl.decCpy_entry := by
      rw [hprog1, anext]
    obtain ⟨s', hrun, hfr, htrap, hw⟩ := decCpy_run zp xp n hal xs 0 (blk_shr10VU_X9c_1 (blk_shr10VU_X9c s).1).1
      (by omega) asi (by rw [adi, bdi, hdi]; omega)
      ⟨by rw [a8, b8, c8], by rw [a10, b10, c10], cn60, cxw, czw⟩ (by rw [amem, bmem]; exact hx)
    refine ⟨s', ?_, by rw [hfr, afr, bfr], by rw [htrap, atrap, btrap], ?_⟩
    · exact run_le (run_step hnext (by rw [hprog]; exact run_step hnext1 (by rw [hprog1]; exact hrun)))
        (by omega)
    · rw [amem, bmem] at hw; exact hw

/-! ### The whole routine -/

theorem shr10VU_run (s : St) (xs : List Nat) (sh zp xp : Nat)
    (hf0 : s.frame.rd 0 = zp) (hf8 : s.frame.rd 8 = xs.length) (hf24 : s.frame.rd 24 = xp)
    (hf48 : s.frame.rd 48 = sh) (hsh : sh ≤ 18)
    (htab : TabAt s.mem (s.sym "pow10DivTab64")) (hbase : s.sym "pow10DivTab64" + 432 < 18446744073709551616)
    (hn : xs.length < 1152921504606846976)
    (hxp : xp + 8 * xs.length ≤ 18446744073709551616) (hzp : zp + 8 * xs.length ≤ 18446744073709551616)
    (hal : zp ≤ xp ∨ xp + 8 * xs.length ≤ zp)
    (hx : Holds s.mem xp 0 xs) :
    ∃ s', run program (xs.length + 7) Lbl.shr10VU_entry s = some s' ∧
      s'.frame = s.frame.wr 56 (Decimal.L0.shr10VU xs sh).2 ∧ s'.trap = s.trap ∧
      Wrote s.mem s'.mem zp 0 (Decimal.L0.shr10VU xs sh).1 := by
  have hprog0 : program Lbl.shr10VU_entry s = blk_shr10VU_entry s := rfl
  obtain ⟨edi, emem, efr, etrap, enext⟩ := blk_shr10VU_entry_spec s xs.length hf8 (by omega)
  cases xs with
  | nil =>
    rw [shr10VU_nil']
    have hnext : (program Lbl.shr10VU_entry s).2 = Next.goto Lbl.shr10VU_X9b := by
      rw [hprog0, enext, if_pos (by simp only [List.length_nil]; omega)]
    obtain ⟨bmem, bfr, btrap, bnext⟩ := blk_shr10VU_X9b_spec (blk_shr10VU_entry s).1
    refine ⟨(blk_shr10VU_X9b (blk_shr10VU_entry s).1).1, ?_, by rw [bfr, efr], by rw [btrap, etrap], ?_⟩
    · exact run_le (run_step hnext (by rw [hprog0]; exact run_done (l := Lbl.shr10VU_X9b) bnext)) (by omega)
    · rw [bmem, emem]; exact Wrote.nil _ _ _
  | cons x0 rest =>
    have hk : (x0 :: rest).length = rest.length + 1 := rfl
    rw [hk] at hn hxp hzp hal edi enext ⊢
    rw [if_neg (by omega)] at edi enext
    have hnext : (program Lbl.shr10VU_entry s).2 = Next.goto Lbl.shr10VU_entry_1 := by
      rw [hprog0, enext]
    obtain ⟨bbx, b8, b10, bdi, bmem, bfr, btrap, bnext⟩ := blk_shr10VU_entry_1_spec (blk_shr10VU_entry s).1
    rw [efr] at bbx b8 b10 bnext
    rw [hf48] at bbx bnext
    rw [hf24] at b8
    rw [hf0] at b10
    have hsym : (blk_shr10VU_entry_1 (blk_shr10VU_entry s).1).1.sym = s.sym := rfl
    have hprog1 : program Lbl.shr10VU_entry_1 (blk_shr10VU_entry s).1 =
        blk_shr10VU_entry_1 (blk_shr10VU_entry s).1 := rfl
    have hctx : CpCtx (blk_shr10VU_entry_1 (blk_shr10VU_entry s).1).1 zp xp (rest.length + 1) :=
      ⟨b8, b10, hn, hxp, hzp⟩
    have hdi : (blk_shr10VU_entry_1 (blk_shr10VU_entry s).1).1.di = rest.length + 1 - 1 := by rw [bdi, edi]
    have hx' : Holds (blk_shr10VU_entry_1 (blk_shr10VU_entry s).1).1.mem xp 0 (x0 :: rest) := by
      rw [bmem, emem]; exact hx
    by_cases h0 : sh = 0
    · subst h0
      rw [shr10VU_zero']
      have hnext1 : (program Lbl.shr10VU_entry_1 (blk_shr10VU_entry s).1).2 = Next.goto Lbl.shr10VU_X9c := by
        rw [hprog1, bnext, if_pos rfl]
      obtain ⟨s', hrun, hfr, htrap, hw⟩ := shr10VU_X9c_run (blk_shr10VU_entry_1 (blk_shr10VU_entry s).1).1
        (x0 :: rest) zp xp (rest.length + 1) rfl (by omega) hdi hctx hal hx'
      refine ⟨s', ?_, by rw [hfr, bfr, efr], by rw [htrap, btrap, etrap], ?_⟩
      · exact run_le (run_step hnext (by rw [hprog0]; exact run_step hnext1 (by rw [hprog1]; exact hrun)))
          (by omega)
      · rw [bmem, emem] at hw; exact hw
    · have hnext1 : (program Lbl.shr10VU_entry_1 (blk_shr10VU_entry s).1).2 = Next.goto Lbl.shr10VU_entry_2 := by
        rw [hprog1, bnext, if_neg h0]
      obtain ⟨s', hrun, hfr, htrap, hw⟩ := shr10VU_entry_2_run (blk_shr10VU_entry_1 (blk_shr10VU_entry s).1).1
        x0 rest sh zp xp (rest.length + 1) rfl bbx (by omega) hsh
        (by rw [hsym, bmem, emem]; exact htab) (by rw [hsym]; exact hbase) hdi hctx hal hx'
      refine ⟨s', ?_, by rw [hfr, bfr, efr], by rw [htrap, btrap, etrap], ?_⟩
      · exact run_le (run_step hnext (by rw [hprog0]; exact run_step hnext1 (by rw [hprog1]; exact hrun)))
          (by omega)
      · rw [bmem, emem] at hw; exact hw

/-- **`shr10VU`, the whole routine**: `z = x / 10^s` word by word from the bottom up, the digits
    shifted out (scaled by `10^(19-s)`) returned in `c+56(FP)`; every vector of words, every `s ≤ 18`;
    `z` not above `x` (in particular `z = x`) or beyond its end. -/
theorem shr10VU_correct (s : St) (xs : List Nat) (sh zp xp : Nat)
    (hf0 : s.frame.rd 0 = zp) (hf8 : s.frame.rd 8 = xs.length) (hf24 : s.frame.rd 24 = xp)
    (hf48 : s.frame.rd 48 = sh) (hsh : sh ≤ 18)
    (htab : TabAt s.mem (s.sym "pow10DivTab64")) (hbase : s.sym "pow10DivTab64" + 432 < 18446744073709551616)
    (hn : xs.length < 1152921504606846976)
    (hxp : xp + 8 * xs.length ≤ 18446744073709551616) (hzp : zp + 8 * xs.length ≤ 18446744073709551616)
    (hal : zp ≤ xp ∨ xp + 8 * xs.length ≤ zp)
    (hmem : ∀ j, j < xs.length → s.mem.rd (xp + 8 * j) = xs.getD j 0) :
    ∃ s', run program (xs.length + 8) Lbl.shr10VU_entry s = some s' ∧
      s'.frame = s.frame.wr 56 (Decimal.L0.shr10VU xs sh).2 ∧ s'.trap = s.trap ∧
      (∀ j, j < xs.length → s'.mem.rd (zp + 8 * j) = (Decimal.L0.shr10VU xs sh).1.getD j 0) ∧
      (∀ a, (∀ j, j < xs.length → a ≠ zp + 8 * j) → s'.mem.rd a = s.mem.rd a) := by
  have hx : Holds s.mem xp 0 xs := by
    intro j hj; rw [Nat.zero_add]; exact hmem j hj
  obtain ⟨s', hrun, hfr, htrap, hz, ho⟩ := shr10VU_run s xs sh zp xp hf0 hf8 hf24 hf48 hsh htab hbase hn hxp hzp hal hx
  have hlen := shr10VU_length' xs sh
  refine ⟨s', run_le hrun (by omega), hfr, htrap, ?_, ?_⟩
  · intro j hj
    have := hz j (by rw [hlen]; exact hj)
    rw [Nat.zero_add] at this
    exact this
  · intro a ha
    apply ho a
    intro j hj
    rw [Nat.zero_add]
    exact ha j (by rw [← hlen]; exact hj)

/-! ### The hypotheses are satisfiable: in place, three words (one of them not a decimal word), `s = 7` -/

/-- the table at 65536, the vector `x = z` at 16777216 -/
def shrExMem : Mem :=
  listMem 16777216 [1234567890123456789, 18446744073709551615, 5] (listMem 65536 pow10DivTab64Words (fun _ => 0))

def shrExSt : St :=
  { mem := shrExMem, frame := listMem 0 [16777216, 3, 3, 16777216, 3, 3, 7] (fun _ => 0), sym := fun _ => 65536 }

theorem shrExMem_tab : TabAt shrExMem 65536 := by
  unfold TabAt
  decide

example : ∃ s', run program (3 + 8) Lbl.shr10VU_entry shrExSt = some s' ∧
    s'.frame = shrExSt.frame.wr 56
      (Decimal.L0.shr10VU [1234567890123456789, 18446744073709551615, 5] 7).2 ∧ s'.trap = shrExSt.trap ∧
    (∀ j, j < 3 → s'.mem.rd (16777216 + 8 * j) =
      (Decimal.L0.shr10VU [1234567890123456789, 18446744073709551615, 5] 7).1.getD j 0) ∧
    (∀ a, (∀ j, j < 3 → a ≠ 16777216 + 8 * j) → s'.mem.rd a = shrExSt.mem.rd a) :=
  shr10VU_correct shrExSt [1234567890123456789, 18446744073709551615, 5] 7 16777216 16777216
    (by decide) (by decide) (by decide) (by decide) (by decide) shrExMem_tab (by decide) (by decide) (by decide)
    (by decide) (by decide) (by decide)

end Decimal.Asm

#print axioms Decimal.Asm.shr10VU_correct
#print axioms Decimal.Asm.shr10VU_L9_run
