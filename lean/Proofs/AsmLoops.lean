/-
  C07, assembly side, Tier C: whole-routine theorems for every length, by induction over the CFG
  runner (`Asm.run`) with the block lemmas of Proofs/AsmBlocks.lean.

  Each theorem is about an arbitrary machine state whose argument frame describes the call
  (pointers, length, scalars) and whose memory holds the operands; destination and source may be
  the same vector or disjoint (the precise overlap condition is a hypothesis).  The conclusion
  gives the result word in the frame, the destination vector, and the frame condition "every other
  memory cell is unchanged", for EVERY length `n < 2^60`.
-/
import Proofs.AsmBlocks
import DecimalModel.Basic

namespace Decimal.Asm

open Decimal.Gen (W W_eq)
open Decimal.Gen.Asm

/-! ### The runner -/

theorem run_goto (fuel : Nat) (l l' : Lbl) (s : St) (h : (program l s).2 = Next.goto l') :
    run program (fuel + 1) l s = run program fuel l' (program l s).1 := by
  rw [run_succ]
  generalize program l s = r at h
  obtain ⟨s', n⟩ := r
  simp only at h
  subst h
  rfl

theorem run_ret' (fuel : Nat) (l : Lbl) (s : St) (h : (program l s).2 = Next.ret) :
    run program (fuel + 1) l s = some (program l s).1 := by
  rw [run_succ]
  generalize program l s = r at h
  obtain ⟨s', n⟩ := r
  simp only at h
  subst h
  rfl

/-- more fuel does not change a finished run -/
theorem run_mono (fuel k : Nat) : ∀ (l : Lbl) (s s' : St),
    run program fuel l s = some s' → run program (fuel + k) l s = some s' := by
  induction fuel with
  | zero => intro l s s' h; rw [run_zero] at h; cases h
  | succ f ih =>
    intro l s s' h
    have e : f + 1 + k = (f + k) + 1 := by omega
    rw [e, run_succ]
    rw [run_succ] at h
    generalize program l s = r at h ⊢
    obtain ⟨s1, n⟩ := r
    cases n with
    | goto l' => exact ih l' s1 s' h
    | ret => exact h

/-! ### List-level specifications (the mathematical meaning of the kernels) -/

/-- `mulAdd10VWW`: `z = (x*y + r) mod B^n`, result `(x*y + r) / B^n`, word by word -/
def mulAddVWW : List Nat → Nat → Nat → List Nat × Nat
  | [], _, c => ([], c)
  | x :: xs, y, c =>
    let r := mulAddVWW xs y ((x * y + c) / 10000000000000000000)
    ((x * y + c) % 10000000000000000000 :: r.1, r.2)

theorem mulAddVWW_length (xs : List Nat) (y : Nat) : ∀ c, (mulAddVWW xs y c).1.length = xs.length := by
  induction xs with
  | nil => intro c; rfl
  | cons x xs ih => intro c; simp only [mulAddVWW, List.length_cons, ih]

/-- value: `natOf z + c·B^n = natOf x · y + r` -/
theorem mulAddVWW_value (xs : List Nat) (y : Nat) : ∀ c,
    natOf (mulAddVWW xs y c).1 + (mulAddVWW xs y c).2 * B ^ xs.length = natOf xs * y + c := by
  induction xs with
  | nil => intro c; simp [mulAddVWW, natOf]
  | cons x xs ih =>
    intro c
    have h := ih ((x * y + c) / 10000000000000000000)
    have hB : B = 10000000000000000000 := rfl
    simp only [mulAddVWW, natOf, List.length_cons, Nat.pow_succ]
    have hdm := Nat.div_add_mod (x * y + c) 10000000000000000000
    rw [← hB] at hdm h ⊢
    generalize (mulAddVWW xs y ((x * y + c) / B)).1 = zs at *
    generalize (mulAddVWW xs y ((x * y + c) / B)).2 = c' at *
    calc (x * y + c) % B + B * natOf zs + c' * (B ^ xs.length * B)
        = (x * y + c) % B + B * (natOf zs + c' * B ^ xs.length) := by
          rw [Nat.mul_add, Nat.mul_comm (B ^ xs.length) B, Nat.mul_left_comm, Nat.add_assoc]
      _ = (x * y + c) % B + B * (natOf xs * y + (x * y + c) / B) := by rw [h]
      _ = (x + B * natOf xs) * y + c := by
          rw [Nat.mul_add, Nat.add_mul, Nat.mul_assoc]
          omega

/-! ### mulAdd10VWW, every length -/

theorem getD_cons_zero (x : Nat) (xs : List Nat) : (x :: xs).getD 0 0 = x := rfl
theorem getD_cons_succ (x : Nat) (xs : List Nat) (j : Nat) : (x :: xs).getD (j + 1) 0 = xs.getD j 0 := rfl

/-- The loop `L10` from index `i` on: `xs` are the words still to be processed. -/
theorem mulAdd10VWW_loop (y zp xp : Nat) (hy : y < 10000000000000000000) :
    ∀ (xs : List Nat) (i : Nat) (s : St) (c : Nat),
      xs ≠ [] → (∀ x, x ∈ xs → x < 10000000000000000000) → c < 10000000000000000000 →
      s.si = i → s.di = i + xs.length → s.di < 1152921504606846976 →
      s.r8 = xp → s.r10 = zp → s.r9 = y → s.r11 = c →
      xp + 8 * s.di ≤ 18446744073709551616 → zp + 8 * s.di ≤ 18446744073709551616 →
      (zp ≤ xp ∨ xp + 8 * s.di ≤ zp) →
      (∀ j, j < xs.length → s.mem.rd (xp + 8 * (i + j)) = xs.getD j 0) →
      ∃ s', run program (xs.length + 1) Lbl.mulAdd10VWW_L10 s = some s' ∧
        s'.frame = s.frame.wr 64 (mulAddVWW xs y c).2 ∧ s'.trap = s.trap ∧
        (∀ j, j < xs.length → s'.mem.rd (zp + 8 * (i + j)) = (mulAddVWW xs y c).1.getD j 0) ∧
        (∀ a, (∀ j, j < xs.length → a ≠ zp + 8 * (i + j)) → s'.mem.rd a = s.mem.rd a) := by
  intro xs
  induction xs with
  | nil => intro i s c h; exact absurd rfl h
  | cons x rest ih =>
    intro i s c _ hxs hc hsi hdi hdi60 hr8 hr10 hr9 hr11 hxp hzp hal hmem
    have hxb : x < 10000000000000000000 := hxs x (List.mem_cons_self ..)
    have hlen : (x :: rest).length = rest.length + 1 := rfl
    rw [hlen] at hdi hmem
    -- the block
    have hxa : (s.r8 + 8 * s.si) % W = xp + 8 * (i + 0) := by
      rw [hr8, hsi]; simp only [W_eq]; omega
    have hza : (s.r10 + 8 * s.si) % W = zp + 8 * i := by
      rw [hr10, hsi]; simp only [W_eq]; omega
    have hx : s.mem.rd ((s.r8 + 8 * s.si) % W) = x := by
      rw [hxa, hmem 0 (by omega)]; rfl
    have hb := blk_mulAdd10VWW_L10_spec s x hx hxb (by rw [hr9]; exact hy) (by rw [hr11]; exact hc)
      (by omega) (by omega)
    have hp : x * y ≤ 9999999999999999999 * 9999999999999999999 := Nat.mul_le_mul (by omega) (by omega)
    rw [go_mulAdd_step x s.r9 s.r11 hxb (by rw [hr9]; exact hy) (by omega)
      (by rw [hr9, hr11]; generalize x * y = p at *; omega), hr9, hr11, hza] at hb
    simp only [] at hb
    obtain ⟨b11, bmem, bsi, bdi, b8, b9, b10, bfr, btrap, bnext⟩ := hb
    have hprog : program Lbl.mulAdd10VWW_L10 s = blk_mulAdd10VWW_L10 s := rfl
    have hc1 : (x * y + c) / 10000000000000000000 < 10000000000000000000 := by
      generalize x * y = p at *; omega
    cases rest with
    | nil =>
      -- last word: leave the loop
      have hnext : (program Lbl.mulAdd10VWW_L10 s).2 = Next.goto Lbl.mulAdd10VWW_E10 := by
        rw [hprog, bnext, if_neg (by simp only [List.length_nil] at hdi; omega)]
      have he := blk_mulAdd10VWW_E10_spec (blk_mulAdd10VWW_L10 s).1
      obtain ⟨efr, emem, etrap, enext⟩ := he
      refine ⟨(blk_mulAdd10VWW_E10 (blk_mulAdd10VWW_L10 s).1).1, ?_, ?_, ?_, ?_, ?_⟩
      · show run program (0 + 1 + 1) _ s = _
        rw [run_goto _ _ _ _ hnext, hprog, run_ret' 0 Lbl.mulAdd10VWW_E10 _ enext]
        rfl
      · rw [efr, bfr, b11]; rfl
      · rw [etrap, btrap]
      · intro j hj
        have hj0 : j = 0 := by simp only [List.length_cons, List.length_nil] at hj; omega
        subst hj0
        rw [emem, bmem, Nat.add_zero, Mem.rd_wr_eq]; rfl
      · intro a ha
        have h0 := ha 0 (by simp only [List.length_cons]; omega)
        rw [Nat.add_zero] at h0
        rw [emem, bmem, Mem.rd_wr_ne _ _ _ _ h0]
    | cons x2 r2 =>
      have hnext : (program Lbl.mulAdd10VWW_L10 s).2 = Next.goto Lbl.mulAdd10VWW_L10 := by
        rw [hprog, bnext, if_pos (by simp only [List.length_cons] at hdi; omega)]
      -- induction hypothesis on the state after the block
      have ih' := ih (i + 1) (blk_mulAdd10VWW_L10 s).1 ((x * y + c) / 10000000000000000000)
        (by intro h; cases h) (fun z hz => hxs z (List.mem_cons_of_mem _ hz)) hc1
        (by rw [bsi, hsi]) (by rw [bdi, hdi]; omega) (by rw [bdi]; exact hdi60)
        (by rw [b8, hr8]) (by rw [b10, hr10]) b9 b11
        (by rw [bdi]; exact hxp) (by rw [bdi]; exact hzp) (by rw [bdi]; exact hal)
        (by
          intro j hj
          rw [bmem, Mem.rd_wr_ne _ _ _ _ (by omega)]
          have := hmem (j + 1) (by omega)
          rw [show i + (j + 1) = i + 1 + j by omega] at this
          rw [this]; rfl)
      obtain ⟨s', hrun, hfr, htrap, hz, hother⟩ := ih'
      refine ⟨s', ?_, ?_, ?_, ?_, ?_⟩
      · show run program ((x2 :: r2).length + 1 + 1) _ s = _
        rw [run_goto _ _ _ _ hnext, hprog]
        exact hrun
      · rw [hfr, bfr]; rfl
      · rw [htrap, btrap]
      · intro j hj
        cases j with
        | zero =>
          rw [hother _ (by intro k _; omega), bmem, Nat.add_zero, Mem.rd_wr_eq]; rfl
        | succ j =>
          have := hz j (by simp only [List.length_cons] at hj ⊢; omega)
          rw [show i + 1 + j = i + (j + 1) by omega] at this
          rw [this]; rfl
      · intro a ha
        rw [hother a (by
          intro k hk
          have := ha (k + 1) (by simp only [List.length_cons] at hk ⊢; omega)
          rw [show i + (k + 1) = i + 1 + k by omega] at this
          exact this), bmem, Mem.rd_wr_ne _ _ _ _ (by
          have h0 := ha 0 (by simp only [List.length_cons]; omega)
          rw [Nat.add_zero] at h0
          exact h0)]

/-- **`mulAdd10VWW`, every length.**  From any state whose frame describes the call
    `mulAdd10VWW(z, x, y, r)` with `len(z) = len(x) = n`, `x` holding the words `xs < 10^19`,
    `y, r < 10^19`, and `z` either not above `x` (in particular `z = x`) or beyond its end, the
    routine returns after `n + 2` blocks with `c` in its result slot and `z` holding the words of
    `x*y + r`; nothing else in memory changes, and no trap is raised. -/
theorem mulAdd10VWW_correct (s : St) (xs : List Nat) (y r zp xp : Nat)
    (hf0 : s.frame.rd 0 = zp) (hf8 : s.frame.rd 8 = xs.length) (hf24 : s.frame.rd 24 = xp)
    (hf48 : s.frame.rd 48 = y) (hf56 : s.frame.rd 56 = r)
    (hxs : ∀ x, x ∈ xs → x < 10000000000000000000) (hy : y < 10000000000000000000)
    (hr : r < 10000000000000000000) (hn : xs.length < 1152921504606846976)
    (hxp : xp + 8 * xs.length ≤ 18446744073709551616) (hzp : zp + 8 * xs.length ≤ 18446744073709551616)
    (hal : zp ≤ xp ∨ xp + 8 * xs.length ≤ zp)
    (hmem : ∀ j, j < xs.length → s.mem.rd (xp + 8 * j) = xs.getD j 0) :
    ∃ s', run program (xs.length + 2) Lbl.mulAdd10VWW_entry s = some s' ∧
      s'.frame = s.frame.wr 64 (mulAddVWW xs y r).2 ∧ s'.trap = s.trap ∧
      (∀ j, j < xs.length → s'.mem.rd (zp + 8 * j) = (mulAddVWW xs y r).1.getD j 0) ∧
      (∀ a, (∀ j, j < xs.length → a ≠ zp + 8 * j) → s'.mem.rd a = s.mem.rd a) := by
  have he := blk_mulAdd10VWW_entry_spec s xs.length hf8 (by omega)
  obtain ⟨esi, edi, e8, e9, e10, e11, emem, efr, etrap, enext⟩ := he
  have hprog : program Lbl.mulAdd10VWW_entry s = blk_mulAdd10VWW_entry s := rfl
  cases xs with
  | nil =>
    have hnext : (program Lbl.mulAdd10VWW_entry s).2 = Next.goto Lbl.mulAdd10VWW_E10 := by
      rw [hprog, enext]; rfl
    obtain ⟨xfr, xmem, xtrap, xnext⟩ := blk_mulAdd10VWW_E10_spec (blk_mulAdd10VWW_entry s).1
    refine ⟨(blk_mulAdd10VWW_E10 (blk_mulAdd10VWW_entry s).1).1, ?_, ?_, ?_, ?_, ?_⟩
    · show run program (0 + 1 + 1) _ s = _
      rw [run_goto _ _ _ _ hnext, hprog, run_ret' 0 Lbl.mulAdd10VWW_E10 _ xnext]
      rfl
    · rw [xfr, efr, e11, hf56]; rfl
    · rw [xtrap, etrap]
    · intro j hj; simp only [List.length_nil] at hj; omega
    · intro a _; rw [xmem, emem]
  | cons x rest =>
    have hnext : (program Lbl.mulAdd10VWW_entry s).2 = Next.goto Lbl.mulAdd10VWW_L10 := by
      rw [hprog, enext, if_neg (by simp only [List.length_cons]; omega)]
    have hl := mulAdd10VWW_loop y zp xp hy (x :: rest) 0 (blk_mulAdd10VWW_entry s).1 r
      (by intro h; cases h) hxs hr esi (by rw [edi]; omega) (by rw [edi]; exact hn)
      (by rw [e8, hf24]) (by rw [e10, hf0]) (by rw [e9, hf48]) (by rw [e11, hf56])
      (by rw [edi]; exact hxp) (by rw [edi]; exact hzp) (by rw [edi]; exact hal)
      (by intro j hj; rw [emem, Nat.zero_add]; exact hmem j hj)
    obtain ⟨s', hrun, hfr, htrap, hz, hother⟩ := hl
    refine ⟨s', ?_, ?_, ?_, ?_, ?_⟩
    · show run program ((x :: rest).length + 1 + 1) _ s = _
      rw [run_goto _ _ _ _ hnext, hprog]
      exact hrun
    · rw [hfr, efr]
    · rw [htrap, etrap]
    · intro j hj
      have := hz j hj
      rw [Nat.zero_add] at this
      exact this
    · intro a ha
      rw [hother a (by intro j hj; rw [Nat.zero_add]; exact ha j hj), emem]


/-! ### div10VWW, every length -/

/-- `div10VWW` on the words from the most significant one down: quotient words (same order) and
    the final remainder -/
def divMS : List Nat → Nat → Nat → List Nat × Nat
  | [], _, r => ([], r)
  | w :: ws, y, r =>
    let q := divMS ws y ((10000000000000000000 * r + w) % y)
    ((10000000000000000000 * r + w) / y :: q.1, q.2)

/-- value of a most-significant-first word list -/
def valMS : List Nat → Nat
  | [] => 0
  | w :: ws => w * B ^ ws.length + valMS ws

theorem divMS_length (ws : List Nat) (y : Nat) : ∀ r, (divMS ws y r).1.length = ws.length := by
  induction ws with
  | nil => intro r; rfl
  | cons w ws ih => intro r; simp only [divMS, List.length_cons, ih]

/-- `r·B^n + x = y·q + r'` with `r' < y` -/
theorem divMS_value (ws : List Nat) (y : Nat) (hy : 0 < y) : ∀ r, r < y →
    r * B ^ ws.length + valMS ws = y * valMS (divMS ws y r).1 + (divMS ws y r).2 ∧ (divMS ws y r).2 < y := by
  induction ws with
  | nil => intro r hr; simp [divMS, valMS, hr]
  | cons w ws ih =>
    intro r hr
    have hB : B = 10000000000000000000 := rfl
    have h := ih ((10000000000000000000 * r + w) % y) (Nat.mod_lt _ hy)
    simp only [divMS, valMS, List.length_cons, divMS_length]
    rw [← hB] at h ⊢
    obtain ⟨h1, h2⟩ := h
    refine ⟨?_, h2⟩
    have hdm := Nat.div_add_mod (B * r + w) y
    generalize (divMS ws y ((B * r + w) % y)).1 = qs at *
    generalize (divMS ws y ((B * r + w) % y)).2 = r' at *
    generalize (B * r + w) / y = q at *
    generalize (B * r + w) % y = m at *
    calc r * B ^ (ws.length + 1) + (w * B ^ ws.length + valMS ws)
        = (B * r + w) * B ^ ws.length + valMS ws := by
          rw [Nat.pow_succ, Nat.add_mul, Nat.mul_comm B r, Nat.mul_assoc, Nat.mul_comm (B ^ ws.length) B, Nat.add_assoc]
      _ = (y * q + m) * B ^ ws.length + valMS ws := by rw [hdm]
      _ = y * (q * B ^ ws.length) + (m * B ^ ws.length + valMS ws) := by
          rw [Nat.add_mul, Nat.mul_assoc, Nat.add_assoc]
      _ = y * (q * B ^ ws.length) + (y * valMS qs + r') := by rw [h1]
      _ = y * (q * B ^ ws.length + valMS qs) + r' := by rw [Nat.mul_add, Nat.add_assoc]

/-- The loop `E7 / L7` with `k` words left (`ws`, most significant first), inside vectors of
    total length `n`. -/
theorem div10VWW_loop (y zp xp n : Nat) (hy : y ≤ 10000000000000000000) (hn : n < 1152921504606846976)
    (hxp : xp + 8 * n ≤ 18446744073709551616) (hzp : zp + 8 * n ≤ 18446744073709551616)
    (hal : xp ≤ zp ∨ zp + 8 * n ≤ xp) :
    ∀ (ws : List Nat) (s : St) (r : Nat),
      (∀ w, w ∈ ws → w < 10000000000000000000) → r < y → ws.length ≤ n →
      s.si = ws.length → s.dx = r → s.cx = 10000000000000000000 →
      s.r8 = xp → s.r10 = zp → s.r9 = y →
      (∀ j, j < ws.length → s.mem.rd (xp + 8 * (ws.length - 1 - j)) = ws.getD j 0) →
      ∃ s', run program (2 * ws.length + 2) Lbl.div10VWW_E7 s = some s' ∧
        s'.frame = s.frame.wr 64 (divMS ws y r).2 ∧ s'.trap = s.trap ∧
        (∀ j, j < ws.length → s'.mem.rd (zp + 8 * (ws.length - 1 - j)) = (divMS ws y r).1.getD j 0) ∧
        (∀ a, (∀ j, j < ws.length → a ≠ zp + 8 * (ws.length - 1 - j)) → s'.mem.rd a = s.mem.rd a) := by
  intro ws
  induction ws with
  | nil =>
    intro s r _ hr _ hsi hdx hcx hr8 hr10 hr9 _
    obtain ⟨esi, edx, ecx, e8, e9, e10, emem, efr, etrap, enext⟩ :=
      blk_div10VWW_E7_spec s (by rw [hsi]; simp only [List.length_nil]; omega)
    have hprog : program Lbl.div10VWW_E7 s = blk_div10VWW_E7 s := rfl
    have hnext : (program Lbl.div10VWW_E7 s).2 = Next.goto Lbl.div10VWW_E7_1 := by
      rw [hprog, enext, if_neg (by rw [hsi]; simp only [List.length_nil]; omega)]
    obtain ⟨xfr, xmem, xtrap, xnext⟩ := blk_div10VWW_E7_1_spec (blk_div10VWW_E7 s).1
    refine ⟨(blk_div10VWW_E7_1 (blk_div10VWW_E7 s).1).1, ?_, ?_, ?_, ?_, ?_⟩
    · show run program (0 + 1 + 1) _ s = _
      rw [run_goto _ _ _ _ hnext, hprog, run_ret' 0 Lbl.div10VWW_E7_1 _ xnext]
      rfl
    · rw [xfr, efr, edx, hdx]; rfl
    · rw [xtrap, etrap]
    · intro j hj; simp only [List.length_nil] at hj; omega
    · intro a _; rw [xmem, emem]
  | cons w rest ih =>
    intro s r hws hr hlen hsi hdx hcx hr8 hr10 hr9 hmem
    have hwb : w < 10000000000000000000 := hws w (List.mem_cons_self ..)
    have hk : (w :: rest).length = rest.length + 1 := rfl
    rw [hk] at hsi hlen hmem
    -- E7: i-- and enter the body
    obtain ⟨esi, edx, ecx, e8, e9, e10, emem, efr, etrap, enext⟩ := blk_div10VWW_E7_spec s (by omega)
    rw [if_pos (by omega)] at esi enext
    have hprogE : program Lbl.div10VWW_E7 s = blk_div10VWW_E7 s := rfl
    have hnextE : (program Lbl.div10VWW_E7 s).2 = Next.goto Lbl.div10VWW_L7 := by rw [hprogE, enext]
    -- L7 on the state after E7
    have hxa : ((blk_div10VWW_E7 s).1.r8 + 8 * (blk_div10VWW_E7 s).1.si) % W = xp + 8 * (rest.length + 1 - 1 - 0) := by
      rw [e8, esi, hr8, hsi]; simp only [W_eq]; omega
    have hza : ((blk_div10VWW_E7 s).1.r10 + 8 * (blk_div10VWW_E7 s).1.si) % W = zp + 8 * rest.length := by
      rw [e10, esi, hr10, hsi]; simp only [W_eq]; omega
    have hx : (blk_div10VWW_E7 s).1.mem.rd (((blk_div10VWW_E7 s).1.r8 + 8 * (blk_div10VWW_E7 s).1.si) % W) = w := by
      rw [hxa, emem, hmem 0 (by omega)]; rfl
    have hb := blk_div10VWW_L7_spec (blk_div10VWW_E7 s).1 w hx (by rw [ecx, hcx]) hwb
      (by rw [edx, e9, hdx, hr9]; exact hr) (by rw [e9, hr9]; exact hy)
    rw [edx, e9, hdx, hr9, Decimal.Gen.div10WW_g_spec r w y hr hwb hy, hza, Nat.mul_comm r 10000000000000000000] at hb
    simp only [] at hb
    obtain ⟨bdx, bmem, bcx, bsi, b8, b9, b10, bfr, btrap, bnext⟩ := hb
    have hprogL : program Lbl.div10VWW_L7 (blk_div10VWW_E7 s).1 = blk_div10VWW_L7 (blk_div10VWW_E7 s).1 := rfl
    have hnextL : (program Lbl.div10VWW_L7 (blk_div10VWW_E7 s).1).2 = Next.goto Lbl.div10VWW_E7 := by
      rw [hprogL, bnext]
    have hy0 : 0 < y := by omega
    -- induction hypothesis
    have ih' := ih (blk_div10VWW_L7 (blk_div10VWW_E7 s).1).1 ((10000000000000000000 * r + w) % y)
      (fun z hz => hws z (List.mem_cons_of_mem _ hz)) (Nat.mod_lt _ hy0) (by omega)
      (by rw [bsi, esi, hsi]; omega) bdx (by rw [bcx, ecx, hcx])
      (by rw [b8, e8, hr8]) (by rw [b10, e10, hr10]) b9
      (by
        intro j hj
        rw [bmem, emem, Mem.rd_wr_ne _ _ _ _ (by omega)]
        have := hmem (j + 1) (by omega)
        rw [show rest.length + 1 - 1 - (j + 1) = rest.length - 1 - j by omega] at this
        rw [this]; rfl)
    obtain ⟨s', hrun, hfr, htrap, hz, hother⟩ := ih'
    refine ⟨s', ?_, ?_, ?_, ?_, ?_⟩
    · show run program (2 * (rest.length + 1) + 2) _ s = _
      have e : 2 * (rest.length + 1) + 2 = (2 * rest.length + 2) + 1 + 1 := by omega
      rw [e, run_goto _ _ _ _ hnextE, hprogE, run_goto _ _ _ _ hnextL, hprogL]
      exact hrun
    · rw [hfr, bfr, efr]; rfl
    · rw [htrap, btrap, etrap]
    · intro j hj
      rw [hk] at hj ⊢
      cases j with
      | zero =>
        rw [hother _ (by intro k hk'; omega), bmem,
          show rest.length + 1 - 1 - 0 = rest.length by omega, Mem.rd_wr_eq]; rfl
      | succ j =>
        have := hz j (by omega)
        rw [show rest.length + 1 - 1 - (j + 1) = rest.length - 1 - j by omega, this]; rfl
    · intro a ha
      rw [hk] at ha
      rw [hother a (by
        intro k hk'
        have := ha (k + 1) (by omega)
        rw [show rest.length + 1 - 1 - (k + 1) = rest.length - 1 - k by omega] at this
        exact this), bmem, emem, Mem.rd_wr_ne _ _ _ _ (by
        have h0 := ha 0 (by omega)
        rw [show rest.length + 1 - 1 - 0 = rest.length by omega] at h0
        exact h0)]

/-- **`div10VWW`, every length.**  Frame describing `div10VWW(z, x, y, xn)` with
    `len(z) = len(x) = n`; `ws` are the words of `x` from the most significant one down, all
    `< 10^19`, `xn < y ≤ 10^19`; `z` not below `x` (in particular `z = x`) or entirely before it.
    The routine returns after `2n + 3` blocks, DIVQ never traps, `z` holds the quotient words and the
    result slot the remainder; nothing else in memory changes. -/
theorem div10VWW_correct (s : St) (ws : List Nat) (y r zp xp : Nat)
    (hf0 : s.frame.rd 0 = zp) (hf8 : s.frame.rd 8 = ws.length) (hf24 : s.frame.rd 24 = xp)
    (hf48 : s.frame.rd 48 = y) (hf56 : s.frame.rd 56 = r)
    (hws : ∀ w, w ∈ ws → w < 10000000000000000000) (hy : y ≤ 10000000000000000000)
    (hr : r < y) (hn : ws.length < 1152921504606846976)
    (hxp : xp + 8 * ws.length ≤ 18446744073709551616) (hzp : zp + 8 * ws.length ≤ 18446744073709551616)
    (hal : xp ≤ zp ∨ zp + 8 * ws.length ≤ xp)
    (hmem : ∀ j, j < ws.length → s.mem.rd (xp + 8 * (ws.length - 1 - j)) = ws.getD j 0) :
    ∃ s', run program (2 * ws.length + 3) Lbl.div10VWW_entry s = some s' ∧
      s'.frame = s.frame.wr 64 (divMS ws y r).2 ∧ s'.trap = s.trap ∧
      (∀ j, j < ws.length → s'.mem.rd (zp + 8 * (ws.length - 1 - j)) = (divMS ws y r).1.getD j 0) ∧
      (∀ a, (∀ j, j < ws.length → a ≠ zp + 8 * (ws.length - 1 - j)) → s'.mem.rd a = s.mem.rd a) := by
  obtain ⟨ecx, edx, esi, e8, e9, e10, emem, efr, etrap, enext⟩ := blk_div10VWW_entry_spec s
  have hprog : program Lbl.div10VWW_entry s = blk_div10VWW_entry s := rfl
  have hnext : (program Lbl.div10VWW_entry s).2 = Next.goto Lbl.div10VWW_E7 := by rw [hprog, enext]
  have hl := div10VWW_loop y zp xp ws.length hy hn hxp hzp hal ws (blk_div10VWW_entry s).1 r hws hr
    (Nat.le_refl _) (by rw [esi, hf8]) (by rw [edx, hf56]) ecx (by rw [e8, hf24]) (by rw [e10, hf0])
    (by rw [e9, hf48]) (by intro j hj; rw [emem]; exact hmem j hj)
  obtain ⟨s', hrun, hfr, htrap, hz, hother⟩ := hl
  refine ⟨s', ?_, ?_, ?_, hz, ?_⟩
  · show run program (2 * ws.length + 2 + 1) _ s = _
    rw [run_goto _ _ _ _ hnext, hprog]
    exact hrun
  · rw [hfr, efr]
  · rw [htrap, etrap]
  · intro a ha; rw [hother a ha, emem]

/-! ### add10VV, every length -/

/-- `add10VV` word by word: `z[i] = (x[i] + y[i] + c) mod 10^19` with the carry propagated -/
def addVV : List Nat → List Nat → Nat → List Nat × Nat
  | x :: xs, y :: ys, c =>
    let r := addVV xs ys ((x + y + c) / 10000000000000000000)
    ((x + y + c) % 10000000000000000000 :: r.1, r.2)
  | _, _, c => ([], c)

theorem addVV_carry (xs : List Nat) : ∀ (ys : List Nat) (c : Nat), c ≤ 1 →
    (∀ x, x ∈ xs → x < 10000000000000000000) → (∀ y, y ∈ ys → y < 10000000000000000000) →
    (addVV xs ys c).2 ≤ 1 := by
  induction xs with
  | nil => intro ys c hc _ _; simp only [addVV]; exact hc
  | cons x xs ih =>
    intro ys c hc hx hy
    cases ys with
    | nil => simp only [addVV]; exact hc
    | cons y ys =>
      simp only [addVV]
      have hxb := hx x (List.mem_cons_self ..)
      have hyb := hy y (List.mem_cons_self ..)
      exact ih ys _ (by omega) (fun z hz => hx z (List.mem_cons_of_mem _ hz))
        (fun z hz => hy z (List.mem_cons_of_mem _ hz))

/-- value: `natOf z + c'·B^n = natOf x + natOf y + c` for vectors of equal length -/
theorem addVV_value (xs : List Nat) : ∀ (ys : List Nat) (c : Nat), ys.length = xs.length →
    natOf (addVV xs ys c).1 + (addVV xs ys c).2 * B ^ xs.length = natOf xs + natOf ys + c := by
  induction xs with
  | nil =>
    intro ys c h
    cases ys with
    | nil => simp [addVV, natOf]
    | cons y ys => simp at h
  | cons x xs ih =>
    intro ys c h
    cases ys with
    | nil => simp at h
    | cons y ys =>
      have hl : ys.length = xs.length := by simpa using h
      have h' := ih ys ((x + y + c) / 10000000000000000000) hl
      have hB : B = 10000000000000000000 := rfl
      simp only [addVV, natOf, List.length_cons, Nat.pow_succ]
      rw [← hB] at h' ⊢
      have hdm := Nat.div_add_mod (x + y + c) B
      generalize (addVV xs ys ((x + y + c) / B)).1 = zs at *
      generalize (addVV xs ys ((x + y + c) / B)).2 = c' at *
      calc (x + y + c) % B + B * natOf zs + c' * (B ^ xs.length * B)
          = (x + y + c) % B + B * (natOf zs + c' * B ^ xs.length) := by
            rw [Nat.mul_add, Nat.mul_comm (B ^ xs.length) B, Nat.mul_left_comm, Nat.add_assoc]
        _ = (x + y + c) % B + B * (natOf xs + natOf ys + (x + y + c) / B) := by rw [h']
        _ = x + B * natOf xs + (y + B * natOf ys) + c := by
            rw [Nat.mul_add, Nat.mul_add]
            omega

/-- hypotheses shared by the loop lemmas of `add10VV`/`sub10VV`: registers, bounds, overlap -/
structure VVCtx (s : St) (zp xp yp n dxv : Nat) : Prop where
  r8 : s.r8 = xp
  r9 : s.r9 = yp
  r10 : s.r10 = zp
  dx : s.dx = dxv
  n60 : n < 1152921504606846976
  xw : xp + 8 * n ≤ 18446744073709551616
  yw : yp + 8 * n ≤ 18446744073709551616
  zw : zp + 8 * n ≤ 18446744073709551616
  alx : zp ≤ xp ∨ xp + 8 * n ≤ zp
  aly : zp ≤ yp ∨ yp + 8 * n ≤ zp

/-- The single-step loop `L1` from index `i` on (`k = xs.length ≥ 1` words left). -/
theorem add10VV_L1_loop (zp xp yp n : Nat) :
    ∀ (xs ys : List Nat) (i : Nat) (s : St) (c : Nat),
      xs ≠ [] → ys.length = xs.length → i + xs.length ≤ n →
      (∀ x, x ∈ xs → x < 10000000000000000000) → (∀ y, y ∈ ys → y < 10000000000000000000) →
      c ≤ 1 → s.cx = mask c → s.si = i → s.di = xs.length → VVCtx s zp xp yp n 9999999999999999999 →
      (∀ j, j < xs.length → s.mem.rd (xp + 8 * (i + j)) = xs.getD j 0) →
      (∀ j, j < xs.length → s.mem.rd (yp + 8 * (i + j)) = ys.getD j 0) →
      ∃ s', run program (xs.length + 1) Lbl.add10VV_L1 s = some s' ∧
        s'.frame = s.frame.wr 72 (addVV xs ys c).2 ∧ s'.trap = s.trap ∧
        (∀ j, j < xs.length → s'.mem.rd (zp + 8 * (i + j)) = (addVV xs ys c).1.getD j 0) ∧
        (∀ a, (∀ j, j < xs.length → a ≠ zp + 8 * (i + j)) → s'.mem.rd a = s.mem.rd a) := by
  intro xs
  induction xs with
  | nil => intro ys i s c h; exact absurd rfl h
  | cons x rest ih =>
    intro ys i s c _ hlen hin hxs hys hc hcx hsi hdi ctx hmx hmy
    cases ys with
    | nil => simp at hlen
    | cons y yrest =>
    have hlen' : yrest.length = rest.length := by simpa using hlen
    have hxb : x < 10000000000000000000 := hxs x (List.mem_cons_self ..)
    have hyb : y < 10000000000000000000 := hys y (List.mem_cons_self ..)
    have hk : (x :: rest).length = rest.length + 1 := rfl
    rw [hk] at hdi hmx hmy hin
    obtain ⟨c8, c9, c10, cdx, cn60, cxw, cyw, czw, calx, caly⟩ := ctx
    have hxa : (s.r8 + 8 * s.si) % W = xp + 8 * (i + 0) := by rw [c8, hsi]; simp only [W_eq]; omega
    have hya : (s.r9 + 8 * s.si) % W = yp + 8 * (i + 0) := by rw [c9, hsi]; simp only [W_eq]; omega
    have hza : (s.r10 + 8 * s.si) % W = zp + 8 * i := by rw [c10, hsi]; simp only [W_eq]; omega
    have hx : s.mem.rd ((s.r8 + 8 * s.si) % W) = x := by rw [hxa, hmx 0 (by omega)]; rfl
    have hy : s.mem.rd ((s.r9 + 8 * s.si) % W) = y := by rw [hya, hmy 0 (by omega)]; rfl
    have hb := blk_add10VV_L1_spec s c x y hc hcx cdx hx hy hxb hyb (by omega) (by omega) (by omega)
    rw [add10WWW_g_eq x y c hxb hyb hc, hza] at hb
    simp only [] at hb
    obtain ⟨bcx, bmem, bdx, bsi, bdi, b8, b9, b10, bfr, btrap, bnext⟩ := hb
    have hprog : program Lbl.add10VV_L1 s = blk_add10VV_L1 s := rfl
    have hc1 : (x + y + c) / 10000000000000000000 ≤ 1 := by omega
    cases rest with
    | nil =>
      have hy0 : yrest = [] := by
        cases yrest with
        | nil => rfl
        | cons a b => simp at hlen'
      subst hy0
      have hnext : (program Lbl.add10VV_L1 s).2 = Next.goto Lbl.add10VV_E1 := by
        rw [hprog, bnext, if_neg (by simp only [List.length_nil] at hdi; omega)]
      obtain ⟨efr, emem, etrap, enext⟩ := blk_add10VV_E1_spec (blk_add10VV_L1 s).1 _ hc1 bcx
      refine ⟨(blk_add10VV_E1 (blk_add10VV_L1 s).1).1, ?_, ?_, ?_, ?_, ?_⟩
      · show run program (0 + 1 + 1) _ s = _
        rw [run_goto _ _ _ _ hnext, hprog, run_ret' 0 Lbl.add10VV_E1 _ enext]
        rfl
      · rw [efr, bfr]; rfl
      · rw [etrap, btrap]
      · intro j hj
        have hj0 : j = 0 := by simp only [List.length_cons, List.length_nil] at hj; omega
        subst hj0
        rw [emem, bmem, Nat.add_zero, Mem.rd_wr_eq]; rfl
      · intro a ha
        have h0 := ha 0 (by simp only [List.length_cons]; omega)
        rw [Nat.add_zero] at h0
        rw [emem, bmem, Mem.rd_wr_ne _ _ _ _ h0]
    | cons x2 r2 =>
      have hnext : (program Lbl.add10VV_L1 s).2 = Next.goto Lbl.add10VV_L1 := by
        rw [hprog, bnext, if_pos (by simp only [List.length_cons] at hdi; omega)]
      have ih' := ih yrest (i + 1) (blk_add10VV_L1 s).1 ((x + y + c) / 10000000000000000000)
        (by intro h; cases h) hlen' (by simp only [List.length_cons] at hin ⊢; omega)
        (fun z hz => hxs z (List.mem_cons_of_mem _ hz)) (fun z hz => hys z (List.mem_cons_of_mem _ hz))
        hc1 bcx (by rw [bsi, hsi]) (by rw [bdi, hdi]; simp only [List.length_cons]; omega)
        ⟨by rw [b8, c8], by rw [b9, c9], by rw [b10, c10], by rw [bdx, cdx], cn60, cxw, cyw, czw, calx, caly⟩
        (by
          intro j hj
          rw [bmem, Mem.rd_wr_ne _ _ _ _ (by simp only [List.length_cons] at hin hj; omega)]
          have := hmx (j + 1) (by omega)
          rw [show i + (j + 1) = i + 1 + j by omega] at this
          rw [this]; rfl)
        (by
          intro j hj
          rw [bmem, Mem.rd_wr_ne _ _ _ _ (by simp only [List.length_cons] at hin hj; omega)]
          have := hmy (j + 1) (by omega)
          rw [show i + (j + 1) = i + 1 + j by omega] at this
          rw [this]; rfl)
      obtain ⟨s', hrun, hfr, htrap, hz, hother⟩ := ih'
      refine ⟨s', ?_, ?_, ?_, ?_, ?_⟩
      · show run program ((x2 :: r2).length + 1 + 1) _ s = _
        rw [run_goto _ _ _ _ hnext, hprog]
        exact hrun
      · rw [hfr, bfr]; rfl
      · rw [htrap, btrap]
      · intro j hj
        cases j with
        | zero =>
          rw [hother _ (by intro k _; omega), bmem, Nat.add_zero, Mem.rd_wr_eq]; rfl
        | succ j =>
          have := hz j (by simp only [List.length_cons] at hj ⊢; omega)
          rw [show i + 1 + j = i + (j + 1) by omega] at this
          rw [this]; rfl
      · intro a ha
        rw [hother a (by
          intro k hk'
          have := ha (k + 1) (by simp only [List.length_cons] at hk' ⊢; omega)
          rw [show i + (k + 1) = i + 1 + k by omega] at this
          exact this), bmem, Mem.rd_wr_ne _ _ _ _ (by
          have h0 := ha 0 (by simp only [List.length_cons]; omega)
          rw [Nat.add_zero] at h0
          exact h0)]

/-- From `V1` on: `m = xs.length < 4` words left. -/
theorem add10VV_tail (zp xp yp n : Nat) (xs ys : List Nat) (i : Nat) (s : St) (c : Nat)
    (hm : xs.length < 4) (hlen : ys.length = xs.length) (hin : i + xs.length ≤ n)
    (hxs : ∀ x, x ∈ xs → x < 10000000000000000000) (hys : ∀ y, y ∈ ys → y < 10000000000000000000)
    (hc : c ≤ 1) (hcx : s.cx = mask c) (hsi : s.si = i)
    (hdi : s.di = 18446744073709551616 - 4 + xs.length) (ctx : VVCtx s zp xp yp n 9999999999999999999)
    (hmx : ∀ j, j < xs.length → s.mem.rd (xp + 8 * (i + j)) = xs.getD j 0)
    (hmy : ∀ j, j < xs.length → s.mem.rd (yp + 8 * (i + j)) = ys.getD j 0) :
    ∃ s', run program (xs.length + 2) Lbl.add10VV_V1 s = some s' ∧
      s'.frame = s.frame.wr 72 (addVV xs ys c).2 ∧ s'.trap = s.trap ∧
      (∀ j, j < xs.length → s'.mem.rd (zp + 8 * (i + j)) = (addVV xs ys c).1.getD j 0) ∧
      (∀ a, (∀ j, j < xs.length → a ≠ zp + 8 * (i + j)) → s'.mem.rd a = s.mem.rd a) := by
  obtain ⟨vcx, vdx, vsi, v8, v9, v10, vmem, vfr, vtrap, vdi, vnext⟩ := blk_add10VV_V1_spec s xs.length hm hdi
  have hprog : program Lbl.add10VV_V1 s = blk_add10VV_V1 s := rfl
  obtain ⟨c8, c9, c10, cdx, cn60, cxw, cyw, czw, calx, caly⟩ := ctx
  cases xs with
  | nil =>
    have hnext : (program Lbl.add10VV_V1 s).2 = Next.goto Lbl.add10VV_E1 := by
      rw [hprog, vnext]; rfl
    obtain ⟨efr, emem, etrap, enext⟩ := blk_add10VV_E1_spec (blk_add10VV_V1 s).1 c hc (by rw [vcx, hcx])
    refine ⟨(blk_add10VV_E1 (blk_add10VV_V1 s).1).1, ?_, ?_, ?_, ?_, ?_⟩
    · show run program (0 + 1 + 1) _ s = _
      rw [run_goto _ _ _ _ hnext, hprog, run_ret' 0 Lbl.add10VV_E1 _ enext]
      rfl
    · rw [efr, vfr]; rfl
    · rw [etrap, vtrap]
    · intro j hj; simp only [List.length_nil] at hj; omega
    · intro a _; rw [emem, vmem]
  | cons x rest =>
    have hnext : (program Lbl.add10VV_V1 s).2 = Next.goto Lbl.add10VV_L1 := by
      rw [hprog, vnext, if_neg (by simp only [List.length_cons]; omega)]
    have hl := add10VV_L1_loop zp xp yp n (x :: rest) ys i (blk_add10VV_V1 s).1 c (by intro h; cases h)
      hlen hin hxs hys hc (by rw [vcx, hcx]) (by rw [vsi, hsi]) vdi
      ⟨by rw [v8, c8], by rw [v9, c9], by rw [v10, c10], by rw [vdx, cdx], cn60, cxw, cyw, czw, calx, caly⟩
      (by intro j hj; rw [vmem]; exact hmx j hj) (by intro j hj; rw [vmem]; exact hmy j hj)
    obtain ⟨s', hrun, hfr, htrap, hz, hother⟩ := hl
    refine ⟨s', ?_, ?_, ?_, hz, ?_⟩
    · show run program ((x :: rest).length + 1 + 1) _ s = _
      rw [run_goto _ _ _ _ hnext, hprog]
      exact hrun
    · rw [hfr, vfr]
    · rw [htrap, vtrap]
    · intro a ha; rw [hother a ha, vmem]

theorem list_four (xs : List Nat) (h : 4 ≤ xs.length) : ∃ a b c d r, xs = a :: b :: c :: d :: r := by
  match xs, h with
  | a :: b :: c :: d :: r, _ => exact ⟨a, b, c, d, r, rfl⟩

/-- number of blocks executed after the entry block for `k` words -/
def vvFuel (k : Nat) : Nat := k / 4 + k % 4 + 2

/-- The 4×-unrolled loop `U1` from index `i` on (`k = xs.length ≥ 4` words left), followed by the
    tail. -/
theorem add10VV_U1_loop (zp xp yp n : Nat) :
    ∀ (k : Nat) (xs ys : List Nat) (i : Nat) (s : St) (c : Nat),
      xs.length = k → 4 ≤ k → ys.length = xs.length → i + xs.length ≤ n →
      (∀ x, x ∈ xs → x < 10000000000000000000) → (∀ y, y ∈ ys → y < 10000000000000000000) →
      c ≤ 1 → s.cx = mask c → s.si = i → s.di = xs.length - 4 → VVCtx s zp xp yp n 9999999999999999999 →
      (∀ j, j < xs.length → s.mem.rd (xp + 8 * (i + j)) = xs.getD j 0) →
      (∀ j, j < xs.length → s.mem.rd (yp + 8 * (i + j)) = ys.getD j 0) →
      ∃ s', run program (vvFuel xs.length) Lbl.add10VV_U1 s = some s' ∧
        s'.frame = s.frame.wr 72 (addVV xs ys c).2 ∧ s'.trap = s.trap ∧
        (∀ j, j < xs.length → s'.mem.rd (zp + 8 * (i + j)) = (addVV xs ys c).1.getD j 0) ∧
        (∀ a, (∀ j, j < xs.length → a ≠ zp + 8 * (i + j)) → s'.mem.rd a = s.mem.rd a) := by
  intro k
  induction k using Nat.strongRecOn with
  | _ k ih =>
    intro xs ys i s c hk h4 hlen hin hxs hys hc hcx hsi hdi ctx hmx hmy
    -- split off four words
    obtain ⟨x0, x1, x2, x3, rest, rfl⟩ := list_four xs (by omega)
    obtain ⟨y0, y1, y2, y3, yrest, rfl⟩ := list_four ys (by omega)
    have hlen' : yrest.length = rest.length := by simpa using hlen
    have hkk : (x0 :: x1 :: x2 :: x3 :: rest).length = rest.length + 4 := rfl
    rw [hkk] at hdi hmx hmy hin
    have bx0 := hxs x0 (by simp)
    have bx1 := hxs x1 (by simp)
    have bx2 := hxs x2 (by simp)
    have bx3 := hxs x3 (by simp)
    have by0 := hys y0 (by simp)
    have by1 := hys y1 (by simp)
    have by2 := hys y2 (by simp)
    have by3 := hys y3 (by simp)
    obtain ⟨c8, c9, c10, cdx, cn60, cxw, cyw, czw, calx, caly⟩ := ctx
    -- addresses
    have ax0 : (s.r8 + 8 * s.si) % W = xp + 8 * (i + 0) := by rw [c8, hsi]; simp only [W_eq]; omega
    have ax1 : (s.r8 + 8 * s.si + 8) % W = xp + 8 * (i + 1) := by rw [c8, hsi]; simp only [W_eq]; omega
    have ax2 : (s.r8 + 8 * s.si + 16) % W = xp + 8 * (i + 2) := by rw [c8, hsi]; simp only [W_eq]; omega
    have ax3 : (s.r8 + 8 * s.si + 24) % W = xp + 8 * (i + 3) := by rw [c8, hsi]; simp only [W_eq]; omega
    have ay0 : (s.r9 + 8 * s.si) % W = yp + 8 * (i + 0) := by rw [c9, hsi]; simp only [W_eq]; omega
    have ay1 : (s.r9 + 8 * s.si + 8) % W = yp + 8 * (i + 1) := by rw [c9, hsi]; simp only [W_eq]; omega
    have ay2 : (s.r9 + 8 * s.si + 16) % W = yp + 8 * (i + 2) := by rw [c9, hsi]; simp only [W_eq]; omega
    have ay3 : (s.r9 + 8 * s.si + 24) % W = yp + 8 * (i + 3) := by rw [c9, hsi]; simp only [W_eq]; omega
    have az0 : (s.r10 + 8 * s.si) % W = zp + 8 * i := by rw [c10, hsi]; simp only [W_eq]; omega
    have az1 : (s.r10 + 8 * s.si + 8) % W = zp + 8 * (i + 1) := by rw [c10, hsi]; simp only [W_eq]; omega
    have az2 : (s.r10 + 8 * s.si + 16) % W = zp + 8 * (i + 2) := by rw [c10, hsi]; simp only [W_eq]; omega
    have az3 : (s.r10 + 8 * s.si + 24) % W = zp + 8 * (i + 3) := by rw [c10, hsi]; simp only [W_eq]; omega
    have hb := blk_add10VV_U1_spec s c x0 x1 x2 x3 y0 y1 y2 y3 hc hcx cdx
      (by rw [ax0, hmx 0 (by omega)]; rfl) (by rw [ay0, hmy 0 (by omega)]; rfl)
      (by rw [ax1, hmx 1 (by omega)]; rfl) (by rw [ay1, hmy 1 (by omega)]; rfl)
      (by rw [ax2, hmx 2 (by omega)]; rfl) (by rw [ay2, hmy 2 (by omega)]; rfl)
      (by rw [ax3, hmx 3 (by omega)]; rfl) (by rw [ay3, hmy 3 (by omega)]; rfl)
      bx0 by0 bx1 by1 bx2 by2 bx3 by3 (by omega) (by omega)
    simp only [] at hb
    -- the four Go steps are the four mathematical steps
    have q0 := add10WWW_g_eq x0 y0 c bx0 by0 hc
    have c0 : (x0 + y0 + c) / 10000000000000000000 ≤ 1 := by omega
    rw [q0] at hb
    simp only [] at hb
    have q1 := add10WWW_g_eq x1 y1 _ bx1 by1 c0
    have c1 : (x1 + y1 + (x0 + y0 + c) / 10000000000000000000) / 10000000000000000000 ≤ 1 := by omega
    rw [q1] at hb
    simp only [] at hb
    have q2 := add10WWW_g_eq x2 y2 _ bx2 by2 c1
    have c2 : (x2 + y2 + (x1 + y1 + (x0 + y0 + c) / 10000000000000000000) / 10000000000000000000)
        / 10000000000000000000 ≤ 1 := by omega
    rw [q2] at hb
    simp only [] at hb
    have q3 := add10WWW_g_eq x3 y3 _ bx3 by3 c2
    rw [q3, az0, az1, az2, az3] at hb
    simp only [] at hb
    generalize hc1 : (x0 + y0 + c) / 10000000000000000000 = cc1 at *
    generalize hc2 : (x1 + y1 + cc1) / 10000000000000000000 = cc2 at *
    generalize hc3 : (x2 + y2 + cc2) / 10000000000000000000 = cc3 at *
    have c3 : (x3 + y3 + cc3) / 10000000000000000000 ≤ 1 := by omega
    obtain ⟨bcx, bmem, bdx, bsi, bdi, b8, b9, b10, bfr, btrap, bnext⟩ := hb
    have hprog : program Lbl.add10VV_U1 s = blk_add10VV_U1 s := rfl
    have hadd : addVV (x0 :: x1 :: x2 :: x3 :: rest) (y0 :: y1 :: y2 :: y3 :: yrest) c =
        ((x0 + y0 + c) % 10000000000000000000 :: (x1 + y1 + cc1) % 10000000000000000000 ::
          (x2 + y2 + cc2) % 10000000000000000000 :: (x3 + y3 + cc3) % 10000000000000000000 ::
          (addVV rest yrest ((x3 + y3 + cc3) / 10000000000000000000)).1,
         (addVV rest yrest ((x3 + y3 + cc3) / 10000000000000000000)).2) := by
      simp only [addVV, hc1, hc2, hc3]
    rw [hadd]
    -- memory seen by the rest of the routine
    have hrestx : ∀ j, j < rest.length → (blk_add10VV_U1 s).1.mem.rd (xp + 8 * (i + 4 + j)) = rest.getD j 0 := by
      intro j hj
      rw [bmem, Mem.rd_wr_ne _ _ _ _ (by omega), Mem.rd_wr_ne _ _ _ _ (by omega),
        Mem.rd_wr_ne _ _ _ _ (by omega), Mem.rd_wr_ne _ _ _ _ (by omega)]
      have := hmx (j + 4) (by omega)
      rw [show i + (j + 4) = i + 4 + j by omega] at this
      rw [this]; rfl
    have hresty : ∀ j, j < rest.length → (blk_add10VV_U1 s).1.mem.rd (yp + 8 * (i + 4 + j)) = yrest.getD j 0 := by
      intro j hj
      rw [bmem, Mem.rd_wr_ne _ _ _ _ (by omega), Mem.rd_wr_ne _ _ _ _ (by omega),
        Mem.rd_wr_ne _ _ _ _ (by omega), Mem.rd_wr_ne _ _ _ _ (by omega)]
      have := hmy (j + 4) (by omega)
      rw [show i + (j + 4) = i + 4 + j by omega] at this
      rw [this]; rfl
    have hctx' : VVCtx (blk_add10VV_U1 s).1 zp xp yp n 9999999999999999999 :=
      ⟨by rw [b8, c8], by rw [b9, c9], by rw [b10, c10], by rw [bdx, cdx], cn60, cxw, cyw, czw, calx, caly⟩
    -- continue: another unrolled round or the tail
    have hcont : ∃ s', run program (vvFuel rest.length)
          (if 4 ≤ rest.length then Lbl.add10VV_U1 else Lbl.add10VV_V1) (blk_add10VV_U1 s).1 = some s' ∧
        s'.frame = (blk_add10VV_U1 s).1.frame.wr 72 (addVV rest yrest ((x3 + y3 + cc3) / 10000000000000000000)).2 ∧
        s'.trap = (blk_add10VV_U1 s).1.trap ∧
        (∀ j, j < rest.length → s'.mem.rd (zp + 8 * (i + 4 + j)) =
          (addVV rest yrest ((x3 + y3 + cc3) / 10000000000000000000)).1.getD j 0) ∧
        (∀ a, (∀ j, j < rest.length → a ≠ zp + 8 * (i + 4 + j)) → s'.mem.rd a = (blk_add10VV_U1 s).1.mem.rd a) := by
      by_cases h4' : 4 ≤ rest.length
      · rw [if_pos h4']
        exact ih rest.length (by omega) rest yrest (i + 4) (blk_add10VV_U1 s).1 _ rfl h4' hlen' (by omega)
          (fun z hz => hxs z (by simp [hz])) (fun z hz => hys z (by simp [hz])) c3 bcx
          (by rw [bsi, hsi]) (by rw [bdi, hdi, if_pos (by omega)]; omega) hctx' hrestx hresty
      · rw [if_neg h4']
        have hf : vvFuel rest.length = rest.length + 2 := by
          unfold vvFuel; omega
        rw [hf]
        exact add10VV_tail zp xp yp n rest yrest (i + 4) (blk_add10VV_U1 s).1 _ (by omega) hlen' (by omega)
          (fun z hz => hxs z (by simp [hz])) (fun z hz => hys z (by simp [hz])) c3 bcx
          (by rw [bsi, hsi]) (by rw [bdi, hdi, if_neg (by omega)]; omega) hctx' hrestx hresty
    obtain ⟨s', hrun, hfr, htrap, hz, hother⟩ := hcont
    have hnext : (program Lbl.add10VV_U1 s).2 =
        Next.goto (if 4 ≤ rest.length then Lbl.add10VV_U1 else Lbl.add10VV_V1) := by
      rw [hprog, bnext, hdi]
      by_cases h4' : 4 ≤ rest.length
      · rw [if_pos (by omega), if_pos h4']
      · rw [if_neg (by omega), if_neg h4']
    refine ⟨s', ?_, ?_, ?_, ?_, ?_⟩
    · have hf : vvFuel (rest.length + 4) = vvFuel rest.length + 1 := by unfold vvFuel; omega
      rw [hkk, hf, run_goto _ _ _ _ hnext, hprog]
      exact hrun
    · rw [hfr, bfr]
    · rw [htrap, btrap]
    · intro j hj
      rw [hkk] at hj
      have hoth : ∀ t, t < 4 → s'.mem.rd (zp + 8 * (i + t)) = (blk_add10VV_U1 s).1.mem.rd (zp + 8 * (i + t)) := by
        intro t ht
        exact hother _ (by intro k _; omega)
      match j with
      | 0 =>
        rw [hoth 0 (by omega), bmem, Nat.add_zero i, Mem.rd_wr_ne _ _ _ _ (by omega),
          Mem.rd_wr_ne _ _ _ _ (by omega), Mem.rd_wr_ne _ _ _ _ (by omega), Mem.rd_wr_eq]; rfl
      | 1 =>
        rw [hoth 1 (by omega), bmem, Mem.rd_wr_ne _ _ _ _ (by omega),
          Mem.rd_wr_ne _ _ _ _ (by omega), Mem.rd_wr_eq]; rfl
      | 2 =>
        rw [hoth 2 (by omega), bmem, Mem.rd_wr_ne _ _ _ _ (by omega), Mem.rd_wr_eq]; rfl
      | 3 =>
        rw [hoth 3 (by omega), bmem, Mem.rd_wr_eq]; rfl
      | j + 4 =>
        have := hz j (by omega)
        rw [show i + 4 + j = i + (j + 4) by omega] at this
        rw [this]; rfl
    · intro a ha
      rw [hkk] at ha
      rw [hother a (by
        intro k hk'
        have := ha (k + 4) (by omega)
        rw [show i + (k + 4) = i + 4 + k by omega] at this
        exact this), bmem,
        Mem.rd_wr_ne _ _ _ _ (ha 3 (by omega)), Mem.rd_wr_ne _ _ _ _ (ha 2 (by omega)),
        Mem.rd_wr_ne _ _ _ _ (ha 1 (by omega)), Mem.rd_wr_ne _ _ _ _ (by
          have h0 := ha 0 (by omega)
          rw [Nat.add_zero] at h0
          exact h0)]

/-- **`add10VV`, every length.**  Frame describing `add10VV(z, x, y)` with
    `len(z) = len(x) = len(y) = n`, all words `< 10^19`; `z` not above `x` and not above `y`
    (in particular `z = x` or `z = y`), or beyond their ends.  The routine returns after
    `n/4 + n%4 + 3` blocks with the carry in its result slot and `z` holding the words of the sum;
    nothing else in memory changes. -/
theorem add10VV_correct (s : St) (xs ys : List Nat) (zp xp yp : Nat)
    (hf0 : s.frame.rd 0 = zp) (hf8 : s.frame.rd 8 = xs.length) (hf24 : s.frame.rd 24 = xp)
    (hf48 : s.frame.rd 48 = yp) (hlen : ys.length = xs.length)
    (hxs : ∀ x, x ∈ xs → x < 10000000000000000000) (hys : ∀ y, y ∈ ys → y < 10000000000000000000)
    (hn : xs.length < 1152921504606846976)
    (hxp : xp + 8 * xs.length ≤ 18446744073709551616) (hyp : yp + 8 * xs.length ≤ 18446744073709551616)
    (hzp : zp + 8 * xs.length ≤ 18446744073709551616)
    (halx : zp ≤ xp ∨ xp + 8 * xs.length ≤ zp) (haly : zp ≤ yp ∨ yp + 8 * xs.length ≤ zp)
    (hmx : ∀ j, j < xs.length → s.mem.rd (xp + 8 * j) = xs.getD j 0)
    (hmy : ∀ j, j < xs.length → s.mem.rd (yp + 8 * j) = ys.getD j 0) :
    ∃ s', run program (vvFuel xs.length + 1) Lbl.add10VV_entry s = some s' ∧
      s'.frame = s.frame.wr 72 (addVV xs ys 0).2 ∧ s'.trap = s.trap ∧
      (∀ j, j < xs.length → s'.mem.rd (zp + 8 * j) = (addVV xs ys 0).1.getD j 0) ∧
      (∀ a, (∀ j, j < xs.length → a ≠ zp + 8 * j) → s'.mem.rd a = s.mem.rd a) := by
  obtain ⟨ecx, edx, esi, e8, e9, e10, emem, efr, etrap, edi, enext⟩ :=
    blk_add10VV_entry_spec s xs.length hf8 (by omega)
  have hprog : program Lbl.add10VV_entry s = blk_add10VV_entry s := rfl
  have hctx : VVCtx (blk_add10VV_entry s).1 zp xp yp xs.length 9999999999999999999 :=
    ⟨by rw [e8, hf24], by rw [e9, hf48], by rw [e10, hf0], edx, hn, hxp, hyp, hzp, halx, haly⟩
  have hcont : ∃ s', run program (vvFuel xs.length)
        (if xs.length < 4 then Lbl.add10VV_V1 else Lbl.add10VV_U1) (blk_add10VV_entry s).1 = some s' ∧
      s'.frame = (blk_add10VV_entry s).1.frame.wr 72 (addVV xs ys 0).2 ∧
      s'.trap = (blk_add10VV_entry s).1.trap ∧
      (∀ j, j < xs.length → s'.mem.rd (zp + 8 * (0 + j)) = (addVV xs ys 0).1.getD j 0) ∧
      (∀ a, (∀ j, j < xs.length → a ≠ zp + 8 * (0 + j)) → s'.mem.rd a = (blk_add10VV_entry s).1.mem.rd a) := by
    by_cases h4 : xs.length < 4
    · rw [if_pos h4]
      have hf : vvFuel xs.length = xs.length + 2 := by unfold vvFuel; omega
      rw [hf]
      exact add10VV_tail zp xp yp xs.length xs ys 0 (blk_add10VV_entry s).1 0 h4 hlen (by omega) hxs hys
        (by omega) ecx esi (by rw [edi, if_pos h4]) hctx
        (by intro j hj; rw [emem, Nat.zero_add]; exact hmx j hj)
        (by intro j hj; rw [emem, Nat.zero_add]; exact hmy j hj)
    · rw [if_neg h4]
      exact add10VV_U1_loop zp xp yp xs.length xs.length xs ys 0 (blk_add10VV_entry s).1 0 rfl (by omega) hlen
        (by omega) hxs hys (by omega) ecx esi (by rw [edi, if_neg h4]) hctx
        (by intro j hj; rw [emem, Nat.zero_add]; exact hmx j hj)
        (by intro j hj; rw [emem, Nat.zero_add]; exact hmy j hj)
  obtain ⟨s', hrun, hfr, htrap, hz, hother⟩ := hcont
  have hnext : (program Lbl.add10VV_entry s).2 =
      Next.goto (if xs.length < 4 then Lbl.add10VV_V1 else Lbl.add10VV_U1) := by
    rw [hprog, enext]
    by_cases h4 : xs.length < 4
    · rw [if_pos h4, if_pos h4]
    · rw [if_neg h4, if_neg h4]
  refine ⟨s', ?_, ?_, ?_, ?_, ?_⟩
  · rw [run_goto _ _ _ _ hnext, hprog]
    exact hrun
  · rw [hfr, efr]
  · rw [htrap, etrap]
  · intro j hj
    have := hz j hj
    rw [Nat.zero_add] at this
    exact this
  · intro a ha
    rw [hother a (by intro j hj; rw [Nat.zero_add]; exact ha j hj), emem]

/-! ### sub10VV, every length -/

theorem ite_le_one (p : Prop) [Decidable p] : (if p then 1 else 0) ≤ 1 := by split <;> omega

/-- `sub10VV` word by word: `z[i] = x[i] - y[i] - b (+ 10^19 on borrow)` with the borrow propagated -/
def subVV : List Nat → List Nat → Nat → List Nat × Nat
  | x :: xs, y :: ys, c =>
    let r := subVV xs ys (if x < y + c then 1 else 0)
    ((if x < y + c then x + 10000000000000000000 - y - c else x - y - c) :: r.1, r.2)
  | _, _, c => ([], c)

/-- value: `natOf z + natOf y + b = natOf x + b'·B^n` for vectors of equal length with words `< B` -/
theorem subVV_value (xs : List Nat) : ∀ (ys : List Nat) (c : Nat), ys.length = xs.length → c ≤ 1 →
    (∀ x, x ∈ xs → x < 10000000000000000000) → (∀ y, y ∈ ys → y < 10000000000000000000) →
    natOf (subVV xs ys c).1 + natOf ys + c = natOf xs + (subVV xs ys c).2 * B ^ xs.length := by
  induction xs with
  | nil =>
    intro ys c h _ _ _
    cases ys with
    | nil => simp [subVV, natOf]
    | cons y ys => simp at h
  | cons x xs ih =>
    intro ys c h hc hx hy
    cases ys with
    | nil => simp at h
    | cons y ys =>
      have hl : ys.length = xs.length := by simpa using h
      have hxb := hx x (List.mem_cons_self ..)
      have hyb := hy y (List.mem_cons_self ..)
      have hc' : (if x < y + c then 1 else 0) ≤ 1 := ite_le_one _
      have h' := ih ys (if x < y + c then 1 else 0) hl hc'
        (fun z hz => hx z (List.mem_cons_of_mem _ hz)) (fun z hz => hy z (List.mem_cons_of_mem _ hz))
      have hB : B = 10000000000000000000 := rfl
      simp only [subVV, natOf, List.length_cons, Nat.pow_succ]
      rw [← hB] at hxb hyb ⊢
      generalize (subVV xs ys (if x < y + c then 1 else 0)).1 = zs at *
      generalize (subVV xs ys (if x < y + c then 1 else 0)).2 = c' at *
      have e : c' * (B ^ xs.length * B) = B * (c' * B ^ xs.length) := by
        rw [Nat.mul_comm (B ^ xs.length) B, Nat.mul_left_comm]
      rw [e]
      generalize c' * B ^ xs.length = T at *
      by_cases hlt : x < y + c
      · simp only [hlt, if_true] at h' ⊢
        have : B * (natOf zs + natOf ys + 1) = B * (natOf xs + T) := by rw [h']
        rw [Nat.mul_add, Nat.mul_add, Nat.mul_add] at this
        omega
      · simp only [hlt, if_false] at h' ⊢
        have : B * (natOf zs + natOf ys + 0) = B * (natOf xs + T) := by rw [h']
        rw [Nat.mul_add, Nat.mul_add, Nat.mul_add] at this
        omega

/-- The single-step loop `L2` from index `i` on (`k = xs.length ≥ 1` words left). -/
theorem sub10VV_L2_loop (zp xp yp n : Nat) :
    ∀ (xs ys : List Nat) (i : Nat) (s : St) (c : Nat),
      xs ≠ [] → ys.length = xs.length → i + xs.length ≤ n →
      (∀ x, x ∈ xs → x < 10000000000000000000) → (∀ y, y ∈ ys → y < 10000000000000000000) →
      c ≤ 1 → s.cx = mask c → s.si = i → s.di = xs.length → VVCtx s zp xp yp n 10000000000000000000 →
      (∀ j, j < xs.length → s.mem.rd (xp + 8 * (i + j)) = xs.getD j 0) →
      (∀ j, j < xs.length → s.mem.rd (yp + 8 * (i + j)) = ys.getD j 0) →
      ∃ s', run program (xs.length + 1) Lbl.sub10VV_L2 s = some s' ∧
        s'.frame = s.frame.wr 72 (subVV xs ys c).2 ∧ s'.trap = s.trap ∧
        (∀ j, j < xs.length → s'.mem.rd (zp + 8 * (i + j)) = (subVV xs ys c).1.getD j 0) ∧
        (∀ a, (∀ j, j < xs.length → a ≠ zp + 8 * (i + j)) → s'.mem.rd a = s.mem.rd a) := by
  intro xs
  induction xs with
  | nil => intro ys i s c h; exact absurd rfl h
  | cons x rest ih =>
    intro ys i s c _ hlen hin hxs hys hc hcx hsi hdi ctx hmx hmy
    cases ys with
    | nil => simp at hlen
    | cons y yrest =>
    have hlen' : yrest.length = rest.length := by simpa using hlen
    have hxb : x < 10000000000000000000 := hxs x (List.mem_cons_self ..)
    have hyb : y < 10000000000000000000 := hys y (List.mem_cons_self ..)
    have hk : (x :: rest).length = rest.length + 1 := rfl
    rw [hk] at hdi hmx hmy hin
    obtain ⟨c8, c9, c10, cdx, cn60, cxw, cyw, czw, calx, caly⟩ := ctx
    have hxa : (s.r8 + 8 * s.si) % W = xp + 8 * (i + 0) := by rw [c8, hsi]; simp only [W_eq]; omega
    have hya : (s.r9 + 8 * s.si) % W = yp + 8 * (i + 0) := by rw [c9, hsi]; simp only [W_eq]; omega
    have hza : (s.r10 + 8 * s.si) % W = zp + 8 * i := by rw [c10, hsi]; simp only [W_eq]; omega
    have hx : s.mem.rd ((s.r8 + 8 * s.si) % W) = x := by rw [hxa, hmx 0 (by omega)]; rfl
    have hy : s.mem.rd ((s.r9 + 8 * s.si) % W) = y := by rw [hya, hmy 0 (by omega)]; rfl
    have hb := blk_sub10VV_L2_spec s c x y hc hcx cdx hx hy hxb hyb (by omega) (by omega) (by omega)
    rw [sub10WWW_g_eq x y c hxb hyb hc, hza] at hb
    simp only [] at hb
    obtain ⟨bcx, bmem, bdx, bsi, bdi, b8, b9, b10, bfr, btrap, bnext⟩ := hb
    have hprog : program Lbl.sub10VV_L2 s = blk_sub10VV_L2 s := rfl
    have hc1 : (if x < y + c then 1 else 0) ≤ 1 := ite_le_one _
    cases rest with
    | nil =>
      have hy0 : yrest = [] := by
        cases yrest with
        | nil => rfl
        | cons a b => simp at hlen'
      subst hy0
      have hnext : (program Lbl.sub10VV_L2 s).2 = Next.goto Lbl.sub10VV_E2 := by
        rw [hprog, bnext, if_neg (by simp only [List.length_nil] at hdi; omega)]
      obtain ⟨efr, emem, etrap, enext⟩ := blk_sub10VV_E2_spec (blk_sub10VV_L2 s).1 _ hc1 bcx
      refine ⟨(blk_sub10VV_E2 (blk_sub10VV_L2 s).1).1, ?_, ?_, ?_, ?_, ?_⟩
      · show run program (0 + 1 + 1) _ s = _
        rw [run_goto _ _ _ _ hnext, hprog, run_ret' 0 Lbl.sub10VV_E2 _ enext]
        rfl
      · rw [efr, bfr]; rfl
      · rw [etrap, btrap]
      · intro j hj
        have hj0 : j = 0 := by simp only [List.length_cons, List.length_nil] at hj; omega
        subst hj0
        rw [emem, bmem, Nat.add_zero i, Mem.rd_wr_eq]; rfl
      · intro a ha
        have h0 := ha 0 (by simp only [List.length_cons]; omega)
        rw [Nat.add_zero] at h0
        rw [emem, bmem, Mem.rd_wr_ne _ _ _ _ h0]
    | cons x2 r2 =>
      have hnext : (program Lbl.sub10VV_L2 s).2 = Next.goto Lbl.sub10VV_L2 := by
        rw [hprog, bnext, if_pos (by simp only [List.length_cons] at hdi; omega)]
      have ih' := ih yrest (i + 1) (blk_sub10VV_L2 s).1 ((if x < y + c then 1 else 0))
        (by intro h; cases h) hlen' (by simp only [List.length_cons] at hin ⊢; omega)
        (fun z hz => hxs z (List.mem_cons_of_mem _ hz)) (fun z hz => hys z (List.mem_cons_of_mem _ hz))
        hc1 bcx (by rw [bsi, hsi]) (by rw [bdi, hdi]; simp only [List.length_cons]; omega)
        ⟨by rw [b8, c8], by rw [b9, c9], by rw [b10, c10], by rw [bdx, cdx], cn60, cxw, cyw, czw, calx, caly⟩
        (by
          intro j hj
          rw [bmem, Mem.rd_wr_ne _ _ _ _ (by simp only [List.length_cons] at hin hj; omega)]
          have := hmx (j + 1) (by omega)
          rw [show i + (j + 1) = i + 1 + j by omega] at this
          rw [this]; rfl)
        (by
          intro j hj
          rw [bmem, Mem.rd_wr_ne _ _ _ _ (by simp only [List.length_cons] at hin hj; omega)]
          have := hmy (j + 1) (by omega)
          rw [show i + (j + 1) = i + 1 + j by omega] at this
          rw [this]; rfl)
      obtain ⟨s', hrun, hfr, htrap, hz, hother⟩ := ih'
      refine ⟨s', ?_, ?_, ?_, ?_, ?_⟩
      · show run program ((x2 :: r2).length + 1 + 1) _ s = _
        rw [run_goto _ _ _ _ hnext, hprog]
        exact hrun
      · rw [hfr, bfr]; rfl
      · rw [htrap, btrap]
      · intro j hj
        cases j with
        | zero =>
          rw [hother _ (by intro k _; omega), bmem, Nat.add_zero i, Mem.rd_wr_eq]; rfl
        | succ j =>
          have := hz j (by simp only [List.length_cons] at hj ⊢; omega)
          rw [show i + 1 + j = i + (j + 1) by omega] at this
          rw [this]; rfl
      · intro a ha
        rw [hother a (by
          intro k hk'
          have := ha (k + 1) (by simp only [List.length_cons] at hk' ⊢; omega)
          rw [show i + (k + 1) = i + 1 + k by omega] at this
          exact this), bmem, Mem.rd_wr_ne _ _ _ _ (by
          have h0 := ha 0 (by simp only [List.length_cons]; omega)
          rw [Nat.add_zero] at h0
          exact h0)]

/-- From `V2` on: `m = xs.length < 4` words left. -/
theorem sub10VV_tail (zp xp yp n : Nat) (xs ys : List Nat) (i : Nat) (s : St) (c : Nat)
    (hm : xs.length < 4) (hlen : ys.length = xs.length) (hin : i + xs.length ≤ n)
    (hxs : ∀ x, x ∈ xs → x < 10000000000000000000) (hys : ∀ y, y ∈ ys → y < 10000000000000000000)
    (hc : c ≤ 1) (hcx : s.cx = mask c) (hsi : s.si = i)
    (hdi : s.di = 18446744073709551616 - 4 + xs.length) (ctx : VVCtx s zp xp yp n 10000000000000000000)
    (hmx : ∀ j, j < xs.length → s.mem.rd (xp + 8 * (i + j)) = xs.getD j 0)
    (hmy : ∀ j, j < xs.length → s.mem.rd (yp + 8 * (i + j)) = ys.getD j 0) :
    ∃ s', run program (xs.length + 2) Lbl.sub10VV_V2 s = some s' ∧
      s'.frame = s.frame.wr 72 (subVV xs ys c).2 ∧ s'.trap = s.trap ∧
      (∀ j, j < xs.length → s'.mem.rd (zp + 8 * (i + j)) = (subVV xs ys c).1.getD j 0) ∧
      (∀ a, (∀ j, j < xs.length → a ≠ zp + 8 * (i + j)) → s'.mem.rd a = s.mem.rd a) := by
  obtain ⟨vcx, vdx, vsi, v8, v9, v10, vmem, vfr, vtrap, vdi, vnext⟩ := blk_sub10VV_V2_spec s xs.length hm hdi
  have hprog : program Lbl.sub10VV_V2 s = blk_sub10VV_V2 s := rfl
  obtain ⟨c8, c9, c10, cdx, cn60, cxw, cyw, czw, calx, caly⟩ := ctx
  cases xs with
  | nil =>
    have hnext : (program Lbl.sub10VV_V2 s).2 = Next.goto Lbl.sub10VV_E2 := by
      rw [hprog, vnext]; rfl
    obtain ⟨efr, emem, etrap, enext⟩ := blk_sub10VV_E2_spec (blk_sub10VV_V2 s).1 c hc (by rw [vcx, hcx])
    refine ⟨(blk_sub10VV_E2 (blk_sub10VV_V2 s).1).1, ?_, ?_, ?_, ?_, ?_⟩
    · show run program (0 + 1 + 1) _ s = _
      rw [run_goto _ _ _ _ hnext, hprog, run_ret' 0 Lbl.sub10VV_E2 _ enext]
      rfl
    · rw [efr, vfr]; rfl
    · rw [etrap, vtrap]
    · intro j hj; simp only [List.length_nil] at hj; omega
    · intro a _; rw [emem, vmem]
  | cons x rest =>
    have hnext : (program Lbl.sub10VV_V2 s).2 = Next.goto Lbl.sub10VV_L2 := by
      rw [hprog, vnext, if_neg (by simp only [List.length_cons]; omega)]
    have hl := sub10VV_L2_loop zp xp yp n (x :: rest) ys i (blk_sub10VV_V2 s).1 c (by intro h; cases h)
      hlen hin hxs hys hc (by rw [vcx, hcx]) (by rw [vsi, hsi]) vdi
      ⟨by rw [v8, c8], by rw [v9, c9], by rw [v10, c10], by rw [vdx, cdx], cn60, cxw, cyw, czw, calx, caly⟩
      (by intro j hj; rw [vmem]; exact hmx j hj) (by intro j hj; rw [vmem]; exact hmy j hj)
    obtain ⟨s', hrun, hfr, htrap, hz, hother⟩ := hl
    refine ⟨s', ?_, ?_, ?_, hz, ?_⟩
    · show run program ((x :: rest).length + 1 + 1) _ s = _
      rw [run_goto _ _ _ _ hnext, hprog]
      exact hrun
    · rw [hfr, vfr]
    · rw [htrap, vtrap]
    · intro a ha; rw [hother a ha, vmem]

/-- The 4×-unrolled loop `U2` from index `i` on (`k = xs.length ≥ 4` words left), followed by the
    tail. -/
theorem sub10VV_U2_loop (zp xp yp n : Nat) :
    ∀ (k : Nat) (xs ys : List Nat) (i : Nat) (s : St) (c : Nat),
      xs.length = k → 4 ≤ k → ys.length = xs.length → i + xs.length ≤ n →
      (∀ x, x ∈ xs → x < 10000000000000000000) → (∀ y, y ∈ ys → y < 10000000000000000000) →
      c ≤ 1 → s.cx = mask c → s.si = i → s.di = xs.length - 4 → VVCtx s zp xp yp n 10000000000000000000 →
      (∀ j, j < xs.length → s.mem.rd (xp + 8 * (i + j)) = xs.getD j 0) →
      (∀ j, j < xs.length → s.mem.rd (yp + 8 * (i + j)) = ys.getD j 0) →
      ∃ s', run program (vvFuel xs.length) Lbl.sub10VV_U2 s = some s' ∧
        s'.frame = s.frame.wr 72 (subVV xs ys c).2 ∧ s'.trap = s.trap ∧
        (∀ j, j < xs.length → s'.mem.rd (zp + 8 * (i + j)) = (subVV xs ys c).1.getD j 0) ∧
        (∀ a, (∀ j, j < xs.length → a ≠ zp + 8 * (i + j)) → s'.mem.rd a = s.mem.rd a) := by
  intro k
  induction k using Nat.strongRecOn with
  | _ k ih =>
    intro xs ys i s c hk h4 hlen hin hxs hys hc hcx hsi hdi ctx hmx hmy
    -- split off four words
    obtain ⟨x0, x1, x2, x3, rest, rfl⟩ := list_four xs (by omega)
    obtain ⟨y0, y1, y2, y3, yrest, rfl⟩ := list_four ys (by omega)
    have hlen' : yrest.length = rest.length := by simpa using hlen
    have hkk : (x0 :: x1 :: x2 :: x3 :: rest).length = rest.length + 4 := rfl
    rw [hkk] at hdi hmx hmy hin
    have bx0 := hxs x0 (by simp)
    have bx1 := hxs x1 (by simp)
    have bx2 := hxs x2 (by simp)
    have bx3 := hxs x3 (by simp)
    have by0 := hys y0 (by simp)
    have by1 := hys y1 (by simp)
    have by2 := hys y2 (by simp)
    have by3 := hys y3 (by simp)
    obtain ⟨c8, c9, c10, cdx, cn60, cxw, cyw, czw, calx, caly⟩ := ctx
    -- addresses
    have ax0 : (s.r8 + 8 * s.si) % W = xp + 8 * (i + 0) := by rw [c8, hsi]; simp only [W_eq]; omega
    have ax1 : (s.r8 + 8 * s.si + 8) % W = xp + 8 * (i + 1) := by rw [c8, hsi]; simp only [W_eq]; omega
    have ax2 : (s.r8 + 8 * s.si + 16) % W = xp + 8 * (i + 2) := by rw [c8, hsi]; simp only [W_eq]; omega
    have ax3 : (s.r8 + 8 * s.si + 24) % W = xp + 8 * (i + 3) := by rw [c8, hsi]; simp only [W_eq]; omega
    have ay0 : (s.r9 + 8 * s.si) % W = yp + 8 * (i + 0) := by rw [c9, hsi]; simp only [W_eq]; omega
    have ay1 : (s.r9 + 8 * s.si + 8) % W = yp + 8 * (i + 1) := by rw [c9, hsi]; simp only [W_eq]; omega
    have ay2 : (s.r9 + 8 * s.si + 16) % W = yp + 8 * (i + 2) := by rw [c9, hsi]; simp only [W_eq]; omega
    have ay3 : (s.r9 + 8 * s.si + 24) % W = yp + 8 * (i + 3) := by rw [c9, hsi]; simp only [W_eq]; omega
    have az0 : (s.r10 + 8 * s.si) % W = zp + 8 * i := by rw [c10, hsi]; simp only [W_eq]; omega
    have az1 : (s.r10 + 8 * s.si + 8) % W = zp + 8 * (i + 1) := by rw [c10, hsi]; simp only [W_eq]; omega
    have az2 : (s.r10 + 8 * s.si + 16) % W = zp + 8 * (i + 2) := by rw [c10, hsi]; simp only [W_eq]; omega
    have az3 : (s.r10 + 8 * s.si + 24) % W = zp + 8 * (i + 3) := by rw [c10, hsi]; simp only [W_eq]; omega
    have hb := blk_sub10VV_U2_spec s c x0 x1 x2 x3 y0 y1 y2 y3 hc hcx cdx
      (by rw [ax0, hmx 0 (by omega)]; rfl) (by rw [ay0, hmy 0 (by omega)]; rfl)
      (by rw [ax1, hmx 1 (by omega)]; rfl) (by rw [ay1, hmy 1 (by omega)]; rfl)
      (by rw [ax2, hmx 2 (by omega)]; rfl) (by rw [ay2, hmy 2 (by omega)]; rfl)
      (by rw [ax3, hmx 3 (by omega)]; rfl) (by rw [ay3, hmy 3 (by omega)]; rfl)
      bx0 by0 bx1 by1 bx2 by2 bx3 by3 (by omega) (by omega)
    simp only [] at hb
    -- the four Go steps are the four mathematical steps
    have q0 := sub10WWW_g_eq x0 y0 c bx0 by0 hc
    have c0 : (if x0 < y0 + c then 1 else 0) ≤ 1 := ite_le_one _
    rw [q0] at hb
    simp only [] at hb
    have q1 := sub10WWW_g_eq x1 y1 _ bx1 by1 c0
    have c1 : (if x1 < y1 + (if x0 < y0 + c then 1 else 0) then 1 else 0) ≤ 1 := ite_le_one _
    rw [q1] at hb
    simp only [] at hb
    have q2 := sub10WWW_g_eq x2 y2 _ bx2 by2 c1
    have c2 : (if x2 < y2 + (if x1 < y1 + (if x0 < y0 + c then 1 else 0) then 1 else 0) then 1 else 0) ≤ 1 :=
      ite_le_one _
    rw [q2] at hb
    simp only [] at hb
    have q3 := sub10WWW_g_eq x3 y3 _ bx3 by3 c2
    rw [q3, az0, az1, az2, az3] at hb
    simp only [] at hb
    generalize hc1 : (if x0 < y0 + c then 1 else 0) = cc1 at *
    generalize hc2 : (if x1 < y1 + cc1 then 1 else 0) = cc2 at *
    generalize hc3 : (if x2 < y2 + cc2 then 1 else 0) = cc3 at *
    have c3 : (if x3 < y3 + cc3 then 1 else 0) ≤ 1 := ite_le_one _
    obtain ⟨bcx, bmem, bdx, bsi, bdi, b8, b9, b10, bfr, btrap, bnext⟩ := hb
    have hprog : program Lbl.sub10VV_U2 s = blk_sub10VV_U2 s := rfl
    have hadd : subVV (x0 :: x1 :: x2 :: x3 :: rest) (y0 :: y1 :: y2 :: y3 :: yrest) c =
        ((if x0 < y0 + c then x0 + 10000000000000000000 - y0 - c else x0 - y0 - c) :: (if x1 < y1 + cc1 then x1 + 10000000000000000000 - y1 - cc1 else x1 - y1 - cc1) ::
          (if x2 < y2 + cc2 then x2 + 10000000000000000000 - y2 - cc2 else x2 - y2 - cc2) :: (if x3 < y3 + cc3 then x3 + 10000000000000000000 - y3 - cc3 else x3 - y3 - cc3) ::
          (subVV rest yrest ((if x3 < y3 + cc3 then 1 else 0))).1,
         (subVV rest yrest ((if x3 < y3 + cc3 then 1 else 0))).2) := by
      simp only [subVV, hc1, hc2, hc3]
    rw [hadd]
    -- memory seen by the rest of the routine
    have hrestx : ∀ j, j < rest.length → (blk_sub10VV_U2 s).1.mem.rd (xp + 8 * (i + 4 + j)) = rest.getD j 0 := by
      intro j hj
      rw [bmem, Mem.rd_wr_ne _ _ _ _ (by omega), Mem.rd_wr_ne _ _ _ _ (by omega),
        Mem.rd_wr_ne _ _ _ _ (by omega), Mem.rd_wr_ne _ _ _ _ (by omega)]
      have := hmx (j + 4) (by omega)
      rw [show i + (j + 4) = i + 4 + j by omega] at this
      rw [this]; rfl
    have hresty : ∀ j, j < rest.length → (blk_sub10VV_U2 s).1.mem.rd (yp + 8 * (i + 4 + j)) = yrest.getD j 0 := by
      intro j hj
      rw [bmem, Mem.rd_wr_ne _ _ _ _ (by omega), Mem.rd_wr_ne _ _ _ _ (by omega),
        Mem.rd_wr_ne _ _ _ _ (by omega), Mem.rd_wr_ne _ _ _ _ (by omega)]
      have := hmy (j + 4) (by omega)
      rw [show i + (j + 4) = i + 4 + j by omega] at this
      rw [this]; rfl
    have hctx' : VVCtx (blk_sub10VV_U2 s).1 zp xp yp n 10000000000000000000 :=
      ⟨by rw [b8, c8], by rw [b9, c9], by rw [b10, c10], by rw [bdx, cdx], cn60, cxw, cyw, czw, calx, caly⟩
    -- continue: another unrolled round or the tail
    have hcont : ∃ s', run program (vvFuel rest.length)
          (if 4 ≤ rest.length then Lbl.sub10VV_U2 else Lbl.sub10VV_V2) (blk_sub10VV_U2 s).1 = some s' ∧
        s'.frame = (blk_sub10VV_U2 s).1.frame.wr 72 (subVV rest yrest ((if x3 < y3 + cc3 then 1 else 0))).2 ∧
        s'.trap = (blk_sub10VV_U2 s).1.trap ∧
        (∀ j, j < rest.length → s'.mem.rd (zp + 8 * (i + 4 + j)) =
          (subVV rest yrest ((if x3 < y3 + cc3 then 1 else 0))).1.getD j 0) ∧
        (∀ a, (∀ j, j < rest.length → a ≠ zp + 8 * (i + 4 + j)) → s'.mem.rd a = (blk_sub10VV_U2 s).1.mem.rd a) := by
      by_cases h4' : 4 ≤ rest.length
      · rw [if_pos h4']
        exact ih rest.length (by omega) rest yrest (i + 4) (blk_sub10VV_U2 s).1 _ rfl h4' hlen' (by omega)
          (fun z hz => hxs z (by simp [hz])) (fun z hz => hys z (by simp [hz])) c3 bcx
          (by rw [bsi, hsi]) (by rw [bdi, hdi, if_pos (by omega)]; omega) hctx' hrestx hresty
      · rw [if_neg h4']
        have hf : vvFuel rest.length = rest.length + 2 := by
          unfold vvFuel; omega
        rw [hf]
        exact sub10VV_tail zp xp yp n rest yrest (i + 4) (blk_sub10VV_U2 s).1 _ (by omega) hlen' (by omega)
          (fun z hz => hxs z (by simp [hz])) (fun z hz => hys z (by simp [hz])) c3 bcx
          (by rw [bsi, hsi]) (by rw [bdi, hdi, if_neg (by omega)]; omega) hctx' hrestx hresty
    obtain ⟨s', hrun, hfr, htrap, hz, hother⟩ := hcont
    have hnext : (program Lbl.sub10VV_U2 s).2 =
        Next.goto (if 4 ≤ rest.length then Lbl.sub10VV_U2 else Lbl.sub10VV_V2) := by
      rw [hprog, bnext, hdi]
      by_cases h4' : 4 ≤ rest.length
      · rw [if_pos (by omega), if_pos h4']
      · rw [if_neg (by omega), if_neg h4']
    refine ⟨s', ?_, ?_, ?_, ?_, ?_⟩
    · have hf : vvFuel (rest.length + 4) = vvFuel rest.length + 1 := by unfold vvFuel; omega
      rw [hkk, hf, run_goto _ _ _ _ hnext, hprog]
      exact hrun
    · rw [hfr, bfr]
    · rw [htrap, btrap]
    · intro j hj
      rw [hkk] at hj
      have hoth : ∀ t, t < 4 → s'.mem.rd (zp + 8 * (i + t)) = (blk_sub10VV_U2 s).1.mem.rd (zp + 8 * (i + t)) := by
        intro t ht
        exact hother _ (by intro k _; omega)
      match j with
      | 0 =>
        rw [hoth 0 (by omega), bmem, Nat.add_zero i, Mem.rd_wr_ne _ _ _ _ (by omega),
          Mem.rd_wr_ne _ _ _ _ (by omega), Mem.rd_wr_ne _ _ _ _ (by omega), Mem.rd_wr_eq]; rfl
      | 1 =>
        rw [hoth 1 (by omega), bmem, Mem.rd_wr_ne _ _ _ _ (by omega),
          Mem.rd_wr_ne _ _ _ _ (by omega), Mem.rd_wr_eq]; rfl
      | 2 =>
        rw [hoth 2 (by omega), bmem, Mem.rd_wr_ne _ _ _ _ (by omega), Mem.rd_wr_eq]; rfl
      | 3 =>
        rw [hoth 3 (by omega), bmem, Mem.rd_wr_eq]; rfl
      | j + 4 =>
        have := hz j (by omega)
        rw [show i + 4 + j = i + (j + 4) by omega] at this
        rw [this]; rfl
    · intro a ha
      rw [hkk] at ha
      rw [hother a (by
        intro k hk'
        have := ha (k + 4) (by omega)
        rw [show i + (k + 4) = i + 4 + k by omega] at this
        exact this), bmem,
        Mem.rd_wr_ne _ _ _ _ (ha 3 (by omega)), Mem.rd_wr_ne _ _ _ _ (ha 2 (by omega)),
        Mem.rd_wr_ne _ _ _ _ (ha 1 (by omega)), Mem.rd_wr_ne _ _ _ _ (by
          have h0 := ha 0 (by omega)
          rw [Nat.add_zero] at h0
          exact h0)]

/-- **`sub10VV`, every length.**  Frame describing `sub10VV(z, x, y)` with
    `len(z) = len(x) = len(y) = n`, all words `< 10^19`; `z` not above `x` and not above `y`
    (in particular `z = x` or `z = y`), or beyond their ends.  The routine returns after
    `n/4 + n%4 + 3` blocks with the carry in its result slot and `z` holding the words of the sum;
    nothing else in memory changes. -/
theorem sub10VV_correct (s : St) (xs ys : List Nat) (zp xp yp : Nat)
    (hf0 : s.frame.rd 0 = zp) (hf8 : s.frame.rd 8 = xs.length) (hf24 : s.frame.rd 24 = xp)
    (hf48 : s.frame.rd 48 = yp) (hlen : ys.length = xs.length)
    (hxs : ∀ x, x ∈ xs → x < 10000000000000000000) (hys : ∀ y, y ∈ ys → y < 10000000000000000000)
    (hn : xs.length < 1152921504606846976)
    (hxp : xp + 8 * xs.length ≤ 18446744073709551616) (hyp : yp + 8 * xs.length ≤ 18446744073709551616)
    (hzp : zp + 8 * xs.length ≤ 18446744073709551616)
    (halx : zp ≤ xp ∨ xp + 8 * xs.length ≤ zp) (haly : zp ≤ yp ∨ yp + 8 * xs.length ≤ zp)
    (hmx : ∀ j, j < xs.length → s.mem.rd (xp + 8 * j) = xs.getD j 0)
    (hmy : ∀ j, j < xs.length → s.mem.rd (yp + 8 * j) = ys.getD j 0) :
    ∃ s', run program (vvFuel xs.length + 1) Lbl.sub10VV_entry s = some s' ∧
      s'.frame = s.frame.wr 72 (subVV xs ys 0).2 ∧ s'.trap = s.trap ∧
      (∀ j, j < xs.length → s'.mem.rd (zp + 8 * j) = (subVV xs ys 0).1.getD j 0) ∧
      (∀ a, (∀ j, j < xs.length → a ≠ zp + 8 * j) → s'.mem.rd a = s.mem.rd a) := by
  obtain ⟨ecx, edx, esi, e8, e9, e10, emem, efr, etrap, edi, enext⟩ :=
    blk_sub10VV_entry_spec s xs.length hf8 (by omega)
  have hprog : program Lbl.sub10VV_entry s = blk_sub10VV_entry s := rfl
  have hctx : VVCtx (blk_sub10VV_entry s).1 zp xp yp xs.length 10000000000000000000 :=
    ⟨by rw [e8, hf24], by rw [e9, hf48], by rw [e10, hf0], edx, hn, hxp, hyp, hzp, halx, haly⟩
  have hcont : ∃ s', run program (vvFuel xs.length)
        (if xs.length < 4 then Lbl.sub10VV_V2 else Lbl.sub10VV_U2) (blk_sub10VV_entry s).1 = some s' ∧
      s'.frame = (blk_sub10VV_entry s).1.frame.wr 72 (subVV xs ys 0).2 ∧
      s'.trap = (blk_sub10VV_entry s).1.trap ∧
      (∀ j, j < xs.length → s'.mem.rd (zp + 8 * (0 + j)) = (subVV xs ys 0).1.getD j 0) ∧
      (∀ a, (∀ j, j < xs.length → a ≠ zp + 8 * (0 + j)) → s'.mem.rd a = (blk_sub10VV_entry s).1.mem.rd a) := by
    by_cases h4 : xs.length < 4
    · rw [if_pos h4]
      have hf : vvFuel xs.length = xs.length + 2 := by unfold vvFuel; omega
      rw [hf]
      exact sub10VV_tail zp xp yp xs.length xs ys 0 (blk_sub10VV_entry s).1 0 h4 hlen (by omega) hxs hys
        (by omega) ecx esi (by rw [edi, if_pos h4]) hctx
        (by intro j hj; rw [emem, Nat.zero_add]; exact hmx j hj)
        (by intro j hj; rw [emem, Nat.zero_add]; exact hmy j hj)
    · rw [if_neg h4]
      exact sub10VV_U2_loop zp xp yp xs.length xs.length xs ys 0 (blk_sub10VV_entry s).1 0 rfl (by omega) hlen
        (by omega) hxs hys (by omega) ecx esi (by rw [edi, if_neg h4]) hctx
        (by intro j hj; rw [emem, Nat.zero_add]; exact hmx j hj)
        (by intro j hj; rw [emem, Nat.zero_add]; exact hmy j hj)
  obtain ⟨s', hrun, hfr, htrap, hz, hother⟩ := hcont
  have hnext : (program Lbl.sub10VV_entry s).2 =
      Next.goto (if xs.length < 4 then Lbl.sub10VV_V2 else Lbl.sub10VV_U2) := by
    rw [hprog, enext]
    by_cases h4 : xs.length < 4
    · rw [if_pos h4, if_pos h4]
    · rw [if_neg h4, if_neg h4]
  refine ⟨s', ?_, ?_, ?_, ?_, ?_⟩
  · rw [run_goto _ _ _ _ hnext, hprog]
    exact hrun
  · rw [hfr, efr]
  · rw [htrap, etrap]
  · intro j hj
    have := hz j hj
    rw [Nat.zero_add] at this
    exact this
  · intro a ha
    rw [hother a (by intro j hj; rw [Nat.zero_add]; exact ha j hj), emem]

/-! ### addMul10VVW, every length -/

/-- `addMul10VVW`: `z = (z + x*y) mod B^n`, result `(z + x*y) / B^n`, word by word -/
def addMulVVW : List Nat → List Nat → Nat → Nat → List Nat × Nat
  | z :: zs, x :: xs, y, c =>
    let r := addMulVVW zs xs y ((x * y + z + c) / 10000000000000000000)
    ((x * y + z + c) % 10000000000000000000 :: r.1, r.2)
  | _, _, _, c => ([], c)

/-- value: `natOf z' + c'·B^n = natOf z + natOf x · y + c` -/
theorem addMulVVW_value (zs : List Nat) (y : Nat) : ∀ (xs : List Nat) (c : Nat), xs.length = zs.length →
    natOf (addMulVVW zs xs y c).1 + (addMulVVW zs xs y c).2 * B ^ zs.length = natOf zs + natOf xs * y + c := by
  induction zs with
  | nil =>
    intro xs c h
    cases xs with
    | nil => simp [addMulVVW, natOf]
    | cons x xs => simp at h
  | cons z zs ih =>
    intro xs c h
    cases xs with
    | nil => simp at h
    | cons x xs =>
      have hl : xs.length = zs.length := by simpa using h
      have h' := ih xs ((x * y + z + c) / 10000000000000000000) hl
      have hB : B = 10000000000000000000 := rfl
      simp only [addMulVVW, natOf, List.length_cons, Nat.pow_succ]
      rw [← hB] at h' ⊢
      have hdm := Nat.div_add_mod (x * y + z + c) B
      generalize (addMulVVW zs xs y ((x * y + z + c) / B)).1 = ws at *
      generalize (addMulVVW zs xs y ((x * y + z + c) / B)).2 = c' at *
      calc (x * y + z + c) % B + B * natOf ws + c' * (B ^ zs.length * B)
          = (x * y + z + c) % B + B * (natOf ws + c' * B ^ zs.length) := by
            rw [Nat.mul_add, Nat.mul_comm (B ^ zs.length) B, Nat.mul_left_comm, Nat.add_assoc]
        _ = (x * y + z + c) % B + B * (natOf zs + natOf xs * y + (x * y + z + c) / B) := by rw [h']
        _ = z + B * natOf zs + (x + B * natOf xs) * y + c := by
            rw [Nat.mul_add, Nat.mul_add, Nat.add_mul, Nat.mul_assoc]
            omega

/-- The loop `L11` from index `i` on: `zs`, `xs` are the words still to be processed. -/
theorem addMul10VVW_loop (y zp xp : Nat) (hy : y < 10000000000000000000) :
    ∀ (zs xs : List Nat) (i : Nat) (s : St) (c : Nat),
      zs ≠ [] → xs.length = zs.length →
      (∀ z, z ∈ zs → z < 10000000000000000000) → (∀ x, x ∈ xs → x < 10000000000000000000) →
      c < 10000000000000000000 →
      s.si = i → s.di = i + zs.length → s.di < 1152921504606846976 →
      s.r8 = xp → s.r10 = zp → s.r9 = y → s.r11 = c →
      xp + 8 * s.di ≤ 18446744073709551616 → zp + 8 * s.di ≤ 18446744073709551616 →
      (zp ≤ xp ∨ xp + 8 * s.di ≤ zp) →
      (∀ j, j < zs.length → s.mem.rd (xp + 8 * (i + j)) = xs.getD j 0) →
      (∀ j, j < zs.length → s.mem.rd (zp + 8 * (i + j)) = zs.getD j 0) →
      ∃ s', run program (zs.length + 1) Lbl.addMul10VVW_L11 s = some s' ∧
        s'.frame = s.frame.wr 56 (addMulVVW zs xs y c).2 ∧ s'.trap = s.trap ∧
        (∀ j, j < zs.length → s'.mem.rd (zp + 8 * (i + j)) = (addMulVVW zs xs y c).1.getD j 0) ∧
        (∀ a, (∀ j, j < zs.length → a ≠ zp + 8 * (i + j)) → s'.mem.rd a = s.mem.rd a) := by
  intro zs
  induction zs with
  | nil => intro xs i s c h; exact absurd rfl h
  | cons z rest ih =>
    intro xs i s c _ hlen hzs hxs hc hsi hdi hdi60 hr8 hr10 hr9 hr11 hxp hzp hal hmx hmz
    cases xs with
    | nil => simp at hlen
    | cons x xrest =>
    have hlen' : xrest.length = rest.length := by simpa using hlen
    have hzb : z < 10000000000000000000 := hzs z (List.mem_cons_self ..)
    have hxb : x < 10000000000000000000 := hxs x (List.mem_cons_self ..)
    have hk : (z :: rest).length = rest.length + 1 := rfl
    rw [hk] at hdi hmx hmz
    have hxa : (s.r8 + 8 * s.si) % W = xp + 8 * (i + 0) := by
      rw [hr8, hsi]; simp only [W_eq]; omega
    have hza : (s.r10 + 8 * s.si) % W = zp + 8 * i := by
      rw [hr10, hsi]; simp only [W_eq]; omega
    have hx : s.mem.rd ((s.r8 + 8 * s.si) % W) = x := by
      rw [hxa, hmx 0 (by omega)]; rfl
    have hz : s.mem.rd ((s.r10 + 8 * s.si) % W) = z := by
      rw [hza]; have := hmz 0 (by omega); rw [Nat.add_zero] at this; rw [this]; rfl
    have hb := blk_addMul10VVW_L11_spec s x z hx hz hxb hzb (by rw [hr9]; exact hy) (by rw [hr11]; exact hc)
      (by omega) (by omega)
    have hp : x * y ≤ 9999999999999999999 * 9999999999999999999 := Nat.mul_le_mul (by omega) (by omega)
    rw [goAddMulStep_eq x s.r9 z s.r11 hxb (by rw [hr9]; exact hy) hzb (by rw [hr11]; exact hc),
      hr9, hr11, hza] at hb
    simp only [] at hb
    obtain ⟨b11, bmem, bsi, bdi, b8, b9, b10, bfr, btrap, bnext⟩ := hb
    have hprog : program Lbl.addMul10VVW_L11 s = blk_addMul10VVW_L11 s := rfl
    have hc1 : (x * y + z + c) / 10000000000000000000 < 10000000000000000000 := by
      generalize x * y = p at *; omega
    cases rest with
    | nil =>
      have hx0 : xrest = [] := by
        cases xrest with
        | nil => rfl
        | cons a b => simp at hlen'
      subst hx0
      have hnext : (program Lbl.addMul10VVW_L11 s).2 = Next.goto Lbl.addMul10VVW_E11 := by
        rw [hprog, bnext, if_neg (by simp only [List.length_nil] at hdi; omega)]
      obtain ⟨efr, emem, etrap, enext⟩ := blk_addMul10VVW_E11_spec (blk_addMul10VVW_L11 s).1
      refine ⟨(blk_addMul10VVW_E11 (blk_addMul10VVW_L11 s).1).1, ?_, ?_, ?_, ?_, ?_⟩
      · show run program (0 + 1 + 1) _ s = _
        rw [run_goto _ _ _ _ hnext, hprog, run_ret' 0 Lbl.addMul10VVW_E11 _ enext]
        rfl
      · rw [efr, bfr, b11]; rfl
      · rw [etrap, btrap]
      · intro j hj
        have hj0 : j = 0 := by simp only [List.length_cons, List.length_nil] at hj; omega
        subst hj0
        rw [emem, bmem, Nat.add_zero i, Mem.rd_wr_eq]; rfl
      · intro a ha
        have h0 := ha 0 (by simp only [List.length_cons]; omega)
        rw [Nat.add_zero] at h0
        rw [emem, bmem, Mem.rd_wr_ne _ _ _ _ h0]
    | cons z2 r2 =>
      have hnext : (program Lbl.addMul10VVW_L11 s).2 = Next.goto Lbl.addMul10VVW_L11 := by
        rw [hprog, bnext, if_pos (by simp only [List.length_cons] at hdi; omega)]
      have ih' := ih xrest (i + 1) (blk_addMul10VVW_L11 s).1 ((x * y + z + c) / 10000000000000000000)
        (by intro h; cases h) hlen' (fun w hw => hzs w (List.mem_cons_of_mem _ hw))
        (fun w hw => hxs w (List.mem_cons_of_mem _ hw)) hc1
        (by rw [bsi, hsi]) (by rw [bdi, hdi]; omega) (by rw [bdi]; exact hdi60)
        (by rw [b8, hr8]) (by rw [b10, hr10]) b9 b11
        (by rw [bdi]; exact hxp) (by rw [bdi]; exact hzp) (by rw [bdi]; exact hal)
        (by
          intro j hj
          rw [bmem, Mem.rd_wr_ne _ _ _ _ (by omega)]
          have := hmx (j + 1) (by omega)
          rw [show i + (j + 1) = i + 1 + j by omega] at this
          rw [this]; rfl)
        (by
          intro j hj
          rw [bmem, Mem.rd_wr_ne _ _ _ _ (by omega)]
          have := hmz (j + 1) (by omega)
          rw [show i + (j + 1) = i + 1 + j by omega] at this
          rw [this]; rfl)
      obtain ⟨s', hrun, hfr, htrap, hzz, hother⟩ := ih'
      refine ⟨s', ?_, ?_, ?_, ?_, ?_⟩
      · show run program ((z2 :: r2).length + 1 + 1) _ s = _
        rw [run_goto _ _ _ _ hnext, hprog]
        exact hrun
      · rw [hfr, bfr]; rfl
      · rw [htrap, btrap]
      · intro j hj
        cases j with
        | zero =>
          rw [hother _ (by intro k _; omega), bmem, Nat.add_zero i, Mem.rd_wr_eq]; rfl
        | succ j =>
          have := hzz j (by simp only [List.length_cons] at hj ⊢; omega)
          rw [show i + 1 + j = i + (j + 1) by omega] at this
          rw [this]; rfl
      · intro a ha
        rw [hother a (by
          intro k hk'
          have := ha (k + 1) (by simp only [List.length_cons] at hk' ⊢; omega)
          rw [show i + (k + 1) = i + 1 + k by omega] at this
          exact this), bmem, Mem.rd_wr_ne _ _ _ _ (by
          have h0 := ha 0 (by simp only [List.length_cons]; omega)
          rw [Nat.add_zero] at h0
          exact h0)]

/-- **`addMul10VVW`, every length.**  Frame describing `addMul10VVW(z, x, y)` with
    `len(z) = len(x) = n`, all words and `y` `< 10^19`; `z` not above `x` or beyond its end.
    The routine returns after `n + 2` blocks with the carry word in its result slot and `z` holding
    the words of `z + x*y`; nothing else in memory changes. -/
theorem addMul10VVW_correct (s : St) (zs xs : List Nat) (y zp xp : Nat)
    (hf0 : s.frame.rd 0 = zp) (hf8 : s.frame.rd 8 = zs.length) (hf24 : s.frame.rd 24 = xp)
    (hf48 : s.frame.rd 48 = y) (hlen : xs.length = zs.length)
    (hzs : ∀ z, z ∈ zs → z < 10000000000000000000) (hxs : ∀ x, x ∈ xs → x < 10000000000000000000)
    (hy : y < 10000000000000000000) (hn : zs.length < 1152921504606846976)
    (hxp : xp + 8 * zs.length ≤ 18446744073709551616) (hzp : zp + 8 * zs.length ≤ 18446744073709551616)
    (hal : zp ≤ xp ∨ xp + 8 * zs.length ≤ zp)
    (hmx : ∀ j, j < zs.length → s.mem.rd (xp + 8 * j) = xs.getD j 0)
    (hmz : ∀ j, j < zs.length → s.mem.rd (zp + 8 * j) = zs.getD j 0) :
    ∃ s', run program (zs.length + 2) Lbl.addMul10VVW_entry s = some s' ∧
      s'.frame = s.frame.wr 56 (addMulVVW zs xs y 0).2 ∧ s'.trap = s.trap ∧
      (∀ j, j < zs.length → s'.mem.rd (zp + 8 * j) = (addMulVVW zs xs y 0).1.getD j 0) ∧
      (∀ a, (∀ j, j < zs.length → a ≠ zp + 8 * j) → s'.mem.rd a = s.mem.rd a) := by
  obtain ⟨esi, edi, e8, e9, e10, e11, emem, efr, etrap, enext⟩ :=
    blk_addMul10VVW_entry_spec s zs.length hf8 (by omega)
  have hprog : program Lbl.addMul10VVW_entry s = blk_addMul10VVW_entry s := rfl
  cases zs with
  | nil =>
    have hnext : (program Lbl.addMul10VVW_entry s).2 = Next.goto Lbl.addMul10VVW_E11 := by
      rw [hprog, enext]; rfl
    obtain ⟨xfr, xmem, xtrap, xnext⟩ := blk_addMul10VVW_E11_spec (blk_addMul10VVW_entry s).1
    refine ⟨(blk_addMul10VVW_E11 (blk_addMul10VVW_entry s).1).1, ?_, ?_, ?_, ?_, ?_⟩
    · show run program (0 + 1 + 1) _ s = _
      rw [run_goto _ _ _ _ hnext, hprog, run_ret' 0 Lbl.addMul10VVW_E11 _ xnext]
      rfl
    · rw [xfr, efr, e11]; rfl
    · rw [xtrap, etrap]
    · intro j hj; simp only [List.length_nil] at hj; omega
    · intro a _; rw [xmem, emem]
  | cons z rest =>
    have hnext : (program Lbl.addMul10VVW_entry s).2 = Next.goto Lbl.addMul10VVW_L11 := by
      rw [hprog, enext, if_neg (by simp only [List.length_cons]; omega)]
    have hl := addMul10VVW_loop y zp xp hy (z :: rest) xs 0 (blk_addMul10VVW_entry s).1 0
      (by intro h; cases h) hlen hzs hxs (by omega) esi (by rw [edi]; omega) (by rw [edi]; exact hn)
      (by rw [e8, hf24]) (by rw [e10, hf0]) (by rw [e9, hf48]) e11
      (by rw [edi]; exact hxp) (by rw [edi]; exact hzp) (by rw [edi]; exact hal)
      (by intro j hj; rw [emem, Nat.zero_add]; exact hmx j hj)
      (by intro j hj; rw [emem, Nat.zero_add]; exact hmz j hj)
    obtain ⟨s', hrun, hfr, htrap, hz, hother⟩ := hl
    refine ⟨s', ?_, ?_, ?_, ?_, ?_⟩
    · show run program ((z :: rest).length + 1 + 1) _ s = _
      rw [run_goto _ _ _ _ hnext, hprog]
      exact hrun
    · rw [hfr, efr]
    · rw [htrap, etrap]
    · intro j hj
      have := hz j hj
      rw [Nat.zero_add] at this
      exact this
    · intro a ha
      rw [hother a (by intro j hj; rw [Nat.zero_add]; exact ha j hj), emem]

end Decimal.Asm
