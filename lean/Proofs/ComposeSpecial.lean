/-
  Composition lemmas for C04b: the rounding hypotheses `hX hY hU` of `add_special` `sub_special`
  `fma_special` (Proofs/Special.lean) discharged with `set_correct` / `round_correct'`
  (Proofs/ArithOps.lean), and the special-value theorems glued with the finite × finite theorems
  of C01 / C03 into statements covering every class of operand.
-/
import Proofs.Special
import Proofs.Fma
import Properties.C01
import Properties.C03
import Properties.C03b

namespace Decimal

open Spec

/-- The precision after the prologue (two spellings). -/
theorem prologue_prec_eq_effPrec2 (z x y : Dec) :
    (prologue z (umax x.prec y.prec)).prec = effPrec2 z x y := by
  rw [prologue_prec]; unfold effPrec2
  by_cases h : z.prec = 0 <;> simp [h]

theorem prologue_prec_eq_effPrec3 (z x y u : Dec) :
    (prologue z (umax (umax x.prec y.prec) u.prec)).prec = effPrec3 z x y u := by
  rw [prologue_prec]; unfold effPrec3
  by_cases h : z.prec = 0 <;> simp [h]

theorem prologue_prec_pos (z : Dec) {P : Nat} (hP : 1 ≤ P) : 1 ≤ (prologue z P).prec := by
  rw [prologue_prec]; split <;> omega

theorem le_umax_left' (a b : Nat) : a ≤ umax a b := by unfold umax; split <;> omega
theorem le_umax_right' (a b : Nat) : b ≤ umax a b := by unfold umax; split <;> omega

/-- The delegated `Set` of a canonical finite operand into the receiver after the prologue is the
    specification rounding at the receiver's precision: this is `hX` / `hY` / `hU`. -/
theorem set_prologue_agrees (z x : Dec) (P : Nat) (hx : Canon x) (hP : x.prec ≤ P) :
    agrees (set (prologue z P) x false)
      (Spec.round z.mode (prologue z P).prec x.neg (x.mant : Rat) (x.exp - (x.len * DW : Nat))) = true := by
  have h := (set_correct (prologue z P) x hx).1
  have hp1 : 1 ≤ (prologue z P).prec := prologue_prec_pos z (Nat.le_trans hx.1.prec_pos hP)
  have he : effPrec1 (prologue z P) x = (prologue z P).prec := by
    unfold effPrec1
    rw [if_neg (by simp; omega)]
  rw [he, prologue_mode] at h
  exact h

/-- `±0 − y`: the negated copy of `y` rounded by `round`. -/
theorem round_negcopy_agrees (z y : Dec) (P : Nat) (hy : FinCanon y) (hP : y.prec ≤ P) :
    agrees (round { prologue z P with
        acc := Exact, form := .finite, neg := !y.neg, exp := y.exp, mant := y.mant, len := y.len } false)
      (Spec.round z.mode (prologue z P).prec (!y.neg) (y.mant : Rat) (y.exp - (y.len * DW : Nat))) = true := by
  have hp1 : 1 ≤ (prologue z P).prec := prologue_prec_pos z (Nat.le_trans hy.prec_pos hP)
  have hm : (prologue z P).mode = z.mode := prologue_mode z P
  generalize prologue z P = z' at hm hp1 ⊢
  rw [← hm]
  exact (round_correct' { z' with
      acc := Exact, form := .finite, neg := !y.neg, exp := y.exp, mant := y.mant, len := y.len }
    rfl hy.len_pos hy.nd hp1 hy.exp_ge hy.exp_le).1

/-! ### Add, Sub with a special operand, no rounding hypothesis -/

theorem add_special_canon (z x y : Dec) (hnf : x.form ≠ .finite ∨ y.form ≠ .finite)
    (hx : x.form = .finite → Canon x) (hy : y.form = .finite → Canon y) :
    specMatch (add z x y)
      (addSV z.mode (prologue z (umax x.prec y.prec)).prec (ofDec x) (ofDec y)) :=
  add_special z x y hnf
    (fun hf _ => set_prologue_agrees z x _ (hx hf) (le_umax_left' _ _))
    (fun _ hf => set_prologue_agrees z y _ (hy hf) (le_umax_right' _ _))

theorem sub_special_canon (z x y : Dec) (hnf : x.form ≠ .finite ∨ y.form ≠ .finite)
    (hx : x.form = .finite → Canon x) (hy : y.form = .finite → FinCanon y) :
    specMatch (sub z x y)
      (subSV z.mode (prologue z (umax x.prec y.prec)).prec (ofDec x) (ofDec y)) :=
  sub_special z x y hnf
    (fun hf _ => set_prologue_agrees z x _ (hx hf) (le_umax_left' _ _))
    (fun _ hf => round_negcopy_agrees z y _ (hy hf) (le_umax_right' _ _))

theorem fma_special_canon (z x y u : Dec) (hxy : x.form ≠ .finite ∨ y.form ≠ .finite)
    (hu : u.form = .finite → Canon u) :
    specMatch (fma z x y u)
      (fmaSV z.mode (prologue z (umax (umax x.prec y.prec) u.prec)).prec (ofDec x) (ofDec y) (ofDec u)) :=
  fma_special z x y u hxy
    (fun _ _ hf => set_prologue_agrees z u _ (hu hf) (le_umax_right' _ _))

/-! ### Every class of operand at once -/

theorem specMatch_of_correct {r : Dec × Outcome} {s : Option SRes}
    (h : ∃ v, s = some v ∧ agrees r.1 v = true ∧ r.2 = .ok) : specMatch r s := by
  obtain ⟨v, h1, h2, h3⟩ := h
  rw [h1]; exact ⟨h3, h2⟩

/-- `Add` on any two operands (finite ones canonical) realises IEEE addition. -/
theorem add_ieee (z x y : Dec) (hx : x.form = .finite → Canon x) (hy : y.form = .finite → Canon y) :
    specMatch (add z x y) (addSV z.mode (effPrec2 z x y) (ofDec x) (ofDec y)) := by
  by_cases hf : x.form = .finite ∧ y.form = .finite
  · obtain ⟨r, h1, h2, h3, -⟩ := C01.add_correct z x y (hx hf.1).1 (hy hf.2).1
    exact specMatch_of_correct ⟨r, h1, h2, h3⟩
  · rw [← prologue_prec_eq_effPrec2]
    exact add_special_canon z x y (by
      by_cases h1 : x.form = .finite
      · exact Or.inr (fun h2 => hf ⟨h1, h2⟩)
      · exact Or.inl h1) hx hy

theorem sub_ieee (z x y : Dec) (hx : x.form = .finite → Canon x) (hy : y.form = .finite → FinCanon y) :
    specMatch (sub z x y) (subSV z.mode (effPrec2 z x y) (ofDec x) (ofDec y)) := by
  by_cases hf : x.form = .finite ∧ y.form = .finite
  · obtain ⟨r, h1, h2, h3, -⟩ := C01.sub_correct z x y (hx hf.1).1 (hy hf.2)
    exact specMatch_of_correct ⟨r, h1, h2, h3⟩
  · rw [← prologue_prec_eq_effPrec2]
    exact sub_special_canon z x y (by
      by_cases h1 : x.form = .finite
      · exact Or.inr (fun h2 => hf ⟨h1, h2⟩)
      · exact Or.inl h1) hx hy

theorem mul_ieee (z x y : Dec) (hx : x.form = .finite → FinCanon x) (hy : y.form = .finite → FinCanon y) :
    specMatch (mul z x y) (mulSV z.mode (effPrec2 z x y) (ofDec x) (ofDec y)) := by
  by_cases hf : x.form = .finite ∧ y.form = .finite
  · obtain ⟨r, h1, h2, h3, -⟩ := C01.mul_correct z x y (hx hf.1) (hy hf.2)
    exact specMatch_of_correct ⟨r, h1, h2, h3⟩
  · rw [← prologue_prec_eq_effPrec2]
    exact mul_special z x y (by
      by_cases h1 : x.form = .finite
      · exact Or.inr (fun h2 => hf ⟨h1, h2⟩)
      · exact Or.inl h1)

theorem quo_ieee (z x y : Dec) (hx : x.form = .finite → FinCanon x) (hy : y.form = .finite → FinCanon y) :
    specMatch (quo z x y) (quoSV z.mode (effPrec2 z x y) (ofDec x) (ofDec y)) := by
  by_cases hf : x.form = .finite ∧ y.form = .finite
  · obtain ⟨r, h1, h2, h3, -⟩ := C01.quo_correct z x y (hx hf.1) (hy hf.2)
    exact specMatch_of_correct ⟨r, h1, h2, h3⟩
  · rw [← prologue_prec_eq_effPrec2]
    exact quo_special z x y (by
      by_cases h1 : x.form = .finite
      · exact Or.inr (fun h2 => hf ⟨h1, h2⟩)
      · exact Or.inl h1)

/-- The scratch product of `FMA` is finite when it has at most `MaxPrec` significant digits and its
    exponent is in range: the hypothesis `hfin` of `fma_inf_addend`. -/
theorem fma_scratch_finite (z' x y : Dec) (hfit : ProdFits x y)
    (hmin : MinExp ≤ intExp x + intExp y + (ndigits (x.mant * y.mant) : Int))
    (hmax : intExp x + intExp y + (ndigits (x.mant * y.mant) : Int) ≤ MaxExp) :
    (umul { z' with neg := x.neg != y.neg, prec := MaxPrec } x y).form = .finite := by
  have h := umul_scratch z' x y hfit hmin hmax
  have e : ({ z' with neg := x.neg != y.neg, prec := MaxPrec } : Dec)
      = ⟨z'.form, x.neg != y.neg, z'.mant, z'.len, z'.exp, MaxPrec, z'.mode, z'.acc⟩ := rfl
  rw [e, h]
  exact (roundTrim_fields (fmaRaw z' x y)).1

/-- `FMA` on any three operands (finite ones canonical). For finite factors the two hypotheses of
    C03b `fma_correct` are kept (`hfit`: the product has at most `MaxPrec` significant digits; `hmin hmax`: its
    exponent is in range — outside it the model DISAGREES with the specification, see C04
    `fma_inf_addend_partial`). -/
theorem fma_ieee_partial (z x y u : Dec) (hx : x.form = .finite → FinCanon x)
    (hy : y.form = .finite → FinCanon y) (hu : u.form = .finite → Canon u)
    (hfit : x.form = .finite → y.form = .finite → ProdFits x y)
    (hmin : x.form = .finite → y.form = .finite →
      MinExp ≤ intExp x + intExp y + (ndigits (x.mant * y.mant) : Int))
    (hmax : x.form = .finite → y.form = .finite →
      intExp x + intExp y + (ndigits (x.mant * y.mant) : Int) ≤ MaxExp) :
    specMatch (fma z x y u) (fmaSV z.mode (effPrec3 z x y u) (ofDec x) (ofDec y) (ofDec u)) := by
  by_cases hf : x.form = .finite ∧ y.form = .finite
  · obtain ⟨hfx, hfy⟩ := hf
    cases hfu : u.form
    · -- u = ±0: FMA is Mul
      obtain ⟨e1, e2⟩ := fma_zero_addend z x y u hfx hfy hfu (effPrec3 z x y u)
      rw [e1, e2]
      have h := mul_ieee (prologue z (umax (umax x.prec y.prec) u.prec)) x y hx hy
      have hp : effPrec2 (prologue z (umax (umax x.prec y.prec) u.prec)) x y = effPrec3 z x y u := by
        have hx1 := (hx hfx).prec_pos
        rw [← prologue_prec_eq_effPrec3]
        unfold effPrec2
        have : 1 ≤ (prologue z (umax (umax x.prec y.prec) u.prec)).prec :=
          prologue_prec_pos z (Nat.le_trans hx1
            (Nat.le_trans (le_umax_left' x.prec y.prec) (le_umax_left' _ _)))
        rw [if_neg (by simp; omega)]
      rw [hp, prologue_mode] at h
      exact h
    · obtain ⟨r, h1, h2, h3, -⟩ := C03b.fma_correct z x y u (hx hfx) (hy hfy)
        (hu hfu).1 (hfit hfx hfy) (hmin hfx hfy) (hmax hfx hfy)
      exact specMatch_of_correct ⟨r, h1, h2, h3⟩
    · exact fma_inf_addend z x y u hfx hfy hfu _
        (fma_scratch_finite _ x y (hfit hfx hfy) (hmin hfx hfy) (hmax hfx hfy))
  · rw [← prologue_prec_eq_effPrec3]
    exact fma_special_canon z x y u (by
      by_cases h1 : x.form = .finite
      · exact Or.inr (fun h2 => hf ⟨h1, h2⟩)
      · exact Or.inl h1) hu

end Decimal
