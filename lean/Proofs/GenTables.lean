/-
  Theorems about the tables and table-driven word functions REGENERATED from the Go sources.
-/
import Proofs.GenWordOps
import Mathlib.Tactic.IntervalCases
import Mathlib.Tactic.NormNum

set_option linter.unnecessarySeqFocus false
namespace Decimal.Gen

theorem consts_ok : c_W = 64 ∧ c_DW = 19 ∧ c_DB = 10 ^ 19 ∧ c_DMax = 10 ^ 19 - 1 ∧ c_DWb = 64 ∧ c_S = 8 ∧
    c_MaxExp = 2147483647 ∧ c_MinExp = -2147483648 ∧ c_MaxPrec = 4294967295 ∧ c_DefaultDecimalPrec = 34 ∧
    c_divRecursiveThreshold = 100 := by decide

theorem enums_ok : c_ToNearestEven = 0 ∧ c_ToNearestAway = 1 ∧ c_ToZero = 2 ∧ c_AwayFromZero = 3 ∧
    c_ToNegativeInf = 4 ∧ c_ToPositiveInf = 5 ∧ c_zero = 0 ∧ c_finite = 1 ∧ c_inf = 2 ∧
    c_Below = -1 ∧ c_Exact = 0 ∧ c_Above = 1 ∧ c_decimalGobVersion = 1 := by decide

theorem pow10tab_ok : pow10tab = (List.range 20).map (10 ^ ·) := by decide

theorem pow5tab_ok : pow5tab = (List.range 28).map (5 ^ ·) := by decide

theorem pow10DivTab64_len_ok : pow10DivTab64.length = 18 := by decide

/-! One theorem per row of `pow10DivTab64`: the magic multiplication divides every 64-bit word
    by `10^k` exactly. -/

theorem magicRow1_ok (n : Nat) (hn : n < 18446744073709551616) :
    magic_div magicRow1 n = (n / 10, n % 10) := by
  have hq : n / 2 ^ magicRow1.pre * magicRow1.m / 18446744073709551616 / 2 ^ magicRow1.post = n / 10 := by
    simp only [magicRow1]; omega
  have hd : magicRow1.d = 10 := rfl
  unfold magic_div
  simp only [W_eq, hq, hd]
  ext <;> simp only [] <;> omega

theorem magicRow2_ok (n : Nat) (hn : n < 18446744073709551616) :
    magic_div magicRow2 n = (n / 100, n % 100) := by
  have hq : n / 2 ^ magicRow2.pre * magicRow2.m / 18446744073709551616 / 2 ^ magicRow2.post = n / 100 := by
    simp only [magicRow2]; omega
  have hd : magicRow2.d = 100 := rfl
  unfold magic_div
  simp only [W_eq, hq, hd]
  ext <;> simp only [] <;> omega

theorem magicRow3_ok (n : Nat) (hn : n < 18446744073709551616) :
    magic_div magicRow3 n = (n / 1000, n % 1000) := by
  have hq : n / 2 ^ magicRow3.pre * magicRow3.m / 18446744073709551616 / 2 ^ magicRow3.post = n / 1000 := by
    simp only [magicRow3]; omega
  have hd : magicRow3.d = 1000 := rfl
  unfold magic_div
  simp only [W_eq, hq, hd]
  ext <;> simp only [] <;> omega

theorem magicRow4_ok (n : Nat) (hn : n < 18446744073709551616) :
    magic_div magicRow4 n = (n / 10000, n % 10000) := by
  have hq : n / 2 ^ magicRow4.pre * magicRow4.m / 18446744073709551616 / 2 ^ magicRow4.post = n / 10000 := by
    simp only [magicRow4]; omega
  have hd : magicRow4.d = 10000 := rfl
  unfold magic_div
  simp only [W_eq, hq, hd]
  ext <;> simp only [] <;> omega

theorem magicRow5_ok (n : Nat) (hn : n < 18446744073709551616) :
    magic_div magicRow5 n = (n / 100000, n % 100000) := by
  have hq : n / 2 ^ magicRow5.pre * magicRow5.m / 18446744073709551616 / 2 ^ magicRow5.post = n / 100000 := by
    simp only [magicRow5]; omega
  have hd : magicRow5.d = 100000 := rfl
  unfold magic_div
  simp only [W_eq, hq, hd]
  ext <;> simp only [] <;> omega

theorem magicRow6_ok (n : Nat) (hn : n < 18446744073709551616) :
    magic_div magicRow6 n = (n / 1000000, n % 1000000) := by
  have hq : n / 2 ^ magicRow6.pre * magicRow6.m / 18446744073709551616 / 2 ^ magicRow6.post = n / 1000000 := by
    simp only [magicRow6]; omega
  have hd : magicRow6.d = 1000000 := rfl
  unfold magic_div
  simp only [W_eq, hq, hd]
  ext <;> simp only [] <;> omega

theorem magicRow7_ok (n : Nat) (hn : n < 18446744073709551616) :
    magic_div magicRow7 n = (n / 10000000, n % 10000000) := by
  have hq : n / 2 ^ magicRow7.pre * magicRow7.m / 18446744073709551616 / 2 ^ magicRow7.post = n / 10000000 := by
    simp only [magicRow7]; omega
  have hd : magicRow7.d = 10000000 := rfl
  unfold magic_div
  simp only [W_eq, hq, hd]
  ext <;> simp only [] <;> omega

theorem magicRow8_ok (n : Nat) (hn : n < 18446744073709551616) :
    magic_div magicRow8 n = (n / 100000000, n % 100000000) := by
  have hq : n / 2 ^ magicRow8.pre * magicRow8.m / 18446744073709551616 / 2 ^ magicRow8.post = n / 100000000 := by
    simp only [magicRow8]; omega
  have hd : magicRow8.d = 100000000 := rfl
  unfold magic_div
  simp only [W_eq, hq, hd]
  ext <;> simp only [] <;> omega

theorem magicRow9_ok (n : Nat) (hn : n < 18446744073709551616) :
    magic_div magicRow9 n = (n / 1000000000, n % 1000000000) := by
  have hq : n / 2 ^ magicRow9.pre * magicRow9.m / 18446744073709551616 / 2 ^ magicRow9.post = n / 1000000000 := by
    simp only [magicRow9]; omega
  have hd : magicRow9.d = 1000000000 := rfl
  unfold magic_div
  simp only [W_eq, hq, hd]
  ext <;> simp only [] <;> omega

theorem magicRow10_ok (n : Nat) (hn : n < 18446744073709551616) :
    magic_div magicRow10 n = (n / 10000000000, n % 10000000000) := by
  have hq : n / 2 ^ magicRow10.pre * magicRow10.m / 18446744073709551616 / 2 ^ magicRow10.post = n / 10000000000 := by
    simp only [magicRow10]; omega
  have hd : magicRow10.d = 10000000000 := rfl
  unfold magic_div
  simp only [W_eq, hq, hd]
  ext <;> simp only [] <;> omega

theorem magicRow11_ok (n : Nat) (hn : n < 18446744073709551616) :
    magic_div magicRow11 n = (n / 100000000000, n % 100000000000) := by
  have hq : n / 2 ^ magicRow11.pre * magicRow11.m / 18446744073709551616 / 2 ^ magicRow11.post = n / 100000000000 := by
    simp only [magicRow11]; omega
  have hd : magicRow11.d = 100000000000 := rfl
  unfold magic_div
  simp only [W_eq, hq, hd]
  ext <;> simp only [] <;> omega

theorem magicRow12_ok (n : Nat) (hn : n < 18446744073709551616) :
    magic_div magicRow12 n = (n / 1000000000000, n % 1000000000000) := by
  have hq : n / 2 ^ magicRow12.pre * magicRow12.m / 18446744073709551616 / 2 ^ magicRow12.post = n / 1000000000000 := by
    simp only [magicRow12]; omega
  have hd : magicRow12.d = 1000000000000 := rfl
  unfold magic_div
  simp only [W_eq, hq, hd]
  ext <;> simp only [] <;> omega

theorem magicRow13_ok (n : Nat) (hn : n < 18446744073709551616) :
    magic_div magicRow13 n = (n / 10000000000000, n % 10000000000000) := by
  have hq : n / 2 ^ magicRow13.pre * magicRow13.m / 18446744073709551616 / 2 ^ magicRow13.post = n / 10000000000000 := by
    simp only [magicRow13]; omega
  have hd : magicRow13.d = 10000000000000 := rfl
  unfold magic_div
  simp only [W_eq, hq, hd]
  ext <;> simp only [] <;> omega

theorem magicRow14_ok (n : Nat) (hn : n < 18446744073709551616) :
    magic_div magicRow14 n = (n / 100000000000000, n % 100000000000000) := by
  have hq : n / 2 ^ magicRow14.pre * magicRow14.m / 18446744073709551616 / 2 ^ magicRow14.post = n / 100000000000000 := by
    simp only [magicRow14]; omega
  have hd : magicRow14.d = 100000000000000 := rfl
  unfold magic_div
  simp only [W_eq, hq, hd]
  ext <;> simp only [] <;> omega

theorem magicRow15_ok (n : Nat) (hn : n < 18446744073709551616) :
    magic_div magicRow15 n = (n / 1000000000000000, n % 1000000000000000) := by
  have hq : n / 2 ^ magicRow15.pre * magicRow15.m / 18446744073709551616 / 2 ^ magicRow15.post = n / 1000000000000000 := by
    simp only [magicRow15]; omega
  have hd : magicRow15.d = 1000000000000000 := rfl
  unfold magic_div
  simp only [W_eq, hq, hd]
  ext <;> simp only [] <;> omega

theorem magicRow16_ok (n : Nat) (hn : n < 18446744073709551616) :
    magic_div magicRow16 n = (n / 10000000000000000, n % 10000000000000000) := by
  have hq : n / 2 ^ magicRow16.pre * magicRow16.m / 18446744073709551616 / 2 ^ magicRow16.post = n / 10000000000000000 := by
    simp only [magicRow16]; omega
  have hd : magicRow16.d = 10000000000000000 := rfl
  unfold magic_div
  simp only [W_eq, hq, hd]
  ext <;> simp only [] <;> omega

theorem magicRow17_ok (n : Nat) (hn : n < 18446744073709551616) :
    magic_div magicRow17 n = (n / 100000000000000000, n % 100000000000000000) := by
  have hq : n / 2 ^ magicRow17.pre * magicRow17.m / 18446744073709551616 / 2 ^ magicRow17.post = n / 100000000000000000 := by
    simp only [magicRow17]; omega
  have hd : magicRow17.d = 100000000000000000 := rfl
  unfold magic_div
  simp only [W_eq, hq, hd]
  ext <;> simp only [] <;> omega

theorem magicRow18_ok (n : Nat) (hn : n < 18446744073709551616) :
    magic_div magicRow18 n = (n / 1000000000000000000, n % 1000000000000000000) := by
  have hq : n / 2 ^ magicRow18.pre * magicRow18.m / 18446744073709551616 / 2 ^ magicRow18.post = n / 1000000000000000000 := by
    simp only [magicRow18]; omega
  have hd : magicRow18.d = 1000000000000000000 := rfl
  unfold magic_div
  simp only [W_eq, hq, hd]
  ext <;> simp only [] <;> omega

/-- Row `k` of the table divides by `10^k`. -/
theorem pow10DivTab64_rows : pow10DivTab64 = [magicRow1, magicRow2, magicRow3, magicRow4, magicRow5, magicRow6, magicRow7,
    magicRow8, magicRow9, magicRow10, magicRow11, magicRow12, magicRow13, magicRow14, magicRow15, magicRow16, magicRow17,
    magicRow18] := rfl

theorem bitLen_bounds (x : Nat) (h0 : 0 < x) (hx : x < W) :
    1 ≤ bitLen x ∧ bitLen x ≤ 64 ∧ 2 ^ (bitLen x - 1) ≤ x ∧ x < 2 ^ bitLen x := by
  unfold bitLen
  rw [if_neg (by omega)]
  have h1 : 2 ^ x.log2 ≤ x := Nat.log2_self_le (by omega)
  have h2 : x < 2 ^ (x.log2 + 1) := Nat.lt_log2_self
  have h3 : x.log2 < 64 := (Nat.log2_lt (by omega)).2 (by simpa [W_eq] using hx)
  refine ⟨by omega, by omega, ?_, h2⟩
  simpa using h1

theorem decDigits64_spec (x : Nat) (hx : x < W) (h0 : 0 < x) :
    10 ^ (decDigits64 x - 1) ≤ x ∧ x < 10 ^ decDigits64 x := by
  obtain ⟨hl1, hl2, hl3, hl4⟩ := bitLen_bounds x h0 hx
  unfold decDigits64
  simp only []
  generalize bitLen x = L at *
  clear hx
  interval_cases L <;> simp only [pow2digitsTab, pow10tab, List.getD_cons_zero, List.getD_cons_succ, W_eq] <;> norm_num at hl3 hl4 ⊢ <;> split <;> omega

theorem trailingZeroDigits_spec (n : Nat) (h0 : 0 < n) (hn : n < W) :
    n % 10 ^ trailingZeroDigits n = 0 ∧ n / 10 ^ trailingZeroDigits n % 10 ≠ 0 := by
  simp only [W_eq] at hn
  unfold trailingZeroDigits
  simp only [W_eq]
  split <;> split <;> split <;> split <;> split <;> norm_num <;> omega

theorem decDigits64_zero : decDigits64 0 = 0 := by decide

theorem decDigits64_le (x : Nat) (hx : x < W) : decDigits64 x ≤ 20 := by
  rcases Nat.eq_zero_or_pos x with h | h
  · subst h; decide
  · have := (decDigits64_spec x hx h).1
    simp only [W_eq] at hx
    by_contra hc
    have h21 : 10 ^ 20 ≤ 10 ^ (decDigits64 x - 1) := Nat.pow_le_pow_right (by omega) (by omega)
    omega

/-- `nlz10`: number of leading zero digits of a decimal word. -/
theorem nlz10_spec (x : Nat) (hx : x < 10000000000000000000) : nlz10 x + decDigits64 x = 19 := by
  unfold nlz10 decDigits
  simp only [W_eq]
  rcases Nat.eq_zero_or_pos x with h | h
  · subst h; decide
  · have hs := decDigits64_spec x (by simp only [W_eq]; omega) h
    have hle : decDigits64 x ≤ 19 := by
      by_contra hc
      have h21 : 10 ^ 19 ≤ 10 ^ (decDigits64 x - 1) := Nat.pow_le_pow_right (by omega) (by omega)
      omega
    omega

end Decimal.Gen
