/-
  C07, assembly side, Tier C: whole-routine theorem for `shl10VU` (dec_arith_amd64.s:518), every
  length and every shift count `s ≤ 18`, against the list-level kernel `Decimal.L0.shl10VU`.

  No well-formedness hypothesis on the words is needed: the block lemmas hold for every 64-bit
  word and the formulas of the assembly coincide with those of `L0.shlLoop`.
-/
import Proofs.AsmLoops2
import DecimalModel.Vec

namespace Decimal.Asm

open Decimal.Gen (W W_eq Magic magic_div)
open Decimal.Gen.Asm

/-! ### The two table facts -/

/-- the divisor `10^(19-s)` of the model is the table row the assembly fetches -/
theorem shl_divisor_row (sh : Nat) : Decimal.L0.divisorPow10 (Decimal.Gen.c_DW - sh) = tabRow (18 - sh) := by
  show Decimal.Gen.pow10DivTab64.getD (19 - sh - 1) _ = Decimal.Gen.pow10DivTab64.getD (18 - sh) _
  rw [show 19 - sh - 1 = 18 - sh by omega]

/-- the multiplier `10^s` is fetched from the `d` column of row `s - 1` -/
theorem shl_mult_row (sh : Nat) (h1 : 1 ≤ sh) (h18 : sh ≤ 18) : (tabRow (sh - 1)).d = Decimal.L0.pow10w sh := by
  have h : ∀ k, k < 19 → 1 ≤ k → (tabRow (k - 1)).d = Decimal.L0.pow10w k := by decide
  exact h sh (by omega) h1

/-! ### The list-level loop -/

theorem shlLoop_cons (d : Magic) (m x : Nat) (xs : List Nat) (l : Nat) :
    Decimal.L0.shlLoop d m (x :: xs) l =
      Decimal.L0.shlLoop d m xs (magic_div d x).2 ++ [((l * m) % W + (magic_div d x).1) % W] := rfl

theorem shlLoop_length (d : Magic) (m : Nat) :
    ∀ (xs : List Nat) (l : Nat), (Decimal.L0.shlLoop d m xs l).length = xs.length + 1
  | [], _ => rfl
  | x :: xs, l => by
    rw [shlLoop_cons, List.length_append, shlLoop_length d m xs]; rfl

theorem shl10VU_nil (sh : Nat) : Decimal.L0.shl10VU [] sh = ([], 0) := by
  unfold Decimal.L0.shl10VU
  split <;> rfl

theorem shl10VU_zero (xs : List Nat) : Decimal.L0.shl10VU xs 0 = (xs, 0) := rfl

theorem shl10VU_pos (xs : List Nat) (sh top : Nat) (rest : List Nat) (h0 : sh ≠ 0)
    (hrev : xs.reverse = top :: rest) :
    Decimal.L0.shl10VU xs sh =
      (Decimal.L0.shlLoop (Decimal.L0.divisorPow10 (Decimal.Gen.c_DW - sh)) (Decimal.L0.pow10w sh) rest
          (magic_div (Decimal.L0.divisorPow10 (Decimal.Gen.c_DW - sh)) top).2,
        (magic_div (Decimal.L0.divisorPow10 (Decimal.Gen.c_DW - sh)) top).1) := by
  unfold Decimal.L0.shl10VU
  rw [if_neg h0, hrev]

/-! ### The loop `L8` -/

/-- `ws` are the words still to be divided, most significant first (`x[SI-1] … x[0]`); `l` (in AX)
    is the low part of the word above, `z[SI]` is the next word to be stored -/
theorem shl10VU_L8_run (zp xp n : Nat) (hal : xp ≤ zp ∨ zp + 8 * n ≤ xp) (row : Magic) (m : Nat)
    (hpre : row.pre < 64) (hpost : row.post < 64) :
    ∀ (ws : List Nat) (s : St) (l : Nat), ws ≠ [] → ws.length < n → s.si = ws.length → s.ax = l →
      s.r11 = m → s.r12 = row.d → s.r13 = row.m → s.cx = row.post + 256 * row.pre →
      CpCtx s zp xp n → HoldsR s.mem xp ws →
      ∃ s', run program (ws.length + 1) Lbl.shl10VU_L8 s = some s' ∧ s'.frame = s.frame ∧
        s'.trap = s.trap ∧ Wrote s.mem s'.mem zp 0 (Decimal.L0.shlLoop row m ws l) := by
  intro ws
  induction ws with
  | nil => intro s l h; exact absurd rfl h
  | cons w rest ih =>
    intro s l _ hin hsi hax h11 h12 h13 hcx ctx hx
    have hk : (w :: rest).length = rest.length + 1 := rfl
    rw [hk] at hin hsi
    obtain ⟨c8, c10, cn60, cxw, czw⟩ := ctx
    have hld : (W - 8 + s.r8 + 8 * s.si) % W = xp + 8 * rest.length := by
      rw [c8, hsi]; simp only [W_eq]; omega
    have hst : (s.r10 + 8 * s.si) % W = zp + 8 * (rest.length + 1) := by
      rw [c10, hsi]; simp only [W_eq]; omega
    obtain ⟨bax, bmem, bcx, bsi, b8, b10, b11, b12, b13, bfr, btrap, bnext⟩ :=
      blk_shl10VU_L8_spec s row w (by rw [hld]; exact hx.head) h12 h13 hcx hpre hpost (by omega) (by omega)
    rw [hst, hax, h11] at bmem
    have hprog : program Lbl.shl10VU_L8 s = blk_shl10VU_L8 s := rfl
    have hw1 : Wrote s.mem (blk_shl10VU_L8 s).1.mem zp
        (0 + (Decimal.L0.shlLoop row m rest (magic_div row w).2).length)
        [((l * m) % W + (magic_div row w).1) % W] := by
      rw [bmem, shlLoop_length, Nat.zero_add]; exact Wrote.cons (Wrote.nil _ _ _)
    rw [shlLoop_cons]
    cases rest with
    | nil =>
      have hnext : (program Lbl.shl10VU_L8 s).2 = Next.goto Lbl.shl10VU_X8a := by
        rw [hprog, bnext, if_neg (by simp only [List.length_nil] at hsi; omega)]
      obtain ⟨xmem, xfr, xtrap, xnext⟩ := blk_shl10VU_X8a_spec (blk_shl10VU_L8 s).1
      have hx0 : ((blk_shl10VU_L8 s).1.r10 + 8 * (blk_shl10VU_L8 s).1.si) % W = zp + 8 * 0 := by
        rw [b10, c10, bsi, hsi]; simp only [W_eq, List.length_nil]; omega
      rw [hx0, bax, b11, h11] at xmem
      refine ⟨(blk_shl10VU_X8a (blk_shl10VU_L8 s).1).1, ?_, by rw [xfr, bfr], by rw [xtrap, btrap], ?_⟩
      · exact run_step hnext (by rw [hprog]; exact run_done (l := Lbl.shl10VU_X8a) xnext)
      · refine Wrote.below hw1 ?_
        rw [xmem]
        exact Wrote.cons (Wrote.nil _ _ _)
    | cons x2 r2 =>
      have hnext : (program Lbl.shl10VU_L8 s).2 = Next.goto Lbl.shl10VU_L8 := by
        rw [hprog, bnext, if_pos (by simp only [List.length_cons] at hsi; omega)]
      obtain ⟨s', hrun, hfr, htrap, hw⟩ := ih (blk_shl10VU_L8 s).1 (magic_div row w).2 (by intro h; cases h)
        (by omega) (by rw [bsi, hsi]; omega) bax (by rw [b11, h11]) (by rw [b12, h12]) (by rw [b13, h13])
        (by rw [bcx, hcx]) ⟨by rw [b8, c8], by rw [b10, c10], cn60, cxw, czw⟩
        (by rw [bmem]; exact hx.tail.wr _ _ (by intro j hj; omega))
      refine ⟨s', ?_, by rw [hfr, bfr], by rw [htrap, btrap], ?_⟩
      · exact run_step hnext (by rw [hprog]; exact hrun)
      · exact Wrote.below hw1 hw

/-! ### From `entry_2` on: `1 ≤ s ≤ 18` -/

theorem shl10VU_entry_2_run (zp xp n sh : Nat) (hal : xp ≤ zp ∨ zp + 8 * n ≤ xp) (hsh1 : 1 ≤ sh)
    (hsh18 : sh ≤ 18) (top : Nat) (rest : List Nat) (s : St) (hn : rest.length + 1 = n) (hbx : s.bx = sh)
    (hsi : s.si = rest.length) (htab : TabAt s.mem (s.sym "pow10DivTab64"))
    (hbase : s.sym "pow10DivTab64" + 432 < 18446744073709551616)
    (ctx : CpCtx s zp xp n) (hx : HoldsR s.mem xp (top :: rest)) :
    ∃ s', run program (rest.length + 2) Lbl.shl10VU_entry_2 s = some s' ∧
      s'.frame = s.frame.wr 56 (magic_div (tabRow (18 - sh)) top).1 ∧ s'.trap = s.trap ∧
      Wrote s.mem s'.mem zp 0
        (Decimal.L0.shlLoop (tabRow (18 - sh)) (tabRow (sh - 1)).d rest (magic_div (tabRow (18 - sh)) top).2) := by
  obtain ⟨c8, c10, cn60, cxw, czw⟩ := ctx
  have hld : (s.r8 + 8 * s.si) % W = xp + 8 * rest.length := by
    rw [c8, hsi]; simp only [W_eq]; omega
  obtain ⟨b11, b12, b13, bcx, bax, bfr, bsi, b8, b10, bmem, btrap, bnext⟩ :=
    blk_shl10VU_entry_2_spec s sh top hbx hsh1 hsh18 htab hbase (by rw [hld]; exact hx.head)
  obtain ⟨hpre, hpost⟩ := tabRow_shifts (18 - sh) (by omega)
  have hprog : program Lbl.shl10VU_entry_2 s = blk_shl10VU_entry_2 s := rfl
  cases rest with
  | nil =>
    have hnext : (program Lbl.shl10VU_entry_2 s).2 = Next.goto Lbl.shl10VU_X8a := by
      rw [hprog, bnext, if_pos (by rw [hsi]; rfl)]
    obtain ⟨xmem, xfr, xtrap, xnext⟩ := blk_shl10VU_X8a_spec (blk_shl10VU_entry_2 s).1
    have hx0 : ((blk_shl10VU_entry_2 s).1.r10 + 8 * (blk_shl10VU_entry_2 s).1.si) % W = zp + 8 * 0 := by
      rw [b10, c10, bsi, hsi]; simp only [W_eq, List.length_nil]; omega
    rw [hx0, bax, b11, bmem] at xmem
    refine ⟨(blk_shl10VU_X8a (blk_shl10VU_entry_2 s).1).1, ?_, by rw [xfr, bfr], by rw [xtrap, btrap], ?_⟩
    · exact run_step hnext (by rw [hprog]; exact run_done (l := Lbl.shl10VU_X8a) xnext)
    · rw [xmem]
      exact Wrote.cons (Wrote.nil _ _ _)
  | cons x2 r2 =>
    have hnext : (program Lbl.shl10VU_entry_2 s).2 = Next.goto Lbl.shl10VU_L8 := by
      rw [hprog, bnext, if_neg (by rw [hsi]; simp only [List.length_cons]; omega)]
    obtain ⟨s', hrun, hfr, htrap, hw⟩ := shl10VU_L8_run zp xp n hal (tabRow (18 - sh)) (tabRow (sh - 1)).d
      hpre hpost (x2 :: r2) (blk_shl10VU_entry_2 s).1 (magic_div (tabRow (18 - sh)) top).2
      (by intro h; cases h) (by omega) (by rw [bsi, hsi]) bax b11 b12 b13 bcx
      ⟨by rw [b8, c8], by rw [b10, c10], cn60, cxw, czw⟩ (by rw [bmem]; exact hx.tail)
    refine ⟨s', ?_, by rw [hfr, bfr], by rw [htrap, btrap], ?_⟩
    · exact run_step hnext (by rw [hprog]; exact hrun)
    · rw [bmem] at hw; exact hw

/-! ### From `X8c` on: `s = 0`, a copy (or nothing at all when in place) -/

theorem shl10VU_X8c_run (zp xp : Nat) (xs : List Nat) (hal : xp ≤ zp ∨ zp + 8 * xs.length ≤ xp)
    (s : St) (hne : xs ≠ []) (hsi : s.si = xs.length - 1) (ctx : CpCtx s zp xp xs.length)
    (hx : Holds s.mem xp 0 xs) :
    ∃ s', run program (xs.length + 5) Lbl.shl10VU_X8c s = some s' ∧ s'.frame = s.frame.wr 56 0 ∧
      s'.trap = s.trap ∧ Wrote s.mem s'.mem zp 0 xs := by
  have hpos : 0 < xs.length := List.length_pos_iff.mpr hne
  obtain ⟨c8, c10, cn60, cxw, czw⟩ := ctx
  obtain ⟨bsi, b8, b10, bmem, bfr, btrap, bnext⟩ := blk_shl10VU_X8c_spec s (by omega) (by omega)
  have hprog : program Lbl.shl10VU_X8c s = blk_shl10VU_X8c s := rfl
  by_cases he : zp = xp
  · have hnext : (program Lbl.shl10VU_X8c s).2 = Next.goto Lbl.shl10VU_X8b := by
      rw [hprog, bnext, if_pos (by rw [c8, c10, he])]
    obtain ⟨xmem, xfr, xtrap, xnext⟩ := blk_shl10VU_X8b_spec (blk_shl10VU_X8c s).1
    refine ⟨(blk_shl10VU_X8b (blk_shl10VU_X8c s).1).1, ?_, by rw [xfr, bfr], by rw [xtrap, btrap], ?_⟩
    · exact run_le (run_step hnext (by rw [hprog]; exact run_done (l := Lbl.shl10VU_X8b) xnext)) (by omega)
    · rw [xmem, bmem, he]; exact Wrote.of_holds hx
  · have hnext : (program Lbl.shl10VU_X8c s).2 = Next.goto Lbl.shl10VU_X8c_1 := by
      rw [hprog, bnext, if_neg (by rw [c8, c10]; exact he)]
    obtain ⟨dsi, d8, d10, dmem, dfr, dtrap, dnext⟩ :=
      blk_shl10VU_X8c_1_spec (blk_shl10VU_X8c s).1 (by rw [bsi, hsi]; omega)
    have hprog1 : program Lbl.shl10VU_X8c_1 (blk_shl10VU_X8c s).1 = blk_shl10VU_X8c_1 (blk_shl10VU_X8c s).1 := rfl
    have hnext1 : (program Lbl.shl10VU_X8c_1 (blk_shl10VU_X8c s).1).2 = Next.goto Lbl.decCpyInv_entry := by
      rw [hprog1, dnext]
    obtain ⟨s', hrun, hfr, htrap, hw⟩ := decCpyInv_run zp xp xs.length hal xs.reverse
      (blk_shl10VU_X8c_1 (blk_shl10VU_X8c s).1).1 (by rw [List.length_reverse]; omega)
      (by rw [dsi, bsi, hsi, List.length_reverse]; omega)
      ⟨by rw [d8, b8, c8], by rw [d10, b10, c10], cn60, cxw, czw⟩
      (by rw [dmem, bmem]; exact hx.toR)
    rw [List.length_reverse] at hrun
    rw [List.reverse_reverse, dmem, bmem] at hw
    refine ⟨s', ?_, by rw [hfr, dfr, bfr], by rw [htrap, dtrap, btrap], hw⟩
    exact run_le (run_step hnext (by rw [hprog]; exact run_step hnext1 (by rw [hprog1]; exact hrun))) (by omega)

/-! ### The whole routine -/

/-- `shl10VU`, stated with `Wrote` -/
theorem shl10VU_run (s : St) (xs : List Nat) (sh zp xp : Nat)
    (hf0 : s.frame.rd 0 = zp) (hf8 : s.frame.rd 8 = xs.length) (hf24 : s.frame.rd 24 = xp)
    (hf48 : s.frame.rd 48 = sh) (hsh : sh ≤ 18)
    (htab : TabAt s.mem (s.sym "pow10DivTab64")) (hbase : s.sym "pow10DivTab64" + 432 < 18446744073709551616)
    (hn : xs.length < 1152921504606846976)
    (hxp : xp + 8 * xs.length ≤ 18446744073709551616) (hzp : zp + 8 * xs.length ≤ 18446744073709551616)
    (hal : xp ≤ zp ∨ zp + 8 * xs.length ≤ xp)
    (hX : Holds s.mem xp 0 xs) :
    ∃ s', run program (xs.length + 8) Lbl.shl10VU_entry s = some s' ∧
      s'.frame = s.frame.wr 56 (Decimal.L0.shl10VU xs sh).2 ∧ s'.trap = s.trap ∧
      Wrote s.mem s'.mem zp 0 (Decimal.L0.shl10VU xs sh).1 ∧
      (Decimal.L0.shl10VU xs sh).1.length = xs.length := by
  obtain ⟨esi, emem, efr, etrap, enext⟩ := blk_shl10VU_entry_spec s xs.length hf8 (by omega)
  have hp0 : program Lbl.shl10VU_entry s = blk_shl10VU_entry s := rfl
  cases hrev : xs.reverse with
  | nil =>
    have hxs : xs = [] := List.reverse_eq_nil_iff.mp hrev
    subst hxs
    have hnext : (program Lbl.shl10VU_entry s).2 = Next.goto Lbl.shl10VU_X8b := by
      rw [hp0, enext, if_pos (by simp only [List.length_nil]; omega)]
    obtain ⟨xmem, xfr, xtrap, xnext⟩ := blk_shl10VU_X8b_spec (blk_shl10VU_entry s).1
    rw [shl10VU_nil]
    refine ⟨(blk_shl10VU_X8b (blk_shl10VU_entry s).1).1, ?_, by rw [xfr, efr], by rw [xtrap, etrap], ?_, rfl⟩
    · exact run_le (run_step hnext (by rw [hp0]; exact run_done (l := Lbl.shl10VU_X8b) xnext)) (by omega)
    · rw [xmem, emem]; exact Wrote.nil _ _ _
  | cons top rest =>
    have hlen : xs.length = rest.length + 1 := by rw [← List.length_reverse, hrev]; rfl
    have hne : xs ≠ [] := by intro h; rw [h] at hlen; simp only [List.length_nil] at hlen; omega
    have hnext0 : (program Lbl.shl10VU_entry s).2 = Next.goto Lbl.shl10VU_entry_1 := by
      rw [hp0, enext, if_neg (by omega)]
    rw [if_neg (by omega)] at esi
    obtain ⟨fbx, f8, f10, fsi, fmem, ffr, ftrap, fnext⟩ := blk_shl10VU_entry_1_spec (blk_shl10VU_entry s).1
    rw [efr] at fbx f8 f10 ffr fnext
    rw [hf48] at fbx fnext
    rw [hf24] at f8
    rw [hf0] at f10
    rw [esi] at fsi
    rw [emem] at fmem
    rw [etrap] at ftrap
    have hp1 : program Lbl.shl10VU_entry_1 (blk_shl10VU_entry s).1 = blk_shl10VU_entry_1 (blk_shl10VU_entry s).1 := rfl
    have hsym : (blk_shl10VU_entry_1 (blk_shl10VU_entry s).1).1.sym = s.sym := rfl
    have hctx : CpCtx (blk_shl10VU_entry_1 (blk_shl10VU_entry s).1).1 zp xp xs.length := ⟨f8, f10, hn, hxp, hzp⟩
    by_cases h0 : sh = 0
    · subst h0
      have hnext1 : (program Lbl.shl10VU_entry_1 (blk_shl10VU_entry s).1).2 = Next.goto Lbl.shl10VU_X8c := by
        rw [hp1, fnext, if_pos rfl]
      obtain ⟨s', hrun, hfr, htrap, hw⟩ := shl10VU_X8c_run zp xp xs hal
        (blk_shl10VU_entry_1 (blk_shl10VU_entry s).1).1 hne fsi hctx (by rw [fmem]; exact hX)
      rw [shl10VU_zero]
      rw [fmem] at hw
      refine ⟨s', ?_, by rw [hfr, ffr], by rw [htrap, ftrap], hw, rfl⟩
      exact run_le (run_step hnext0 (by rw [hp0]; exact run_step hnext1 (by rw [hp1]; exact hrun))) (by omega)
    · have hnext1 : (program Lbl.shl10VU_entry_1 (blk_shl10VU_entry s).1).2 = Next.goto Lbl.shl10VU_entry_2 := by
        rw [hp1, fnext, if_neg h0]
      have hR : HoldsR s.mem xp (top :: rest) := by rw [← hrev]; exact hX.toR
      obtain ⟨s', hrun, hfr, htrap, hw⟩ := shl10VU_entry_2_run zp xp xs.length sh hal (by omega) hsh top rest
        (blk_shl10VU_entry_1 (blk_shl10VU_entry s).1).1 hlen.symm fbx (by rw [fsi, hlen]; omega)
        (by rw [hsym, fmem]; exact htab) (by rw [hsym]; exact hbase) hctx (by rw [fmem]; exact hR)
      rw [shl10VU_pos xs sh top rest h0 hrev, shl_divisor_row, ← shl_mult_row sh (by omega) hsh]
      rw [fmem] at hw
      refine ⟨s', ?_, by rw [hfr, ffr], by rw [htrap, ftrap], hw, by rw [shlLoop_length, hlen]⟩
      exact run_le (run_step hnext0 (by rw [hp0]; exact run_step hnext1 (by rw [hp1]; exact hrun))) (by omega)

/-- **`shl10VU`, every length, every shift count `≤ 18`**: the result digit in the frame, the
    destination vector, and nothing else changes.  `z` may be `x` itself, lie above `x`, or be
    entirely before it. -/
theorem shl10VU_correct (s : St) (xs : List Nat) (sh zp xp : Nat)
    (hf0 : s.frame.rd 0 = zp) (hf8 : s.frame.rd 8 = xs.length) (hf24 : s.frame.rd 24 = xp)
    (hf48 : s.frame.rd 48 = sh) (hsh : sh ≤ 18)
    (htab : TabAt s.mem (s.sym "pow10DivTab64")) (hbase : s.sym "pow10DivTab64" + 432 < 18446744073709551616)
    (hn : xs.length < 1152921504606846976)
    (hxp : xp + 8 * xs.length ≤ 18446744073709551616) (hzp : zp + 8 * xs.length ≤ 18446744073709551616)
    (hal : xp ≤ zp ∨ zp + 8 * xs.length ≤ xp)
    (hmem : ∀ j, j < xs.length → s.mem.rd (xp + 8 * j) = xs.getD j 0) :
    ∃ s', run program (xs.length + 8) Lbl.shl10VU_entry s = some s' ∧
      s'.frame = s.frame.wr 56 (Decimal.L0.shl10VU xs sh).2 ∧ s'.trap = s.trap ∧
      (∀ j, j < xs.length → s'.mem.rd (zp + 8 * j) = (Decimal.L0.shl10VU xs sh).1.getD j 0) ∧
      (∀ a, (∀ j, j < xs.length → a ≠ zp + 8 * j) → s'.mem.rd a = s.mem.rd a) := by
  have hX : Holds s.mem xp 0 xs := by
    intro j hj; rw [Nat.zero_add]; exact hmem j hj
  obtain ⟨s', hrun, hfr, htrap, ⟨hz, ho⟩, hlen⟩ :=
    shl10VU_run s xs sh zp xp hf0 hf8 hf24 hf48 hsh htab hbase hn hxp hzp hal hX
  refine ⟨s', hrun, hfr, htrap, ?_, ?_⟩
  · intro j hj
    have := hz j (by rw [hlen]; exact hj)
    rw [Nat.zero_add] at this
    exact this
  · intro a ha
    apply ho a
    intro j hj
    rw [Nat.zero_add]
    exact ha j (by rw [← hlen]; exact hj)

/-- the hypotheses are satisfiable: the table at address 4096, `x = z` (in place) at address 0 with
    three arbitrary 64-bit words (the top one is not even a valid base-10^19 digit), shift by 5 -/
def shlExampleSt : St :=
  { mem := listMem 4096 pow10DivTab64Words
      (listMem 0 [9999999999999999999, 1234567890123456789, 18446744073709551615] (fun _ => 0)),
    frame := fun a => if a = 8 then 3 else if a = 48 then 5 else 0,
    sym := fun _ => 4096 }

theorem shlExample_tab : TabAt shlExampleSt.mem (shlExampleSt.sym "pow10DivTab64") := by
  have h : ∀ k, k < 18 → shlExampleSt.mem.rd (4096 + 24 * k) = (tabRow k).d ∧
      shlExampleSt.mem.rd (4096 + 24 * k + 8) = (tabRow k).m ∧
      shlExampleSt.mem.rd (4096 + 24 * k + 16) % 65536 = (tabRow k).pre + 256 * (tabRow k).post := by
    decide
  exact h

example : ∃ s', run program 11 Lbl.shl10VU_entry shlExampleSt = some s' ∧
    s'.frame = shlExampleSt.frame.wr 56
      (Decimal.L0.shl10VU [9999999999999999999, 1234567890123456789, 18446744073709551615] 5).2 ∧
    s'.trap = shlExampleSt.trap ∧
    (∀ j, j < 3 → s'.mem.rd (0 + 8 * j) =
      (Decimal.L0.shl10VU [9999999999999999999, 1234567890123456789, 18446744073709551615] 5).1.getD j 0) ∧
    (∀ a, (∀ j, j < 3 → a ≠ 0 + 8 * j) → s'.mem.rd a = shlExampleSt.mem.rd a) :=
  shl10VU_correct shlExampleSt [9999999999999999999, 1234567890123456789, 18446744073709551615] 5 0 0
    rfl rfl rfl rfl (by omega) shlExample_tab (by decide) (by decide) (by decide) (by decide)
    (Or.inl (Nat.le_refl _)) (by decide)

end Decimal.Asm

#print axioms Decimal.Asm.shl10VU_correct
