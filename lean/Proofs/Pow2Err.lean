/-
  Error analysis of `pow2` (decimal_conv.go) beyond the exact regime: the square-and-multiply loop
  with every product rounded to nearest (the scratch Decimals are in the default mode).

  `mul_nearest`: one rounded product is within relative `relU P = 10^(1-P)/2` of the exact product.
  `pow2_apx`: for `64 ≤ n ≤ 7·10^9` and working precision `P ≥ 20`, `pow2 P n` is finite, positive,
  and holds `2^n · ρ` with `|ρ − 1| ≤ 141 · relU P`.
-/
import Proofs.ParseScale
import Mathlib.Tactic.GCongr
import Mathlib.Algebra.Order.Ring.Abs
import Mathlib.Algebra.Order.Field.Basic

namespace Decimal
open Spec

/-- half a unit in the last place of a `P`-digit coefficient, relative to the value (upper bound). -/
noncomputable def relU (P : Nat) : ℚ := (10 : ℚ) ^ (1 - (P : Int)) / 2

theorem relU_pos (P : Nat) : 0 < relU P := by
  unfold relU; have : (0 : ℚ) < (10 : ℚ) ^ (1 - (P : Int)) := zpow_pos (by norm_num) _; linarith

theorem relU_le {P Q : Nat} (h : Q ≤ P) : relU P ≤ relU Q := by
  unfold relU
  have : (10 : ℚ) ^ (1 - (P : Int)) ≤ (10 : ℚ) ^ (1 - (Q : Int)) :=
    zpow_le_zpow_right₀ (by norm_num) (by omega)
  linarith

theorem relU_add (P k : Nat) : relU (P + k) = relU P / (10 : ℚ) ^ k := by
  unfold relU
  have h10 : (10 : ℚ) ≠ 0 := by norm_num
  have e : (1 : Int) - ((P + k : Nat) : Int) = (1 - (P : Int)) - (k : Int) := by push_cast; ring
  rw [e, zpow_sub₀ h10, zpow_natCast]
  ring

/-- One product rounded to nearest: finite, canonical, within `relU` of the exact product, provided
    the exact product lies in `[1, 10^E)`, `E < MaxExp`. -/
theorem mul_nearest (z x y : Dec) (hx : FinCanon x) (hy : FinCanon y) (hz0 : z.prec ≠ 0)
    (hzP : z.prec ≤ MaxPrec) (hmode : z.mode = .ToNearestEven)
    (hlo : 1 ≤ decMag x 0 * decMag y 0)
    (E : Int) (hE : E + 1 ≤ MaxExp) (hhi : decMag x 0 * decMag y 0 < (10 : ℚ) ^ E) :
    FinCanon (mul z x y).1 ∧ (mul z x y).1.neg = (x.neg != y.neg) ∧ (mul z x y).1.prec = z.prec ∧
      (mul z x y).1.mode = z.mode ∧
      |decMag (mul z x y).1 0 - decMag x 0 * decMag y 0| ≤ decMag x 0 * decMag y 0 * relU z.prec := by
  have hE := effPrec2_of_ne z x y hz0
  obtain ⟨hag, -, hpr, hmo⟩ := mul_correct z x y hx hy
  rw [hE] at hag hpr
  have h10 : (10 : ℚ) ≠ 0 := by norm_num
  have h1lt : (1 : ℚ) < 10 := by norm_num
  have hxq : (0 : ℚ) < (x.mant : ℚ) := by exact_mod_cast hx.mant_pos
  have hyq : (0 : ℚ) < (y.mant : ℚ) := by exact_mod_cast hy.mant_pos
  set q : ℚ := (x.mant : ℚ) * (y.mant : ℚ) with hq
  set k : Int := intExp x + intExp y with hk
  have hqpos : 0 < q := mul_pos hxq hyq
  have hkpos : (0 : ℚ) < (10 : ℚ) ^ k := zpow_pos (by norm_num) _
  have hv : decMag x 0 * decMag y 0 = q * (10 : ℚ) ^ k := by
    rw [decMag_zero, decMag_zero, hk, zpow_add₀ h10]; ring
  rw [hv] at hlo hhi ⊢
  obtain ⟨b1, b2⟩ := decExp_bounds hqpos
  -- the decimal exponent of the product is well inside the range
  have hge : 1 ≤ decExp q + k := by
    have : (10 : ℚ) ^ (0 : Int) < (10 : ℚ) ^ (decExp q + k) := by
      rw [zpow_zero, zpow_add₀ h10]
      calc (1 : ℚ) ≤ q * (10 : ℚ) ^ k := hlo
        _ < (10 : ℚ) ^ decExp q * (10 : ℚ) ^ k := mul_lt_mul_of_pos_right b2 hkpos
    have := (zpow_lt_zpow_iff_right₀ h1lt).mp this
    omega
  have hle : decExp q + k + 1 ≤ MaxExp := by
    have : (10 : ℚ) ^ (decExp q - 1 + k) < (10 : ℚ) ^ E := by
      rw [zpow_add₀ h10]
      calc (10 : ℚ) ^ (decExp q - 1) * (10 : ℚ) ^ k ≤ q * (10 : ℚ) ^ k :=
            mul_le_mul_of_nonneg_right b1 hkpos.le
        _ < _ := hhi
    have := (zpow_lt_zpow_iff_right₀ h1lt).mp this
    omega
  have hp1 : 1 ≤ z.prec := by omega
  have hfin : (Spec.round z.mode z.prec (x.neg != y.neg) q k).form = .finite :=
    round_form_finite _ _ _ _ _ (by rw [MinExp_eq]; omega) hle
  have hnd := round_coef_digits z.mode z.prec (x.neg != y.neg) q k hqpos hp1 hfin
  have hmag := decMag_of_agrees (mul z x y).1 _ k z.prec hag hfin hnd
  have hag' := (agrees_iff _ _).mp hag
  have hform : (mul z x y).1.form = .finite := by rw [hag'.1, hfin]
  have hc : (mul z x y).1.Canonical := by
    rw [mul_fst_eq_umul z x y hx.form_eq hy.form_eq]
    exact umul_canonical _ x y hx.mant_pos hy.mant_pos (by simp only [hE]; omega) (by simp only [hE]; exact hzP)
  have hnear := round_nearest z.mode z.prec (x.neg != y.neg) q k hqpos hp1 hfin (Or.inl hmode)
  rw [← hmag] at hnear
  have hulp : ulpOf q z.prec / 2 ≤ q * relU z.prec := by
    unfold ulpOf relU
    have e : decExp q - (z.prec : Int) = (decExp q - 1) + (1 - (z.prec : Int)) := by ring
    rw [e, zpow_add₀ h10]
    have hpp : (0 : ℚ) < (10 : ℚ) ^ (1 - (z.prec : Int)) := zpow_pos (by norm_num) _
    have := mul_le_mul_of_nonneg_right b1 hpp.le
    linarith
  have hrel : (mul z x y).1.neg = (x.neg != y.neg) := by rw [hag'.2.1, round_neg_n z.mode z.prec _ q k hqpos hp1 hfin]
  refine ⟨finCanon_of_canonical hc hform, hrel, hpr, hmo, ?_⟩
  have hsc : decMag (mul z x y).1 0 = decMag (mul z x y).1 k * (10 : ℚ) ^ k := by
    unfold decMag
    rw [mul_assoc, ← zpow_add₀ h10]
    congr 2; ring
  rw [hsc, ← sub_mul, abs_mul, abs_of_pos hkpos]
  calc |decMag (mul z x y).1 k - q| * (10 : ℚ) ^ k ≤ (q * relU z.prec) * (10 : ℚ) ^ k :=
        mul_le_mul_of_nonneg_right (le_trans hnear hulp) hkpos.le
    _ = q * (10 : ℚ) ^ k * relU z.prec := by ring

/-! ### the invariants of the square-and-multiply loop -/

/-- The numeric side conditions of the analysis, for accumulator precision `P`, exponents up to `N`,
    at most `J` accumulator products, and magnitudes below `10^E`. -/
structure Pow2Params (P N J : Nat) (E : Int) : Prop where
  hP : 1 ≤ P
  hPm : P + 19 ≤ MaxPrec
  hE : E + 1 ≤ MaxExp
  u_le : relU P ≤ 1
  u'_le : relU (P + 19) ≤ 1
  lo : ∀ m i, m ≤ N → i ≤ J → (1 : ℚ) / 2 ≤ (1 - relU (P + 19)) ^ m * (1 - relU P) ^ i
  hi : ∀ m i, m ≤ N → i ≤ J → (2 : ℚ) ^ m * (1 + relU (P + 19)) ^ m * (1 + relU P) ^ i < (10 : ℚ) ^ E

/-- the accumulator holds about `2^a` after `j` rounded products. -/
def ZInv (P : Nat) (z : Dec) (a j : Nat) : Prop :=
  FinCanon z ∧ z.neg = false ∧ z.prec = P ∧ z.mode = .ToNearestEven ∧
    (2 : ℚ) ^ a * (1 - relU (P + 19)) ^ a * (1 - relU P) ^ j ≤ decMag z 0 ∧
    decMag z 0 ≤ (2 : ℚ) ^ a * (1 + relU (P + 19)) ^ a * (1 + relU P) ^ j

/-- the repeated square holds about `2^b`. -/
def FInv (P : Nat) (f : Dec) (b : Nat) : Prop :=
  FinCanon f ∧ f.neg = false ∧ f.prec = P + 19 ∧ f.mode = .ToNearestEven ∧ 1 ≤ b ∧
    (2 : ℚ) ^ b * (1 - relU (P + 19)) ^ (b - 1) ≤ decMag f 0 ∧
    decMag f 0 ≤ (2 : ℚ) ^ b * (1 + relU (P + 19)) ^ (b - 1)

theorem abs_le_rel {r v u : ℚ} (h : |r - v| ≤ v * u) : v * (1 - u) ≤ r ∧ r ≤ v * (1 + u) := by
  obtain ⟨h1, h2⟩ := abs_le.mp h
  constructor <;> linarith

theorem step_mul {P N J : Nat} {E : Int} (pp : Pow2Params P N J E) (z f : Dec) (a b j : Nat)
    (hz : ZInv P z a j) (hf : FInv P f b) (hab : a + b ≤ N) (hj : j + 1 ≤ J) :
    ZInv P (mul z z f).1 (a + b) (j + 1) := by
  obtain ⟨zc, zn, zp, zm, zlo, zhi⟩ := hz
  obtain ⟨fc, fn, fp, fm, hb1, flo, fhi⟩ := hf
  have hu := relU_pos P
  have hu' := relU_pos (P + 19)
  set u := relU P with hudef
  set u' := relU (P + 19) with hu'def
  have hα0 : 0 ≤ 1 - u' := by have := pp.u'_le; linarith
  have hα1 : 1 - u' ≤ 1 := by linarith
  have hβ0 : 0 ≤ 1 - u := by have := pp.u_le; linarith
  have hA1 : 1 ≤ 1 + u' := by linarith
  have hB0 : 0 ≤ 1 + u := by linarith
  have hzpos := decMag_pos zc
  have hfpos := decMag_pos fc
  have h2a : (0 : ℚ) < (2 : ℚ) ^ a := by positivity
  have h2b : (0 : ℚ) < (2 : ℚ) ^ b := by positivity
  -- bounds on the exact product
  have hαb : (1 - u') ^ b ≤ (1 - u') ^ (b - 1) := pow_le_pow_of_le_one hα0 hα1 (by omega)
  have hAb : (1 + u') ^ (b - 1) ≤ (1 + u') ^ b := pow_le_pow_right₀ hA1 (by omega)
  have vlo : (2 : ℚ) ^ (a + b) * (1 - u') ^ (a + b) * (1 - u) ^ j ≤ decMag z 0 * decMag f 0 := by
    have h1 : (2 : ℚ) ^ b * (1 - u') ^ b ≤ decMag f 0 :=
      le_trans (mul_le_mul_of_nonneg_left hαb h2b.le) flo
    calc (2 : ℚ) ^ (a + b) * (1 - u') ^ (a + b) * (1 - u) ^ j
        = ((2 : ℚ) ^ a * (1 - u') ^ a * (1 - u) ^ j) * ((2 : ℚ) ^ b * (1 - u') ^ b) := by
          rw [pow_add, pow_add]; ring
      _ ≤ decMag z 0 * decMag f 0 := by
          apply mul_le_mul zlo h1 _ hzpos.le
          positivity
  have vhi : decMag z 0 * decMag f 0 ≤ (2 : ℚ) ^ (a + b) * (1 + u') ^ (a + b) * (1 + u) ^ j := by
    have h1 : decMag f 0 ≤ (2 : ℚ) ^ b * (1 + u') ^ b :=
      le_trans fhi (mul_le_mul_of_nonneg_left hAb h2b.le)
    calc decMag z 0 * decMag f 0
        ≤ ((2 : ℚ) ^ a * (1 + u') ^ a * (1 + u) ^ j) * ((2 : ℚ) ^ b * (1 + u') ^ b) := by
          apply mul_le_mul zhi h1 hfpos.le
          positivity
      _ = _ := by rw [pow_add, pow_add]; ring
  have h1le : 1 ≤ decMag z 0 * decMag f 0 := by
    have hl := pp.lo (a + b) j hab (by omega)
    have h2 : (2 : ℚ) ≤ (2 : ℚ) ^ (a + b) := by
      calc (2 : ℚ) = (2 : ℚ) ^ 1 := by norm_num
        _ ≤ (2 : ℚ) ^ (a + b) := pow_le_pow_right₀ (by norm_num) (by omega)
    have hnn : 0 ≤ (1 - u') ^ (a + b) * (1 - u) ^ j := by positivity
    calc (1 : ℚ) = 2 * (1 / 2) := by norm_num
      _ ≤ (2 : ℚ) ^ (a + b) * ((1 - u') ^ (a + b) * (1 - u) ^ j) := mul_le_mul h2 hl (by norm_num) (by positivity)
      _ = (2 : ℚ) ^ (a + b) * (1 - u') ^ (a + b) * (1 - u) ^ j := by ring
      _ ≤ _ := vlo
  have hlt : decMag z 0 * decMag f 0 < (10 : ℚ) ^ E :=
    lt_of_le_of_lt vhi (pp.hi (a + b) j hab (by omega))
  have hz0 : z.prec ≠ 0 := by rw [zp]; have := pp.hP; omega
  have hzP : z.prec ≤ MaxPrec := by rw [zp]; have := pp.hPm; omega
  obtain ⟨rc, rn, rp, rm, rerr⟩ := mul_nearest z z f zc fc hz0 hzP zm h1le E pp.hE hlt
  rw [zp] at rerr
  obtain ⟨e1, e2⟩ := abs_le_rel rerr
  refine ⟨rc, by rw [rn, zn, fn]; rfl, by rw [rp, zp], by rw [rm, zm], ?_, ?_⟩
  · calc (2 : ℚ) ^ (a + b) * (1 - u') ^ (a + b) * (1 - u) ^ (j + 1)
        = ((2 : ℚ) ^ (a + b) * (1 - u') ^ (a + b) * (1 - u) ^ j) * (1 - u) := by rw [pow_succ]; ring
      _ ≤ (decMag z 0 * decMag f 0) * (1 - u) := mul_le_mul_of_nonneg_right vlo hβ0
      _ ≤ _ := e1
  · calc decMag (mul z z f).1 0 ≤ (decMag z 0 * decMag f 0) * (1 + u) := e2
      _ ≤ ((2 : ℚ) ^ (a + b) * (1 + u') ^ (a + b) * (1 + u) ^ j) * (1 + u) := mul_le_mul_of_nonneg_right vhi hB0
      _ = _ := by rw [pow_succ]; ring

theorem step_sq {P N J : Nat} {E : Int} (pp : Pow2Params P N J E) (f : Dec) (b : Nat)
    (hf : FInv P f b) (hbb : b + b ≤ N) : FInv P (mul f f f).1 (b + b) := by
  obtain ⟨fc, fn, fp, fm, hb1, flo, fhi⟩ := hf
  have hu' := relU_pos (P + 19)
  set u' := relU (P + 19) with hu'def
  have hα0 : 0 ≤ 1 - u' := by have := pp.u'_le; linarith
  have hα1 : 1 - u' ≤ 1 := by linarith
  have hA1 : 1 ≤ 1 + u' := by linarith
  have hA0 : 0 ≤ 1 + u' := by linarith
  have hfpos := decMag_pos fc
  have h2b : (0 : ℚ) < (2 : ℚ) ^ b := by positivity
  have hexp : b - 1 + (b - 1) + 1 = b + b - 1 := by omega
  have vlo : (2 : ℚ) ^ (b + b) * (1 - u') ^ (b - 1 + (b - 1)) ≤ decMag f 0 * decMag f 0 := by
    calc (2 : ℚ) ^ (b + b) * (1 - u') ^ (b - 1 + (b - 1))
        = ((2 : ℚ) ^ b * (1 - u') ^ (b - 1)) * ((2 : ℚ) ^ b * (1 - u') ^ (b - 1)) := by
          rw [pow_add, pow_add]; ring
      _ ≤ decMag f 0 * decMag f 0 := mul_le_mul flo flo (by positivity) hfpos.le
  have vhi : decMag f 0 * decMag f 0 ≤ (2 : ℚ) ^ (b + b) * (1 + u') ^ (b - 1 + (b - 1)) := by
    calc decMag f 0 * decMag f 0
        ≤ ((2 : ℚ) ^ b * (1 + u') ^ (b - 1)) * ((2 : ℚ) ^ b * (1 + u') ^ (b - 1)) :=
          mul_le_mul fhi fhi hfpos.le (by positivity)
      _ = _ := by rw [pow_add, pow_add]; ring
  have h1le : 1 ≤ decMag f 0 * decMag f 0 := by
    have hl := pp.lo (b + b) 0 hbb (by omega)
    rw [pow_zero, mul_one] at hl
    have h2 : (2 : ℚ) ≤ (2 : ℚ) ^ (b + b) := by
      calc (2 : ℚ) = (2 : ℚ) ^ 1 := by norm_num
        _ ≤ (2 : ℚ) ^ (b + b) := pow_le_pow_right₀ (by norm_num) (by omega)
    have hmono : (1 - u') ^ (b + b) ≤ (1 - u') ^ (b - 1 + (b - 1)) := pow_le_pow_of_le_one hα0 hα1 (by omega)
    calc (1 : ℚ) = 2 * (1 / 2) := by norm_num
      _ ≤ (2 : ℚ) ^ (b + b) * (1 - u') ^ (b + b) := mul_le_mul h2 hl (by norm_num) (by positivity)
      _ ≤ (2 : ℚ) ^ (b + b) * (1 - u') ^ (b - 1 + (b - 1)) := mul_le_mul_of_nonneg_left hmono (by positivity)
      _ ≤ _ := vlo
  have hlt : decMag f 0 * decMag f 0 < (10 : ℚ) ^ E := by
    have hh := pp.hi (b + b) 0 hbb (by omega)
    rw [pow_zero, mul_one] at hh
    have hmono : (1 + u') ^ (b - 1 + (b - 1)) ≤ (1 + u') ^ (b + b) := pow_le_pow_right₀ hA1 (by omega)
    calc decMag f 0 * decMag f 0 ≤ (2 : ℚ) ^ (b + b) * (1 + u') ^ (b - 1 + (b - 1)) := vhi
      _ ≤ (2 : ℚ) ^ (b + b) * (1 + u') ^ (b + b) := mul_le_mul_of_nonneg_left hmono (by positivity)
      _ < _ := hh
  have hf0 : f.prec ≠ 0 := by rw [fp]; omega
  have hfP : f.prec ≤ MaxPrec := by rw [fp]; exact pp.hPm
  obtain ⟨rc, rn, rp, rm, rerr⟩ := mul_nearest f f f fc fc hf0 hfP fm h1le E pp.hE hlt
  rw [fp] at rerr
  obtain ⟨e1, e2⟩ := abs_le_rel rerr
  refine ⟨rc, by rw [rn, fn]; rfl, by rw [rp, fp], by rw [rm, fm], by omega, ?_, ?_⟩
  · calc (2 : ℚ) ^ (b + b) * (1 - u') ^ (b + b - 1)
        = ((2 : ℚ) ^ (b + b) * (1 - u') ^ (b - 1 + (b - 1))) * (1 - u') := by rw [← hexp, pow_succ]; ring
      _ ≤ (decMag f 0 * decMag f 0) * (1 - u') := mul_le_mul_of_nonneg_right vlo hα0
      _ ≤ _ := e1
  · calc decMag (mul f f f).1 0 ≤ (decMag f 0 * decMag f 0) * (1 + u') := e2
      _ ≤ ((2 : ℚ) ^ (b + b) * (1 + u') ^ (b - 1 + (b - 1))) * (1 + u') := mul_le_mul_of_nonneg_right vhi hA0
      _ = _ := by rw [← hexp, pow_succ]; ring

/-- The square-and-multiply loop with rounded products: from `z ≈ 2^a` (after `j` products) and
    `f ≈ 2^b` it returns `≈ 2^(a + k·b)` after at most `fuel` more products. -/
theorem pow2_loop_apx {P N J : Nat} {E : Int} (pp : Pow2Params P N J E) :
    ∀ (fuel k a b j : Nat) (z f : Dec), ZInv P z a j → FInv P f b → k < 2 ^ fuel →
      a + k * b ≤ N → j + fuel ≤ J → ∃ j', j' ≤ j + fuel ∧ ZInv P (pow2.loop fuel k z f) (a + k * b) j' := by
  intro fuel
  induction fuel with
  | zero =>
    intro k a b j z f hz _ hk _ _
    have : k = 0 := by simpa using hk
    subst this
    rw [pow2_loop_zero]
    exact ⟨j, by omega, by simpa using hz⟩
  | succ fuel ih =>
    intro k a b j z f hz hf hk hle hjf
    rw [pow2_loop_succ]
    by_cases hk0 : k = 0
    · subst hk0; rw [if_pos rfl]; exact ⟨j, by omega, by simpa using hz⟩
    rw [if_neg hk0]
    have hzp : z.prec ≠ 0 := by rw [hz.2.2.1]; have := pp.hP; omega
    have hfp : f.prec ≠ 0 := by rw [hf.2.2.1]; omega
    rw [mul_self_recv z f hzp, mul_self_all f hfp]
    have hdm : k = 2 * (k / 2) + k % 2 := (Nat.div_add_mod k 2).symm
    have hkb : k * b = (k / 2) * (b + b) + (k % 2) * b := by
      conv_lhs => rw [hdm]
      ring
    have hh : k / 2 < 2 ^ fuel := by
      rw [Nat.pow_succ] at hk; omega
    by_cases hodd : k % 2 = 1
    · have hab : a + b ≤ N := by
        rw [hkb, hodd] at hle; omega
      have hz' : ZInv P (mul z z f).1 (a + b) (j + 1) := step_mul pp z f a b j hz hf hab (by omega)
      simp only [hodd, if_true, true_and]
      by_cases hk1 : k = 1
      · subst hk1; rw [if_pos rfl]; exact ⟨j + 1, by omega, by simpa using hz'⟩
      · rw [if_neg hk1]
        have hh1 : 1 ≤ k / 2 := by omega
        have hbb : b + b ≤ N := by
          have : 1 * (b + b) ≤ (k / 2) * (b + b) := Nat.mul_le_mul_right _ hh1
          rw [hkb] at hle; omega
        have hf' : FInv P (mul f f f).1 (b + b) := step_sq pp f b hf hbb
        obtain ⟨j', hj', hres⟩ := ih (k / 2) (a + b) (b + b) (j + 1) _ _ hz' hf' hh
          (by rw [hkb, hodd] at hle; omega) (by omega)
        have e : a + k * b = a + b + k / 2 * (b + b) := by rw [hkb, hodd]; omega
        rw [e]; exact ⟨j', by omega, hres⟩
    · have hev : k % 2 = 0 := by omega
      simp only [hodd, if_false, false_and]
      have hh1 : 1 ≤ k / 2 := by omega
      have hbb : b + b ≤ N := by
        have : 1 * (b + b) ≤ (k / 2) * (b + b) := Nat.mul_le_mul_right _ hh1
        rw [hkb] at hle; omega
      have hf' : FInv P (mul f f f).1 (b + b) := step_sq pp f b hf hbb
      obtain ⟨j', hj', hres⟩ := ih (k / 2) a (b + b) j _ _ hz hf' hh (by rw [hkb, hev] at hle; omega) (by omega)
      have e : a + k * b = a + k / 2 * (b + b) := by rw [hkb, hev]; omega
      rw [e]; exact ⟨j', by omega, hres⟩

/-! ### the numeric side conditions -/

theorem one_add_pow_le {x : ℚ} (hx : 0 ≤ x) (n : Nat) (h : (n : ℚ) * x ≤ 1 / 2) :
    (1 + x) ^ n ≤ 1 + 2 * (n : ℚ) * x := by
  induction n with
  | zero => simp
  | succ n ih =>
    have hn : (n : ℚ) * x ≤ 1 / 2 := by
      have : (n : ℚ) * x ≤ ((n + 1 : Nat) : ℚ) * x := by
        apply mul_le_mul_of_nonneg_right _ hx
        push_cast; linarith
      linarith
    have ih' := ih hn
    have hnn : (0 : ℚ) ≤ (n : ℚ) := Nat.cast_nonneg n
    rw [pow_succ]
    push_cast at h ⊢
    have h1 : (1 + x) ^ n * (1 + x) ≤ (1 + 2 * (n : ℚ) * x) * (1 + x) :=
      mul_le_mul_of_nonneg_right ih' (by linarith)
    have h2 : 2 * (n : ℚ) * x * x ≤ x := by
      have : 2 * ((n : ℚ) * x) ≤ 1 := by linarith
      calc 2 * (n : ℚ) * x * x = (2 * ((n : ℚ) * x)) * x := by ring
        _ ≤ 1 * x := mul_le_mul_of_nonneg_right this hx
        _ = x := one_mul x
    calc (1 + x) ^ n * (1 + x) ≤ (1 + 2 * (n : ℚ) * x) * (1 + x) := h1
      _ = 1 + 2 * (n : ℚ) * x + x + 2 * (n : ℚ) * x * x := by ring
      _ ≤ 1 + 2 * ((n : ℚ) + 1) * x := by linarith

theorem one_sub_pow_ge {x : ℚ} (hx1 : x ≤ 1) (n : Nat) : 1 - (n : ℚ) * x ≤ (1 - x) ^ n := by
  have := one_add_mul_le_pow (show (-2 : ℚ) ≤ -x by linarith) n
  have e : (1 : ℚ) + -x = 1 - x := by ring
  rw [e] at this
  linarith

/-- `2^n ≤ 10^(28·q)` when `n ≤ 93·q` (because `2^93 < 10^28`). -/
theorem two_pow_le_ten_pow (n q : Nat) (h : n ≤ 93 * q) : (2 : ℚ) ^ n ≤ (10 : ℚ) ^ (28 * q) := by
  have h93 : (2 : ℚ) ^ 93 ≤ (10 : ℚ) ^ 28 := by norm_num
  calc (2 : ℚ) ^ n ≤ (2 : ℚ) ^ (93 * q) := pow_le_pow_right₀ (by norm_num) h
    _ = ((2 : ℚ) ^ 93) ^ q := by rw [pow_mul]
    _ ≤ ((10 : ℚ) ^ 28) ^ q := pow_le_pow_left₀ (by positivity) h93 q
    _ = (10 : ℚ) ^ (28 * q) := by rw [pow_mul]

theorem relU_twenty : relU 20 = 1 / (2 * 10 ^ 19) := by
  unfold relU
  have : (1 : Int) - ((20 : Nat) : Int) = -19 := by norm_num
  rw [this, zpow_neg]
  norm_num

/-- The side conditions hold for every working precision `P ≥ 20` (Parse: `prec + 19`), every
    exponent up to `N` with `N + 2 ≤ 93·q`, `28·q < E < MaxExp`, `N ≤ 10^10`, and `J = 70` products. -/
theorem pow2Params_gen (P N q : Nat) (E : Int) (hP : 20 ≤ P) (hPm : P + 19 ≤ MaxPrec)
    (hN : (N : ℚ) ≤ 10 ^ 10) (hq : N + 2 ≤ 93 * q) (hqE : ((28 * q : Nat) : Int) < E) (hE : E + 1 ≤ MaxExp) :
    Pow2Params P N 70 E := by
  have hu := relU_pos P
  have hu' := relU_pos (P + 19)
  have hu20 : relU P ≤ 1 / (2 * 10 ^ 19) := by rw [← relU_twenty]; exact relU_le hP
  have hu'eq : relU (P + 19) = relU P / (10 : ℚ) ^ 19 := relU_add P 19
  set u := relU P with hudef
  set u' := relU (P + 19) with hu'def
  have hu'le : u' ≤ 1 / (2 * 10 ^ 38) := by
    rw [hu'eq]
    rw [div_le_iff₀ (by positivity)]
    calc u ≤ 1 / (2 * 10 ^ 19) := hu20
      _ = 1 / (2 * 10 ^ 38) * (10 : ℚ) ^ 19 := by norm_num
  have hNu' : (N : ℚ) * u' ≤ 1 / 4 := by
    calc (N : ℚ) * u' ≤ (10 : ℚ) ^ 10 * (1 / (2 * 10 ^ 38)) :=
          mul_le_mul hN hu'le hu'.le (by positivity)
      _ ≤ 1 / 4 := by norm_num
  have hJu : (70 : ℚ) * u ≤ 1 / 4 := by
    calc (70 : ℚ) * u ≤ 70 * (1 / (2 * 10 ^ 19)) := mul_le_mul_of_nonneg_left hu20 (by norm_num)
      _ ≤ 1 / 4 := by norm_num
  have hu1 : u ≤ 1 := by linarith
  have hu'1 : u' ≤ 1 := by
    have : (1 : ℚ) / (2 * 10 ^ 38) ≤ 1 := by norm_num
    linarith
  have hα0 : 0 ≤ 1 - u' := by linarith
  have hβ0 : 0 ≤ 1 - u := by linarith
  refine ⟨by omega, hPm, hE, hu1, hu'1, ?_, ?_⟩
  · intro m i hm hi
    have hmN : (m : ℚ) ≤ (N : ℚ) := by exact_mod_cast hm
    have hi70 : (i : ℚ) ≤ 70 := by exact_mod_cast hi
    have h1 : 1 - (m : ℚ) * u' ≤ (1 - u') ^ m := one_sub_pow_ge hu'1 m
    have h2 : 1 - (i : ℚ) * u ≤ (1 - u) ^ i := one_sub_pow_ge hu1 i
    have hm' : (m : ℚ) * u' ≤ 1 / 4 := le_trans (mul_le_mul_of_nonneg_right hmN hu'.le) hNu'
    have hi' : (i : ℚ) * u ≤ 1 / 4 := le_trans (mul_le_mul_of_nonneg_right hi70 hu.le) hJu
    have h3 : (3 : ℚ) / 4 ≤ (1 - u') ^ m := by linarith
    have h4 : (3 : ℚ) / 4 ≤ (1 - u) ^ i := by linarith
    calc (1 : ℚ) / 2 ≤ (3 / 4) * (3 / 4) := by norm_num
      _ ≤ (1 - u') ^ m * (1 - u) ^ i := mul_le_mul h3 h4 (by norm_num) (by positivity)
  · intro m i hm hi
    have hmN : (m : ℚ) ≤ (N : ℚ) := by exact_mod_cast hm
    have hi70 : (i : ℚ) ≤ 70 := by exact_mod_cast hi
    have hm' : (m : ℚ) * u' ≤ 1 / 4 := le_trans (mul_le_mul_of_nonneg_right hmN hu'.le) hNu'
    have hi' : (i : ℚ) * u ≤ 1 / 4 := le_trans (mul_le_mul_of_nonneg_right hi70 hu.le) hJu
    have h1 : (1 + u') ^ m ≤ 2 := by
      have := one_add_pow_le hu'.le m (by linarith)
      linarith
    have h2 : (1 + u) ^ i ≤ 2 := by
      have := one_add_pow_le hu.le i (by linarith)
      linarith
    have h3 : (2 : ℚ) ^ m ≤ (2 : ℚ) ^ N := pow_le_pow_right₀ (by norm_num) hm
    have h4 : (2 : ℚ) ^ (N + 2) ≤ (10 : ℚ) ^ (28 * q) := two_pow_le_ten_pow (N + 2) q hq
    have h5 : (10 : ℚ) ^ (28 * q) < (10 : ℚ) ^ E := by
      rw [← zpow_natCast]
      exact zpow_lt_zpow_right₀ (by norm_num) hqE
    calc (2 : ℚ) ^ m * (1 + u') ^ m * (1 + u) ^ i ≤ (2 : ℚ) ^ N * 2 * 2 := by
          apply mul_le_mul (mul_le_mul h3 h1 (by positivity) (by positivity)) h2 (by positivity) (by positivity)
      _ = (2 : ℚ) ^ (N + 2) := by rw [pow_add]; norm_num; ring
      _ ≤ (10 : ℚ) ^ (28 * q) := h4
      _ < _ := h5

/-- … in particular for every binary exponent up to `7·10^9` (`2^(7·10^9) ≈ 10^2107209969`). -/
theorem pow2Params_exists (P N : Nat) (hP : 20 ≤ P) (hPm : P + 19 ≤ MaxPrec) (hN : N ≤ 7000000000) :
    ∃ E, Pow2Params P N 70 E := by
  refine ⟨2147483646, pow2Params_gen P N 75268818 2147483646 hP hPm ?_ (by omega) (by norm_num) (by rw [MaxExp_eq]; norm_num)⟩
  have : (N : ℚ) ≤ (7000000000 : ℚ) := by exact_mod_cast hN
  have h2 : (7000000000 : ℚ) ≤ 10 ^ 10 := by norm_num
  exact le_trans this h2

/-! ### `pow2` -/

theorem isPow2_ZInv {P a : Nat} {z : Dec} (h : IsPow2 z P a) (hm : z.mode = .ToNearestEven)
    (hu : relU P ≤ 1) (hu' : relU (P + 19) ≤ 1) : ZInv P z a 0 := by
  obtain ⟨c, n, -, v, p, -⟩ := h
  have h1 := relU_pos P
  have h2 := relU_pos (P + 19)
  refine ⟨c, n, p, hm, ?_, ?_⟩
  · rw [v, pow_zero, mul_one]
    have : (1 - relU (P + 19)) ^ a ≤ 1 := pow_le_one₀ (by linarith) (by linarith)
    calc (2 : ℚ) ^ a * (1 - relU (P + 19)) ^ a ≤ (2 : ℚ) ^ a * 1 := mul_le_mul_of_nonneg_left this (by positivity)
      _ = (2 : ℚ) ^ a := mul_one _
  · rw [v, pow_zero, mul_one]
    have : 1 ≤ (1 + relU (P + 19)) ^ a := one_le_pow₀ (by linarith)
    calc (2 : ℚ) ^ a = (2 : ℚ) ^ a * 1 := (mul_one _).symm
      _ ≤ (2 : ℚ) ^ a * (1 + relU (P + 19)) ^ a := mul_le_mul_of_nonneg_left this (by positivity)

theorem isPow2_FInv {P : Nat} {f : Dec} (h : IsPow2 f (P + 19) 1) (hm : f.mode = .ToNearestEven) :
    FInv P f 1 := by
  obtain ⟨c, n, -, v, p, -⟩ := h
  exact ⟨c, n, p, hm, le_refl 1, by rw [v]; simp, by rw [v]; simp⟩

/-- **`pow2` in general.** For a working precision `P ≥ 20` and `n ≤ 7·10^9`, `pow2 P n` is a finite
    positive Decimal holding `2^n · ρ` with `(1−u')^n (1−u)^70 ≤ ρ ≤ (1+u')^n (1+u)^70`,
    `u = relU P`, `u' = relU (P+19)`. -/
theorem pow2_apx_raw (P n : Nat) (hP : 20 ≤ P) (hPm : P + 19 ≤ 2147483647) (hn : n ≤ 7000000000) :
    FinCanon (pow2 P n) ∧ (pow2 P n).neg = false ∧
      (2 : ℚ) ^ n * ((1 - relU (P + 19)) ^ n * (1 - relU P) ^ 70) ≤ decMag (pow2 P n) 0 ∧
      decMag (pow2 P n) 0 ≤ (2 : ℚ) ^ n * ((1 + relU (P + 19)) ^ n * (1 + relU P) ^ 70) := by
  obtain ⟨E, pp⟩ := pow2Params_exists P n hP (by rw [MaxPrec_eq]; omega) hn
  have hu := relU_pos P
  have hu' := relU_pos (P + 19)
  have hβ0 : 0 ≤ 1 - relU P := by have := pp.u_le; linarith
  have hβ1 : 1 - relU P ≤ 1 := by linarith
  have hB1 : 1 ≤ 1 + relU P := by linarith
  have hfin : ∀ j', j' ≤ 70 → ZInv P (pow2 P n) n j' →
      FinCanon (pow2 P n) ∧ (pow2 P n).neg = false ∧
      (2 : ℚ) ^ n * ((1 - relU (P + 19)) ^ n * (1 - relU P) ^ 70) ≤ decMag (pow2 P n) 0 ∧
      decMag (pow2 P n) 0 ≤ (2 : ℚ) ^ n * ((1 + relU (P + 19)) ^ n * (1 + relU P) ^ 70) := by
    intro j' hj' hz
    obtain ⟨c, ng, -, -, lo, hi⟩ := hz
    have hα0 : 0 ≤ 1 - relU (P + 19) := by have := pp.u'_le; linarith
    refine ⟨c, ng, ?_, ?_⟩
    · have : (1 - relU P) ^ 70 ≤ (1 - relU P) ^ j' := pow_le_pow_of_le_one hβ0 hβ1 hj'
      calc (2 : ℚ) ^ n * ((1 - relU (P + 19)) ^ n * (1 - relU P) ^ 70)
          ≤ (2 : ℚ) ^ n * ((1 - relU (P + 19)) ^ n * (1 - relU P) ^ j') := by
            apply mul_le_mul_of_nonneg_left _ (by positivity)
            exact mul_le_mul_of_nonneg_left this (by positivity)
        _ = (2 : ℚ) ^ n * (1 - relU (P + 19)) ^ n * (1 - relU P) ^ j' := by ring
        _ ≤ _ := lo
    · have : (1 + relU P) ^ j' ≤ (1 + relU P) ^ 70 := pow_le_pow_right₀ hB1 hj'
      calc decMag (pow2 P n) 0 ≤ (2 : ℚ) ^ n * (1 + relU (P + 19)) ^ n * (1 + relU P) ^ j' := hi
        _ = (2 : ℚ) ^ n * ((1 + relU (P + 19)) ^ n * (1 + relU P) ^ j') := by ring
        _ ≤ _ := by
            apply mul_le_mul_of_nonneg_left _ (by positivity)
            exact mul_le_mul_of_nonneg_left this (by positivity)
  have h19 : ndigits (2 ^ 63) ≤ P := by
    have : ndigits (2 ^ 63) ≤ 19 := by rw [ndigits_le_iff]; norm_num
    omega
  by_cases h64 : n < 64
  · have hfit : ndigits (2 ^ n) ≤ P := by
      have : ndigits (2 ^ n) ≤ ndigits (2 ^ 63) := ndigits_mono (Nat.pow_le_pow_right (by omega) (by omega))
      omega
    have hp2 : IsPow2 (pow2 P n) P n := pow2_of_fits P n (by omega) hPm hfit
    have hmode : (pow2 P n).mode = .ToNearestEven := by
      unfold pow2
      simp only [h64, if_true]
      rw [setBits64_mode]
    exact hfin 0 (by omega) (isPow2_ZInv hp2 hmode pp.u_le pp.u'_le)
  · have hz := setBits64_pow2 P 63 (by omega) (by omega) h19
    have hf := setBits64_pow2 (P + 19) 1 (by omega) (by omega)
      (by have : ndigits (2 ^ 1) ≤ 19 := by rw [ndigits_le_iff]; norm_num
          omega)
    have hzm : (setBits64 { prec := P } false (2 ^ 63) 0).mode = .ToNearestEven :=
      setBits64_mode _ _ _ _
    have hfm : (setBits64 { prec := P + 19 } false (2 ^ 1) 0).mode = .ToNearestEven :=
      setBits64_mode _ _ _ _
    obtain ⟨j', hj', hres⟩ := pow2_loop_apx pp 70 (n - 63) 63 1 0 _ _
      (isPow2_ZInv hz hzm pp.u_le pp.u'_le) (isPow2_FInv hf hfm)
      (by calc n - 63 ≤ 7000000000 := by omega
            _ < 2 ^ 70 := by norm_num)
      (by omega) (by omega)
    have e : 63 + (n - 63) * 1 = n := by omega
    rw [e] at hres
    have hpe : pow2 P n = pow2.loop 70 (n - 63) (setBits64 { prec := P } false (2 ^ 63) 0)
        (setBits64 { prec := P + 19 } false (2 ^ 1) 0) := by
      unfold pow2
      simp only [h64, if_false, DW_eq]
      rfl
    rw [← hpe] at hres
    exact hfin j' (by omega) hres

theorem pow2_final_bound (u x a1 a2 c1 c2 ρ : ℚ) (hu0 : 0 < u) (hu1 : u ≤ 1) (hx0 : 0 ≤ x)
    (hx : x ≤ u / 10 ^ 9) (h70 : 70 * u ≤ 1 / 2)
    (l1 : 1 - x ≤ a1) (l2 : 1 - 70 * u ≤ a2) (r1 : c1 ≤ 1 + 2 * x) (r2 : c2 ≤ 1 + 140 * u)
    (hc1 : 0 ≤ c1) (hc2 : 0 ≤ c2) (hlo : a1 * a2 ≤ ρ) (hhi : ρ ≤ c1 * c2) : |ρ - 1| ≤ 141 * u := by
  have hdiv : u / 10 ^ 9 ≤ u := div_le_self hu0.le (by norm_num)
  have hα : 0 ≤ 1 - x := by linarith
  have hβ : 0 ≤ 1 - 70 * u := by linarith
  have lo' : 1 - 141 * u ≤ a1 * a2 := by
    have hm : (1 - x) * (1 - 70 * u) ≤ a1 * a2 := mul_le_mul l1 l2 hβ (le_trans hα l1)
    have hprod : 0 ≤ x * (70 * u) := by positivity
    have : 1 - 141 * u ≤ (1 - x) * (1 - 70 * u) := by
      have e : (1 - x) * (1 - 70 * u) = 1 - 70 * u - x + x * (70 * u) := by ring
      rw [e]; linarith
    linarith
  have hi' : c1 * c2 ≤ 1 + 141 * u := by
    have hm : c1 * c2 ≤ (1 + 2 * x) * (1 + 140 * u) := mul_le_mul r1 r2 hc2 (by linarith)
    have h9 : u / 10 ^ 9 * 282 ≤ u := by
      have e : u / (10 : ℚ) ^ 9 * 282 = u * (282 / 10 ^ 9) := by ring
      rw [e]
      have : (282 : ℚ) / 10 ^ 9 ≤ 1 := by norm_num
      calc u * (282 / 10 ^ 9) ≤ u * 1 := mul_le_mul_of_nonneg_left this hu0.le
        _ = u := mul_one u
    have hxu : x * u ≤ x := by
      calc x * u ≤ x * 1 := mul_le_mul_of_nonneg_left hu1 hx0
        _ = x := mul_one x
    have : (1 + 2 * x) * (1 + 140 * u) ≤ 1 + 141 * u := by
      have e : (1 + 2 * x) * (1 + 140 * u) = 1 + 140 * u + 2 * x + 280 * (x * u) := by ring
      rw [e]
      linarith
    linarith
  rw [abs_le]
  constructor <;> linarith

/-- **The accuracy of `pow2`**: `pow2 P n = 2^n · ρ` with `|ρ − 1| ≤ 141 · relU P = 70.5 × 10^(1−P)`. -/
theorem pow2_apx (P n : Nat) (hP : 20 ≤ P) (hPm : P + 19 ≤ 2147483647) (hn : n ≤ 7000000000) :
    ∃ ρ : ℚ, FinCanon (pow2 P n) ∧ (pow2 P n).neg = false ∧ decMag (pow2 P n) 0 = (2 : ℚ) ^ n * ρ ∧
      0 < ρ ∧ |ρ - 1| ≤ 141 * relU P := by
  obtain ⟨c, ng, lo, hi⟩ := pow2_apx_raw P n hP hPm hn
  have h2n : (0 : ℚ) < (2 : ℚ) ^ n := by positivity
  refine ⟨decMag (pow2 P n) 0 / (2 : ℚ) ^ n, c, ng, by field_simp, div_pos (decMag_pos c) h2n, ?_⟩
  have hu := relU_pos P
  have hu' := relU_pos (P + 19)
  have hu20 : relU P ≤ 1 / (2 * 10 ^ 19) := by rw [← relU_twenty]; exact relU_le hP
  have hu'eq : relU (P + 19) = relU P / (10 : ℚ) ^ 19 := relU_add P 19
  have hnq : (n : ℚ) ≤ 10 ^ 10 := by
    have h1 : (n : ℚ) ≤ (7000000000 : ℚ) := by exact_mod_cast hn
    have h2 : (7000000000 : ℚ) ≤ 10 ^ 10 := by norm_num
    exact le_trans h1 h2
  have hx : (n : ℚ) * relU (P + 19) ≤ relU P / 10 ^ 9 := by
    rw [hu'eq]
    calc (n : ℚ) * (relU P / (10 : ℚ) ^ 19) ≤ (10 : ℚ) ^ 10 * (relU P / (10 : ℚ) ^ 19) :=
          mul_le_mul_of_nonneg_right hnq (by positivity)
      _ = relU P / 10 ^ 9 := by field_simp
  have hu1 : relU P ≤ 1 := le_trans hu20 (by norm_num)
  have hu'1 : relU (P + 19) ≤ 1 := by
    rw [hu'eq]
    exact le_trans (div_le_self hu.le (by norm_num)) hu1
  have hx0 : 0 ≤ (n : ℚ) * relU (P + 19) := by positivity
  have h70 : (70 : ℚ) * relU P ≤ 1 / 2 := by
    calc (70 : ℚ) * relU P ≤ 70 * (1 / (2 * 10 ^ 19)) := mul_le_mul_of_nonneg_left hu20 (by norm_num)
      _ ≤ 1 / 2 := by norm_num
  have hxh : (n : ℚ) * relU (P + 19) ≤ 1 / 2 :=
    le_trans hx (le_trans (div_le_self hu.le (by norm_num)) (le_trans hu20 (by norm_num)))
  have l1 : 1 - (n : ℚ) * relU (P + 19) ≤ (1 - relU (P + 19)) ^ n := one_sub_pow_ge hu'1 n
  have l2 : 1 - 70 * relU P ≤ (1 - relU P) ^ 70 := by
    have := one_sub_pow_ge hu1 70
    simpa using this
  have r1 : (1 + relU (P + 19)) ^ n ≤ 1 + 2 * ((n : ℚ) * relU (P + 19)) := by
    have := one_add_pow_le hu'.le n hxh
    rw [mul_assoc] at this
    exact this
  have r2 : (1 + relU P) ^ 70 ≤ 1 + 140 * relU P := by
    have := one_add_pow_le hu.le 70 (by simpa using h70)
    have e : (1 : ℚ) + 2 * ((70 : Nat) : ℚ) * relU P = 1 + 140 * relU P := by push_cast; ring
    rw [e] at this
    exact this
  have hρlo : (1 - relU (P + 19)) ^ n * (1 - relU P) ^ 70 ≤ decMag (pow2 P n) 0 / (2 : ℚ) ^ n :=
    (le_div_iff₀ h2n).mpr (by rw [mul_comm]; exact lo)
  have hρhi : decMag (pow2 P n) 0 / (2 : ℚ) ^ n ≤ (1 + relU (P + 19)) ^ n * (1 + relU P) ^ 70 :=
    (div_le_iff₀ h2n).mpr (by rw [mul_comm]; exact hi)
  exact pow2_final_bound (relU P) ((n : ℚ) * relU (P + 19)) _ _ _ _ _ hu hu1 hx0 hx h70 l1 l2 r1 r2
    (pow_nonneg (by linarith) _) (pow_nonneg (by linarith) _) hρlo hρhi

end Decimal
