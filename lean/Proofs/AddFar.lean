/-
  Soundness of the executable shortcut `SQ.addForRound` used by `Spec.addSV`: replacing a far
  smaller addend by a sticky perturbation does not change the rounded sum.
-/
import Proofs.Fma
import Proofs.RoundProps

namespace Decimal
open Spec

/-- A power of ten at or above `10^g` is a natural multiple of `10^g`. -/
theorem zpow_eq_nat_mul (e g : Int) (h : g ≤ e) :
    (10 : ℚ) ^ e = ((10 ^ (e - g).toNat : Nat) : ℚ) * (10 : ℚ) ^ g := by
  have h10 : (10 : ℚ) ≠ 0 := by norm_num
  rw [natpow_cast_zpow, ← zpow_add₀ h10]
  congr 1; omega

/-- Floor and fraction of a rational strictly inside the cell `(n/D, (n+1)/D)`, `D = 2H`. -/
theorem cell_floor (t : ℚ) (n H : Nat) (hH : 0 < H)
    (ha : (n : ℚ) / ((2 * H : Nat) : ℚ) < t) (hb : t < ((n : ℚ) + 1) / ((2 * H : Nat) : ℚ)) :
    t.floor.toNat = n / (2 * H) ∧ t - ((n / (2 * H) : Nat) : ℚ) ≠ 0 ∧
      t - ((n / (2 * H) : Nat) : ℚ) ≠ 1 / 2 ∧
      (t - ((n / (2 * H) : Nat) : ℚ) > 1 / 2 ↔ H ≤ n % (2 * H)) := by
  have hD : 0 < 2 * H := by omega
  have hdm := Nat.div_add_mod n (2 * H)
  have hml := Nat.mod_lt n hD
  generalize hDH : 2 * H = D at *
  generalize n / D = lo at *
  generalize n % D = rem at *
  have hDq : (0 : ℚ) < (D : ℚ) := by exact_mod_cast hD
  have hnq : (n : ℚ) = D * lo + rem := by exact_mod_cast hdm.symm
  have hrem : (rem : ℚ) + 1 ≤ D := by exact_mod_cast hml
  rw [div_lt_iff₀ hDq] at ha
  rw [lt_div_iff₀ hDq] at hb
  have hlo1 : (lo : ℚ) < t := by
    have : (D : ℚ) * lo < t * D := by nlinarith [Nat.cast_nonneg (α := ℚ) rem]
    nlinarith
  have hlo2 : t < (lo : ℚ) + 1 := by
    have : t * D < (D : ℚ) * (lo + 1) := by nlinarith
    nlinarith
  have hfa : (rem : ℚ) < (t - lo) * D := by
    have : (t - lo) * D = t * D - D * lo := by ring
    rw [this]; linarith
  have hfb : (t - lo) * D < (rem : ℚ) + 1 := by
    have : (t - lo) * D = t * D - D * lo := by ring
    rw [this]; linarith
  have hD2 : (D : ℚ) = 2 * H := by exact_mod_cast hDH.symm
  refine ⟨?_, ?_, ?_, ?_⟩
  · have : t.floor = (lo : Int) := rat_floor_eq t lo (by push_cast; linarith) (by push_cast; linarith)
    rw [this]; rfl
  · intro h; linarith
  · intro h
    have e : (t - lo) * D = H := by rw [h, hD2]; ring
    rcases Nat.lt_or_ge rem H with hr | hr
    · have : (rem : ℚ) + 1 ≤ H := by exact_mod_cast hr
      linarith
    · have : (H : ℚ) ≤ rem := by exact_mod_cast hr
      linarith
  · constructor
    · intro h
      by_contra hr
      have : (rem : ℚ) + 1 ≤ H := by exact_mod_cast (show rem + 1 ≤ H by omega)
      have : (H : ℚ) < (t - lo) * D := by rw [hD2]; nlinarith
      linarith
    · intro hr
      have : (H : ℚ) ≤ rem := by exact_mod_cast hr
      have hfd : (H : ℚ) < (t - lo) * (2 * H) := by rw [← hD2]; linarith
      have hHq : (0 : ℚ) < H := by exact_mod_cast hH
      have : (H : ℚ) * 1 < H * (2 * (t - lo)) := by linarith
      have := lt_of_mul_lt_mul_left this hHq.le
      show 1 / 2 < t - ↑lo
      linarith

/-- Two magnitudes strictly inside the same cell `(n·10^g, (n+1)·10^g)` of a grid that is at least
    ten times finer than the rounding grid round identically. -/
theorem round_congr_cell (mode : Mode) (p : Nat) (neg : Bool) (q1 q2 : ℚ) (k g : Int) (n : Nat)
    (hn : 1 ≤ n)
    (h1a : (n : ℚ) * (10 : ℚ) ^ g < q1) (h1b : q1 < ((n : ℚ) + 1) * (10 : ℚ) ^ g)
    (h2a : (n : ℚ) * (10 : ℚ) ^ g < q2) (h2b : q2 < ((n : ℚ) + 1) * (10 : ℚ) ^ g)
    (hg : g ≤ decExp q1 - p - 1) :
    Spec.round mode p neg q1 k = Spec.round mode p neg q2 k := by
  have h10 : (0 : ℚ) < 10 := by norm_num
  have hG : (0 : ℚ) < (10 : ℚ) ^ g := zpow_pos h10 _
  have hnq : (1 : ℚ) ≤ n := by exact_mod_cast hn
  have hq1 : 0 < q1 := lt_trans (mul_pos (by linarith) hG) h1a
  have hq2 : 0 < q2 := lt_trans (mul_pos (by linarith) hG) h2a
  obtain ⟨b1, b2⟩ := decExp_bounds hq1
  -- same decade
  have hdec : decExp q2 = decExp q1 := by
    apply decExp_unique hq2
    · rw [zpow_eq_nat_mul (decExp q1 - 1) g (by omega)] at b1 ⊢
      generalize 10 ^ (decExp q1 - 1 - g).toNat = M at *
      have : (M : ℚ) < (n : ℚ) + 1 := by
        by_contra hc
        have := mul_le_mul_of_nonneg_right (not_lt.mp hc) hG.le
        linarith
      have : M < n + 1 := by exact_mod_cast this
      have hMn : (M : ℚ) ≤ n := by exact_mod_cast (show M ≤ n by omega)
      have := mul_le_mul_of_nonneg_right hMn hG.le
      linarith
    · rw [zpow_eq_nat_mul (decExp q1) g (by omega)] at b2 ⊢
      generalize 10 ^ (decExp q1 - g).toNat = M at *
      have : (n : ℚ) < (M : ℚ) := by
        by_contra hc
        have := mul_le_mul_of_nonneg_right (not_lt.mp hc) hG.le
        linarith
      have : n < M := by exact_mod_cast this
      have hMn : (n : ℚ) + 1 ≤ M := by exact_mod_cast (show n + 1 ≤ M by omega)
      have := mul_le_mul_of_nonneg_right hMn hG.le
      linarith
  -- scaled magnitudes lie in the same cell of width 1/(2H)
  obtain ⟨h, hh⟩ : ∃ h : Nat, decExp q1 - p - 1 - g = h := ⟨(decExp q1 - p - 1 - g).toNat, by omega⟩
  have hH : 0 < 5 * 10 ^ h := Nat.mul_pos (by omega) (pow_pos10 h)
  have hP : (0 : ℚ) < pow10Rat ((p : Int) - decExp q1) := by
    rw [pow10Rat_eq_zpow]; exact zpow_pos h10 _
  have hscale : (10 : ℚ) ^ g * pow10Rat ((p : Int) - decExp q1) = 1 / ((2 * (5 * 10 ^ h) : Nat) : ℚ) := by
    have e2 : 2 * (5 * 10 ^ h) = 10 ^ (h + 1) := by rw [Nat.pow_succ]; omega
    rw [e2, natpow_cast_zpow, pow10Rat_eq_zpow, ← zpow_add₀ h10.ne', one_div, ← zpow_neg]
    congr 1; push_cast; omega
  have cell : ∀ q : ℚ, (n : ℚ) * (10 : ℚ) ^ g < q → q < ((n : ℚ) + 1) * (10 : ℚ) ^ g →
      (n : ℚ) / ((2 * (5 * 10 ^ h) : Nat) : ℚ) < q * pow10Rat ((p : Int) - decExp q1) ∧
      q * pow10Rat ((p : Int) - decExp q1) < ((n : ℚ) + 1) / ((2 * (5 * 10 ^ h) : Nat) : ℚ) := by
    intro q ha hb
    have a := mul_lt_mul_of_pos_right ha hP
    have b := mul_lt_mul_of_pos_right hb hP
    rw [mul_assoc, hscale] at a b
    constructor
    · rw [div_eq_mul_one_div]; exact a
    · rw [div_eq_mul_one_div]; exact b
  obtain ⟨c1a, c1b⟩ := cell q1 h1a h1b
  obtain ⟨c2a, c2b⟩ := cell q2 h2a h2b
  obtain ⟨f1, z1, y1, g1⟩ := cell_floor _ n _ hH c1a c1b
  obtain ⟨f2, z2, y2, g2⟩ := cell_floor _ n _ hH c2a c2b
  by_cases hmin : decExp q1 + k < MinExp
  · rw [round_underflow _ _ _ _ _ hmin, round_underflow _ _ _ _ _ (by rw [hdec]; exact hmin)]
  rw [round_eq_tail _ _ _ _ _ hmin, round_eq_tail _ _ _ _ _ (by rw [hdec]; exact hmin)]
  simp only [hdec, f1, f2]
  generalize q1 * pow10Rat ((p : Int) - decExp q1) = t1 at *
  generalize q2 * pow10Rat ((p : Int) - decExp q1) = t2 at *
  generalize n / (2 * (5 * 10 ^ h)) = lo at *
  have hz1 : (t1 - (lo : ℚ) == 0) = false := by simp [z1]
  have hz2 : (t2 - (lo : ℚ) == 0) = false := by simp [z2]
  have hincr : incr mode neg lo (t1 - lo) = incr mode neg lo (t2 - lo) := by
    have hgt : (t1 - (lo : ℚ) > 1 / 2) ↔ (t2 - (lo : ℚ) > 1 / 2) := by rw [g1, g2]
    have hge1 : (t1 - (lo : ℚ) ≥ 1 / 2) ↔ (t1 - (lo : ℚ) > 1 / 2) :=
      ⟨fun h => lt_of_le_of_ne h (Ne.symm y1), le_of_lt⟩
    have hge2 : (t2 - (lo : ℚ) ≥ 1 / 2) ↔ (t2 - (lo : ℚ) > 1 / 2) :=
      ⟨fun h => lt_of_le_of_ne h (Ne.symm y2), le_of_lt⟩
    unfold incr
    cases mode <;> simp only [y1, y2, hge1, hge2, hgt, decide_false, Bool.false_and, Bool.or_false]
  rw [hz1, hz2, hincr]

/-- `A` is a multiple of `10^m`, at least `10^(E−1)` with `m ≤ E − p − 2`; two perturbations
    below `10^m` on the same side give the same rounding. -/
theorem far_core (mode : Mode) (p : Nat) (neg : Bool) (k : Int) (A β1 β2 : ℚ) (m E : Int) (N : Nat)
    (hA : A = (N : ℚ) * (10 : ℚ) ^ m) (hE : (10 : ℚ) ^ (E - 1) ≤ A) (hm : m ≤ E - p - 2)
    (hp : 1 ≤ p) (hb1 : 0 < β1) (hb1' : β1 < (10 : ℚ) ^ m) (hb2 : 0 < β2) (hb2' : β2 < (10 : ℚ) ^ m)
    (plus : Bool) :
    Spec.round mode p neg (if plus then A + β1 else A - β1) k
      = Spec.round mode p neg (if plus then A + β2 else A - β2) k := by
  have h10 : (0 : ℚ) < 10 := by norm_num
  have hG : (0 : ℚ) < (10 : ℚ) ^ m := zpow_pos h10 _
  -- 10^(E-2) = M1·G, 10^(E-1) = 10·M1·G, M1 ≥ 1
  obtain ⟨d, hd⟩ : ∃ d : Nat, E - 2 - m = d := ⟨(E - 2 - m).toNat, by omega⟩
  have hE2 : (10 : ℚ) ^ (E - 2) = ((10 ^ d : Nat) : ℚ) * (10 : ℚ) ^ m := by
    rw [zpow_eq_nat_mul (E - 2) m (by omega)]; congr 3; omega
  have hE1 : (10 : ℚ) ^ (E - 1) = ((10 * 10 ^ d : Nat) : ℚ) * (10 : ℚ) ^ m := by
    rw [zpow_eq_nat_mul (E - 1) m (by omega)]
    have : (E - 1 - m).toNat = d + 1 := by omega
    rw [this, Nat.pow_succ, Nat.mul_comm]
  have hM1 := pow_pos10 d
  generalize 10 ^ d = M1 at *
  have hN : 10 * M1 ≤ N := by
    rw [hE1, hA] at hE
    have := le_of_mul_le_mul_right hE hG
    exact_mod_cast this
  have hN1 : ((N - 1 : Nat) : ℚ) = (N : ℚ) - 1 := by
    rw [Nat.cast_sub (by omega)]; simp
  -- the common cell
  have key : ∀ β : ℚ, 0 < β → β < (10 : ℚ) ^ m →
      ((if plus then N else N - 1 : Nat) : ℚ) * (10 : ℚ) ^ m < (if plus then A + β else A - β) ∧
      (if plus then A + β else A - β) < (((if plus then N else N - 1 : Nat) : ℚ) + 1) * (10 : ℚ) ^ m := by
    intro β h0 h1
    cases plus
    · simp only [Bool.false_eq_true, if_false]
      rw [hN1, hA]; constructor <;> nlinarith
    · simp only [if_true]
      rw [hA]; constructor <;> nlinarith
  obtain ⟨a1, a2⟩ := key β1 hb1 hb1'
  obtain ⟨c1, c2⟩ := key β2 hb2 hb2'
  have hn1 : 1 ≤ (if plus then N else N - 1 : Nat) := by split <;> omega
  refine round_congr_cell mode p neg _ _ k m _ hn1 a1 a2 c1 c2 ?_
  -- the decade of the perturbed value is at least E − 1
  have hq1pos : 0 < (if plus then A + β1 else A - β1) :=
    lt_trans (mul_pos (by exact_mod_cast hn1) hG) a1
  have hlow : (10 : ℚ) ^ (E - 2) ≤ (if plus then A + β1 else A - β1) := by
    rw [hE2]
    have : (M1 : ℚ) ≤ ((if plus then N else N - 1 : Nat) : ℚ) := by
      exact_mod_cast (show M1 ≤ (if plus then N else N - 1 : Nat) by split <;> omega)
    have := mul_le_mul_of_nonneg_right this hG.le
    linarith
  have := lt_of_le_of_lt hlow (decExp_bounds hq1pos).2
  have := (zpow_lt_zpow_iff_right₀ (by norm_num : (1 : ℚ) < 10)).mp this
  omega

theorem roundSQ_val (mode : Mode) (p : Nat) (v : SQ) (zn : Bool) :
    roundSQ mode p v zn = roundSQ mode p ⟨sqVal v, 0⟩ zn := by
  apply roundSQ_congr_val
  unfold sqVal; simp

theorem roundSQ_signed (mode : Mode) (p : Nat) (ng : Bool) (q : ℚ) (zn : Bool) (hq : 0 < q) :
    roundSQ mode p ⟨if ng then -q else q, 0⟩ zn = Spec.round mode p ng q 0 := by
  cases ng
  · simp only [Bool.false_eq_true, if_false]
    exact roundSQ_pos _ _ _ _ hq
  · simp only [if_true]
    rw [roundSQ_neg _ _ _ _ (by simpa using hq)]
    simp

/-- The magnitude `|s|` as `SQ.mexp` writes it. -/
theorem absIf_pos {s : ℚ} (h : s ≠ 0) : 0 < (if s < 0 then -s else s) := by
  split
  · linarith
  · rcases lt_or_gt_of_ne h with h' | h'
    · contradiction
    · exact h'

theorem addFar_sound (mode : Mode) (p : Nat) (a b : SQ) (zn : Bool) (hp : 1 ≤ p)
    (ha : ∃ n : Int, a.s = n) (ha0 : a.s ≠ 0) :
    roundSQ mode p (SQ.addFar p a b) zn = roundSQ mode p (a.add b) zn := by
  unfold SQ.addFar
  simp only
  split
  swap
  · rfl
  rename_i hfar
  simp only [Bool.and_eq_true, bne_iff_ne, ne_eq, decide_eq_true_eq] at hfar
  obtain ⟨hb0, hbm⟩ := hfar
  have h10 : (0 : ℚ) < 10 := by norm_num
  have h1lt : (1 : ℚ) < 10 := by norm_num
  -- magnitudes
  have hAa := absIf_pos ha0
  have hBa := absIf_pos hb0
  unfold SQ.mexp at hbm ⊢
  generalize hm : min a.k (decExp (if a.s < 0 then -a.s else a.s) + a.k - (p : Int) - 2) = m at *
  generalize hAs : (if a.s < 0 then -a.s else a.s) = As at *
  generalize hBs : (if b.s < 0 then -b.s else b.s) = Bs at *
  have hmk : m ≤ a.k := by omega
  have hmE : m ≤ decExp As + a.k - p - 2 := by omega
  obtain ⟨ba1, _⟩ := decExp_bounds hAa
  obtain ⟨_, bb2⟩ := decExp_bounds hBa
  -- |a.s| is a natural number
  obtain ⟨n, hn⟩ := ha
  have hAsN : As = (n.natAbs : ℚ) := by
    rw [← hAs, hn, ← Int.cast_natCast (R := ℚ) n.natAbs]
    by_cases hneg : n < 0
    · have hq : (n : ℚ) < 0 := by exact_mod_cast hneg
      have hz : ((n.natAbs : Nat) : Int) = -n := by omega
      simp only [hq, if_true, hz]; push_cast; rfl
    · have hq : ¬ (n : ℚ) < 0 := by
        intro h; apply hneg; exact_mod_cast h
      have hz : ((n.natAbs : Nat) : Int) = n := by omega
      simp only [hq, if_false, hz]
  -- A = N · 10^m
  set A : ℚ := As * (10 : ℚ) ^ a.k with hA
  have hAN : A = ((n.natAbs * 10 ^ (a.k - m).toNat : Nat) : ℚ) * (10 : ℚ) ^ m := by
    rw [hA, hAsN, zpow_eq_nat_mul a.k m hmk]; push_cast; ring
  have hAE : (10 : ℚ) ^ (decExp As + a.k - 1) ≤ A := by
    have : decExp As + a.k - 1 = (decExp As - 1) + a.k := by ring
    rw [this, zpow_add₀ h10.ne', hA]
    exact mul_le_mul_of_nonneg_right ba1 (zpow_pos h10 _).le
  set β1 : ℚ := Bs * (10 : ℚ) ^ b.k with hβ1
  have hβ1pos : 0 < β1 := mul_pos hBa (zpow_pos h10 _)
  have hβ1lt : β1 < (10 : ℚ) ^ m := by
    have : β1 < (10 : ℚ) ^ (decExp Bs + b.k) := by
      rw [zpow_add₀ h10.ne', hβ1]
      exact mul_lt_mul_of_pos_right bb2 (zpow_pos h10 _)
    exact lt_of_lt_of_le this (zpow_le_zpow_right₀ h1lt.le (by omega))
  have hβ2lt : (10 : ℚ) ^ (m - 2) < (10 : ℚ) ^ m := zpow_lt_zpow_right₀ h1lt (by omega)
  have hβ2pos : (0 : ℚ) < (10 : ℚ) ^ (m - 2) := zpow_pos h10 _
  -- values of the three summands
  have hva : sqVal a = if a.s < 0 then -A else A := by
    unfold sqVal; rw [hA, ← hAs]; split <;> ring
  have hvb : sqVal b = if b.s < 0 then -β1 else β1 := by
    unfold sqVal; rw [hβ1, ← hBs]; split <;> ring
  have hve : sqVal ⟨if b.s < 0 then -1 else 1, m - 2⟩
      = if b.s < 0 then -(10 : ℚ) ^ (m - 2) else (10 : ℚ) ^ (m - 2) := by
    unfold sqVal; simp only; split <;> ring
  have hAgt : ∀ β : ℚ, β < (10 : ℚ) ^ m → 0 < A - β := by
    intro β hβ
    have : (10 : ℚ) ^ m ≤ (10 : ℚ) ^ (decExp As + a.k - 1) := zpow_le_zpow_right₀ h1lt.le (by omega)
    linarith
  have hcomb : ∀ β : ℚ, (if a.s < 0 then -A else A) + (if b.s < 0 then -β else β)
      = if decide (a.s < 0) then
          -(if (decide (a.s < 0) == decide (b.s < 0)) then A + β else A - β)
        else (if (decide (a.s < 0) == decide (b.s < 0)) then A + β else A - β) := by
    intro β
    by_cases h1 : a.s < 0 <;> by_cases h2 : b.s < 0 <;> simp [h1, h2] <;> ring
  have hQpos : ∀ β : ℚ, 0 < β → β < (10 : ℚ) ^ m →
      0 < (if (decide (a.s < 0) == decide (b.s < 0)) then A + β else A - β) := by
    intro β h0 h1
    have hApos : 0 < A := mul_pos hAa (zpow_pos h10 _)
    split
    · linarith
    · exact hAgt β h1
  rw [roundSQ_val mode p (a.add _), roundSQ_val mode p (a.add b), sqVal_add, sqVal_add, hva, hvb, hve,
    hcomb, hcomb, roundSQ_signed _ _ _ _ _ (hQpos _ hβ2pos hβ2lt),
    roundSQ_signed _ _ _ _ _ (hQpos _ hβ1pos hβ1lt)]
  exact far_core mode p _ 0 A _ _ m (decExp As + a.k) _ hAN hAE hmE hp hβ2pos hβ2lt hβ1pos hβ1lt _

theorem SQ_add_comm' (a b : SQ) : a.add b = b.add a := by
  obtain ⟨s, k⟩ := a
  obtain ⟨t, l⟩ := b
  exact SQ_add_comm s t k l

/-- The executable shortcut of `Spec.addSV` is sound: for integer coefficients it rounds to the
    same result as the plain exact sum. -/
theorem addForRound_sound (mode : Mode) (p : Nat) (a b : SQ) (zn : Bool) (hp : 1 ≤ p)
    (ha : ∃ n : Int, a.s = n) (hb : ∃ n : Int, b.s = n) :
    roundSQ mode p (SQ.addForRound p a b) zn = roundSQ mode p (a.add b) zn := by
  unfold SQ.addForRound
  split
  · rfl
  rename_i h0
  simp only [Bool.or_eq_true, beq_iff_eq, not_or] at h0
  split
  · exact addFar_sound mode p a b zn hp ha h0.1
  · rw [addFar_sound mode p b a zn hp hb h0.2, SQ_add_comm']

/-- Values whose finite coefficient is a natural number (every Decimal value, and every exact
    product of two). -/
def IntSV : SV → Prop
  | .fin _ q _ => ∃ M : Nat, q = (M : ℚ)
  | _ => True

theorem signedQ_int (ng : Bool) (q : ℚ) (k : Int) (h : ∃ M : Nat, q = (M : ℚ)) :
    ∃ n : Int, (signedQ ng q k).s = n := by
  obtain ⟨M, rfl⟩ := h
  unfold signedQ
  cases ng
  · exact ⟨M, by simp⟩
  · exact ⟨-(M : Int), by simp⟩

theorem intSV_ofDec (x : Dec) : IntSV (ofDec x) := by
  unfold ofDec
  cases x.form <;> simp only [IntSV]
  exact ⟨x.mant, rfl⟩

/-- Hence on integer-coefficient values `Spec.addSV` *is* the exact sum rounded once. -/
theorem addSV_eq_exact (mode : Mode) (p : Nat) (hp : 1 ≤ p) (x y : SV) (hx : IntSV x) (hy : IntSV y) :
    Spec.addSV mode p x y = Spec'.addSV mode p x y := by
  cases x <;> cases y <;> simp only [Spec.addSV, Spec'.addSV]
  unfold Spec'.addExact
  rw [addForRound_sound mode p _ _ _ hp (signedQ_int _ _ _ hx) (signedQ_int _ _ _ hy)]

theorem intSV_negSV (y : SV) (hy : IntSV y) : IntSV (negSV y) := by
  cases y <;> exact hy

theorem subSV_eq_exact (mode : Mode) (p : Nat) (hp : 1 ≤ p) (x y : SV) (hx : IntSV x) (hy : IntSV y) :
    Spec.subSV mode p x y = Spec'.subSV mode p x y := by
  unfold Spec.subSV Spec'.subSV
  exact addSV_eq_exact mode p hp x _ hx (intSV_negSV y hy)

theorem intSV_mulExact (x y : SV) (hx : IntSV x) (hy : IntSV y) :
    ∀ pr, mulExact x y = some pr → IntSV pr := by
  intro pr h
  cases x <;> cases y <;> simp only [mulExact, Option.some.injEq, reduceCtorEq] at h <;> subst h <;>
    simp only [IntSV]
  obtain ⟨M, rfl⟩ := hx
  obtain ⟨N, rfl⟩ := hy
  exact ⟨M * N, by push_cast; rfl⟩

theorem fmaSV_eq_exact (mode : Mode) (p : Nat) (hp : 1 ≤ p) (x y u : SV)
    (hx : IntSV x) (hy : IntSV y) (hu : IntSV u) :
    Spec.fmaSV mode p x y u = Spec'.fmaSV mode p x y u := by
  unfold Spec.fmaSV Spec'.fmaSV
  cases h : mulExact x y with
  | none => rfl
  | some pr => exact addSV_eq_exact mode p hp pr u (intSV_mulExact x y hx hy pr h) hu

end Decimal
