/-
  The public operations `Add Sub Mul Quo Set Neg Abs SetPrec` and the setters, on canonical
  finite operands, leave the exact result rounded once in the receiver.
-/
import Proofs.Arith

namespace Decimal
open Spec

/-! ### Reading `agrees` -/

theorem agrees_iff (z : Dec) (r : SRes) :
    agrees z r = true ↔ z.form = r.form ∧ z.neg = r.neg ∧ z.acc = r.acc ∧
      (z.form = .finite → z.exp = r.exp ∧
        z.mant * 10 ^ (ndigits r.coef - z.len * 19) = r.coef * 10 ^ (z.len * 19 - ndigits r.coef)) := by
  unfold agrees
  simp only [DW_eq, Bool.and_eq_true, beq_iff_eq, Bool.or_eq_true, bne_iff_ne, ne_eq]
  constructor
  · rintro ⟨⟨⟨h1, h2⟩, h3⟩, h4⟩
    refine ⟨h1, h2, h3, fun hf => ?_⟩
    rcases h4 with h4 | h4
    · exact absurd hf h4
    · exact h4
  · rintro ⟨h1, h2, h3, h4⟩
    refine ⟨⟨⟨h1, h2⟩, h3⟩, ?_⟩
    by_cases hf : z.form = .finite
    · exact Or.inr (h4 hf)
    · exact Or.inl hf

/-- Changing the sign on both sides. -/
theorem agrees_setNeg (z : Dec) (r : SRes) (b : Bool) (h : agrees z r = true) :
    agrees { z with neg := b } { r with neg := b } = true := by
  rw [agrees_iff] at h ⊢
  exact ⟨h.1, rfl, h.2.2.1, h.2.2.2⟩

theorem roundIntTail_form_ne_zero (p : Nat) (neg : Bool) (lo : Nat) (e : Int) (E I : Bool) :
    (roundIntTail p neg lo e E I).form ≠ .zero := by
  unfold roundIntTail
  simp only
  generalize (if (!E && I) = true then lo + 1 else lo) = c
  by_cases hc : (c == 10 ^ p) = true
  · simp only [hc, if_true]; split <;> simp
  · simp only [hc, Bool.false_eq_true, if_false]; split <;> simp

/-- A zero produced by `Spec.round` is an underflow: never `Exact`. -/
theorem round_zero_inexact (mode : Mode) (p : Nat) (neg : Bool) (q : ℚ) (k : Int)
    (h : (Spec.round mode p neg q k).form = .zero) : (Spec.round mode p neg q k).acc ≠ Exact := by
  by_cases hmin : decExp q + k < MinExp
  · rw [round_underflow _ _ _ _ _ hmin]
    cases neg <;> simp [makeAcc, Above, Below, Exact]
  · exfalso
    rw [round_eq_tail _ _ _ _ _ hmin] at h
    exact roundIntTail_form_ne_zero _ _ _ _ _ _ h

theorem zeroSignFix_of_agrees_round (z' : Dec) (mode : Mode) (p : Nat) (neg : Bool) (q : ℚ) (k : Int)
    (h : agrees z' (Spec.round mode p neg q k) = true) : zeroSignFix z' = z' := by
  rw [agrees_iff] at h
  unfold zeroSignFix
  by_cases hz : z'.form = .zero
  · have := round_zero_inexact mode p neg q k (by rw [← h.1]; exact hz)
    rw [← h.2.2.1] at this
    simp [this]
  · simp [hz]

/-! ### `roundSQ` by sign -/

theorem roundSQ_pos (mode : Mode) (p : Nat) (v : SQ) (zn : Bool) (h : 0 < v.s) :
    roundSQ mode p v zn = Spec.round mode p false v.s v.k := by
  unfold roundSQ
  have h1 : (v.s == 0) = false := by simp; exact ne_of_gt h
  have h2 : ¬ v.s < 0 := not_lt.mpr (le_of_lt h)
  simp only [h1, h2, Bool.false_eq_true, if_false]

theorem roundSQ_neg (mode : Mode) (p : Nat) (v : SQ) (zn : Bool) (h : v.s < 0) :
    roundSQ mode p v zn = Spec.round mode p true (-v.s) v.k := by
  unfold roundSQ
  have h1 : (v.s == 0) = false := by simp; exact ne_of_lt h
  simp only [h1, h, Bool.false_eq_true, if_false, if_true]

theorem roundSQ_zero (mode : Mode) (p : Nat) (v : SQ) (zn : Bool) (h : v.s = 0) :
    roundSQ mode p v zn = { form := .zero, neg := zn, acc := Exact } := by
  unfold roundSQ
  simp [h]

/-- Negating both addends negates the sum. -/
theorem SQ_add_neg (s t : ℚ) (k l : Int) :
    (SQ.mk (-s) k).add ⟨-t, l⟩ = ⟨-((SQ.mk s k).add ⟨t, l⟩).s, ((SQ.mk s k).add ⟨t, l⟩).k⟩ := by
  rw [SQ_add_eq, SQ_add_eq]; simp only; congr 1; ring

theorem SQ_add_comm (s t : ℚ) (k l : Int) : (SQ.mk s k).add ⟨t, l⟩ = (SQ.mk t l).add ⟨s, k⟩ := by
  rw [SQ_add_eq, SQ_add_eq, min_comm, add_comm]

/-! ### The exact sum, by cases on the signs and the order of the magnitudes -/

/-- Like signs: the magnitudes add. -/
theorem addExact_same (mode : Mode) (p : Nat) (a : Bool) (s t : ℚ) (k l : Int)
    (hpos : 0 < ((SQ.mk s k).add ⟨t, l⟩).s) :
    Spec'.addExact mode p a s k a t l
      = Spec.round mode p a ((SQ.mk s k).add ⟨t, l⟩).s ((SQ.mk s k).add ⟨t, l⟩).k := by
  unfold Spec'.addExact signedQ
  cases a
  · simp only [Bool.false_eq_true, if_false]
    exact roundSQ_pos _ _ _ _ hpos
  · simp only [if_true]
    rw [SQ_add_neg, roundSQ_neg _ _ _ _ (by simpa using hpos)]
    simp

/-- Unlike signs, first magnitude larger: the result has the first sign. -/
theorem addExact_diff_gt (mode : Mode) (p : Nat) (a : Bool) (s t : ℚ) (k l : Int)
    (hpos : 0 < ((SQ.mk s k).add ⟨-t, l⟩).s) :
    Spec'.addExact mode p a s k (!a) t l
      = Spec.round mode p a ((SQ.mk s k).add ⟨-t, l⟩).s ((SQ.mk s k).add ⟨-t, l⟩).k := by
  unfold Spec'.addExact signedQ
  cases a
  · simp only [Bool.false_eq_true, if_false, Bool.not_false, if_true]
    exact roundSQ_pos _ _ _ _ hpos
  · simp only [if_true, Bool.not_true, Bool.false_eq_true, if_false]
    have : (SQ.mk (-s) k).add ⟨t, l⟩ = (SQ.mk (-s) k).add ⟨-(-t), l⟩ := by rw [neg_neg]
    rw [this, SQ_add_neg, roundSQ_neg _ _ _ _ (by simpa using hpos)]
    simp

/-- Unlike signs, second magnitude larger: the result has the second sign. -/
theorem addExact_diff_lt (mode : Mode) (p : Nat) (a : Bool) (s t : ℚ) (k l : Int)
    (hpos : 0 < ((SQ.mk t l).add ⟨-s, k⟩).s) :
    Spec'.addExact mode p a s k (!a) t l
      = Spec.round mode p (!a) ((SQ.mk t l).add ⟨-s, k⟩).s ((SQ.mk t l).add ⟨-s, k⟩).k := by
  unfold Spec'.addExact signedQ
  cases a
  · simp only [Bool.false_eq_true, if_false, Bool.not_false, if_true]
    have : (SQ.mk s k).add ⟨-t, l⟩ = (SQ.mk (-(-s)) k).add ⟨-t, l⟩ := by rw [neg_neg]
    rw [this, SQ_add_neg, SQ_add_comm (-s) t k l, roundSQ_neg _ _ _ _ (by simpa using hpos)]
    simp
  · simp only [if_true, Bool.not_true, Bool.false_eq_true, if_false]
    rw [SQ_add_comm (-s) t k l]
    exact roundSQ_pos _ _ _ _ hpos

/-- Unlike signs, equal magnitudes: a zero with the IEEE sign of an exact zero sum. -/
theorem addExact_diff_eq (mode : Mode) (p : Nat) (a : Bool) (s t : ℚ) (k l : Int)
    (hz : ((SQ.mk s k).add ⟨-t, l⟩).s = 0) :
    Spec'.addExact mode p a s k (!a) t l
      = { form := .zero, neg := (mode == .ToNegativeInf), acc := Exact } := by
  unfold Spec'.addExact signedQ
  have hzs : zeroSumSign mode a (!a) = (mode == .ToNegativeInf) := by
    unfold zeroSumSign; cases a <;> simp
  rw [hzs]
  cases a
  · simp only [Bool.false_eq_true, if_false, Bool.not_false, if_true]
    exact roundSQ_zero _ _ _ _ hz
  · simp only [if_true, Bool.not_true, Bool.false_eq_true, if_false]
    have : (SQ.mk (-s) k).add ⟨t, l⟩ = (SQ.mk (-s) k).add ⟨-(-t), l⟩ := by rw [neg_neg]
    rw [this, SQ_add_neg]
    exact roundSQ_zero _ _ _ _ (by simp [hz])

/-! ### `Add` -/

/-- Precision of the receiver after the prologue `if z.prec == 0 { z.prec = umax(x.prec, y.prec) }`. -/
def effPrec2 (z x y : Dec) : Nat := if z.prec == 0 then umax x.prec y.prec else z.prec

theorem effPrec2_pos (z : Dec) {x y : Dec} (hx : FinCanon x) (hy : FinCanon y) :
    1 ≤ effPrec2 z x y := by
  have := hx.prec_pos
  have := hy.prec_pos
  unfold effPrec2 umax
  by_cases h : z.prec = 0
  · simp only [h, beq_self_eq_true, if_true]; split <;> omega
  · simp only [beq_iff_eq, h, if_false]; omega

theorem prologue2_eq (z x y : Dec) :
    (if z.prec == 0 then { z with prec := umax x.prec y.prec } else z)
      = { z with prec := effPrec2 z x y } := by
  unfold effPrec2
  by_cases h : z.prec = 0 <;> simp [h]

theorem sum_pos {x : Dec} (hx : FinCanon x) (y : Dec) :
    0 < ((SQ.mk (x.mant : ℚ) (intExp x)).add ⟨(y.mant : ℚ), intExp y⟩).s := by
  rw [SQ_add_eq, ← alignL_cast, ← alignL_cast, ← Nat.cast_add]
  show (0 : ℚ) < ((alignL x y + alignL y x : Nat) : ℚ)
  exact_mod_cast Nat.add_pos_left (alignL_pos hx y) (alignL y x)

theorem add_finite (z x y : Dec) (hx : x.form = .finite) (hy : y.form = .finite) :
    add z x y =
      let z2 : Dec := { z with prec := effPrec2 z x y, neg := x.neg }
      (zeroSignFix (if x.neg == y.neg then uadd z2 x y
        else if ucmp x y > 0 then usub z2 x y else usub { z2 with neg := !x.neg } y x), .ok) := by
  unfold add
  simp only [prologue2_eq, opnd, Bool.false_eq_true, if_false, hx, hy, beq_self_eq_true,
    Bool.and_self, if_true]

theorem add_correct (z x y : Dec) (hx : FinCanon x) (hy : FinCanon y) :
    agrees (add z x y).1
        (Spec'.addExact z.mode (effPrec2 z x y) x.neg x.mant (intExp x) y.neg y.mant (intExp y)) = true
      ∧ (add z x y).2 = .ok ∧ (add z x y).1.prec = effPrec2 z x y ∧ (add z x y).1.mode = z.mode := by
  have hp := effPrec2_pos z hx hy
  rw [add_finite z x y hx.form_eq hy.form_eq]
  generalize effPrec2 z x y = p at hp
  simp only
  by_cases hs : x.neg = y.neg
  · -- like signs
    obtain ⟨h1, h2, h3, _⟩ := uadd_correct { z with prec := p, neg := x.neg } x y hx hy hp
    simp only at h1 h2 h3
    rw [← hs, addExact_same _ _ _ _ _ _ _ (sum_pos hx y)]
    simp only [beq_self_eq_true, if_true]
    rw [zeroSignFix_of_agrees_round _ _ _ _ _ _ h1]
    exact ⟨h1, trivial, h2, h3⟩
  · have hy' : y.neg = !x.neg := by cases hxn : x.neg <;> cases hyn : y.neg <;> simp_all
    have hne : (x.neg == y.neg) = false := by simp [hs]
    simp only [hne, Bool.false_eq_true, if_false]
    rw [hy']
    rcases ucmp_spec_a hx hy with ⟨hc, hlt⟩ | ⟨hc, hlt⟩ | ⟨hc, heq⟩
    · -- |x| > |y|
      obtain ⟨h0, h1, h2, h3, _⟩ := usub_correct { z with prec := p, neg := x.neg } x y hx hy hp hlt
      simp only at h0 h1 h2 h3
      have hc' : ucmp x y > 0 := by rw [hc]; decide
      simp only [hc', if_true]
      rw [addExact_diff_gt _ _ _ _ _ _ _ h0, zeroSignFix_of_agrees_round _ _ _ _ _ _ h1]
      exact ⟨h1, trivial, h2, h3⟩
    · -- |x| < |y|
      obtain ⟨h0, h1, h2, h3, _⟩ := usub_correct { z with prec := p, neg := !x.neg } y x hy hx hp hlt
      simp only at h0 h1 h2 h3
      have hc' : ¬ ucmp x y > 0 := by rw [hc]; decide
      simp only [hc', if_false]
      rw [addExact_diff_lt _ _ _ _ _ _ _ h0, zeroSignFix_of_agrees_round _ _ _ _ _ _ h1]
      exact ⟨h1, trivial, h2, h3⟩
    · -- exact cancellation
      obtain ⟨h1, h0⟩ := usub_cancel { z with prec := p, neg := !x.neg } y x heq.symm
      have h0' : ((SQ.mk (x.mant : ℚ) (intExp x)).add ⟨-(y.mant : ℚ), intExp y⟩).s = 0 := by
        have := SQ_add_neg (y.mant : ℚ) (-(x.mant : ℚ)) (intExp y) (intExp x)
        rw [neg_neg, SQ_add_comm] at this
        rw [this]; simp only; rw [h0]; simp
      have hc' : ¬ ucmp x y > 0 := by rw [hc]; decide
      simp only [hc', if_false]
      rw [addExact_diff_eq _ _ _ _ _ _ _ h0', h1]
      refine ⟨?_, trivial, ?_, ?_⟩
      · rw [agrees_iff]
        unfold zeroSignFix
        cases hm : z.mode <;> simp [Exact]
      · unfold zeroSignFix; simp only; split <;> rfl
      · unfold zeroSignFix; simp only; split <;> rfl

/-! ### `Sub`, `Mul`, `Quo` -/

/-- On finite operands `Sub` is `Add` of the negated second operand. -/
theorem sub_eq_add_neg (z x y : Dec) (hx : x.form = .finite) (hy : y.form = .finite) :
    sub z x y = add z x { y with neg := !y.neg } := by
  rw [add_finite z x { y with neg := !y.neg } hx hy]
  unfold sub
  simp only [prologue2_eq, opnd, Bool.false_eq_true, if_false, hx, hy, beq_self_eq_true,
    Bool.and_self, if_true]
  have hc : (x.neg != y.neg) = (x.neg == !y.neg) := by cases x.neg <;> cases y.neg <;> rfl
  rw [hc]
  rfl

theorem FinCanon_setNeg {y : Dec} (hy : FinCanon y) (b : Bool) : FinCanon { y with neg := b } := hy

theorem sub_correct (z x y : Dec) (hx : FinCanon x) (hy : FinCanon y) :
    agrees (sub z x y).1
        (Spec'.addExact z.mode (effPrec2 z x y) x.neg x.mant (intExp x) (!y.neg) y.mant (intExp y)) = true
      ∧ (sub z x y).2 = .ok ∧ (sub z x y).1.prec = effPrec2 z x y ∧ (sub z x y).1.mode = z.mode := by
  rw [sub_eq_add_neg z x y hx.form_eq hy.form_eq]
  exact add_correct z x { y with neg := !y.neg } hx (FinCanon_setNeg hy _)

theorem mul_correct (z x y : Dec) (hx : FinCanon x) (hy : FinCanon y) :
    agrees (mul z x y).1
        (Spec.round z.mode (effPrec2 z x y) (x.neg != y.neg) ((x.mant : ℚ) * (y.mant : ℚ))
          (intExp x + intExp y)) = true
      ∧ (mul z x y).2 = .ok ∧ (mul z x y).1.prec = effPrec2 z x y ∧ (mul z x y).1.mode = z.mode := by
  have hp := effPrec2_pos z hx hy
  unfold mul
  simp only [prologue2_eq, opnd, Bool.false_eq_true, if_false, hx.form_eq, hy.form_eq,
    beq_self_eq_true, Bool.and_self, if_true]
  obtain ⟨h1, h2, h3, _⟩ :=
    umul_correct { z with prec := effPrec2 z x y, neg := x.neg != y.neg } x y hx hy hp
  exact ⟨h1, trivial, h2, h3⟩

theorem quo_correct (z x y : Dec) (hx : FinCanon x) (hy : FinCanon y) :
    agrees (quo z x y).1
        (Spec.round z.mode (effPrec2 z x y) (x.neg != y.neg) ((x.mant : ℚ) / (y.mant : ℚ))
          (intExp x - intExp y)) = true
      ∧ (quo z x y).2 = .ok ∧ (quo z x y).1.prec = effPrec2 z x y ∧ (quo z x y).1.mode = z.mode := by
  have hp := effPrec2_pos z hx hy
  unfold quo
  simp only [prologue2_eq, opnd, Bool.false_eq_true, if_false, hx.form_eq, hy.form_eq,
    beq_self_eq_true, Bool.and_self, if_true]
  obtain ⟨h1, h2, h3, _⟩ :=
    uquo_correct { z with prec := effPrec2 z x y, neg := x.neg != y.neg } x y hx hy hp
  exact ⟨h1, trivial, h2, h3⟩

/-! ### `round` and `setExpAndRound` on an already normalised mantissa -/

theorem setExpAndRound_eq (z : Dec) (E : Int) (sb : Bool) (hnd : ndigits z.mant = z.len * 19) :
    setExpAndRound z E sb = setNormAndRound z z.mant (E - ((z.len * 19 : Nat) : Int)) sb := by
  have hw : nwords z.mant = z.len := by rw [nwords_def, hnd]; omega
  have hs : dnormShift z.mant z.len = 0 := by rw [dnormShift_def, hnd]; omega
  unfold setNormAndRound
  simp only [hw, hs, Nat.pow_zero, Nat.mul_one, DW_eq]
  congr 1
  omega

theorem round_eq_setExpAndRound (z : Dec) (sb : Bool) (hf : z.form = .finite)
    (hmin : MinExp ≤ z.exp) (hmax : z.exp ≤ MaxExp) : round z sb = setExpAndRound z z.exp sb := by
  unfold setExpAndRound
  have h1 : ¬ z.exp < MinExp := by omega
  have h2 : ¬ z.exp > MaxExp := by omega
  simp only [h1, h2, if_false]
  congr 1
  cases z; simp_all

/-- `z.round(sbit)` on a normalised finite value is the common rounding tail. -/
theorem round_correct' (z : Dec) (hf : z.form = .finite) (hlen : 0 < z.len)
    (hnd : ndigits z.mant = z.len * 19) (hp : 1 ≤ z.prec) (hmin : MinExp ≤ z.exp)
    (hmax : z.exp ≤ MaxExp) :
    agrees (round z false) (Spec.round z.mode z.prec z.neg (z.mant : ℚ) (intExp z)) = true
      ∧ (round z false).prec = z.prec ∧ (round z false).mode = z.mode ∧ (round z false).neg = z.neg := by
  have hpos : 0 < z.mant := by
    rcases Nat.eq_zero_or_pos z.mant with h | h
    · rw [h, ndigits_zero] at hnd; omega
    · exact h
  rw [round_eq_setExpAndRound z false hf hmin hmax, setExpAndRound_eq z z.exp false hnd]
  exact setNormAndRound_correct z z.mant _ false _ hpos hp (by intro h; cases h) (by simp)

theorem roundInt_fit (mode : Mode) (p : Nat) (neg : Bool) (N : Nat) (k : Int)
    (hfit : ndigits N ≤ p) (h1 : ¬ ((ndigits N : Int) + k < MinExp))
    (h2 : ¬ ((ndigits N : Int) + k > MaxExp)) :
    roundInt mode p neg N k false =
      { form := .finite, neg := neg, coef := N * 10 ^ (p - ndigits N), exp := (ndigits N : Int) + k,
        acc := Exact } := by
  simp only [roundInt, h1, h2, hfit, if_true, if_false]

theorem roundInt_exact (mode : Mode) (p : Nat) (neg : Bool) (N : Nat) (k : Int)
    (hgt : p < ndigits N) (h1 : ¬ ((ndigits N : Int) + k < MinExp))
    (h2 : ¬ ((ndigits N : Int) + k > MaxExp)) (hrem : N % 10 ^ (ndigits N - p) = 0) :
    roundInt mode p neg N k false =
      { form := .finite, neg := neg, coef := N / 10 ^ (ndigits N - p), exp := (ndigits N : Int) + k,
        acc := Exact } := by
  have hlt : N / 10 ^ (ndigits N - p) < 10 ^ p := by
    have := ndigits_lt_pow (N / 10 ^ (ndigits N - p))
    rw [ndigits_div_pow] at this
    have e : ndigits N - (ndigits N - p) = p := by omega
    rwa [e] at this
  have hne : (N / 10 ^ (ndigits N - p) == 10 ^ p) = false := by simp; omega
  rw [roundInt_eq_tail mode p neg N k false h1 hgt]
  simp only [roundIntTail, hrem, beq_self_eq_true, Bool.not_false, Bool.and_self, Bool.not_true,
    Bool.false_and, Bool.false_eq_true, if_false, hne, h2, if_true]

/-- A normalised finite value whose digits beyond `p` are zero *is* its own rounding to `p`
    digits, exactly. -/
theorem exact_agrees (z : Dec) (mode : Mode) (p : Nat) (hf : z.form = .finite) (hlen : 0 < z.len)
    (hnd : ndigits z.mant = z.len * 19) (hp : 1 ≤ p) (hmin : MinExp ≤ z.exp) (hmax : z.exp ≤ MaxExp)
    (hacc : z.acc = Exact) (hdvd : 10 ^ (z.len * 19 - p) ∣ z.mant) :
    agrees z (Spec.round mode p z.neg (z.mant : ℚ) (intExp z)) = true := by
  have hpos : 0 < z.mant := by
    rcases Nat.eq_zero_or_pos z.mant with h | h
    · rw [h, ndigits_zero] at hnd; omega
    · exact h
  rw [← roundInt_eq_round mode p z.neg z.mant (intExp z) false _ hpos hp (by intro h; cases h) (by simp)]
  have he : ((ndigits z.mant : Nat) : Int) + intExp z = z.exp := by rw [hnd, intExp_eq]; omega
  have h1 : ¬ ((ndigits z.mant : Int) + intExp z < MinExp) := by rw [he]; omega
  have h2 : ¬ ((ndigits z.mant : Int) + intExp z > MaxExp) := by rw [he]; omega
  rw [agrees_iff]
  by_cases hfit : ndigits z.mant ≤ p
  · rw [roundInt_fit mode p z.neg z.mant _ hfit h1 h2]
    have h3 : ndigits (z.mant * 10 ^ (p - ndigits z.mant)) = p := by
      rw [ndigits_mul_pow hpos]; omega
    simp only [h3, he]
    refine ⟨hf, trivial, hacc, fun _ => ⟨trivial, ?_⟩⟩
    have h4 : z.len * 19 - p = 0 := by omega
    rw [h4, hnd, Nat.pow_zero, Nat.mul_one]
  · rw [hnd] at hfit
    obtain ⟨c, hc⟩ := hdvd
    have hr := pow_pos10 (z.len * 19 - p)
    have hlo : z.mant / 10 ^ (z.len * 19 - p) = c := by
      rw [hc, Nat.mul_div_cancel_left _ hr]
    have hrem : z.mant % 10 ^ (ndigits z.mant - p) = 0 := by
      rw [hnd, hc, Nat.mul_mod_right]
    rw [roundInt_exact mode p z.neg z.mant _ (by omega) h1 h2 hrem]
    have hcnd : ndigits c = p := by
      rw [← hlo, ndigits_div_pow, hnd]; omega
    have he' : ((z.len * 19 : Nat) : Int) + intExp z = z.exp := by rw [intExp_eq]; omega
    simp only [hnd, hlo, hcnd, he']
    refine ⟨hf, trivial, hacc, fun _ => ⟨trivial, ?_⟩⟩
    have h5 : p - z.len * 19 = 0 := by omega
    rw [h5, Nat.pow_zero, Nat.mul_one, hc, Nat.mul_comm]

/-! ### `Set`, `Neg`, `Abs`, `SetPrec` -/

/-- Precision of the receiver of `Set`/`Neg`/`Abs` after the prologue. -/
def effPrec1 (z x : Dec) : Nat := if z.prec == 0 then x.prec else z.prec

theorem dvd_of_prec_le {x : Dec} (hx : Canon x) {p : Nat} (h : x.prec ≤ p) :
    10 ^ (x.len * 19 - p) ∣ x.mant :=
  Nat.dvd_trans (Nat.pow_dvd_pow 10 (by omega)) hx.2

theorem set_correct (z x : Dec) (hx : Canon x) :
    agrees (set z x) (Spec.round z.mode (effPrec1 z x) x.neg (x.mant : ℚ) (intExp x)) = true
      ∧ (set z x).prec = effPrec1 z x ∧ (set z x).mode = z.mode := by
  obtain ⟨hf, hlen, hnd, hxp, hmin, hmax⟩ := hx.1
  unfold set effPrec1
  simp only [Bool.false_eq_true, if_false, hf, beq_self_eq_true, if_true]
  by_cases h0 : z.prec = 0
  · simp only [h0, beq_self_eq_true, if_true]
    refine ⟨?_, trivial, trivial⟩
    exact exact_agrees ⟨.finite, x.neg, x.mant, x.len, x.exp, x.prec, z.mode, Exact⟩ z.mode x.prec
      rfl hlen hnd hxp hmin hmax rfl hx.2
  · have h0' : (z.prec == 0) = false := by simp [h0]
    simp only [h0', Bool.false_eq_true, if_false]
    by_cases hlt : z.prec < x.prec
    · simp only [hlt, if_true]
      obtain ⟨h1, h2, h3, _⟩ := round_correct' ⟨.finite, x.neg, x.mant, x.len, x.exp, z.prec, z.mode, Exact⟩
        rfl hlen hnd (by simp only; omega) hmin hmax
      exact ⟨h1, h2, h3⟩
    · simp only [hlt, if_false]
      refine ⟨?_, trivial, trivial⟩
      exact exact_agrees ⟨.finite, x.neg, x.mant, x.len, x.exp, z.prec, z.mode, Exact⟩ z.mode z.prec
        rfl hlen hnd (by omega) hmin hmax rfl (dvd_of_prec_le hx (by omega))

theorem neg_correct (z x : Dec) (hx : Canon x) :
    agrees (neg z x)
      { Spec.round z.mode (effPrec1 z x) x.neg (x.mant : ℚ) (intExp x) with
        neg := !(Spec.round z.mode (effPrec1 z x) x.neg (x.mant : ℚ) (intExp x)).neg } = true
      ∧ (neg z x).prec = effPrec1 z x ∧ (neg z x).mode = z.mode := by
  obtain ⟨h1, h2, h3⟩ := set_correct z x hx
  unfold neg
  refine ⟨?_, h2, h3⟩
  show agrees { set z x with neg := !(set z x).neg } _ = true
  have hn : (set z x).neg = (Spec.round z.mode (effPrec1 z x) x.neg (x.mant : ℚ) (intExp x)).neg :=
    ((agrees_iff _ _).mp h1).2.1
  rw [hn]
  exact agrees_setNeg _ _ _ h1

theorem abs_correct (z x : Dec) (hx : Canon x) :
    agrees (abs z x)
      { Spec.round z.mode (effPrec1 z x) x.neg (x.mant : ℚ) (intExp x) with neg := false } = true
      ∧ (abs z x).prec = effPrec1 z x ∧ (abs z x).mode = z.mode := by
  obtain ⟨h1, h2, h3⟩ := set_correct z x hx
  unfold abs
  exact ⟨agrees_setNeg _ _ _ h1, h2, h3⟩

/-- `SetPrec(0)` on a finite value: an inexact zero (documented). -/
theorem setPrec_zero (z : Dec) (hf : z.form = .finite) :
    setPrec z 0 = { z with acc := makeAcc z.neg, form := .zero, prec := 0 } := by
  simp [setPrec, hf]

/-- `SetPrec` clamps its argument to `MaxPrec`. -/
def clampPrec (prec : Nat) : Nat := if prec > MaxPrec then MaxPrec else prec

theorem setPrec_correct (z : Dec) (hz : Canon z) (prec : Nat) (hprec : 1 ≤ prec) :
    agrees (setPrec z prec) (Spec.round z.mode (clampPrec prec) z.neg (z.mant : ℚ) (intExp z)) = true
      ∧ (setPrec z prec).prec = clampPrec prec ∧ (setPrec z prec).mode = z.mode := by
  obtain ⟨hf, hlen, hnd, hzp, hmin, hmax⟩ := hz.1
  have hpe : 1 ≤ clampPrec prec := by
    unfold clampPrec
    split
    · decide
    · exact hprec
  have h0 : (prec == 0) = false := by simp; omega
  have hsp : setPrec z prec =
      if clampPrec prec < z.prec then round { z with acc := Exact, prec := clampPrec prec } false
      else { z with acc := Exact, prec := clampPrec prec } := by
    unfold setPrec clampPrec
    simp only [h0, Bool.false_eq_true, if_false]
  rw [hsp]
  generalize clampPrec prec = pe at *
  by_cases hlt : pe < z.prec
  · simp only [hlt, if_true]
    obtain ⟨h1, h2, h3, _⟩ := round_correct' { z with acc := Exact, prec := pe } hf hlen hnd hpe hmin hmax
    exact ⟨h1, h2, h3⟩
  · simp only [hlt, if_false]
    refine ⟨?_, trivial, trivial⟩
    exact exact_agrees { z with acc := Exact, prec := pe } z.mode pe hf hlen hnd hpe hmin hmax rfl
      (dvd_of_prec_le hz (by omega))

/-! ### Setters: `setBits64`, `SetInt`, `SetBitsExp`, `SetMantExp` -/

theorem setBits64_zero_a (z : Dec) (neg : Bool) (exp : Int) :
    setBits64 z neg 0 exp =
      { z with prec := if z.prec == 0 then DefaultPrec else z.prec, acc := Exact, neg := neg,
               form := .zero } := by
  unfold setBits64
  by_cases h : z.prec = 0 <;> simp [h]

theorem setBits64_correct (z : Dec) (neg : Bool) (x : Nat) (exp : Int) (hx : 0 < x) :
    let p := if z.prec == 0 then DefaultPrec else z.prec
    agrees (setBits64 z neg x exp) (Spec.round z.mode p neg (x : ℚ) exp) = true
      ∧ (setBits64 z neg x exp).prec = p ∧ (setBits64 z neg x exp).mode = z.mode := by
  intro p
  have hx0 : (x == 0) = false := by simp; omega
  have hpro : (if z.prec == 0 then { z with prec := DefaultPrec } else z) = { z with prec := p } := by
    show _ = { z with prec := if z.prec == 0 then DefaultPrec else z.prec }
    by_cases h : z.prec = 0 <;> simp [h]
  have hp : 1 ≤ p := by
    show 1 ≤ (if z.prec == 0 then DefaultPrec else z.prec)
    by_cases h : z.prec = 0
    · simp only [h, beq_self_eq_true, if_true]; decide
    · simp only [beq_iff_eq, h, if_false]; omega
  unfold setBits64
  simp only [hpro, hx0, Bool.false_eq_true, if_false]
  obtain ⟨h1, h2, h3, _⟩ := setNormAndRound_correct
    { z with prec := p, acc := Exact, neg := neg, form := .finite } x exp false (x : ℚ) hx hp
    (by intro h; cases h) (by simp)
  exact ⟨h1, h2, h3⟩

theorem le_umax_right_a (a b : Nat) : b ≤ umax a b := by
  unfold umax; split <;> omega

/-- Precision of the receiver of `SetInt` for a non-zero integer of magnitude `M`. -/
def setIntPrec (z : Dec) (M : Nat) : Nat :=
  if z.prec == 0 then umax (if ndigits M > MaxPrec then MaxPrec else ndigits M) DefaultPrec else z.prec

theorem setInt_correct (z : Dec) (x : Int) (hx : x ≠ 0) :
    let p := setIntPrec z x.natAbs
    agrees (setInt z x) (Spec.round z.mode p (decide (x < 0)) (x.natAbs : ℚ) 0) = true
      ∧ (setInt z x).prec = p ∧ (setInt z x).mode = z.mode := by
  intro p
  have hx0 : (x == 0) = false := by simp [hx]
  have hM : 0 < x.natAbs := by omega
  have hp : 1 ≤ p := by
    show 1 ≤ setIntPrec z x.natAbs
    unfold setIntPrec
    by_cases h : z.prec = 0
    · simp only [h, beq_self_eq_true, if_true]
      have : (1 : Nat) ≤ DefaultPrec := by decide
      exact Nat.le_trans this (le_umax_right_a _ _)
    · simp only [beq_iff_eq, h, if_false]; omega
  unfold setInt
  simp only [hx0, Bool.false_eq_true, if_false]
  have hpro : (if z.prec == 0 then
        { z with acc := Exact, neg := decide (x < 0),
                 prec := umax (if ndigits x.natAbs > MaxPrec then MaxPrec else ndigits x.natAbs) DefaultPrec }
      else { z with acc := Exact, neg := decide (x < 0) })
      = { z with acc := Exact, neg := decide (x < 0), prec := p } := by
    show _ = { z with acc := Exact, neg := decide (x < 0), prec := setIntPrec z x.natAbs }
    unfold setIntPrec
    by_cases h : z.prec = 0 <;> simp [h]
  simp only [hpro]
  obtain ⟨h1, h2, h3, _⟩ := setNormAndRound_correct
    { z with acc := Exact, neg := decide (x < 0), prec := p } x.natAbs 0 false (x.natAbs : ℚ) hM hp
    (by intro h; cases h) (by simp)
  exact ⟨h1, h2, h3⟩

theorem nwords_le_of_lt_pow {M n : Nat} (h : M < B ^ n) : nwords M ≤ n := by
  rw [B_pow, ← ndigits_le_iff] at h
  rw [nwords_def]; omega

/-- `SetBitsExp` of a raw slice of `rawLen` words with value `M ≠ 0`: the value is
    `0.M × 10^exp` with `M` read as `rawLen` words, i.e. `M × 10^(exp − 19·rawLen)`. -/
theorem setBitsExp_correct (z : Dec) (M rawLen : Nat) (exp : Int) (hM : 0 < M)
    (hraw : M < B ^ rawLen) (hp : 1 ≤ z.prec) :
    agrees (setBitsExp z M rawLen exp)
        (Spec.round z.mode z.prec false (M : ℚ) (exp - ((rawLen * 19 : Nat) : Int))) = true
      ∧ (setBitsExp z M rawLen exp).prec = z.prec ∧ (setBitsExp z M rawLen exp).mode = z.mode := by
  have hM0 : (M == 0) = false := by simp; omega
  have hle := nwords_le_of_lt_pow hraw
  have hs := ndigits_add_dnormShift M
  have heq : setBitsExp z M rawLen exp =
      setNormAndRound { z with neg := false } M (exp - ((rawLen * 19 : Nat) : Int)) false := by
    unfold setBitsExp setNormAndRound
    simp only [hM0, Bool.false_eq_true, if_false, DW_eq]
    congr 1
    push_cast
    omega
  rw [heq]
  obtain ⟨h1, h2, h3, _⟩ := setNormAndRound_correct { z with neg := false } M
    (exp - ((rawLen * 19 : Nat) : Int)) false (M : ℚ) hM hp (by intro h; cases h) (by simp)
  exact ⟨h1, h2, h3⟩

/-- `z.SetMantExp(mant, exp)` = `mant × 10^exp` rounded to `mant`'s precision and mode. -/
theorem setMantExp_correct (z m : Dec) (exp : Int) (hm : FinCanon m) :
    agrees (setMantExp z m exp)
        (Spec.round m.mode m.prec m.neg (m.mant : ℚ) (intExp m + exp)) = true
      ∧ (setMantExp z m exp).prec = m.prec ∧ (setMantExp z m exp).mode = m.mode := by
  obtain ⟨hf, hlen, hnd, hmp, hmin, hmax⟩ := hm
  have hpos := FinCanon.mant_pos ⟨hf, hlen, hnd, hmp, hmin, hmax⟩
  unfold setMantExp copy
  simp only [Bool.false_eq_true, if_false, hf, beq_self_eq_true, if_true, bne_self_eq_false]
  rw [setExpAndRound_eq _ _ _ (by exact hnd)]
  have he : m.exp + exp - ((m.len * 19 : Nat) : Int) = intExp m + exp := by rw [intExp_eq]; omega
  simp only [he]
  obtain ⟨h1, h2, h3, _⟩ := setNormAndRound_correct
    ⟨.finite, m.neg, m.mant, m.len, m.exp, m.prec, m.mode, m.acc⟩ m.mant (intExp m + exp) false
    (m.mant : ℚ) hpos hmp (by intro h; cases h) (by simp)
  exact ⟨h1, h2, h3⟩

end Decimal
