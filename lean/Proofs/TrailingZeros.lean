/-
  `trailingZeros M` (the model of the trailing-zero count used by `MinPrec`) is the exponent of
  the largest power of ten dividing `M > 0`.  Shared by `Proofs/Conv.lean` (C14, C20) and
  `Proofs/GobRT.lean` (C17).
-/
import Proofs.Basic
import DecimalModel.Arith

namespace Decimal

theorem trailingZeros_zero : trailingZeros 0 = 0 := by
  rw [trailingZeros]; simp

theorem trailingZeros_of_mod_ne {M : Nat} (h : M % 10 ≠ 0) : trailingZeros M = 0 := by
  rw [trailingZeros]
  have : M ≠ 0 := by omega
  simp [this, h]

theorem trailingZeros_of_mod_eq {M : Nat} (h0 : M ≠ 0) (h : M % 10 = 0) :
    trailingZeros M = trailingZeros (M / 10) + 1 := by
  rw [trailingZeros]
  simp [h0, h]

/-- The characterisation: `10^k ∣ M ↔ k ≤ trailingZeros M` for `M > 0`. -/
theorem pow_dvd_iff_le_trailingZeros {M : Nat} (hM : 0 < M) (k : Nat) :
    10 ^ k ∣ M ↔ k ≤ trailingZeros M := by
  induction M using Nat.strongRecOn generalizing k with
  | _ M ih =>
    cases k with
    | zero => simp
    | succ k =>
      by_cases h10 : M % 10 = 0
      · have hM10 : 0 < M / 10 := by omega
        rw [trailingZeros_of_mod_eq (by omega) h10]
        have := ih (M / 10) (Nat.div_lt_self hM (by omega)) hM10 k
        have hM' : M = 10 * (M / 10) := by omega
        rw [Nat.pow_succ, Nat.mul_comm]
        constructor
        · intro hd
          have : 10 ^ k ∣ M / 10 := by
            rw [hM'] at hd
            exact Nat.dvd_of_mul_dvd_mul_left (by omega) hd
          omega
        · intro hk
          have hd : 10 ^ k ∣ M / 10 := this.mpr (by omega)
          rw [hM']
          exact Nat.mul_dvd_mul_left 10 hd
      · rw [trailingZeros_of_mod_ne h10]
        constructor
        · intro hd
          exfalso
          apply h10
          have : 10 ∣ M := Nat.dvd_trans ⟨10 ^ k, by rw [Nat.pow_succ, Nat.mul_comm]⟩ hd
          exact Nat.mod_eq_zero_of_dvd this
        · intro h; omega

theorem mod_pow_eq_zero_iff_le_trailingZeros {M : Nat} (hM : 0 < M) (k : Nat) :
    M % 10 ^ k = 0 ↔ k ≤ trailingZeros M := by
  rw [← pow_dvd_iff_le_trailingZeros hM, Nat.dvd_iff_mod_eq_zero]

theorem pow_trailingZeros_dvd_e (M : Nat) : 10 ^ trailingZeros M ∣ M := by
  rcases Nat.eq_zero_or_pos M with h | h
  · subst h; exact Nat.dvd_zero _
  · exact (pow_dvd_iff_le_trailingZeros h _).mpr (Nat.le_refl _)

/-- A positive number has fewer trailing zeros than digits. -/
theorem trailingZeros_lt_ndigits {M : Nat} (hM : 0 < M) : trailingZeros M < ndigits M := by
  have hd := pow_trailingZeros_dvd_e M
  have hle : 10 ^ trailingZeros M ≤ M := Nat.le_of_dvd hM hd
  exact (lt_ndigits_iff M _).mpr hle

theorem trailingZeros_mul_pow {M : Nat} (hM : 0 < M) (j : Nat) :
    trailingZeros (M * 10 ^ j) = trailingZeros M + j := by
  have hj : 0 < 10 ^ j := Nat.pow_pos (by omega)
  have hpos : 0 < M * 10 ^ j := Nat.mul_pos hM hj
  have key : ∀ k, k ≤ trailingZeros (M * 10 ^ j) ↔ k ≤ trailingZeros M + j := by
    intro k
    rw [← pow_dvd_iff_le_trailingZeros hpos]
    by_cases hkj : k ≤ j
    · constructor
      · intro _; omega
      · intro _
        have : 10 ^ k ∣ 10 ^ j := Nat.pow_dvd_pow 10 hkj
        exact Nat.dvd_trans this (Nat.dvd_mul_left _ _)
    · have hk : k = (k - j) + j := by omega
      rw [hk, Nat.pow_add]
      rw [Nat.mul_dvd_mul_iff_right hj, pow_dvd_iff_le_trailingZeros hM]
      omega
  have a := (key (trailingZeros (M * 10 ^ j))).mp (Nat.le_refl _)
  have b := (key (trailingZeros M + j)).mpr (Nat.le_refl _)
  omega

end Decimal
