/-
  Termination of the literal `sqrtInverse` (DecimalModel/SqrtLit.lean): explicit fuel bounds for the
  two correction loops in terms of the rank of the starting float and of the root
  (`corrLoop1_total`, `corrLoop2_total`), fuel monotonicity, the Newton loop (`newtonLoop_total`),
  and `sqrtLit_total_main`.
-/
import Proofs.SqrtLit

namespace Decimal
open Spec

/-! ### Order of floats as integers -/

/-- Rank of the `p1`-digit float `(c, e)`: strictly monotone in the value. -/
def frank (p1 : Nat) (c : Nat) (e : Int) : Int := e * (10 : Int) ^ p1 + c

theorem frank_lt_of_fval_lt {p1 c d : Nat} {e f : Int} (hp1 : 1 ≤ p1) (hc1 : 10 ^ (p1 - 1) ≤ c) (hc2 : c < 10 ^ p1)
    (_hd1 : 10 ^ (p1 - 1) ≤ d) (hd2 : d ≤ 10 ^ p1) (h : fval p1 c e < fval p1 d f) :
    frank p1 c e < frank p1 d f := by
  unfold frank
  have hT : (0 : Int) < (10 : Int) ^ p1 := by positivity
  have hcT : (c : Int) < (10 : Int) ^ p1 := by exact_mod_cast hc2
  rcases lt_trichotomy e f with hlt | heq | hgt
  · have : (e + 1) * (10 : Int) ^ p1 ≤ f * (10 : Int) ^ p1 := mul_le_mul_of_nonneg_right (by omega) (le_of_lt hT)
    have hd0 : (0 : Int) ≤ (d : Int) := Int.natCast_nonneg d
    nlinarith
  · subst heq
    unfold fval qval at h
    rw [mul_lt_mul_iff_of_pos_right (ten_zpow_pos _)] at h
    have : c < d := by exact_mod_cast h
    omega
  · exfalso
    have h1 := fval_hi hd2 f
    have h2 := fval_lo hp1 hc1 e
    have h3 : (10 : ℚ) ^ f ≤ (10 : ℚ) ^ (e - 1) := ten_zpow_le (by omega)
    exact absurd (lt_of_lt_of_le h (le_trans h1 (le_trans h3 h2))) (lt_irrefl _)

theorem fval_lt_of_sq {p1 : Nat} {x : Dec} {c d : Nat} {e f : Int} (h1 : sqLE p1 x c e) (h2 : ¬ sqLE p1 x d f) :
    fval p1 c e < fval p1 d f :=
  lt_of_sq_lt (qval_nonneg _ _) (qval_nonneg _ _) (lt_of_le_of_lt h1 (not_le.mp h2))

/-- The predecessor step lowers the rank. -/
theorem frank_pred {p1 : Nat} (c : Nat) (e : Int) (hp1 : 1 ≤ p1) (hc1 : 10 ^ (p1 - 1) ≤ c) :
    frank p1 (if 10 ^ (p1 - 1) < c then c - 1 else 10 ^ p1 - 10) (if 10 ^ (p1 - 1) < c then e else e - 1)
      ≤ frank p1 c e - 1 := by
  unfold frank
  have hpp : 10 ^ p1 = 10 ^ (p1 - 1) * 10 := by rw [← Nat.pow_succ]; congr 1; omega
  have hT : ((10 : Int) ^ p1) = ((10 ^ p1 : Nat) : Int) := by push_cast; rfl
  have h1 : 1 ≤ 10 ^ (p1 - 1) := ten_pow_pos _
  by_cases h : 10 ^ (p1 - 1) < c
  · simp only [h, if_true]; omega
  · simp only [h, if_false]
    rw [hT]
    generalize 10 ^ p1 = T at *
    have : ((T - 10 : Nat) : Int) = (T : Int) - 10 := by omega
    rw [this, sub_mul]
    omega

/-- The successor step raises the rank. -/
theorem frank_succ {p1 : Nat} (c : Nat) (e : Int) (_hp1 : 1 ≤ p1) (hc2 : c < 10 ^ p1) :
    frank p1 c e + 1 ≤
      frank p1 (if c + 1 < 10 ^ p1 then c + 1 else 10 ^ (p1 - 1)) (if c + 1 < 10 ^ p1 then e else e + 1) := by
  unfold frank
  have hT : ((10 : Int) ^ p1) = ((10 ^ p1 : Nat) : Int) := by push_cast; rfl
  by_cases h : c + 1 < 10 ^ p1
  · simp only [h, if_true]; push_cast; omega
  · simp only [h, if_false]
    rw [hT, add_mul]
    have : 0 ≤ ((10 ^ (p1 - 1) : Nat) : Int) := Int.natCast_nonneg _
    omega


/-! ### Termination of the correction loops -/

/-- The root float: the largest `p1`-digit float with square `≤ x`. -/
structure RootF (p1 : Nat) (x : Dec) (c0 : Nat) (e0 : Int) : Prop where
  lo : 10 ^ (p1 - 1) ≤ c0
  hi : c0 < 10 ^ p1
  le : sqLE p1 x c0 e0
  gt : ¬ sqLE p1 x (c0 + 1) e0

/-- Loop 1 terminates: from the float `(c, e)` it needs at most `rank(c, e) − rank(root)` passes
    (`c − c0` in the decade of the root). -/
theorem corrLoop1_total {p1 P : Nat} (x : Dec) (hx : WorkX x) (hp1 : 2 ≤ p1) (hpM : p1 ≤ 2147483647)
    (hP1 : 2 * p1 + 1 ≤ P) (hP2 : P ≤ MaxPrec) (c0 : Nat) (e0 : Int) (hroot : RootF p1 x c0 e0) :
    ∀ (n : Nat) (s sq ulp : Dec) (c : Nat) (e : Int), Rep p1 s c e → sq.prec = P →
      frank p1 c e - frank p1 c0 e0 ≤ n → ∀ fuel, n ≤ fuel → ∃ r, corrLoop1 x fuel s sq ulp = some r := by
  have hMin : MinExp = -2147483648 := rfl
  have hMP : MaxPrec = 4294967295 := rfl
  intro n
  induction n with
  | zero =>
    intro s sq ulp c e hR hsq hn fuel _
    obtain ⟨h1, h2, h3, -⟩ := cmp_rep sq s x c e hx hR (by omega) (by omega)
    have hle : sqLE p1 x c e := by
      by_contra hcon
      have := frank_lt_of_fval_lt (by omega) hroot.lo hroot.hi hR.lo (le_of_lt hR.hi) (fval_lt_of_sq hroot.le hcon)
      omega
    have hng : ¬ (cmp (mul sq s s).1 x > 0) := by rw [h3]; exact not_not.mpr hle
    cases fuel with
    | zero => rw [corrLoop1_zero]; simp [h1, hng]
    | succ f => rw [corrLoop1_succ]; simp [h1, hng]
  | succ n ih =>
    intro s sq ulp c e hR hsq hn fuel hfuel
    obtain ⟨h1, h2, h3, -⟩ := cmp_rep sq s x c e hx hR (by omega) (by omega)
    by_cases hle : sqLE p1 x c e
    · have hng : ¬ (cmp (mul sq s s).1 x > 0) := by rw [h3]; exact not_not.mpr hle
      cases fuel with
      | zero => rw [corrLoop1_zero]; simp [h1, hng]
      | succ f => rw [corrLoop1_succ]; simp [h1, hng]
    · have hgt : cmp (mul sq s s).1 x > 0 := h3.mpr hle
      have he0 : 0 ≤ e := by
        by_contra hcon
        exact hle (sqLE_of_exp_neg hx (le_of_lt hR.hi) (by omega))
      obtain ⟨g1, g2⟩ := sub_ulp_rep s ulp c e hR hp1 (by omega) (by omega)
      obtain ⟨f, rfl⟩ : ∃ f, fuel = f + 1 := ⟨fuel - 1, by omega⟩
      rw [corrLoop1_succ]
      simp only [h1, bne_self_eq_false, Bool.false_eq_true, if_false, hgt, if_true, g1]
      have hr := frank_pred (p1 := p1) c e (by omega) hR.lo
      exact ih _ _ _ _ _ g2 (by rw [h2, hsq]) (by omega) f (by omega)


/-- Loop 2 terminates: from the float `(c, e)` with `s² ≤ x` (and an `ulp` that does not underflow)
    it needs at most `rank(root) − rank(c, e) + 1` passes. -/
theorem corrLoop2_total {p1 P : Nat} (x : Dec) (hx : WorkX x) (hp1 : 2 ≤ p1) (hpM : p1 ≤ 2147483647)
    (hP1 : 2 * p1 + 1 ≤ P) (hP2 : P ≤ MaxPrec) (c0 : Nat) (e0 : Int) (hroot : RootF p1 x c0 e0) :
    ∀ (n : Nat) (s u sq ulp : Dec) (c : Nat) (e : Int), Rep p1 s c e → sqLE p1 x c e →
      MinExp + (p1 : Int) ≤ e + 1 → sq.prec = P →
      frank p1 c0 e0 - frank p1 c e ≤ n → ∀ fuel, n + 1 ≤ fuel → ∃ r, corrLoop2 x fuel s u sq ulp = some r := by
  have hMin : MinExp = -2147483648 := rfl
  have hMax : MaxExp = 2147483647 := rfl
  have hMP : MaxPrec = 4294967295 := rfl
  -- one pass, common to both cases of the induction
  have step : ∀ (s u sq ulp : Dec) (c : Nat) (e : Int) (f : Nat), Rep p1 s c e → sqLE p1 x c e →
      MinExp + (p1 : Int) ≤ e + 1 → sq.prec = P →
      (∃ r, corrLoop2 x (f + 1) s u sq ulp = some r) ∨
      ∃ s' u' sq' ulp' c' e', corrLoop2 x (f + 1) s u sq ulp = corrLoop2 x f s' u' sq' ulp' ∧
        Rep p1 s' c' e' ∧ sqLE p1 x c' e' ∧ MinExp + (p1 : Int) ≤ e' + 1 ∧ sq'.prec = P ∧
        frank p1 c e + 1 ≤ frank p1 c' e' ∧ frank p1 c' e' ≤ frank p1 c0 e0 := by
    intro s u sq ulp c e f hR hle hmin hsq
    rw [corrLoop2_succ]
    simp only
    have he1 : e ≤ 1 := exp_le_of_sqLE hx (by omega) hR.lo hle
    obtain ⟨hup, hum⟩ := setPrec_setMode_attr u p1 (by omega) (by omega)
    rw [hR.prec]
    generalize setMode (setPrec u p1) .ToZero = u0 at hup hum
    obtain ⟨g1, g2⟩ := add_ulp_rep u0 s ulp c e hR hup hum (by omega) (by omega) hmin (by omega)
    obtain ⟨h1, h2, h3, -⟩ := cmp_rep sq _ x _ _ hx g2 (by omega) (by omega)
    simp only [g1, h1, bne_self_eq_false, Bool.false_eq_true, if_false]
    by_cases hle' : sqLE p1 x (if c + 1 < 10 ^ p1 then c + 1 else 10 ^ (p1 - 1)) (if c + 1 < 10 ^ p1 then e else e + 1)
    · right
      have hng : ¬ (cmp (mul sq (add u0 s (litUlp ulp s)).1 (add u0 s (litUlp ulp s)).1).1 x > 0) := by
        rw [h3]; exact not_not.mpr hle'
      simp only [hng, if_false]
      refine ⟨_, _, _, _, _, _, rfl, set_rep s _ _ _ g2 hR.prec hR.mode (by omega), hle', ?_, by rw [h2, hsq],
        frank_succ c e (by omega) hR.hi, ?_⟩
      · split <;> omega
      · have := frank_lt_of_fval_lt (by omega) g2.lo g2.hi (by have := hroot.lo; omega) (by have := hroot.hi; omega)
          (fval_lt_of_sq hle' hroot.gt)
        unfold frank at this ⊢
        omega
    · left
      have hgt : cmp (mul sq (add u0 s (litUlp ulp s)).1 (add u0 s (litUlp ulp s)).1).1 x > 0 := h3.mpr hle'
      simp only [hgt, if_true]
      exact ⟨_, rfl⟩
  intro n
  induction n with
  | zero =>
    intro s u sq ulp c e hR hle hmin hsq hn fuel hfuel
    obtain ⟨f, rfl⟩ : ∃ f, fuel = f + 1 := ⟨fuel - 1, by omega⟩
    rcases step s u sq ulp c e f hR hle hmin hsq with h | ⟨s', u', sq', ulp', c', e', -, -, -, -, -, k1, k2⟩
    · exact h
    · omega
  | succ n ih =>
    intro s u sq ulp c e hR hle hmin hsq hn fuel hfuel
    obtain ⟨f, rfl⟩ : ∃ f, fuel = f + 1 := ⟨fuel - 1, by omega⟩
    rcases step s u sq ulp c e f hR hle hmin hsq with h | ⟨s', u', sq', ulp', c', e', k0, k3, k4, k5, k6, k1, k2⟩
    · exact h
    · rw [k0]
      exact ih s' u' sq' ulp' c' e' k3 k4 k5 k6 (by omega) f (by omega)

/-- Loop 2 from a zero: one more pass. -/
theorem corrLoop2_total_zero {p1 P : Nat} (x : Dec) (hx : WorkX x) (hp1 : 2 ≤ p1) (hpM : p1 ≤ 1073741824)
    (hP1 : 2 * p1 + 1 ≤ P) (hP2 : P ≤ MaxPrec) (c0 : Nat) (e0 : Int) (hroot : RootF p1 x c0 e0)
    (s u sq ulp : Dec) (hZ : RepZ p1 s) (hse : 0 ≤ s.exp) (hsq : sq.prec = P) (fuel : Nat)
    (hfuel : (frank p1 c0 e0 - frank p1 (10 ^ (p1 - 1)) (1 + s.exp - p1)).toNat + 2 ≤ fuel) :
    ∃ r, corrLoop2 x fuel s u sq ulp = some r := by
  have hMin : MinExp = -2147483648 := rfl
  have hMP : MaxPrec = 4294967295 := rfl
  obtain ⟨f, rfl⟩ : ∃ f, fuel = f + 1 := ⟨fuel - 1, by omega⟩
  rw [corrLoop2_succ]
  simp only
  obtain ⟨hup, hum⟩ := setPrec_setMode_attr u p1 (by omega) (by omega)
  rw [hZ.prec]
  generalize setMode (setPrec u p1) .ToZero = u0 at hup hum
  obtain ⟨g1, g2⟩ := add_zero_rep u0 s ulp hZ hup hum (by omega)
  obtain ⟨h1, h2, h3, -⟩ := cmp_rep sq _ x _ _ hx g2 (by omega) (by omega)
  have hsq' : sqLE p1 x (10 ^ (p1 - 1)) (1 + s.exp - p1) :=
    sqLE_of_exp_neg hx (Nat.pow_le_pow_right (by omega) (by omega)) (by have := hZ.expHi; omega)
  have hng : ¬ (cmp (mul sq (add u0 s (litUlp ulp s)).1 (add u0 s (litUlp ulp s)).1).1 x > 0) := by
    rw [h3]; exact not_not.mpr hsq'
  simp only [g1, h1, bne_self_eq_false, Bool.false_eq_true, if_false, hng]
  exact corrLoop2_total x hx hp1 (by omega) hP1 hP2 c0 e0 hroot _ _ _ _ _ _ _
    (set_rep s _ _ _ g2 hZ.prec hZ.mode (by omega)) hsq' (by omega) (by rw [h2, hsq])
    (Int.self_le_toNat _) f (by omega)


/-! ### Fuel monotonicity -/

theorem corrLoop1_mono1 (x : Dec) : ∀ (f : Nat) (s sq ulp : Dec) (r : (Dec × Dec × Dec) × Outcome),
    corrLoop1 x f s sq ulp = some r → corrLoop1 x (f + 1) s sq ulp = some r := by
  intro f
  induction f with
  | zero =>
    intro s sq ulp r h
    rw [corrLoop1_zero] at h
    rw [corrLoop1_succ]
    split at h
    · next h1 => rw [if_pos h1]; exact h
    · next h1 =>
      rw [if_neg h1]
      split at h
      · cases h
      · next h2 => rw [if_neg h2]; exact h
  | succ f ih =>
    intro s sq ulp r h
    rw [corrLoop1_succ] at h
    rw [corrLoop1_succ]
    split at h
    · next h1 => rw [if_pos h1]; exact h
    · next h1 =>
      rw [if_neg h1]
      split at h
      · next h2 =>
        rw [if_pos h2]
        split at h
        · next h3 => rw [if_pos h3]; exact h
        · next h3 => rw [if_neg h3]; exact ih _ _ _ _ h
      · next h2 => rw [if_neg h2]; exact h

theorem corrLoop1_mono (x : Dec) (f f' : Nat) (hf : f ≤ f') (s sq ulp : Dec) (r : (Dec × Dec × Dec) × Outcome)
    (h : corrLoop1 x f s sq ulp = some r) : corrLoop1 x f' s sq ulp = some r := by
  induction f' with
  | zero => have : f = 0 := by omega
            subst this; exact h
  | succ n ih =>
    by_cases hfn : f ≤ n
    · exact corrLoop1_mono1 x n s sq ulp r (ih hfn)
    · have : f = n + 1 := by omega
      subst this; exact h

theorem corrLoop2_mono1 (x : Dec) : ∀ (f : Nat) (s u sq ulp : Dec) (r : (Dec × Dec × Dec × Dec) × Outcome),
    corrLoop2 x f s u sq ulp = some r → corrLoop2 x (f + 1) s u sq ulp = some r := by
  intro f
  induction f with
  | zero => intro s u sq ulp r h; rw [corrLoop2] at h; cases h
  | succ f ih =>
    intro s u sq ulp r h
    rw [corrLoop2_succ] at h
    rw [corrLoop2_succ]
    simp only at h ⊢
    split at h
    · next h1 => rw [if_pos h1]; exact h
    · next h1 =>
      rw [if_neg h1]
      split at h
      · next h2 => rw [if_pos h2]; exact h
      · next h2 =>
        rw [if_neg h2]
        split at h
        · next h3 => rw [if_pos h3]; exact h
        · next h3 => rw [if_neg h3]; exact ih _ _ _ _ _ h

theorem corrLoop2_mono (x : Dec) (f f' : Nat) (hf : f ≤ f') (s u sq ulp : Dec)
    (r : (Dec × Dec × Dec × Dec) × Outcome)
    (h : corrLoop2 x f s u sq ulp = some r) : corrLoop2 x f' s u sq ulp = some r := by
  induction f' with
  | zero => have : f = 0 := by omega
            subst this; exact h
  | succ n ih =>
    by_cases hfn : f ≤ n
    · exact corrLoop2_mono1 x n s u sq ulp r (ih hfn)
    · have : f = n + 1 := by omega
      subst this; exact h

theorem newtonLoop_mono1 (prec : Nat) (x : Dec) : ∀ (f : Nat) (t u v : Dec) (r : (Dec × Dec × Dec) × Outcome),
    newtonLoop prec x f t u v = some r → newtonLoop prec x (f + 1) t u v = some r := by
  intro f
  induction f with
  | zero =>
    intro t u v r h
    rw [newtonLoop_zero] at h
    rw [newtonLoop_succ]
    split at h
    · cases h
    · next h1 => rw [if_neg h1]; exact h
  | succ f ih =>
    intro t u v r h
    rw [newtonLoop_succ] at h
    rw [newtonLoop_succ]
    split at h
    · next h1 =>
      rw [if_pos h1]
      split at h
      · next h2 => rw [if_pos h2]; exact ih _ _ _ _ h
      · next h2 => rw [if_neg h2]; exact h
    · next h1 => rw [if_neg h1]; exact h

theorem newtonLoop_mono (prec : Nat) (x : Dec) (f f' : Nat) (hf : f ≤ f') (t u v : Dec)
    (r : (Dec × Dec × Dec) × Outcome)
    (h : newtonLoop prec x f t u v = some r) : newtonLoop prec x f' t u v = some r := by
  induction f' with
  | zero => have : f = 0 := by omega
            subst this; exact h
  | succ n ih =>
    by_cases hfn : f ≤ n
    · exact newtonLoop_mono1 prec x n t u v r (ih hfn)
    · have : f = n + 1 := by omega
      subst this; exact h

/-- The Newton loop terminates within `prec − t.prec` passes (the precision at least doubles
    minus 2, so in fact within `log₂`), as soon as `t.prec ≥ 3`. -/
theorem newtonLoop_total (prec : Nat) (x : Dec) (hxf : x.form = .finite) (hxm : 0 < x.mant)
    (hprec : prec ≤ 2147483649) :
    ∀ (n : Nat) (t u v : Dec), PosMant t → 3 ≤ t.prec → prec - t.prec ≤ n →
      ∀ fuel, n ≤ fuel → ∃ r, newtonLoop prec x fuel t u v = some r := by
  intro n
  induction n with
  | zero =>
    intro t u v _ _ hn fuel _
    have : ¬ (t.prec < prec) := by omega
    cases fuel with
    | zero => rw [newtonLoop_zero, if_neg this]; exact ⟨_, rfl⟩
    | succ f => rw [newtonLoop_succ, if_neg this]; exact ⟨_, rfl⟩
  | succ n ih =>
    intro t u v ht hp hn fuel hfuel
    by_cases hlt : t.prec < prec
    · obtain ⟨f, rfl⟩ : ∃ f, fuel = f + 1 := ⟨fuel - 1, by omega⟩
      obtain ⟨s1, s2, s3⟩ := newtonStep_spec x t u v hxf hxm ht (by omega) (by omega)
      rw [newtonLoop_succ, if_pos hlt, if_pos s1]
      exact ih _ _ _ (PosMant.of_canonical s2) (by omega) (by omega) f (by omega)
    · cases fuel with
      | zero => rw [newtonLoop_zero, if_neg hlt]; exact ⟨_, rfl⟩
      | succ f => rw [newtonLoop_succ, if_neg hlt]; exact ⟨_, rfl⟩


/-! ### Totality of `sqrtInverse` and `Sqrt` -/

theorem rootF_exists {p1 : Nat} {x : Dec} (hx : WorkX x) (hp1 : 1 ≤ p1) : ∃ c0 e0, RootF p1 x c0 e0 := by
  obtain ⟨k1, k2, k3, k4, -⟩ := sqrtCandidate_bracket x.mant x.len x.exp p1 hp1 hx.fin.len_pos hx.fin.nd
    (by have := hx.exp; omega)
  generalize sqrtCandidate x.mant x.len x.exp p1 = cand at *
  obtain ⟨c0, se, inex⟩ := cand
  simp only at k1 k2 k3 k4
  rw [← k1] at k3 k4
  have hc0pos : 0 < c0 := by
    rcases Nat.eq_zero_or_pos c0 with h0 | h0
    · rw [h0, ndigits_zero] at k2; omega
    · exact h0
  refine ⟨c0, se, ?_, ?_, ?_, ?_⟩
  · have := pow_le_of_ndigits hc0pos; rwa [k2] at this
  · have := ndigits_lt_pow c0; rwa [k2] at this
  · rw [sqLE_iff_nat]; exact k3
  · rw [sqLE_iff_nat]; exact Nat.not_le.mpr k4

theorem corrLoop1_of_zero {p1 : Nat} (x : Dec) (hx : WorkX x) (s sq ulp : Dec) (hZ : RepZ p1 s) (hP : 1 ≤ sq.prec)
    (fuel : Nat) : corrLoop1 x fuel s sq ulp = some ((s, (mul sq s s).1, ulp), .ok) := by
  obtain ⟨h1, -, -, h4⟩ := mul_zero_cmp sq s x hZ.form hx hP
  have : ¬ ((-1 : Int) > 0) := by omega
  cases fuel with
  | zero => rw [corrLoop1_zero]; simp [h1, h4]
  | succ f => rw [corrLoop1_succ]; simp [h1, h4]

/-- The exponent of a zero `s = x·t` is that of the fresh Decimal. -/
theorem litS_zero_exp (z x t : Dec) (p : Nat) (hzp : z.prec = p) (hp2 : p + 1 ≤ MaxPrec)
    (hf : (litS z x t).1.form = .zero) : (litS z x t).1.exp = 0 := by
  unfold litS at hf ⊢
  rw [hzp, litS_s0 p hp2] at hf ⊢
  have hmk : mul ({ prec := p + 1, mode := .ToZero } : Dec) x t = mulK { prec := p + 1, mode := .ToZero } x t := by
    rw [mul_eq_mulK' _ _ _ _ _ (by simp)]; rfl
  rw [hmk] at hf ⊢
  unfold mulK at hf ⊢
  simp only at hf ⊢
  split at hf
  · next h =>
    rw [if_pos h]
    simp only [umul] at hf ⊢
    exact snr_zero_exp _ _ _ _ hf
  · next h =>
    rw [if_neg h]
    split
    · rfl
    · split <;> rfl

/-- The correction part terminates when `s = x·t` is zero or a positive float whose `ulp` does not
    underflow. -/
theorem sqrtCorrect_total (z t u : Dec) (p : Nat) (hzp : z.prec = p) (hz : WorkX z)
    (ht : PosMant t) (hp1 : 1 ≤ p) (hp2 : p + 1 ≤ 1073741824)
    (hneg : (litS z z t).1.neg = false) (hinf : (litS z z t).1.form ≠ .inf)
    (hexp : (litS z z t).1.form = .finite → MinExp + ((p + 1 : Nat) : Int) ≤ (litS z z t).1.exp + 1) :
    ∃ N, ∀ fuel, N ≤ fuel → ∃ r, sqrtCorrect fuel z t u = some r := by
  have hMP : MaxPrec = 4294967295 := rfl
  have hMin : MinExp = -2147483648 := rfl
  obtain ⟨l1, l2⟩ := litS_inv1 z z t p hzp hz ht hp1 (by omega) hneg hinf
  obtain ⟨c0, e0, hroot⟩ := rootF_exists (p1 := p + 1) hz (by omega)
  have hzero := litS_zero_exp z z t p hzp (by omega)
  have hsprec : (litS z z t).1.prec = p + 1 := by
    rcases l2 with h | ⟨c, e, h⟩
    · exact h.prec
    · exact h.prec
  have hsq : (setPrec {} (2 * (p + 1) + 2)).prec = 2 * (p + 1) + 2 := setPrec_fresh _ (by omega) (by omega)
  -- it suffices to run the two loops
  have key : (∃ N, ∀ fuel, N ≤ fuel → ∃ r1 r2, corrLoop1 z fuel (litS z z t).1 (setPrec {} (2 * (p + 1) + 2)) {} = some (r1, .ok) ∧
      corrLoop2 z fuel r1.1 u r1.2.1 r1.2.2 = some (r2, .ok)) →
      ∃ N, ∀ fuel, N ≤ fuel → ∃ r, sqrtCorrect fuel z t u = some r := by
    rintro ⟨N, hN⟩
    refine ⟨N, fun fuel hfuel => ?_⟩
    obtain ⟨⟨s1, sq1, ulp1⟩, ⟨s2, u2, sq2, ulp2⟩, k1, k2⟩ := hN fuel hfuel
    unfold sqrtCorrect
    simp only [l1, bne_self_eq_false, Bool.false_eq_true, if_false, hsprec, k1, k2]
    split <;> exact ⟨_, rfl⟩
  apply key
  generalize (litS z z t).1 = s0 at *
  generalize setPrec {} (2 * (p + 1) + 2) = sq0 at *
  rcases l2 with hZ | ⟨c, e, hR⟩
  · -- s = 0
    have hl1 := corrLoop1_of_zero z hz s0 sq0 {} hZ (by omega)
    have hs0e := hzero hZ.form
    obtain ⟨-, m2, -, -⟩ := mul_zero_cmp sq0 s0 z hZ.form hz (by omega)
    refine ⟨(frank (p + 1) c0 e0 - frank (p + 1) (10 ^ (p + 1 - 1)) (1 + s0.exp - (p + 1 : Nat))).toNat + 2,
      fun fuel hfuel => ?_⟩
    obtain ⟨⟨r2, o2⟩, hr2⟩ := corrLoop2_total_zero (p1 := p + 1) (P := 2 * (p + 1) + 2) z hz (by omega) (by omega)
      (by omega) (by omega) c0 e0 hroot s0 u (mul sq0 s0 s0).1 {} hZ (by omega) (by rw [m2, hsq]) fuel hfuel
    obtain ⟨o2ok, -⟩ := corrLoop2_spec (p1 := p + 1) (P := 2 * (p + 1) + 2) z hz (by omega) (by omega) (by omega)
      (by omega) fuel s0 u (mul sq0 s0 s0).1 {} r2 o2 (Or.inl hZ) (by rw [m2, hsq]) hr2
    subst o2ok
    exact ⟨_, r2, hl1 fuel, hr2⟩
  · -- s is a float
    obtain ⟨⟨r1, o1⟩, hr1⟩ := corrLoop1_total (p1 := p + 1) (P := 2 * (p + 1) + 2) z hz (by omega) (by omega) (by omega)
      (by omega) c0 e0 hroot _ s0 sq0 {} c e hR hsq (Int.self_le_toNat _) _ (Nat.le_refl _)
    obtain ⟨a1, a2, a3, a4, a5⟩ := corrLoop1_spec (p1 := p + 1) (P := 2 * (p + 1) + 2) z hz (by omega) (by omega)
      (by omega) (by omega) _ s0 sq0 {} r1 o1 (Or.inr ⟨c, e, hR⟩) hsq hr1
    subst a1
    obtain ⟨s1, sq1, ulp1⟩ := r1
    simp only at a2 a3 a4 a5
    have hs1f : s1.form = .finite := a5 hR.fin.form_eq
    have hs1e := a4 (MinExp + ((p + 1 : Nat) : Int) - 1) (by push_cast; omega) (fun h => by have := hexp h; omega) hs1f
    rcases a2 with hZ | ⟨c1, e1, hR1, hle1⟩
    · rw [hZ.form] at hs1f; cases hs1f
    · obtain ⟨⟨r2, o2⟩, hr2⟩ := corrLoop2_total (p1 := p + 1) (P := 2 * (p + 1) + 2) z hz (by omega) (by omega) (by omega)
        (by omega) c0 e0 hroot _ s1 u sq1 ulp1 c1 e1 hR1 hle1 (by rw [← hR1.exp]; omega) a3
        (Int.self_le_toNat _) _ (Nat.le_refl _)
      obtain ⟨o2ok, -⟩ := corrLoop2_spec (p1 := p + 1) (P := 2 * (p + 1) + 2) z hz (by omega) (by omega) (by omega)
        (by omega) _ s1 u sq1 ulp1 r2 o2 (Or.inr ⟨c1, e1, hR1, hle1⟩) a3 hr2
      subst o2ok
      refine ⟨max (frank (p + 1) c e - frank (p + 1) c0 e0).toNat
        ((frank (p + 1) c0 e0 - frank (p + 1) c1 e1).toNat + 1), fun fuel hfuel => ?_⟩
      exact ⟨(s1, sq1, ulp1), r2, corrLoop1_mono z _ fuel (by omega) _ _ _ _ hr1,
        corrLoop2_mono z _ fuel (by omega) _ _ _ _ _ hr2⟩


/-- Hypothesis of the totality theorem on the results `t` of the Newton loop, stated on
    `s = x·t`: not negative, not infinite, and (if not zero) with an `ulp` that does not underflow. -/
def NewtonGoodT (t0 zw : Dec) : Prop :=
  ∀ fuel t u v, newtonLoop (u32 ((zw.prec : Int) + 2)) zw fuel t0 {} {} = some ((t, u, v), .ok) →
    (litS zw zw t).1.neg = false ∧ (litS zw zw t).1.form ≠ .inf ∧
      ((litS zw zw t).1.form = .finite → MinExp + ((zw.prec + 1 : Nat) : Int) ≤ (litS zw zw t).1.exp + 1)

theorem sqrtInverseLit_total (t0 zw : Dec) (p : Nat) (hzp : zw.prec = p) (hz : WorkX zw)
    (ht0 : PosMant t0) (ht0p : 3 ≤ t0.prec) (hp1 : 1 ≤ p) (hp2 : p + 1 ≤ 1073741824)
    (hgood : NewtonGoodT t0 zw) :
    ∃ N, ∀ fuel, N ≤ fuel → ∃ r, sqrtInverseLit fuel t0 zw = some r := by
  have hMP : MaxPrec = 4294967295 := rfl
  have hprec : u32 ((zw.prec : Int) + 2) = p + 2 := by rw [hzp, u32_prec p (by omega)]
  obtain ⟨⟨rN, oN⟩, hN⟩ := newtonLoop_total (p + 2) zw hz.fin.form_eq hz.fin.mant_pos (by omega)
    (p + 2 - t0.prec) t0 {} {} ht0 ht0p (Nat.le_refl _) _ (Nat.le_refl _)
  obtain ⟨n1, n2⟩ := newtonLoop_spec (p + 2) zw hz.fin.form_eq hz.fin.mant_pos (by omega) _ t0 {} {} rN oN ht0
    (by omega) hN
  subst n1
  obtain ⟨t, u, v⟩ := rN
  simp only at n2
  obtain ⟨g1, g2, g3⟩ := hgood (p + 2 - t0.prec) t u v (by rw [hprec]; exact hN)
  rw [hzp] at g3
  obtain ⟨N1, hN1⟩ := sqrtCorrect_total zw t u p hzp hz n2 hp1 hp2 g1 g2 g3
  refine ⟨max (p + 2 - t0.prec) N1, fun fuel hfuel => ?_⟩
  have := newtonLoop_mono (p + 2) zw _ fuel (by omega) t0 {} {} _ hN
  unfold sqrtInverseLit
  simp only [hprec, this, bne_self_eq_false, Bool.false_eq_true, if_false]
  exact hN1 fuel (by omega)

/-- Totality of the literal `Sqrt`. -/
theorem sqrtLit_total_main (t0 z x : Dec) (same : Bool)
    (hX : (opnd (prologue z x.prec) x same).form = .finite → (opnd (prologue z x.prec) x same).neg = false →
      0 < (opnd (prologue z x.prec) x same).len ∧
      ndigits (opnd (prologue z x.prec) x same).mant = (opnd (prologue z x.prec) x same).len * 19 ∧
      MinExp ≤ (opnd (prologue z x.prec) x same).exp ∧ (opnd (prologue z x.prec) x same).exp ≤ MaxExp ∧
      1 ≤ (prologue z x.prec).prec ∧ (prologue z x.prec).prec + 1 ≤ 1073741824 ∧
      NewtonGoodT t0 (sqrtWorkOf z x same))
    (ht0 : PosMant t0) (ht0p : 3 ≤ t0.prec) :
    ∃ N, ∀ fuel, N ≤ fuel → ∃ r, sqrtLit fuel t0 z x same = some r := by
  simp only [sqrtLit_eq_K]
  unfold sqrtWorkOf at hX
  generalize prologue z x.prec = z' at *
  have hw := sqrtWork_eq z' x same
  generalize opnd z' x same = X at *
  unfold sqrtLitK
  by_cases h1 : (X.form != .zero && X.neg) = true
  · exact ⟨0, fun fuel _ => ⟨_, by rw [if_pos h1]⟩⟩
  by_cases h2 : (X.form != .finite) = true
  · exact ⟨0, fun fuel _ => ⟨_, by rw [if_neg h1, if_pos h2]⟩⟩
  have hXf : X.form = .finite := by simpa using h2
  have hXn : X.neg = false := by
    simp only [hXf, Bool.and_eq_true, bne_iff_ne, ne_eq, not_and, Bool.not_eq_true] at h1
    exact h1 (by simp)
  obtain ⟨x1, x2, x3, x4, hp1, hp2, hgood⟩ := hX hXf hXn
  obtain ⟨g1, g2, -, -⟩ := goMod2_goDiv2 X.exp
  rw [hw hXf] at hgood ⊢
  simp only at hgood ⊢
  generalize hzw : ({ X with exp := goMod2 X.exp, prec := z'.prec, mode := z'.mode } : Dec) = zw at *
  have hzwp : zw.prec = z'.prec := by rw [← hzw]
  have hW : WorkX zw := by
    rw [← hzw]
    exact ⟨⟨hXf, x1, x2, hp1, by simp only [MinExp]; omega, by simp only [MaxExp]; omega⟩, hXn, by simp only; omega⟩
  obtain ⟨N, hN⟩ := sqrtInverseLit_total t0 zw z'.prec hzwp hW ht0 ht0p hp1 hp2 hgood
  refine ⟨N, fun fuel hfuel => ?_⟩
  obtain ⟨⟨z1, o⟩, hr⟩ := hN fuel hfuel
  rw [if_neg h1, if_neg h2, hr]
  simp only
  split <;> exact ⟨_, rfl⟩


/-! ### A sufficient condition on the Newton result `t` -/

/-- `roundInt` of a magnitude whose exponent leaves room for a carry is finite, with the exponent
    of the magnitude or one more. -/
theorem roundInt_finite_exp (mode : Mode) (p : Nat) (neg : Bool) (N : Nat) (k : Int)
    (h1 : MinExp ≤ (ndigits N : Int) + k) (h2 : (ndigits N : Int) + k + 1 ≤ MaxExp) :
    (roundInt mode p neg N k false).form = .finite ∧
      ((roundInt mode p neg N k false).exp = (ndigits N : Int) + k ∨
       (roundInt mode p neg N k false).exp = (ndigits N : Int) + k + 1) := by
  by_cases hfit : ndigits N ≤ p
  · rw [roundInt_fit mode p neg N k hfit (by omega) (by omega)]
    exact ⟨rfl, Or.inl rfl⟩
  · obtain ⟨a, -, c⟩ := roundInt_shift mode p neg N k 0 false (by omega) h1 h2 (by omega) (by omega)
    exact ⟨a, c⟩

/-- If the Newton result `t` is zero, or positive finite with an exponent away from the range
    limits, then `s = x·t` is as the theorems need it. -/
theorem litS_of_t (z x t : Dec) (p : Nat) (hzp : z.prec = p) (hx : WorkX x) (ht : PosMant t) (hp1 : 1 ≤ p)
    (hp2 : p + 1 ≤ MaxPrec) (hn : t.neg = false) (hi : t.form ≠ .inf)
    (he : t.form = .finite → MinExp + (p : Int) + 3 ≤ t.exp ∧ t.exp ≤ MaxExp - 2)
    (hnd : t.form = .finite → ndigits t.mant = t.len * 19) :
    (litS z x t).1.neg = false ∧ (litS z x t).1.form ≠ .inf ∧
      ((litS z x t).1.form = .finite → MinExp + ((p + 1 : Nat) : Int) ≤ (litS z x t).1.exp + 1) := by
  have hMin : MinExp = -2147483648 := rfl
  have hMax : MaxExp = 2147483647 := rfl
  unfold litS
  rw [hzp, litS_s0 p hp2]
  have hmk : mul ({ prec := p + 1, mode := .ToZero } : Dec) x t = mulK { prec := p + 1, mode := .ToZero } x t := by
    rw [mul_eq_mulK' _ _ _ _ _ (by simp)]; rfl
  rw [hmk]
  have hxf := hx.fin.form_eq
  cases htf : t.form
  · have : mulK ({ prec := p + 1, mode := .ToZero } : Dec) x t =
        ({ prec := p + 1, mode := .ToZero, neg := x.neg != t.neg, acc := Exact, form := .zero }, .ok) := by
      simp [mulK, hxf, htf]
    rw [this]
    refine ⟨by simp [hx.neg, hn], by simp, fun h => by cases h⟩
  · have hm : mulK ({ prec := p + 1, mode := .ToZero } : Dec) x t =
        (setNormAndRound { prec := p + 1, mode := .ToZero, neg := x.neg != t.neg } (x.mant * t.mant)
          (intExp x + intExp t) false, .ok) := by
      simp [mulK, hxf, htf, umul]
    rw [hm]
    simp only
    have hM : 0 < x.mant * t.mant := Nat.mul_pos hx.fin.mant_pos (ht htf)
    obtain ⟨hag, -, -, hneg'⟩ := setNormAndRound_eq_roundInt
      { prec := p + 1, mode := .ToZero, neg := x.neg != t.neg } (x.mant * t.mant) (intExp x + intExp t) false hM
      (by simp) (by intro h; cases h)
    simp only at hag hneg'
    -- the exponent of the exact product
    have hndM : (ndigits (x.mant * t.mant) : Int) + (intExp x + intExp t) ≤ x.exp + t.exp ∧
        x.exp + t.exp - 1 ≤ (ndigits (x.mant * t.mant) : Int) + (intExp x + intExp t) := by
      have hb := qval_bounds hM (intExp x + intExp t)
      rw [qval_mul] at hb
      have hbx := qval_bounds hx.fin.mant_pos (intExp x)
      have hbt := qval_bounds (ht htf) (intExp t)
      rw [hx.fin.nd, intExp_eq] at hbx
      rw [hnd htf, intExp_eq] at hbt
      have ex : ((x.len * 19 : Nat) : Int) + (x.exp - ((x.len * 19 : Nat) : Int)) = x.exp := by omega
      have et : ((t.len * 19 : Nat) : Int) + (t.exp - ((t.len * 19 : Nat) : Int)) = t.exp := by omega
      rw [ex] at hbx
      rw [et] at hbt
      have h10 : (10 : ℚ) ≠ 0 := by norm_num
      have px := qval_pos hx.fin.mant_pos (x.exp - ((x.len * 19 : Nat) : Int))
      have pt := qval_pos (ht htf) (t.exp - ((t.len * 19 : Nat) : Int))
      rw [intExp_eq, intExp_eq] at hb
      have ix := intExp_eq x
      have it := intExp_eq t
      constructor
      · -- 10^(nd+k-1) ≤ product < 10^(x.exp+t.exp)
        have hlt : qval x.mant (x.exp - ((x.len * 19 : Nat) : Int)) * qval t.mant (t.exp - ((t.len * 19 : Nat) : Int))
            < (10 : ℚ) ^ (x.exp + t.exp) := by
          rw [zpow_add₀ h10]
          exact mul_lt_mul'' hbx.2 hbt.2 (le_of_lt px) (le_of_lt pt)
        have := lt_of_le_of_lt hb.1 hlt
        have := (zpow_lt_zpow_iff_right₀ (by norm_num : (1 : ℚ) < 10)).mp this
        omega
      · have hle : (10 : ℚ) ^ (x.exp - 1 + (t.exp - 1)) ≤
            qval x.mant (x.exp - ((x.len * 19 : Nat) : Int)) * qval t.mant (t.exp - ((t.len * 19 : Nat) : Int)) := by
          rw [zpow_add₀ h10]
          exact mul_le_mul hbx.1 hbt.1 (le_of_lt (ten_zpow_pos _)) (le_of_lt px)
        have := lt_of_le_of_lt hle hb.2
        have := (zpow_lt_zpow_iff_right₀ (by norm_num : (1 : ℚ) < 10)).mp this
        omega
    obtain ⟨hte1, hte2⟩ := he htf
    have hxe := hx.exp
    obtain ⟨rf, re⟩ := roundInt_finite_exp .ToZero (p + 1) (x.neg != t.neg) (x.mant * t.mant) (intExp x + intExp t)
      (by omega) (by omega)
    have hag' := (agrees_iff _ _).mp hag
    have hsf : (setNormAndRound { prec := p + 1, mode := .ToZero, neg := x.neg != t.neg } (x.mant * t.mant)
        (intExp x + intExp t) false).form = .finite := by rw [hag'.1, rf]
    refine ⟨by rw [hneg', hx.neg, hn]; rfl, by rw [hsf]; simp, fun _ => ?_⟩
    rw [(hag'.2.2.2 hsf).1]
    push_cast
    omega
  · exact absurd htf hi


/-- When the seed is already precise enough (`z.prec + 2 ≤ t0.prec`, e.g. `z.prec ≤ 15` for the
    17-digit seed of the Go code) the Newton loop does nothing. -/
theorem newtonLoop_noIter (prec : Nat) (x t u v : Dec) (h : prec ≤ t.prec) (fuel : Nat) :
    newtonLoop prec x fuel t u v = some ((t, u, v), .ok) := by
  have : ¬ (t.prec < prec) := by omega
  cases fuel with
  | zero => rw [newtonLoop_zero, if_neg this]
  | succ f => rw [newtonLoop_succ, if_neg this]

/-- A seed that is zero or positive finite canonical with an exponent away from the range limits. -/
structure SeedOK (p : Nat) (t0 : Dec) : Prop where
  neg : t0.neg = false
  notInf : t0.form ≠ .inf
  posMant : PosMant t0
  nd : t0.form = .finite → ndigits t0.mant = t0.len * 19
  exp : t0.form = .finite → MinExp + (p : Int) + 3 ≤ t0.exp ∧ t0.exp ≤ MaxExp - 2

theorem newtonGood_of_noIter (t0 zw : Dec) (p : Nat) (hzp : zw.prec = p) (hz : WorkX zw) (hp1 : 1 ≤ p)
    (hp2 : p + 2 ≤ t0.prec) (hp3 : p + 2 ≤ 4294967295) (hs : SeedOK p t0) : NewtonGoodT t0 zw := by
  have hprec : u32 ((zw.prec : Int) + 2) = p + 2 := by rw [hzp, u32_prec p hp3]
  have hMP : MaxPrec = 4294967295 := rfl
  have key : ∀ fuel t u v, newtonLoop (u32 ((zw.prec : Int) + 2)) zw fuel t0 {} {} = some ((t, u, v), .ok) → t = t0 := by
    intro fuel t u v h
    rw [hprec, newtonLoop_noIter (p + 2) zw t0 {} {} hp2 fuel] at h
    simp only [Option.some.injEq, Prod.mk.injEq] at h
    exact h.1.1.symm
  have hgood := litS_of_t zw zw t0 p hzp hz hs.posMant hp1 (by omega) hs.neg hs.notInf hs.exp hs.nd
  intro fuel t u v h
  rw [key fuel t u v h, hzp]
  exact hgood

end Decimal
