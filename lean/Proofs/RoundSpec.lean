/-
  The integer specification `Spec.roundInt` equals the rational specification `Spec.round`.

    1. `pow10Rat e = 10^e`, `decExp q` brackets `q` and is the unique such exponent;
    2. floor and discarded fraction of `q / 10^r` for `N ≤ q < N + 1` (`cut_facts`);
    3. the rational decisions equal the integer ones (`frac_exact_eq`, `frac_incr_eq`);
    4. `roundInt_eq_round`.

  The statement was first evaluated (`#eval`, 1 021 608 instances: 153 values of `N`,
  `q − N ∈ {0, 1/2, 1/3, 10^-6, 999/1000, 2/3, 7/10}`, precisions 1–25, six modes, both signs,
  14 exponents around 0 and both range limits): no mismatch. It is proved as requested; the
  hypothesis `1 ≤ p` turned out not to be needed by the proof and is kept only so that the
  statement is the requested one.
-/
import Proofs.Round
import Mathlib.Data.Rat.Floor
import Mathlib.Algebra.Order.Field.Power
import Mathlib.Tactic.Linarith
import Mathlib.Tactic.Ring
import Mathlib.Tactic.Positivity
import Mathlib.Tactic.FieldSimp
import Mathlib.Tactic.NormNum

namespace Decimal
open Spec

theorem pow10Rat_eq_zpow (e : Int) : pow10Rat e = (10 : ℚ) ^ e := by
  unfold pow10Rat
  split
  · rename_i h
    obtain ⟨n, rfl⟩ := Int.eq_ofNat_of_zero_le h
    simp
  · rename_i h
    obtain ⟨n, hn⟩ := Int.eq_ofNat_of_zero_le (show 0 ≤ -e by omega)
    have : e = -(n : Int) := by omega
    subst this
    simp

theorem ndigits_cast_bounds {a : Nat} (ha : 0 < a) :
    (10 : ℚ) ^ (ndigits a - 1) ≤ (a : ℚ) ∧ (a : ℚ) < (10 : ℚ) ^ ndigits a := by
  constructor
  · exact_mod_cast pow_le_of_ndigits ha
  · exact_mod_cast ndigits_lt_pow a

/-- The decimal exponent computed by `decExp` brackets `q`. -/
theorem decExp_bounds {q : ℚ} (hq : 0 < q) :
    (10 : ℚ) ^ (decExp q - 1) ≤ q ∧ q < (10 : ℚ) ^ decExp q := by
  have hnum : 0 < q.num := Rat.num_pos.mpr hq
  have hden : 0 < q.den := q.den_pos
  obtain ⟨a, ha⟩ := Int.eq_ofNat_of_zero_le (le_of_lt hnum)
  have hapos : 0 < a := by omega
  have hqa : q = (a : ℚ) / (q.den : ℚ) := by
    have := Rat.num_div_den q
    rw [ha, Int.cast_natCast] at this
    exact this.symm
  have hna : q.num.natAbs = a := by omega
  obtain ⟨ha1, ha2⟩ := ndigits_cast_bounds hapos
  obtain ⟨hb1, hb2⟩ := ndigits_cast_bounds hden
  have hda := ndigits_pos hapos
  have hdb := ndigits_pos hden
  unfold decExp
  simp only [hna, pow10Rat_eq_zpow]
  generalize q.den = b at *
  have hbpos : (0 : ℚ) < b := by exact_mod_cast hden
  have hapos' : (0 : ℚ) < a := by exact_mod_cast hapos
  have h10 : (0 : ℚ) < 10 := by norm_num
  -- lower and upper bounds at `e0`
  have hlow : (10 : ℚ) ^ ((ndigits a : Int) - ndigits b - 1) < q := by
    have : ((ndigits a : Int) - ndigits b - 1) = ((ndigits a - 1 : Nat) : Int) - (ndigits b : Nat) := by omega
    rw [this, zpow_sub₀ (by norm_num), zpow_natCast, zpow_natCast, hqa, div_lt_div_iff₀ (by positivity) hbpos]
    calc (10 : ℚ) ^ (ndigits a - 1) * b < 10 ^ (ndigits a - 1) * 10 ^ ndigits b := by
          apply mul_lt_mul_of_pos_left hb2 (by positivity)
      _ ≤ a * 10 ^ ndigits b := by
          apply mul_le_mul_of_nonneg_right ha1 (by positivity)
  have hhigh : q < (10 : ℚ) ^ ((ndigits a : Int) - ndigits b + 1) := by
    have : ((ndigits a : Int) - ndigits b + 1) = ((ndigits a : Nat) : Int) - ((ndigits b - 1 : Nat) : Int) := by omega
    rw [this, zpow_sub₀ (by norm_num), zpow_natCast, zpow_natCast, hqa, div_lt_div_iff₀ hbpos (by positivity)]
    calc (a : ℚ) * 10 ^ (ndigits b - 1) < 10 ^ ndigits a * 10 ^ (ndigits b - 1) := by
          apply mul_lt_mul_of_pos_right ha2 (by positivity)
      _ ≤ 10 ^ ndigits a * b := by
          apply mul_le_mul_of_nonneg_left hb1 (by positivity)
  split
  · rename_i h
    exact ⟨le_of_lt hlow, h⟩
  · rename_i h
    rw [add_sub_cancel_right]
    exact ⟨not_lt.mp h, hhigh⟩

theorem decExp_unique {q : ℚ} (hq : 0 < q) (e : Int)
    (h1 : (10 : ℚ) ^ (e - 1) ≤ q) (h2 : q < (10 : ℚ) ^ e) : decExp q = e := by
  obtain ⟨b1, b2⟩ := decExp_bounds hq
  have h10 : (1 : ℚ) < 10 := by norm_num
  have c1 := (zpow_lt_zpow_iff_right₀ h10).mp (lt_of_le_of_lt h1 b2)
  have c2 := (zpow_lt_zpow_iff_right₀ h10).mp (lt_of_le_of_lt b1 h2)
  omega

theorem rat_floor_eq (t : ℚ) (x : Int) (h1 : (x : ℚ) ≤ t) (h2 : t < (x : ℚ) + 1) : t.floor = x := by
  apply le_antisymm
  · have : t.floor < x + 1 := by
      rw [Rat.floor_lt_iff]; push_cast; exact h2
    omega
  · exact Rat.le_floor_iff.mpr h1

theorem pow10Rat_of_le {p nd : Nat} (h : nd ≤ p) :
    pow10Rat ((p : Int) - (nd : Int)) = ((10 ^ (p - nd) : Nat) : ℚ) := by
  have h1 : (p : Int) - (nd : Int) ≥ 0 := by omega
  have h2 : ((p : Int) - (nd : Int)).toNat = p - nd := by omega
  simp only [pow10Rat, h1, if_true, h2]

theorem pow10Rat_of_lt {p nd : Nat} (h : p < nd) :
    pow10Rat ((p : Int) - (nd : Int)) = 1 / ((10 ^ (nd - p) : Nat) : ℚ) := by
  have h1 : ¬ ((p : Int) - (nd : Int) ≥ 0) := by omega
  have h2 : (-((p : Int) - (nd : Int))).toNat = nd - p := by omega
  simp only [pow10Rat, h1, if_false, h2]

/-- Truncated coefficient and discarded fraction of `q / 10^r` for `N ≤ q < N + 1`. -/
theorem cut_facts (N r : Nat) (q : ℚ) (hr : 1 ≤ r) (h1 : (N : ℚ) ≤ q) (h2 : q < (N : ℚ) + 1) :
    (q * (1 / ((10 ^ r : Nat) : ℚ))).floor.toNat = N / 10 ^ r ∧
    q * (1 / ((10 ^ r : Nat) : ℚ)) - ((N / 10 ^ r : Nat) : ℚ)
      = (((N % 10 ^ r : Nat) : ℚ) + (q - N)) / (2 * ((5 * 10 ^ (r - 1) : Nat) : ℚ)) := by
  have hT : 0 < 10 ^ r := ten_pow_pos r
  have hsplit : 10 ^ r = 2 * (5 * 10 ^ (r - 1)) := by
    obtain ⟨r', rfl⟩ : ∃ r', r = r' + 1 := ⟨r - 1, by omega⟩
    rw [Nat.add_sub_cancel, Nat.pow_succ]; omega
  have hdm := Nat.div_add_mod N (10 ^ r)
  have hml := Nat.mod_lt N hT
  have hsplitq : (2 : ℚ) * ((5 * 10 ^ (r - 1) : Nat) : ℚ) = ((10 ^ r : Nat) : ℚ) := by
    exact_mod_cast hsplit.symm
  rw [hsplitq]
  clear hsplitq hsplit
  generalize 10 ^ r = T at *
  generalize hlo : N / T = lo at *
  generalize hrem : N % T = rem at *
  have hTq : (0 : ℚ) < (T : ℚ) := by exact_mod_cast hT
  have hN : (N : ℚ) = T * lo + rem := by exact_mod_cast hdm.symm
  have hml' : (rem : ℚ) + 1 ≤ T := by exact_mod_cast hml
  constructor
  · have : (q * (1 / (T : ℚ))).floor = (lo : Int) := by
      apply rat_floor_eq
      · rw [mul_one_div, le_div_iff₀ hTq]; push_cast; nlinarith
      · rw [mul_one_div, div_lt_iff₀ hTq]; push_cast; nlinarith
    rw [this]; rfl
  · field_simp
    rw [hN]; ring


theorem frac_exact_eq (rem half : Nat) (δ : ℚ) (sb : Bool) (hh : 0 < half)
    (hδ : if sb then 0 < δ ∧ δ < 1 else δ = 0) :
    ((((rem : ℚ) + δ) / (2 * (half : ℚ))) == 0) = (rem == 0 && !sb) := by
  have hhq : (0 : ℚ) < 2 * (half : ℚ) := by
    have : (0 : ℚ) < half := by exact_mod_cast hh
    linarith
  have hrem : (0 : ℚ) ≤ rem := Nat.cast_nonneg rem
  rw [Bool.eq_iff_iff]
  simp only [beq_iff_eq, Bool.and_eq_true, Bool.not_eq_true', div_eq_zero_iff, hhq.ne', or_false]
  cases sb
  · simp only [Bool.false_eq_true, if_false] at hδ
    subst hδ
    simp
  · simp only [if_true] at hδ
    constructor
    · intro h; linarith [hδ.1]
    · intro h; simp at h

theorem frac_incr_eq (mode : Mode) (neg : Bool) (lo rem r : Nat) (δ : ℚ) (sb : Bool)
    (hδ : if sb then 0 < δ ∧ δ < 1 else δ = 0) :
    incr mode neg lo ((((rem : ℚ) + δ) / (2 * ((5 * 10 ^ (r - 1) : Nat) : ℚ))))
      = incrInt mode neg lo rem r sb := by
  have hh : 0 < 5 * 10 ^ (r - 1) := Nat.mul_pos (by omega) (ten_pow_pos _)
  unfold incr incrInt
  simp only
  generalize 5 * 10 ^ (r - 1) = half at hh
  have hhq : (0 : ℚ) < (half : ℚ) := by exact_mod_cast hh
  have hhq2 : (0 : ℚ) < 2 * (half : ℚ) := by linarith
  have e1 : ((rem : ℚ) + δ) / (2 * (half : ℚ)) > 1 / 2 ↔ (rem : ℚ) + δ > half := by
    rw [gt_iff_lt, div_lt_div_iff₀ (by norm_num) hhq2]
    constructor <;> intro h <;> linarith
  have e2 : ((rem : ℚ) + δ) / (2 * (half : ℚ)) ≥ 1 / 2 ↔ (rem : ℚ) + δ ≥ half := by
    rw [ge_iff_le, div_le_div_iff₀ (by norm_num) hhq2]
    constructor <;> intro h <;> linarith
  have e3 : ((rem : ℚ) + δ) / (2 * (half : ℚ)) = 1 / 2 ↔ (rem : ℚ) + δ = half := by
    rw [div_eq_div_iff hhq2.ne' (by norm_num)]
    constructor <;> intro h <;> linarith
  cases mode <;> simp only [e1, e2, e3]
  · -- ToNearestEven
    rw [Bool.eq_iff_iff]
    simp only [Bool.or_eq_true, Bool.and_eq_true, decide_eq_true_eq, beq_iff_eq]
    cases sb
    · simp only [Bool.false_eq_true, if_false] at hδ
      subst hδ
      simp
    · simp only [if_true] at hδ
      obtain ⟨d0, d1⟩ := hδ
      rcases Nat.lt_trichotomy rem half with h | h | h
      · have hq : (rem : ℚ) + 1 ≤ half := by exact_mod_cast h
        have n1 : ¬ ((rem : ℚ) + δ > half) := by intro; linarith
        have n2 : ¬ ((rem : ℚ) + δ = half) := by intro; linarith
        have n3 : ¬ (rem > half) := by omega
        have n4 : ¬ (rem = half) := by omega
        simp [n1, n2, n3, n4]
      · subst h
        have y1 : ((rem : ℚ) + δ > rem) := by linarith
        simp [y1]
      · have hq : (half : ℚ) + 1 ≤ rem := by exact_mod_cast h
        have y1 : ((rem : ℚ) + δ > half) := by linarith
        simp [y1, h]
  · -- ToNearestAway
    rw [Bool.eq_iff_iff]
    simp only [decide_eq_true_eq]
    cases sb
    · simp only [Bool.false_eq_true, if_false] at hδ
      subst hδ
      simp
    · simp only [if_true] at hδ
      obtain ⟨d0, d1⟩ := hδ
      constructor
      · intro h
        have : (half : ℚ) < (rem : ℚ) + 1 := by linarith
        have : half < rem + 1 := by exact_mod_cast this
        omega
      · intro h
        have : (half : ℚ) ≤ rem := by exact_mod_cast h
        linarith


/-- `Spec.round` past the underflow test, in the same shape as `roundInt`'s tail. -/
theorem round_eq_tail (mode : Mode) (p : Nat) (neg : Bool) (q : ℚ) (k : Int)
    (hmin : ¬ (decExp q + k < MinExp)) :
    Spec.round mode p neg q k =
      let t := q * pow10Rat ((p : Int) - decExp q)
      let lo := t.floor.toNat
      roundIntTail p neg lo (decExp q + k) (t - (lo : ℚ) == 0) (incr mode neg lo (t - (lo : ℚ))) := by
  unfold Spec.round roundIntTail
  simp only [hmin, if_false]
  generalize q * pow10Rat (↑p - decExp q) = t
  generalize (!t - ↑t.floor.toNat == 0 && incr mode neg t.floor.toNat (t - ↑t.floor.toNat)) = inc
  generalize (if inc = true then t.floor.toNat + 1 else t.floor.toNat) = c
  by_cases hc : (c == 10 ^ p) = true
  · simp only [hc, if_true, add_right_comm]
  · simp only [hc, Bool.false_eq_true, if_false]

theorem roundInt_eq_round (mode : Mode) (p : Nat) (neg : Bool) (N : Nat) (k : Int) (sb : Bool)
    (q : ℚ) (hN : 0 < N) (_hp : 1 ≤ p) (hsb : sb = true → p + 1 ≤ ndigits N)
    (hq : if sb then (N : ℚ) < q ∧ q < (N : ℚ) + 1 else q = (N : ℚ)) :
    Spec.roundInt mode p neg N k sb = Spec.round mode p neg q k := by
  have hNq : (0 : ℚ) < N := by exact_mod_cast hN
  have h1 : (N : ℚ) ≤ q := by
    cases sb
    · simp only [Bool.false_eq_true, if_false] at hq; rw [hq]
    · simp only [if_true] at hq; exact le_of_lt hq.1
  have h2 : q < (N : ℚ) + 1 := by
    cases sb
    · simp only [Bool.false_eq_true, if_false] at hq; rw [hq]; linarith
    · simp only [if_true] at hq; exact hq.2
  have hδ : if sb then 0 < q - N ∧ q - N < 1 else q - N = 0 := by
    cases sb
    · simp only [Bool.false_eq_true, if_false] at hq ⊢; rw [hq]; ring
    · simp only [if_true] at hq ⊢; constructor <;> linarith [hq.1, hq.2]
  have hqpos : 0 < q := lt_of_lt_of_le hNq h1
  have hdec : decExp q = (ndigits N : Int) := by
    apply decExp_unique hqpos
    · have := (ndigits_cast_bounds hN).1
      have hnd := ndigits_pos hN
      have e : ((ndigits N : Int) - 1) = ((ndigits N - 1 : Nat) : Int) := by omega
      rw [e, zpow_natCast]
      exact le_trans this h1
    · rw [zpow_natCast]
      have : N + 1 ≤ 10 ^ ndigits N := ndigits_lt_pow N
      have : (N : ℚ) + 1 ≤ (10 : ℚ) ^ ndigits N := by exact_mod_cast this
      linarith
  by_cases hmin : (ndigits N : Int) + k < MinExp
  · simp [Spec.round, roundInt, hdec, hmin]
  rw [round_eq_tail mode p neg q k (by rw [hdec]; exact hmin)]
  simp only [hdec]
  by_cases hfit : ndigits N ≤ p
  · -- the coefficient fits: exact
    have hsb' : sb = false := by
      cases sb
      · rfl
      · have := hsb rfl; omega
    subst hsb'
    simp only [Bool.false_eq_true, if_false] at hq
    subst hq
    rw [pow10Rat_of_le hfit]
    have ht : (N : ℚ) * ((10 ^ (p - ndigits N) : Nat) : ℚ) = ((N * 10 ^ (p - ndigits N) : Nat) : ℚ) := by
      push_cast; ring
    have hfl : (((N * 10 ^ (p - ndigits N) : Nat) : ℚ)).floor.toNat = N * 10 ^ (p - ndigits N) := by
      have : (((N * 10 ^ (p - ndigits N) : Nat) : ℚ)).floor = ((N * 10 ^ (p - ndigits N) : Nat) : Int) := by
        apply rat_floor_eq <;> push_cast <;> linarith
      rw [this]; rfl
    have hlt : N * 10 ^ (p - ndigits N) < 10 ^ p := by
      have : 10 ^ p = 10 ^ ndigits N * 10 ^ (p - ndigits N) := by
        rw [← Nat.pow_add]; congr 1; omega
      rw [this]
      exact Nat.mul_lt_mul_of_pos_right (ndigits_lt_pow N) (ten_pow_pos _)
    have hne : (N * 10 ^ (p - ndigits N) == 10 ^ p) = false := by
      simp; omega
    rw [ht]
    simp only [hfl, sub_self]
    simp [roundInt, roundIntTail, hmin, hfit, hne]
  · have hgt : p < ndigits N := by omega
    rw [roundInt_eq_tail mode p neg N k sb hmin hgt, pow10Rat_of_lt hgt]
    obtain ⟨c1, c2⟩ := cut_facts N (ndigits N - p) q (by omega) h1 h2
    simp only [c1, c2]
    rw [frac_exact_eq _ _ _ sb (Nat.mul_pos (by omega) (ten_pow_pos _)) hδ,
      frac_incr_eq mode neg _ _ _ _ sb hδ]

/-! ### Scale invariance of `Spec.round` -/

theorem decExp_scale {q : ℚ} (hq : 0 < q) (s : Nat) :
    decExp (q * ((10 ^ s : Nat) : ℚ)) = decExp q + s := by
  obtain ⟨b1, b2⟩ := decExp_bounds hq
  have h10 : (0 : ℚ) < 10 := by norm_num
  have hs : (0 : ℚ) < ((10 ^ s : Nat) : ℚ) := by positivity
  have hcast : ((10 ^ s : Nat) : ℚ) = (10 : ℚ) ^ (s : Int) := by
    rw [zpow_natCast]; push_cast; rfl
  apply decExp_unique (mul_pos hq hs)
  · have : decExp q + (s : Int) - 1 = (decExp q - 1) + (s : Int) := by ring
    rw [this, zpow_add₀ h10.ne', hcast]
    exact mul_le_mul_of_nonneg_right b1 (le_of_lt (by rw [← hcast]; exact hs))
  · rw [zpow_add₀ h10.ne', hcast]
    exact mul_lt_mul_of_pos_right b2 (by rw [← hcast]; exact hs)

theorem round_underflow (mode : Mode) (p : Nat) (neg : Bool) (q : ℚ) (k : Int)
    (h : decExp q + k < MinExp) :
    Spec.round mode p neg q k = { form := .zero, neg := neg, acc := makeAcc neg } := by
  simp [Spec.round, h]

/-- `Spec.round` only depends on the magnitude `q × 10^k`, not on how it is split. -/
theorem round_scale (mode : Mode) (p : Nat) (neg : Bool) (q : ℚ) (k : Int) (s : Nat) (hq : 0 < q) :
    Spec.round mode p neg (q * ((10 ^ s : Nat) : ℚ)) (k - s) = Spec.round mode p neg q k := by
  have hd := decExp_scale hq s
  have he : decExp q + (s : Int) + (k - s) = decExp q + k := by ring
  have h10 : (10 : ℚ) ≠ 0 := by norm_num
  have ht : q * ((10 ^ s : Nat) : ℚ) * pow10Rat ((p : Int) - (decExp q + s))
      = q * pow10Rat ((p : Int) - decExp q) := by
    rw [pow10Rat_eq_zpow, pow10Rat_eq_zpow]
    have : ((10 ^ s : Nat) : ℚ) = (10 : ℚ) ^ (s : Int) := by
      rw [zpow_natCast]; push_cast; rfl
    rw [this, mul_assoc, ← zpow_add₀ h10]
    congr 2; ring
  by_cases hmin : decExp q + k < MinExp
  · rw [round_underflow _ _ _ _ _ hmin, round_underflow _ _ _ _ _ (by rw [hd, he]; exact hmin)]
  · rw [round_eq_tail mode p neg q k hmin, round_eq_tail mode p neg _ (k - s) (by rw [hd, he]; exact hmin)]
    simp only [hd, he, ht]

end Decimal
