/-
  `FMA`: the product is formed exactly in a scratch Decimal of precision `MaxPrec`, then `Add`
  rounds once.
-/
import Proofs.ArithOps

namespace Decimal
open Spec

/-- The rational number a scaled value stands for (only ever used symbolically). -/
noncomputable def sqVal (v : SQ) : ℚ := v.s * (10 : ℚ) ^ v.k

theorem natpow_cast_zpow (n : Nat) : ((10 ^ n : Nat) : ℚ) = (10 : ℚ) ^ (n : Int) := by
  rw [zpow_natCast]; push_cast; rfl

theorem sqVal_add (a b : SQ) : sqVal (a.add b) = sqVal a + sqVal b := by
  obtain ⟨s, k⟩ := a
  obtain ⟨t, l⟩ := b
  have h10 : (10 : ℚ) ≠ 0 := by norm_num
  rw [SQ_add_eq]
  unfold sqVal
  simp only [natpow_cast_zpow]
  rw [add_mul, mul_assoc, mul_assoc, ← zpow_add₀ h10, ← zpow_add₀ h10]
  congr 3 <;> omega

/-- `roundSQ` depends only on the value. -/
theorem roundSQ_scale (mode : Mode) (p : Nat) (s : ℚ) (k : Int) (d : Nat) (zn : Bool) :
    roundSQ mode p ⟨s * ((10 ^ d : Nat) : ℚ), k - d⟩ zn = roundSQ mode p ⟨s, k⟩ zn := by
  have hd : (0 : ℚ) < ((10 ^ d : Nat) : ℚ) := by positivity
  rcases lt_trichotomy s 0 with hs | hs | hs
  · rw [roundSQ_neg _ _ ⟨s, k⟩ _ hs, roundSQ_neg _ _ ⟨_, _⟩ _ (mul_neg_of_neg_of_pos hs hd)]
    simp only
    rw [← neg_mul, round_scale _ _ _ _ _ _ (by linarith)]
  · rw [roundSQ_zero _ _ ⟨s, k⟩ _ hs, roundSQ_zero _ _ ⟨_, _⟩ _ (by simp [hs])]
  · rw [roundSQ_pos _ _ ⟨s, k⟩ _ hs, roundSQ_pos _ _ ⟨_, _⟩ _ (mul_pos hs hd)]
    simp only
    rw [round_scale _ _ _ _ _ _ hs]

theorem roundSQ_congr_val_le (mode : Mode) (p : Nat) (v w : SQ) (zn : Bool)
    (hk : v.k ≤ w.k) (h : sqVal v = sqVal w) : roundSQ mode p v zn = roundSQ mode p w zn := by
  obtain ⟨s, k⟩ := v
  obtain ⟨t, l⟩ := w
  simp only at hk
  have h10 : (10 : ℚ) ≠ 0 := by norm_num
  obtain ⟨d, hd⟩ : ∃ d : Nat, l = k + d := ⟨(l - k).toNat, by omega⟩
  subst hd
  unfold sqVal at h
  simp only at h
  rw [zpow_add₀ h10, ← mul_assoc] at h
  have hs : s = t * ((10 ^ d : Nat) : ℚ) := by
    rw [natpow_cast_zpow]
    have hz : (10 : ℚ) ^ k ≠ 0 := zpow_ne_zero _ h10
    have : s * (10 : ℚ) ^ k = (t * (10 : ℚ) ^ (d : Int)) * (10 : ℚ) ^ k := by rw [h]; ring
    exact mul_right_cancel₀ hz this
  rw [hs]
  have : k = (k + (d : Int)) - (d : Int) := by ring
  conv_lhs => rw [this]
  exact roundSQ_scale mode p t (k + d) d zn

theorem roundSQ_congr_val (mode : Mode) (p : Nat) (v w : SQ) (zn : Bool)
    (h : sqVal v = sqVal w) : roundSQ mode p v zn = roundSQ mode p w zn := by
  rcases le_total v.k w.k with hk | hk
  · exact roundSQ_congr_val_le mode p v w zn hk h
  · exact (roundSQ_congr_val_le mode p w v zn hk h.symm).symm

/-- The exact sum only depends on the values of the addends. -/
theorem addExact_congr (mode : Mode) (p : Nat) (a b : Bool) (q q' r : ℚ) (k k' l : Int)
    (h : q * (10 : ℚ) ^ k = q' * (10 : ℚ) ^ k') :
    Spec'.addExact mode p a q k b r l = Spec'.addExact mode p a q' k' b r l := by
  unfold Spec'.addExact
  apply roundSQ_congr_val
  rw [sqVal_add, sqVal_add]
  congr 1
  unfold sqVal signedQ
  cases a <;> simp [h]

/-- When the normalised mantissa fits the precision and the exponent is in range,
    `setNormAndRound` stores it unchanged, exactly. -/
theorem setNormAndRound_fits (z : Dec) (M : Nat) (e : Int) (sb : Bool)
    (hfit : nwords M * 19 ≤ z.prec)
    (hmin : MinExp ≤ e + (ndigits M : Int)) (hmax : e + (ndigits M : Int) ≤ MaxExp) :
    setNormAndRound z M e sb =
      ⟨.finite, z.neg, M * 10 ^ dnormShift M (nwords M), nwords M, e + (ndigits M : Int), z.prec,
        z.mode, Exact⟩ := by
  have hs := ndigits_add_dnormShift M
  have hE : e + ((nwords M * DW : Nat) : Int) - ((dnormShift M (nwords M) : Nat) : Int)
      = e + (ndigits M : Int) := by rw [DW_eq]; omega
  unfold setNormAndRound
  simp only [hE]
  unfold setExpAndRound
  have h1 : ¬ e + (ndigits M : Int) < MinExp := by omega
  have h2 : ¬ e + (ndigits M : Int) > MaxExp := by omega
  simp only [h1, h2, if_false]
  exact round_short _ _ _ _ _ _ _ _ hfit

/-- Precision of the receiver of `FMA` after the prologue. -/
def effPrec3 (z x y u : Dec) : Nat :=
  if z.prec == 0 then umax (umax x.prec y.prec) u.prec else z.prec

theorem effPrec3_pos (z : Dec) {x y u : Dec} (hu : FinCanon u) : 1 ≤ effPrec3 z x y u := by
  have := hu.prec_pos
  unfold effPrec3
  by_cases h : z.prec = 0
  · simp only [h, beq_self_eq_true, if_true]
    exact Nat.le_trans this (le_umax_right_a _ _)
  · simp only [beq_iff_eq, h, if_false]; omega

/-- The exact product held by the scratch Decimal `z0` of `FMA`. -/
def fmaProd (z x y u : Dec) : Dec :=
  let P := x.mant * y.mant
  ⟨.finite, x.neg != y.neg, P * 10 ^ dnormShift P (nwords P), nwords P,
    intExp x + intExp y + (ndigits P : Int), effPrec3 z x y u, z.mode, Exact⟩

theorem nwords_mul_le {x y : Dec} (hx : FinCanon x) (hy : FinCanon y) :
    nwords (x.mant * y.mant) ≤ x.len + y.len := by
  have h1 := ndigits_lt_pow x.mant
  have h2 := ndigits_lt_pow y.mant
  rw [hx.nd] at h1
  rw [hy.nd] at h2
  have : x.mant * y.mant < 10 ^ (x.len * 19 + y.len * 19) := by
    rw [Nat.pow_add]
    exact Nat.mul_lt_mul'' h1 h2
  have := (ndigits_le_iff _ _).mpr this
  rw [nwords_def]; omega

theorem fma_eq (z x y u : Dec) (hx : FinCanon x) (hy : FinCanon y) (hu : FinCanon u)
    (hlen : (x.len + y.len) * 19 ≤ MaxPrec)
    (hmin : MinExp ≤ intExp x + intExp y + (ndigits (x.mant * y.mant) : Int))
    (hmax : intExp x + intExp y + (ndigits (x.mant * y.mant) : Int) ≤ MaxExp) :
    fma z x y u = add (fmaProd z x y u) (fmaProd z x y u) u := by
  have hp := effPrec3_pos z (x := x) (y := y) hu
  have hw := nwords_mul_le hx hy
  have hpro : (if z.prec == 0 then { z with prec := umax (umax x.prec y.prec) u.prec } else z)
      = { z with prec := effPrec3 z x y u } := by
    unfold effPrec3
    by_cases h : z.prec = 0 <;> simp [h]
  have hprod : umul ⟨z.form, x.neg != y.neg, z.mant, z.len, z.exp, MaxPrec, z.mode, z.acc⟩ x y
      = ⟨.finite, x.neg != y.neg, x.mant * y.mant * 10 ^ dnormShift (x.mant * y.mant) (nwords (x.mant * y.mant)),
          nwords (x.mant * y.mant), intExp x + intExp y + (ndigits (x.mant * y.mant) : Int), MaxPrec,
          z.mode, Exact⟩ := by
    unfold umul
    exact setNormAndRound_fits _ _ _ _ (by simp only; omega) hmin hmax
  have hne : (effPrec3 z x y u == 0) = false := by simp; omega
  unfold fma
  simp only [hpro, opnd, Bool.false_eq_true, if_false, hx.form_eq, hy.form_eq, hu.form_eq,
    beq_self_eq_true, Bool.and_self, if_true]
  have hz : ((Form.finite == Form.zero) = false) := by decide
  simp only [hz, Bool.false_and, Bool.false_eq_true, if_false, hprod]
  -- the aliased first operand of the final `Add` is the receiver itself
  unfold add fmaProd
  simp only [hne, Bool.false_eq_true, if_false, opnd, if_true, hu.form_eq, beq_self_eq_true,
    Bool.and_self]


theorem fmaProd_finCanon (z x y u : Dec) (hx : FinCanon x) (hy : FinCanon y) (hu : FinCanon u)
    (hmin : MinExp ≤ intExp x + intExp y + (ndigits (x.mant * y.mant) : Int))
    (hmax : intExp x + intExp y + (ndigits (x.mant * y.mant) : Int) ≤ MaxExp) :
    FinCanon (fmaProd z x y u) := by
  have hP : 0 < x.mant * y.mant := Nat.mul_pos hx.mant_pos hy.mant_pos
  exact ⟨rfl, nwords_pos hP, ndigits_dnorm hP, effPrec3_pos z hu, hmin, hmax⟩

theorem fma_correct (z x y u : Dec) (hx : FinCanon x) (hy : FinCanon y) (hu : FinCanon u)
    (hlen : (x.len + y.len) * 19 ≤ MaxPrec)
    (hmin : MinExp ≤ intExp x + intExp y + (ndigits (x.mant * y.mant) : Int))
    (hmax : intExp x + intExp y + (ndigits (x.mant * y.mant) : Int) ≤ MaxExp) :
    agrees (fma z x y u).1
        (Spec'.addExact z.mode (effPrec3 z x y u) (x.neg != y.neg) ((x.mant : ℚ) * (y.mant : ℚ))
          (intExp x + intExp y) u.neg u.mant (intExp u)) = true
      ∧ (fma z x y u).2 = .ok ∧ (fma z x y u).1.prec = effPrec3 z x y u
      ∧ (fma z x y u).1.mode = z.mode := by
  have hp := effPrec3_pos z (x := x) (y := y) hu
  have hc := fmaProd_finCanon z x y u hx hy hu hmin hmax
  rw [fma_eq z x y u hx hy hu hlen hmin hmax]
  have h := Decimal.add_correct (fmaProd z x y u) (fmaProd z x y u) u hc hu
  have hpe : effPrec2 (fmaProd z x y u) (fmaProd z x y u) u = effPrec3 z x y u := by
    unfold effPrec2
    have : ((fmaProd z x y u).prec == 0) = false := by
      show (effPrec3 z x y u == 0) = false
      simp; omega
    simp only [this, Bool.false_eq_true, if_false]; rfl
  rw [hpe] at h
  have hval : ((fmaProd z x y u).mant : ℚ) * (10 : ℚ) ^ (intExp (fmaProd z x y u))
      = ((x.mant : ℚ) * (y.mant : ℚ)) * (10 : ℚ) ^ (intExp x + intExp y) := by
    have h10 : (10 : ℚ) ≠ 0 := by norm_num
    have hs := ndigits_add_dnormShift (x.mant * y.mant)
    have hie : intExp (fmaProd z x y u)
        = intExp x + intExp y - ((dnormShift (x.mant * y.mant) (nwords (x.mant * y.mant)) : Nat) : Int) := by
      show intExp x + intExp y + (ndigits (x.mant * y.mant) : Int)
        - ((nwords (x.mant * y.mant) * DW : Nat) : Int) = _
      rw [DW_eq]; omega
    rw [hie]
    show ((x.mant * y.mant * 10 ^ dnormShift (x.mant * y.mant) (nwords (x.mant * y.mant)) : Nat) : ℚ) * _ = _
    generalize dnormShift (x.mant * y.mant) (nwords (x.mant * y.mant)) = s
    rw [Nat.cast_mul, natpow_cast_zpow, mul_assoc, ← zpow_add₀ h10]
    push_cast
    congr 2; ring
  rw [addExact_congr _ _ _ _ _ _ _ _ _ _ hval] at h
  exact h

/-- Exact cancellation in `FMA`: `x·y + u = 0` gives `+0`, `−0` under `ToNegativeInf`. -/
theorem fma_zero_sum_sign (z x y u : Dec) (hx : FinCanon x) (hy : FinCanon y) (hu : FinCanon u)
    (hlen : (x.len + y.len) * 19 ≤ MaxPrec)
    (hmin : MinExp ≤ intExp x + intExp y + (ndigits (x.mant * y.mant) : Int))
    (hmax : intExp x + intExp y + (ndigits (x.mant * y.mant) : Int) ≤ MaxExp)
    (hzero : ((signedQ (x.neg != y.neg) ((x.mant : ℚ) * (y.mant : ℚ)) (intExp x + intExp y)).add
      (signedQ u.neg u.mant (intExp u))).s = 0) :
    (fma z x y u).1.form = .zero ∧ (fma z x y u).1.acc = Exact
      ∧ (fma z x y u).1.neg = zeroSumSign z.mode (x.neg != y.neg) u.neg := by
  obtain ⟨h, _⟩ := fma_correct z x y u hx hy hu hlen hmin hmax
  unfold Spec'.addExact at h
  rw [roundSQ_zero _ _ _ _ hzero, agrees_iff] at h
  exact ⟨h.1, h.2.2.1, h.2.1⟩

end Decimal
